#!/bin/bash
# usage: seed_verify.sh <ID> [worktree]  — re-confirms a seeded change in its scratch worktree:
#   patch applies to a clean HEAD, builds, all stable tests pass, demo fails with patch, passes without.
# Reads OUT/{patch.diff,demo.rs,meta.json}; demo placement + command come from meta.json ("demo_place", "demo_cmd")
set -u
ID=$1; WT=${2:-/tmp/seed_$ID}; OUT=$WT/OUT
cd $WT || exit 2
export CARGO_NET_OFFLINE=true CARGO_TARGET_DIR=$WT/target
git checkout -q -- . ; git clean -qfd -e OUT -e target -e fulltest.log >/dev/null 2>&1
git apply --check $OUT/patch.diff || { echo "RESULT patch-does-not-apply"; exit 1; }
DEMO_CMD=$(python3 -c "import json;print(json.load(open('$OUT/meta.json'))['demo_cmd'])")
echo "demo_cmd: $DEMO_CMD"
run_demo() { ( cd $WT && for d in versatiles*; do mkdir -p $d/tests; done; bash -c "$DEMO_CMD" ) > $WT/demo_$1.log 2>&1; echo $?; }
# without patch
R0=$(run_demo nopatch)
git checkout -q -- . ; git clean -qfd -e OUT -e target -e fulltest.log -e 'demo_*.log' >/dev/null 2>&1
git apply $OUT/patch.diff
R1=$(run_demo patch)
# demo files may have been copied by the demo_cmd itself; remove untracked test files before the suite
git clean -qfd -e OUT -e target -e fulltest.log -e 'demo_*.log' >/dev/null 2>&1
python3 /tmp/baseline_check.py $WT --log $WT/fulltest_verify.log > $WT/baseline_verify.txt 2>&1; RB=$?
tail -1 $WT/baseline_verify.txt
echo "RESULT demo_without_patch_exit=$R0 demo_with_patch_exit=$R1 baseline_exit=$RB"
