#!/usr/bin/env python3
"""Runs the repository's test suite (guard off) in a given checkout and compares with BASELINE.json's
stable_pass list.  usage: baseline_check.py [repo_dir] [--log file]   exit 0 iff every stable test passed."""
import json, re, subprocess, sys, os
repo = sys.argv[1] if len(sys.argv) > 1 and not sys.argv[1].startswith("--") else "/repo"
log = None
if "--log" in sys.argv: log = sys.argv[sys.argv.index("--log") + 1]
if log and os.path.exists(log) and "--reuse" in sys.argv:
    out = open(log).read()
else:
    env = dict(os.environ, CARGO_NET_OFFLINE="true"); env.pop("RUSTFLAGS", None)
    p = subprocess.run(["cargo", "test", "--workspace", "--no-fail-fast", "--offline"], cwd=repo, env=env,
                       stdout=subprocess.PIPE, stderr=subprocess.STDOUT)
    out = p.stdout.decode("utf-8", "replace")
    if log: open(log, "w").write(out)
base = json.load(open("/root/.vp/BASELINE.json"))
passed = set(); failed = set()
cur = None
for line in out.splitlines():
    m = re.match(r"\s*Running (unittests )?(\S+) \(.*/deps/([A-Za-z0-9_]+)-[0-9a-f]+\)", line)
    if m:
        src, crate = m.group(2), m.group(3)
        cur = f"{crate}::bin/{crate}" if src.endswith("main.rs") else crate
        continue
    m = re.match(r"\s*Doc-tests (\S+)", line)
    if m: cur = None; continue
    m = re.match(r"test (\S+) \.\.\. (ok|FAILED|ignored)", line)
    if m and cur:
        name = f"{cur}::{m.group(1)}"
        (passed if m.group(2) == "ok" else failed).add(name)
    m = re.match(r"test (\S+) - should panic \.\.\. (ok|FAILED)", line)
    if m and cur:
        name = f"{cur}::{m.group(1)}"
        (passed if m.group(2) == "ok" else failed).add(name)
stable = set(base["stable_pass"])
missing = sorted(stable - passed)
print(f"passed={len(passed)} failed={len(failed)} stable={len(stable)} stable_not_passed={len(missing)}")
for n in missing[:40]: print("  NOT PASSED:", n)
sys.exit(1 if missing else 0)
