#!/bin/bash
# usage: seed_store.sh <ID> <worktree> <dest-name> <CHECK>...  — confirm a seeded change in its worktree, store it, run the checks
ID=$1; WT=$2; DEST=$3; shift 3
tools/seed_verify.sh $ID $WT > /tmp/w/verify_$DEST.out 2>&1
RES=$(tail -1 /tmp/w/verify_$DEST.out); BASE=$(tail -2 /tmp/w/verify_$DEST.out | head -1)
echo "$RES"
case "$RES" in *"demo_without_patch_exit=0 demo_with_patch_exit=101 baseline_exit=0"*) ;; *) echo "NOT CONFIRMED"; exit 1;; esac
mkdir -p seeded/$DEST && cp $WT/OUT/patch.diff $WT/OUT/demo.rs seeded/$DEST/
python3 - "$WT" "$DEST" "$RES" "$BASE" <<'P'
import json,subprocess,sys
wt,dest,res,base=sys.argv[1:5]
d=json.load(open(wt+'/OUT/meta.json'))
d['base_commit']=subprocess.check_output(['git','-C','/repo','rev-parse','HEAD']).decode().strip()
d['round']=7
d['confirmed_by_me']={"script":"tools/seed_verify.sh","result":res,"baseline":base}
json.dump(d,open('/verif/seeded/'+dest+'/meta.json','w'),indent=1)
P
tools/seed_test.sh /verif/seeded/$DEST/patch.diff "$@" 2>&1 | tail -12
