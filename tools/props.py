"""Per-property configuration for ./check."""
import re

TRUSTED_BASE = [
    "Coq 8.16.1 kernel (coqc); vm_compute used for finite facts; no native_compute",
    "hand-written Gallina models in coq/Model (tied to /repo by the correspondence run of this check)",
    "tools/scrape_constants.py + `vharness tables` (regenerate coq/Gen/*.v from the source)",
    "extraction: ExtrOcamlBasic only, no Extract Constant; ocaml/model_run.ml driver; OCaml 4.13.1",
    "Rust harness (generators, canonicalisation) in /verif/harness; python3 ./check comparing lines",
]
ALLOWED_AXIOMS = []     # the development is axiom-free; anything Print Assumptions lists is an alarm
TABLES = False
NEED_BINARY = False
RELEASE_HARNESS = False
HOOK_COMMITS = []
NOT_YET = {}

def _cache_nontrivial(line):
    # a history long enough to pass through at least one eviction
    m = re.match(r"cache (\d+) (\S*) =>", line)
    return bool(m) and m.group(2).count(",") + 1 > int(m.group(1))

PROPS = {
    "C20": {
        "cmd": "c20",
        "level_text": "All four clauses are Coq theorems over every capacity and every operation history (induction over the history, no bound): capacity + no duplicate keys, provenance of returned values, get_or_set semantics, and survival of a just-used entry at the next eviction for every capacity >= 2 (capacity 1 is proved impossible for any cache). The model is tied to the code by regenerating the median index from limited_cache.rs and by running >100k histories (exhaustive small scope + random long ones) on LimitedCache and on the extracted model, comparing every returned value, the length and the stamp counter.",
        "level_note": "Trusted: Coq kernel, the hand model coq/Model/Cache.v (HashMap as association list; u64 stamp overflow ignored), scraper regex for the median index, extraction + OCaml driver, Rust harness. Print Assumptions: closed under the global context for every theorem.",
        "theorems": ["C20_gen_median_is_lower", "C20_capacity", "C20_provenance", "C20_get_or_set",
                     "C20_recent_survives", "C20_cap1_impossible"],
        "nontrivial": _cache_nontrivial,
        "rule": "histories over add/get/get_or_set(ok|err): exhaustive for <=3 keys, capacity<=4, length<=5, plus seeded random "
                "histories (capacity 1..64, length<=1000); every line = one history run on LimitedCache<u64,u64> and on the "
                "extracted Coq model, all returned values + final length + last_index compared; distinct = distinct lines; "
                "non-trivial = more operations than the capacity (an eviction can occur)",
        "partial": "u64 overflow of last_index (2^64 operations) not modelled; HashMap internals abstracted by an association list",
        "assumptions": ["LimitedCache is observed at <u64,u64>; the model is generic in nothing that depends on the key type beyond equality"],
    },
}
