"""Per-property configuration for ./check."""
import re

TRUSTED_BASE = [
    "Coq 8.16.1 kernel (coqc); vm_compute used for finite facts; no native_compute",
    "hand-written Gallina models in coq/Model (tied to /repo by the correspondence run of this check)",
    "tools/scrape_constants.py + `vharness tables` (regenerate coq/Gen/*.v from the source)",
    "extraction: ExtrOcamlBasic only, no Extract Constant; ocaml/model_run.ml driver; OCaml 4.13.1",
    "Rust harness (generators, canonicalisation) in /verif/harness; python3 ./check comparing lines",
]
ALLOWED_AXIOMS = []     # the development is axiom-free; anything Print Assumptions lists is an alarm
TABLES = False
NEED_BINARY = False
RELEASE_HARNESS = False
HOOK_COMMITS = []
NOT_YET = {}

def _cache_nontrivial(line):
    # a history long enough to pass through at least one eviction
    m = re.match(r"cache (\d+) (\S*) =>", line)
    return bool(m) and m.group(2).count(",") + 1 > int(m.group(1))

def _bbox_nontrivial(line):
    # at least one non-empty box among the arguments, or an error/overflow outcome
    if re.search(r"=> (err|panic|overflow)", line): return True
    for m in re.finditer(r"\b(\d+)/(\d+)/(\d+)/(\d+)/(\d+)\b", line.split(" => ")[0]):
        z, x0, y0, x1, y1 = map(int, m.groups())
        if x0 <= x1 and y0 <= y1: return True
    return False

PROPS = {
    "C15": {
        "cmd": "c15",
        "theorems": ["C15_gen_index_is_64bit", "C15_gen_border_saturates", "C15_empty", "C15_contains", "C15_intersect",
                     "C15_include_least", "C15_include_coord_least", "C15_overlaps", "C15_count_enumeration", "C15_index_inverse",
                     "C15_grid_partition", "C15_grid_size0", "C15_flip", "C15_swap", "C15_add_border", "C15_constructors"],
        "nontrivial": _bbox_nontrivial,
        "level_text": "Set semantics of TileBBox proved in Coq for every level <= 31 and every u32 field value, both empty encodings and half-empty boxes: emptiness, containment, intersection, least bounding union (box and coordinate), overlap, count = length of the duplicate-free row-major enumeration, index <-> coordinate inverse (any box size), grid split is a partition into aligned non-empty cells without panic/overflow, flip/swap involutions with their images, add_border. The model is tied to the code by running every public TileBBox operation on all boxes (incl. malformed ones) at zoom <= 3, all/sampled pairs, and border-biased samples up to zoom 31, comparing results including error/panic/overflow outcomes; the index and add_border arithmetic variants are regenerated from the source.",
        "level_note": "Trusted: Coq kernel, hand model coq/Model/BBox.v (u32 as N with explicit overflow outcomes), scraper regexes, extraction + OCaml driver, harness. Geographic conversion (from_geo/as_geo_bbox, IEEE-754 + libm) is covered by Proofs/GeoProofs (exact rational model) and tested, not proved for f64. Print Assumptions: closed under the global context.",
        "rule": "one line = one TileBBox operation on concrete boxes run on the implementation and on the extracted model; exhaustive over all 5625 boxes (fields 0..max+1) at zoom<=3 for unary ops and all pairs at zoom<=2 (sampled at 3), plus seeded samples to zoom 31 biased to 0/1/255/256/257/max; spec-level brute force over member sets at zoom<=3; distinct = distinct lines; non-trivial = some argument box non-empty or an err/panic/overflow outcome",
        "partial": "IEEE-754 rounding inside from_geo/as_geo_bbox is tested, not proved; release-profile wrap-around of overflowing u32 arithmetic is not modelled (dev-profile overflow panics are)",
        "assumptions": ["boxes are observed through the public fields of TileBBox; levels <= 31"],
    },
    "C20": {
        "cmd": "c20",
        "level_text": "All four clauses are Coq theorems over every capacity and every operation history (induction over the history, no bound): capacity + no duplicate keys, provenance of returned values, get_or_set semantics, and survival of a just-used entry at the next eviction for every capacity >= 2 (capacity 1 is proved impossible for any cache). The model is tied to the code by regenerating the median index from limited_cache.rs and by running >100k histories (exhaustive small scope + random long ones) on LimitedCache and on the extracted model, comparing every returned value, the length and the stamp counter.",
        "level_note": "Trusted: Coq kernel, the hand model coq/Model/Cache.v (HashMap as association list; u64 stamp overflow ignored), scraper regex for the median index, extraction + OCaml driver, Rust harness. Print Assumptions: closed under the global context for every theorem.",
        "theorems": ["C20_gen_median_is_lower", "C20_capacity", "C20_provenance", "C20_get_or_set",
                     "C20_recent_survives", "C20_cap1_impossible"],
        "nontrivial": _cache_nontrivial,
        "rule": "histories over add/get/get_or_set(ok|err): exhaustive for <=3 keys, capacity<=4, length<=5, plus seeded random "
                "histories (capacity 1..64, length<=1000); every line = one history run on LimitedCache<u64,u64> and on the "
                "extracted Coq model, all returned values + final length + last_index compared; distinct = distinct lines; "
                "non-trivial = more operations than the capacity (an eviction can occur)",
        "partial": "u64 overflow of last_index (2^64 operations) not modelled; HashMap internals abstracted by an association list",
        "assumptions": ["LimitedCache is observed at <u64,u64>; the model is generic in nothing that depends on the key type beyond equality"],
    },
}
