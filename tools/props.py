"""Per-property configuration for ./check."""
import re

TRUSTED_BASE = [
    "Coq 8.16.1 kernel (coqc); vm_compute used for finite facts; no native_compute",
    "hand-written Gallina models in coq/Model (tied to /repo by the correspondence run of this check)",
    "tools/scrape_constants.py + `vharness tables` (regenerate coq/Gen/*.v from the source)",
    "extraction: ExtrOcamlBasic only, no Extract Constant; ocaml/model_run.ml driver; OCaml 4.13.1",
    "Rust harness (generators, canonicalisation) in /verif/harness; python3 ./check comparing lines",
]
ALLOWED_AXIOMS = []     # the development is axiom-free; anything Print Assumptions lists is an alarm
TABLES = False
NEED_BINARY = True
RELEASE_HARNESS = False
HOOK_COMMITS = ["fae2886e"]
NOT_YET = {}

def _cache_nontrivial(line):
    # a history long enough to pass through at least one eviction
    m = re.match(r"cache (\d+) (\S*) =>", line)
    return bool(m) and m.group(2).count(",") + 1 > int(m.group(1))

def _bbox_nontrivial(line):
    # at least one non-empty box among the arguments, or an error/overflow outcome
    if re.search(r"=> (err|panic|overflow)", line): return True
    for m in re.finditer(r"\b(\d+)/(\d+)/(\d+)/(\d+)/(\d+)\b", line.split(" => ")[0]):
        z, x0, y0, x1, y1 = map(int, m.groups())
        if x0 <= x1 and y0 <= y1: return True
    return False

def _pipe_nontrivial(line):
    rhs = line.split(" => ", 1)[-1]
    return bool(re.search(r"\d+:\d+:\d+:\d+|(^| ;; )\d{4,}( ;; |$)|panic|err", rhs))

_PIPE_RULE = ("one line = one pipeline expression (random nesting of in-memory leaf sources, filter_zoom, filter_bbox, from_overlayed with 2-4 "
              "sources, TilesConvertReader with flip/swap/requested pyramid; depth<=3) built from VPL text through PipelineFactory and queried "
              "with 24 lookups / bbox streams (full, random, both empty encodings, beyond coverage, coordinates outside the level) / coverage "
              "levels; the same expression and queries are evaluated on the extracted Coq model; the harness also compares every answer with "
              "the reference tile map of the expression (layer S). distinct = distinct lines; non-trivial = at least one answer carries a tile "
              "or a failure")
_PIPE_NOTE = ("Trusted: Coq kernel, hand model coq/Model/Pipeline.v (payloads are opaque ids; streams compared as maps), scraped converter facts, "
              "extraction + OCaml driver, harness (MemSource with the default lookup-loop stream). Container readers' own optimised streams "
              "(versatiles chunked reads, mbtiles SQL) are exercised at spec level by C01/C16 checks, not modelled here. Print Assumptions: closed.")

PROPS = {
    "C01": {
        "cmd": "c01",
        "theorems": ["C01_gen_index_variant", "C01_versatiles_layout", "C01_pmtiles_tile_id", "C01_pmtiles_directory", "C01_pmtiles_find", "C01_mbtiles_flip"],
        "nontrivial": lambda l: (l.startswith("vtblocks") and ";" in l.split(" => ")[-1]) or (l.startswith("tileid") and not l.endswith("err") and not l.startswith("tileid 0 ")) or l.startswith("idcoord") or (l.startswith("pmdir.") and ";" in l),
        "rule": "tile sets of 7 shapes (scattered with zoom gaps, across the 256 block border, dense low pyramid, duplicates around the 1000-byte de-duplication threshold, irregular extremes, distant blocks with empty blocks between, single tiles at the borders of levels 0..30; thorough adds sets of more than 16384 tiles) x 5 containers x 7 (format, compression) pairs are written with write_to_filename and reopened with get_reader: parameters, exact coverage, lookups over stored coordinates and their neighbours / parents / children, streams over level boxes, sub-boxes, empty and oversized boxes, metadata; every written file is ALSO decoded by decoders written for the harness from the published layouts (versatiles v02: header, brotli block index, 33-byte block definitions, 12-byte tile index entries; PMTiles v3: header, column-wise varint directories, Hilbert ids by quadrant recursion, leaf directories, clustered flag; MBTiles: plain SQL; tar / directory: member names) and must give the same mapping and declaration; correspondence lines: vtblocks (block grid and slot occupancy of the written file = the Coq writer model vt_write for the same coverage and tile set), tileid / idcoord (coordinates of the sets, level extremes, random deep coordinates, invalid ones) against the extracted loops and against the independent curve, pmdir.ser / pmdir.de / pmdir.find (generated, independently encoded and mutated directories; lookups around every entry) against the extracted serialiser, parser and binary search",
        "level_text": "Proved in Coq: versatiles - for every coverage pyramid and every tile set the writer's block grid (one block per 256-cell, one slot per coordinate, via the C15 grid-partition and index-inverse theorems) answers every reader lookup with exactly the source tile and nothing outside the coverage; PMTiles - the two code-shaped tile-id loops (including the negative intermediates of `s-1-tx`) are inverse on all 32 levels, directories written by serialize_entries are read back unchanged, the binary search finds every entry of a sorted directory; MBTiles - the TMS flip is an involution. Byte offsets, de-duplication, compression and the tar/SQLite libraries are below the model: they are checked by the independent decoders on every run.",
        "level_note": "Trusted: Coq kernel; models coq/Model/{VTFormat,TileId,PMDir,BBox}.v; extraction + driver; harness incl. its independent decoders (flate2, brotli, tar, SQLite libraries are shared with the implementation). Tile-id arithmetic is modelled over Z: the code computes in i64/u64 and the correspondence lines at the extremes of level 31 run with overflow checks on. Print Assumptions: closed.",
        "partial": "byte-level layout (offsets, de-duplicated ranges, leaf directory split at 16 KiB, tar and directory naming, SQLite) is tested against independent decoders, not proved; the Coq layout theorem covers coordinate -> block -> slot addressing, tile ids and directory encoding",
        "harness_timeout": 1500,
    },
    "C02": {
        "cmd": "c02",
        "theorems": ["C02_gen_relations", "C02_stream_equals_lookups", "C02_lookup_total", "C02_operators_preserve"],
        "nontrivial": _pipe_nontrivial, "rule": _PIPE_RULE,
        "level_text": "Proved in Coq by structural induction over pipeline expressions of any depth and width: for every well-formed box (both empty encodings, boxes beyond coverage) the stream of leaf / filter_zoom / filter_bbox / from_overlayed (32-grid slot filling, any number of sources) / TilesConvertReader terminates without failure, has no duplicate coordinate and contains exactly the single-tile lookups inside the box. Each operator is proved to preserve the property given that its children have it. Tied to the code by running random pipelines built through PipelineFactory on a multi-thread runtime and on the extracted model.",
        "level_note": _PIPE_NOTE,
        "partial": "the parallel stream stages are covered by C14; file-backed readers' optimised streams are tested end-to-end (C01/C16), their algorithms are not in this model",
    },
    "C03": {
        "cmd": "c03",
        "theorems": ["C03_coverage_sound", "C03_include_coord_fold_exact", "C03_overlay_union"],
        "nontrivial": _pipe_nontrivial, "rule": _PIPE_RULE,
        "level_text": "Proved in Coq: for every pipeline expression a tile returned by a lookup lies inside the advertised level box (soundness preserved by every operator, structural induction); folding include_coord over stored coordinates (tar/directory/PMTiles coverage) yields a well-formed box containing every stored tile; overlay coverage contains every source's coverage. Correspondence: coverage boxes of random pipelines compared between implementation and model, and checked against the reference tile map.",
        "level_note": _PIPE_NOTE + " MBTiles MIN/MAX coverage with the three-column row refinement and the versatiles block-box union are checked end-to-end by the container checks.",
        "partial": "MBTiles SQL evaluation and per-format coverage derivation from files are tested (C01/C16 harness), not proved",
    },
    "C06": {
        "cmd": "c06",
        "theorems": ["C06_gen_relations", "C06_transform_inverse", "C06_lookup", "C06_lookup_stream_coverage_agree"],
        "nontrivial": _pipe_nontrivial, "rule": _PIPE_RULE,
        "level_text": "Proved in Coq for all four flag combinations, any requested pyramid and any source: the converter's lookup at c returns the source tile at the pre-image T^-1(c) (flip first, then swap) exactly when c is inside its level and inside the requested selection; lookup, stream and advertised coverage agree (so `serve` and `convert` expose the same mapping); T and T^-1 are mutually inverse on valid coordinates; no panic. The three facts about converter.rs the proof relies on (inverse order in get_tile_data, level guard, selection guard) are regenerated from the source on every run; the pre-fix behaviours are kept as refuted lemmas with witnesses.",
        "level_note": _PIPE_NOTE + " CLI option parsing (convert.rs get_bbox_pyramid, add_border, from_geo) is covered by C15 theorems (add_border, from_geo model) and spec-level runs.",
        "partial": "recompression inside the converter is C04; geographic box to tile box conversion is C15",
    },
    "C08": {
        "cmd": "c08",
        "theorems": ["C08_gen_relations", "C08_lookup_first_some", "C08_stream_lookup_coverage", "C08_cell", "C08_coverage_union"],
        "nontrivial": _pipe_nontrivial, "rule": _PIPE_RULE,
        "level_text": "Proved in Coq for any number of sources with arbitrary coverages: lookup = first source in list order that has a tile; the 32x32-grid slot-filling stream (bounding box of still-missing slots per source, fill only empty slots, index arithmetic) returns exactly those tiles once each, for every box, without panic, given children that satisfy C02/C03; coverage contains the union. Correspondence on random overlays (2-4 sources, nested in filters/converters, disjoint/nested/overlapping coverages).",
        "level_note": _PIPE_NOTE + " Mixed source compressions (recompress to the declared compression) are exercised by the C04 check.",
        "partial": "recompression of overlay results is C04's concern; sources are uncompressed in this model",
    },
    "C09": {
        "cmd": "c09",
        "theorems": ["C09_zoom", "C09_bbox", "C09_chain", "C09_chain_mixed", "C09_stream"],
        "nontrivial": _pipe_nontrivial, "rule": _PIPE_RULE + "; plus build-time argument cases (valid degenerate boxes on/off tile edges, reversed, out-of-range, NaN, infinite)",
        "level_text": "Proved in Coq for every min/max combination (absent, min>max, beyond the range) and every per-level tile box: the filter returns the source's tile unchanged exactly inside the filter and nothing otherwise; chains are intersections; streams agree with lookups; the explicit hypothesis is that the child's coverage is sound (C03). Build-time handling of invalid geographic arguments (error, never panic; valid degenerate boxes accepted with non-empty tile boxes) is checked against the implementation at spec level.",
        "level_note": _PIPE_NOTE + " from_geo itself (f64, libm) is outside this model: the per-level tile boxes of a geographic bbox are taken from the implementation and handed to the model.",
        "partial": "argument validation (GeoBBox::check, VPLDecode extraction) is tested at spec level, not modelled",
    },
    "C04": {
        "cmd": "c04",
        "theorems": ["C04_blob", "C04_failure_only_on_undecodable_source", "C04_recompress", "C04_meta"],
        "nontrivial": lambda l: not l.endswith("=> -") and not l.endswith(":same"),
        "rule": "exhaustive decision tables run on the implementation and on the extracted model: new_tile_recompressor for all 3x3x2 (source, target, force) and optimize_compression for all 3 stored x 8 allowed-sets x 3 goals (declared encoding + whether the bytes were re-encoded); spec level: utils::recompress / process_blob on 6 payload classes (empty, 1 byte, 70 KiB incompressible, 200 KiB compressible, 999 bytes, JSON) x 3x3x2, and convert_tiles_container into versatiles/pmtiles/tar (thorough: + directory, mbtiles) for source compression x target {keep,none,gzip,brotli} x force, every output tile decoded with the DECLARED compression by independent inflaters (flate2/brotli crates called directly) and compared with the source payload; metadata read back. non-trivial = a combination that re-encodes",
        "level_text": "Proved in Coq for ANY pair of lawful codecs (decomp(comp b) = b) and any payload: for all source/target compressions and the force flag the recompressor pipeline yields a blob that, decoded with the declared target compression, equals the source tile decoded with the source compression; it fails only when the source blob itself does not decode; utils::recompress and the metadata compress/decompress pair likewise. The decision functions are tied to the code exhaustively (all 18 + 72 rows compared on every run); gzip/brotli lawfulness on real payloads is tested by every conversion of the run.",
        "level_note": "Trusted: Coq kernel; flate2/brotli satisfy decomp(comp b) = b (an explicit hypothesis of the theorems, tested not proved); hand model coq/Model/Recompress.v; extraction + driver; harness with independent inflaters. Print Assumptions: closed under the global context.",
        "partial": "the codecs are abstract; that the converter applies the pipeline to every streamed tile is C14 + the end-to-end conversions",
    },
    "C05": {
        "cmd": "c05", "binary": True,
        "theorems": ["C05_gen_empty_path_guarded", "C05_status_total", "C05_status_200_iff", "C05_parsed_coordinate_valid", "C05_body",
                     "C05_always_answers", "C05_images_not_recompressed", "C05_token_listed_allowed", "C05_accept_encoding_subsets"],
        "nontrivial": lambda l: not l.endswith("=> 404"),
        "rule": "raw HTTP/1.1 (TcpStream, no client-side normalisation) against the freshly built `versatiles serve` with 6 versatiles sources (png/pbf x 3 stored compressions), one mbtiles, one pmtiles, one tar source and an everywhere-defined source: (1) ~120 request paths (numeric/non-numeric parts, signs, leading zeros, suffixes, z up to 256, x/y up to 2^32, empty and repeated segments) on the everywhere-defined source, status compared with the Coq path model (one line each); (2) per source 17 coordinates (stored, missing, beyond the level, block border) x Accept-Encoding variants (all 326 ordered subsets of {gzip,br,deflate,identity,zstd} for three coordinates, 12 sampled for the others; plain, weighted, odd spacing, absent): status, Content-Type, Content-Encoding listed by the client, body decoded per Content-Encoding by independent inflaters equals the stored tile; every request must yield a complete response; tiles.json parsed. non-trivial = a line whose status is not 404",
        "level_text": "Proved in Coq: the path handler always yields a status in {200,400,404} (never a dropped connection), 200 exactly when the path parses to a coordinate where the source holds a tile; parsed coordinates are valid; for any lawful codecs the negotiated (body, Content-Encoding) pair is allowed by the client and decodes to the stored tile, an answer always exists, images are never re-compressed; a listed token always enables its encoding and on all 326 ordered token selections the substring test equals token membership. Tied to the code by the scraped empty-path guard, the exhaustive optimize_compression table (C04 check) and raw HTTP exchanges with the built binary.",
        "level_note": "Trusted: Coq kernel; models coq/Model/Http.v (ASCII request paths; axum/hyper routing and header handling are exercised, not modelled) and Recompress.v; gzip/brotli lawfulness (tested); harness raw-socket client; the built binary is the debug profile with overflow checks. Print Assumptions: closed.",
        "partial": "axum/hyper internals, non-ASCII `is_numeric` characters in y, q=0 weights (the property only speaks of positive weights)",
        "harness_timeout": 1200,
    },
    "C07": {
        "cmd": "c07", "binary": True,
        "theorems": ["C07_gen_guard_refuses_parent_dir", "C07_folder_confined", "C07_tar_confined"],
        "nontrivial": lambda l: not l.endswith("=> none"),
        "rule": "raw HTTP requests against `versatiles serve -s <dir>`, `-s [/assets/]<dir>`, `-s <tar>`, `-s [/assets/]<tar>` with canary files outside the root (parent directory, sibling directory whose name extends the root's): hand-picked traversal attempts (.., %2e%2e, ..%2f, backslash, leading //abs, ///abs) plus 1500 (thorough 12000) random sequences of 1-5 segments over {sub, file.txt, ., .., empty, %2e%2e, %2f, secret.txt, www-private, ..%2f, absolute path}; a response body containing a canary is a violation; for the plain folder root every target is also evaluated by the Coq model (which file is served, if any) and compared. non-trivial = a line that serves a file",
        "level_text": "Proved in Coq for every request path (any sequence of segments, absolute remainders that replace the root, percent-encoded text kept literal): if the folder source's guard lets the joined path through, the file the OS opens (with '..' resolved) lies below the configured root; the tar source only returns entries of its table. The lexical-only guard of the pinned source is refuted by the witness /../secret. Tie: the guard variant is regenerated from static_source_folder.rs, every generated target is served by the real binary and compared with the model's verdict, canaries detect any escape.",
        "level_note": "Trusted: Coq kernel; model coq/Model/StaticPath.v of Path::join / components / starts_with and of OS path resolution (validated by the same runs); symbolic links inside the root are outside the model; harness. Print Assumptions: closed.",
        "partial": "symlinks; OS path resolution is an assumption of the model",
        "harness_timeout": 1200,
    },
    "C10": {
        "cmd": "c10",
        "theorems": ["C10_gen_relations", "C10_features", "C10_failure_only_on_invalid_tags", "C10_reindex", "C10_varint_roundtrip"],
        "nontrivial": lambda l: l.startswith("mvt.merge") or (l.startswith("mvt.") and "=" in l.split(" => ")[-1]),
        "rule": "tiles are produced by an encoder written for the harness from the MVT specification (independent of the repository), using the freedoms other encoders use: duplicate and unused key/value table entries, int64 / sint64 / uint64 / float / double / bool / string values incl. extreme magnitudes, unknown geometry type 0, non-default extent and version, ids up to 2^64-1, tables before or after the features, 0-3 layers, 0-5 features; every tile is decoded by the implementation and by the extracted Coq decoder (mvt.dec), re-encoded and decoded again (mvt.rt), and compared with the content the encoder put in; every second tile is also mutated (bit flip, truncation, byte replacement, insertion) and must decode or fail identically in both; varint/zig-zag values go through the implementation's writer and reader (varint, svarint lines); merging: 2-4 in-memory sources (uncompressed / gzip / brotli, some without a tile at the coordinate) through `from_vectortiles_merged [...]`: the looked-up and the streamed output are decoded and compared with the expected grouping by layer name and concatenation of features in source order, and with the Coq merge model (mvt.merge lines); existence iff some source has a tile; output declared uncompressed. non-trivial = a merge line, or a decoded tile with at least one property",
        "level_text": "Proved in Coq for arbitrary tables (any order, duplicates, unused entries) and any number of features: add_from_layer leaves the target's features unchanged and appends the source's features in order, each with the same id, geometry type, geometry bytes and decoded property list although every tag id is re-indexed; it fails only when a source feature's tags do not decode in its own layer; encode_tag_ids followed by decode_tag_ids is the identity and tables only grow; varints round-trip for every u64. The model (decoder, encoder, merger) is compared with the implementation on independently encoded, re-encoded, mutated and merged tiles on every run.",
        "level_note": "Trusted: Coq kernel; model coq/Model/MVT.v (floats as bit patterns, strings as bytes with UTF-8 validity checked in the driver, HashMap layer order canonicalised by sorting); scraped table/zig-zag variants; hook versatiles_geometry::vector_tile::verif_hooks is not needed for this check (public API only); extraction + driver; harness with its own MVT encoder. Full byte-level decode(encode t) = t is checked by the runs, not proved. Print Assumptions: closed.",
        "partial": "byte-level wire round trip of whole tiles is tested (mvt.rt lines), not proved; geometry is opaque bytes",
    },
    "C11": {
        "cmd": "c11",
        "theorems": ["C11_gen_relations", "C11_tables_kept_as_stored", "C11_reencode_identity", "C11_untouched_features", "C11_zigzag_roundtrip", "C11_varint_roundtrip"],
        "nontrivial": lambda l: l.startswith("svarint") or (l.startswith("mvt.") and "=" in l.split(" => ")[-1]),
        "rule": "tiles are produced by an encoder written for the harness from the MVT specification (independent of the repository), using the freedoms other encoders use: duplicate and unused key/value table entries, int64 / sint64 / uint64 / float / double / bool / string values incl. extreme magnitudes, unknown geometry type 0, non-default extent and version, ids up to 2^64-1, tables before or after the features, 0-3 layers, 0-5 features; every tile is decoded by the implementation and by the extracted Coq decoder (mvt.dec), re-encoded and decoded again (mvt.rt), and compared with the content the encoder put in; every second tile is also mutated (bit flip, truncation, byte replacement, insertion) and must decode or fail identically in both; varint/zig-zag values go through the implementation's writer and reader (varint, svarint lines); update: tiles whose layers carry a `tid` property go through `vectortiles_update_properties` with a generated CSV (ids 0..3 partly missing; values that parse as strings, bools, ints, uints, doubles, empty) for all 8 combinations of replace_properties / remove_non_matching / include_id (and a layer name that may be absent): the output is decoded and compared with the expected join (other layers content-equal; retained features keep order, id, type, geometry; properties merged or replaced; unmatched kept or dropped). non-trivial = a zig-zag line or a decoded tile with at least one property",
        "level_text": "Proved in Coq: a layer's tables are kept exactly as stored when read (so tag ids keep their meaning; the pre-fix de-duplicating read is refuted by the witness a,b,a,c); re-encoding any property list into any tables and decoding it again is the identity (what filter_map_properties does for retained features); features that are not re-encoded keep id, type, geometry and properties when tables grow; zig-zag decoding inverts encoding on the whole i64 range (the pre-fix arithmetic-shift decoder is refuted at 2^63-1); varints round-trip for every u64. Join semantics of the operation (merge / replace / removal / id column) are checked against an independently written expectation on every run.",
        "level_note": "Trusted: Coq kernel; model coq/Model/MVT.v; scraped variants; extraction + driver; harness with its own MVT encoder and its own statement of the join semantics. The CSV reader and GeoValue::parse_str typing are tested, not modelled. Print Assumptions: closed.",
        "partial": "the join itself (Runner::run, CSV typing) is tested at spec level; frequency-sorted table construction (PropertyManager::from_iter) is abstracted - the theorems hold for any tables",
    },
    "C12": {
        "cmd": "c12",
        "theorems": ["C12_versatiles", "C12_pmtiles", "C12_torn_field"],
        "nontrivial": lambda l: (l.startswith("c12.vt ") or l.startswith("c12.pm ")) or (l.startswith("c12.") and l.endswith("err")) or (l.startswith("c12.vthdr") and not l.endswith(" 0")),
        "rule": "tile sets of 6 shapes (block-border, duplicates, scattered, distant blocks, irregular, many blocks so that the compressed block index exceeds 255 bytes) x 3 compressions are written by VersaTilesWriter and PMTilesWriter into a recording DataWriterTrait; c12.vt / c12.pm lines carry the recorded operation sequence and the extracted Coq predicate vt_wfb / pm_wfb must accept it (the hypothesis of the theorems); for pmtiles the model also computes which states (every operation boundary, every byte cut of the final header write) pass pm_view and the list must equal the states PMTilesReader::open_reader accepts; c12.vthdr / c12.pmhdr lines compare the implementation's header parsers with the model's on every torn final header; the premise about decompress_brotli (rejects every strict prefix of the block index) is validated on every file; spec level: EVERY crash state (every operation prefix x every byte cut of the next operation, incl. the torn final header overlaying the old bytes) is materialised and opened with the real reader: it must fail, or return every source tile intact",
        "level_text": "Proved in Coq for every operation sequence of the recorded shape, every number of completed operations and every byte cut: versatiles - if open_reader accepts the bytes on disk they are exactly the complete file (so a torn header is accepted only when the unwritten bytes are zero anyway); pmtiles - if the header checks pass, the reader sees the same ranges, counts, compressions and data bytes as in the complete file. Big-endian torn-field lemma: a partially written length never exceeds the final length. Tie to the code: the shape predicates are evaluated on every recorded sequence; header parsers are compared on all torn headers; exhaustive crash-state enumeration against the real readers.",
        "level_note": "Trusted: Coq kernel; model coq/Model/Crash.v (file = byte list, holes read as zero, an interrupted operation persists a prefix of its bytes, operations persist in order); extraction + driver; harness and its recording writer. Assumed about external code and validated on every run: decompress_brotli rejects the empty input and all strict prefixes of the block index. Print Assumptions: closed.",
        "partial": "write reordering by the OS page cache (later operations reaching the disk before earlier ones) is outside the model: the writers issue no fsync, so the property is about prefixes of the operation sequence, as its quantifier says; pmtiles header bytes 99..126 (tile type, zoom range, bounds) of an accepted torn file may still be zero - tiles are intact, tile type then reads as BIN",
    },
    "C13": {
        "cmd": "c13",
        "theorems": ["C13_gen_positional_read", "C13_read_range", "C13_cached_index_lookup"],
        "nontrivial": lambda l: True,
        "rule": "one `sysprog` line: the syscalls of one DataReaderFile::read_range observed under strace (lseek/read/pread64 with a distinctive offset and length) must equal the program the Coq model assigns to read_range (regenerated variant); spec level: 2/8/16 OS threads and 16 tasks on an 8-worker runtime issue 2*10^5 (thorough 4*10^6) random range reads against one reader over a file whose every 8-byte word encodes its own offset - any misplaced read is a violation. distinct_nontrivial counts distinct lines only (the stress reads are reported under input_distribution)",
        "level_text": "Proved in Coq: with positional reads every caller of read_range gets exactly its own byte range for every number of callers and every interleaving of syscalls on the single shared open file description (induction over the schedule); the pre-fix `dup+lseek+read` program is refuted by a two-caller schedule; index lookups through the mutex-protected LimitedCache return the index of their own key for every history (from C20's provenance theorem). Tie to the code: the syscall program is observed with strace on every run and compared with the model's; the read variant is regenerated from data_reader_file.rs; a multi-threaded stress run searches for misplaced reads.",
        "level_note": "Trusted: Coq kernel; the abstraction 'one shared offset per open file description, dup shares it, pread does not use it' (POSIX); strace output parsing; harness. Kernel and tokio scheduling cannot be enumerated: the theorem covers all schedules of the syscalls the code is shown to issue. versatiles/pmtiles/tar reader-level concurrent lookups are exercised by the C01/C16 harness runs, their async-mutex critical sections are modelled as atomic.",
        "partial": "kernel/tokio schedules are not enumerable; the stress run is a search, not a proof; reader-level (versatiles, pmtiles, tar) lookups rely on the atomic-critical-section abstraction",
        "extended_search": False,
    },
    "C14": {
        "cmd": "c14",
        "theorems": ["C14_map_perm", "C14_filter_map_perm", "C14_progress", "C14_terminates", "C14_accepts_sound", "C14_buffered"],
        "nontrivial": lambda l: bool(re.match(r"chunks \d+ \d+ => \d", l)) or (l.startswith("acc ") and (lambda o: o != sorted(o))([int(x) for x in re.findall(r"\d+", l.split(" => ")[0].split(" ", 3)[3])] if len(l.split(" => ")[0].split(" ")) > 3 else [])),
        "rule": "every completion order of streams of 0..5 items (0..6 thorough) is forced through per-item delays on a 16-worker runtime (map_blob_parallel), plus long streams (up to 1500 / 10^4 items) with adversarial delays through map_blob_parallel, filter_map_blob_parallel and from_coord_iter_parallel, and for_each_buffered with k in {0,1,2,3,7,64,2000}; each observed output order is judged by the extracted Coq `accepts` (permutation + window), chunk sizes are compared with the model's chunker; spec level: every output carries the result of its own coordinate, each retained input exactly once. distinct = distinct lines; non-trivial = an actually reordered output, or a non-empty chunk list",
        "level_text": "Proved in Coq for every window size n >= 1, every input length and every schedule (every order in which in-flight tasks complete): the unordered-buffer stage emits a permutation of the mapped input (one output per input, each computed from its own input, coordinate inside the task), the filter variants keep exactly the retained results, a non-terminal state can always step and every step decreases a measure (no stuck item, termination), every emitted order passes the executable acceptance test, and for_each_buffered delivers every item once in order in chunks of exactly k (all but the last), k = 0 giving singletons. Tied to the code by forcing all completion orders of small streams and adversarial delays on long ones and judging the observed orders with the extracted acceptance test.",
        "level_note": "Trusted: Coq kernel; the transition-system abstraction of `stream.map(spawn).buffer_unordered(n)` in coq/Model/Stream.v (futures::buffer_unordered and tokio scheduling are represented by 'start in input order, at most n in flight, any in-flight task may complete'), extraction + driver, harness. The runs validate the abstraction; they cannot enumerate tokio's schedules. Print Assumptions: closed.",
        "partial": "futures/tokio internals are abstracted by the step relation and validated only by the runs",
    },
    "C15": {
        "cmd": "c15",
        "theorems": ["C15_gen_index_is_64bit", "C15_gen_border_saturates", "C15_empty", "C15_contains", "C15_intersect",
                     "C15_include_least", "C15_include_coord_least", "C15_overlaps", "C15_count_enumeration", "C15_index_inverse",
                     "C15_grid_partition", "C15_grid_size0", "C15_flip", "C15_swap", "C15_add_border", "C15_constructors"],
        "nontrivial": _bbox_nontrivial,
        "level_text": "Set semantics of TileBBox proved in Coq for every level <= 31 and every u32 field value, both empty encodings and half-empty boxes: emptiness, containment, intersection, least bounding union (box and coordinate), overlap, count = length of the duplicate-free row-major enumeration, index <-> coordinate inverse (any box size), grid split is a partition into aligned non-empty cells without panic/overflow, flip/swap involutions with their images, add_border. The model is tied to the code by running every public TileBBox operation on all boxes (incl. malformed ones) at zoom <= 3, all/sampled pairs, and border-biased samples up to zoom 31, comparing results including error/panic/overflow outcomes; the index and add_border arithmetic variants are regenerated from the source.",
        "level_note": "Trusted: Coq kernel, hand model coq/Model/BBox.v (u32 as N with explicit overflow outcomes), scraper regexes, extraction + OCaml driver, harness. Geographic conversion (from_geo/as_geo_bbox, IEEE-754 + libm) is covered by Proofs/GeoProofs (exact rational model) and tested, not proved for f64. Print Assumptions: closed under the global context.",
        "rule": "one line = one TileBBox operation on concrete boxes run on the implementation and on the extracted model; exhaustive over all 5625 boxes (fields 0..max+1) at zoom<=3 for unary ops and all pairs at zoom<=2 (sampled at 3), plus seeded samples to zoom 31 biased to 0/1/255/256/257/max; spec-level brute force over member sets at zoom<=3; distinct = distinct lines; non-trivial = some argument box non-empty or an err/panic/overflow outcome",
        "partial": "IEEE-754 rounding inside from_geo/as_geo_bbox is tested, not proved; release-profile wrap-around of overflowing u32 arithmetic is not modelled (dev-profile overflow panics are)",
        "assumptions": ["boxes are observed through the public fields of TileBBox; levels <= 31"],
    },
    "C16": {
        "cmd": "c16",
        "theorems": ["C16_gen_index_variant", "C16_directory_any_encoder", "C16_find_tile_is_spec", "C16_find_in_run", "C16_coverage_complete", "C16_tile_id", "C16_versatiles_listed_block", "C16_versatiles_unlisted"],
        "nontrivial": lambda l: (l.startswith("pmdir.find") and not l.endswith("none")) or (l.startswith("pmdir.") and ";" in l) or l.startswith("idcoord") or (l.startswith("tileid") and not l.endswith("err")),
        "rule": "tile sets (consecutive Hilbert ids sharing a payload, also across a zoom boundary; plus the C01 shapes) are encoded by encoders written for the harness from the published layouts, using the freedoms the repository's writers never use: versatiles - sparse block index, partial or full block boxes, blocks and blobs in any order, padding, shared ranges; PMTiles - run lengths (incl. runs that continue into the next zoom level), shared offsets, one or two levels of leaf directories of arbitrary size, optional use of the offset-0 shorthand, internal compression none or gzip; MBTiles - TMS rows via plain SQL, `tiles` as a table or as a view over map/images, any row order; tar - members with or without './', directory members, any order; directory tree. Every file is opened with get_reader and must give the encoded tiles, exact coverage (PMTiles, MBTiles, tar, directory), streams, lookups of neighbours/parents/children, format and compression. Correspondence lines: the implementation's find_tile on every directory of the encoded trees, from_blob on independently encoded and mutated directories, tile ids in both directions - against the extracted Coq functions",
        "level_text": "Proved in Coq: from_blob inverts every admissible directory serialisation (any use of the contiguous-offset shorthand); find_tile equals the published lookup rule on every directory with increasing ids (binary search invariant), finds the entry of every run for every id inside it and every leaf pointer for the ids behind it; the coverage scan visits every id of every run; the tile-id loops are inverse on all levels; the versatiles reader answers from the listed block for any block list with unique block coordinates (sparse, partial blocks) and answers None elsewhere.",
        "level_note": "Trusted: Coq kernel; models coq/Model/{PMDir,TileId,VTFormat}.v; extraction + driver; the harness's encoders (they define what 'valid by the published layout' means here) and the flate2/brotli/tar/SQLite libraries. Print Assumptions: closed.",
        "partial": "the multi-level directory walk (pm_lookup through leaf directories, depth limit 3) and the byte-level parsing of versatiles blocks are tested end-to-end against the encoders, the theorems cover one directory / one block list; MBTiles and tar/directory acceptance is tested, not modelled",
        "harness_timeout": 1500,
    },
    "C17": {
        "cmd": "c17",
        "theorems": ["C17_gen_hex_escape_checked", "C17_string_roundtrip", "C17_value_roundtrip"],
        "nontrivial": lambda l: bool(re.search(r"\b(34|92|1?[0-9]|2[0-9]|3[01]|12[7-9]|1[3-5][0-9])\b", l.split(" => ")[0].split(" ", 1)[-1])) or "err" in l,
        "rule": "strings: every code point 0..256 alone plus seeded random strings (quotes, backslashes, all control classes, BMP edge cases, non-BMP) are quoted by the implementation and by the Coq model (json.quote lines), parsed back, and read by an independent strict RFC 8259 parser written for the harness; json.pstr lines feed arbitrary (mostly malformed: bad \\u windows, lone surrogates, unterminated) quoted strings to parse_quoted_json_string and the model; json.val lines parse stringified random values (nesting <= 3, finite f64 incl. subnormals/1e300/-0, objects with arbitrary keys) with both; TileJSON through 4 container formats is part of the C01 harness, served tiles.json of the C05 harness. non-trivial = the input contains a character that needs escaping, or the outcome is an error",
        "level_text": "Proved in Coq: for every list of Unicode scalar values parse(quote(escape s)) = s (all nine escape cases, \\u00XX for every control character by arithmetic on the hex digits); for every JSON value (unbounded nesting and width, numbers as f64 Display prints them, arbitrary object keys) parse(stringify v) = v, by induction over values with the parser's whitespace skipping and separators. The model is tied to the code by comparing quote / parse_quoted_json_string / parse on thousands of generated and malformed texts, the \\u window handling is regenerated from the source; an independent strict parser confirms the output is standard JSON with the same meaning.",
        "level_note": "Trusted: Coq kernel; model coq/Model/Json.v over scalar values (the byte-level parser only inspects ASCII bytes; validated for all BMP + sampled astral characters); f64 Display/FromStr round trip and shape are Rust std guarantees (tested on generated floats, not modelled); BTreeMap key ordering (canonicalised in the driver); extraction + driver; harness with its own strict JSON parser. Print Assumptions: closed.",
        "partial": "f64 printing/parsing; TileJSON field mapping (from_object/as_object, narrowing) is tested through containers, not modelled",
    },
    "C18": {
        "cmd": "c18",
        "theorems": ["C18_gen_empty_value_accepted", "C18_quoted_value_roundtrip"],
        "nontrivial": lambda l: "=> ok:" in l and ("91" in l.split(" => ")[0] or "124" in l.split(" => ")[0] or "34" in l.split(" => ")[0]),
        "rule": "texts = 30 hand-picked cases + random syntax trees (nesting <= 3, 1-3 nodes per pipeline, 0-3 properties with 1-3 values over an alphabet that includes quotes, backslashes, line breaks, tabs, brackets, separators and non-ASCII, 0-3 nested source pipelines) rendered with random whitespace (space/tab/CR/LF at every optional position), random quoting (bare when possible), bracket lists or repeated keys, plus one mutation (delete/duplicate/insert/replace/truncate) of every third text; every text is parsed by parse_vpl (guarded re-export) and by the extracted Coq parser and the trees are compared (properties canonicalised as the BTreeMap does); spec level: parse(render(tree)) = tree, and 16 invalid pipelines (unknown operation, missing/mistyped parameters, too few sources) must be rejected without panic by PipelineFactory. non-trivial = an accepted text using brackets, pipes or quoted strings",
        "level_text": "The Coq parser mirrors the nom combinators one to one (recoverable Error vs cut Failure, separator give-back in separated_list0, opt around source lists, escaped_transform's behaviour on an empty body). Proved so far: every value, whatever characters it contains (also the empty value), round-trips through quoted-string syntax; the pre-fix rejection of an empty quoted value is a refuted lemma. The full theorem `parse (print p) = p for every syntax tree and layout` is NOT yet proved (partial claim); agreement of the model with parse_vpl on trees and on accept/reject is checked on every run over randomly laid-out and mutated texts, and the spec-level round trip is checked on the implementation.",
        "level_note": "Trusted: Coq kernel; model coq/Model/VPL.v (ASCII classes as in nom's AsChar for char); hook versatiles_pipeline::verif_hooks (guarded re-export of parse_vpl); extraction + driver (BTreeMap merge of repeated keys is done in the driver); harness. VPLDecode typed extraction and the factory lookup are tested at spec level only. Print Assumptions: closed.",
        "partial": "whole-pipeline round-trip theorem for arbitrary layouts is not proved yet; typed parameter extraction (VPLDecode derive) is tested, not modelled",
    },
    "C20": {
        "cmd": "c20",
        "level_text": "All four clauses are Coq theorems over every capacity and every operation history (induction over the history, no bound): capacity + no duplicate keys, provenance of returned values, get_or_set semantics, and survival of a just-used entry at the next eviction for every capacity >= 2 (capacity 1 is proved impossible for any cache). The model is tied to the code by regenerating the median index from limited_cache.rs and by running >100k histories (exhaustive small scope + random long ones) on LimitedCache and on the extracted model, comparing every returned value, the length and the stamp counter.",
        "level_note": "Trusted: Coq kernel, the hand model coq/Model/Cache.v (HashMap as association list; u64 stamp overflow ignored), scraper regex for the median index, extraction + OCaml driver, Rust harness. Print Assumptions: closed under the global context for every theorem.",
        "theorems": ["C20_gen_median_is_lower", "C20_capacity", "C20_provenance", "C20_get_or_set",
                     "C20_recent_survives", "C20_cap1_impossible"],
        "nontrivial": _cache_nontrivial,
        "rule": "histories over add/get/get_or_set(ok|err): exhaustive for <=3 keys, capacity<=4, length<=5, plus seeded random "
                "histories (capacity 1..64, length<=1000); every line = one history run on LimitedCache<u64,u64> and on the "
                "extracted Coq model, all returned values + final length + last_index compared; distinct = distinct lines; "
                "non-trivial = more operations than the capacity (an eviction can occur)",
        "partial": "u64 overflow of last_index (2^64 operations) not modelled; HashMap internals abstracted by an association list",
        "assumptions": ["LimitedCache is observed at <u64,u64>; the model is generic in nothing that depends on the key type beyond equality"],
    },
}
