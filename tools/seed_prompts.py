#!/usr/bin/env python3
"""usage: seed_prompts.py <round> <outdir> <ID>...  - writes one self-contained prompt per property for a fresh
sub-agent that is to produce a seeded, property-breaking change in its own scratch worktree /tmp/seed<round>_<ID>.
The prompt contains only the property's text and one-line summaries of the changes already stored for it."""
import json, os, sys, glob
rnd, out, ids = sys.argv[1], sys.argv[2], sys.argv[3:]
os.makedirs(out, exist_ok=True)
props = {json.loads(l)["id"]: json.loads(l) for l in open("/verif/properties.jsonl")}
T = open("/verif/tools/seed_prompt_template.txt").read()
for i in ids:
    p = props[i]; a = p["anchors"]
    prev = []
    for d in sorted(glob.glob(f"/verif/seeded/{i}*/meta.json")):
        prev.append(json.load(open(d))["summary"][:300])
    covered = "\n".join(f'({k+1}) "{s}..."' for k, s in enumerate(prev))
    mech = "; ".join(f"{m.get('name', m) if isinstance(m, dict) else m}" + (f" @ {m.get('where')}" if isinstance(m, dict) and m.get('where') else "") for m in a.get("mechanism", []))
    txt = (T.replace("{WT}", f"/tmp/seed{rnd}_{i}").replace("{ID}", i).replace("{TITLE}", p["title"]).replace("{STATEMENT}", p["statement"])
            .replace("{QUANT}", p["quantifier"]["text"]).replace("{FILES}", ", ".join(a.get("files", []))).replace("{MECH}", mech)
            .replace("{N}", str(len(prev))).replace("{COVERED}", covered))
    open(os.path.join(out, f"{i}.txt"), "w").write(txt)
    print(os.path.join(out, f"{i}.txt"))
