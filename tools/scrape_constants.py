#!/usr/bin/env python3
"""Regenerates coq/Gen/Constants.v from /repo's current working tree (anchored regex scraping).
A pattern that no longer matches yields the sentinel value `unknown` (= 999999), which makes the
relation lemmas in Props/ fail; the check then searches for a failing input (DESIGN 3.4)."""
import re, sys, os

REPO = os.environ.get("VERIF_REPO", "/repo")
UNKNOWN = 999999

def read(rel):
    try:
        return open(os.path.join(REPO, rel), encoding="utf-8").read()
    except OSError:
        return ""

def first(rel, alternatives):
    """alternatives: list of (regex, value or callable(match)) tried in order"""
    src = read(rel)
    for rx, val in alternatives:
        m = re.search(rx, src, re.S)
        if m:
            return val(m) if callable(val) else val
    return UNKNOWN

def num(m, g=1):
    return int(m.group(g).replace("_", ""))

SPECS = []
def const(name, rel, alternatives, comment=""):
    SPECS.append((name, rel, alternatives, comment))

# ---- C20 limited_cache.rs ----
const("cache_median_variant", "versatiles_core/src/types/limited_cache.rs", [
    (r"fn cleanup.*?indices\[\s*indices\.len\(\)\s*(?:\.div\(2\)|/\s*2)\s*\]", 0),
    (r"fn cleanup.*?indices\[\s*\(\s*indices\.len\(\)\s*-\s*1\s*\)\s*(?:\.div\(2\)|/\s*2)\s*\]", 1),
], "0: indices[len/2]   1: indices[(len-1)/2]")

# ---- C15 tile_bbox.rs ----
const("bbox_add_border_variant", "versatiles_core/src/types/tile_bbox.rs", [
    (r"fn add_border.*?self\.x_max\s*=\s*\(\s*self\.x_max\s*\+\s*x_max\s*\)\.min\(self\.max\)", 0),
    (r"fn add_border.*?self\.x_max\s*=\s*self\.x_max\.saturating_add\(x_max\)\.min\(self\.max\)", 1),
], "0: unchecked u32 `x_max + border`   1: saturating_add")
const("bbox_index_variant", "versatiles_core/src/types/tile_bbox.rs", [
    (r"fn get_coord2_by_index.*?ensure!\(\s*index\s*<\s*self\.count_tiles\(\)\s*as\s*u32", 0),
    (r"fn get_coord2_by_index.*?ensure!\(\s*\(?\s*index\s*as\s*u64\s*\)?\s*<\s*self\.count_tiles\(\)", 1),
], "0: u32 index arithmetic (count as u32, u32 product)   1: 64-bit arithmetic")

# ---- C06 converter.rs ----
CONV = "versatiles_container/src/container/converter.rs"
def _conv_order(m):
    body = m.group(1)
    i, j = body.find("coord.swap_xy()"), body.find("coord.flip_y()")
    if i < 0 or j < 0: return UNKNOWN
    return 1 if i < j else 0
const("conv_lookup_inverse", CONV, [
    (r"async fn get_tile_data(.*?)async fn get_bbox_tile_stream", _conv_order),
], "get_tile_data: 1 = swap then flip (inverse of the stream/coverage transform), 0 = flip then swap")
const("conv_range_guard", CONV, [
    (r"async fn get_tile_data.{0,400}?coord\.z\s*>\s*31\s*\|\|[^\n]*\n\s*return Ok\(None\)", 1),
    (r"async fn get_tile_data", 0),
], "get_tile_data: 1 = coordinates outside their level answer None before any transform")
const("conv_selection_guard", CONV, [
    (r"async fn get_tile_data.{0,900}?converter_parameters\.bbox_pyramid.{0,120}?contains_coord\(coord\).{0,900}?async fn get_bbox_tile_stream.{0,400}?converter_parameters\.bbox_pyramid.{0,120}?intersect_pyramid", 1),
    (r"async fn get_tile_data", 0),
], "1 = lookups and streams are restricted to the requested bbox pyramid")

# ---- C13 data_reader_file.rs ----
def _read_variant(m):
    body = m.group(1)
    if re.search(r"try_clone\(\)|\.seek\(", body): return 0
    if re.search(r"read_exact_at\(|read_at\(|seek_read\(", body): return 1
    return UNKNOWN
const("file_read_variant", "versatiles_core/src/io/data_reader_file.rs", [
    (r"async fn read_range(.*?)async fn read_all", _read_variant),
], "read_range: 0 = try_clone + seek + read on the shared offset, 1 = positional read (pread)")

# ---- C05 tile_source.rs / C07 static_source_folder.rs ----
const("tile_path_variant", "versatiles/src/tools/server/sources/tile_source.rs", [
    (r"else if \(parts\[0\] == \"meta\.json\"\)", 0),
    (r"parts\.first\(\)", 1),
    (r"parts\.is_empty\(\)", 1),
], "0: parts[0] indexed unconditionally (panics on an empty tile path)  1: empty path handled")
const("static_guard_variant", "versatiles/src/tools/server/sources/static_source_folder.rs", [
    (r"fn get_data.*?starts_with\(&self\.folder\).{0,200}?ParentDir", 1),
    (r"fn get_data.*?canonicalize\(\).{0,300}?starts_with\(&self\.folder\)", 1),
    (r"fn get_data.*?starts_with\(&self\.folder\)", 0),
], "0: lexical starts_with(root) only  1: additionally refuses '..' components")

# ---- C17 / C19 byte_iterator/basics.rs ----
const("json_hex_variant", "versatiles_core/src/byte_iterator/basics.rs", [
    (r"b'u' =>.{0,300}?from_utf8\(&hex\)\.unwrap\(\)", 0),
    (r"b'u' =>.{0,300}?from_utf8\(&hex\)", 1),
    (r"b'u' =>.{0,300}?from_utf8_lossy\(&hex\)", 1),
], "\\u escape: 0 = from_utf8(&hex).unwrap() (panics when the 4-byte window cuts a character), 1 = error")

# ---- C18 vpl/parser.rs ----
const("vpl_empty_variant", "versatiles_pipeline/src/vpl/parser.rs", [
    (r"fn parse_quoted_string.{0,400}?opt\(parse_string\)", 1),
    (r"fn parse_quoted_string.{0,300}?delimited\(char\('\\\"'\), parse_string, cut", 0),
], "quoted string body: 0 = parse_string (an empty \"\" is rejected), 1 = opt(parse_string)")

# ---- C10 / C11 vector tiles ----
const("mvt_table_variant", "versatiles_geometry/src/vector_tile/layer.rs", [
    (r"pub fn read\(.{0,1500}?\(3, 2\) => \{.{0,200}?add_key\(", 0),
    (r"pub fn read\(.{0,1500}?\(3, 2\) => \{.{0,200}?\.push\(", 1),
], "layer read: 0 = tables built with the de-duplicating add(), 1 = entries appended as stored")
const("zigzag_variant", "versatiles_core/src/io/value_reader.rs", [
    (r"fn read_svarint.{0,200}?read_varint\(\)\? as i64;.{0,120}?>> 1", 0),
    (r"fn read_svarint.{0,300}?\(\s*value >> 1\s*\) as i64", 1),
], "read_svarint: 0 = arithmetic shift on the i64 cast, 1 = logical shift on the u64")

# ---- C19 PMTiles directories ----
const("pm_arith_variant", "versatiles_container/src/container/pmtiles/types/entries_v3.rs", [
    (r"pub fn from_blob.{0,900}?last_id\s*\+=\s*diff", 0),
    (r"pub fn from_blob.{0,900}?last_id\s*=\s*last_id\s*\.checked_add\(diff\).{0,900}?checked_add\(entries\[i - 1\]\.range\.length\).{0,200}?tmp\.checked_sub\(1\).{0,3000}?pub fn find_tile.{0,1500}?tile_id\.checked_sub\(", 1),
], "from_blob / find_tile arithmetic: 0 = unchecked u64 (+, -), 1 = checked, failing with an error / no match")
const("pm_depth_variant", "versatiles_container/src/container/pmtiles/reader.rs", [
    (r"fn parse_directories\([^)]*depth:\s*usize,?\s*\)\s*->\s*Result<\(\)>\s*\{.{0,200}?ensure!\(depth < 3", 1),
    (r"fn parse_directories\(", 0),
], "coverage scan: 0 = unbounded recursion through leaf directories, 1 = at most 3 directory levels")

# ---- C19 CSV reader; C02 versatiles chunked stream ----
const("csv_tail_variant", "versatiles_core/src/utils/csv.rs", [
    (r"Some\(e\) if e == separator => break,\s*Some\(_\) => panic!\(\)", 0),
    (r"Some\(e\) if e == separator => break,\s*Some\(c\) => \{\s*return Some\(Err\(", 1),
], "text after a closing quote: 0 = panic!(), 1 = an error item")
const("vt_stream_variant", "versatiles_container/src/container/versatiles/reader.rs", [
    (r"let mut tile_ranges: Vec<\(TileCoord3, ByteRange\)> = tile_index.{0,700}?tile_ranges\.sort_by_key\(\|e\| e\.1\.offset\);.{0,200}?Chunk::new\(tile_ranges\[0\]\.1\.offset\).{0,900}?chunk\.push\(entry\).{0,1500}?let start = range\.offset - chunk\.range\.offset;\s*let end = start \+ range\.length;", 1),
], "bbox stream of a block: 1 = Vec of (coord, range) sorted by offset, greedy chunks, tiles cut out of one chunk read at (offset - chunk offset, length)")

# ---- C03 MBTiles row refinement ----
const("mbtiles_row_variant", "versatiles_container/src/container/mbtiles/reader.rs", [
    (r'y0 = self\.simple_query\("MIN\(tile_row\)", &format!\("\{sql_prefix\} tile_row <= \{y0\}"\)\)\?;\s*y1 = self\.simple_query\("MAX\(tile_row\)", &format!\("\{sql_prefix\} tile_row >= \{y1\}"\)\)\?;', 1),
    (r'y1 = self\.simple_query\("MAX\(tile_row\)", &format!\("\{sql_prefix\} tile_row <= \{y1\}"\)\)\?;', 0),
], "row refinement: 1 = MIN over rows <= estimate and MAX over rows >= estimate, 0 = MAX refinement with <= (upper bound stays the estimate)")

# ---- C15/C09/C06 from_geo rounding guard ----
_G = r"(?:1e-6|guard)"
const("geo_guard_variant", "versatiles_core/src/types/tile_coords.rs", [
    (r"fn from_geo.{0,1500}?let guard = \(zoom \* 8\.0 \* f64::EPSILON\)\.max\(1e-6\);\s*if round_up \{\s*x = x\.sub\(guard\)\.floor\(\);\s*y = y\.sub\(guard\)\.floor\(\);\s*\} else \{\s*x = x\.add\(guard\)\.floor\(\);\s*y = y\.add\(guard\)\.floor\(\);\s*\}\s*Ok\(TileCoord2 \{\s*x: x\.min\(zoom - 1\.0\)\.max\(0\.0\) as u32,\s*y: y\.min\(zoom - 1\.0\)\.max\(0\.0\) as u32,", 1),
    (r"fn from_geo.{0,1500}?if round_up \{\s*x = x\.sub\(" + _G + r"\)\.floor\(\);\s*y = y\.sub\(" + _G + r"\)\.floor\(\);\s*\} else \{\s*x = x\.floor\(\);\s*y = y\.floor\(\);\s*\}", 0),
    (r"fn from_geo.{0,1500}?if round_up \{\s*x = x\.sub\(1e-6\)\.floor\(\);\s*y = y\.sub\(1e-6\)\.floor\(\);\s*\} else \{\s*x = x\.add\(1e-6\)\.floor\(\);\s*y = y\.add\(1e-6\)\.floor\(\);\s*\}", 2),
], "1 = both corners use guard = max(1e-6, 8 eps 2^z): lower corner adds it before floor, upper corner subtracts it, clamp to [0, 2^z - 1]; 0 = plain floor on the lower corner; 2 = fixed 1e-6 guard on all levels (pinned source: too small for the rounding error at zoom 30/31)")

# ---- C10/C11 GeoValue equality (value tables are hash maps keyed by GeoValue) ----
const("geovalue_eq_variant", "versatiles_geometry/src/geo/value.rs", [
    (r"#\[derive\([^)]*PartialEq[^)]*\)\]\s*pub enum GeoValue", 0),
    (r"impl PartialEq for GeoValue \{\s*fn eq\(&self, other: &Self\) -> bool \{.{0,200}?\(Double\(a\), Double\(b\)\) => a\.to_bits\(\) == b\.to_bits\(\),\s*\(Float\(a\), Float\(b\)\) => a\.to_bits\(\) == b\.to_bits\(\),.{0,400}?impl Hash for GeoValue.{0,300}?GeoValue::Double\(v\) => v\.to_bits\(\)\.hash\(state\),\s*GeoValue::Float\(v\) => v\.to_bits\(\)\.hash\(state\),", 1),
], "1 = floats are compared and hashed by their bits (the model's tables compare bit patterns); 0 = derived PartialEq (== on floats: 0.0 = -0.0 with different hashes)")

# ---- C17 TileJSON::merge, zoom range ----
const("tj_merge_variant", "versatiles_core/src/tilejson/mod.rs", [
    (r'pub fn merge\(&mut self, other: &TileJSON\).{0,600}?if let Some\(omin\) = other\.values\.get_byte\("minzoom"\) \{\s*let new_min = self\.values\.get_byte\("minzoom"\)\.map_or\(omin, \|mz\| mz\.min\(omin\)\);\s*self\.values\.insert\("minzoom", &JsonValue::from\(new_min\)\)\?;\s*\}\s*if let Some\(omax\) = other\.values\.get_byte\("maxzoom"\) \{\s*let new_max = self\.values\.get_byte\("maxzoom"\)\.map_or\(omax, \|mz\| mz\.max\(omax\)\);\s*self\.values\.insert\("maxzoom", &JsonValue::from\(new_max\)\)\?;\s*\}\s*// 4\. Merge everything else\s*for \(k, v\) in other\.values\.iter_json_values\(\) \{\s*if k != "minzoom" && k != "maxzoom" \{\s*self\.values\.insert\(&k, &v\)\?;', 1),
    (r'pub fn merge\(&mut self, other: &TileJSON\).{0,900}?self\.values\.get_byte\((?:key|"minzoom")\)\.unwrap_or_default\(\)', 0),
], "1 = a missing own minzoom/maxzoom is replaced by the other document's, else min/max of both; every other key of the other document overwrites; 0 = a missing own limit counts as 0")

# ---- C19 guards added by repairs ----
def _subreader(_m=None):
    files = ["versatiles_core/src/io/value_reader_slice.rs", "versatiles_core/src/io/value_reader_blob.rs", "versatiles_core/src/io/value_reader_file.rs"]
    srcs = [read(f) for f in files]
    sat = [bool(re.search(r"fn get_sub_reader.{0,300}?let end = start\.saturating_add\(length\);\s*if end > self\.len \{\s*bail!", x, re.S)) for x in srcs]
    raw = [bool(re.search(r"fn get_sub_reader.{0,300}?let end = start \+ length;", x, re.S)) for x in srcs]
    if all(sat): return 1
    if any(raw): return 0
    return UNKNOWN
SPECS.append(("subreader_variant", "versatiles_core/src/io/value_reader_{slice,blob,file}.rs", _subreader, "get_sub_reader: 1 = `start.saturating_add(length)` then `end > self.len` is an error (all three readers); 0 = unchecked `start + length`"))
const("fm_unwrap_variant", "versatiles_geometry/src/vector_tile/layer.rs", [
    (r"pub fn filter_map_properties.{0,500}?decode_tag_ids\(&feature\.tag_ids\)\.unwrap\(\)", 0),
    (r"pub fn filter_map_properties.{0,500}?match self\.decode_tag_ids\(&feature\.tag_ids\) \{\s*Ok\(properties\) => filter_fn\(properties\)\.map\(\|properties\| Ok\(\(feature, properties\)\)\),\s*Err\(e\) => Some\(Err\(e\)\),", 1),
], "filter_map_properties: 1 = an undecodable feature makes the call return the error; 0 = `.unwrap()`")

# ---- byte layouts of the container formats (C01 / C16 / C12): the models use these numbers as literals; Props/C01.v
#      proves that the source still says the same ----
VT = "versatiles_container/src/container/versatiles/"
PM = "versatiles_container/src/container/pmtiles/"
const("vt_header_length", VT + "types/file_header.rs", [(r"const HEADER_LENGTH: u64 = (\d+);", num)], "bytes of the versatiles file header")
const("vt_block_def_length", VT + "types/block_index.rs", [(r"const BLOCK_INDEX_LENGTH: u64 = (\d+);", num)], "bytes of one block definition in the block index")
const("vt_tile_index_entry_length", VT + "types/tile_index.rs", [(r"const TILE_INDEX_LENGTH: u64 = (\d+);", num)], "bytes of one tile-index entry")
const("vt_block_grid", VT + "writer.rs", [(r"\.iter_bbox_grid\((\d+)\)", num)], "writer: edge length of a block in tiles")
const("vt_block_shift", VT + "reader.rs", [(r"coord\.x\.shr\((\d+)\),\s*coord\.y\.shr\(\1\)", num)], "reader: block coordinate = tile coordinate >> shift")
const("pm_header_length", PM + "types/header_v3.rs", [(r"pub fn len\(\) -> u64 \{\s*(\d+)\s*\}", num)], "bytes of the PMTiles header")
const("pm_metadata_position", PM + "writer.rs", [(r"writer\.set_position\((\d+)\)\?;\s*let mut header = HeaderV3::from_parameters", num)], "writer: the metadata starts here; header and root directory lie in front of it")
const("pm_root_area_end", PM + "writer.rs", [(r"entries\.as_directory\((\d+) - HeaderV3::len\(\)", num)], "writer: the root directory budget is this minus the header length")

const("tidx_offset_variant", VT + "types/tile_index.rs", [
    (r"pub fn add_offset.{0,400}?r\.offset \+= offset", 0),
    (r"pub fn add_offset.{0,400}?r\.offset = r\.offset\.saturating_add\(offset\)", 1),
], "add_offset: 0 = unchecked `r.offset += offset`, 1 = saturating_add")

def main():
    out = ["(* GENERATED by tools/scrape_constants.py from /repo — do not edit *)",
           "From Coq Require Import NArith.", "Local Open Scope N_scope.", ""]
    vals = {}
    for name, rel, alts, comment in SPECS:
        v = alts() if callable(alts) else first(rel, alts)
        vals[name] = v
        out.append(f"(* {rel}: {comment} *)")
        out.append(f"Definition {name} : N := {v}.")
    text = "\n".join(out) + "\n"
    dst = sys.argv[1] if len(sys.argv) > 1 else "/verif/coq/Gen/Constants.v"
    old = open(dst).read() if os.path.exists(dst) else None
    if old != text:
        tmp = dst + ".tmp"
        open(tmp, "w").write(text)
        os.replace(tmp, dst)
    unk = [k for k, v in vals.items() if v == UNKNOWN]
    import json
    print(json.dumps({"constants": vals, "unknown": unk}))

if __name__ == "__main__":
    main()
