#!/bin/bash
# usage: goal.sh <file.v> <line>  — shows the proof state just before <line> (run from /verif/coq)
f=$1; n=$2
head -n $((n-1)) "$f" > /tmp/goal_$$.v
echo "Show." >> /tmp/goal_$$.v
timeout 120 coqc -Q /verif/coq VT /tmp/goal_$$.v 2>&1 | grep -v "pending proofs" | tail -${3:-40}
rm -f /tmp/goal_$$.v /tmp/goal_$$.glob /tmp/.goal_$$.aux /tmp/goal_$$.vo*
