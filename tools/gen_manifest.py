#!/usr/bin/env python3
"""Writes MANIFEST.json from tools/props.py (so the manifest always lists exactly the implemented checks)."""
import json, os, sys
sys.path.insert(0, os.path.dirname(__file__))
import props as P
ROOT = os.path.dirname(os.path.dirname(os.path.abspath(__file__)))
allp = [json.loads(l)["id"] for l in open(os.path.join(ROOT, "properties.jsonl"))]
checks = []
for pid in allp:
    if pid not in P.PROPS: continue
    c = P.PROPS[pid]
    checks.append({
        "property_id": pid,
        "quick_cmd": f"./check {pid} --tier quick",
        "thorough_cmd": f"./check {pid} --tier thorough",
        "evidence_file": f"/verif/evidence/{pid}.json",
        "replay_cmd_template": f"./check {pid} --replay {{path}}",
        "engine": "coq-model+correspondence",
        "level_claimed": {"category": "proof", "text": c["level_text"], "design_ref": c.get("design_ref", "DESIGN.md section 5, " + pid)},
        "level_note": c["level_note"],
        "technique": c.get("technique", "machine-checked proof in Coq 8.16 about a hand-written executable model + differential correspondence check (extracted model vs implementation)"),
    })
na = [{"property_id": p, "reason": P.NOT_YET.get(p, "check not built yet (work in progress; see DESIGN.md section 5)")} for p in allp if p not in P.PROPS]
m = {
    "version": 1,
    "setup_cmd": "./check --setup",
    "hooks": {
        "guard": "versatiles_verif",
        "enable": "RUSTFLAGS=\"--cfg versatiles_verif\" (set by ./check for the harness and the versatiles binary, separate target dirs under /verif/.cache)",
        "baseline_off_cmd": "cd /repo && cargo test --workspace --no-fail-fast --offline",
        "source_commits": P.HOOK_COMMITS,
        "add_only": True,
    },
    "engines": [{"name": "coq-model+correspondence", "path": "/verif/check", "serves_properties": [c["property_id"] for c in checks],
                 "kind_free_text": "Coq 8.16 theorems over hand-written executable models (coq/Model, coq/Proofs, coq/Props), constants/tables regenerated from the source (coq/Gen), models extracted to OCaml and run against the Rust implementation on generated inputs (harness/), spec-level search for failing inputs"}],
    "checks": checks,
    "notes": "See DESIGN.md. KNOWN_FINDINGS.json lists recorded findings and fix: commits.",
    "not_applicable": na,
}
json.dump(m, open(os.path.join(ROOT, "MANIFEST.json"), "w"), indent=1)
print(f"{len(checks)} checks, {len(na)} not claimed")
