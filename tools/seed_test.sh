#!/bin/bash
# usage: seed_test.sh <patch> <PROP>...   — applies a seeded change to /repo, runs the checks, restores /repo
P=$1; shift
git -C /repo apply "$P" || exit 2
export VERIF_EVIDENCE_DIR=/verif/run/seed-evidence
for id in "$@"; do echo "== $id"; /verif/check $id 2>&1 | grep -E "VIOLATION|KNOWN|\[done\]|\[proof\]|\[corr\]" | cut -c1-400; done
git -C /repo checkout -- .
git -C /repo status --short
