#!/bin/bash
# usage: seed_matrix.sh [seed-dir-name ...]  - applies every stored seeded change (the rebased patch where one exists) to /repo,
# runs the check of its own property, restores /repo; writes seeded/RESULTS.txt and prints one summary line per seed
cd /verif
SEEDS="$@"; [ -z "$SEEDS" ] && SEEDS=$(ls seeded | grep -E '^C[0-9]{2}[a-z]?$')
OUT=seeded/RESULTS.txt; : > $OUT.new
for s in $SEEDS; do
  P=seeded/$s/patch_rebased.diff; [ -f $P ] || P=seeded/$s/patch.diff
  ID=${s:0:3}
  echo "#### seed $s (/verif/$P)" >> $OUT.new
  R=$(tools/seed_test.sh /verif/$P $ID 2>&1); echo "$R" >> $OUT.new
  if echo "$R" | grep -q "^VIOLATION property=$ID"; then
    if echo "$R" | grep "^VIOLATION" | grep -qv "no-failing-input-found"; then echo "$s caught(input)"; else echo "$s caught(no-failing-input)"; fi
  elif echo "$R" | grep -q "patch does not apply\|error:"; then echo "$s PATCH-DOES-NOT-APPLY"; else echo "$s MISSED"; fi
done
mv $OUT.new $OUT
git -C /repo status --short
