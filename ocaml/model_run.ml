(* Driver for the extracted Coq models: reads `<op> <args...>[ => ...]` lines on stdin, evaluates
   the model and prints `<op> <args...> => <model outcome>` in the harness's canonical format.
   Hand-written, trusted; numbers are converted with the extracted N/Z arithmetic itself. *)
open Model

let n_of_int (i : int) : n =
  let rec pos i = if i = 1 then XH else if i land 1 = 1 then XI (pos (i lsr 1)) else XO (pos (i lsr 1)) in
  if i = 0 then N0 else Npos (pos i)

let ten = n_of_int 10

let n_of_string (s : string) : n =
  let acc = ref N0 in
  String.iter (fun ch ->
    let d = Char.code ch - 48 in
    if d < 0 || d > 9 then failwith ("bad number: " ^ s);
    acc := N.add (N.mul !acc ten) (n_of_int d)) s;
  !acc

let rec int_of_pos = function XH -> 1 | XO p -> 2 * int_of_pos p | XI p -> 2 * int_of_pos p + 1
let int_of_n = function N0 -> 0 | Npos p -> int_of_pos p

let string_of_n (x : n) : string =
  if x = N0 then "0" else begin
    let b = Buffer.create 20 in
    let rec go x acc = if x = N0 then acc else
      let (q, r) = N.div_eucl x ten in go q (string_of_int (int_of_n r) :: acc) in
    List.iter (Buffer.add_string b) (go x []); Buffer.contents b end

let z_of_string (s : string) : z =
  if String.length s > 0 && s.[0] = '-' then Z.opp (Z.of_N (n_of_string (String.sub s 1 (String.length s - 1))))
  else Z.of_N (n_of_string s)

let string_of_z (x : z) : string = match x with
  | Z0 -> "0" | Zpos p -> string_of_n (Npos p) | Zneg p -> "-" ^ string_of_n (Npos p)

let split_on c s = String.split_on_char c s
let nat_len l = List.length l

(* ---------- C20 cache ---------- *)
let parse_cache_op (t : string) : op =
  let c = t.[0] and rest = String.sub t 1 (String.length t - 1) in
  match c with
  | 'g' -> OGet (n_of_string rest)
  | 'a' -> (match split_on ':' rest with [k; v] -> OAdd (n_of_string k, n_of_string v) | _ -> failwith t)
  | 's' -> (match split_on ':' rest with
            | [k; "E"] -> OGetOrSet (n_of_string k, None)
            | [k; v] -> OGetOrSet (n_of_string k, Some (n_of_string v)) | _ -> failwith t)
  | _ -> failwith ("bad cache op " ^ t)

let do_cache (args : string list) : string =
  match args with
  | cap :: rest ->
    let ops = match rest with [] -> [] | [s] -> List.map parse_cache_op (List.filter (fun x -> x <> "") (split_on ',' s)) | _ -> failwith "cache args" in
    let (c, rs) = run cache_median_variant (empty (n_of_string cap)) ops in
    let rs = List.map (function None -> "-" | Some v -> string_of_n v) rs in
    Printf.sprintf "%s len=%d last=%s" (String.concat "," rs) (nat_len c.entries) (string_of_n c.last)
  | _ -> failwith "cache args"

(* ---------- C15 bbox ---------- *)
let parse_bbox (s : string) : bbox =
  match List.map n_of_string (split_on '/' s) with
  | [z; x0; y0; x1; y1] -> { level = z; x_min = x0; y_min = y0; x_max = x1; y_max = y1; bmax = level_max z }
  | _ -> failwith ("bad bbox " ^ s)
let fmt_bbox (b : bbox) : string =
  String.concat "/" (List.map string_of_n [b.level; b.x_min; b.y_min; b.x_max; b.y_max])
let out_fmt (f : 'a -> string) (o : 'a outcome) : string = match o with
  | Ok a -> "ok:" ^ f a | Err -> "err" | Panic -> "panic" | Overflow -> "overflow"
let b01 b = if b then "1" else "0"
let fmt_xy (x, y) = string_of_n x ^ ":" ^ string_of_n y

let do_bbox (op : string) (a : string array) : string =
  let n i = n_of_string a.(i) in
  match op with
  | "bb.new" -> out_fmt fmt_bbox (new0 (n 0) (n 1) (n 2) (n 3) (n 4))
  | "bb.full" -> out_fmt fmt_bbox (new_full (n 0))
  | "bb.emptynew" -> out_fmt fmt_bbox (new_empty (n 0))
  | "bb.isempty" -> b01 (is_empty (parse_bbox a.(0)))
  | "bb.count" -> let b = parse_bbox a.(0) in
      Printf.sprintf "%s %s %s" (string_of_n (width b)) (string_of_n (height b)) (string_of_n (count_tiles b))
  | "bb.contains" -> b01 (contains2 (parse_bbox a.(0)) (n 1) (n 2))
  | "bb.setempty" -> fmt_bbox (set_empty (parse_bbox a.(0)))
  | "bb.inccoord" -> fmt_bbox (include_coord (parse_bbox a.(0)) (n 1) (n 2))
  | "bb.border" -> out_fmt fmt_bbox (add_border bbox_add_border_variant (parse_bbox a.(0)) (n 1) (n 2) (n 3) (n 4))
  | "bb.include" -> out_fmt fmt_bbox (include_bbox (parse_bbox a.(0)) (parse_bbox a.(1)))
  | "bb.intersect" -> out_fmt fmt_bbox (intersect_bbox (parse_bbox a.(0)) (parse_bbox a.(1)))
  | "bb.overlaps" -> out_fmt b01 (overlaps_bbox (parse_bbox a.(0)) (parse_bbox a.(1)))
  | "bb.shift" -> fmt_bbox (shift_by (parse_bbox a.(0)) (n 1) (n 2))
  | "bb.subtract" -> fmt_bbox (subtract (parse_bbox a.(0)) (n 1) (n 2))
  | "bb.scale" -> out_fmt fmt_bbox (scale_down (parse_bbox a.(0)) (n 1))
  | "bb.coords" -> String.concat "," (List.map fmt_xy (iter_coords (parse_bbox a.(0))))
  | "bb.grid" -> out_fmt (fun l -> String.concat ";" (List.map fmt_bbox l)) (iter_bbox_grid (parse_bbox a.(0)) (n 1))
  | "bb.index" | "bb.index3" -> out_fmt string_of_n (get_tile_index bbox_index_variant (parse_bbox a.(0)) (n 1) (n 2))
  | "bb.coord" | "bb.coord3" -> out_fmt fmt_xy (get_coord_by_index bbox_index_variant (parse_bbox a.(0)) (n 1))
  | "bb.flip" -> out_fmt fmt_bbox (flip_y (parse_bbox a.(0)))
  | "bb.swap" -> fmt_bbox (swap_xy (parse_bbox a.(0)))
  | "co.flip" -> out_fmt fmt_xy (coord_flip_y (n 0) (n 1) (n 2))
  | _ -> "?unknown-op"

(* ---------- pipelines (C02 C03 C06 C08 C09) ---------- *)
let rec take_n n f toks = if n = 0 then ([], toks) else
  let (x, r) = f toks in let (xs, r') = take_n (n - 1) f r in (x :: xs, r')
let tok_n = function t :: r -> (n_of_string t, r) | [] -> failwith "eof"
let tok_box = function t :: r -> (parse_bbox t, r) | [] -> failwith "eof"
let opt_n s = if s = "-" then None else Some (n_of_string s)

let rec parse_pexpr (toks : string list) : pexpr * string list =
  match toks with
  | "leaf" :: n :: r ->
      let (tiles, r') = take_n (int_of_string n) (fun t -> match t with
        | z :: x :: y :: id :: r -> ((((n_of_string z, n_of_string x), n_of_string y), n_of_string id), r)
        | _ -> failwith "leaf") r in
      (PLeaf tiles, r')
  | "zoom" :: a :: b :: r -> let (e, r') = parse_pexpr r in (PZoom (opt_n a, opt_n b, e), r')
  | "bbox" :: k :: r -> let (bs, r') = take_n (int_of_string k) tok_box r in
      let (e, r'') = parse_pexpr r' in (PBBox (bs, e), r'')
  | "over" :: k :: r -> let (es, r') = take_n (int_of_string k) parse_pexpr r in (POver es, r')
  | "conv" :: f :: sw :: "-" :: r -> let (e, r') = parse_pexpr r in (PConv (f = "1", sw = "1", None, e), r')
  | "conv" :: f :: sw :: k :: r -> let (bs, r') = take_n (int_of_string k) tok_box r in
      let (e, r'') = parse_pexpr r' in (PConv (f = "1", sw = "1", Some bs, e), r'')
  | t :: _ -> failwith ("bad expr token " ^ t)
  | [] -> failwith "empty expr"

let rec split_queries (toks : string list) (cur : string list) (acc : string list list) =
  match toks with
  | [] -> List.rev (if cur = [] then acc else List.rev cur :: acc)
  | ";;" :: r -> split_queries r [] (if cur = [] then acc else List.rev cur :: acc)
  | t :: r -> split_queries r (t :: cur) acc

let do_pipe (args : string list) : string =
  let (e, rest) = parse_pexpr args in
  let src = denote conv_lookup_inverse conv_range_guard conv_selection_guard bbox_index_variant e in
  let answer q = match q with
    | ["L"; z; x; y] -> (match src.look ((n_of_string z, n_of_string x), n_of_string y) with
        | Ok None -> "-" | Ok (Some v) -> string_of_n v | Err -> "err" | _ -> "panic")
    | ["S"; b] -> (match src.strm (parse_bbox b) with
        | Ok l ->
            let items = List.map (fun (((z, x), y), id) -> (int_of_n z, int_of_n x, int_of_n y, int_of_n id)) l in
            let items = List.sort compare items in
            String.concat "," (List.map (fun (z, x, y, id) -> Printf.sprintf "%d:%d:%d:%d" z x y id) items)
        | _ -> "panic")
    | ["V"; z] -> let b = src.cov (n_of_string z) in if is_empty b then "empty" else fmt_bbox b
    | _ -> "?query" in
  String.concat " ;; " (List.map answer (split_queries rest [] []))

(* ---------- C14 streams ---------- *)
let rec nat_of_int i = if i <= 0 then O else S (nat_of_int (i - 1))
let rec int_of_nat = function O -> 0 | S k -> 1 + int_of_nat k
let do_stream (op : string) (a : string list) : string =
  match op, a with
  | "acc", [n; len; out] ->
      let out = List.map (fun s -> nat_of_int (int_of_string s)) (List.filter (fun x -> x <> "") (split_on ',' out)) in
      b01 (accepts (nat_of_int (int_of_string n)) (nat_of_int (int_of_string len)) out)
  | "acc", [n; len] -> b01 (accepts (nat_of_int (int_of_string n)) (nat_of_int (int_of_string len)) [])
  | "chunks", [k; len] ->
      let l = List.init (int_of_string len) (fun i -> i) in
      String.concat "," (List.map (fun c -> string_of_int (List.length c)) (chunks (nat_of_int (int_of_string k)) l))
  | _ -> "?stream-args"

(* ---------- C04 / C05 recompression tables ---------- *)
let comp_of = function "U" -> CU | "G" -> CG | "B" -> CB | s -> failwith ("comp " ^ s)
let name_of = function CU -> "U" | CG -> "G" | CB -> "B"
let gzc = framed (n_of_int 1) and brc = framed (n_of_int 2)
let do_recomp (op : string) (a : string list) : string =
  match op, a with
  | "recomp", [s; d; f] ->
      let steps = recompressor (comp_of s) (comp_of d) (f = "1") in
      if steps = [] then "-" else
      String.concat "," (List.map (function UnGzip -> "ungzip" | UnBrotli -> "unbrotli" | DoGzip -> "gzip" | DoBrotli -> "brotli") steps)
  | "optc", [i; bits; g] ->
      let bits = int_of_string bits in
      let t = { al_u = bits land 1 <> 0; al_g = bits land 2 <> 0; al_b = bits land 4 <> 0; goal = n_of_string g } in
      let sample = List.map n_of_int [7; 7; 7; 9] in
      let stored = compress gzc brc (comp_of i) sample in
      (match optimize gzc brc stored (comp_of i) t with
       | None -> "err"
       | Some (None, _) -> "err"
       | Some (Some b, c) -> name_of c ^ ":" ^ (if b = stored then "same" else "changed"))
  | "ovl", (_k :: rest) ->
      (* sources as (compression, payload id or -); payloads are the id's decimal digits *)
      let rec pairs = function c :: t :: r -> (comp_of c, if t = "-" then None else Some t) :: pairs r | _ -> [] in
      let srcs = pairs rest in
      let bytes_of_id (t : string) = List.init (String.length t) (fun i -> n_of_int (Char.code t.[i])) in
      let id_of_bytes (b : n list) = String.concat "" (List.map (fun c -> String.make 1 (Char.chr (int_of_n c))) b) in
      let stored = List.map (fun (c, t) -> (c, match t with None -> None | Some t -> Some (compress gzc brc c (bytes_of_id t)))) srcs in
      let d = declared (List.map fst srcs) in
      let ans = match overlay_answer gzc brc stored with
        | None -> "err"
        | Some None -> "-"
        | Some (Some b) -> (match decompress gzc brc d b with Some p -> id_of_bytes p | None -> "?") in
      Printf.sprintf "%s L=%s S=%s" (name_of d) ans ans
  | _ -> "?recomp-args"

(* ---------- C05 / C07 http ---------- *)
let codes (s : string) : n list = List.init (String.length s) (fun i -> n_of_int (Char.code s.[i]))
let string_of_codes (l : n list) : string = String.concat "" (List.map (fun c -> String.make 1 (Char.chr (int_of_n c))) l)
let utf8_scalars (s : string) : int list option =
  let n = String.length s in
  let b i = Char.code s.[i] in
  let rec go i acc =
    if i >= n then Some (List.rev acc) else
    let c = b i in
    if c < 0x80 then go (i + 1) (c :: acc)
    else if c land 0xE0 = 0xC0 && i + 1 < n then go (i + 2) ((((c land 0x1F) lsl 6) lor (b (i+1) land 0x3F)) :: acc)
    else if c land 0xF0 = 0xE0 && i + 2 < n then go (i + 3) ((((c land 0x0F) lsl 12) lor ((b (i+1) land 0x3F) lsl 6) lor (b (i+2) land 0x3F)) :: acc)
    else if c land 0xF8 = 0xF0 && i + 3 < n then go (i + 4) ((((c land 0x07) lsl 18) lor ((b (i+1) land 0x3F) lsl 12) lor ((b (i+2) land 0x3F) lsl 6) lor (b (i+3) land 0x3F)) :: acc)
    else None in
  go 0 []
let do_http (op : string) (a : string list) : string =
  match op, a with
  | "tilepath", (path :: rest) ->
      (* the path is UTF-8; the optional second argument lists the non-ASCII scalar values of the
         path for which Rust's char::is_numeric holds (computed by the harness with std) *)
      let nums = match rest with [] | ["-"] -> [] | l :: _ -> List.map int_of_string (String.split_on_char ',' l) in
      let numeric c = let c = int_of_n c in if c < 128 then c >= 48 && c <= 57 else List.mem c nums in
      (match utf8_scalars path with
       | None -> "?not-utf8"
       | Some cps ->
         (match status tile_path_variant numeric (fun _ _ _ -> true) (List.map n_of_int cps) with
          | None -> "dropped" | Some st -> string_of_n st))
  | "static", [root; target] ->
      (* known tree below root: index.html file.txt sub/index.html sub/inner.txt ; outside: ../secret.txt ../www-private/secret.txt *)
      let rootc = components (codes root) in
      let rootn = List.map string_of_codes (names rootc) in
      (match served static_guard_variant rootc (request_url (codes target)) with
       | None -> "none"
       | Some file ->
           let file = List.map string_of_codes file in
           let rec strip r f = match r, f with [], f -> Some f | x :: r', y :: f' when x = y -> strip r' f' | _ -> None in
           let known rel = List.mem rel ["index.html"; "file.txt"; "sub/index.html"; "sub/inner.txt"] in
           (match strip rootn file with
            | Some rest ->
                let rel = String.concat "/" rest in
                let rel = if rel = "" then "index.html" else if rel = "sub" then "sub/index.html" else rel in
                if known rel then "file:" ^ rel else "none"
            | None ->
                let parent = List.rev (List.tl (List.rev rootn)) in
                (match strip parent file with
                 | Some ["secret.txt"] -> "file:../secret.txt"
                 | Some ["www-private"; "secret.txt"] -> "file:../www-private/secret.txt"
                 | _ -> "none")))
  | _ -> "?http-args"

(* ---------- C17 json ---------- *)
let cps_of (s : string) : n list = if s = "-" then [] else List.map n_of_string (split_on ',' s)
let fmt_cps (l : n list) : string = if l = [] then "-" else String.concat "," (List.map string_of_n l)
(* BTreeMap semantics of parsed objects: sorted by key, last duplicate wins (canonicalisation) *)
let rec canon (v : value) : value = match v with
  | VArr l -> VArr (List.map canon l)
  | VObj l ->
      let l = List.map (fun (k, x) -> (k, canon x)) l in
      let keys = List.sort_uniq compare (List.map (fun (k, _) -> List.map int_of_n k) l) in
      VObj (List.map (fun ik -> let k = List.map n_of_int ik in
                        (k, snd (List.find (fun (k', _) -> k' = k) (List.rev l)))) keys)
  | x -> x
let do_json (op : string) (a : string list) : string =
  let arg = match a with [x] -> x | [] -> "-" | _ -> failwith "json args" in
  match op with
  | "json.quote" -> fmt_cps (quote (cps_of arg))
  | "json.pstr" -> (match parse_string json_hex_variant (cps_of arg) with JOk (s, _) -> "ok:" ^ fmt_cps s | JErr -> "err" | JPanic -> "panic")
  | "json.cls" -> (match parse_json json_hex_variant (cps_of arg) with JOk (_, _) -> "ok" | JErr -> "err" | JPanic -> "panic")
  | "json.val" -> (match parse_json json_hex_variant (cps_of arg) with
      | JOk (v, _) -> "ok:" ^ fmt_cps (stringify (canon v)) | JErr -> "err" | JPanic -> "panic")
  | _ -> "?json-op"

(* ---------- C18 vpl ---------- *)
let dot_cps (l : n list) : string = if l = [] then "e" else String.concat "." (List.map string_of_n l)
let rec fmt_vnode (Node (name, props, srcs)) : string =
  (* BTreeMap<String, Vec<String>>: keys sorted, values of repeated keys appended in order *)
  let keys = List.sort_uniq compare (List.map (fun (k, _) -> List.map int_of_n k) props) in
  let ps = List.map (fun ik -> let k = List.map n_of_int ik in
             dot_cps k ^ ":" ^ String.concat "|" (List.map dot_cps (List.concat (List.map snd (List.filter (fun (k', _) -> k' = k) props))))) keys in
  Printf.sprintf "N(%s;%s;%s)" (dot_cps name) (String.concat "," ps) (String.concat "/" (List.map fmt_vpipe srcs))
and fmt_vpipe (p : node list) : string = String.concat "+" (List.map fmt_vnode p)
let do_vpl_render (a : string list) : string =
  let arg = match a with [x] -> x | [] -> "-" | _ -> failwith "vpl args" in
  match parse_vpl vpl_empty_variant (cps_of arg) with Some p -> fmt_cps (render_pipe p) | None -> "err"
let do_vpl (a : string list) : string =
  let arg = match a with [x] -> x | [] -> "-" | _ -> failwith "vpl args" in
  match parse_vpl vpl_empty_variant (cps_of arg) with Some p -> "ok:" ^ fmt_vpipe p | None -> "err"

(* ---------- C10 / C11 vector tiles ---------- *)
let bytes_of_hex (h : string) : n list =
  if h = "-" then [] else List.init (String.length h / 2) (fun i -> n_of_int (int_of_string ("0x" ^ String.sub h (2 * i) 2)))
let hex_of_bytes (l : n list) : string = if l = [] then "-" else String.concat "" (List.map (fun b -> Printf.sprintf "%02x" (int_of_n b)) l)
let utf8_valid (l : n list) : bool =
  let rec go = function
    | [] -> true
    | b :: r when b < 0x80 -> go r
    | b :: c1 :: r when b >= 0xC2 && b <= 0xDF && c1 land 0xC0 = 0x80 -> go r
    | b :: c1 :: c2 :: r when b >= 0xE0 && b <= 0xEF && c1 land 0xC0 = 0x80 && c2 land 0xC0 = 0x80
        && not (b = 0xE0 && c1 < 0xA0) && not (b = 0xED && c1 >= 0xA0) -> go r
    | b :: c1 :: c2 :: c3 :: r when b >= 0xF0 && b <= 0xF4 && c1 land 0xC0 = 0x80 && c2 land 0xC0 = 0x80 && c3 land 0xC0 = 0x80
        && not (b = 0xF0 && c1 < 0x90) && not (b = 0xF4 && c1 >= 0x90) -> go r
    | _ -> false in
  go (List.map int_of_n l)
let dump_value = function
  | VStr0 s -> "s" ^ hex_of_bytes s | VFloat b -> "f" ^ string_of_n b | VDouble b -> "d" ^ string_of_n b
  | VInt z -> "i" ^ string_of_z z | VUInt u -> "u" ^ string_of_n u | VBool0 b -> "b" ^ b01 b
let dump_mlayer (l : layer) : string =
  let feat (f : feature) =
    let props = match decode_tags l.lkeys l.lvals f.ftags with
      | None -> "!"
      | Some ps ->
          (* BTreeMap: sorted by key bytes, last duplicate wins *)
          let keys = List.sort_uniq compare (List.map (fun (k, _) -> List.map int_of_n k) ps) in
          if keys = [] then "-" else
          String.concat "&" (List.map (fun ik -> let k = List.map n_of_int ik in
            hex_of_bytes k ^ "=" ^ dump_value (snd (List.find (fun (k', _) -> k' = k) (List.rev ps)))) keys) in
    Printf.sprintf "%s:%s:%s:%s" (match f.fid with None -> "-" | Some i -> string_of_n i) (string_of_n f.ftype) (hex_of_bytes f.fgeom) props in
  Printf.sprintf "L%s,%s,%s[%s]" (hex_of_bytes l.lname) (string_of_n l.lextent) (string_of_n l.lversion) (String.concat ";" (List.map feat l.lfeatures))
let strings_ok (ls : layer list) : bool =
  List.for_all (fun l -> utf8_valid l.lname && List.for_all utf8_valid l.lkeys
    && List.for_all (function VStr0 s -> utf8_valid s | _ -> true) l.lvals) ls
let dump_mtile (sorted : bool) (ls : layer list) : string =
  let d = List.map dump_mlayer ls in
  let d = if sorted then List.sort compare d else d in
  if d = [] then "-" else String.concat "|" d
let dec_tile (h : string) : layer list option =
  match decode_tile mvt_table_variant zigzag_variant (bytes_of_hex h) with
  | Some ls when strings_ok ls -> Some ls | _ -> None
let do_mvt (op : string) (a : string list) : string =
  match op, a with
  | "varint", [v] -> let b = write_varint (n_of_string v) in
      hex_of_bytes b ^ " " ^ (match read_varint b with Some (x, _) -> string_of_n x | None -> "err")
  | "svarint", [z] -> let b = write_varint (zz_enc (z_of_string z)) in
      hex_of_bytes b ^ " " ^ (match read_varint b with Some (x, _) -> string_of_z (zz_dec zigzag_variant x) | None -> "err")
  | "mvt.dec", [h] -> (match dec_tile h with Some ls -> dump_mtile false ls | None -> "err")
  | "mvt.rt", [h] -> (match dec_tile h with
      | Some ls -> (match decode_tile mvt_table_variant zigzag_variant (encode_tile ls) with Some l2 -> dump_mtile false l2 | None -> "err")
      | None -> "err")
  | "mvt.merge", [hs] ->
      let tiles = List.map dec_tile (List.filter (fun x -> x <> "") (split_on ';' hs)) in
      if List.exists (fun t -> t = None) tiles then "err" else
      (match merge_tiles [] (List.map (function Some t -> t | None -> []) tiles) with
       | Some ls -> dump_mtile true ls | None -> "err")
  | "mvt.upd", [h; lname; flags; rows; idmap] ->
      (* flags: replace, remove_non_matching, include_id as 0/1; rows: data rows `key=value&...` joined by '|' ("-" = none),
         the id column is "id", id_field_tiles is "tid"; idmap: `<index in the named layer's value table>:<row>` pairs:
         which values' Display text equals which row's id (computed by the harness with std) *)
      let value_of_dump (t : string) : value0 =
        let rest = String.sub t 1 (String.length t - 1) in
        (match t.[0] with
         | 's' -> VStr0 (bytes_of_hex rest) | 'f' -> VFloat (n_of_string rest) | 'd' -> VDouble (n_of_string rest)
         | 'i' -> VInt (z_of_string rest) | 'u' -> VUInt (n_of_string rest) | 'b' -> VBool0 (rest = "1") | _ -> failwith ("value " ^ t)) in
      let row_of (t : string) = List.map (fun kv -> match split_on '=' kv with [k; v] -> (bytes_of_hex k, value_of_dump v) | _ -> failwith kv) (List.filter (fun x -> x <> "") (split_on '&' t)) in
      let rows = if rows = "-" then [] else List.map row_of (split_on '|' rows) in
      let flag i = flags.[i] = '1' in
      let name = bytes_of_hex lname in
      (match dec_tile h with
       | None -> "err"
       | Some ls ->
         let pairs = if idmap = "-" then [] else List.map (fun t -> match split_on ':' t with [j; r] -> (int_of_string j, int_of_string r) | _ -> failwith t) (split_on ',' idmap) in
         (* the value table of the (first) layer with that name gives the values the indices refer to *)
         let vals = match List.filter (fun l -> l.lname = name) ls with l :: _ -> l.lvals | [] -> [] in
         let find (v : value0) : (n list * value0) list option =
           let rec go j = function
             | [] -> None
             | x :: r -> if x = v && List.mem_assoc j pairs then Some (row_props (flag 2) (codes "id") (List.nth rows (List.assoc j pairs))) else go (j + 1) r in
           go 0 vals in
         (match update_tile find (codes "tid") (flag 0) (flag 1) name ls with
          | Some out -> dump_mtile false out | None -> "err"))
  | _ -> "?mvt-args"

(* ---------- C12 crash states ---------- *)
let wops_of (s : string) : wop list =
  List.map (fun t ->
    let n = String.length t in
    match t.[0] with
    | 'A' -> let i = String.index t ':' in WAppend (n_of_string (String.sub t 1 (i - 1)), bytes_of_hex (String.sub t (i + 1) (n - i - 1)))
    | 'W' -> WStart (bytes_of_hex (String.sub t 2 (n - 2)))
    | 'S' -> WSetPos (n_of_string (String.sub t 1 (n - 1)))
    | _ -> failwith "wop") (List.filter (fun x -> x <> "") (split_on ',' s))
let rec nat_of_int (i : int) : nat = if i <= 0 then O else S (nat_of_int (i - 1))
let do_c12 (op : string) (args : string list) : string =
  match op, args with
  | "c12.vt", [o] -> if vt_wfb (wops_of o) then "wf" else "not-wf"
  | "c12.pm", [o] ->
      let ops = wops_of o in
      if not (pm_wfb ops) then "not-wf" else begin
        let n = List.length ops in
        let opened = ref [] in
        let test k c = match pm_view (crash_state ops (nat_of_int k) (nat_of_int c)) with Some _ -> opened := Printf.sprintf "%d:%d" k c :: !opened | None -> () in
        for k = 0 to n do test k 0 done;
        for c = 1 to 127 do test (n - 1) c done;
        "wf " ^ String.concat "," (List.rev !opened)
      end
  | "c12.vthdr", [h] -> (match vt_parse_header (bytes_of_hex h) with
      | Some v -> Printf.sprintf "ok %s %s %s %s" (string_of_n v.vh_moff) (string_of_n v.vh_mlen) (string_of_n v.vh_boff) (string_of_n v.vh_blen)
      | None -> "err")
  | "c12.pmhdr", [h] -> (match pm_view (bytes_of_hex h) with Some (v, _) -> "ok " ^ hex_of_bytes v | None -> "err")
  | _ -> "?c12-args"

(* ---------- C01 / C16 container formats ---------- *)
let rec nat_of_int' (i : int) : nat = if i <= 0 then O else S (nat_of_int' (i - 1))
let rec int_of_nat = function O -> 0 | S k -> 1 + int_of_nat k
let entry_of (t : string) : entry = match List.map n_of_string (split_on ',' t) with
  | [i; o; l; r] -> { e_id = i; e_off = o; e_len = l; e_run = r } | _ -> failwith "entry"
let entries_of (s : string) : entry list = if s = "-" then [] else List.map entry_of (split_on ';' s)
let fmt_entry (e : entry) : string = String.concat "," (List.map string_of_n [e.e_id; e.e_off; e.e_len; e.e_run])
let fmt_entries (es : entry list) : string = if es = [] then "-" else String.concat ";" (List.map fmt_entry es)
let rle (s : string) : string =
  let b = Buffer.create 64 in let n = String.length s in let i = ref 0 in
  while !i < n do let j = ref !i in while !j < n && s.[!j] = s.[!i] do incr j done;
    Buffer.add_string b (Printf.sprintf "%cx%d." s.[!i] (!j - !i)); i := !j done; Buffer.contents b
let do_fmt (op : string) (args : string list) : string =
  match op, args with
  | "tileid", [z; x; y] -> (match coord_to_tile_id (z_of_string x) (z_of_string y) (nat_of_int' (int_of_string z)) with Some i -> string_of_z i | None -> "err")
  | "idcoord", [i] -> (match tile_id_to_coord (z_of_string i) with Some ((z, x), y) -> Printf.sprintf "%d %s %s" (int_of_nat z) (string_of_z x) (string_of_z y) | None -> "err")
  | "pmdir.ser", [es] -> hex_of_bytes (serialize (entries_of es))
  | "pmdir.de", [h] -> (match deserialize pm_arith_variant (bytes_of_hex h) with Ok es -> "ok " ^ fmt_entries es | Err -> "err" | Panic -> "panic" | Overflow -> "overflow")
  | "pmdir.asdir", [target; k; n; a; st; m; o0; g] ->
      (* entries from the generator both sides implement (harness/src/pmcorr.rs: seq_entries) *)
      let n = int_of_string n and a = int_of_string a and st = int_of_string st and m = int_of_string m and o0 = int_of_string o0 and g = int_of_string g in
      let es = ref [] and off = ref o0 and prevlen = ref 0 in
      for i = 0 to n - 1 do
        if i > 0 then off := !off + !prevlen + (if i mod 5 = 0 then g else 0);
        let len = 1 + (i * 13) mod m in
        es := { e_id = n_of_int (a + i * st); e_off = n_of_int !off; e_len = n_of_int len; e_run = n_of_int (1 + (i * 7) mod 3) } :: !es;
        prevlen := len
      done;
      let es = List.rev !es in
      let hash (b : n list) = let h = ref 7 in List.iter (fun x -> h := (!h * 31 + int_of_n x) mod 1000000007) b; Printf.sprintf "%d:%d" (List.length b) !h in
      (match as_directory (n_of_int 16384) (n_of_string target) [nat_of_int' (int_of_string k)] es with
       | None -> "none"
       | Some d ->
           Printf.sprintf "root=%s leaves=%s ptrs=%s cuts=%s" (hash (serialize d.d_root)) (hash d.d_leaves_bytes)
             (if d.d_leaves = [] then "-" else fmt_entries d.d_root)
             (if d.d_leaves = [] then "-" else String.concat "," (List.map (fun (l, _) -> string_of_int (List.length l)) d.d_leaves)))
  | "vt.bdef", [h] ->
      let soft = function Ok _ -> "" | Err -> "err" | Panic -> "panic" | Overflow -> "overflow" in
      (match bdef_from_blob (bytes_of_hex h) with
       | Ok d ->
           let re = (match bdef_as_blob d with Ok b -> hex_of_bytes b | o -> soft o) in
           "ok " ^ String.concat " " (List.map string_of_n [d.bd_z; d.bd_x; d.bd_y; d.bd_gx0; d.bd_gy0; d.bd_gx1; d.bd_gy1; d.bd_toff; d.bd_tlen; d.bd_ioff; d.bd_ilen]) ^ " " ^ re
       | o -> soft o)
  | "vt.hdr", [h] ->
      (match hdr_from_blob (bytes_of_hex h) with Ok d -> "ok " ^ hex_of_bytes (hdr_to_blob d) | Err -> "err" | Panic -> "panic" | Overflow -> "overflow")
  | "pm.hdr", [h] ->
      (match pmh_deserialize (bytes_of_hex h) with Ok d -> "ok " ^ hex_of_bytes (pmh_serialize d) | Err -> "err" | Panic -> "panic" | Overflow -> "overflow")
  | "vt.bnew", [z; x0; y0; x1; y1; toff; tlen; ilen] ->
      let d = bdef_new (n_of_string z) (n_of_string x0) (n_of_string y0) (n_of_string x1) (n_of_string y1) in
      let d = { d with bd_toff = n_of_string toff; bd_tlen = n_of_string tlen; bd_ioff = N.add (n_of_string toff) (n_of_string tlen); bd_ilen = n_of_string ilen } in
      (match bdef_as_blob d with Ok b -> hex_of_bytes b | Err -> "err" | Panic -> "panic" | Overflow -> "overflow")
  | "vt.tidx", [add; h] ->
      let fmt l = if l = [] then "-" else String.concat "," (List.map (fun (o, n) -> string_of_n o ^ ":" ^ string_of_n n) l) in
      (match tidx_from_blob (bytes_of_hex h) with
       | Ok idx -> "ok " ^ fmt idx ^ " " ^ (match tidx_add_offset_v tidx_offset_variant (n_of_string add) idx with Ok l -> fmt l | Err -> "err" | Panic -> "panic" | Overflow -> "overflow")
       | Err -> "err" | Panic -> "panic" | Overflow -> "overflow")
  | "pmdir.find", [es; t] -> (match find_tile pm_arith_variant (entries_of es) (n_of_string t) with Ok (Some e) -> fmt_entry e | Ok None -> "none" | Err -> "err" | Panic -> "panic" | Overflow -> "overflow")
  | "vtindex", [sl] ->
      let slot t = if t = "-" then None
        else if t.[0] = 'h' then Some (bytes_of_hex (String.sub t 1 (String.length t - 1)))
        else (match split_on ':' t with
              | [l; c] -> let len = int_of_string l and cls = int_of_string c in
                  Some (List.init len (fun i -> n_of_int (if i < 4 then (cls lsr (8 * i)) land 255 else 0)))
              | _ -> failwith "slot") in
      let st = write_block (List.map slot (split_on ',' sl)) in
      String.concat "," (List.map (fun (o, l) -> string_of_n o ^ "+" ^ string_of_n l) st.w_index)
  | "vtblocks", [lv; tl] ->
      let boxes = List.map (fun t -> match split_on ':' t with [z; b] -> parse_bbox (z ^ "/" ^ String.concat "/" (split_on ',' b)) | _ -> failwith "level") (split_on ';' lv) in
      let pyr z = match List.find_opt (fun b -> b.level = z) boxes with Some b -> b | None -> (match new_empty z with Ok b -> b | _ -> failwith "empty") in
      let tiles = if tl = "-" then [] else List.map (fun t -> match List.map n_of_string (split_on ',' t) with [z; x; y] -> ((z, x), y) | _ -> failwith "tile") (split_on ';' tl) in
      let tbl = Hashtbl.create 64 in List.iter (fun c -> Hashtbl.replace tbl c ()) tiles;
      let tf c = if Hashtbl.mem tbl c then Some (n_of_int 1) else None in
      (match vt_write bbox_index_variant pyr tf with
       | Ok bs -> String.concat ";" (List.sort compare (List.map (fun b ->
           let c = b.vb_box in let sh v k = string_of_n (N.sub v (N.mul k (n_of_int 256))) in
           Printf.sprintf "%s,%s,%s,%s,%s,%s,%s:%s" (string_of_n b.vb_z) (string_of_n b.vb_bx) (string_of_n b.vb_by)
             (sh c.x_min b.vb_bx) (sh c.y_min b.vb_by) (sh c.x_max b.vb_bx) (sh c.y_max b.vb_by)
             (rle (String.concat "" (List.map (function Some _ -> "1" | None -> "0") b.vb_slots)))) bs))
       | Err -> "err" | Panic -> "panic" | Overflow -> "overflow")
  | _ -> "?fmt-args"

(* ---------- C19 CSV ---------- *)
let do_csv (args : string list) : string =
  match args with
  | [h] ->
      let (rows, st) = read_csv csv_tail_variant (n_of_int 44) utf8_valid (bytes_of_hex h) in
      let r = String.concat "|" (List.map (fun fs -> String.concat ";" (List.map hex_of_bytes fs)) rows) in
      (if r = "" then "." else r) ^ " " ^ (match st with SOk -> "ok" | SErr -> "err" | SPanic -> "panic")
  | _ -> "?csv-args"

(* ---------- C15 pyramids ---------- *)
let ok_or_fail = function Ok v -> v | _ -> failwith "outcome"
let py_of (s : string) : bbox list =
  let base = ok_or_fail py_new_empty in
  if s = "-" then base else
  List.fold_left (fun p t -> ok_or_fail (py_set_level p (parse_bbox t))) base (split_on ',' s)
let fmt_py (p : bbox list) : string =
  let base = ok_or_fail py_new_empty in
  let l = List.filter_map (fun (b, e) -> if b = e then None else Some (fmt_bbox b)) (List.combine p base) in
  if l = [] then "-" else String.concat "," l
let do_pyr (op : string) (a : string array) : string =
  let n i = n_of_string a.(i) in
  let opt = function None -> "-" | Some z -> string_of_n z in
  match op with
  | "py.intersect" -> out_fmt fmt_py (py_intersect (py_of a.(0)) (py_of a.(1)))
  | "py.include" -> out_fmt fmt_py (py_include_pyramid (py_of a.(0)) (py_of a.(1)))
  | "py.inccoord" -> out_fmt fmt_py (py_include_coord (py_of a.(0)) (n 1) (n 2) (n 3))
  | "py.zmin" -> fmt_py (py_set_zoom_min (py_of a.(0)) (n 1))
  | "py.zmax" -> fmt_py (py_set_zoom_max (py_of a.(0)) (n 1))
  | "py.info" -> let p = py_of a.(0) in Printf.sprintf "%s %s %s %s" (opt (py_zoom_min p)) (opt (py_zoom_max p)) (string_of_n (py_count p)) (b01 (py_is_empty p))
  | "py.contains" -> b01 (py_contains (py_of a.(0)) (n 1) (n 2) (n 3))
  | "py.overlaps" -> b01 (py_overlaps (py_of a.(0)) (parse_bbox a.(1)))
  | "py.border" -> out_fmt fmt_py (py_add_border bbox_add_border_variant (py_of a.(0)) (n 1) (n 2) (n 3) (n 4))
  | _ -> "?py-op"

(* ---------- C01 / C16 member names, C03 MBTiles bounds ---------- *)
let do_name (a : string list) : string =
  match a with
  | [s] -> (match parse_member (cps_of s) with
      | Some ((((z, x), y), f), c) -> Printf.sprintf "tile %s %s %s %s %s" (string_of_n z) (string_of_n x) (string_of_n y) (string_of_n f) (string_of_n c)
      | None -> "other")
  | _ -> "other"
let do_mbrows (a : string list) : string =
  match a with
  | [s] -> let rows = List.map (fun t -> match split_on ':' t with [c; r] -> (n_of_string c, n_of_string r) | _ -> failwith "row") (split_on ',' s) in
      (match level_bounds mbtiles_row_variant rows with
       | Some (((x0, y0), x1), y1) -> Printf.sprintf "%s %s %s %s" (string_of_n x0) (string_of_n y0) (string_of_n x1) (string_of_n y1)
       | None -> "none")
  | _ -> "?mbrows-args"

(* ---------- dispatch ---------- *)
let dispatch (op : string) (args : string list) : string =
  match op with
  | "cache" -> do_cache args
  | "pipe" -> do_pipe args
  | "acc" | "chunks" -> do_stream op args
  | "recomp" | "optc" | "ovl" -> do_recomp op args
  | "tilepath" | "static" -> do_http op args
  | "vpl" -> do_vpl args
  | "vpl.render" -> do_vpl_render args
  | "csv" -> do_csv args
  | "name" -> do_name args
  | "mbrows" -> do_mbrows args
  | "subreader" -> (match args with
      | [st; ln; total] -> (match sub_reader subreader_variant (n_of_string st) (n_of_string ln) (n_of_string total) with
          | Ok (a, b) -> "ok:" ^ string_of_n a ^ "-" ^ string_of_n b | Err -> "err" | Panic -> "panic" | Overflow -> "overflow")
      | _ -> "?subreader-args")
  | "tj.merge" | "tj.limit" ->
      (* a document: <bounds>;<center>;<values>  with bounds `w,s,e,n`, center `a,b,c`, values `hexkey:B<n>` | `hexkey:S<hex>` |
         `hexkey:L<hex>.<hex>...` joined by '&'; "-" = absent / empty *)
      let zs t = List.map z_of_string (String.split_on_char ',' t) in
      let tval_of t = (match t.[0] with
        | 'B' -> TByte (n_of_string (String.sub t 1 (String.length t - 1)))
        | 'S' -> TString (bytes_of_hex (String.sub t 1 (String.length t - 1)))
        | 'L' -> let r = String.sub t 1 (String.length t - 1) in TList (if r = "" then [] else List.map bytes_of_hex (String.split_on_char '.' r))
        | _ -> failwith ("tval " ^ t)) in
      let doc_of (t : string) : tj = (match String.split_on_char ';' t with
        | [b; c; v] ->
          { t_bounds = (if b = "-" then None else (match zs b with [w; s; e; n] -> Some (((w, s), e), n) | _ -> failwith b));
            t_center = (if c = "-" then None else (match zs c with [x; y; z] -> Some ((x, y), z) | _ -> failwith c));
            t_vals = (if v = "-" then [] else List.map (fun kv -> match String.split_on_char ':' kv with [k; x] -> (bytes_of_hex k, tval_of x) | _ -> failwith kv) (String.split_on_char '&' v)) }
        | _ -> failwith ("doc " ^ t)) in
      let show_tval = function TByte n -> "B" ^ string_of_n n | TString x -> "S" ^ hex_of_bytes x | TList l -> "L" ^ String.concat "." (List.map hex_of_bytes l) in
      let show (d : tj) : string =
        let b = match d.t_bounds with None -> "-" | Some (((w, s), e), n) -> String.concat "," (List.map string_of_z [w; s; e; n]) in
        let c = match d.t_center with None -> "-" | Some ((x, y), z) -> String.concat "," (List.map string_of_z [x; y; z]) in
        let vs = List.sort compare (List.map (fun (k, v) -> hex_of_bytes k ^ ":" ^ show_tval v) d.t_vals) in
        b ^ ";" ^ c ^ ";" ^ (if vs = [] then "-" else String.concat "&" vs) in
      let optn t = if t = "-" then None else Some (n_of_string t) in
      (match op, args with
       | "tj.merge", [a; b] -> show (merge tj_merge_variant (doc_of a) (doc_of b))
       | "tj.limit", [a; bb; zmin; zmax] ->
           let cb = if bb = "-" then None else (match zs bb with [w; s; e; n] -> Some (((w, s), e), n) | _ -> failwith bb) in
           show (update_from_pyramid cb (optn zmin) (optn zmax) (doc_of a))
       | _ -> "?tj-args")
  | "tj.vl" ->
      (* a layer list: "-" or items `hexid/fields/desc/min/max` joined by '&'; fields "-" or `hexk=hexv` joined by ','; desc "-" or S<hex> *)
      let hexb t = if t = "" then [] else bytes_of_hex t in
      let hexs b = if b = [] then "" else hex_of_bytes b in
      let optn t = if t = "-" then None else Some (n_of_string t) in
      let layer_of (t : string) = (match String.split_on_char '/' t with
        | [id; fs; d; mn; mx] ->
            (hexb id, { vl_fields = (if fs = "-" then [] else List.map (fun kv -> match String.split_on_char '=' kv with [k; v] -> (hexb k, hexb v) | _ -> failwith kv) (String.split_on_char ',' fs));
                        vl_desc = (if d = "-" then None else Some (hexb (String.sub d 1 (String.length d - 1)))); vl_min = optn mn; vl_max = optn mx })
        | _ -> failwith ("layer " ^ t)) in
      let layers_of t = if t = "-" then [] else List.map layer_of (String.split_on_char '&' t) in
      let show (ls : vlayers) =
        let item (id, l) = Printf.sprintf "%s/%s/%s/%s/%s" (hexs id)
          (if l.vl_fields = [] then "-" else String.concat "," (List.sort compare (List.map (fun (k, v) -> hexs k ^ "=" ^ hexs v) l.vl_fields)))
          (match l.vl_desc with None -> "-" | Some d -> "S" ^ hexs d)
          (match l.vl_min with None -> "-" | Some z -> string_of_n z) (match l.vl_max with None -> "-" | Some z -> string_of_n z) in
        if ls = [] then "-" else String.concat "&" (List.sort compare (List.map item ls)) in
      (match args with [a; b] -> show (vls_merge (layers_of a) (layers_of b)) | _ -> "?tj.vl-args")
  | "vplarg.bbox" | "vplarg.zoom" ->
      (* a parameter: "-" = not given, "()" = given without entries, otherwise its entries joined by ',' *)
      let param t = if t = "-" then None else if t = "()" then Some [] else Some (List.map codes (String.split_on_char ',' t)) in
      (match op, args with
       | "vplarg.bbox", [p] -> if bbox_builds (param p) then "ok" else "err"
       | "vplarg.zoom", [a; b] -> (match zoom_builds (param a) (param b) with
           | AErr -> "err"
           | AOk (lo, hi) ->
               let lo = match lo with None -> 0 | Some v -> int_of_n v and hi = match hi with None -> 31 | Some v -> min 31 (int_of_n v) in
               if lo > hi then "ok:empty" else Printf.sprintf "ok:%d-%d" lo hi)
       | _ -> "?vplarg-args")
  | "geo.axis" -> (match args with
      | [s; g; n; uw; ue] -> let (a, b) = axis_box geo_guard_variant (z_of_string s) (z_of_string g) (z_of_string n) (z_of_string uw) (z_of_string ue) in string_of_z a ^ " " ^ string_of_z b
      | _ -> "?geo-args")
  | "tileid" | "idcoord" | "pmdir.ser" | "pmdir.de" | "pmdir.find" | "pmdir.asdir" | "vt.bdef" | "vt.hdr" | "pm.hdr" | "vt.bnew" | "vt.tidx" | "vtblocks" | "vtindex" -> do_fmt op args
  | "c12.vt" | "c12.pm" | "c12.vthdr" | "c12.pmhdr" -> do_c12 op args
  | "varint" | "svarint" | "mvt.dec" | "mvt.rt" | "mvt.merge" | "mvt.upd" -> do_mvt op args
  | _ when String.length op > 5 && String.sub op 0 5 = "json." -> do_json op args
  | "sysprog" -> (match args with
      | [off; len] -> String.concat "," (List.map (function
          | Seek o -> "seek:" ^ string_of_n o | Read l -> "read:" ^ string_of_n l
          | Pread (o, l) -> "pread:" ^ string_of_n o ^ ":" ^ string_of_n l)
          (read_range_prog file_read_variant (n_of_string off) (n_of_string len)))
      | _ -> "?sysprog-args")
  | _ when String.length op > 3 && String.sub op 0 3 = "py." -> do_pyr op (Array.of_list args)
  | _ when String.length op > 3 && (String.sub op 0 3 = "bb." || String.sub op 0 3 = "co.") -> do_bbox op (Array.of_list args)
  | _ -> "?unknown-op"

let () =
  try
    while true do
      let line = input_line stdin in
      let lhs = match Str.bounded_split (Str.regexp_string " => ") line 2 with l :: _ -> l | [] -> "" in
      let lhs = if String.length line >= 3 && String.sub line 0 3 = " =>" then "" else lhs in
      match List.filter (fun x -> x <> "") (split_on ' ' lhs) with
      | [] -> ()
      | op :: args ->
        let r = try dispatch op args with Failure m -> "?driver-failure:" ^ m | Stack_overflow -> "?stack-overflow" in
        print_string lhs; print_string " => "; print_endline r
    done
  with End_of_file -> ()
