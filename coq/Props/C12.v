(* C12 — an interrupted write never leaves a file that opens as a valid, wrong container. *)
From Coq Require Import List NArith Lia.
From VT Require Import Model.Crash Proofs.CrashProofs.
Import ListNotations.

(* versatiles: for every operation sequence of the writer's shape (vt_wfb, evaluated by the
   correspondence check on every sequence recorded from VersaTilesWriter), every number k of
   completed operations and every byte cut of the next one: if the reader accepts the bytes on
   disk, they are exactly the bytes of the completely written file.
   The two decompressors are arbitrary functions; about decompress_brotli the theorem assumes what
   the check validates on every generated file: it rejects the empty input and every strict prefix
   of the file's compressed block index. *)
Theorem C12_versatiles :
  forall (decomp : N -> list N -> option (list N)) (unbrotli : list N -> option (list N)),
    unbrotli [] = None ->
    forall ops k cut,
      vt_wfb ops = true ->
      (forall n, n < length (vt_index_of ops) -> unbrotli (firstn n (vt_index_of ops)) = None) ->
      vt_open decomp unbrotli (crash_state ops k cut) <> None ->
      crash_state ops k cut = run_ops ops.
Proof. exact vt_crash_safe. Qed.
Print Assumptions C12_versatiles.

(* pmtiles: if the bytes on disk pass the header checks of open_reader, the reader sees the same
   ranges, counts, compressions and the same bytes from offset 127 on as in the complete file (the
   header bytes 99..126: tile type, zoom range, bounds, centre may still be zero). *)
Theorem C12_pmtiles :
  forall ops k cut,
    pm_wfb ops = true ->
    pm_view (crash_state ops k cut) <> None ->
    pm_view (crash_state ops k cut) = pm_view (run_ops ops).
Proof. exact pm_crash_safe. Qed.
Print Assumptions C12_pmtiles.

(* torn big-endian field: what is read is never larger than the value being written, and equal
   only if the bytes on disk already are the new bytes *)
Theorem C12_torn_field :
  forall (B : list N) j, j <= length B ->
    (rd_be (firstn j B ++ repeat 0%N (length B - j)) 0 <= rd_be B 0)%N.
Proof. exact torn_field_le. Qed.
Print Assumptions C12_torn_field.

(* non-vacuity: concrete sequences of both shapes, with a state in the middle of the final write *)
Definition ex_h (a b c d : N) : list N :=
  (vt_magic ++ [32; 2; 0; 3] ++ repeat 0 16 ++ [0;0;0;0;0;0;0;a] ++ [0;0;0;0;0;0;0;b] ++ [0;0;0;0;0;0;0;c] ++ [0;0;0;0;0;0;1;d])%N.
Definition ex_vt : list wop :=
  [WAppend 0 (vt_magic ++ [32; 2; 0; 3] ++ repeat 0 48); WAppend 66 [1; 2; 3]; WAppend 69 [9; 9]; WAppend 71 (repeat 7 260); WStart (ex_h 66 3 71 4)]%N.
Example C12_vt_shape : vt_wfb ex_vt = true /\ vt_index_of ex_vt = repeat 7%N 260.
Proof. split; vm_compute; reflexivity. Qed.
Example C12_vt_torn_state_differs : crash_state ex_vt 4 65 <> run_ops ex_vt.
Proof. vm_compute. discriminate. Qed.

Definition ex_pmh : list N := (pm_magic ++ repeat 5 89 ++ [2; 1; 1] ++ repeat 3 27)%N.
Definition ex_pm : list wop := [WSetPos 200; WAppend 200 [1; 2; 3]; WSetPos 127; WAppend 127 [4; 5]; WStart ex_pmh]%N.
Example C12_pm_shape : pm_wfb ex_pm = true /\ pm_view (run_ops ex_pm) <> None /\ pm_view (crash_state ex_pm 4 100) <> None /\ pm_view (crash_state ex_pm 4 98) = None.
Proof. repeat split; vm_compute; discriminate. Qed.

(* ---- the two hand-written models of the header parsers agree: the acceptance predicates the crash
   theorems are about (Model/Crash.v) accept exactly what the byte-level parsers of C01 / C16 accept
   (Model/VTBytes.v, Model/PMHeader.v), and read the same range fields ---- *)
From VT Require Import Base.Outcome Model.VTBytes Model.PMHeader Proofs.HeaderLink.
Theorem C12_versatiles_header_models_agree : forall h,
  vt_parse_header h =
    match hdr_from_blob h with
    | Ok d => Some (mkVH (h_moff d) (h_mlen d) (h_boff d) (h_blen d))
    | _ => None
    end.
Proof. exact header_models_agree. Qed.
Print Assumptions C12_versatiles_header_models_agree.
Theorem C12_pmtiles_header_models_agree : forall f,
  (exists v, pm_view f = Some v) <->
  (exists d, pmh_deserialize (firstn 127 f) = Ok d /\ (1 <= p_icomp d <= 3)%N /\ (1 <= p_tcomp d <= 3)%N).
Proof. exact pm_header_models_agree. Qed.
Print Assumptions C12_pmtiles_header_models_agree.
