(* C15 — tile bounding boxes behave as the sets of tiles they denote.
   Statements + `exact`; proofs in Proofs/BBoxProofs.v (and Proofs/PyramidProofs.v, GeoProofs.v).
   `In_box b x y` is the set denotation; `wf` is what every public constructor and set operation
   establishes (fields <= max resp. max+1, covering new_empty's (max+1,max+1,0,0), set_empty's
   (1,1,0,0) and the half-empty results of intersect_bbox). *)
From Coq Require Import List NArith Lia Sorted.
From VT Require Import Base.Outcome Model.BBox Proofs.BBoxProofs Gen.Constants.
Import ListNotations.
Local Open Scope N_scope.

(* relations needed from the regenerated constants *)
Lemma C15_gen_index_is_64bit : bbox_index_variant = 1.  Proof. reflexivity. Qed.
Lemma C15_gen_border_saturates : bbox_add_border_variant = 1.  Proof. reflexivity. Qed.

Theorem C15_empty : forall b, is_empty b = true <-> (forall x y, ~ In_box b x y).
Proof. exact empty_spec. Qed.
Print Assumptions C15_empty.

Theorem C15_contains : forall b z x y,
  (contains2 b x y = true <-> In_box b x y) /\ (contains3 b z x y = true <-> z = level b /\ In_box b x y).
Proof. intros; split; [apply contains2_spec | apply contains3_spec]. Qed.
Print Assumptions C15_contains.

Theorem C15_intersect : forall a b,
  (level a = level b -> exists c, intersect_bbox a b = Ok c) /\
  (level a <> level b -> intersect_bbox a b = Err) /\
  (forall c, intersect_bbox a b = Ok c ->
     (forall x y, In_box c x y <-> In_box a x y /\ In_box b x y) /\ (wf a -> wf b -> wf c)).
Proof.
  intros a b. split; [apply intersect_total|]. split; [apply intersect_level_mismatch|].
  intros c H. split; [now apply intersect_spec | intros Ha Hb; exact (intersect_wf a b c Ha Hb H)].
Qed.
Print Assumptions C15_intersect.

Theorem C15_include_least : forall a b c, wf a -> wf b -> include_bbox a b = Ok c ->
  (forall x y, In_box a x y \/ In_box b x y -> In_box c x y)
  /\ (forall d, (forall x y, In_box a x y -> In_box d x y) -> (forall x y, In_box b x y -> In_box d x y) ->
                forall x y, In_box c x y -> In_box d x y)
  /\ wf c.
Proof. exact include_spec. Qed.
Print Assumptions C15_include_least.

Theorem C15_include_coord_least : forall b x y, wf b -> x <= bmax b -> y <= bmax b ->
  let c := include_coord b x y in
  In_box c x y /\ (forall u v, In_box b u v -> In_box c u v)
  /\ (forall d, In_box d x y -> (forall u v, In_box b u v -> In_box d u v) -> forall u v, In_box c u v -> In_box d u v)
  /\ wf c /\ is_empty c = false.
Proof. exact include_coord_spec. Qed.
Print Assumptions C15_include_coord_least.

Theorem C15_overlaps : forall a b r, overlaps_bbox a b = Ok r ->
  (r = true <-> exists x y, In_box a x y /\ In_box b x y).
Proof. exact overlaps_spec. Qed.
Print Assumptions C15_overlaps.

(* tile count, row-major enumeration *)
Theorem C15_count_enumeration : forall b,
  N.of_nat (length (iter_coords b)) = count_tiles b
  /\ NoDup (iter_coords b)
  /\ (forall x y, In (x, y) (iter_coords b) <-> In_box b x y)
  /\ StronglySorted lex_lt (iter_coords b).
Proof.
  intros b. split; [apply iter_coords_length|]. split; [apply iter_coords_NoDup|].
  split; [apply iter_coords_In | apply iter_coords_sorted].
Qed.
Print Assumptions C15_count_enumeration.

(* index <-> coordinate, for boxes of any size *)
Theorem C15_index_inverse : forall b, wf b ->
  (forall x y i, In_box b x y -> get_tile_index bbox_index_variant b x y = Ok i ->
       i < count_tiles b /\ get_coord_by_index bbox_index_variant b i = Ok (x, y))
  /\ (forall i, i < count_tiles b -> exists x y,
       get_coord_by_index bbox_index_variant b i = Ok (x, y) /\ In_box b x y
       /\ get_tile_index bbox_index_variant b x y = Ok i).
Proof.
  rewrite C15_gen_index_is_64bit. intros b Hb. split.
  - intros x y i. now apply index_inverse_1.
  - apply index_inverse_2.
Qed.
Print Assumptions C15_index_inverse.

Theorem C15_index_u32_refuted_before_fix :
  exists b, new_full 16 = Ok b /\ get_coord_by_index 0 b 0 = Err /\ get_coord_by_index 1 b 0 = Ok (0, 0).
Proof. exact coord_by_index_big_refuted_v0. Qed.

(* splitting into an aligned grid is a partition; no panic, no overflow, for every well-formed box
   (both empty encodings included) and every u32 size > 0; size 0 gives no cells *)
Theorem C15_grid_partition : forall b s, wf b -> 0 < s -> s < u32_lim ->
  exists cells, iter_bbox_grid b s = Ok cells
  /\ (is_empty b = true -> cells = [])
  /\ Forall (fun c => is_empty c = false /\ wf c /\ level c = level b
                      /\ (forall x y, In_box c x y -> In_box b x y)
                      /\ x_min c / s = x_max c / s /\ y_min c / s = y_max c / s) cells
  /\ (forall x y, In_box b x y ->
        exists l1 c l2, cells = l1 ++ c :: l2 /\ In_box c x y /\ forall c', In c' (l1 ++ l2) -> ~ In_box c' x y).
Proof. exact grid_partition. Qed.
Print Assumptions C15_grid_partition.

Theorem C15_grid_size0 : forall b, iter_bbox_grid b 0 = Ok [].
Proof. exact grid_size0. Qed.

Theorem C15_flip : forall b, wf b ->
  exists c, flip_y b = Ok c /\ wf c /\ flip_y c = Ok b
  /\ (forall x y, y <= bmax b -> (In_box c x y <-> In_box b x (bmax b - y))).
Proof.
  intros b Hb. destruct (flip_y_total b Hb) as [c Hc]. exists c. split; [exact Hc|].
  destruct (flip_y_spec b c Hb Hc) as [Hw Hi]. split; [exact Hw|]. split; [now apply flip_y_involutive | exact Hi].
Qed.
Print Assumptions C15_flip.

Theorem C15_swap : forall b,
  swap_xy (swap_xy b) = b /\ (forall x y, In_box (swap_xy b) x y <-> In_box b y x) /\ (wf b -> wf (swap_xy b)).
Proof. intros b. split; [apply swap_xy_involutive | apply swap_xy_spec]. Qed.
Print Assumptions C15_swap.

Theorem C15_add_border : forall b a0 b0 a1 b1, wf b ->
  (is_empty b = true -> add_border bbox_add_border_variant b a0 b0 a1 b1 = Ok b) /\
  (is_empty b = false ->
   exists c, add_border bbox_add_border_variant b a0 b0 a1 b1 = Ok c /\ wf c /\
    forall x y, In_box c x y <->
      (x <= bmax b /\ y <= bmax b /\ x_min b - a0 <= x /\ x <= x_max b + a1 /\ y_min b - b0 <= y /\ y <= y_max b + b1)).
Proof.
  rewrite C15_gen_border_saturates. intros b a0 b0 a1 b1 Hb. split.
  - apply add_border_empty.
  - now apply add_border_spec.
Qed.
Print Assumptions C15_add_border.

Theorem C15_add_border_overflow_refuted_before_fix :
  exists b, new 8 5 10 20 30 = Ok b /\ add_border 0 b 0 0 4294967295 0 = Overflow.
Proof. exact add_border_overflow_v0. Qed.

(* constructors produce what they denote *)
Theorem C15_constructors : forall z,
  (forall b, new_empty z = Ok b -> is_empty b = true /\ wf b) /\
  (forall b, new_full z = Ok b -> wf b /\ forall x y, In_box b x y <-> (x <= level_max z /\ y <= level_max z)) /\
  (forall x0 y0 x1 y1 b, new z x0 y0 x1 y1 = Ok b ->
     wf b /\ is_empty b = false /\ level b = z /\ x_min b = x0 /\ y_min b = y0 /\ x_max b = x1 /\ y_max b = y1).
Proof.
  intros z. split; [apply new_empty_empty|]. split; [apply new_full_spec | apply new_wf].
Qed.
Print Assumptions C15_constructors.

(* ---------- pyramids: one box per level, the set operations level by level ---------- *)
From VT Require Import Model.Pyramid Proofs.PyramidProofs.

Theorem C15_pyramid_intersect :
  forall p q, wfp p -> wfp q ->
    exists r, py_intersect p q = Ok r /\ wfp r /\
      forall z x y, In_pyr r z x y <-> In_pyr p z x y /\ In_pyr q z x y.
Proof. exact py_intersect_spec. Qed.
Print Assumptions C15_pyramid_intersect.

Theorem C15_pyramid_zoom_min :
  forall p m, wfp p -> wfp (py_set_zoom_min p m) /\
    forall z x y, In_pyr (py_set_zoom_min p m) z x y <-> In_pyr p z x y /\ (m <= z)%N.
Proof. exact py_set_zoom_min_spec. Qed.
Print Assumptions C15_pyramid_zoom_min.

Theorem C15_pyramid_zoom_max :
  forall p m, wfp p -> wfp (py_set_zoom_max p m) /\
    forall z x y, In_pyr (py_set_zoom_max p m) z x y <-> In_pyr p z x y /\ (z <= m)%N.
Proof. exact py_set_zoom_max_spec. Qed.
Print Assumptions C15_pyramid_zoom_max.

Theorem C15_pyramid_lowest_level :
  forall p z, wfp p -> py_zoom_min p = Some z ->
    (exists x y, In_pyr p z x y) /\ forall z' x y, (z' < z)%N -> ~ In_pyr p z' x y.
Proof. exact py_zoom_min_spec. Qed.
Print Assumptions C15_pyramid_lowest_level.

Theorem C15_pyramid_include_coord :
  forall p z x y, wfp p -> (z <= 31)%N -> (x <= level_max z)%N -> (y <= level_max z)%N ->
    exists r, py_include_coord p z x y = Ok r /\ wfp r /\ In_pyr r z x y /\
      forall z' u v, In_pyr p z' u v -> In_pyr r z' u v.
Proof. exact py_include_coord_spec. Qed.
Print Assumptions C15_pyramid_include_coord.

Theorem C15_pyramid_include :
  forall p q, wfp p -> wfp q ->
    exists r, py_include_pyramid p q = Ok r /\ wfp r /\
      forall z x y, In_pyr p z x y \/ In_pyr q z x y -> In_pyr r z x y.
Proof. exact py_include_pyramid_spec. Qed.
Print Assumptions C15_pyramid_include.

(* ---- geographic bounds <-> tile box: the discrete stage of from_geo, per axis ---- *)
Require Import ZArith.
From VT Require Import Model.Geo Proofs.GeoProofs.
Lemma C15_gen_geo_guard : geo_guard_variant = 1.  Proof. reflexivity. Qed.

(* every pair of real tile coordinates gives a non-empty range inside the level *)
Theorem C15_geo_axis_nonempty : forall S G n uw ue, (1 <= n)%Z ->
  let '(a, b) := axis_box geo_guard_variant S G n uw ue in (0 <= a /\ a <= b /\ b <= n - 1)%Z.
Proof. exact (axis_box_nonempty geo_guard_variant). Qed.
Print Assumptions C15_geo_axis_nonempty.

(* box -> bounds -> box is the identity, also when the coordinates come back perturbed by less
   than the guard (S sub-units per tile, guard G with 2G <= S) *)
Theorem C15_geo_roundtrip : forall S G n a b e1 e2, (0 < S)%Z -> (0 <= G)%Z -> (2 * G <= S)%Z ->
  (0 <= a)%Z -> (a <= b)%Z -> (b <= n - 1)%Z ->
  (- G <= e1 < S - G)%Z -> (G - S <= e2 < G)%Z ->
  axis_box geo_guard_variant S G n (a * S + e1) ((b + 1) * S + e2) = (a, b).
Proof. exact axis_roundtrip. Qed.
Print Assumptions C15_geo_roundtrip.

Theorem C15_geo_roundtrip_refuted_without_guard :
  axis_box 0 1000000 1 16 (1 * 1000000 - 1) (2 * 1000000 - 1) = (0%Z, 1%Z).
Proof. exact axis_roundtrip_refuted_without_guard. Qed.

(* the range covers the box up to the guard, and reaches no further than the guarded bounds *)
Theorem C15_geo_covers : forall S G n uw ue i, (0 < S)%Z -> (0 <= G)%Z -> (1 <= n)%Z ->
  (0 <= i <= n - 1)%Z -> (uw + G < (i + 1) * S)%Z -> (i * S <= ue - G)%Z ->
  let '(a, b) := axis_box geo_guard_variant S G n uw ue in (a <= i <= b)%Z.
Proof. exact (axis_covers geo_guard_variant). Qed.
Print Assumptions C15_geo_covers.

Theorem C15_geo_tight : forall S G n uw ue i, (0 < S)%Z -> (0 <= G)%Z ->
  (0 <= uw + G)%Z -> (uw + G < n * S)%Z -> (0 <= ue - G)%Z -> (ue - G < n * S)%Z ->
  let '(a, b) := axis_box geo_guard_variant S G n uw ue in
  (a <= i <= b)%Z -> (i * S <= Z.max (uw + G) (ue - G) /\ Z.min (uw + G) (ue - G) < (i + 1) * S)%Z.
Proof. exact axis_tight. Qed.
Print Assumptions C15_geo_tight.

Example C15_geo_example : axis_box geo_guard_variant 1000000 1 16 3999999 8000000 = (4%Z, 7%Z).
Proof. reflexivity. Qed.
