(* C04 — recompression changes only the encoding, never the payload. *)
From Coq Require Import List NArith Bool.
From VT Require Import Model.Recompress Proofs.RecompressProofs.
Import ListNotations.
Local Open Scope N_scope.

(* every (source, target, force) combination, every payload, any lawful gzip/brotli codecs *)
Theorem C04_blob : forall gz br, lawful gz -> lawful br -> forall src dst force b p,
  decompress gz br src b = Some p ->
  exists b', process gz br (recompressor src dst force) b = Some b' /\ decompress gz br dst b' = Some p.
Proof. exact recompressor_preserves. Qed.
Print Assumptions C04_blob.

Theorem C04_failure_only_on_undecodable_source : forall gz br, lawful gz -> lawful br -> forall src dst force b,
  process gz br (recompressor src dst force) b = None -> decompress gz br src b = None.
Proof. exact recompressor_fails_only_on_bad_input. Qed.
Print Assumptions C04_failure_only_on_undecodable_source.

(* utils::recompress (overlay, metadata) *)
Theorem C04_recompress : forall gz br, lawful gz -> lawful br -> forall src dst b p,
  decompress gz br src b = Some p ->
  exists b', recompress gz br src dst b = Some b' /\ decompress gz br dst b' = Some p.
Proof. exact recompress_preserves. Qed.
Print Assumptions C04_recompress.

(* metadata written compressed with the declared compression reads back unchanged *)
Theorem C04_meta : forall gz br, lawful gz -> lawful br -> forall c b,
  decompress gz br c (compress gz br c b) = Some b.
Proof. exact decompress_compress. Qed.
Print Assumptions C04_meta.

Example C04_codecs_exist : lawful (framed 1) /\ lawful (framed 2).
Proof. split; apply framed_lawful. Qed.
