(* C20 — the bounded cache is transparent and stays within its capacity.
   Only statements + `exact`; proofs are in Proofs/CacheProofs.v.
   `cache_median_variant` is regenerated from limited_cache.rs on every run. *)
From Coq Require Import List NArith Lia.
From VT Require Import Model.Cache Proofs.CacheProofs Gen.Constants.
Import ListNotations.
Local Open Scope N_scope.

Definition V := cache_median_variant.

(* relation the property needs from the regenerated constant: the lower median is used *)
Lemma C20_gen_median_is_lower : V = 1.
Proof. reflexivity. Qed.

(* never more entries than the capacity, never two entries for one key — every history *)
Theorem C20_capacity :
  forall n ops, 0 < n ->
    N.of_nat (length (entries (final V (empty n) ops))) <= n
    /\ NoDup (keys (entries (final V (empty n) ops))).
Proof. exact (capacity_all_histories V). Qed.
Print Assumptions C20_capacity.

(* a value returned for a key was supplied under exactly that key earlier in the history *)
Theorem C20_provenance :
  forall n ops o v, 0 < n ->
    snd (step V (final V (empty n) ops) o) = Some v ->
    In (op_key o, v) (supplied (ops ++ [o])).
Proof. exact (provenance_all_histories V). Qed.
Print Assumptions C20_provenance.

(* get_or_set: hit = cached value and the loader plays no role; miss = the loader's outcome *)
Theorem C20_get_or_set :
  forall c k ld,
    (forall v s, lookup k (entries c) = Some (v, s) ->
        get_or_set V c k ld = get c k /\ snd (get c k) = Some v)
    /\ (lookup k (entries c) = None -> ld = None -> get_or_set V c k ld = (c, None))
    /\ (forall v, lookup k (entries c) = None -> ld = Some v ->
        snd (get_or_set V c k ld) = Some v
        /\ exists s, lookup k (entries (fst (get_or_set V c k ld))) = Some (v, s)).
Proof. exact (get_or_set_spec V). Qed.
Print Assumptions C20_get_or_set.

(* an entry that was just used (hit, or inserted) survives the next eviction — every capacity
   >= 2, every history.  (Capacity 1: see C20_cap1_impossible.) *)
Theorem C20_recent_survives :
  forall n ops k c',
    2 <= n ->
    let c := final V (empty n) ops in
    ((exists v, snd (get c k) = Some v /\ c' = fst (get c k))
     \/ (exists v, lookup k (entries c) = None /\ c' = fst (add V c k v))) ->
    N.leb (cap c') (N.of_nat (length (entries c'))) = true ->
    exists v, lookup k (entries (cleanup V c')) = Some (v, 0).
Proof.
  intros n ops k c' Hn. apply (recent_survives_at_eviction V n ops k c').
  rewrite C20_gen_median_is_lower. exact Hn.
Qed.
Print Assumptions C20_recent_survives.

(* with the upper median (the code before the fix) the statement is false at capacity 2 *)
Theorem C20_recent_cap2_refuted_upper_median :
  snd (step 0 (final 0 (empty 2) [OAdd 1 10; OAdd 2 20; OGet 1; OAdd 3 30]) (OGet 1)) = None.
Proof. exact recent_cap2_refuted_v0. Qed.

(* at capacity 1 "bounded" and "just-used survives" contradict each other for any cache *)
Theorem C20_cap1_impossible :
  forall (state : Type) (size : state -> nat) (has : state -> N -> bool)
         (addf : state -> N -> state),
    (forall s k, has (addf s k) k = true) ->
    (forall s, size s <= 1)%nat ->
    (forall s, (length (filter (has s) [1%N; 2%N]) <= size s)%nat) ->
    (forall s k k', has s k = true -> has (addf s k') k = true) ->
    forall s0 : state, False.
Proof. exact cap1_impossible. Qed.
Print Assumptions C20_cap1_impossible.
