(* C18 — every well-formed pipeline text parses to the pipeline it describes. *)
From Coq Require Import List NArith Bool.
From VT Require Import Model.VPL Proofs.VPLProofs Proofs.VPLRoundtrip Gen.Constants.
Import ListNotations.
Local Open Scope N_scope.

Lemma C18_gen_empty_value_accepted : vpl_empty_variant = 1.  Proof. reflexivity. Qed.

(* any value (any characters: quotes, backslashes, line breaks, tabs, non-ASCII, empty) written as a
   quoted string with the four escapes parses back to exactly that value *)
Theorem C18_quoted_value_roundtrip : forall s tail, quoted vpl_empty_variant (qprint s ++ tail) = ROk s tail.
Proof. exact quoted_roundtrip. Qed.
Print Assumptions C18_quoted_value_roundtrip.

(* the whole language: every well-formed pipeline - any number of nodes joined by '|', any number
   of properties per node (identifier keys; single values or lists of values of arbitrary
   characters), source lists nested to any depth - is read back from its canonical text
   (render_pipe: `name k="v" k2=["a","b"][src|src,src]`); the fuel of parse_vpl is shown to suffice *)
Theorem C18_pipeline_roundtrip : forall p, wf_pipe p -> parse_vpl vpl_empty_variant (render_pipe p) = Some p.
Proof. exact vpl_roundtrip. Qed.
Print Assumptions C18_pipeline_roundtrip.

Example C18_wf_example :
  let p := [Node [97] [([107], [[120; 34]]); ([108], [])] [[Node [98] [] []]; [Node [99] [] []; Node [100; 45; 49] [] []]]] in
  wf_pipe p /\ parse_vpl 1 (render_pipe p) = Some p.
Proof.
  split; [|vm_compute; reflexivity].
  assert (W : forall a b, a <> [] -> forallb is_alpha a = true -> forallb ident_tail b = true -> (match b with c :: _ => is_alpha c = false | [] => True end) -> wf_ident (a ++ b))
    by (intros a b H1 H2 H3 H4; exists a, b; auto).
  split; [discriminate|]. cbn. repeat split; try discriminate; try (repeat constructor);
    try (apply (W [97] []); [discriminate|reflexivity|reflexivity|exact I]);
    try (apply (W [98] []); [discriminate|reflexivity|reflexivity|exact I]);
    try (apply (W [99] []); [discriminate|reflexivity|reflexivity|exact I]);
    try (apply (W [100] [45; 49]); [discriminate|reflexivity|reflexivity|reflexivity]);
    try (apply (W [107] []); [discriminate|reflexivity|reflexivity|exact I]);
    try (apply (W [108] []); [discriminate|reflexivity|reflexivity|exact I]).
Qed.

Theorem C18_empty_value_refuted_before_fix : parse_vpl 0 [97; 32; 98; 61; 34; 34] = None.
Proof. exact empty_value_rejected_v0. Qed.

Example C18_nested_example :
  parse_vpl vpl_empty_variant
    (* a k="x" [ b , c | d ] *)
    [97;32;107;61;34;120;34;32;91;32;98;32;44;32;99;32;124;32;100;32;93]
  = Some [Node [97] [([107], [[120]])] [[Node [98] [] []]; [Node [99] [] []; Node [100] [] []]]].
Proof. vm_compute. reflexivity. Qed.
