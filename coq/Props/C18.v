(* C18 — every well-formed pipeline text parses to the pipeline it describes. *)
From Coq Require Import List NArith Bool.
From VT Require Import Model.VPL Proofs.VPLProofs Gen.Constants.
Import ListNotations.
Local Open Scope N_scope.

Lemma C18_gen_empty_value_accepted : vpl_empty_variant = 1.  Proof. reflexivity. Qed.

(* any value (any characters: quotes, backslashes, line breaks, tabs, non-ASCII, empty) written as a
   quoted string with the four escapes parses back to exactly that value *)
Theorem C18_quoted_value_roundtrip : forall s tail, quoted vpl_empty_variant (qprint s ++ tail) = ROk s tail.
Proof. exact quoted_roundtrip. Qed.
Print Assumptions C18_quoted_value_roundtrip.

Theorem C18_empty_value_refuted_before_fix : parse_vpl 0 [97; 32; 98; 61; 34; 34] = None.
Proof. exact empty_value_rejected_v0. Qed.

Example C18_nested_example :
  parse_vpl vpl_empty_variant
    (* a k="x" [ b , c | d ] *)
    [97;32;107;61;34;120;34;32;91;32;98;32;44;32;99;32;124;32;100;32;93]
  = Some [Node [97] [([107], [[120]])] [[Node [98] [] []]; [Node [99] [] []; Node [100] [] []]]].
Proof. vm_compute. reflexivity. Qed.
