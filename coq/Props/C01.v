(* C01 — container round trip is lossless for every tile set and every format. *)
From Coq Require Import List NArith ZArith Lia.
From VT Require Import Base.Outcome Gen.Constants Model.BBox Proofs.BBoxProofs Model.MVT Model.TileId Proofs.TileIdProofs
  Model.PMDir Proofs.PMDirProofs Model.VTFormat Proofs.VTFormatProofs Model.VTBlock Proofs.VTBlockProofs Model.Naming Proofs.NamingProofs.
Import ListNotations.

(* index arithmetic in the source is the 64-bit variant the theorems are about *)
Lemma C01_gen_index_variant : bbox_index_variant = 1%N.  Proof. reflexivity. Qed.

(* versatiles: for every coverage pyramid and every tile set, the block grid the writer lays out
   (one block per 256-cell of every level's coverage, one slot per coordinate of the cell) answers
   every lookup of the reader with exactly the source's tile, and with nothing outside the coverage *)
Theorem C01_versatiles_layout :
  forall (pyr : N -> bbox) (tiles : vcoord -> option N),
    (forall z, (z <= 31)%N -> wf (pyr z) /\ level (pyr z) = z) ->
    exists blocks, vt_write bbox_index_variant pyr tiles = Ok blocks /\
      forall z x y, (z <= 31)%N ->
        vt_lookup bbox_index_variant blocks (z, x, y) = Ok (if contains2 (pyr z) x y then tiles (z, x, y) else None).
Proof. exact vt_roundtrip. Qed.
Print Assumptions C01_versatiles_layout.

(* versatiles, inside a block: tiles are appended in stream order, payloads below 1000 bytes are
   stored once per block; every slot reads back exactly its own tile through its index entry, for
   every sequence of payloads (duplicates, sizes on both sides of the threshold, missing tiles) *)
Theorem C01_versatiles_block_storage :
  forall slots i,
    read_slot (write_block slots) i =
      match nth_error slots i with
      | Some (Some d) => if (N.of_nat (length d) =? 0)%N then None else Some d
      | _ => None
      end.
Proof. exact block_roundtrip. Qed.
Print Assumptions C01_versatiles_block_storage.

(* pmtiles: the two tile-id loops of tile_id.rs are inverse on every coordinate of every level, so
   distinct tiles get distinct directory entries and the reader's coverage scan recovers them *)
Theorem C01_pmtiles_tile_id :
  forall z x y, (z < 32)%nat -> (0 <= x < 2 ^ Z.of_nat z)%Z -> (0 <= y < 2 ^ Z.of_nat z)%Z ->
    exists id, coord_to_tile_id x y z = Some id /\ tile_id_to_coord id = Some (z, x, y).
Proof. exact tile_id_roundtrip. Qed.
Print Assumptions C01_pmtiles_tile_id.

(* pmtiles: a directory written by serialize_entries is read back unchanged by from_blob *)
Theorem C01_pmtiles_directory :
  forall es, Forall entry_ok es -> nondec 0 es -> (N.of_nat (length es) <= 10000000000)%N ->
    deserialize pm_arith_variant (serialize es) = Ok es.
Proof. intros es. exact (deserialize_serialize pm_arith_variant [] es). Qed.
Print Assumptions C01_pmtiles_directory.

(* pmtiles: in the sorted directory the writer produces (run length 1 everywhere) the binary search
   finds every entry by its id *)
Theorem C01_pmtiles_find :
  forall es e, runs_ok es -> In e es -> e_run e = 1%N -> find_tile pm_arith_variant es (e_id e) = Ok (Some e).
Proof.
  intros es e Hr Hin Hrun. apply (find_in_run pm_arith_variant es e (e_id e) Hr Hin); [left; rewrite Hrun; lia|intros _; rewrite Hrun; lia].
Qed.
Print Assumptions C01_pmtiles_find.

(* pmtiles, directory too large for the root: as_directory writes a root of leaf pointers
   (first id of each chunk, run length 0) over chunks of the sorted entries; every tile is found
   through its pointer *)
Theorem C01_pmtiles_two_level :
  forall leaffn pre l o n post e t d,
    let leaves := pre ++ (l, (o, n)) :: post in
    runs_ok (concat (map fst leaves)) ->
    Forall (fun x => fst x <> [] /\ (0 < snd (snd x))%N) leaves ->
    leaffn o n = Ok l ->
    In e l -> (0 < e_len e)%N -> (0 < e_run e)%N -> (e_id e <= t < e_id e + e_run e)%N ->
    pm_lookup pm_arith_variant (S (S d)) leaffn (root_of leaves) t = Ok (Some e).
Proof. exact (two_level_lookup pm_arith_variant). Qed.
Print Assumptions C01_pmtiles_two_level.

(* the PMTiles writer's directory (as_directory / build_roots_leaves): for every leaf size > 0 the
   leaves, in order, are exactly the sorted entry list (nothing dropped, nothing invented, no empty
   leaf); the root it stores parses back to itself; and the reader's lookup through that root and
   the leaves section returns, for every id of every run, the entry the writer was given *)
From VT Require Import Model.PMWrite Proofs.PMTreeProofs Proofs.PMWriteProofs.
Theorem C01_pmtiles_writer_leaves :
  forall k es, (0 < k)%nat ->
    concat (map fst (d_leaves (build_roots_leaves k es))) = es /\
    Forall (fun l => l <> [] /\ (length l <= k)%nat) (map fst (d_leaves (build_roots_leaves k es))).
Proof. exact writer_leaves_partition. Qed.
Print Assumptions C01_pmtiles_writer_leaves.

Theorem C01_pmtiles_writer_root :
  forall k es, (0 < k)%nat -> runs_ok es -> Forall entry_ok es -> (N.of_nat (length es) <= 10000000000)%N ->
    let d := build_roots_leaves k es in
    (N.of_nat (length (d_leaves_bytes d)) + 1 < two64)%N ->
    deserialize pm_arith_variant (serialize (d_root d)) = Ok (d_root d).
Proof. exact (writer_root_parses pm_arith_variant). Qed.
Print Assumptions C01_pmtiles_writer_root.

Theorem C01_pmtiles_writer_lookup :
  forall limit target ks es d extra,
    Forall (fun k => (0 < k)%nat) ks -> runs_ok es -> Forall entry_ok es ->
    Forall (fun e => (0 < e_len e)%N /\ (0 < e_run e)%N) es -> (N.of_nat (length es) <= 10000000000)%N ->
    as_directory limit target ks es = Some d ->
    forall e t, In e es -> (e_id e <= t < e_id e + e_run e)%N ->
    pm_lookup pm_arith_variant (2 + extra) (read_leaf pm_arith_variant (d_leaves_bytes d)) (d_root d) t = Ok (Some e).
Proof. exact (as_directory_lookup pm_arith_variant). Qed.
Print Assumptions C01_pmtiles_writer_lookup.

(* ... and with the directories stored through any lawful internal compression (the writer uses
   gzip): leaves are cut, compressed, placed and pointed at by their compressed lengths; the reader
   decompresses each leaf it is pointed to *)
Theorem C01_pmtiles_writer_lookup_compressed :
  forall (enc : list N -> list N) (dec : list N -> option (list N)),
    (forall b, dec (enc b) = Some b) -> (forall l, enc (serialize l) <> []) ->
  forall k es extra, (0 < k)%nat -> runs_ok es -> Forall entry_ok es ->
    Forall (fun e => (0 < e_len e)%N /\ (0 < e_run e)%N) es -> (N.of_nat (length es) <= 10000000000)%N ->
    let d := build_roots_leaves_enc enc k es in
    forall e t, In e es -> (e_id e <= t < e_id e + e_run e)%N ->
    pm_lookup pm_arith_variant (2 + extra) (read_leaf_dec dec pm_arith_variant (d_leaves_bytes d)) (d_root d) t = Ok (Some e).
Proof. intros enc dec H1 H2 k es extra. exact (writer_tree_lookup_enc enc dec H1 H2 pm_arith_variant k es extra). Qed.
Print Assumptions C01_pmtiles_writer_lookup_compressed.

(* versatiles: the block definition the writer derives from a cell of the 256-grid
   (BlockDefinition::new) is well formed, so its 33 bytes read back to the same block coordinate,
   coverage and byte ranges (C16_block_definition_bytes) *)
From VT Require Import Model.VTBytes Proofs.VTBytesProofs.
Theorem C01_versatiles_block_definition :
  forall z gx0 gy0 gx1 gy1 toff tlen ilen,
    (z <= 31)%N -> (gx0 <= gx1)%N -> (gy0 <= gy1)%N -> (gx1 <= 2 ^ z - 1)%N -> (gy1 <= 2 ^ z - 1)%N ->
    (gx0 / 256 = gx1 / 256)%N -> (gy0 / 256 = gy1 / 256)%N -> (toff + tlen <= u64_max)%N -> (ilen <= u32_max)%N ->
    let n := bdef_new z gx0 gy0 gx1 gy1 in
    let b := mkBD (bd_z n) (bd_x n) (bd_y n) (bd_cx0 n) (bd_cy0 n) (bd_cx1 n) (bd_cy1 n) gx0 gy0 gx1 gy1 toff tlen (toff + tlen) ilen in
    exists l, bdef_as_blob b = Ok l /\ length l = 33%nat /\ bdef_from_blob l = Ok b.
Proof.
  intros z gx0 gy0 gx1 gy1 toff tlen ilen Hz Hx Hy Hxm Hym Hbx Hby Hsum Hil n b. apply bdef_roundtrip.
  pose proof (bdef_new_wf z gx0 gy0 gx1 gy1 Hz Hx Hy Hxm Hym Hbx Hby) as W. unfold bdef_wf in *. subst n b. cbn in *.
  destruct W as (W1 & W2 & W3 & W4 & W5 & W6 & W7 & W8 & W9 & W10 & W11 & W12 & W13 & W14 & W15 & _).
  repeat split; try assumption; reflexivity.
Qed.
Print Assumptions C01_versatiles_block_definition.

(* versatiles: the 66-byte file header reads back to the fields it was written from - the declared
   tile format and compression, zoom range, bounds, and the byte ranges of metadata and block index;
   and whatever the reader accepts as a header declares one of the ten formats and three compressions *)
Theorem C01_versatiles_header :
  forall h, hdr_wf h -> length (hdr_to_blob h) = 66%nat /\ hdr_from_blob (hdr_to_blob h) = Ok h.
Proof. exact hdr_roundtrip. Qed.
Print Assumptions C01_versatiles_header.
Theorem C01_versatiles_header_codes :
  forall l h, hdr_from_blob l = Ok h -> In (h_format h) format_codes /\ (h_comp h <= 2)%N /\ length l = 66%nat.
Proof. exact hdr_accepts_known_codes. Qed.
Print Assumptions C01_versatiles_header_codes.

(* versatiles, the byte-level read path of one block: a block written by write_block (tiles appended
   in stream order, small payloads stored once) and stored anywhere in a file, followed by its
   brotli-compressed tile index, is read back slot by slot - index range, decompression, 12-byte
   entries, shift by the block's data offset, entry-count check, range read - for any lawful codec *)
From VT Require Import Model.Crash Model.VTFile Proofs.VTFileProofs.
Theorem C01_versatiles_block_in_file :
  forall (brotli : list N -> list N) (unb : list N -> option (list N)), (forall b, unb (brotli b) = Some b) ->
  forall slots pre post slot,
    let st := write_block slots in
    let cidx := brotli (tidx_as_blob (w_index st)) in
    let file := pre ++ w_data st ++ cidx ++ post in
    let toff := N.of_nat (length pre) in
    (N.of_nat (length file) <= u64_max)%N -> Forall (fun p => (snd p <= u32_max)%N) (w_index st) -> (slot < length slots)%nat ->
    read_tile unb file toff (toff + N.of_nat (length (w_data st))) (N.of_nat (length cidx)) (length slots) slot =
      Ok (match nth_error slots slot with
          | Some (Some d) => if (N.of_nat (length d) =? 0)%N then None else Some d
          | _ => None
          end).
Proof.
  intros brotli unb Hc slots pre post slot st cidx file toff Hf Hl Hs.
  rewrite <- (block_roundtrip slots slot). exact (block_in_file brotli unb Hc slots pre post slot Hf Hl Hs).
Qed.
Print Assumptions C01_versatiles_block_in_file.

(* versatiles, the whole file: header, metadata, the blocks one after the other (tile data followed by
   the brotli-compressed tile index), block index last - the writer's layout.  For any lawful codec,
   any number of blocks on any levels (distinct block coordinates, each a cell of the 256-grid with
   one slot per coordinate), the reader's byte-level path - header, block index, block lookup by
   (z, x/256, y/256), coverage test, slot number, tile index, range read - returns the tile that was
   written for the coordinate (nothing for slots without a tile) *)
Theorem C01_versatiles_file :
  forall (brotli : list N -> list N) (unb : list N -> option (list N)), (forall b, unb (brotli b) = Some b) ->
  forall h0 metaz A z x0 y0 x1 y1 slots B file,
    hdr_wf h0 ->
    let bl := A ++ ((z, (x0, y0, x1, y1)), slots) :: B in
    vt_assemble brotli h0 metaz bl = Ok file ->
    Forall cell_ok bl -> NoDup (map key bl) ->
    (N.of_nat (length file) <= u64_max)%N ->
    Forall fits (lay_blocks brotli (66 + N.of_nat (length metaz)) bl) ->
    Forall (fun p => (snd p <= u32_max)%N) (w_index (write_block slots)) ->
    forall x y, (x0 <= x <= x1)%N -> (y0 <= y <= y1)%N ->
    vt_file_lookup unb file z x y =
      Ok (match nth_error slots (N.to_nat ((y - y0) * (x1 - x0 + 1) + (x - x0))) with
          | Some (Some d) => if (N.of_nat (length d) =? 0)%N then None else Some d
          | _ => None
          end).
Proof. exact vt_written_file_lookup. Qed.
Print Assumptions C01_versatiles_file.

(* PMTiles: the 127-byte header reads back to the fields it was written from (directory, metadata
   and tile-data ranges, counts, clustered flag, compressions, tile type, zoom range, bounds, centre) *)
From VT Require Import Model.PMHeader Proofs.PMHeaderProofs.
Theorem C01_pmtiles_header :
  forall h, pmh_wf h -> length (pmh_serialize h) = 127%nat /\ pmh_deserialize (pmh_serialize h) = Ok h.
Proof. exact pmh_roundtrip. Qed.
Print Assumptions C01_pmtiles_header.

(* PMTiles, the whole file: header at 0, compressed root behind it, metadata at 16384, tile data,
   leaf directories last (the writer's layout).  For any lawful internal compression, any leaf
   size > 0 and any number of entries, the reader's byte-level path - parse the header, read and
   decompress root and leaves, walk the directories, add the tile-data offset, read the range -
   returns for every id of every run the bytes the writer's entry names; likewise when all
   entries sit in the root directory *)
From VT Require Import Model.PMFile Proofs.PMFileProofs.
Theorem C01_pmtiles_file :
  forall (zip : list N -> list N) (unzip : list N -> option (list N)),
    (forall b, unzip (zip b) = Some b) -> (forall l, zip (serialize l) <> []) ->
  forall h0 k es meta tiles,
    cosmetic_ok h0 -> (0 < k)%nat -> runs_ok es -> Forall entry_ok es -> Forall (fun e => (0 < e_len e)%N /\ (0 < e_run e)%N) es ->
    (N.of_nat (length es) <= 10000000000)%N ->
    let d := build_roots_leaves_enc zip k es in
    let file := pm_assemble zip h0 d meta tiles in
    (N.of_nat (length (zip (serialize (d_root d)))) <= 16384 - 127)%N -> (N.of_nat (length file) + 1 <= u64_max)%N ->
    forall e t, In e es -> (e_id e <= t < e_id e + e_run e)%N -> (e_off e + e_len e <= N.of_nat (length tiles))%N ->
    pm_file_lookup unzip pm_arith_variant file t = Ok (Some (PMWrite.sub tiles (e_off e) (e_len e))).
Proof. intros zip unzip H1 H2 h0 k es meta tiles. exact (pm_written_file_lookup zip unzip H1 H2 pm_arith_variant h0 k es meta tiles). Qed.
Print Assumptions C01_pmtiles_file.
Theorem C01_pmtiles_file_root_only :
  forall (zip : list N -> list N) (unzip : list N -> option (list N)),
    (forall b, unzip (zip b) = Some b) -> (forall l, zip (serialize l) <> []) ->
  forall h0 es meta tiles,
    cosmetic_ok h0 -> runs_ok es -> Forall entry_ok es -> Forall (fun e => (0 < e_len e)%N /\ (0 < e_run e)%N) es ->
    (N.of_nat (length es) <= 10000000000)%N ->
    let file := pm_assemble zip h0 (mkDir es [] []) meta tiles in
    (N.of_nat (length (zip (serialize es))) <= 16384 - 127)%N -> (N.of_nat (length file) <= u64_max)%N ->
    forall e t, In e es -> (e_id e <= t < e_id e + e_run e)%N -> (e_off e + e_len e <= N.of_nat (length tiles))%N ->
    pm_file_lookup unzip pm_arith_variant file t = Ok (Some (PMWrite.sub tiles (e_off e) (e_len e))).
Proof. intros zip unzip H1 H2 h0 es meta tiles. exact (pm_written_file_lookup_root_only zip unzip H1 H2 pm_arith_variant h0 es meta tiles). Qed.
Print Assumptions C01_pmtiles_file_root_only.

(* the byte layouts the models use as literals are what the source says today (regenerated on every run) *)
Lemma C01_gen_layout :
  vt_header_length = 66%N /\ vt_block_def_length = 33%N /\ vt_tile_index_entry_length = 12%N /\
  (2 ^ vt_block_shift = vt_block_grid)%N /\ vt_block_grid = 256%N /\
  pm_header_length = 127%N /\ pm_metadata_position = 16384%N /\ pm_root_area_end = pm_metadata_position.
Proof. repeat split; reflexivity. Qed.
Theorem C01_layout_lengths :
  (forall h, N.of_nat (length (hdr_to_blob h)) = vt_header_length) /\
  (forall b l, bdef_as_blob b = Ok l -> N.of_nat (length l) = vt_block_def_length) /\
  (forall idx, N.of_nat (length (tidx_as_blob idx)) = (vt_tile_index_entry_length * N.of_nat (length idx))%N) /\
  (forall h, N.of_nat (length (pmh_serialize h)) = pm_header_length).
Proof.
  split; [|split; [|split]].
  - intros h. unfold hdr_to_blob. rewrite !app_length, !be_length. reflexivity.
  - intros b l H. unfold bdef_as_blob in H. destruct (u64_max <? _)%N; [discriminate|]. destruct (negb _); [discriminate|].
    assert (El : l = be_bytes 1 (bd_z b) ++ be_bytes 4 (bd_x b) ++ be_bytes 4 (bd_y b) ++ be_bytes 1 (bd_cx0 b) ++ be_bytes 1 (bd_cy0 b) ++ be_bytes 1 (bd_cx1 b) ++ be_bytes 1 (bd_cy1 b) ++ be_bytes 8 (bd_toff b) ++ be_bytes 8 (bd_tlen b) ++ be_bytes 4 (bd_ilen b)) by congruence.
    rewrite El, !app_length, !be_length. reflexivity.
  - intros idx. rewrite tidx_length. change vt_tile_index_entry_length with 12%N. lia.
  - intros h. rewrite pmh_serialize_length. reflexivity.
Qed.
Print Assumptions C01_layout_lengths.

(* tar / directory: the member name `z/x/y<.format>[.gz|.br]` the writers produce is read back to the
   same coordinate, format (all ten) and compression, for every coordinate a tile can have *)
Theorem C01_member_names :
  forall z x y f c, (z <= 31)%N -> (x <= 4294967295)%N -> (y <= 4294967295)%N -> (f < 10)%N -> (c <= 2)%N ->
    parse_member (render_member true z x y f c) = Some (z, x, y, f, c).
Proof. exact (member_roundtrip true). Qed.
Print Assumptions C01_member_names.

(* mbtiles: the TMS row flip applied on write and on read is an involution *)
Theorem C01_mbtiles_flip :
  forall z x y p, coord_flip_y z x y = Ok p -> coord_flip_y z (fst p) (snd p) = Ok (x, y).
Proof. exact coord_flip_involutive. Qed.
Print Assumptions C01_mbtiles_flip.

(* non-vacuity *)
Example C01_example_ids : coord_to_tile_id 5 3 3 = Some 73%Z /\ tile_id_to_coord 73 = Some (3%nat, 5%Z, 3%Z).
Proof. split; vm_compute; reflexivity. Qed.
Example C01_example_dir :
  let es := [mkE 3 0 10 1; mkE 4 10 7 1; mkE 9 100 5 1]%N in
  runs_ok es /\ Forall entry_ok es /\ nondec 0 es /\ deserialize pm_arith_variant (serialize es) = Ok es.
Proof. cbn. repeat split; try lia; repeat constructor; unfold entry_ok, two64; cbn; try lia. Qed.

(* a directory of five entries cut into leaves of two: three leaves, three pointers, every id found *)
Example C01_example_writer :
  let es := [mkE 3 0 10 1; mkE 4 10 7 2; mkE 9 100 5 1; mkE 12 105 5 3; mkE 40 7 1 1]%N in
  let d := build_roots_leaves 2 es in
  runs_ok es /\ map fst (d_leaves d) = [[mkE 3 0 10 1; mkE 4 10 7 2]; [mkE 9 100 5 1; mkE 12 105 5 3]; [mkE 40 7 1 1]]%N /\
  map e_id (d_root d) = [3; 9; 40]%N /\
  pm_lookup 1 3 (read_leaf 1 (d_leaves_bytes d)) (d_root d) 14 = Ok (Some (mkE 12 105 5 3)) /\
  pm_lookup 1 3 (read_leaf 1 (d_leaves_bytes d)) (d_root d) 15 = Ok None /\
  as_directory 16384 20 [1; 2]%nat es = Some (build_roots_leaves 2 es).
Proof. cbn [runs_ok e_id e_run]. repeat split; try lia; vm_compute; reflexivity. Qed.

Example C01_example_header :
  let h := mkH 32 2 0 14 4160749568 100 300 4294967295 66 120 1000 33 in
  hdr_wf h /\ firstn 16 (hdr_to_blob h) = [118; 101; 114; 115; 97; 116; 105; 108; 101; 115; 95; 118; 48; 50; 32; 2]%N.
Proof. split; [unfold hdr_wf, format_codes, u32_max, u64_max; cbn; repeat split; try lia; tauto|vm_compute; reflexivity]. Qed.

Example C01_example_block_in_file :
  let slots := [Some [7; 7]; None; Some [7; 7]; Some [1; 2; 3]]%N in
  let st := write_block slots in
  let brotli := fun b : list N => (255 :: b)%N in
  let unb := fun b : list N => match b with (255 :: r)%N => Some r | _ => None end in
  let cidx := brotli (tidx_as_blob (w_index st)) in
  let file := ([9; 9; 9] ++ w_data st ++ cidx ++ [4])%N in
  w_data st = [7; 7; 1; 2; 3]%N /\
  read_tile unb file 3 (3 + 5) (N.of_nat (length cidx)) 4 2 = Ok (Some [7; 7]%N) /\
  read_tile unb file 3 (3 + 5) (N.of_nat (length cidx)) 4 1 = Ok None /\
  read_tile unb file 3 (3 + 5) (N.of_nat (length cidx)) 5 1 = Err.
Proof. repeat split; vm_compute; reflexivity. Qed.

(* a small archive: three entries in leaves of two, "compression" = a tag byte *)
Example C01_example_pmtiles_file :
  let zip := fun b : list N => (200 :: b)%N in
  let unzip := fun b : list N => match b with (200 :: r)%N => Some r | _ => None end in
  let h0 := mkPMH 0 0 0 0 0 0 0 0 3 3 3 false 2 1 2 0 3 0 0 0 0 0 0 0 in
  let es := [mkE 1 0 2 1; mkE 2 2 3 2; mkE 9 5 1 1]%N in
  let file := pm_assemble zip h0 (build_roots_leaves_enc zip 2 es) [123; 125]%N [11; 12; 21; 22; 23; 31]%N in
  N.of_nat (length file) = 16409%N /\
  pm_file_lookup unzip 1 file 3 = Ok (Some [21; 22; 23]%N) /\ pm_file_lookup unzip 1 file 9 = Ok (Some [31]%N) /\
  pm_file_lookup unzip 1 file 4 = Ok None.
Proof. repeat split; vm_compute; reflexivity. Qed.

(* a file of two blocks on two levels; "brotli" = a tag byte *)
Example C01_example_versatiles_file :
  let brotli := fun b : list N => (255 :: b)%N in
  let unb := fun b : list N => match b with (255 :: r)%N => Some r | _ => None end in
  let h0 := mkH 32 0 0 9 0 0 0 0 0 0 0 0 in
  let bl := [((0, (0, 0, 0, 0)), [Some [5; 5; 5]]); ((9, (256, 0, 257, 1)), [Some [1]; None; Some [2; 2]; Some [1]])]%N in
  match vt_assemble brotli h0 [123; 125]%N bl with
  | Ok file =>
      vt_file_lookup unb file 0 0 0 = Ok (Some [5; 5; 5]%N) /\ vt_file_lookup unb file 9 256 1 = Ok (Some [2; 2]%N) /\
      vt_file_lookup unb file 9 257 0 = Ok None /\ vt_file_lookup unb file 9 257 1 = Ok (Some [1]%N) /\
      vt_file_lookup unb file 9 0 0 = Ok None /\ vt_file_lookup unb file 40 0 0 = Err
  | _ => False
  end.
Proof. vm_compute. repeat split; reflexivity. Qed.
