(* C11 — updating vector-tile properties leaves everything else in the tile untouched. *)
From Coq Require Import List NArith ZArith Bool.
From VT Require Import Model.MVT Proofs.MVTProofs Gen.Constants.
Import ListNotations.
Local Open Scope N_scope.

Lemma C11_gen_relations : mvt_table_variant = 1 /\ zigzag_variant = 1 /\ geovalue_eq_variant = 1.  Proof. repeat split; reflexivity. Qed.

(* reading a layer keeps its key/value tables exactly as stored (duplicates, unused entries), so
   every tag id keeps its meaning *)
Theorem C11_tables_kept_as_stored : forall (A : Type) (eqb : A -> A -> bool) l,
  fold_left (push_table eqb mvt_table_variant) l [] = l.
Proof. intros A eqb l. exact (push_table_keeps eqb l []). Qed.
Print Assumptions C11_tables_kept_as_stored.

Theorem C11_dedup_read_refuted_before_fix :
  decode_tags (fold_left (push_table bytes_eqb 0) [[97]; [98]; [97]; [99]] []) [VBool true] [3; 0] = None
  /\ decode_tags (fold_left (push_table bytes_eqb 1) [[97]; [98]; [97]; [99]] []) [VBool true] [3; 0] = Some [([99], VBool true)].
Proof. exact dedup_read_refuted. Qed.

(* filter_map_properties re-encodes the retained features of the named layer against rebuilt
   tables: whatever tables are used, the decoded properties are exactly the ones that were encoded *)
Theorem C11_reencode_identity : forall ps keys vals keys2 vals2 tags,
  encode_tags keys vals ps = (keys2, vals2, tags) -> decode_tags keys2 vals2 tags = Some ps.
Proof. intros ps keys vals keys2 vals2 tags H. exact (proj1 (encode_decode_tags ps _ _ _ _ _ H)). Qed.
Print Assumptions C11_reencode_identity.

(* a feature that is not re-encoded keeps id, type, geometry and properties when tables grow *)
Theorem C11_untouched_features : forall keys vals ek ev f,
  decode_tags keys vals (ftags f) <> None -> fcontent (keys ++ ek) (vals ++ ev) f = fcontent keys vals f.
Proof. exact fcontent_prefix. Qed.
Print Assumptions C11_untouched_features.

(* sint64 property values: zig-zag decoding inverts encoding on the whole i64 range *)
Theorem C11_zigzag_roundtrip : forall z, (- 9223372036854775808 <= z < 9223372036854775808)%Z ->
  zz_dec zigzag_variant (zz_enc z) = z /\ zz_enc z < two64.
Proof. intros z Hz. split; [exact (zigzag_roundtrip z Hz) | exact (zigzag_range z Hz)]. Qed.
Print Assumptions C11_zigzag_roundtrip.

Theorem C11_zigzag_refuted_before_fix : zz_dec 0 (zz_enc 9223372036854775807) = (-1)%Z.
Proof. exact (proj1 zigzag_refuted_v0). Qed.

Theorem C11_varint_roundtrip : forall v rest, v < two64 -> read_varint (write_varint v ++ rest) = Some (v, rest).
Proof. exact varint_roundtrip. Qed.
Print Assumptions C11_varint_roundtrip.
