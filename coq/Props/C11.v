(* C11 — updating vector-tile properties leaves everything else in the tile untouched. *)
From Coq Require Import List NArith ZArith Bool.
From VT Require Import Model.MVT Proofs.MVTProofs Gen.Constants.
Import ListNotations.
Local Open Scope N_scope.

Lemma C11_gen_relations : mvt_table_variant = 1 /\ zigzag_variant = 1 /\ geovalue_eq_variant = 1.  Proof. repeat split; reflexivity. Qed.

(* reading a layer keeps its key/value tables exactly as stored (duplicates, unused entries), so
   every tag id keeps its meaning *)
Theorem C11_tables_kept_as_stored : forall (A : Type) (eqb : A -> A -> bool) l,
  fold_left (push_table eqb mvt_table_variant) l [] = l.
Proof. intros A eqb l. exact (push_table_keeps eqb l []). Qed.
Print Assumptions C11_tables_kept_as_stored.

Theorem C11_dedup_read_refuted_before_fix :
  decode_tags (fold_left (push_table bytes_eqb 0) [[97]; [98]; [97]; [99]] []) [VBool true] [3; 0] = None
  /\ decode_tags (fold_left (push_table bytes_eqb 1) [[97]; [98]; [97]; [99]] []) [VBool true] [3; 0] = Some [([99], VBool true)].
Proof. exact dedup_read_refuted. Qed.

(* filter_map_properties re-encodes the retained features of the named layer against rebuilt
   tables: whatever tables are used, the decoded properties are exactly the ones that were encoded *)
Theorem C11_reencode_identity : forall ps keys vals keys2 vals2 tags,
  encode_tags keys vals ps = (keys2, vals2, tags) -> decode_tags keys2 vals2 tags = Some ps.
Proof. intros ps keys vals keys2 vals2 tags H. exact (proj1 (encode_decode_tags ps _ _ _ _ _ H)). Qed.
Print Assumptions C11_reencode_identity.

(* a feature that is not re-encoded keeps id, type, geometry and properties when tables grow *)
Theorem C11_untouched_features : forall keys vals ek ev f,
  decode_tags keys vals (ftags f) <> None -> fcontent (keys ++ ek) (vals ++ ev) f = fcontent keys vals f.
Proof. exact fcontent_prefix. Qed.
Print Assumptions C11_untouched_features.

(* sint64 property values: zig-zag decoding inverts encoding on the whole i64 range *)
Theorem C11_zigzag_roundtrip : forall z, (- 9223372036854775808 <= z < 9223372036854775808)%Z ->
  zz_dec zigzag_variant (zz_enc z) = z /\ zz_enc z < two64.
Proof. intros z Hz. split; [exact (zigzag_roundtrip z Hz) | exact (zigzag_range z Hz)]. Qed.
Print Assumptions C11_zigzag_roundtrip.

Theorem C11_zigzag_refuted_before_fix : zz_dec 0 (zz_enc 9223372036854775807) = (-1)%Z.
Proof. exact (proj1 zigzag_refuted_v0). Qed.

Theorem C11_varint_roundtrip : forall v rest, v < two64 -> read_varint (write_varint v ++ rest) = Some (v, rest).
Proof. exact varint_roundtrip. Qed.
Print Assumptions C11_varint_roundtrip.

(* ---- the join itself: Runner::run over filter_map_properties (Model/MVTUpdate.v) ---- *)
From VT Require Import Model.MVTUpdate Proofs.MVTUpdateProofs.

(* one feature's properties: untouched without the id field; kept or dropped (remove_non_matching)
   without a data row; otherwise the row's properties (replace) or the old ones overwritten by the
   row's (merge) *)
Theorem C11_join_properties : forall find idf replace remove p,
  match bt_get idf p with
  | None => upd_props find idf replace remove p = Some p
  | Some id =>
      match find id with
      | None => upd_props find idf replace remove p = if remove then None else Some p
      | Some np => exists q, upd_props find idf replace remove p = Some q /\
                   forall k, bt_get k q = if replace then bt_get k np
                                         else match props_get np k with Some v => Some v | None => bt_get k p end
      end
  end.
Proof. exact upd_props_spec. Qed.
Print Assumptions C11_join_properties.

(* the named layer keeps name, extent, version; its features are the retained ones in their
   original order, each with its id, geometry type, geometry bytes, and the joined properties *)
Theorem C11_named_layer : forall find idf replace remove l l',
  update_layer find idf replace remove l = Some l' ->
  lname l' = lname l /\ lextent l' = lextent l /\ lversion l' = lversion l /\
  lcontent l' = map want (flat_map (keep find idf replace remove (lkeys l) (lvals l)) (lfeatures l)).
Proof. exact update_layer_spec. Qed.
Print Assumptions C11_named_layer.

(* every other layer is returned as it is; the number and order of layers stay *)
Theorem C11_other_layers : forall find idf replace remove name ls ls',
  update_tile find idf replace remove name ls = Some ls' ->
  Forall2 (fun l l' => if bytes_eqb (lname l) name then update_layer find idf replace remove l = Some l' else l' = l) ls ls'.
Proof. exact update_tile_spec. Qed.
Print Assumptions C11_other_layers.

(* the operation fails only for a feature of the named layer whose tag ids do not decode *)
Theorem C11_failure_only_on_bad_tags : forall find idf replace remove name ls,
  update_tile find idf replace remove name ls = None ->
  exists l f, In l ls /\ lname l = name /\ In f (lfeatures l) /\ decode_tags (lkeys l) (lvals l) (ftags f) = None.
Proof. exact update_tile_fails_only_on_bad_tags. Qed.
Print Assumptions C11_failure_only_on_bad_tags.

Example C11_join_example :
  let find := fun v => match v with VUInt 7 => Some [([120], VStr [121])] | _ => None end in
  let l := mkL [119] 4096 2 [[116]; [97]] [VUInt 7; VUInt 8; VBool true]
               [mkF (Some 1) [0; 0; 1; 2] 1 [9]; mkF (Some 2) [0; 1] 2 [8]; mkF None [1; 2] 3 []] in
  option_map lcontent (update_layer find [116] false true l) =
  Some [(Some 1, 1, [9], Some [([97], VBool true); ([116], VUInt 7); ([120], VStr [121])]);
        (None, 3, [], Some [([97], VBool true)])].
Proof. reflexivity. Qed.

(* the association lists of the model are what a BTreeMap is: strictly sorted by key after every insert *)
Theorem C11_properties_stay_sorted : forall ps new, bt_sorted (bt_of ps) = true /\ bt_sorted (bt_update (bt_of ps) new) = true.
Proof. intros ps new. split; [apply bt_of_sorted | apply bt_update_sorted, bt_of_sorted]. Qed.
Print Assumptions C11_properties_stay_sorted.
