(* C02 — a bounding-box stream equals the single-tile lookups inside the box.
   Proved for every pipeline expression (any nesting of filter_zoom, filter_bbox, from_overlayed,
   TilesConvertReader over in-memory leaf sources with the default lookup-loop stream), every
   well-formed box (both empty encodings, boxes beyond coverage): the stream ends without failure,
   has no duplicate coordinate, and holds exactly the lookups inside the box. *)
From Coq Require Import List NArith Lia.
From VT Require Import Base.Outcome Model.BBox Model.Pipeline Proofs.BBoxProofs Proofs.PipelineProofs Proofs.OverlayProofs Gen.Constants Model.Crash Model.Chunk Proofs.ChunkProofs.
Import ListNotations.
Local Open Scope N_scope.

Definition DD := denote conv_lookup_inverse conv_range_guard conv_selection_guard bbox_index_variant.

Lemma C02_gen_relations :
  conv_lookup_inverse = 1 /\ conv_range_guard = 1 /\ conv_selection_guard = 1 /\ bbox_index_variant = 1.
Proof. repeat split; reflexivity. Qed.

Theorem C02_stream_equals_lookups :
  forall e, expr_ok e -> forall b, wf b ->
    exists l, strm (DD e) b = Ok l /\ NoDup (map fst l)
      /\ forall c v, In (c, v) l <-> (cz c = level b /\ In_box b (cx c) (cy c) /\ look (DD e) c = Ok (Some v)).
Proof. intros e He. exact (g_stream _ (good_denote e He)). Qed.
Print Assumptions C02_stream_equals_lookups.

(* lookups themselves never fail hard *)
Theorem C02_lookup_total : forall e, expr_ok e -> forall c, exists o, look (DD e) c = Ok o.
Proof. intros e He. exact (g_look_ok _ (good_denote e He)). Qed.
Print Assumptions C02_lookup_total.

(* composition step used above, stated on its own: each operator preserves the property *)
Theorem C02_operators_preserve :
  (forall tiles, tiles_ok tiles -> good (leaf tiles)) /\
  (forall a b s, good s -> good (filter_zoom a b s)) /\
  (forall g s, good s -> pyr_ok g -> good (filter_bbox g s)) /\
  (forall f sw req s, good s -> req_ok req -> good (converter 1 1 1 f sw req s)) /\
  (forall ss, Forall good ss -> ss <> [] -> good (overlay 1 ss)).
Proof.
  split; [exact good_leaf|]. split; [exact good_filter_zoom|]. split; [exact good_filter_bbox|].
  split; [exact good_converter | exact good_overlay].
Qed.
Print Assumptions C02_operators_preserve.

Example C02_hypotheses_inhabited :
  expr_ok (PConv true true None (POver [PZoom (Some 1) (Some 3) (PLeaf [((2, 1, 0), 7); ((3, 7, 7), 8)]); PLeaf [((2, 1, 0), 9); ((2, 3, 3), 10)]])).
Proof. exact expr_ok_example. Qed.

(* versatiles reader: the stream of a block groups the tile ranges (sorted by offset) into chunks,
   reads every chunk once and cuts the tiles out of the blob.  For every file, every list of ranges
   sorted by offset and inside the file, and whatever the size and gap limits group together: no
   panic in Chunk::push, and every tile is delivered, in order, with exactly its own bytes (ranges
   shared by de-duplicated tiles included).  The shape of the code this theorem is about is
   regenerated: vt_stream_variant = 1. *)
Lemma C02_gen_stream_shape : vt_stream_variant = 1.  Proof. reflexivity. Qed.

Theorem C02_versatiles_chunked_stream :
  forall file es,
    sorted_from 0 es -> Forall (fun e => t_off e + t_len e <= N.of_nat (length file)) es ->
    stream file es = Ok (map (fun e => (t_id e, sub file (N.to_nat (t_off e)) (N.to_nat (t_len e)))) es).
Proof. exact stream_spec. Qed.
Print Assumptions C02_versatiles_chunked_stream.

Example C02_chunk_example :
  stream [10; 11; 12; 13; 14; 15; 16; 17] [mkT 1 0 3; mkT 2 0 3; mkT 3 5 2] = Ok [(1, [10; 11; 12]); (2, [10; 11; 12]); (3, [15; 16])].
Proof. vm_compute. reflexivity. Qed.
