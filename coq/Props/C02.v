(* C02 — a bounding-box stream equals the single-tile lookups inside the box.
   Proved for every pipeline expression (any nesting of filter_zoom, filter_bbox, from_overlayed,
   TilesConvertReader over in-memory leaf sources with the default lookup-loop stream), every
   well-formed box (both empty encodings, boxes beyond coverage): the stream ends without failure,
   has no duplicate coordinate, and holds exactly the lookups inside the box. *)
From Coq Require Import List NArith Lia.
From VT Require Import Base.Outcome Model.BBox Model.Pipeline Proofs.BBoxProofs Proofs.PipelineProofs Proofs.OverlayProofs Gen.Constants.
Import ListNotations.
Local Open Scope N_scope.

Definition DD := denote conv_lookup_inverse conv_range_guard conv_selection_guard bbox_index_variant.

Lemma C02_gen_relations :
  conv_lookup_inverse = 1 /\ conv_range_guard = 1 /\ conv_selection_guard = 1 /\ bbox_index_variant = 1.
Proof. repeat split; reflexivity. Qed.

Theorem C02_stream_equals_lookups :
  forall e, expr_ok e -> forall b, wf b ->
    exists l, strm (DD e) b = Ok l /\ NoDup (map fst l)
      /\ forall c v, In (c, v) l <-> (cz c = level b /\ In_box b (cx c) (cy c) /\ look (DD e) c = Ok (Some v)).
Proof. intros e He. exact (g_stream _ (good_denote e He)). Qed.
Print Assumptions C02_stream_equals_lookups.

(* lookups themselves never fail hard *)
Theorem C02_lookup_total : forall e, expr_ok e -> forall c, exists o, look (DD e) c = Ok o.
Proof. intros e He. exact (g_look_ok _ (good_denote e He)). Qed.
Print Assumptions C02_lookup_total.

(* composition step used above, stated on its own: each operator preserves the property *)
Theorem C02_operators_preserve :
  (forall tiles, tiles_ok tiles -> good (leaf tiles)) /\
  (forall a b s, good s -> good (filter_zoom a b s)) /\
  (forall g s, good s -> pyr_ok g -> good (filter_bbox g s)) /\
  (forall f sw req s, good s -> req_ok req -> good (converter 1 1 1 f sw req s)) /\
  (forall ss, Forall good ss -> ss <> [] -> good (overlay 1 ss)).
Proof.
  split; [exact good_leaf|]. split; [exact good_filter_zoom|]. split; [exact good_filter_bbox|].
  split; [exact good_converter | exact good_overlay].
Qed.
Print Assumptions C02_operators_preserve.

Example C02_hypotheses_inhabited :
  expr_ok (PConv true true None (POver [PZoom (Some 1) (Some 3) (PLeaf [((2, 1, 0), 7); ((3, 7, 7), 8)]); PLeaf [((2, 1, 0), 9); ((2, 3, 3), 10)]])).
Proof. exact expr_ok_example. Qed.
