(* C13 — concurrent reads from one opened container return what sequential reads return. *)
From Coq Require Import List NArith Lia.
From VT Require Import Model.FileIO Proofs.FileIOProofs Model.Cache Proofs.CacheProofs Gen.Constants.
Import ListNotations.
Local Open Scope N_scope.

(* the program read_range issues, regenerated from data_reader_file.rs: positional read *)
Lemma C13_gen_positional_read : file_read_variant = 1.  Proof. reflexivity. Qed.

(* any number of callers, any interleaving of their syscalls on the one shared open file
   description: every finished read_range call holds exactly file[off, off+len) *)
Theorem C13_read_range :
  forall file calls sched pos,
    let '(_, ths') := run_sched file pos (start file_read_variant calls) sched in
    all_done ths' = true ->
    forall i off len, nth_error calls i = Some (off, len) ->
      exists t', nth_error ths' i = Some t' /\ snd t' = [slice file off len].
Proof. exact read_range_concurrent_eq_sequential. Qed.
Print Assumptions C13_read_range.

(* with `dup; lseek; read` (the code before the fix) two callers suffice for a wrong result *)
Theorem C13_seek_read_refuted_before_fix :
  let file := [10; 11; 12; 13; 14; 15; 16; 17] in
  let '(_, ths) := run_sched file 0 (start 0 [(0, 2); (4, 2)]) [0; 1; 0; 1]%nat in
  all_done ths = true /\ nth_error ths 0 = Some ([], [[14; 15]]).
Proof. exact seek_read_races. Qed.

(* tile lookups go through the index cache inside a critical section (async mutex): any
   interleaving is a sequence of get_or_set operations, each of which returns the index of its key *)
Theorem C13_cached_index_lookup :
  forall n (load : N -> N) ks k, 0 < n ->
    let ops := map (fun k => OGetOrSet k (Some (load k))) ks in
    snd (step cache_median_variant (final cache_median_variant (empty n) ops) (OGetOrSet k (Some (load k)))) = Some (load k).
Proof. intros n load ks k Hn. exact (cached_lookup_transparent cache_median_variant n load ks k Hn). Qed.
Print Assumptions C13_cached_index_lookup.
