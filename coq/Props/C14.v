(* C14 — parallel stream transformations keep every tile paired with its own result.
   The task of one item is F : item -> output where item = (coord, blob) and the output carries the
   coordinate computed inside the same task; `run` ranges over every schedule (every order in which
   in-flight tasks complete), every window size n >= 1 and every input length. *)
From Coq Require Import List Arith Lia Permutation Bool.
From VT Require Import Model.Stream Proofs.StreamProofs.
Import ListNotations.

(* map_blob_parallel: exactly one output per input, each the result of its own input *)
Theorem C14_map_perm : forall (A B : Type) (F : A -> B) n input ts s,
  run F n (init input) ts = Some s -> terminal s = true -> Permutation (emitted s) (map F input).
Proof. exact map_perm. Qed.
Print Assumptions C14_map_perm.

(* filter_map_blob_parallel / from_coord_iter_parallel: the sequential filter stage behind the
   unordered buffer keeps exactly the retained results *)
Fixpoint keep_some {B C} (k : B -> option C) (l : list B) : list C :=
  match l with [] => [] | b :: r => match k b with Some c => c :: keep_some k r | None => keep_some k r end end.

Lemma keep_some_perm {B C} (k : B -> option C) l l' : Permutation l l' -> Permutation (keep_some k l) (keep_some k l').
Proof.
  induction 1 as [|x l l' _ IH|x y l|l l' l'' _ IH1 _ IH2]; cbn [keep_some].
  - reflexivity.
  - destruct (k x); [now constructor | exact IH].
  - destruct (k x), (k y); try reflexivity. apply perm_swap.
  - now transitivity (keep_some k l').
Qed.

Theorem C14_filter_map_perm : forall (A B C : Type) (F : A -> B) (k : B -> option C) n input ts s,
  run F n (init input) ts = Some s -> terminal s = true ->
  Permutation (keep_some k (emitted s)) (keep_some k (map F input)).
Proof. intros. apply keep_some_perm. eapply map_perm; eauto. Qed.
Print Assumptions C14_filter_map_perm.

(* no item is stuck, and every schedule terminates *)
Theorem C14_progress : forall (A B : Type) (F : A -> B) n s, 1 <= n -> terminal s = false -> length (inflight s) <= n ->
  exists t s', do_step F n s t = Some s'.
Proof. exact progress. Qed.
Print Assumptions C14_progress.

Theorem C14_terminates : forall (A B : Type) (F : A -> B) n s t s', do_step F n s t = Some s' ->
  2 * length (pending s') + length (inflight s') < 2 * length (pending s) + length (inflight s).
Proof. exact step_decreases. Qed.
Print Assumptions C14_terminates.

(* every order the model can emit passes the executable acceptance test used on observed runs *)
Theorem C14_accepts_sound : forall n len ts s, 1 <= n ->
  run (fun x => x) n (init (seq 0 len)) ts = Some s -> terminal s = true -> accepts n len (emitted s) = true.
Proof. exact accepts_sound. Qed.
Print Assumptions C14_accepts_sound.

(* for_each_buffered: every item once, in order; chunks non-empty, all but the last exactly k *)
Theorem C14_buffered : forall (A : Type) k (l : list A),
  concat (chunks k l) = l
  /\ (1 <= k -> Forall (fun c => c <> []) (chunks k l)
               /\ forall pre last, chunks k l = pre ++ [last] -> Forall (fun c => length c = k) pre /\ length last <= k)
  /\ (k = 0 -> chunks k l = map (fun x => [x]) l).
Proof.
  intros A k l. split; [apply chunks_concat|]. split; [apply chunks_sizes | intros ->; apply chunks_zero].
Qed.
Print Assumptions C14_buffered.

(* non-vacuity: a schedule that reorders (window 2, completion order 1,0,2) is a run *)
Example C14_reordering_run :
  exists s, run (fun x => x * 10) 2 (init [1; 2; 3]) [Spawn; Spawn; Complete 1; Spawn; Complete 0; Complete 0] = Some s
            /\ terminal s = true /\ emitted s = [20; 10; 30].
Proof. eexists. repeat split. Qed.
