(* C07 — static file serving never leaves the configured root. *)
From Coq Require Import List NArith Bool.
From VT Require Import Model.StaticPath Proofs.StaticPathProofs Gen.Constants.
Import ListNotations.
Local Open Scope N_scope.

Lemma C07_gen_guard_refuses_parent_dir : static_guard_variant = 1.  Proof. reflexivity. Qed.

(* every request path (any sequence of normal, ".", "..", empty, percent-encoded segments; with
   or without a leading absolute remainder): if the guard passes, the opened file is below root *)
Theorem C07_folder_confined : forall root url file,
  has_parent root = false ->
  served static_guard_variant root url = Some file -> prefix_strs (names root) file = true.
Proof. exact folder_confined. Qed.
Print Assumptions C07_folder_confined.

Theorem C07_folder_escape_refuted_before_fix :
  served 0 [Normal [115;114;118]; Normal [119;119;119]] [47; 46;46; 47; 115;101;99;114;101;116]
  = Some [[115;114;118]; [115;101;99;114;101;116]].
Proof. exact folder_escape_before_fix. Qed.

Theorem C07_tar_confined : forall table name v, tar_lookup table name = Some v -> In (name, v) table.
Proof. exact tar_confined. Qed.
Print Assumptions C07_tar_confined.
