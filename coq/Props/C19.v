(* C19 — decoders report malformed input as an error and never bring the process down. *)
From Coq Require Import List NArith ZArith Lia.
From VT Require Import Base.Outcome Gen.Constants Model.MVT Model.Json Model.VPL Model.PMDir Model.Crash Proofs.NoPanicProofs Model.Csv Proofs.CsvProofs.
Import ListNotations.

(* the variants of the decoders, regenerated from the current source: \u window handled without
   unwrap (JSON), checked directory arithmetic and bounded directory depth (PMTiles) *)
Lemma C19_gen_variants : json_hex_variant = 1%N /\ pm_arith_variant = 1%N /\ pm_depth_variant = 1%N /\ csv_tail_variant = 1%N.
Proof. repeat split; reflexivity. Qed.

(* JSON: for every text the parser ends with a value or an error, never with the Panic outcome *)
Theorem C19_json_total : forall l, parse_json json_hex_variant l <> JPanic.
Proof. exact parse_json_no_panic. Qed.
Print Assumptions C19_json_total.

Theorem C19_json_string_total : forall l, parse_string json_hex_variant l <> JPanic.
Proof. exact parse_string_no_panic. Qed.
Print Assumptions C19_json_string_total.

(* PMTiles directories: from_blob on ARBITRARY bytes ends with entries or an error *)
Theorem C19_pmtiles_directory_total : forall l, soft (deserialize pm_arith_variant l).
Proof. exact deserialize_soft. Qed.
Print Assumptions C19_pmtiles_directory_total.

(* find_tile on ARBITRARY (also unsorted, overlapping) directories: indices stay in range, the
   loop ends, the id difference cannot underflow *)
Theorem C19_pmtiles_find_total : forall es t, exists r, find_tile pm_arith_variant es t = Ok r.
Proof. exact find_tile_total. Qed.
Print Assumptions C19_pmtiles_find_total.

(* the lookup through the directory levels has no hard failure of its own *)
Theorem C19_pmtiles_lookup_total :
  forall depth leaf, (forall o l, soft (leaf o l)) -> forall dir t, soft (pm_lookup pm_arith_variant depth leaf dir t).
Proof. exact pm_lookup_soft. Qed.
Print Assumptions C19_pmtiles_lookup_total.

(* CSV reader: for every byte string, every separator and every UTF-8 validity oracle the reader
   ends with rows or an error (quoted fields, doubled quotes, CR/LF, blank lines, field counts) *)
Theorem C19_csv_total : forall sep valid l, snd (read_csv csv_tail_variant sep valid l) <> SPanic.
Proof. exact read_csv_no_panic. Qed.
Print Assumptions C19_csv_total.

Theorem C19_csv_panic_refuted_before_fix : snd (read_csv 0 44 (fun _ => true) [34; 97; 34; 98]%N) = SPanic.
Proof. vm_compute. reflexivity. Qed.

(* the code before the repair is refuted by a concrete input: two ids whose sum exceeds u64 *)
Theorem C19_pmtiles_unchecked_refuted :
  deserialize 0 [2; 255; 255; 255; 255; 255; 255; 255; 255; 255; 1; 1]%N = Overflow.
Proof. vm_compute. reflexivity. Qed.

(* VPL and vector tiles: the models are total functions into option - Coq accepts no other *)
Definition C19_vpl_total : forall v l, {r | parse_vpl v l = r} := fun v l => exist _ (parse_vpl v l) eq_refl.
Definition C19_mvt_total : forall tv zv b, {r | decode_tile tv zv b = r} := fun tv zv b => exist _ (decode_tile tv zv b) eq_refl.

(* ---- two guards added by repairs: sub-reader length check, undecodable features ---- *)
From VT Require Import Model.Guards Proofs.GuardsProofs.
Lemma C19_gen_guard_variants : subreader_variant = 1%N /\ fm_unwrap_variant = 1%N.  Proof. split; reflexivity. Qed.

Theorem C19_sub_reader_total : forall start length len, (start <= u64_max -> length <= u64_max -> len < u64_max ->
  (start + length <= len -> sub_reader subreader_variant start length len = Ok (start, start + length)) /\
  (len < start + length -> sub_reader subreader_variant start length len = Err))%N.
Proof. exact sub_reader_total. Qed.
Print Assumptions C19_sub_reader_total.

Theorem C19_sub_reader_overflow_refuted_before_fix :
  sub_reader 0 5 u64_max 100 = Overflow /\ sub_reader subreader_variant 5 u64_max 100 = Err.
Proof. exact sub_reader_overflow_refuted_v0. Qed.

Theorem C19_undecodable_feature_is_an_error : forall (A : Type) (d : option A),
  fm_decoded fm_unwrap_variant d <> Panic /\ fm_decoded 0 (@None A) = Panic.
Proof. exact @fm_decoded_never_panics. Qed.
Print Assumptions C19_undecodable_feature_is_an_error.

(* ---- versatiles v02 decoders at byte level: a value or an error for every byte string ---- *)
From VT Require Import Model.VTBytes Proofs.VTBytesProofs.
Theorem C19_block_definition_total : forall l, Forall (fun b => (b < 256)%N) l -> soft (bdef_from_blob l).
Proof. exact bdef_from_blob_soft. Qed.
Print Assumptions C19_block_definition_total.
Theorem C19_tile_index_total : forall l, Forall (fun b => (b < 256)%N) l -> soft (tidx_from_blob l).
Proof. exact tidx_from_blob_soft. Qed.
Print Assumptions C19_tile_index_total.
(* what is accepted as a tile index has exactly one entry per 12 bytes (the reader compares this
   count with the block's coverage before it indexes into it) *)
Theorem C19_tile_index_count : forall l idx, tidx_from_blob l = Ok idx -> (length l = 12 * length idx)%nat.
Proof. exact tidx_from_blob_count. Qed.
Print Assumptions C19_tile_index_count.
Example C19_bdef_bad_bytes :
  bdef_from_blob [40; 0;0;0;0; 0;0;0;0; 0;0;0;0; 0;0;0;0;0;0;0;0; 0;0;0;0;0;0;0;0; 0;0;0;0]%N = Err /\
  bdef_from_blob [9; 255;255;255;255; 0;0;0;0; 0;0;1;1; 0;0;0;0;0;0;0;0; 0;0;0;0;0;0;0;0; 0;0;0;0]%N = Err /\
  bdef_from_blob [9; 0;0;0;1]%N = Err.
Proof. repeat split; vm_compute; reflexivity. Qed.

Theorem C19_versatiles_header_total : forall l, soft (hdr_from_blob l).
Proof. exact hdr_from_blob_soft. Qed.
Print Assumptions C19_versatiles_header_total.

From VT Require Import Model.PMHeader Proofs.PMHeaderProofs.
Theorem C19_pmtiles_header_total : forall l, soft (pmh_deserialize l).
Proof. exact pmh_deserialize_soft. Qed.
Print Assumptions C19_pmtiles_header_total.

(* shifting a tile index by the block's data offset never fails, whatever offsets a damaged file holds
   (they saturate; the range then lies outside every file and reading it is an error) *)
Lemma C19_gen_tidx_offset : tidx_offset_variant = 1%N.  Proof. reflexivity. Qed.
Theorem C19_tile_index_offset_total : forall o idx, exists out, tidx_add_offset o idx = Ok out.
Proof. exact tidx_add_offset_total. Qed.
Print Assumptions C19_tile_index_offset_total.
Theorem C19_tile_index_offset_overflow_refuted_before_fix :
  tidx_add_offset_v 0 66 [(u64_max - 2, 5)]%N = Overflow /\ tidx_add_offset 66 [(u64_max - 2, 5)]%N = Ok [(u64_max, 5%N)].
Proof. exact tidx_add_offset_overflow_v0. Qed.

(* ---- the whole lookup paths: opening a file and looking up a tile in it ends with a value or an error
   for every byte string (given a decompressor that returns bytes) - never a panic, never an overflow ---- *)
From VT Require Import Model.VTFile Proofs.VTFileProofs Model.PMFile Proofs.PMFileProofs.
Theorem C19_versatiles_lookup_total :
  forall (unb : list N -> option (list N)), (forall b r, unb b = Some r -> Forall (fun x => (x < 256)%N) r) ->
  forall file z x y, Forall (fun b => (b < 256)%N) file -> soft (vt_file_lookup unb file z x y).
Proof. exact vt_file_lookup_soft. Qed.
Print Assumptions C19_versatiles_lookup_total.
Theorem C19_pmtiles_file_lookup_total :
  forall (unzip : list N -> option (list N)) file t, soft (pm_file_lookup unzip pm_arith_variant file t).
Proof. exact pm_file_lookup_soft. Qed.
Print Assumptions C19_pmtiles_file_lookup_total.
