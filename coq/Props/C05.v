(* C05 — the HTTP tile endpoint serves exactly the stored tile under content negotiation. *)
From Coq Require Import List NArith Bool.
From VT Require Import Model.Http Proofs.HttpProofs Model.Recompress Proofs.RecompressProofs Gen.Constants.
Import ListNotations.
Local Open Scope N_scope.

Lemma C05_gen_empty_path_guarded : tile_path_variant = 1.  Proof. reflexivity. Qed.

(* every request path gets a status (a complete response), which is 200, 400 or 404 *)
Theorem C05_status_total : forall numeric has path,
  exists s, status tile_path_variant numeric has path = Some s /\ (s = 200 \/ s = 400 \/ s = 404).
Proof. exact status_total. Qed.
Print Assumptions C05_status_total.

(* 200 exactly when the path parses to a coordinate at which the source holds a tile *)
Theorem C05_status_200_iff : forall numeric has path,
  status tile_path_variant numeric has path = Some 200 <->
  (parse_tile_path tile_path_variant numeric path = PMeta
   \/ exists z x y, parse_tile_path tile_path_variant numeric path = PCoord z x y /\ has z x y = true).
Proof. exact status_200_iff. Qed.
Print Assumptions C05_status_200_iff.

Theorem C05_parsed_coordinate_valid : forall v numeric path z x y,
  parse_tile_path v numeric path = PCoord z x y -> z <= 31 /\ x <= 4294967295 /\ y <= 4294967295.
Proof. exact parsed_coord_in_range. Qed.
Print Assumptions C05_parsed_coordinate_valid.

(* a y part whose leading `is_numeric` run holds a character outside 0-9 (a non-ASCII digit) is a
   bad request: a complete 400, never a coordinate and never a dropped connection *)
Theorem C05_non_ascii_digit_bad_request : forall v numeric path p0 p1 p2 rest c,
  as_vec path = p0 :: p1 :: p2 :: rest ->
  In c (take_digits numeric p2) -> is_digit c = false -> c <> 43 ->
  parse_tile_path v numeric path = PBad.
Proof. exact y_non_ascii_numeric_is_bad_request. Qed.
Print Assumptions C05_non_ascii_digit_bad_request.
Example C05_non_ascii_digit_example :
  status tile_path_variant (fun c => is_digit c || (c =? 1635)) (fun _ _ _ => true) [49;47;48;47;49;1635;46;112;98;102] = Some 400.
Proof. reflexivity. Qed.

(* body and Content-Encoding: whatever optimize_compression answers is allowed by the client and
   decodes to what the stored tile decodes to (any lawful codecs, any payload, fast/best/image) *)
Theorem C05_body : forall gz br, lawful gz -> lawful br -> forall b input t p,
  decompress gz br input b = Some p ->
  forall r enc, optimize gz br b input t = Some (r, enc) ->
    allowed t enc = true /\ exists b', r = Some b' /\ decompress gz br enc b' = Some p.
Proof. exact optimize_sound. Qed.
Print Assumptions C05_body.

Theorem C05_always_answers : forall gz br b input t, al_u t = true -> exists r enc, optimize gz br b input t = Some (r, enc).
Proof. exact optimize_total. Qed.
Print Assumptions C05_always_answers.

Theorem C05_images_not_recompressed : forall gz br b t r enc,
  goal t = 2 -> optimize gz br b CU t = Some (r, enc) -> enc = CU /\ r = Some b.
Proof. exact optimize_incompressible_never_compresses. Qed.
Print Assumptions C05_images_not_recompressed.

(* Accept-Encoding: a listed token always allows its encoding; on every ordered selection of
   distinct tokens from {gzip, br, deflate, identity, zstd} (all 326) the substring test used by
   get_encoding coincides with token membership *)
Theorem C05_token_listed_allowed : forall tok pre post, contains tok (pre ++ tok ++ post) = true.
Proof. exact token_listed_allowed. Qed.
Print Assumptions C05_token_listed_allowed.

Theorem C05_accept_encoding_subsets :
  forallb (fun sel => let h := join [44; 32] sel in
             Bool.eqb (contains s_gzip h) (mem_str s_gzip sel) && Bool.eqb (contains s_br h) (mem_str s_br sel))
          (selections 5 tokens) = true.
Proof. exact accept_encoding_subsets_exact. Qed.
Print Assumptions C05_accept_encoding_subsets.

Theorem C05_empty_path_dropped_before_fix : forall numeric has, status 0 numeric has [47] = None.
Proof. exact empty_path_panics_v0. Qed.
