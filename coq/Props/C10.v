(* C10 — merging vector tiles concatenates the features of equally named layers. *)
From Coq Require Import List NArith ZArith Bool.
From VT Require Import Model.MVT Proofs.MVTProofs Proofs.MVTWire Gen.Constants.
Import ListNotations.
Local Open Scope N_scope.

Lemma C10_gen_relations : mvt_table_variant = 1 /\ zigzag_variant = 1 /\ geovalue_eq_variant = 1.  Proof. repeat split; reflexivity. Qed.

(* add_from_layer (the core of merge_tiles): the target layer keeps its features, in order, and
   gains the source layer's features in source order; every feature keeps its id, geometry type,
   geometry bytes and its decoded property list, although all tag ids are re-indexed into the
   target's key/value tables - for arbitrary, differently ordered tables (also with duplicates) *)
Theorem C10_features : forall fs dst skeys svals dst',
  all_decodable dst ->
  add_features dst skeys svals fs = Some dst' ->
  lcontent dst' = lcontent dst ++ map (fcontent skeys svals) fs
  /\ all_decodable dst' /\ lname dst' = lname dst /\ lextent dst' = lextent dst /\ lversion dst' = lversion dst.
Proof. exact add_features_content. Qed.
Print Assumptions C10_features.

(* merging fails (with an error) only if a source feature's tags do not decode in its own layer *)
Theorem C10_failure_only_on_invalid_tags : forall fs dst skeys svals,
  add_features dst skeys svals fs = None -> exists f, In f fs /\ decode_tags skeys svals (ftags f) = None.
Proof. exact add_features_fails_only_on_bad_tags. Qed.
Print Assumptions C10_failure_only_on_invalid_tags.

(* re-indexing: encode_tag_ids into any tables, then decode_tag_ids, is the identity *)
Theorem C10_reindex : forall ps keys vals keys2 vals2 tags,
  encode_tags keys vals ps = (keys2, vals2, tags) ->
  decode_tags keys2 vals2 tags = Some ps /\ (exists ek, keys2 = keys ++ ek) /\ (exists ev, vals2 = vals ++ ev).
Proof. exact encode_decode_tags. Qed.
Print Assumptions C10_reindex.

(* wire primitives: feature ids up to 2^64-1, lengths, tag ids *)
Theorem C10_varint_roundtrip : forall v rest, v < two64 -> read_varint (write_varint v ++ rest) = Some (v, rest).
Proof. exact varint_roundtrip. Qed.
Print Assumptions C10_varint_roundtrip.

Example C10_merge_example :
  (* layer with keys [kind] / values [primary] merged with a layer whose tables are [kind, name] / [primary, zoo] *)
  let a := mkL [114] 4096 1 [[107]] [VStr [112]] [mkF (Some 1) [0; 0] 1 [9]] in
  let b := mkL [114] 4096 1 [[107]; [110]] [VStr [112]; VStr [122]] [mkF (Some 2) [1; 1; 0; 0] 2 [7]] in
  option_map lcontent (add_features a (lkeys b) (lvals b) (lfeatures b))
  = Some [(Some 1, 1, [9], Some [([107], VStr [112])]); (Some 2, 2, [7], Some [([110], VStr [122]); ([107], VStr [112])])].
Proof. vm_compute. reflexivity. Qed.

(* the wire format under merge and update: what to_blob writes is what from_blob reads - every
   layer with name, extent, version, key and value tables as stored, every feature with id,
   geometry type, geometry bytes and tag list (varint framing, length-delimited fields, packed
   tags, fixed32/fixed64 values, zig-zag integers) *)
Theorem C10_wire_roundtrip : forall ls, tile_ok ls -> decode_tile mvt_table_variant zigzag_variant (encode_tile ls) = Some ls.
Proof. exact decode_encode_tile. Qed.
Print Assumptions C10_wire_roundtrip.

Example C10_wire_example :
  let l := mkL [114; 111; 97; 100] 512 2 [[107]; [107]] [VStr [233]; VInt (-5); VDouble 4607182418800017408] [mkF (Some 7) [0; 1; 1; 2] 2 [9; 4; 4]; mkF None [] 0 []] in
  decode_tile 1 1 (encode_tile [l]) = Some [l].
Proof. vm_compute. reflexivity. Qed.
