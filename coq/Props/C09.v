(* C09 — zoom and bounding-box filters pass exactly the tiles inside the filter. *)
From Coq Require Import List NArith Lia Bool.
From VT Require Import Base.Outcome Model.BBox Model.Pipeline Proofs.BBoxProofs Proofs.PipelineProofs Proofs.OverlayProofs Gen.Constants.
Import ListNotations.
Local Open Scope N_scope.

(* filter_zoom: the source's tile, unchanged, exactly inside [min, max] (also min > max, values
   beyond the source's range, absent bounds); requires the source's coverage to be sound (C03) *)
Theorem C09_zoom : forall a b s c, good s ->
  look (filter_zoom a b s) c = if in_zoom a b (cz c) then look s c else Ok None.
Proof. exact filter_zoom_spec. Qed.
Print Assumptions C09_zoom.

(* filter_bbox: exactly inside the tile box the geographic bbox maps to at that zoom (g z) *)
Theorem C09_bbox : forall g s c, good s -> pyr_ok g -> cz c <= 31 ->
  look (filter_bbox g s) c = if contains2 (g (cz c)) (cx c) (cy c) then look s c else Ok None.
Proof. exact filter_bbox_spec. Qed.
Print Assumptions C09_bbox.

(* chains behave as the intersection *)
Theorem C09_chain : forall a1 b1 a2 b2 s c, good s ->
  look (filter_zoom a2 b2 (filter_zoom a1 b1 s)) c =
    if in_zoom a1 b1 (cz c) && in_zoom a2 b2 (cz c) then look s c else Ok None.
Proof.
  intros a1 b1 a2 b2 s c G.
  rewrite (filter_zoom_spec a2 b2 _ c (good_filter_zoom a1 b1 s G)), (filter_zoom_spec a1 b1 s c G).
  destruct (in_zoom a1 b1 (cz c)), (in_zoom a2 b2 (cz c)); reflexivity.
Qed.
Print Assumptions C09_chain.

Theorem C09_chain_mixed : forall a b g s c, good s -> pyr_ok g -> cz c <= 31 ->
  look (filter_bbox g (filter_zoom a b s)) c =
    if in_zoom a b (cz c) && contains2 (g (cz c)) (cx c) (cy c) then look s c else Ok None.
Proof.
  intros a b g s c G Hg Hz.
  rewrite (filter_bbox_spec g _ c (good_filter_zoom a b s G) Hg Hz), (filter_zoom_spec a b s c G).
  destruct (in_zoom a b (cz c)), (contains2 (g (cz c)) (cx c) (cy c)); reflexivity.
Qed.
Print Assumptions C09_chain_mixed.

(* streams of filtered sources agree with their lookups and coverage stays sound *)
Theorem C09_stream : forall a b g s, good s -> pyr_ok g ->
  good (filter_zoom a b s) /\ good (filter_bbox g s).
Proof. intros; split; [now apply good_filter_zoom | now apply good_filter_bbox]. Qed.
Print Assumptions C09_stream.
