(* C09 — zoom and bounding-box filters pass exactly the tiles inside the filter. *)
From Coq Require Import List NArith Lia Bool.
From VT Require Import Base.Outcome Model.BBox Model.Pipeline Proofs.BBoxProofs Proofs.PipelineProofs Proofs.OverlayProofs Gen.Constants.
Import ListNotations.
Local Open Scope N_scope.

(* filter_zoom: the source's tile, unchanged, exactly inside [min, max] (also min > max, values
   beyond the source's range, absent bounds); requires the source's coverage to be sound (C03) *)
Theorem C09_zoom : forall a b s c, good s ->
  look (filter_zoom a b s) c = if in_zoom a b (cz c) then look s c else Ok None.
Proof. exact filter_zoom_spec. Qed.
Print Assumptions C09_zoom.

(* filter_bbox: exactly inside the tile box the geographic bbox maps to at that zoom (g z) *)
Theorem C09_bbox : forall g s c, good s -> pyr_ok g -> cz c <= 31 ->
  look (filter_bbox g s) c = if contains2 (g (cz c)) (cx c) (cy c) then look s c else Ok None.
Proof. exact filter_bbox_spec. Qed.
Print Assumptions C09_bbox.

(* chains behave as the intersection *)
Theorem C09_chain : forall a1 b1 a2 b2 s c, good s ->
  look (filter_zoom a2 b2 (filter_zoom a1 b1 s)) c =
    if in_zoom a1 b1 (cz c) && in_zoom a2 b2 (cz c) then look s c else Ok None.
Proof.
  intros a1 b1 a2 b2 s c G.
  rewrite (filter_zoom_spec a2 b2 _ c (good_filter_zoom a1 b1 s G)), (filter_zoom_spec a1 b1 s c G).
  destruct (in_zoom a1 b1 (cz c)), (in_zoom a2 b2 (cz c)); reflexivity.
Qed.
Print Assumptions C09_chain.

Theorem C09_chain_mixed : forall a b g s c, good s -> pyr_ok g -> cz c <= 31 ->
  look (filter_bbox g (filter_zoom a b s)) c =
    if in_zoom a b (cz c) && contains2 (g (cz c)) (cx c) (cy c) then look s c else Ok None.
Proof.
  intros a b g s c G Hg Hz.
  rewrite (filter_bbox_spec g _ c (good_filter_zoom a b s G) Hg Hz), (filter_zoom_spec a b s c G).
  destruct (in_zoom a b (cz c)), (contains2 (g (cz c)) (cx c) (cy c)); reflexivity.
Qed.
Print Assumptions C09_chain_mixed.

(* streams of filtered sources agree with their lookups and coverage stays sound *)
Theorem C09_stream : forall a b g s, good s -> pyr_ok g ->
  good (filter_zoom a b s) /\ good (filter_bbox g s).
Proof. intros; split; [now apply good_filter_zoom | now apply good_filter_bbox]. Qed.
Print Assumptions C09_stream.

(* ---- the tile box a geographic box maps to: discrete stage of from_geo, per axis ---- *)
Require Import ZArith.
From VT Require Import Model.Geo Proofs.GeoProofs.
Lemma C09_gen_geo_guard : geo_guard_variant = 1.  Proof. reflexivity. Qed.
Theorem C09_geo_axis : forall S G n uw ue, (0 < S)%Z -> (0 <= G)%Z -> (1 <= n)%Z ->
  let '(a, b) := axis_box geo_guard_variant S G n uw ue in
  (0 <= a /\ a <= b /\ b <= n - 1)%Z /\
  forall i, (0 <= i <= n - 1)%Z -> (uw + G < (i + 1) * S)%Z -> (i * S <= ue - G)%Z -> (a <= i <= b)%Z.
Proof.
  intros S G n uw ue HS HG Hn.
  pose proof (axis_box_nonempty geo_guard_variant S G n uw ue Hn) as H1.
  pose proof (fun i => axis_covers geo_guard_variant S G n uw ue i HS HG Hn) as H2.
  destruct (axis_box geo_guard_variant S G n uw ue) as [a b]. split; [exact H1|]. intros i Hi Hw He. exact (H2 i Hi Hw He).
Qed.
Print Assumptions C09_geo_axis.

(* ---- "an invalid filter argument is reported as an error when the pipeline is built" ---- *)
From VT Require Import Model.Http Model.VPLArgs Proofs.VPLArgsProofs.
Theorem C09_bbox_argument : forall p,
  bbox_builds p = true <->
  exists a b c d w s e n, p = Some [a; b; c; d] /\
    literal a = Some w /\ literal b = Some s /\ literal c = Some e /\ literal d = Some n /\
    (-180 <= w /\ w <= e /\ e <= 180 /\ -90 <= s /\ s <= n /\ n <= 90)%Z.
Proof. exact bbox_builds_iff. Qed.
Print Assumptions C09_bbox_argument.

Theorem C09_bbox_wrong_arity : forall p, (forall l, p = Some l -> length l <> 4%nat) -> bbox_builds p = false.
Proof. exact bbox_wrong_arity_rejected. Qed.
Print Assumptions C09_bbox_wrong_arity.

Theorem C09_zoom_arguments : forall pmin pmax a b,
  zoom_builds pmin pmax = AOk (a, b) <->
  (match a with None => pmin = None | Some v => exists s, pmin = Some [s] /\ parse_uint 255 s = Some v end) /\
  (match b with None => pmax = None | Some v => exists s, pmax = Some [s] /\ parse_uint 255 s = Some v end).
Proof. exact zoom_builds_iff. Qed.
Print Assumptions C09_zoom_arguments.

Example C09_bbox_argument_examples :
  bbox_builds (Some [[48]; [48]; [50;48]; [50;48]]) = true /\
  bbox_builds (Some [[48]; [48]; [50;48]; [50;48]; [52;48]]) = false /\
  bbox_builds (Some [[48]; [48]; [50;48]]) = false /\ bbox_builds None = false /\
  bbox_builds (Some [[48]; [48]; [50;48]; [110]]) = false /\
  zoom_builds (Some [[50;53;54]]) None = AErr /\ zoom_builds (Some [[51]]) (Some [[52];[53]]) = AErr /\
  zoom_builds (Some [[51]]) None = AOk (Some 3%N, None).
Proof. repeat split. Qed.
