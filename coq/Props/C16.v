(* C16 — readers accept every container that is valid by the published format layouts. *)
From Coq Require Import List NArith ZArith Lia.
From VT Require Import Base.Outcome Gen.Constants Model.BBox Proofs.BBoxProofs Model.MVT Model.TileId Proofs.TileIdProofs
  Model.PMDir Proofs.PMDirProofs Model.VTFormat Proofs.VTFormatProofs Model.Naming Proofs.NamingProofs.
Import ListNotations.

Lemma C16_gen_index_variant : bbox_index_variant = 1%N.  Proof. reflexivity. Qed.

(* PMTiles directories: whatever use of the "offset 0 = contiguous" shorthand an encoder makes
   (ch), from_blob recovers the entries *)
Theorem C16_directory_any_encoder :
  forall ch es, Forall entry_ok es -> nondec 0 es -> (N.of_nat (length es) <= 10000000000)%N ->
    deserialize pm_arith_variant (serialize_with ch es) = Ok es.
Proof. exact (deserialize_serialize pm_arith_variant). Qed.
Print Assumptions C16_directory_any_encoder.

(* find_tile is the published lookup rule on every directory with increasing ids *)
Theorem C16_find_tile_is_spec :
  forall es t, sorted es -> find_tile pm_arith_variant es t = Ok (find_spec es t).
Proof. exact (find_tile_spec pm_arith_variant). Qed.
Print Assumptions C16_find_tile_is_spec.

(* run lengths and leaf pointers: an id inside a run finds the run's entry; an id behind a leaf
   pointer (and before the next entry) finds the pointer *)
Theorem C16_find_in_run :
  forall es e t, runs_ok es -> In e es ->
    (e_id e <= t < e_id e + N.max (e_run e) 1)%N \/
      (e_run e = 0%N /\ (e_id e <= t)%N /\ forall e', In e' es -> (e_id e < e_id e')%N -> (t < e_id e')%N) ->
    ((0 < e_run e)%N -> (t < e_id e + e_run e)%N) ->
    find_tile pm_arith_variant es t = Ok (Some e).
Proof. exact (find_in_run pm_arith_variant). Qed.
Print Assumptions C16_find_in_run.

(* the coverage scan includes every id of every run *)
Theorem C16_coverage_complete :
  forall fuel leaf dir l e t,
    cov_ids (S fuel) leaf dir = Ok l -> In e dir -> (0 < e_len e)%N -> (e_id e <= t < e_id e + e_run e)%N -> In t l.
Proof. exact cov_ids_complete. Qed.
Print Assumptions C16_coverage_complete.

(* tile ids in Hilbert order: the reader's id of a coordinate decodes to that coordinate *)
Theorem C16_tile_id :
  forall z x y, (z < 32)%nat -> (0 <= x < 2 ^ Z.of_nat z)%Z -> (0 <= y < 2 ^ Z.of_nat z)%Z ->
    exists id, coord_to_tile_id x y z = Some id /\ tile_id_to_coord id = Some (z, x, y).
Proof. exact tile_id_roundtrip. Qed.
Print Assumptions C16_tile_id.

(* versatiles: sparse block index, partial blocks, any block order *)
Theorem C16_versatiles_listed_block :
  forall blocks b x y,
    In b blocks -> block_ok b ->
    (forall b', In b' blocks -> key_eqb b' (vb_z b) (vb_bx b) (vb_by b) = true -> b' = b) ->
    In_box (vb_box b) x y ->
    exists i, get_tile_index bbox_index_variant (vb_box b) x y = Ok i /\ (i < count_tiles (vb_box b))%N /\
      vt_lookup bbox_index_variant blocks (vb_z b, x, y) = Ok (match nth_error (vb_slots b) (N.to_nat i) with Some v => v | None => None end).
Proof. exact vt_lookup_listed. Qed.
Print Assumptions C16_versatiles_listed_block.

Theorem C16_versatiles_unlisted :
  forall blocks z x y,
    (forall b, In b blocks -> key_eqb b z (x / 256) (y / 256) = true -> contains2 (vb_box b) x y = false) ->
    vt_lookup bbox_index_variant blocks (z, x, y) = Ok None.
Proof. exact vt_lookup_unlisted. Qed.
Print Assumptions C16_versatiles_unlisted.

(* leaf directories: a root of leaf pointers (one per leaf, carrying the leaf's first id) over
   leaves whose concatenation has disjoint runs - the lookup goes through the pointer into the
   leaf and finds the entry of every id inside a run.  Deeper trees compose by pm_lookup_step. *)
Theorem C16_two_level_lookup :
  forall leaffn pre l o n post e t d,
    let leaves := pre ++ (l, (o, n)) :: post in
    runs_ok (concat (map fst leaves)) ->
    Forall (fun x => fst x <> [] /\ (0 < snd (snd x))%N) leaves ->
    leaffn o n = Ok l ->
    In e l -> (0 < e_len e)%N -> (0 < e_run e)%N -> (e_id e <= t < e_id e + e_run e)%N ->
    pm_lookup pm_arith_variant (S (S d)) leaffn (root_of leaves) t = Ok (Some e).
Proof. exact (two_level_lookup pm_arith_variant). Qed.
Print Assumptions C16_two_level_lookup.

Theorem C16_lookup_step :
  forall d leaf dir t p dir',
    find_tile pm_arith_variant dir t = Ok (Some p) -> (0 < e_len p)%N -> e_run p = 0%N -> leaf (e_off p) (e_len p) = Ok dir' ->
    pm_lookup pm_arith_variant (S d) leaf dir t = pm_lookup pm_arith_variant d leaf dir' t.
Proof. exact (pm_lookup_step pm_arith_variant). Qed.
Print Assumptions C16_lookup_step.

(* tar members with or without the './' prefix *)
Theorem C16_member_names_any_prefix :
  forall dot z x y f c, (z <= 31)%N -> (x <= 4294967295)%N -> (y <= 4294967295)%N -> (f < 10)%N -> (c <= 2)%N ->
    parse_member (render_member dot z x y f c) = Some (z, x, y, f, c).
Proof. exact member_roundtrip. Qed.
Print Assumptions C16_member_names_any_prefix.

(* non-vacuity: a directory with a run, a leaf pointer and a gap *)
Example C16_example :
  let es := [mkE 5 0 10 4; mkE 9 10 3 1; mkE 20 0 50 0; mkE 100 13 8 2]%N in
  runs_ok es /\ find_tile 1 es 7 = Ok (Some (mkE 5 0 10 4)) /\ find_tile 1 es 50 = Ok (Some (mkE 20 0 50 0)) /\ find_tile 1 es 10 = Ok None.
Proof. cbn. repeat split; try lia; vm_compute; reflexivity. Qed.

(* ---- directory trees of any depth (nested leaves), within the reader's depth budget ---- *)
From VT Require Import Proofs.PMTreeProofs.
Theorem C16_multi_level_lookup : forall av leaf d dir flat, stored d leaf dir flat -> runs_ok flat ->
  forall e t, In e flat -> (e_id e <= t < e_id e + e_run e)%N ->
  forall extra, pm_lookup av (S d + extra) leaf dir t = Ok (Some e).
Proof. exact multi_level_lookup. Qed.
Print Assumptions C16_multi_level_lookup.

Theorem C16_lookup_returns_tile_entries : forall av leaf fuel dir t e,
  pm_lookup av fuel leaf dir t = Ok (Some e) -> (0 < e_len e /\ 0 < e_run e)%N.
Proof. exact multi_level_lookup_sound. Qed.
Print Assumptions C16_lookup_returns_tile_entries.

(* a three-level tree: root -> leaf at 100 -> leaves at 200 and 300 -> tile entries *)
Example C16_three_levels :
  let e1 := mkE 5 0 3 2 in let e2 := mkE 9 3 4 1 in let e3 := mkE 20 7 1 1 in
  (
  let leaf := fun o (_ : N) => if o =? 100 then Ok [mkE 5 200 10 0; mkE 20 300 10 0]
                               else if o =? 200 then Ok [e1; e2] else if o =? 300 then Ok [e3] else Err in
  stored 2 leaf [mkE 5 100 10 0] [e1; e2; e3] /\
  pm_lookup 1 3 leaf [mkE 5 100 10 0] 6 = Ok (Some e1) /\ pm_lookup 1 3 leaf [mkE 5 100 10 0] 20 = Ok (Some e3) /\
  pm_lookup 1 3 leaf [mkE 5 100 10 0] 7 = Ok None)%N.
Proof.
  cbv zeta. split; [|repeat split; reflexivity].
  right. exists [(([mkE 5 0 3 2; mkE 9 3 4 1; mkE 20 7 1 1], (100%N, 10%N)), [mkE 5 200 10 0; mkE 20 300 10 0])].
  split; [reflexivity|]. split; [reflexivity|]. constructor; [|constructor].
  split; [split; [discriminate | reflexivity]|]. split; [reflexivity|]. cbn [fst snd].
  right. exists [(([mkE 5 0 3 2; mkE 9 3 4 1], (200%N, 10%N)), [mkE 5 0 3 2; mkE 9 3 4 1]); (([mkE 20 7 1 1], (300%N, 10%N)), [mkE 20 7 1 1])].
  split; [reflexivity|]. split; [reflexivity|].
  constructor; [|constructor; [|constructor]]; (split; [split; [discriminate | reflexivity]|]); (split; [reflexivity|]); left; (split; [reflexivity|]);
    repeat constructor.
Qed.

(* ---- versatiles v02 at byte level: block definitions (33 bytes) and tile-index entries (12 bytes) ---- *)
From VT Require Import Model.VTBytes Proofs.VTBytesProofs.
(* every well-formed block definition - any block coordinate, any partial coverage, any byte ranges
   an encoder may choose - is read back field by field from its 33 bytes *)
Theorem C16_block_definition_bytes : forall b, bdef_wf b ->
  exists l, bdef_as_blob b = Ok l /\ length l = 33%nat /\ bdef_from_blob l = Ok b.
Proof. exact bdef_roundtrip. Qed.
Print Assumptions C16_block_definition_bytes.
Theorem C16_tile_index_bytes : forall idx, Forall (fun p => (fst p <= u64_max /\ snd p <= u32_max)%N) idx ->
  tidx_from_blob (tidx_as_blob idx) = Ok idx.
Proof. exact tidx_roundtrip. Qed.
Print Assumptions C16_tile_index_bytes.
(* the lookup path shifts a slot by the block's tile-data offset (saturating at u64::MAX): the entry read is the stored one, shifted *)
Theorem C16_tile_index_offset : forall o idx out, tidx_add_offset o idx = Ok out ->
  forall i p, nth_error idx i = Some p -> nth_error out i = Some (N.min (fst p + o) u64_max, snd p).
Proof. exact tidx_add_offset_nth. Qed.
Print Assumptions C16_tile_index_offset.
Example C16_bdef_example :
  let b := mkBD 9 1 0 3 0 255 17 259 0 511 17 66 1000 1066 40 in
  bdef_wf b /\ exists l, bdef_as_blob b = Ok l /\ bdef_from_blob l = Ok b.
Proof. split; [unfold bdef_wf, u32_max, u64_max; cbn; repeat split; lia|]. eexists. split; vm_compute; reflexivity. Qed.

(* PMTiles header: whatever is accepted is 127 bytes, starts with "PMTiles" 3 and carries known
   compression and tile-type codes; every well-formed header an encoder writes is accepted as it is *)
From VT Require Import Model.PMHeader Proofs.PMHeaderProofs.
Theorem C16_pmtiles_header_bytes :
  forall h, pmh_wf h -> length (pmh_serialize h) = 127%nat /\ pmh_deserialize (pmh_serialize h) = Ok h.
Proof. exact pmh_roundtrip. Qed.
Print Assumptions C16_pmtiles_header_bytes.
Theorem C16_pmtiles_header_accepts : forall l h, pmh_deserialize l = Ok h ->
  length l = 127%nat /\ firstn 8 l = pm_magic /\ (p_icomp h <= 4 /\ p_tcomp h <= 4 /\ p_type h <= 5)%N.
Proof. exact pmh_accepts. Qed.
Print Assumptions C16_pmtiles_header_accepts.

(* ---- versatiles, a whole file from ANY encoder: valid by the published layout means - the first 66
   bytes parse as a header; the block-index range, decompressed, is a sequence of 33-byte block
   definitions with distinct block coordinates; each block's index range, decompressed, holds one
   12-byte entry per coordinate of the block's coverage, and every non-empty entry names bytes inside
   the file.  Nothing is said about the order of the sections, padding between them or ranges shared
   by several entries.  The reader then answers every lookup with exactly the bytes the entry of the
   coordinate's slot names, and with nothing for empty slots, uncovered coordinates and unlisted blocks *)
From Coq Require Import Bool.
From VT Require Import Model.Crash Model.VTFile Proofs.VTFileProofs.
Local Open Scope bool_scope.
Theorem C16_versatiles_any_encoder :
  forall (unb : list N -> option (list N)) file h bs idx_of z x y,
    file_valid unb file h bs idx_of -> (z <= 31)%N ->
    vt_file_lookup unb file z x y =
      Ok (match find (fun b => (bd_z b =? z) && (bd_x b =? x / 256) && (bd_y b =? y / 256))%N bs with
          | None => None
          | Some b =>
              if ((bd_gx0 b <=? x) && (x <=? bd_gx1 b) && (bd_gy0 b <=? y) && (y <=? bd_gy1 b))%N then
                match nth_error (idx_of b) (N.to_nat ((y - bd_gy0 b) * (bd_gx1 b - bd_gx0 b + 1) + (x - bd_gx0 b))) with
                | Some (o, l) => if (l =? 0)%N then None else Some (Crash.sub file (N.to_nat (o + bd_toff b)) (N.to_nat l))
                | None => None
                end
              else None
          end).
Proof. exact vt_valid_file_lookup. Qed.
Print Assumptions C16_versatiles_any_encoder.

(* ---- PMTiles, a whole file from ANY encoder: the first 127 bytes parse as a header; metadata, root
   directory and leaf section are where the header says and decompress; the directories form a tree
   of at most two levels of leaf directories over the tile entries (run lengths, shared offsets and
   any leaf sizes allowed: `stored` only asks each pointer to carry its sub-tree's first id and the
   byte range of its directory); the entry's bytes lie inside the file.  The reader then returns,
   for every id of every run, exactly the bytes the entry names - wherever the sections are stored *)
From VT Require Import Proofs.PMTreeProofs Model.PMWrite Model.PMHeader Model.PMFile Proofs.PMFileProofs.
Theorem C16_pmtiles_any_encoder :
  forall (unzip : list N -> option (list N)) file h mz meta rz rootraw root leaves d flat e t,
    pmh_deserialize (firstn 127 file) = Ok h ->
    read_range file (p_meta_off h) (p_meta_len h) = Some mz -> unzip mz = Some meta ->
    read_range file (p_root_off h) (p_root_len h) = Some rz -> unzip rz = Some rootraw -> deserialize pm_arith_variant rootraw = Ok root ->
    read_range file (p_leaf_off h) (p_leaf_len h) = Some leaves ->
    (d <= 2)%nat -> stored d (file_leaf unzip pm_arith_variant leaves) root flat -> runs_ok flat ->
    In e flat -> (e_id e <= t < e_id e + e_run e)%N ->
    (e_off e + p_data_off h <= u64_max)%N -> (e_off e + p_data_off h + e_len e <= N.of_nat (length file))%N ->
    pm_file_lookup unzip pm_arith_variant file t = Ok (Some (Crash.sub file (N.to_nat (e_off e + p_data_off h)) (N.to_nat (e_len e)))).
Proof. intros unzip. exact (pm_valid_file_lookup unzip pm_arith_variant). Qed.
Print Assumptions C16_pmtiles_any_encoder.
