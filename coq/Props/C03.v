(* C03 — the advertised coverage contains every tile a source can return. *)
From Coq Require Import List NArith Lia.
From VT Require Import Base.Outcome Model.BBox Model.Pipeline Proofs.BBoxProofs Proofs.PipelineProofs Proofs.OverlayProofs Gen.Constants.
Import ListNotations.
Local Open Scope N_scope.

Definition DD := denote conv_lookup_inverse conv_range_guard conv_selection_guard bbox_index_variant.

(* every pipeline expression: a returned tile lies inside the advertised level box *)
Theorem C03_coverage_sound :
  forall e, expr_ok e -> forall c v, look (DD e) c = Ok (Some v) ->
    In_box (cov (DD e) (cz c)) (cx c) (cy c) /\ level (cov (DD e) (cz c)) = cz c.
Proof.
  intros e He c v H. pose proof (good_denote e He) as G. split.
  - exact (g_cov_sound _ G c v H).
  - apply (g_cov_wf _ G). exact (proj1 (g_look_valid _ G c v H)).
Qed.
Print Assumptions C03_coverage_sound.

(* tar / directory / PMTiles style coverage: folding include_coord over the stored coordinates
   yields a box that contains every stored tile of the level and is the least such box *)
Theorem C03_include_coord_fold_exact :
  forall tiles z, z <= 31 -> tiles_ok tiles ->
    let b := leaf_cov tiles z in
    wf b /\ level b = z
    /\ (forall t, In t tiles -> cz (fst t) = z -> In_box b (cx (fst t)) (cy (fst t))).
Proof.
  intros tiles z Hz Hok. destruct (level_empty_box z) as (L & _ & W).
  destruct (leaf_cov_inv tiles z (empty_box z) Hz Hok (W Hz) L) as (A & B & _ & D). auto.
Qed.
Print Assumptions C03_include_coord_fold_exact.

(* ... and it is the least such box: every box that contains the stored tiles of the level contains
   it, so the advertised level box is exactly the bounding box of the stored tiles *)
From VT Require Import Proofs.CoverageExact.
Theorem C03_include_coord_fold_least :
  forall tiles z d, z <= 31 -> tiles_ok tiles ->
    (forall t, In t tiles -> cz (fst t) = z -> In_box d (cx (fst t)) (cy (fst t))) ->
    forall u v, In_box (leaf_cov tiles z) u v -> In_box d u v.
Proof. exact leaf_cov_least. Qed.
Print Assumptions C03_include_coord_fold_least.

(* overlay: the coverage contains the coverage of every source (union) *)
Theorem C03_overlay_union :
  forall ss z, z <= 31 -> Forall good ss -> ss <> [] ->
    forall s, In s ss -> forall x y, In_box (cov s z) x y -> In_box (cov (overlay 1 ss) z) x y.
Proof.
  intros ss z Hz Hg Hne s Hin x y H. cbn [overlay cov]. unfold overlay_cov.
  destruct ss as [|s0 r]; [congruence|]. inversion Hg as [|? ? G0 _]; subst.
  destruct (g_cov_wf _ G0 z Hz) as (W0 & L0).
  destruct (overlay_cov_fold (s0 :: r) z (cov s0 z) Hz Hg W0 L0) as (_ & _ & _ & D). exact (D s Hin x y H).
Qed.
Print Assumptions C03_overlay_union.

(* MBTiles: the advertised level box comes from MIN/MAX queries with a two-step refinement of the
   row bounds (an estimate from the leftmost, middle and rightmost column, then MIN over the rows at
   or below / MAX over the rows at or above it).  For every non-empty set of rows of a level the
   result is exactly the bounding box: it contains every stored tile and touches all four sides. *)
From VT Require Import Model.MBTiles Proofs.MBTilesProofs.
Lemma C03_gen_mbtiles_rows : mbtiles_row_variant = 1%N.  Proof. reflexivity. Qed.

Theorem C03_mbtiles_level_bounds :
  forall rows, rows <> [] ->
    exists x0 y0 x1 y1, level_bounds mbtiles_row_variant rows = Some (x0, y0, x1, y1) /\
      (forall r, In r rows -> (x0 <= fst r <= x1)%N /\ (y0 <= snd r <= y1)%N) /\
      (exists r, In r rows /\ fst r = x0) /\ (exists r, In r rows /\ fst r = x1) /\
      (exists r, In r rows /\ snd r = y0) /\ (exists r, In r rows /\ snd r = y1).
Proof. exact level_bounds_exact. Qed.
Print Assumptions C03_mbtiles_level_bounds.

Theorem C03_mbtiles_max_refinement_refuted :
  level_bounds 0 [(2, 7); (10, 7); (6, 8); (3, 11)]%N = Some (2, 7, 10, 8)%N /\
  level_bounds 1 [(2, 7); (10, 7); (6, 8); (3, 11)]%N = Some (2, 7, 10, 11)%N.
Proof. exact level_bounds_refuted_v0. Qed.

