(* C06 — conversion selects and relocates tiles exactly as the options say. *)
From Coq Require Import List NArith Lia.
From VT Require Import Base.Outcome Model.BBox Model.Pipeline Proofs.BBoxProofs Proofs.PipelineProofs Proofs.OverlayProofs Gen.Constants.
Import ListNotations.
Local Open Scope N_scope.

Definition CONV := converter conv_lookup_inverse conv_range_guard conv_selection_guard.

Lemma C06_gen_relations : conv_lookup_inverse = 1 /\ conv_range_guard = 1 /\ conv_selection_guard = 1.
Proof. repeat split; reflexivity. Qed.

(* the transform (flip first, then swap) and its inverse *)
Theorem C06_transform_inverse : forall f s c, okc c ->
  Tinv f s (T f s c) = c /\ T f s (Tinv f s c) = c /\ okc (T f s c) /\ okc (Tinv f s c).
Proof.
  intros f s c H. split; [now apply Tinv_T|]. split; [now apply T_Tinv|].
  split; [apply (T_okc f s c H) | apply (Tinv_okc f s c H)].
Qed.
Print Assumptions C06_transform_inverse.

(* lookup: the tile at c is the source tile at the pre-image of c, exactly when c lies in the
   requested selection; never a panic (coordinates outside their level answer None) *)
Theorem C06_lookup : forall f sw req s c,
  look (CONV f sw req s) c =
    if out_of_level c then Ok None else if in_req req c then look s (Tinv f sw c) else Ok None.
Proof. exact converter_lookup_spec. Qed.
Print Assumptions C06_lookup.

(* stream path = lookup path (what `convert` writes = what `serve` answers), coverage sound *)
Theorem C06_lookup_stream_coverage_agree : forall f sw req s, good s -> req_ok req ->
  good (CONV f sw req s).
Proof. exact good_converter. Qed.
Print Assumptions C06_lookup_stream_coverage_agree.

(* the pinned source applied the forward transform to the request: with both flags the lookup
   disagrees with the stream (witness at zoom 2) *)
Theorem C06_lookup_stream_disagree_before_fix :
  let s := leaf [((2, 1, 0), 7)] in
  look (converter 0 0 0 true true None s) (2, 3, 1) = Ok None
  /\ strm (converter 0 0 0 true true None s) (mkB 2 0 0 3 3 3) = Ok [((2, 3, 1), 7)].
Proof. split; vm_compute; reflexivity. Qed.

Theorem C06_lookup_panics_out_of_level_before_fix :
  look (converter 0 0 0 true false None (leaf [])) (3, 1, 99) = Panic.
Proof. vm_compute. reflexivity. Qed.

(* ---- the tile box a geographic box maps to: discrete stage of from_geo, per axis ---- *)
Require Import ZArith.
From VT Require Import Model.Geo Proofs.GeoProofs.
Lemma C06_gen_geo_guard : geo_guard_variant = 1.  Proof. reflexivity. Qed.
Theorem C06_geo_axis : forall S G n uw ue, (0 < S)%Z -> (0 <= G)%Z -> (1 <= n)%Z ->
  let '(a, b) := axis_box geo_guard_variant S G n uw ue in
  (0 <= a /\ a <= b /\ b <= n - 1)%Z /\
  forall i, (0 <= i <= n - 1)%Z -> (uw + G < (i + 1) * S)%Z -> (i * S <= ue - G)%Z -> (a <= i <= b)%Z.
Proof.
  intros S G n uw ue HS HG Hn.
  pose proof (axis_box_nonempty geo_guard_variant S G n uw ue Hn) as H1.
  pose proof (fun i => axis_covers geo_guard_variant S G n uw ue i HS HG Hn) as H2.
  destruct (axis_box geo_guard_variant S G n uw ue) as [a b]. split; [exact H1|]. intros i Hi Hw He. exact (H2 i Hi Hw He).
Qed.
Print Assumptions C06_geo_axis.
