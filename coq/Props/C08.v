(* C08 — from_overlayed returns the tile of the first listed source that has one. *)
From Coq Require Import List NArith Lia.
From VT Require Import Base.Outcome Model.BBox Model.Pipeline Proofs.BBoxProofs Proofs.PipelineProofs Proofs.OverlayProofs Gen.Constants.
Import ListNotations.
Local Open Scope N_scope.

Definition OVER := overlay bbox_index_variant.
Lemma C08_gen_relations : bbox_index_variant = 1 /\ overlay_grid = 32.  Proof. split; reflexivity. Qed.

(* lookup = first source in list order that has a tile (fsv), never a failure *)
Theorem C08_lookup_first_some : forall ss c, Forall good ss -> look (OVER ss) c = Ok (fsv ss c).
Proof. intros ss c Hg. cbn [OVER overlay look]. now apply first_some_good. Qed.
Print Assumptions C08_lookup_first_some.

(* streams agree with lookups for every box, any number of sources with arbitrary coverages;
   coverage is sound; no panic — given sources that themselves satisfy C02/C03 *)
Theorem C08_stream_lookup_coverage : forall ss, Forall good ss -> ss <> [] -> good (OVER ss).
Proof. exact good_overlay. Qed.
Print Assumptions C08_stream_lookup_coverage.

(* one 32x32 cell of the slot-filling loop, stated separately *)
Theorem C08_cell : forall cell, wf cell -> is_empty cell = false -> forall ss, Forall good ss ->
  exists out, overlay_cell 1 ss cell = Ok out /\ NoDup (map fst out)
    /\ forall c v, In (c, v) out <-> (cz c = level cell /\ In_box cell (cx c) (cy c) /\ fsv ss c = Some v).
Proof. exact overlay_cell_spec. Qed.
Print Assumptions C08_cell.

Theorem C08_coverage_union :
  forall ss z, z <= 31 -> Forall good ss -> ss <> [] ->
    forall s, In s ss -> forall x y, In_box (cov s z) x y -> In_box (cov (OVER ss) z) x y.
Proof.
  intros ss z Hz Hg Hne s Hin x y H. cbn [OVER overlay cov]. unfold overlay_cov.
  destruct ss as [|s0 r]; [congruence|]. inversion Hg as [|? ? G0 _]; subst.
  destruct (g_cov_wf _ G0 z Hz) as (W0 & L0).
  destruct (overlay_cov_fold (s0 :: r) z (cov s0 z) Hz Hg W0 L0) as (_ & _ & _ & D). exact (D s Hin x y H).
Qed.
Print Assumptions C08_coverage_union.

Example C08_priority_example :
  look (OVER [leaf [((2, 1, 0), 7)]; leaf [((2, 1, 0), 9); ((2, 3, 3), 10)]]) (2, 1, 0) = Ok (Some 7)
  /\ look (OVER [leaf [((2, 1, 0), 7)]; leaf [((2, 1, 0), 9); ((2, 3, 3), 10)]]) (2, 3, 3) = Ok (Some 10).
Proof. split; vm_compute; reflexivity. Qed.

(* ---- the encoding side: "re-encoded to the compression the overlay declares" ---- *)
From VT Require Import Model.Recompress Proofs.RecompressProofs Model.OverlayComp Proofs.OverlayCompProofs.

(* the overlay declares the sources' common compression, and "uncompressed" as soon as two differ *)
Theorem C08_declared_common : forall c cs, cs <> [] -> Forall (eq c) cs -> declared cs = c.
Proof. exact declared_common. Qed.
Print Assumptions C08_declared_common.
Theorem C08_declared_mixed : forall cs a b, In a cs -> In b cs -> a <> b -> declared cs = CU.
Proof. exact declared_mixed. Qed.
Print Assumptions C08_declared_mixed.

(* whatever the sources' compressions are (any lawful gzip / brotli codecs): the tile handed out
   decodes, with the declared compression, to the decoded tile of the first source that has one *)
Theorem C08_reencoded : forall gz br, lawful gz -> lawful br -> forall pre c b post p,
  Forall (fun s => snd s = None) pre -> decompress gz br c b = Some p ->
  let srcs := pre ++ (c, Some b) :: post in
  exists b', overlay_answer gz br srcs = Some (Some b') /\ decompress gz br (declared (map fst srcs)) b' = Some p.
Proof. exact overlay_answer_first. Qed.
Print Assumptions C08_reencoded.
Theorem C08_absent : forall gz br srcs, Forall (fun s => snd s = None) srcs -> overlay_answer gz br srcs = Some None.
Proof. exact overlay_answer_none. Qed.
Print Assumptions C08_absent.
Theorem C08_error_only_on_undecodable : forall gz br srcs, overlay_answer gz br srcs = None ->
  exists c b, first_tile srcs = Some (c, b) /\ decompress gz br c b = None.
Proof. exact overlay_answer_error. Qed.
Print Assumptions C08_error_only_on_undecodable.

Example C08_mixed_example :
  declared [CG; CG; CB] = CU /\ declared [CB; CB] = CB /\
  overlay_answer (framed 1) (framed 2) [(CG, None); (CB, Some [2; 7; 7]%N); (CG, Some [1; 9]%N)] = Some (Some [7; 7]%N).
Proof. repeat split; vm_compute; reflexivity. Qed.
