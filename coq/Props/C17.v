(* C17 — JSON round trips. *)
From Coq Require Import List NArith Bool Lia.
From VT Require Import Model.Json Proofs.JsonProofs Gen.Constants.
Import ListNotations.
Local Open Scope N_scope.

Lemma C17_gen_hex_escape_checked : json_hex_variant = 1.  Proof. reflexivity. Qed.

(* every string of Unicode scalar values (control characters, quotes, backslashes, non-BMP):
   parsing the quoted, escaped text yields the string, whatever follows the closing quote *)
Theorem C17_string_roundtrip : forall s tail, Forall scalar s ->
  parse_string json_hex_variant (quote s ++ tail) = JOk s tail.
Proof. intros s tail H. apply string_roundtrip; [right; reflexivity | exact H]. Qed.
Print Assumptions C17_string_roundtrip.

(* every JSON value (any nesting; numbers as printed by f64 Display; object keys any strings):
   parse (stringify v) = v, with fuel >= the size of the value *)
Theorem C17_value_roundtrip : forall v, good v -> forall fuel tail, (vsize v <= fuel)%nat -> tail_ok tail ->
  pval json_hex_variant fuel (stringify v ++ tail) = JOk v tail.
Proof. intros v. apply value_roundtrip. right; reflexivity. Qed.
Print Assumptions C17_value_roundtrip.

(* the entry point itself: parse_json, whose fuel is the length of the text + 1, reads every
   printed value back completely (nothing left over) *)
Theorem C17_parse_json_stringify : forall v, good v -> parse_json json_hex_variant (stringify v) = JOk v [].
Proof. exact parse_json_stringify. Qed.
Print Assumptions C17_parse_json_stringify.

Theorem C17_hex_window_panics_before_fix : parse_string 0 [34; 92; 117; 48; 48; 48; 233; 34] = JPanic.
Proof. exact hex_window_panics_v0. Qed.

Example C17_nested_value_is_good :
  good (VArr [VStr [228; 34; 128512]; VNum [45; 49; 46; 53]; VObj [([107], VNull)]]).
Proof.
  cbn [good fst snd]. split; [|split; [|split; [|exact I]]].
  - repeat constructor; unfold scalar; lia.
  - exists [45], [49], [46; 53]. split; [reflexivity|]. split; [now right|]. split.
    + split; [discriminate | repeat constructor].
    + right. exists [53]. split; [reflexivity|]. split; [discriminate | repeat constructor].
  - split; [repeat constructor; unfold scalar; lia | split; exact I].
Qed.

(* ---- TileJSON documents through containers: merge into the default document, narrowing to the coverage ---- *)
From VT Require Import Model.Http Model.TileJson Proofs.TileJsonProofs.
Lemma C17_gen_merge_variant : tj_merge_variant = 1.  Proof. reflexivity. Qed.

(* the tar and directory readers merge the stored document into TileJSON::default(): the result is
   the stored document - bounds, center, zoom range and every other value *)
Theorem C17_merge_into_default : forall d, keys_unique (t_vals d) -> m_get k_tilejson (t_vals d) <> None ->
  t_bounds (merge tj_merge_variant tj_default d) = t_bounds d /\ t_center (merge tj_merge_variant tj_default d) = t_center d /\
  get_byte k_minzoom (t_vals (merge tj_merge_variant tj_default d)) = get_byte k_minzoom (t_vals d) /\
  get_byte k_maxzoom (t_vals (merge tj_merge_variant tj_default d)) = get_byte k_maxzoom (t_vals d) /\
  forall k, is_zoom k = false -> m_get k (t_vals (merge tj_merge_variant tj_default d)) = m_get k (t_vals d).
Proof. exact merge_into_default. Qed.
Print Assumptions C17_merge_into_default.

Theorem C17_merge_into_default_refuted_with_zero_default :
  get_byte k_minzoom (t_vals (merge 0 tj_default (mkTJ None None [(k_tilejson, TString [51%N]); (k_minzoom, TByte 3)]))) = Some 0%N.
Proof. exact merge_into_default_refuted_v0. Qed.

(* merging two documents (overlay / merged sources): other keys of the second win, the zoom range is the union *)
Theorem C17_merge_keys : forall a b k, is_zoom k = false -> keys_unique (t_vals b) ->
  m_get k (t_vals (merge tj_merge_variant a b)) = match m_get k (t_vals b) with Some x => Some x | None => m_get k (t_vals a) end.
Proof. exact (merge_other_keys tj_merge_variant). Qed.
Print Assumptions C17_merge_keys.

Theorem C17_merge_zoom : forall a b,
  get_byte k_minzoom (t_vals (merge tj_merge_variant a b)) =
    match get_byte k_minzoom (t_vals b), get_byte k_minzoom (t_vals a) with Some o, Some s => Some (N.min s o) | Some o, None => Some o | None, r => r end /\
  get_byte k_maxzoom (t_vals (merge tj_merge_variant a b)) =
    match get_byte k_maxzoom (t_vals b), get_byte k_maxzoom (t_vals a) with Some o, Some s => Some (N.max s o) | Some o, None => Some o | None, r => r end.
Proof. intros a b. split; [exact (merge_minzoom a b) | exact (merge_maxzoom tj_merge_variant a b)]. Qed.
Print Assumptions C17_merge_zoom.

(* update_from_pyramid: zoom range and bounds are intersected with the coverage's, nothing else changes *)
Theorem C17_narrowed_to_coverage : forall cb zmin zmax a,
  let r := update_from_pyramid cb zmin zmax a in
  t_center r = t_center a /\
  t_bounds r = match cb with Some b => Some (match t_bounds a with Some sb => bb_intersect sb b | None => b end) | None => t_bounds a end /\
  get_byte k_minzoom (t_vals r) = match zmin with Some z => Some (match get_byte k_minzoom (t_vals a) with Some m => N.max m z | None => z end) | None => get_byte k_minzoom (t_vals a) end /\
  get_byte k_maxzoom (t_vals r) = match zmax with Some z => Some (match get_byte k_maxzoom (t_vals a) with Some m => N.min m z | None => z end) | None => get_byte k_maxzoom (t_vals a) end /\
  forall k, is_zoom k = false -> m_get k (t_vals r) = m_get k (t_vals a).
Proof. exact update_from_pyramid_spec. Qed.
Print Assumptions C17_narrowed_to_coverage.

(* ---- vector_layers (merged layer by layer when containers and operators merge TileJSON documents) ---- *)
From VT Require Import Model.VectorLayers Proofs.VectorLayersProofs.
(* per layer id: in both documents -> the merged layer, in one -> that layer, in none -> absent *)
Theorem C17_vector_layers_merge : forall b a id, ids_unique b ->
  l_get id (vls_merge a b) =
    match l_get id b with
    | Some lb => Some (match l_get id a with Some la => vl_merge la lb | None => lb end)
    | None => l_get id a
    end.
Proof. exact vls_merge_get. Qed.
Print Assumptions C17_vector_layers_merge.
(* merged into a document without layers (the default document of the tar / directory readers): handed back as they are *)
Theorem C17_vector_layers_into_default : forall b id, ids_unique b -> l_get id (vls_merge [] b) = l_get id b.
Proof. exact vls_merge_into_empty. Qed.
Print Assumptions C17_vector_layers_into_default.
(* a field of a merged layer: the other layer's (last) value if it has the field, else the own one *)
Theorem C17_vector_layer_fields : forall a b k,
  f_get k (vl_fields (vl_merge a b)) = f_last k (vl_fields b) (f_get k (vl_fields a)).
Proof. exact vl_merge_field. Qed.
Print Assumptions C17_vector_layer_fields.
Example C17_vector_layers_example :
  let a := [([97], mkVL [([120], [49])] None (Some 3) (Some 9))]%N in
  let b := [([97], mkVL [([120], [50]); ([121], [51])] (Some [100]) (Some 5) (Some 12)); ([98], mkVL [] None None None)]%N in
  l_get [97]%N (vls_merge a b) = Some (mkVL [([120], [50]); ([121], [51])] (Some [100]) (Some 3) (Some 12))%N /\
  l_get [98]%N (vls_merge a b) = Some (mkVL [] None None None) /\ ids_unique b.
Proof. repeat split; vm_compute; reflexivity. Qed.
