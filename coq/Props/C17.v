(* C17 — JSON round trips. *)
From Coq Require Import List NArith Bool Lia.
From VT Require Import Model.Json Proofs.JsonProofs Gen.Constants.
Import ListNotations.
Local Open Scope N_scope.

Lemma C17_gen_hex_escape_checked : json_hex_variant = 1.  Proof. reflexivity. Qed.

(* every string of Unicode scalar values (control characters, quotes, backslashes, non-BMP):
   parsing the quoted, escaped text yields the string, whatever follows the closing quote *)
Theorem C17_string_roundtrip : forall s tail, Forall scalar s ->
  parse_string json_hex_variant (quote s ++ tail) = JOk s tail.
Proof. intros s tail H. apply string_roundtrip; [right; reflexivity | exact H]. Qed.
Print Assumptions C17_string_roundtrip.

(* every JSON value (any nesting; numbers as printed by f64 Display; object keys any strings):
   parse (stringify v) = v, with fuel >= the size of the value *)
Theorem C17_value_roundtrip : forall v, good v -> forall fuel tail, (vsize v <= fuel)%nat -> tail_ok tail ->
  pval json_hex_variant fuel (stringify v ++ tail) = JOk v tail.
Proof. intros v. apply value_roundtrip. right; reflexivity. Qed.
Print Assumptions C17_value_roundtrip.

(* the entry point itself: parse_json, whose fuel is the length of the text + 1, reads every
   printed value back completely (nothing left over) *)
Theorem C17_parse_json_stringify : forall v, good v -> parse_json json_hex_variant (stringify v) = JOk v [].
Proof. exact parse_json_stringify. Qed.
Print Assumptions C17_parse_json_stringify.

Theorem C17_hex_window_panics_before_fix : parse_string 0 [34; 92; 117; 48; 48; 48; 233; 34] = JPanic.
Proof. exact hex_window_panics_v0. Qed.

Example C17_nested_value_is_good :
  good (VArr [VStr [228; 34; 128512]; VNum [45; 49; 46; 53]; VObj [([107], VNull)]]).
Proof.
  cbn [good fst snd]. split; [|split; [|split; [|exact I]]].
  - repeat constructor; unfold scalar; lia.
  - exists [45], [49], [46; 53]. split; [reflexivity|]. split; [now right|]. split.
    + split; [discriminate | repeat constructor].
    + right. exists [53]. split; [reflexivity|]. split; [discriminate | repeat constructor].
  - split; [repeat constructor; unfold scalar; lia | split; exact I].
Qed.
