(* Extraction of the executable models to OCaml.  ExtrOcamlBasic only (bool, option, unit, list,
   prod, sumbool, sumor as OCaml types); numbers stay Coq's positive/N/Z; no Extract Constant. *)
Require Extraction.
Require Import ExtrOcamlBasic.
From Coq Require Import NArith ZArith List.
From VT Require Import Gen.Constants Base.Outcome Model.Cache Model.BBox Model.Pyramid Model.Pipeline Model.Stream Model.FileIO Model.Recompress Model.OverlayComp Model.Http Model.StaticPath Model.Json Model.VPL Model.MVT Model.Crash Model.TileId Model.PMDir Model.PMWrite Model.VTFormat Model.VTBlock Model.VTBytes Model.PMHeader Model.Csv Model.Chunk Model.MBTiles Model.Naming Model.Geo Model.VPLArgs Model.MVTUpdate Model.TileJson Model.VectorLayers Model.Guards Proofs.VPLProofs Proofs.VPLRoundtrip.
Extraction Blacklist String List Nat Int Char.
Set Extraction KeepSingleton.
Extraction "../ocaml/model.ml"
  N.add N.mul N.div_eucl N.of_nat N.to_nat N.eqb N.leb N.ltb
  Z.add Z.mul Z.div_eucl Z.of_N Z.to_N Z.opp
  Constants.cache_median_variant Constants.bbox_add_border_variant Constants.bbox_index_variant
  Constants.conv_lookup_inverse Constants.conv_range_guard Constants.conv_selection_guard
  Pipeline.denote Pipeline.look Pipeline.strm Pipeline.cov
  Stream.accepts Stream.chunks
  Constants.file_read_variant FileIO.read_range_prog
  Constants.tile_path_variant Constants.static_guard_variant Http.status StaticPath.served StaticPath.components StaticPath.names StaticPath.request_url
  Constants.json_hex_variant Json.quote Json.parse_string Json.parse_json Json.stringify
  Constants.vpl_empty_variant VPL.parse_vpl VPLRoundtrip.render_pipe
  Constants.mvt_table_variant Constants.zigzag_variant MVT.decode_tile MVT.encode_tile MVT.merge_tiles MVT.decode_tags
  MVT.write_varint MVT.read_varint MVT.zz_enc MVT.zz_dec
  Recompress.recompressor Recompress.optimize Recompress.compress Recompress.framed Recompress.process
  Crash.vt_wfb Crash.pm_wfb Crash.vt_parse_header Crash.pm_view Crash.crash_state Crash.run_ops Crash.vt_index_of
  Constants.mbtiles_row_variant MBTiles.level_bounds Naming.parse_member Naming.render_member
  MVTUpdate.update_tile MVTUpdate.row_props MVTUpdate.bt_of
  Constants.subreader_variant Constants.fm_unwrap_variant Guards.sub_reader
  Constants.tj_merge_variant TileJson.merge TileJson.update_from_pyramid TileJson.tj_default
  Constants.geo_guard_variant Geo.axis_box VPLArgs.bbox_builds VPLArgs.zoom_builds
  Constants.csv_tail_variant Constants.vt_stream_variant Csv.read_csv Chunk.stream
  Constants.pm_arith_variant Constants.pm_depth_variant TileId.coord_to_tile_id TileId.tile_id_to_coord PMDir.serialize PMDir.serialize_with PMDir.deserialize PMDir.find_tile PMDir.pm_lookup PMDir.cov_ids PMWrite.build_roots_leaves PMWrite.as_directory PMWrite.read_leaf OverlayComp.declared OverlayComp.overlay_answer VTBytes.bdef_from_blob VTBytes.bdef_as_blob VTBytes.bdef_new VTBytes.tidx_from_blob VTBytes.tidx_as_blob VTBytes.tidx_add_offset VTBytes.tidx_add_offset_v Constants.tidx_offset_variant VTBytes.hdr_from_blob VTBytes.hdr_to_blob PMHeader.pmh_deserialize PMHeader.pmh_serialize VectorLayers.vls_merge
  VTFormat.vt_write VTFormat.vt_lookup N.sub VTBlock.write_block VTBlock.read_slot
  Pyramid.py_new_empty Pyramid.py_new_full Pyramid.py_intersect Pyramid.py_set_level Pyramid.py_include_coord Pyramid.py_include_pyramid
  Pyramid.py_contains Pyramid.py_overlaps Pyramid.py_set_zoom_min Pyramid.py_set_zoom_max Pyramid.py_zoom_min Pyramid.py_zoom_max Pyramid.py_count Pyramid.py_is_empty Pyramid.py_add_border
  Cache.run Cache.empty
  BBox.new BBox.new_full BBox.new_empty BBox.is_empty BBox.width BBox.height BBox.count_tiles BBox.contains2 BBox.contains3
  BBox.set_empty BBox.include_coord BBox.add_border BBox.include_bbox BBox.intersect_bbox BBox.overlaps_bbox
  BBox.shift_by BBox.subtract BBox.scale_down BBox.iter_coords BBox.iter_bbox_grid BBox.get_tile_index
  BBox.get_coord_by_index BBox.coord_flip_y BBox.coord_swap_xy BBox.flip_y BBox.swap_xy BBox.level_max.
