(* Extraction of the executable models to OCaml.  ExtrOcamlBasic only (bool, option, unit, list,
   prod, sumbool, sumor as OCaml types); numbers stay Coq's positive/N/Z; no Extract Constant. *)
Require Extraction.
Require Import ExtrOcamlBasic.
From Coq Require Import NArith ZArith List.
From VT Require Import Gen.Constants Model.Cache.
Extraction Blacklist String List Nat Int Char.
Set Extraction KeepSingleton.
Extraction "../ocaml/model.ml"
  N.add N.mul N.div_eucl N.of_nat N.to_nat N.eqb N.leb N.ltb
  Z.add Z.mul Z.div_eucl Z.of_N Z.to_N Z.opp
  Constants.cache_median_variant
  Cache.run Cache.empty.
