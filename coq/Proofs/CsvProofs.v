(* The CSV reader ends with rows or an error on every byte string (C19). *)
From Coq Require Import List NArith Bool Lia.
From VT Require Import Model.Csv.
Import ListNotations.
Local Open Scope N_scope.

Lemma quoted_shorter_n n : forall l acc s r, (length l <= n)%nat -> quoted l acc = Some (s, r) -> (length r < length l)%nat.
Proof.
  induction n as [|n IH]; intros l acc s r Hn H.
  - destruct l; [discriminate|cbn in Hn; lia].
  - destruct l as [|c l1]; [discriminate|]. cbn [length] in Hn.
    destruct (N.eq_dec c 34) as [->|Hc].
    + destruct l1 as [|d l2]; [cbn in H; injection H as <- <-; cbn; lia|].
      destruct (N.eq_dec d 34) as [->|Hd].
      * cbn [quoted] in H. cbn [length] in Hn. assert (length r < length l2)%nat by (apply (IH l2 _ s r ltac:(lia) H)). cbn; lia.
      * assert (E : quoted (34 :: d :: l2) acc = Some (acc, d :: l2)).
        { cbn [quoted]. destruct d as [|p]; [reflexivity|]. repeat (destruct p; try reflexivity). congruence. }
        rewrite E in H. injection H as <- <-. cbn; lia.
    + assert (E : quoted (c :: l1) acc = quoted l1 (acc ++ [c])).
      { cbn [quoted]. destruct c as [|p]; [reflexivity|]. repeat (destruct p; try reflexivity). congruence. }
      rewrite E in H. assert (length r < length l1)%nat by (apply (IH l1 _ s r ltac:(lia) H)). cbn; lia.
Qed.

Lemma quoted_shorter l acc s r : quoted l acc = Some (s, r) -> (length r < length l)%nat.
Proof. apply (quoted_shorter_n (length l)). lia. Qed.

Lemma simple_le sep l : forall acc, (length (snd (simple sep l acc)) <= length l)%nat.
Proof.
  induction l as [|c r IH]; intros acc; cbn [simple]; [cbn; lia|].
  destruct ((c =? sep) || (c =? 13) || (c =? 10)); [cbn; lia|]. specialize (IH (acc ++ [c])). cbn [length]. lia.
Qed.

Lemma after_shorter sep l :
  match after_value sep l with
  | ANewline r | ASep r => (length r < length l)%nat
  | _ => True
  end.
Proof.
  induction l as [|c r IH]; cbn [after_value]; [exact I|].
  destruct (c =? 13). { destruct (after_value sep r); cbn [length]; try exact I; lia. }
  destruct (c =? 10); [cbn; lia|]. destruct (c =? sep); [cbn; lia|exact I].
Qed.

Lemma fields_nil v sep valid f acc :
  fields v sep valid (S f) [] acc = if negb (valid []) then LErr else if is_blank (acc ++ [[]]) then LEnd else LRow (acc ++ [[]]) [].
Proof. reflexivity. Qed.

Lemma fields_no_panic sep valid fuel : forall l acc, (length l < fuel)%nat -> fields 1 sep valid fuel l acc <> LPanic.
Proof.
  induction fuel as [|f IH]; intros l acc Hf; [lia|].
  cbn [fields].
  set (value := match l with 34 :: r => quoted r [] | _ => Some (simple sep l []) end).
  assert (Hv : forall s r', value = Some (s, r') -> (length r' <= length l)%nat).
  { intros s r' E. unfold value in E. destruct l as [|c r]; [injection E as <- <-; cbn; lia|].
    destruct (N.eq_dec c 34) as [->|Hc].
    - apply quoted_shorter in E. cbn; lia.
    - assert (E' : Some (simple sep (c :: r) []) = Some (s, r')).
      { destruct c as [|p]; [exact E|]. repeat (destruct p; try exact E). congruence. }
      assert (E2 : simple sep (c :: r) [] = (s, r')) by congruence. pose proof (simple_le sep (c :: r) []) as Q. rewrite E2 in Q. exact Q. }
  destruct value as [[s r']|]; [|discriminate]. specialize (Hv s r' eq_refl).
  destruct (negb (valid s)); [discriminate|].
  pose proof (after_shorter sep r') as A.
  destruct (after_value sep r') as [r2| |r2|].
  - destruct (is_blank (acc ++ [s])); [apply IH; lia|discriminate].
  - destruct (is_blank (acc ++ [s])); discriminate.
  - apply IH; lia.
  - discriminate.
Qed.

Lemma fields_rest_shorter sep valid fuel : forall l acc r rest, l <> [] ->
  fields 1 sep valid fuel l acc = LRow r rest -> (length rest < length l)%nat.
Proof.
  induction fuel as [|f IH]; intros l acc r rest Hne H; [discriminate|].
  cbn [fields] in H.
  set (value := match l with 34 :: r => quoted r [] | _ => Some (simple sep l []) end) in H.
  assert (Hv : forall s r', value = Some (s, r') -> (length r' <= length l)%nat).
  { intros s r' E. unfold value in E. destruct l as [|c r0]; [congruence|].
    destruct (N.eq_dec c 34) as [->|Hc].
    - apply quoted_shorter in E. cbn; lia.
    - assert (E' : Some (simple sep (c :: r0) []) = Some (s, r')).
      { destruct c as [|p]; [exact E|]. repeat (destruct p; try exact E). congruence. }
      assert (E2 : simple sep (c :: r0) [] = (s, r')) by congruence. pose proof (simple_le sep (c :: r0) []) as Q. rewrite E2 in Q. exact Q. }
  destruct value as [[s r']|]; [|discriminate]. specialize (Hv s r' eq_refl).
  destruct (negb (valid s)); [discriminate|].
  pose proof (after_shorter sep r') as A.
  destruct (after_value sep r') as [r2| |r2|].
  - destruct (is_blank (acc ++ [s])).
    + destruct r2 as [|c2 r2']; [|assert (Hne2 : c2 :: r2' <> []) by discriminate; assert (length rest < length (c2 :: r2'))%nat by (apply (IH _ _ _ _ Hne2 H)); lia].
      (* blank line at the very end: the next call sees no input and ends *)
      destruct f as [|f']; [discriminate|]. rewrite fields_nil in H. destruct (negb (valid [])); [discriminate|]. cbn [app is_blank] in H. discriminate.
    + injection H as <- <-. lia.
  - destruct (is_blank (acc ++ [s])); [discriminate|]. injection H as <- <-. destruct l; [congruence|cbn; lia].
  - destruct r2 as [|c2 r2'].
    + destruct f as [|f']; [discriminate|]. rewrite fields_nil in H. destruct (negb (valid [])); [discriminate|].
      destruct (is_blank ((acc ++ [s]) ++ [[]])); [discriminate|]. injection H as <- <-. destruct l; [congruence|cbn; lia].
    + assert (Hne2 : c2 :: r2' <> []) by discriminate. assert (length rest < length (c2 :: r2'))%nat by (apply (IH _ _ _ _ Hne2 H)). lia.
  - destruct (1 =? 0); discriminate.
Qed.

Lemma lines_no_panic sep valid fuel : forall l rows, (length l < fuel)%nat -> snd (lines 1 sep valid fuel l rows) <> SPanic.
Proof.
  induction fuel as [|f IH]; intros l rows Hf; [lia|].
  cbn [lines]. destruct l as [|c r]; [discriminate|].
  pose proof (fields_no_panic sep valid (S (length (c :: r))) (c :: r) [] ltac:(lia)) as NP.
  destruct (fields 1 sep valid (S (length (c :: r))) (c :: r) []) as [row rest| | |] eqn:E; try discriminate; [|congruence].
  apply IH. apply fields_rest_shorter in E; [lia|discriminate].
Qed.

Theorem read_csv_no_panic sep valid l : snd (read_csv 1 sep valid l) <> SPanic.
Proof.
  unfold read_csv. pose proof (lines_no_panic sep valid (S (length l)) l [] ltac:(lia)) as NP.
  destruct (lines 1 sep valid (S (length l)) l []) as [rows st]. cbn [snd] in NP.
  destruct rows as [|r0 rest]; [exact NP|].
  destruct (same_width (length r0) (r0 :: rest)) as [a ok]. cbn [snd]. destruct ok; [exact NP|discriminate].
Qed.
