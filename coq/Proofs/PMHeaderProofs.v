(* C01 / C16 / C12 / C19: the PMTiles v3 header at byte level *)
From Coq Require Import List NArith Arith Lia Bool.
From VT Require Import Base.Outcome Model.VTBytes Model.PMHeader Proofs.NoPanicProofs Proofs.VTBytesProofs.
Import ListNotations.
Local Open Scope N_scope.

Lemma le_length n v : length (le_bytes n v) = n.
Proof. unfold le_bytes. rewrite rev_length. apply be_length. Qed.

Lemma take_le_app n v rest : v < 256 ^ N.of_nat n -> take_le n (le_bytes n v ++ rest) = Ok (v, rest).
Proof.
  intros Hv. unfold take_le. rewrite app_length, le_length.
  replace (Nat.leb n (n + length rest)) with true by (symmetry; apply Nat.leb_le; lia).
  rewrite firstn_app, le_length, Nat.sub_diag, firstn_O, app_nil_r.
  rewrite <- (le_length n v) at 1. rewrite firstn_all. unfold le_bytes. rewrite rev_involutive, rd_be_bytes, N.mod_small by exact Hv.
  rewrite skipn_app, rev_length, be_length, Nat.sub_diag. rewrite <- (be_length n v) at 1. rewrite <- rev_length, skipn_all. reflexivity.
Qed.

Lemma take_le_soft n l : take_le n l = Err \/ exists v r, take_le n l = Ok (v, r).
Proof. unfold take_le. destruct (Nat.leb n (length l)); [right; eauto|left; reflexivity]. Qed.

Definition pmh_wf (h : pmh) : Prop :=
  p_root_off h <= u64_max /\ p_root_len h <= u64_max /\ p_meta_off h <= u64_max /\ p_meta_len h <= u64_max /\
  p_leaf_off h <= u64_max /\ p_leaf_len h <= u64_max /\ p_data_off h <= u64_max /\ p_data_len h <= u64_max /\
  p_addressed h <= u64_max /\ p_entries h <= u64_max /\ p_contents h <= u64_max /\
  p_icomp h <= 4 /\ p_tcomp h <= 4 /\ p_type h <= 5 /\ p_minz h <= 255 /\ p_maxz h <= 255 /\
  p_b0 h <= u32_max /\ p_b1 h <= u32_max /\ p_b2 h <= u32_max /\ p_b3 h <= u32_max /\
  p_cz h <= 255 /\ p_c0 h <= u32_max /\ p_c1 h <= u32_max.

Lemma pmh_serialize_length h : length (pmh_serialize h) = 127%nat.
Proof. unfold pmh_serialize. rewrite !app_length, !le_length. reflexivity. Qed.

Ltac tk := rewrite take_le_app by (cbn; lia); cbn [obind].

Theorem pmh_roundtrip h : pmh_wf h -> length (pmh_serialize h) = 127%nat /\ pmh_deserialize (pmh_serialize h) = Ok h.
Proof.
  intros (H1 & H2 & H3 & H4 & H5 & H6 & H7 & H8 & H9 & H10 & H11 & Hic & Htc & Htt & Hz0 & Hz1 & Hb0 & Hb1 & Hb2 & Hb3 & Hcz & Hc0 & Hc1).
  unfold u32_max, u64_max in *.
  assert (Hlen : length (pmh_serialize h) = 127%nat) by (unfold pmh_serialize; rewrite !app_length, !le_length; reflexivity).
  split; [exact Hlen|]. unfold pmh_deserialize. rewrite Hlen. cbn [Nat.eqb negb].
  unfold pmh_serialize. change (firstn 8 (pm_magic ++ ?x)) with pm_magic. rewrite bytes_eqb_refl. cbn [negb].
  change (skipn 8 (pm_magic ++ ?x)) with x.
  do 11 tk.
  (* the clustered byte *)
  rewrite take_le_app by (destruct (p_clustered h); cbn; lia). cbn [obind].
  tk. ltb_false. tk. ltb_false. tk. ltb_false.
  do 7 tk. tk.
  rewrite <- (app_nil_r (le_bytes 4 (p_c1 h))). tk.
  replace ((if p_clustered h then 1 else 0) =? 1) with (p_clustered h) by (destruct (p_clustered h); reflexivity).
  destruct h; reflexivity.
Qed.

(* what deserialize accepts is 127 bytes long, starts with "PMTiles" 3 and carries known codes *)
Theorem pmh_accepts l h : pmh_deserialize l = Ok h ->
  length l = 127%nat /\ firstn 8 l = pm_magic /\ p_icomp h <= 4 /\ p_tcomp h <= 4 /\ p_type h <= 5.
Proof.
  unfold pmh_deserialize. destruct (Nat.eqb (length l) 127) eqn:El; cbn [negb]; [|discriminate]. apply Nat.eqb_eq in El.
  destruct (bytes_eqb (firstn 8 l) pm_magic) eqn:Em; cbn [negb]; [|discriminate].
  repeat (match goal with
          | |- obind (take_le ?n ?x) _ = _ -> _ => destruct (take_le n x) as [[? ?]| | |]; cbn [obind]; try discriminate
          | |- (if ?a <? ?b then _ else _) = _ -> _ => let E := fresh "E" in destruct (a <? b) eqn:E; [discriminate|apply N.ltb_ge in E]
          end).
  intros H; inversion H; subst. cbn [p_icomp p_tcomp p_type]. split; [exact El|]. split; [|lia].
  clear -Em. revert Em. generalize (firstn 8 l) pm_magic. induction l0 as [|a r IH]; intros [|b s]; cbn [bytes_eqb]; intros E; try discriminate; [reflexivity|].
  apply andb_true_iff in E. destruct E as [E1 E2]. apply N.eqb_eq in E1. subst. f_equal. exact (IH s E2).
Qed.

Theorem pmh_deserialize_soft l : soft (pmh_deserialize l).
Proof.
  unfold pmh_deserialize. destruct (negb _); [exact I|]. destruct (negb _); [exact I|].
  repeat (match goal with
          | |- soft (obind (take_le ?n ?x) _) => destruct (take_le_soft n x) as [E|(? & ? & E)]; rewrite E; cbn [obind]; [exact I|]; clear E
          | |- soft (if ?c then _ else _) => destruct c; [exact I|]
          end).
  exact I.
Qed.
