(* Proofs about Model/Pipeline.v: sources as partial maps; every operator preserves
   "stream = lookups inside the box" (C02) and "coverage contains every returned tile" (C03),
   and has the functional specification its property states (C06, C08, C09). *)
From Coq Require Import List NArith ZArith Bool Lia ZifyBool ZifyN Permutation Arith.
From VT Require Import Base.Outcome Model.BBox Model.Pipeline Proofs.BBoxProofs.
Import ListNotations.
Local Open Scope N_scope.

Definition okc (c : coord) : Prop := cz c <= 31 /\ cx c <= level_max (cz c) /\ cy c <= level_max (cz c).

Record good (s : source) : Prop := {
  g_look_ok : forall c, exists o, look s c = Ok o;
  g_look_valid : forall c v, look s c = Ok (Some v) -> okc c;
  g_cov_wf : forall z, z <= 31 -> wf (cov s z) /\ level (cov s z) = z;
  g_cov_sound : forall c v, look s c = Ok (Some v) -> In_box (cov s (cz c)) (cx c) (cy c);
  g_stream : forall b, wf b ->
      exists l, strm s b = Ok l /\ NoDup (map fst l)
        /\ forall c v, In (c, v) l <-> (cz c = level b /\ In_box b (cx c) (cy c) /\ look s c = Ok (Some v))
}.

Lemma intersect_level a b c : intersect_bbox a b = Ok c -> level c = level a.
Proof.
  unfold intersect_bbox. destruct (negb (level a =? level b)); [discriminate|].
  destruct (negb (is_empty a) && negb (is_empty b)); intros H; inversion H; reflexivity.
Qed.

Lemma coord_eqb_spec a b : coord_eqb a b = true <-> a = b.
Proof.
  destruct a as [[az ax] ay], b as [[bz bx] by_]. unfold coord_eqb, cz, cx, cy. cbn [fst snd].
  split; [intros H; f_equal; [f_equal|]; lia | intros H; inversion H; subst; lia].
Qed.

Lemma coord_eta (c : coord) : c = (cz c, cx c, cy c).
Proof. destruct c as [[z x] y]. reflexivity. Qed.

(* ---------- filter_map ---------- *)
Lemma filter_map_In {A B} (f : A -> option B) l b : In b (filter_map f l) <-> exists a, In a l /\ f a = Some b.
Proof.
  induction l as [|a r IH]; cbn [filter_map In].
  - split; [tauto | intros (a & [] & _)].
  - destruct (f a) eqn:E; cbn [In]; rewrite IH; split.
    + intros [<-|(a' & H1 & H2)]; [exists a; auto | exists a'; auto].
    + intros (a' & [<-|H1] & H2); [left; congruence | right; eauto].
    + intros (a' & H1 & H2); exists a'; auto.
    + intros (a' & [<-|H1] & H2); [congruence | eauto].
Qed.

Lemma filter_map_NoDup {A B} (f : A -> option B) (g : B -> A) l :
  (forall a b, f a = Some b -> g b = a) -> NoDup l -> NoDup (filter_map f l).
Proof.
  intros Hg. induction l as [|a r IH]; intros Hnd; cbn [filter_map]; [constructor|].
  inversion Hnd as [|? ? Hn Hr]; subst. destruct (f a) eqn:E; [|auto].
  constructor; [|auto]. intros Hin. apply filter_map_In in Hin. destruct Hin as (a' & Ha' & E').
  apply Hg in E. apply Hg in E'. congruence.
Qed.

(* ---------- leaf ---------- *)
Definition tiles_ok (tiles : list tile) : Prop := Forall (fun t => okc (fst t)) tiles.

Lemma leaf_look_In tiles c v : leaf_look tiles c = Some v -> In (c, v) tiles.
Proof.
  induction tiles as [|[c' v'] r IH]; cbn [leaf_look]; [discriminate|].
  destruct (coord_eqb c c') eqn:E.
  - apply coord_eqb_spec in E. intros H; inversion H; subst. now left.
  - intros H. right. now apply IH.
Qed.

Lemma level_empty_box z : level (empty_box z) = z /\ is_empty (empty_box z) = true /\ (z <= 31 -> wf (empty_box z)).
Proof.
  unfold empty_box. split; [reflexivity|]. split; [unfold is_empty; cbn; lia|].
  intros Hz. unfold wf; cbn. repeat split; lia.
Qed.

Lemma leaf_cov_inv tiles z acc :
  z <= 31 -> tiles_ok tiles -> wf acc -> level acc = z ->
  let r := fold_left (fun b t => if cz (fst t) =? z then include_coord b (cx (fst t)) (cy (fst t)) else b) tiles acc in
  wf r /\ level r = z
  /\ (forall x y, In_box acc x y -> In_box r x y)
  /\ (forall t, In t tiles -> cz (fst t) = z -> In_box r (cx (fst t)) (cy (fst t))).
Proof.
  intros Hz. unfold tiles_ok. revert acc. induction tiles as [|t r IH]; intros acc Hok Hwf Hl; cbn [fold_left].
  - split; [exact Hwf|]. split; [exact Hl|]. split; [auto|]. intros t0 [].
  - inversion Hok as [|? ? Ht Hr]; subst.
    set (z := level acc) in *.
    set (acc' := if cz (fst t) =? level acc then include_coord acc (cx (fst t)) (cy (fst t)) else acc).
    assert (Hacc' : wf acc' /\ level acc' = level acc /\ (forall x y, In_box acc x y -> In_box acc' x y)
                    /\ (cz (fst t) = level acc -> In_box acc' (cx (fst t)) (cy (fst t)))).
    { unfold acc'. destruct (N.eqb_spec (cz (fst t)) (level acc)) as [E|E].
      - destruct Ht as (T1 & T2 & T3). pose proof Hwf as Hwf'. destruct Hwf' as (_ & Hm & _).
        assert (X : cx (fst t) <= bmax acc) by (rewrite Hm, <- E; exact T2).
        assert (Y : cy (fst t) <= bmax acc) by (rewrite Hm, <- E; exact T3).
        destruct (include_coord_spec acc _ _ Hwf X Y) as (A & B & _ & C & _).
        split; [exact C|]. split; [unfold include_coord; destruct (is_empty acc); reflexivity|]. split; [exact B | intros _; exact A].
      - split; [assumption|]. split; [reflexivity|]. split; [auto | intros; congruence]. }
    destruct Hacc' as (W' & L' & Sub' & In').
    specialize (IH acc' Hr W' L'). cbn zeta in IH. destruct IH as (I1 & I2 & I3 & I4).
    fold acc'. split; [exact I1|]. split; [exact I2|]. split; [intros x y H; apply I3, Sub', H|].
    intros t0 [<-|Hin] Hz0; [apply I3, In'; exact Hz0 | now apply I4].
Qed.

Lemma default_stream_spec lk b :
  let l := default_stream lk b in
  NoDup (map fst l)
  /\ forall c v, In (c, v) l <-> (cz c = level b /\ In_box b (cx c) (cy c) /\ lk c = Some v).
Proof.
  cbn zeta. unfold default_stream. split.
  - (* coordinates of the output are distinct: they come from distinct enumerated pairs *)
    set (f := fun p : N * N => let c := (level b, fst p, snd p) in match lk c with Some v => Some (c, v) | None => None end).
    assert (Hmap : forall l, map fst (filter_map f l) = filter_map (fun p => match f p with Some t => Some (fst t) | None => None end) l).
    { induction l as [|a r IH]; cbn [filter_map map]; [reflexivity|]. destruct (f a); cbn [map]; now rewrite IH. }
    rewrite Hmap. apply (filter_map_NoDup _ (fun c => (cx c, cy c))); [|apply iter_coords_NoDup].
    intros [x y] c. unfold f. cbn [fst snd]. destruct (lk (level b, x, y)); [|discriminate].
    intros H; inversion H; subst. reflexivity.
  - intros c v. rewrite filter_map_In. split.
    + intros ([x y] & Hin & E). cbn [fst snd] in E. destruct (lk (level b, x, y)) eqn:El; [|discriminate].
      inversion E; subst. apply iter_coords_In in Hin. unfold cz, cx, cy. cbn [fst snd]. tauto.
    + intros (Hz & Hin & El). exists (cx c, cy c). split; [now apply iter_coords_In|]. cbn [fst snd].
      rewrite <- Hz, <- coord_eta, El. reflexivity.
Qed.

Lemma good_leaf tiles : tiles_ok tiles -> good (leaf tiles).
Proof.
  intros Hok. split; cbn [leaf look cov strm].
  - intros c. eauto.
  - intros c v H. inversion H as [H1]. apply leaf_look_In in H1.
    unfold tiles_ok in Hok. rewrite Forall_forall in Hok. apply (Hok (c, v) H1).
  - intros z Hz. destruct (level_empty_box z) as (L & _ & W).
    destruct (leaf_cov_inv tiles z (empty_box z) Hz Hok (W Hz) L) as (A & B & _). split; assumption.
  - intros c v H. inversion H as [H1]. apply leaf_look_In in H1.
    assert (Hc : okc c) by (unfold tiles_ok in Hok; rewrite Forall_forall in Hok; apply (Hok (c, v) H1)).
    destruct Hc as (Hz & _). destruct (level_empty_box (cz c)) as (L & _ & W).
    destruct (leaf_cov_inv tiles (cz c) (empty_box (cz c)) Hz Hok (W Hz) L) as (_ & _ & _ & D).
    apply (D (c, v) H1). reflexivity.
  - intros b Hb. eexists. split; [reflexivity|].
    destruct (default_stream_spec (leaf_look tiles) b) as [A B]. split; [exact A|].
    intros c v. rewrite B. split; intros (H1 & H2 & H3); (split; [exact H1|]; split; [exact H2|]); congruence.
Qed.

(* ---------- filters ---------- *)
Definition pyr_ok (p : N -> bbox) : Prop := forall z, z <= 31 -> wf (p z) /\ level (p z) = z.

Lemma good_filtered p s : good s -> pyr_ok p -> good (filtered p s).
Proof.
  intros G Hp. split; cbn [filtered look cov strm].
  - intros c. destruct (31 <? cz c); [eauto|]. destruct (contains3 _ _ _ _); [apply (g_look_ok _ G) | eauto].
  - intros c v. destruct (31 <? cz c); [discriminate|]. destruct (contains3 _ _ _ _); [apply (g_look_valid _ G) | discriminate].
  - exact Hp.
  - intros c v. destruct (31 <? cz c); [discriminate|]. destruct (contains3 _ _ _ _) eqn:E; [|discriminate].
    intros _. apply contains3_spec in E. tauto.
  - intros b Hb. pose proof Hb as Hb'. destruct Hb' as (Hl & _).
    destruct (Hp (level b) Hl) as (Wp & Lp).
    destruct (intersect_total b (p (level b)) (eq_sym Lp)) as [b' Hb'].
    rewrite Hb'. pose proof (intersect_wf _ _ _ Hb Wp Hb') as Wb'.
    pose proof (intersect_spec _ _ _ Hb') as Sb'.
    assert (Lb' : level b' = level b) by exact (intersect_level _ _ _ Hb').
    destruct (g_stream _ G b' Wb') as (l & Hs & Hnd & Hin). exists l. split; [exact Hs|]. split; [exact Hnd|].
    intros c v. rewrite Hin, Lb', Sb'. split.
    + intros (Hz & (HA & HB) & Hlk). split; [exact Hz|]. split; [exact HA|].
      destruct (31 <? cz c) eqn:E31; [lia|].
      assert (contains3 (p (cz c)) (cz c) (cx c) (cy c) = true) as ->; [|exact Hlk].
      apply contains3_spec. rewrite Hz. split; [now rewrite Lp | exact HB].
    + intros (Hz & HA & Hlk). destruct (31 <? cz c) eqn:E31; [discriminate|].
      destruct (contains3 (p (cz c)) (cz c) (cx c) (cy c)) eqn:Ec; [|discriminate].
      apply contains3_spec in Ec. rewrite Hz in Ec. tauto.
Qed.

Lemma zoom_pyramid_ok a b p : pyr_ok p -> pyr_ok (zoom_pyramid a b p).
Proof.
  intros Hp z Hz. destruct (Hp z Hz) as (W & L). unfold zoom_pyramid.
  assert (Hse : wf (set_empty (p z)) /\ level (set_empty (p z)) = z).
  { destruct W as (A & B & _). unfold wf, set_empty. cbn. repeat split; try lia; assumption. }
  assert (Hse2 : forall q, wf q /\ level q = z -> wf (set_empty q) /\ level (set_empty q) = z).
  { intros q ((A & B & _) & Lq). unfold wf, set_empty. cbn. repeat split; try lia; assumption. }
  destruct a as [m|]; destruct b as [n|]; repeat match goal with |- context [if ?c then _ else _] => destruct c end; auto.
Qed.

Lemma bbox_pyramid_ok g p : pyr_ok p -> pyr_ok g -> pyr_ok (bbox_pyramid g p).
Proof.
  intros Hp Hg z Hz. destruct (Hp z Hz) as (W & L). destruct (Hg z Hz) as (Wg & Lg). unfold bbox_pyramid.
  destruct (intersect_total (p z) (g z)) as [c Hc]; [congruence|]. rewrite Hc.
  split; [exact (intersect_wf _ _ _ W Wg Hc)|]. rewrite (intersect_level _ _ _ Hc). exact L.
Qed.

Lemma good_filter_zoom a b s : good s -> good (filter_zoom a b s).
Proof. intros G. apply good_filtered; [assumption|]. apply zoom_pyramid_ok. exact (g_cov_wf _ G). Qed.

Lemma good_filter_bbox g s : good s -> pyr_ok g -> good (filter_bbox g s).
Proof. intros G Hg. apply good_filtered; [assumption|]. apply bbox_pyramid_ok; [exact (g_cov_wf _ G) | assumption]. Qed.

(* C09: the filters pass exactly the tiles inside the filter *)
Definition in_zoom (a b : option N) (z : N) : bool :=
  match a with Some m => m <=? z | None => true end && match b with Some m => z <=? m | None => true end.

Theorem filter_zoom_spec a b s c : good s ->
  look (filter_zoom a b s) c = if in_zoom a b (cz c) then look s c else Ok None.
Proof.
  intros G. cbn [filter_zoom filtered look].
  destruct (g_look_ok _ G c) as [o Ho].
  destruct (31 <? cz c) eqn:E31.
  { (* no tile above level 31 *)
    destruct (in_zoom a b (cz c)); [|reflexivity]. rewrite Ho. destruct o as [v|]; [|reflexivity].
    apply (g_look_valid _ G) in Ho. destruct Ho as (Hz & _). lia. }
  unfold zoom_pyramid, in_zoom.
  assert (Hse : forall q, contains3 (set_empty q) (cz c) (cx c) (cy c) = false).
  { intros q. unfold contains3, contains2, set_empty. cbn. lia. }
  assert (Hcov : contains3 (cov s (cz c)) (cz c) (cx c) (cy c) = true \/ o = None).
  { destruct o as [v|]; [left|now right]. apply contains3_spec. split.
    - symmetry. apply (g_cov_wf _ G). lia.
    - eapply g_cov_sound; eauto. }
  destruct a as [m|]; destruct b as [n|]; cbn [andb];
    repeat match goal with |- context [?x <? ?y] => destruct (x <? y) eqn:?
                         | |- context [?x <=? ?y] => destruct (x <=? y) eqn:? end;
    cbn [andb]; rewrite ?Hse; try reflexivity; try lia;
    (destruct Hcov as [-> | ->]; [reflexivity | rewrite Ho; destruct (contains3 _ _ _ _); reflexivity]).
Qed.

Theorem filter_bbox_spec g s c : good s -> pyr_ok g -> cz c <= 31 ->
  look (filter_bbox g s) c = if contains2 (g (cz c)) (cx c) (cy c) then look s c else Ok None.
Proof.
  intros G Hg Hz. cbn [filter_bbox filtered look].
  destruct (31 <? cz c) eqn:E31; [lia|].
  destruct (g_look_ok _ G c) as [o Ho].
  destruct (g_cov_wf _ G (cz c) Hz) as (Wc & Lc). destruct (Hg (cz c) Hz) as (Wg & Lg).
  unfold bbox_pyramid. destruct (intersect_total (cov s (cz c)) (g (cz c))) as [q Hq]; [congruence|]. rewrite Hq.
  pose proof (intersect_spec _ _ _ Hq (cx c) (cy c)) as Sq.
  assert (Lq : level q = cz c) by (rewrite (intersect_level _ _ _ Hq); exact Lc).
  destruct (contains2 (g (cz c)) (cx c) (cy c)) eqn:Eg.
  - apply contains2_spec in Eg. destruct o as [v|].
    + assert (contains3 q (cz c) (cx c) (cy c) = true) as ->; [|reflexivity].
      apply contains3_spec. split; [congruence|]. apply Sq. split; [eapply g_cov_sound; eauto | exact Eg].
    + rewrite Ho. destruct (contains3 q _ _ _); reflexivity.
  - assert (contains3 q (cz c) (cx c) (cy c) = false) as ->; [|reflexivity].
    destruct (contains3 q (cz c) (cx c) (cy c)) eqn:E; [|reflexivity].
    apply contains3_spec in E. destruct E as (_ & E). apply Sq in E. destruct E as (_ & E).
    apply contains2_spec in E. congruence.
Qed.

(* ---------- converter ---------- *)
(* the coordinate transform of a conversion: flip first, then swap; and its inverse *)
Definition T (flip swap : bool) (c : coord) : coord :=
  let m := level_max (cz c) in
  let '(x1, y1) := if flip then (cx c, m - cy c) else (cx c, cy c) in
  if swap then (cz c, y1, x1) else (cz c, x1, y1).
Definition Tinv (flip swap : bool) (c : coord) : coord :=
  let m := level_max (cz c) in
  let '(x1, y1) := if swap then (cy c, cx c) else (cx c, cy c) in
  if flip then (cz c, x1, m - y1) else (cz c, x1, y1).

Lemma T_okc f s c : okc c -> okc (T f s c) /\ cz (T f s c) = cz c.
Proof. destruct c as [[z x] y]. unfold okc, T, cz, cx, cy. cbn [fst snd]. destruct f, s; cbn [fst snd]; lia. Qed.
Lemma Tinv_okc f s c : okc c -> okc (Tinv f s c) /\ cz (Tinv f s c) = cz c.
Proof. destruct c as [[z x] y]. unfold okc, Tinv, cz, cx, cy. cbn [fst snd]. destruct f, s; cbn [fst snd]; lia. Qed.
Lemma Tinv_T f s c : okc c -> Tinv f s (T f s c) = c.
Proof.
  destruct c as [[z x] y]. unfold okc, T, Tinv, cz, cx, cy. cbn [fst snd]. intros H.
  destruct f, s; cbn [fst snd]; f_equal; try f_equal; lia.
Qed.
Lemma T_Tinv f s c : okc c -> T f s (Tinv f s c) = c.
Proof.
  destruct c as [[z x] y]. unfold okc, T, Tinv, cz, cx, cy. cbn [fst snd]. intros H.
  destruct f, s; cbn [fst snd]; f_equal; try f_equal; lia.
Qed.

Lemma tr_fwd_ok f s c : okc c -> tr_fwd f s c = Ok (T f s c).
Proof.
  destruct c as [[z x] y]. unfold okc, tr_fwd, T, coord_flip_y, cz, cx, cy. cbn [fst snd]. intros H.
  destruct f; cbn [obind omap].
  - destruct (level_max z <? y) eqn:E; [lia|]. cbn [obind fst snd]. destruct s; reflexivity.
  - destruct s; reflexivity.
Qed.
Lemma tr_inv_ok f s c : okc c -> tr_inv f s c = Ok (Tinv f s c).
Proof.
  destruct c as [[z x] y]. unfold okc, tr_inv, Tinv, coord_flip_y, cz, cx, cy. cbn [fst snd]. intros H.
  destruct s, f; cbn [fst snd omap obind]; try reflexivity.
  - destruct (level_max z <? x) eqn:E; [lia|]. reflexivity.
  - destruct (level_max z <? y) eqn:E; [lia|]. reflexivity.
Qed.

(* boxes: the inverse box transform denotes the T-preimage *)
Lemma box_inv_spec f s b : wf b ->
  exists b', box_inv f s b = Ok b' /\ wf b' /\ level b' = level b
    /\ forall c, okc c -> cz c = level b -> (In_box b' (cx c) (cy c) <-> In_box b (cx (T f s c)) (cy (T f s c))).
Proof.
  intros Hb. unfold box_inv.
  set (b1 := if s then swap_xy b else b).
  assert (H1 : wf b1 /\ level b1 = level b /\ bmax b1 = bmax b /\ forall x y, In_box b1 x y <-> In_box b (if s then y else x) (if s then x else y)).
  { unfold b1. destruct s.
    - destruct (swap_xy_spec b) as [A B]. split; [auto|]. split; [unfold swap_xy; destruct (is_empty b); reflexivity|].
      split; [unfold swap_xy; destruct (is_empty b); reflexivity | exact A].
    - split; [exact Hb|]. split; [reflexivity|]. split; [reflexivity|]. intros; tauto. }
  destruct H1 as (W1 & L1 & M1 & S1).
  destruct f.
  - destruct (C15_flip_aux b1 W1) as (b' & Hf & W' & Hinv & Himg).
    exists b'. split; [exact Hf|]. split; [exact W'|].
    assert (L' : level b' = level b1).
    { revert Hf. unfold flip_y. destruct (is_empty b1); [intros H; inversion H; reflexivity|].
      destruct (bmax b1 <? y_max b1); [discriminate|]. destruct (bmax b1 <? y_min b1); [discriminate|].
      intros H; inversion H; reflexivity. }
    split; [congruence|].
    intros c (Hz & Hx & Hy) Hl. destruct Hb as (_ & Hm & _).
    assert (Hmc : bmax b1 = level_max (cz c)) by (rewrite M1, Hm, Hl; reflexivity).
    rewrite Himg by (rewrite Hmc; exact Hy). rewrite S1.
    destruct c as [[z x] y]. unfold T, cz, cx, cy in *. cbn [fst snd] in *. rewrite Hmc.
    destruct s; cbn [fst snd]; tauto.
  - exists b1. split; [reflexivity|]. split; [exact W1|]. split; [exact L1|].
    intros c _ _. rewrite S1. destruct c as [[z x] y]. unfold T, cz, cx, cy. cbn [fst snd]. destruct s; cbn [fst snd]; tauto.
Qed.

Lemma flip_level b b' : flip_y b = Ok b' -> level b' = level b /\ bmax b' = bmax b.
Proof.
  unfold flip_y. destruct (is_empty b); [intros H; inversion H; auto|].
  destruct (bmax b <? y_max b); [discriminate|]. destruct (bmax b <? y_min b); [discriminate|].
  intros H; inversion H; auto.
Qed.

Lemma box_fwd_spec f s b : wf b ->
  exists b', box_fwd f s b = Ok b' /\ wf b' /\ level b' = level b
    /\ forall c, okc c -> cz c = level b -> (In_box b' (cx c) (cy c) <-> In_box b (cx (Tinv f s c)) (cy (Tinv f s c))).
Proof.
  intros Hb. unfold box_fwd. pose proof Hb as (_ & Hm & _).
  assert (H1 : exists b1, (if f then flip_y b else Ok b) = Ok b1 /\ wf b1 /\ level b1 = level b
            /\ forall x y, y <= bmax b -> (In_box b1 x y <-> In_box b x (if f then bmax b - y else y))).
  { destruct f.
    - destruct (C15_flip_aux b Hb) as (b1 & Hf & W1 & _ & Himg). exists b1. split; [exact Hf|]. split; [exact W1|].
      split; [apply (flip_level _ _ Hf) | exact Himg].
    - exists b. split; [reflexivity|]. split; [exact Hb|]. split; [reflexivity | intros; tauto]. }
  destruct H1 as (b1 & E1 & W1 & L1 & S1). rewrite E1. cbn [obind].
  eexists. split; [reflexivity|].
  destruct (swap_xy_spec b1) as [A B].
  split; [destruct s; auto|]. split; [destruct s; [unfold swap_xy; destruct (is_empty b1); exact L1 | exact L1]|].
  intros c (Hz & Hx & Hy) Hl.
  assert (Hmc : bmax b = level_max (cz c)) by (rewrite Hm, Hl; reflexivity).
  destruct c as [[z x] y]. unfold Tinv, cz, cx, cy in *. cbn [fst snd] in *.
  destruct s.
  - rewrite A. rewrite S1 by (rewrite Hmc; exact Hx). rewrite Hmc. destruct f; cbn [fst snd]; tauto.
  - rewrite S1 by (rewrite Hmc; exact Hy). rewrite Hmc. destruct f; cbn [fst snd]; tauto.
Qed.

Definition req_ok (req : option (N -> bbox)) : Prop := match req with Some r => pyr_ok r | None => True end.
Definition in_req (req : option (N -> bbox)) (c : coord) : bool :=
  match req with Some r => pyr_contains r c | None => true end.

Lemma out_of_level_spec c : out_of_level c = false <-> okc c.
Proof. unfold out_of_level, okc. lia. Qed.

Theorem converter_lookup_spec f sw req s c :
  look (converter 1 1 1 f sw req s) c =
    if out_of_level c then Ok None else if in_req req c then look s (Tinv f sw c) else Ok None.
Proof.
  cbn [converter look N.eqb Pos.eqb andb].
  destruct (out_of_level c) eqn:E; [reflexivity|]. apply out_of_level_spec in E.
  unfold in_req. destruct req as [r|].
  - destruct (pyr_contains r c); cbn [negb]; [|reflexivity]. now rewrite (tr_inv_ok f sw c E).
  - now rewrite (tr_inv_ok f sw c E).
Qed.

Lemma map_o_ok {A B} (f : A -> outcome B) (g : A -> B) l :
  (forall a, In a l -> f a = Ok (g a)) -> map_o f l = Ok (map g l).
Proof.
  induction l as [|a r IH]; intros H; cbn [map_o map]; [reflexivity|].
  rewrite H by (now left). cbn [obind]. rewrite IH by (intros; apply H; now right). reflexivity.
Qed.

Lemma good_converter f sw req s : good s -> req_ok req -> good (converter 1 1 1 f sw req s).
Proof.
  intros G Hr.
  assert (Hlook : forall c, look (converter 1 1 1 f sw req s) c =
            if out_of_level c then Ok None else if in_req req c then look s (Tinv f sw c) else Ok None)
    by (intros; apply converter_lookup_spec).
  assert (Hcovbox : forall z, z <= 31 -> exists b1, box_fwd f sw (cov s z) = Ok b1 /\ wf b1 /\ level b1 = z
            /\ forall c, okc c -> cz c = z -> (In_box b1 (cx c) (cy c) <-> In_box (cov s z) (cx (Tinv f sw c)) (cy (Tinv f sw c)))).
  { intros z Hz. destruct (g_cov_wf _ G z Hz) as (W & L).
    destruct (box_fwd_spec f sw _ W) as (b1 & E & W1 & L1 & S1). exists b1. rewrite L in *. auto. }
  split.
  - intros c. rewrite Hlook. destruct (out_of_level c); [eauto|]. destruct (in_req req c); [apply (g_look_ok _ G) | eauto].
  - intros c v. rewrite Hlook. destruct (out_of_level c) eqn:E; [discriminate|]. intros _. now apply out_of_level_spec.
  - intros z Hz. cbn [converter cov]. destruct (Hcovbox z Hz) as (b1 & E & W1 & L1 & _). rewrite E.
    destruct req as [r|]; [|auto]. destruct (Hr z Hz) as (Wr & Lr).
    destruct (intersect_total b1 (r z)) as [q Hq]; [congruence|]. rewrite Hq.
    split; [exact (intersect_wf _ _ _ W1 Wr Hq) | rewrite (intersect_level _ _ _ Hq); exact L1].
  - intros c v. rewrite Hlook. destruct (out_of_level c) eqn:E; [discriminate|]. apply out_of_level_spec in E.
    destruct (in_req req c) eqn:Er; [|discriminate]. intros Hl.
    pose proof E as (Hz & _).
    cbn [converter cov]. destruct (Hcovbox (cz c) Hz) as (b1 & Eb & W1 & L1 & S1). rewrite Eb.
    assert (Hin1 : In_box b1 (cx c) (cy c)).
    { apply S1; [exact E | reflexivity|]. pose proof (g_cov_sound _ G _ _ Hl) as Hs.
      destruct (Tinv_okc f sw c E) as (_ & Hzz). rewrite Hzz in Hs. exact Hs. }
    destruct req as [r|]; [|exact Hin1]. destruct (Hr (cz c) Hz) as (Wr & Lr).
    destruct (intersect_total b1 (r (cz c))) as [q Hq]; [congruence|]. rewrite Hq.
    apply (intersect_spec _ _ _ Hq). split; [exact Hin1|].
    unfold in_req, pyr_contains in Er. destruct (31 <? cz c); [discriminate|]. apply contains3_spec in Er. tauto.
  - intros b Hb. cbn [converter strm N.eqb Pos.eqb]. pose proof Hb as (Hl & Hm & _).
    (* restrict to the requested selection *)
    assert (H0 : exists b0, (match req with
                 | Some r => match intersect_bbox b (r (level b)) with Ok b' => b' | _ => set_empty b end
                 | None => b end) = b0 /\ wf b0 /\ level b0 = level b
                 /\ forall c, cz c = level b -> (In_box b0 (cx c) (cy c) <-> In_box b (cx c) (cy c) /\ in_req req c = true)).
    { destruct req as [r|].
      - destruct (Hr (level b) Hl) as (Wr & Lr).
        destruct (intersect_total b (r (level b))) as [q Hq]; [congruence|]. rewrite Hq. exists q. split; [reflexivity|].
        split; [exact (intersect_wf _ _ _ Hb Wr Hq)|]. split; [exact (intersect_level _ _ _ Hq)|].
        intros c Hz. rewrite (intersect_spec _ _ _ Hq). unfold in_req, pyr_contains. rewrite Hz.
        destruct (31 <? level b) eqn:E31; [lia|]. rewrite contains3_spec. rewrite Lr. tauto.
      - exists b. split; [reflexivity|]. split; [exact Hb|]. split; [reflexivity|]. intros; cbn; tauto. }
    destruct H0 as (b0 & -> & W0 & L0 & S0).
    destruct (box_inv_spec f sw b0 W0) as (b' & Eb' & W' & L' & S').
    rewrite Eb'. destruct (g_stream _ G b' W') as (l & Hs & Hnd & Hin). rewrite Hs. cbn [obind].
    assert (Hall : forall t, In t l -> okc (fst t)).
    { intros [c v] Ht. apply Hin in Ht. destruct Ht as (_ & _ & Hlk). exact (g_look_valid _ G _ _ Hlk). }
    rewrite (map_o_ok _ (fun t => (T f sw (fst t), snd t))).
    2:{ intros t Ht. rewrite (tr_fwd_ok f sw _ (Hall t Ht)). reflexivity. }
    eexists. split; [reflexivity|]. split.
    + (* distinct coordinates: T is injective on valid coordinates *)
      rewrite map_map. cbn [fst].
      assert (Hinj : forall t1 t2, In t1 l -> In t2 l -> T f sw (fst t1) = T f sw (fst t2) -> fst t1 = fst t2).
      { intros t1 t2 H1 H2 E. rewrite <- (Tinv_T f sw (fst t1)) by (now apply Hall).
        rewrite <- (Tinv_T f sw (fst t2)) by (now apply Hall). now rewrite E. }
      clear - Hnd Hinj. induction l as [|t r IH]; cbn [map]; [constructor|].
      inversion Hnd as [|? ? Hn Hr]; subst. constructor.
      * intros Hc. apply in_map_iff in Hc. destruct Hc as (t' & E & Ht'). apply Hn.
        apply in_map_iff. exists t'. split; [|exact Ht']. symmetry. apply Hinj; [now left | now right | now symmetry].
      * apply IH; [exact Hr|]. intros t1 t2 H1 H2. apply Hinj; now right.
    + intros c v. rewrite in_map_iff. rewrite Hlook. split.
      * intros ([c0 v0] & E & Ht). inversion E; subst; clear E. cbn [fst snd] in *.
        pose proof (Hall _ Ht) as Hok0. cbn [fst] in Hok0.
        apply Hin in Ht. destruct Ht as (Hz0 & Hb0 & Hlk0).
        destruct (T_okc f sw c0 Hok0) as (HokT & HzT).
        assert (Hz0' : cz c0 = level b0) by congruence.
        apply (S' c0 Hok0 Hz0') in Hb0.
        assert (HzT' : cz (T f sw c0) = level b) by congruence.
        apply (S0 _ HzT') in Hb0. destruct Hb0 as (HbT & HrT).
        split; [exact HzT'|]. split; [exact HbT|].
        rewrite (proj2 (out_of_level_spec _) HokT), HrT, (Tinv_T f sw c0 Hok0). exact Hlk0.
      * intros (Hz & Hbx & Hlk). destruct (out_of_level c) eqn:E; [discriminate|]. apply out_of_level_spec in E.
        destruct (in_req req c) eqn:Er; [|discriminate].
        destruct (Tinv_okc f sw c E) as (Hoki & Hzi).
        exists (Tinv f sw c, v). cbn [fst snd]. split; [now rewrite (T_Tinv f sw c E)|].
        apply Hin. split; [congruence|]. split; [|exact Hlk].
        apply (S' _ Hoki); [congruence|]. rewrite (T_Tinv f sw c E). apply S0; [exact Hz | tauto].
Qed.
