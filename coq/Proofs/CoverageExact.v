(* C03: the coverage a reader derives from its stored tiles by folding include_coord over them
   (tar, directory, PMTiles scan, Model/Pipeline.v leaf_cov) is the LEAST box containing the
   level's tiles - with leaf_cov_inv (it contains them) that is: exactly their bounding box. *)
From Coq Require Import List NArith Lia Bool.
From VT Require Import Base.Outcome Model.BBox Proofs.BBoxProofs Model.Pipeline Proofs.PipelineProofs.
Import ListNotations.
Local Open Scope N_scope.

Lemma leaf_cov_least_acc tiles z d : z <= 31 -> tiles_ok tiles ->
  (forall t, In t tiles -> cz (fst t) = z -> In_box d (cx (fst t)) (cy (fst t))) ->
  forall acc, wf acc -> level acc = z -> (forall u v, In_box acc u v -> In_box d u v) ->
  forall u v, In_box (fold_left (fun b t => if cz (fst t) =? z then include_coord b (cx (fst t)) (cy (fst t)) else b) tiles acc) u v -> In_box d u v.
Proof.
  intros Hz. unfold tiles_ok. induction tiles as [|t r IH]; intros Hok Hd acc Hwf Hl Hsub u v; cbn [fold_left]; [apply Hsub|].
  inversion Hok as [|? ? Ht Hr]; subst.
  apply (IH Hr (fun t0 Hin => Hd t0 (or_intror Hin))).
  - destruct (N.eqb_spec (cz (fst t)) (level acc)) as [E|E]; [|exact Hwf].
    destruct Ht as (T1 & T2 & T3). pose proof Hwf as (_ & Hm & _).
    assert (X : cx (fst t) <= bmax acc) by (rewrite Hm, <- E; exact T2).
    assert (Y : cy (fst t) <= bmax acc) by (rewrite Hm, <- E; exact T3).
    exact (proj1 (proj2 (proj2 (proj2 (include_coord_spec acc _ _ Hwf X Y))))).
  - destruct (cz (fst t) =? level acc); [|reflexivity]. unfold include_coord. destruct (is_empty acc); reflexivity.
  - destruct (N.eqb_spec (cz (fst t)) (level acc)) as [E|E]; [|exact Hsub].
    destruct Ht as (T1 & T2 & T3). pose proof Hwf as (_ & Hm & _).
    assert (X : cx (fst t) <= bmax acc) by (rewrite Hm, <- E; exact T2).
    assert (Y : cy (fst t) <= bmax acc) by (rewrite Hm, <- E; exact T3).
    destruct (include_coord_spec acc _ _ Hwf X Y) as (_ & _ & Hleast & _).
    intros u' v'. apply Hleast; [apply (Hd t (or_introl eq_refl) E)|exact Hsub].
Qed.

Theorem leaf_cov_least tiles z d : z <= 31 -> tiles_ok tiles ->
  (forall t, In t tiles -> cz (fst t) = z -> In_box d (cx (fst t)) (cy (fst t))) ->
  forall u v, In_box (leaf_cov tiles z) u v -> In_box d u v.
Proof.
  intros Hz Hok Hd. unfold leaf_cov. destruct (level_empty_box z) as (L & E & W).
  apply (leaf_cov_least_acc tiles z d Hz Hok Hd (empty_box z) (W Hz) L).
  intros u v H. exfalso. exact (proj1 (empty_spec (empty_box z)) E u v H).
Qed.
