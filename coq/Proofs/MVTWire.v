(* C10 / C11: the wire format.  Decoding what to_blob writes gives back the tile: every layer with
   its name, extent, version, key and value tables as stored, every feature with id, type, geometry
   bytes and tag list. *)
From Coq Require Import List NArith ZArith Bool Lia Arith.
From VT Require Import Model.MVT Proofs.MVTProofs.
Import ListNotations.
Local Open Scope N_scope.

(* ---------- one field ---------- *)
Lemma key_lt num wt : num < 4294967296 -> wt < 8 -> num * 8 + wt < two64.
Proof. unfold two64. lia. Qed.

Lemma key_split num wt : wt < 8 -> (num * 8 + wt) / 8 = num /\ (num * 8 + wt) mod 8 = wt.
Proof.
  intros H. split.
  - rewrite N.add_comm, N.div_add by lia. rewrite N.div_small by lia. lia.
  - rewrite N.add_comm, N.mod_add by lia. apply N.mod_small; lia.
Qed.

Lemma take_app n (b rest : bytes) : N.of_nat (length b) = n -> take n (b ++ rest) = Some (b, rest).
Proof.
  intros <-. unfold take. rewrite app_length. replace (N.of_nat (length b + length rest) <? N.of_nat (length b)) with false by (symmetry; apply N.ltb_ge; lia).
  rewrite Nat2N.id, firstn_app, Nat.sub_diag, firstn_all, skipn_app, Nat.sub_diag, skipn_all. cbn. rewrite !app_nil_r. reflexivity.
Qed.

Lemma read_var num v rest : num < 4294967296 -> v < two64 ->
  read_field (key num 0 ++ write_varint v ++ rest) = Some (FVar num v, rest).
Proof.
  intros Hn Hv. unfold read_field, key. rewrite varint_roundtrip by (apply key_lt; lia).
  destruct (key_split num 0 ltac:(lia)) as [E1 E2]. rewrite E1, E2, (N.mod_small num) by lia. cbn [N.eqb].
  rewrite varint_roundtrip by exact Hv. reflexivity.
Qed.

Lemma read_len num b rest : num < 4294967296 -> N.of_nat (length b) < two64 ->
  read_field (len_delim num b ++ rest) = Some (FLen num b, rest).
Proof.
  intros Hn Hb. unfold read_field, len_delim, key. rewrite <- !app_assoc. rewrite varint_roundtrip by (apply key_lt; lia).
  destruct (key_split num 2 ltac:(lia)) as [E1 E2]. rewrite E1, E2, (N.mod_small num) by lia. cbn [N.eqb Pos.eqb].
  rewrite varint_roundtrip by exact Hb. rewrite take_app by reflexivity. reflexivity.
Qed.

Lemma le_bytes_length n v : length (le_bytes n v) = n.
Proof. revert v; induction n as [|n IH]; intros v; [reflexivity|]. cbn. f_equal. apply IH. Qed.

Lemma le_val_bytes n : forall v, v < 256 ^ N.of_nat n -> le_val (le_bytes n v) = v.
Proof.
  induction n as [|n IH]; intros v Hv.
  - cbn in *. lia.
  - cbn [le_bytes le_val fold_right]. fold (le_val (le_bytes n (v / 256))). rewrite IH.
    + pose proof (N.div_mod v 256 ltac:(lia)). lia.
    + rewrite Nat2N.inj_succ, N.pow_succ_r' in Hv. apply N.div_lt_upper_bound; lia.
Qed.

Lemma read_f32 num b rest : num < 4294967296 -> length b = 4%nat ->
  read_field (key num 5 ++ b ++ rest) = Some (F32 num b, rest).
Proof.
  intros Hn Hb. unfold read_field, key. rewrite varint_roundtrip by (apply key_lt; lia).
  destruct (key_split num 5 ltac:(lia)) as [E1 E2]. rewrite E1, E2, (N.mod_small num) by lia. cbn [N.eqb Pos.eqb].
  rewrite take_app by (rewrite Hb; reflexivity). reflexivity.
Qed.

Lemma read_f64 num b rest : num < 4294967296 -> length b = 8%nat ->
  read_field (key num 1 ++ b ++ rest) = Some (F64 num b, rest).
Proof.
  intros Hn Hb. unfold read_field, key. rewrite varint_roundtrip by (apply key_lt; lia).
  destruct (key_split num 1 ltac:(lia)) as [E1 E2]. rewrite E1, E2, (N.mod_small num) by lia. cbn [N.eqb Pos.eqb].
  rewrite take_app by (rewrite Hb; reflexivity). reflexivity.
Qed.

Lemma read_var_nil num v : num < 4294967296 -> v < two64 -> read_field (key num 0 ++ write_varint v) = Some (FVar num v, []).
Proof. intros Hn Hv. pose proof (read_var num v [] Hn Hv) as H. rewrite app_nil_r in H. exact H. Qed.
Lemma read_len_nil num b : num < 4294967296 -> N.of_nat (length b) < two64 -> read_field (len_delim num b) = Some (FLen num b, []).
Proof. intros Hn Hb. pose proof (read_len num b [] Hn Hb) as H. rewrite app_nil_r in H. exact H. Qed.
Lemma read_f32_nil num b : num < 4294967296 -> length b = 4%nat -> read_field (key num 5 ++ b) = Some (F32 num b, []).
Proof. intros Hn Hb. pose proof (read_f32 num b [] Hn Hb) as H. rewrite app_nil_r in H. exact H. Qed.
Lemma read_f64_nil num b : num < 4294967296 -> length b = 8%nat -> read_field (key num 1 ++ b) = Some (F64 num b, []).
Proof. intros Hn Hb. pose proof (read_f64 num b [] Hn Hb) as H. rewrite app_nil_r in H. exact H. Qed.

(* ---------- field sequences ---------- *)
(* a byte string that decodes to one field followed by a string that decodes to more *)
Lemma read_fields_cons l rest fs fuel x :
  l <> [] -> read_field (l ++ rest) = Some (x, rest) -> read_fields fuel rest = Some fs ->
  read_fields (S fuel) (l ++ rest) = Some (x :: fs).
Proof.
  intros Hne Hr Hfs. destruct l as [|c l']; [congruence|]. cbn [app read_fields]. cbn [app] in Hr. rewrite Hr, Hfs. reflexivity.
Qed.

Lemma read_fields_mono fuel : forall l fs, read_fields fuel l = Some fs -> forall fuel', (fuel <= fuel')%nat -> read_fields fuel' l = Some fs.
Proof.
  induction fuel as [|f IH]; intros l fs H fuel' Hle.
  - destruct l; [destruct fuel'; exact H|discriminate].
  - destruct fuel' as [|f']; [lia|]. destruct l as [|c l']; [exact H|]. cbn [read_fields] in *.
    destruct (read_field (c :: l')) as [[x r]|]; [|discriminate].
    destruct (read_fields f r) as [xs|] eqn:E; [|discriminate]. rewrite (IH r xs E f') by lia. exact H.
Qed.

Lemma write_varint_nonempty v : write_varint v <> [].
Proof. unfold write_varint. cbn [write_varint_go]. destruct (v <? 128); discriminate. Qed.

Lemma key_nonempty num wt rest : key num wt ++ rest <> [].
Proof. unfold key. pose proof (write_varint_nonempty (num * 8 + wt)). destruct (write_varint (num * 8 + wt)); [congruence|discriminate]. Qed.

(* ---------- values ---------- *)
Definition value_ok (v : value) : Prop :=
  match v with
  | VStr s => N.of_nat (length s) < two64
  | VFloat b => b < 4294967296
  | VDouble b => b < two64
  | VUInt n => n < two64
  | VInt z => (- 9223372036854775808 <= z < 9223372036854775808)%Z
  | VBool _ => True
  end.

Lemma read_fields_single l x fuel : l <> [] -> read_field l = Some (x, []) -> read_fields (S fuel) l = Some [x].
Proof. intros Hne Hr. destruct l as [|c l']; [congruence|]. cbn [read_fields]. rewrite Hr. destruct fuel; reflexivity. Qed.

Lemma len_delim_nonempty num b : len_delim num b <> [].
Proof. unfold len_delim. apply key_nonempty. Qed.

Lemma encode_value_nonempty v : encode_value v <> [].
Proof. destruct v; cbn [encode_value]; try apply key_nonempty; apply len_delim_nonempty. Qed.

Lemma decode_value_via v f : read_field (encode_value v) = Some (f, []) -> value_of_field 1 f = Some v ->
  decode_value 1 (encode_value v) = Some v.
Proof.
  intros Hr Hf. unfold decode_value. rewrite (read_fields_single _ f _ (encode_value_nonempty v) Hr).
  cbn [map all_some]. rewrite Hf. reflexivity.
Qed.

Lemma decode_encode_value v : value_ok v -> decode_value 1 (encode_value v) = Some v.
Proof.
  intros Hv. destruct v as [s|b|b|z|n|b]; cbn [value_ok] in Hv.
  - apply (decode_value_via _ (FLen 1 s)); [|reflexivity].
    cbn [encode_value]. apply read_len_nil; [lia|exact Hv].
  - apply (decode_value_via _ (F32 2 (le_bytes 4 b))).
    + cbn [encode_value]. apply read_f32_nil; [lia|apply le_bytes_length].
    + cbn [value_of_field]. rewrite le_val_bytes by (change (256 ^ N.of_nat 4) with 4294967296; exact Hv). reflexivity.
  - apply (decode_value_via _ (F64 3 (le_bytes 8 b))).
    + cbn [encode_value]. apply read_f64_nil; [lia|apply le_bytes_length].
    + cbn [value_of_field]. rewrite le_val_bytes by (change (256 ^ N.of_nat 8) with two64; exact Hv). reflexivity.
  - apply (decode_value_via _ (FVar 6 (zz_enc z))).
    + cbn [encode_value]. apply read_var_nil; [lia|apply zigzag_range; exact Hv].
    + cbn [value_of_field]. rewrite zigzag_roundtrip by exact Hv. reflexivity.
  - apply (decode_value_via _ (FVar 5 n)); [|reflexivity].
    cbn [encode_value]. apply read_var_nil; [lia|exact Hv].
  - apply (decode_value_via _ (FVar 7 (if b then 1 else 0))).
    + cbn [encode_value]. apply read_var_nil; [lia|destruct b; unfold two64; lia].
    + cbn [value_of_field]. destruct b; reflexivity.
Qed.

(* ---------- sequences of encoded fields ---------- *)
Definition enc1 (x : field) (e : bytes) : Prop := e <> [] /\ forall rest, read_field (e ++ rest) = Some (x, rest).

Lemma enc1_var num v : num < 4294967296 -> v < two64 -> enc1 (FVar num v) (key num 0 ++ write_varint v).
Proof. intros Hn Hv. split; [apply key_nonempty|]. intros rest. rewrite <- app_assoc. apply read_var; assumption. Qed.
Lemma enc1_len num b : num < 4294967296 -> N.of_nat (length b) < two64 -> enc1 (FLen num b) (len_delim num b).
Proof. intros Hn Hb. split; [apply len_delim_nonempty|]. intros rest. apply read_len; assumption. Qed.

Lemma read_fields_concat xs : forall es fuel, Forall2 enc1 xs es -> (length es <= fuel)%nat -> read_fields fuel (concat es) = Some xs.
Proof.
  induction xs as [|x xs IH]; intros es fuel H Hf; inversion H as [|? e ? es' [Hne Hr] Hrest]; subst.
  - destruct fuel; reflexivity.
  - destruct fuel as [|f]; [cbn in Hf; lia|]. cbn [concat].
    apply read_fields_cons; [exact Hne|apply Hr|apply IH; [exact Hrest|cbn in Hf; lia]].
Qed.

Lemma concat_length_ge (es : list bytes) : Forall (fun e => e <> []) es -> (length es <= length (concat es))%nat.
Proof.
  induction 1 as [|e es He _ IH]; [cbn; lia|]. cbn [concat length]. rewrite app_length. destruct e; [congruence|cbn; lia].
Qed.

Lemma read_fields_of xs es : Forall2 enc1 xs es -> read_fields (S (length (concat es))) (concat es) = Some xs.
Proof.
  intros H. apply read_fields_concat; [exact H|].
  assert (Forall (fun e => e <> []) es) by (clear -H; induction H as [|x e xs es [Hne _] _ IH]; constructor; assumption).
  pose proof (concat_length_ge es H0). lia.
Qed.

(* ---------- packed tags ---------- *)
Lemma read_packed_spec t : forall fuel, Forall (fun v => v < 4294967296) t -> (length t <= fuel)%nat ->
  read_packed fuel (flat_map write_varint t) = Some t.
Proof.
  induction t as [|v t IH]; intros fuel Hall Hf; [destruct fuel; reflexivity|].
  inversion Hall as [|? ? Hv Ht]; subst. destruct fuel as [|f]; [cbn in Hf; lia|].
  cbn [flat_map]. destruct (write_varint v ++ flat_map write_varint t) as [|c l] eqn:E.
  { pose proof (write_varint_nonempty v). destruct (write_varint v); [congruence|discriminate]. }
  cbn [read_packed]. rewrite <- E. rewrite varint_roundtrip by (unfold two64; lia). rewrite IH by (try exact Ht; cbn in Hf; lia).
  rewrite N.mod_small by exact Hv. reflexivity.
Qed.

Lemma flat_varint_length t : (length t <= length (flat_map write_varint t))%nat.
Proof.
  induction t as [|v t IH]; [cbn; lia|]. cbn [flat_map length]. rewrite app_length.
  pose proof (write_varint_nonempty v). destruct (write_varint v); [congruence|cbn; lia].
Qed.

(* ---------- features ---------- *)
Definition feature_ok (f : feature) : Prop :=
  (match fid f with Some i => i < two64 | None => True end) /\
  Forall (fun v => v < 4294967296) (ftags f) /\ N.of_nat (length (flat_map write_varint (ftags f))) < two64 /\
  ftype f <= 3 /\ N.of_nat (length (fgeom f)) < two64.

Lemma decode_encode_feature f : feature_ok f -> decode_feature (encode_feature f) = Some f.
Proof.
  intros (Hid & Htags & Htl & Hty & Hg). unfold decode_feature, encode_feature.
  set (e1 := match fid f with Some i => [key 1 0 ++ write_varint i] | None => [] end).
  set (e2 := match ftags f with [] => [] | t => [len_delim 2 (flat_map write_varint t)] end).
  set (e3 := [key 3 0 ++ write_varint (ftype f)]).
  set (e4 := match fgeom f with [] => [] | g => [len_delim 4 g] end).
  set (x1 := match fid f with Some i => [FVar 1 i] | None => [] end).
  set (x2 := match ftags f with [] => [] | t => [FLen 2 (flat_map write_varint t)] end).
  set (x3 := [FVar 3 (ftype f)]).
  set (x4 := match fgeom f with [] => [] | g => [FLen 4 g] end).
  assert (Ebytes : (match fid f with Some i => key 1 0 ++ write_varint i | None => [] end) ++
                   (match ftags f with [] => [] | t => len_delim 2 (flat_map write_varint t) end) ++
                   key 3 0 ++ write_varint (ftype f) ++ (match fgeom f with [] => [] | g => len_delim 4 g end)
                   = concat (e1 ++ e2 ++ e3 ++ e4)).
  { unfold e1, e2, e3, e4. destruct (fid f), (ftags f), (fgeom f); cbn [concat app]; rewrite ?app_nil_r, <- ?app_assoc; reflexivity. }
  rewrite Ebytes.
  assert (HF : Forall2 enc1 (x1 ++ x2 ++ x3 ++ x4) (e1 ++ e2 ++ e3 ++ e4)).
  { repeat apply Forall2_app.
    - unfold x1, e1. destruct (fid f); constructor; [apply enc1_var; [lia|exact Hid]|constructor].
    - unfold x2, e2. destruct (ftags f); constructor; [apply enc1_len; [lia|exact Htl]|constructor].
    - constructor; [apply enc1_var; [lia|unfold two64; lia]|constructor].
    - unfold x4, e4. destruct (fgeom f); constructor; [apply enc1_len; [lia|exact Hg]|constructor]. }
  rewrite (read_fields_of _ _ HF).
  unfold x1, x2, x3, x4. destruct f as [fi ft fty fg]. cbn [fid ftags ftype fgeom] in *.
  assert (Hgt : geom_type_of fty = fty).
  { unfold geom_type_of. destruct ((1 <=? fty) && (fty <=? 3)) eqn:E; [reflexivity|].
    apply andb_false_iff in E as [E|E]; [apply N.leb_gt in E; lia|apply N.leb_gt in E; lia]. }
  assert (Hp : forall t, t = ft -> t <> [] -> read_packed (S (length (flat_map write_varint t))) (flat_map write_varint t) = Some t).
  { intros t -> _. apply read_packed_spec; [exact Htags|]. pose proof (flat_varint_length ft). lia. }
  destruct fi as [i|]; destruct ft as [|t0 ft']; destruct fg as [|g0 fg']; cbn [app feature_fields fid ftags ftype fgeom];
    rewrite ?(Hp _ eq_refl ltac:(discriminate)), ?Hgt; reflexivity.
Qed.

(* ---------- layers ---------- *)
Definition layer_ok (l : layer) : Prop :=
  N.of_nat (length (lname l)) < two64 /\
  Forall (fun f => feature_ok f /\ N.of_nat (length (encode_feature f)) < two64) (lfeatures l) /\
  Forall (fun k => N.of_nat (length k) < two64) (lkeys l) /\
  Forall (fun v => value_ok v /\ N.of_nat (length (encode_value v)) < two64) (lvals l) /\
  lextent l < 4294967296 /\ lversion l < 4294967296.

Definition with_feats (a : layer) (fs : list feature) := mkL (lname a) (lextent a) (lversion a) (lkeys a) (lvals a) (lfeatures a ++ fs).
Definition with_keys (a : layer) (ks : list bytes) := mkL (lname a) (lextent a) (lversion a) (lkeys a ++ ks) (lvals a) (lfeatures a).
Definition with_vals (a : layer) (vs : list value) := mkL (lname a) (lextent a) (lversion a) (lkeys a) (lvals a ++ vs) (lfeatures a).

Lemma lf_feats fs : forall acc name rest, Forall (fun f => decode_feature (encode_feature f) = Some f) fs ->
  layer_fields 1 1 (map (fun f => FLen 2 (encode_feature f)) fs ++ rest) acc name = layer_fields 1 1 rest (with_feats acc fs) name.
Proof.
  induction fs as [|f fs IH]; intros acc name rest H.
  - cbn [map app]. unfold with_feats. rewrite app_nil_r. destruct acc; reflexivity.
  - inversion H as [|? ? Hf Hfs]; subst. cbn [map app layer_fields]. rewrite Hf, IH by exact Hfs.
    unfold with_feats. cbn [lname lextent lversion lkeys lvals lfeatures]. rewrite <- app_assoc. reflexivity.
Qed.

Lemma lf_keys ks : forall acc name rest,
  layer_fields 1 1 (map (FLen 3) ks ++ rest) acc name = layer_fields 1 1 rest (with_keys acc ks) name.
Proof.
  induction ks as [|k ks IH]; intros acc name rest.
  - cbn [map app]. unfold with_keys. rewrite app_nil_r. destruct acc; reflexivity.
  - cbn [map app layer_fields]. rewrite IH. unfold with_keys, push_table. cbn [N.eqb andb lname lextent lversion lkeys lvals lfeatures].
    rewrite <- app_assoc. reflexivity.
Qed.

Lemma lf_vals vs : forall acc name rest, Forall (fun v => decode_value 1 (encode_value v) = Some v) vs ->
  layer_fields 1 1 (map (fun v => FLen 4 (encode_value v)) vs ++ rest) acc name = layer_fields 1 1 rest (with_vals acc vs) name.
Proof.
  induction vs as [|v vs IH]; intros acc name rest H.
  - cbn [map app]. unfold with_vals. rewrite app_nil_r. destruct acc; reflexivity.
  - inversion H as [|? ? Hv Hvs]; subst. cbn [map app layer_fields]. rewrite Hv, IH by exact Hvs.
    unfold with_vals, push_table. cbn [N.eqb andb lname lextent lversion lkeys lvals lfeatures]. rewrite <- app_assoc. reflexivity.
Qed.

Lemma Forall2_map_enc {A} (g : A -> field) (h : A -> bytes) (P : A -> Prop) l :
  (forall a, P a -> enc1 (g a) (h a)) -> Forall P l -> Forall2 enc1 (map g l) (map h l).
Proof. intros H HP. induction HP as [|a l Ha _ IH]; cbn; constructor; [apply H; exact Ha|exact IH]. Qed.

Lemma decode_encode_layer l : layer_ok l -> decode_layer 1 1 (encode_layer l) = Some l.
Proof.
  intros (Hn & Hf & Hk & Hv & He & Hver). unfold decode_layer, encode_layer.
  set (e5 := if lextent l =? 4096 then [] else [key 5 0 ++ write_varint (lextent l)]).
  set (e15 := if lversion l =? 1 then [] else [key 15 0 ++ write_varint (lversion l)]).
  set (x5 := if lextent l =? 4096 then [] else [FVar 5 (lextent l)]).
  set (x15 := if lversion l =? 1 then [] else [FVar 15 (lversion l)]).
  set (es := [len_delim 1 (lname l)] ++ map (fun f => len_delim 2 (encode_feature f)) (lfeatures l) ++ map (len_delim 3) (lkeys l)
             ++ map (fun v => len_delim 4 (encode_value v)) (lvals l) ++ e5 ++ e15).
  set (xs := [FLen 1 (lname l)] ++ map (fun f => FLen 2 (encode_feature f)) (lfeatures l) ++ map (FLen 3) (lkeys l)
             ++ map (fun v => FLen 4 (encode_value v)) (lvals l) ++ x5 ++ x15).
  assert (Ebytes : len_delim 1 (lname l) ++ flat_map (fun f => len_delim 2 (encode_feature f)) (lfeatures l) ++
                   flat_map (len_delim 3) (lkeys l) ++ flat_map (fun v => len_delim 4 (encode_value v)) (lvals l) ++
                   (if lextent l =? 4096 then [] else key 5 0 ++ write_varint (lextent l)) ++
                   (if lversion l =? 1 then [] else key 15 0 ++ write_varint (lversion l)) = concat es).
  { unfold es, e5, e15. rewrite !concat_app, !flat_map_concat_map. cbn [concat]. rewrite app_nil_r.
    destruct (lextent l =? 4096), (lversion l =? 1); cbn [concat]; rewrite ?app_nil_r; reflexivity. }
  rewrite Ebytes.
  assert (HF : Forall2 enc1 xs es).
  { unfold xs, es. repeat apply Forall2_app.
    - constructor; [apply enc1_len; [lia|exact Hn]|constructor].
    - apply (Forall2_map_enc _ _ _ _ (fun f H => enc1_len 2 (encode_feature f) ltac:(lia) (proj2 H)) Hf).
    - apply (Forall2_map_enc _ _ _ _ (fun k H => enc1_len 3 k ltac:(lia) H) Hk).
    - apply (Forall2_map_enc _ _ _ _ (fun v H => enc1_len 4 (encode_value v) ltac:(lia) (proj2 H)) Hv).
    - unfold x5, e5. destruct (lextent l =? 4096); constructor; [apply enc1_var; [lia|unfold two64; lia]|constructor].
    - unfold x15, e15. destruct (lversion l =? 1); constructor; [apply enc1_var; [lia|unfold two64; lia]|constructor]. }
  rewrite (read_fields_of _ _ HF). unfold xs. cbn [app layer_fields].
  rewrite lf_feats by (eapply Forall_impl; [|exact Hf]; intros f [H _]; apply decode_encode_feature; exact H).
  rewrite lf_keys.
  rewrite lf_vals by (eapply Forall_impl; [|exact Hv]; intros v [H _]; apply decode_encode_value; exact H).
  unfold x5, x15, with_vals, with_keys, with_feats. cbn [lname lextent lversion lkeys lvals lfeatures app].
  destruct l as [n ex ver ks vs fs]. cbn [lname lextent lversion lkeys lvals lfeatures] in *.
  destruct (N.eqb_spec ex 4096) as [->|Hex]; destruct (N.eqb_spec ver 1) as [->|Hv1]; cbn [app layer_fields lname lextent lversion lkeys lvals lfeatures];
    rewrite ?(N.mod_small ex) by exact He; rewrite ?(N.mod_small ver) by exact Hver; reflexivity.
Qed.

(* ---------- tiles ---------- *)
Definition tile_ok (ls : list layer) : Prop := Forall (fun l => layer_ok l /\ N.of_nat (length (encode_layer l)) < two64) ls.

Theorem decode_encode_tile ls : tile_ok ls -> decode_tile 1 1 (encode_tile ls) = Some ls.
Proof.
  intros H. unfold decode_tile, encode_tile. rewrite flat_map_concat_map.
  assert (HF : Forall2 enc1 (map (fun l => FLen 3 (encode_layer l)) ls) (map (fun l => len_delim 3 (encode_layer l)) ls)).
  { apply (Forall2_map_enc _ _ _ _ (fun l Hl => enc1_len 3 (encode_layer l) ltac:(lia) (proj2 Hl)) H). }
  pose proof (read_fields_of _ _ HF) as R.
  match goal with |- match ?t with _ => _ end = _ => replace t with (Some (map (fun l : layer => FLen 3 (encode_layer l)) ls)) by (symmetry; exact R) end.
  clear R HF.
  induction H as [|l ls [Hl _] _ IH]; [reflexivity|]. cbn [map tile_fields]. rewrite (decode_encode_layer l Hl).
  rewrite IH. reflexivity.
Qed.
