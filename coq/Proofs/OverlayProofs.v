(* from_overlayed: lookups return the first source that has a tile; the 32-grid slot-filling
   stream delivers exactly those tiles (C08), for any number of sources, coverages and boxes. *)
From Coq Require Import List NArith ZArith Bool Lia ZifyBool ZifyN Permutation Arith.
From VT Require Import Base.Outcome Model.BBox Model.Pipeline Proofs.BBoxProofs Proofs.PipelineProofs.
Import ListNotations.
Local Open Scope N_scope.

Definition lookv (s : source) (c : coord) : option N := match look s c with Ok o => o | _ => None end.
Fixpoint fsv (ss : list source) (c : coord) : option N :=
  match ss with [] => None | s :: r => match lookv s c with Some v => Some v | None => fsv r c end end.

Lemma look_lookv s c : good s -> look s c = Ok (lookv s c).
Proof. intros G. unfold lookv. destruct (g_look_ok _ G c) as [o ->]. reflexivity. Qed.

Lemma first_some_good ss c : Forall good ss -> first_some ss c = Ok (fsv ss c).
Proof.
  induction 1 as [|s r G _ IH]; cbn [first_some fsv]; [reflexivity|].
  rewrite (look_lookv s c G). cbn [obind]. destruct (lookv s c); [reflexivity | exact IH].
Qed.

Lemma fsv_app a b c : fsv (a ++ b) c = match fsv a c with Some v => Some v | None => fsv b c end.
Proof. induction a as [|s r IH]; cbn [app fsv]; [reflexivity|]. destruct (lookv s c); [reflexivity | exact IH]. Qed.

Lemma fsv_valid ss c v : Forall good ss -> fsv ss c = Some v -> okc c.
Proof.
  induction 1 as [|s r G _ IH]; cbn [fsv]; [discriminate|].
  destruct (lookv s c) eqn:E; [|exact IH]. intros _.
  apply (g_look_valid _ G c n). rewrite (look_lookv s c G), E. reflexivity.
Qed.

(* ---------- list helpers ---------- *)
Lemma set_nth_length {A} i (v : A) l : length (set_nth i v l) = length l.
Proof. revert i. induction l as [|a r IH]; intros [|j]; cbn [set_nth length]; auto. Qed.

Lemma nth_error_set_nth {A} i j (v : A) l : (i < length l)%nat ->
  nth_error (set_nth i v l) j = if Nat.eqb i j then Some v else nth_error l j.
Proof.
  revert i j. induction l as [|a r IH]; intros i j Hi; [cbn in Hi; lia|].
  destruct i as [|i']; destruct j as [|j']; cbn [set_nth nth_error Nat.eqb]; try reflexivity.
  apply IH. cbn in Hi. lia.
Qed.

Lemma nth_error_repeat {A} (a : A) n i : (i < n)%nat -> nth_error (repeat a n) i = Some a.
Proof. revert i. induction n as [|k IH]; intros [|j] H; cbn [repeat nth_error]; try lia; [reflexivity | apply IH; lia]. Qed.

(* ---------- one grid cell ---------- *)
Section Cell.
  Variable cell : bbox.
  Hypothesis Hwf : wf cell.
  Hypothesis Hne : is_empty cell = false.
  Let n := count_tiles cell.

  Definition cxy (i : N) : N * N := match get_coord_by_index 1 cell i with Ok p => p | _ => (0, 0) end.
  Definition cidx (i : N) : coord := (level cell, fst (cxy i), snd (cxy i)).

  Lemma cxy_spec i : i < n ->
    get_coord_by_index 1 cell i = Ok (cxy i) /\ In_box cell (fst (cxy i)) (snd (cxy i))
    /\ get_tile_index 1 cell (fst (cxy i)) (snd (cxy i)) = Ok i.
  Proof.
    intros Hi. destruct (index_inverse_2 cell i Hi) as (x & y & E & Hin & Hix).
    unfold cxy. rewrite E. cbn [fst snd]. auto.
  Qed.

  Lemma index_of_member x y : In_box cell x y ->
    exists i, get_tile_index 1 cell x y = Ok i /\ i < n /\ cxy i = (x, y).
  Proof.
    intros Hin.
    assert (E : exists i, get_tile_index 1 cell x y = Ok i).
    { unfold get_tile_index. rewrite (proj2 (contains2_spec cell x y) Hin). cbn [negb N.eqb Pos.eqb]. eexists; reflexivity. }
    destruct E as [i E]. exists i. split; [exact E|].
    destruct (index_inverse_1 cell x y i Hwf Hin E) as (Hlt & Hc).
    split; [exact Hlt|]. unfold cxy. rewrite Hc. reflexivity.
  Qed.

  Lemma cxy_inj i j : i < n -> j < n -> cxy i = cxy j -> i = j.
  Proof.
    intros Hi Hj E. destruct (cxy_spec i Hi) as (_ & _ & A). destruct (cxy_spec j Hj) as (_ & _ & B).
    rewrite E in A. congruence.
  Qed.

  Definition SlotInv (done : list source) (slots : list (option tile)) : Prop :=
    length slots = N.to_nat n /\
    forall i, i < n -> nth_error slots (N.to_nat i) = Some (option_map (fun v => (cidx i, v)) (fsv done (cidx i))).

  (* missing_box: bounding box of the coordinates of the still-empty slots *)
  Lemma missing_box_spec slots i0 acc :
    N.of_nat (length slots) + i0 = n -> wf acc -> level acc = level cell ->
    (forall x y, In_box acc x y -> In_box cell x y) ->
    exists left, missing_box 1 cell slots i0 acc = Ok left /\ wf left /\ level left = level cell
      /\ (forall x y, In_box left x y -> In_box cell x y)
      /\ (forall x y, In_box acc x y -> In_box left x y)
      /\ (forall k, (k < length slots)%nat -> nth_error slots k = Some None ->
             In_box left (fst (cxy (i0 + N.of_nat k))) (snd (cxy (i0 + N.of_nat k)))).
  Proof.
    revert i0 acc. induction slots as [|o r IH]; intros i0 acc Hlen Hacc Hlev Hsub; cbn [missing_box].
    - exists acc. split; [reflexivity|]. split; [exact Hacc|]. split; [exact Hlev|]. split; [exact Hsub|]. split; [auto|].
      intros k Hk. cbn in Hk. lia.
    - cbn [length] in Hlen. destruct o as [t|].
      + destruct (IH (i0 + 1) acc) as (left & E & W & L & S1 & S2 & S3); [lia|auto|auto|auto|].
        exists left. split; [exact E|]. split; [exact W|]. split; [exact L|]. split; [exact S1|]. split; [exact S2|].
        intros [|k] Hk Hnth; cbn [nth_error] in Hnth; [discriminate|].
        replace (i0 + N.of_nat (S k)) with (i0 + 1 + N.of_nat k) by lia. apply S3; [cbn in Hk; lia | exact Hnth].
      + assert (Hi0 : i0 < n) by lia.
        destruct (cxy_spec i0 Hi0) as (Ec & Hinc & _). rewrite Ec.
        destruct Hwf as (Hl & Hm & Hx1 & Hy1 & _).
        assert (Hmx : fst (cxy i0) <= bmax acc /\ snd (cxy i0) <= bmax acc).
        { destruct Hacc as (_ & Hma & _). rewrite Hma, Hlev, <- Hm. unfold In_box in Hinc. lia. }
        destruct (include_coord_spec acc _ _ Hacc (proj1 Hmx) (proj2 Hmx)) as (A & B & C & D & _).
        destruct (IH (i0 + 1) (include_coord acc (fst (cxy i0)) (snd (cxy i0)))) as (left & E & W & L & S1 & S2 & S3).
        * lia.
        * exact D.
        * unfold include_coord. destruct (is_empty acc); cbn; exact Hlev.
        * intros x y. apply C; [exact Hinc | exact Hsub].
        * exists left. split; [exact E|]. split; [exact W|]. split; [exact L|]. split; [exact S1|].
          split; [intros x y Hxy; apply S2, B, Hxy|].
          intros [|k] Hk Hnth.
          -- replace (i0 + N.of_nat 0) with i0 by lia. apply S2. exact A.
          -- cbn [nth_error] in Hnth. replace (i0 + N.of_nat (S k)) with (i0 + 1 + N.of_nat k) by lia.
             apply S3; [cbn in Hk; lia | exact Hnth].
  Qed.

  (* filling the slots from a duplicate-free stream of tiles inside the cell *)
  Definition lfind (l : list tile) (c : coord) : option N :=
    match find (fun t => coord_eqb (fst t) c) l with Some t => Some (snd t) | None => None end.

  Lemma fill_fold l : forall slots,
    length slots = N.to_nat n ->
    (forall t, In t l -> cz (fst t) = level cell /\ In_box cell (cx (fst t)) (cy (fst t))) ->
    NoDup (map fst l) ->
    exists slots', fold_o (fill_slot 1 cell) l slots = Ok slots' /\ length slots' = N.to_nat n
      /\ forall i, i < n -> nth_error slots' (N.to_nat i) =
           match nth_error slots (N.to_nat i) with
           | Some (Some t) => Some (Some t)
           | Some None => Some (option_map (fun v => (cidx i, v)) (lfind l (cidx i)))
           | None => None
           end.
  Proof.
    induction l as [|t r IH]; intros slots Hlen Hall Hnd; cbn [fold_o].
    - exists slots. split; [reflexivity|]. split; [exact Hlen|]. intros i Hi.
      destruct (nth_error slots (N.to_nat i)) as [[t|]|]; reflexivity.
    - destruct (Hall t (or_introl eq_refl)) as (Hz & Hin).
      destruct (index_of_member _ _ Hin) as (it & Eit & Hit & Hcit).
      unfold fill_slot at 1. rewrite Hz, N.eqb_refl. cbn [negb]. rewrite Eit.
      assert (Hlt : (N.to_nat it < length slots)%nat) by lia.
      destruct (nth_error slots (N.to_nat it)) as [o|] eqn:En; [|apply nth_error_None in En; lia].
      inversion Hnd as [|? ? Hnotin Hnd']; subst.
      assert (Hct : fst t = cidx it).
      { unfold cidx. rewrite Hcit. cbn [fst snd]. rewrite <- Hz. apply coord_eta. }
      set (slots1 := match o with None => set_nth (N.to_nat it) (Some t) slots | Some _ => slots end).
      replace (obind _ _) with (fold_o (fill_slot 1 cell) r slots1) by (unfold slots1; destruct o; reflexivity).
      assert (Hlen1 : length slots1 = N.to_nat n) by (unfold slots1; destruct o; [exact Hlen | rewrite set_nth_length; exact Hlen]).
      destruct (IH slots1 Hlen1 (fun t' Ht' => Hall t' (or_intror Ht')) Hnd') as (slots' & Ef & Hl' & Hs').
      exists slots'. split; [exact Ef|]. split; [exact Hl'|].
      intros i Hi. rewrite (Hs' i Hi).
      assert (Hn1 : nth_error slots1 (N.to_nat i) =
                    if N.eqb it i then match o with None => Some (Some t) | Some t0 => Some (Some t0) end
                    else nth_error slots (N.to_nat i)).
      { unfold slots1. destruct (N.eqb_spec it i) as [->|Hne'].
        - destruct o as [t0|]; [exact En|]. rewrite nth_error_set_nth by lia. now rewrite Nat.eqb_refl.
        - destruct o as [t0|]; [reflexivity|]. rewrite nth_error_set_nth by lia.
          destruct (Nat.eqb_spec (N.to_nat it) (N.to_nat i)); [lia | reflexivity]. }
      rewrite Hn1. unfold lfind. cbn [find].
      destruct (N.eqb_spec it i) as [->|Hne'].
      + rewrite En. rewrite Hct. rewrite (proj2 (coord_eqb_spec _ _) eq_refl).
        destruct o as [t0|]; [reflexivity|]. cbn [option_map]. rewrite <- Hct. now destruct t.
      + assert (Hneq : coord_eqb (fst t) (cidx i) = false).
        { destruct (coord_eqb (fst t) (cidx i)) eqn:E; [|reflexivity]. apply coord_eqb_spec in E.
          rewrite Hct in E. unfold cidx in E. exfalso. apply Hne'. apply cxy_inj; [exact Hit | exact Hi|].
          inversion E as [[E1' E2']]. destruct (cxy it), (cxy i). cbn in *. congruence. }
        rewrite Hneq. reflexivity.
  Qed.

  Lemma lfind_spec l c v : NoDup (map fst l) -> (lfind l c = Some v <-> In (c, v) l).
  Proof.
    unfold lfind. induction l as [|t r IH]; intros Hnd; cbn [find].
    - split; [discriminate | intros []].
    - inversion Hnd as [|? ? Hn Hr]; subst. destruct (coord_eqb (fst t) c) eqn:E.
      + apply coord_eqb_spec in E. split.
        * intros H; inversion H; subst. left. now destruct t.
        * intros [->|Hin]; [reflexivity|]. exfalso. apply Hn. apply in_map_iff. exists (c, v). split; [cbn; congruence | exact Hin].
      + rewrite (IH Hr). split; [intros; now right|]. intros [->|Hin]; [|exact Hin].
        cbn in E. rewrite (proj2 (coord_eqb_spec c c) eq_refl) in E. discriminate.
  Qed.

  (* one source processed *)
  Lemma process_source done s slots : good s -> SlotInv done slots ->
    exists slots',
      obind (missing_box 1 cell slots 0 (empty_box (level cell))) (fun left =>
        if is_empty left then Ok slots else obind (strm s left) (fun l => fold_o (fill_slot 1 cell) l slots)) = Ok slots'
      /\ SlotInv (done ++ [s]) slots'.
  Proof.
    intros G (Hlen & Hinv).
    destruct Hwf as (Hl31 & Hm & _).
    destruct (level_empty_box (level cell)) as (Le & Ee & We).
    destruct (missing_box_spec slots 0 (empty_box (level cell))) as (left & E & W & L & S1 & _ & S3).
    { lia. } { apply We; exact Hl31. } { exact Le. }
    { intros x y H. exfalso. revert H. now apply empty_spec. }
    rewrite E. cbn [obind].
    assert (Hmiss : forall i, i < n -> nth_error slots (N.to_nat i) = Some None -> In_box left (fst (cxy i)) (snd (cxy i))).
    { intros i Hi Hn. specialize (S3 (N.to_nat i)). rewrite N.add_0_l, N2Nat.id in S3. apply S3; [lia | exact Hn]. }
    assert (Hsome : forall i, i < n -> fsv (done ++ [s]) (cidx i) =
              match fsv done (cidx i) with Some v => Some v | None => lookv s (cidx i) end).
    { intros i Hi. rewrite fsv_app. cbn [fsv]. destruct (fsv done (cidx i)); [reflexivity|]. destruct (lookv s (cidx i)); reflexivity. }
    destruct (is_empty left) eqn:Eleft.
    - (* nothing is missing *)
      exists slots. split; [reflexivity|]. split; [exact Hlen|].
      intros i Hi. rewrite (Hinv i Hi), (Hsome i Hi).
      destruct (fsv done (cidx i)) eqn:Ed; [reflexivity|]. exfalso.
      assert (Hn : nth_error slots (N.to_nat i) = Some None) by (rewrite (Hinv i Hi), Ed; reflexivity).
      apply Hmiss in Hn; [|exact Hi]. revert Hn. now apply empty_spec.
    - destruct (g_stream _ G left W) as (l & Es & Hnd & Hin). rewrite Es. cbn [obind].
      destruct (fill_fold l slots Hlen) as (slots' & Ef & Hl' & Hs').
      { intros [c v] Ht. apply Hin in Ht. destruct Ht as (Hz & Hb & _). cbn [fst]. split; [congruence | now apply S1]. }
      { exact Hnd. }
      exists slots'. split; [exact Ef|]. split; [exact Hl'|].
      intros i Hi. rewrite (Hs' i Hi), (Hinv i Hi), (Hsome i Hi).
      destruct (fsv done (cidx i)) eqn:Ed; cbn [option_map]; [reflexivity|].
      f_equal. f_equal.
      assert (Hn : nth_error slots (N.to_nat i) = Some None) by (rewrite (Hinv i Hi), Ed; reflexivity).
      pose proof (Hmiss i Hi Hn) as Hleft.
      destruct (lookv s (cidx i)) eqn:Elk.
      + apply (lfind_spec l _ _ Hnd). apply Hin. unfold cidx, cz, cx, cy. cbn [fst snd].
        split; [congruence|]. split; [exact Hleft|]. rewrite (look_lookv s _ G). fold (cidx i). now rewrite Elk.
      + destruct (lfind l (cidx i)) eqn:Ef'; [|reflexivity]. exfalso.
        apply (lfind_spec l _ _ Hnd) in Ef'. apply Hin in Ef'. destruct Ef' as (_ & _ & Hk).
        rewrite (look_lookv s _ G), Elk in Hk. discriminate.
  Qed.

  Lemma process_all rest : forall done slots, Forall good rest -> SlotInv done slots ->
    exists slots',
      fold_o (fun slots s =>
           obind (missing_box 1 cell slots 0 (empty_box (level cell))) (fun left =>
           if is_empty left then Ok slots else
           obind (strm s left) (fun l => fold_o (fill_slot 1 cell) l slots))) rest slots = Ok slots'
      /\ SlotInv (done ++ rest) slots'.
  Proof.
    induction rest as [|s r IH]; intros done slots Hg Hinv; cbn [fold_o].
    - exists slots. rewrite app_nil_r. auto.
    - inversion Hg as [|? ? Gs Gr]; subst.
      destruct (process_source done s slots Gs Hinv) as (slots1 & E1 & Inv1). rewrite E1. cbn [obind].
      destruct (IH (done ++ [s]) slots1 Gr Inv1) as (slots' & E' & Inv'). exists slots'. split; [exact E'|].
      now rewrite <- app_assoc in Inv'.
  Qed.

  Theorem overlay_cell_spec ss : Forall good ss ->
    exists out, overlay_cell 1 ss cell = Ok out /\ NoDup (map fst out)
      /\ forall c v, In (c, v) out <-> (cz c = level cell /\ In_box cell (cx c) (cy c) /\ fsv ss c = Some v).
  Proof.
    intros Hg. unfold overlay_cell.
    assert (Hinit : SlotInv [] (repeat None (N.to_nat (count_tiles cell)))).
    { split; [apply repeat_length|]. intros i Hi. cbn [fsv option_map]. apply nth_error_repeat. unfold n in Hi. lia. }
    destruct (process_all ss [] _ Hg Hinit) as (slots & E & (Hlen & Hinv)). rewrite E. cbn [obind app] in *.
    eexists. split; [reflexivity|].
    (* characterise the flattened slot vector *)
    assert (Hmem : forall t, In t (filter_map (fun o => o) slots) <-> exists i, i < n /\ fsv ss (cidx i) = Some (snd t) /\ fst t = cidx i).
    { intros t. rewrite filter_map_In. split.
      - intros (o & Ho & Eo). subst o. apply In_nth_error in Ho. destruct Ho as (k & Hk).
        assert (Hkn : (k < length slots)%nat) by (apply nth_error_Some; congruence).
        assert (Hi : N.of_nat k < n) by lia.
        specialize (Hinv _ Hi). rewrite Nat2N.id, Hk in Hinv. inversion Hinv as [Hv].
        exists (N.of_nat k). split; [exact Hi|]. destruct (fsv ss (cidx (N.of_nat k))); [|discriminate].
        cbn [option_map] in Hv. inversion Hv; subst. cbn [fst snd]. auto.
      - intros (i & Hi & Ef & Ec). exists (Some t). split; [|reflexivity].
        apply nth_error_In with (n := N.to_nat i). rewrite (Hinv i Hi), Ef. cbn [option_map]. f_equal. f_equal.
        destruct t; cbn [fst snd] in *; congruence. }
    split.
    - (* distinct coordinates *)
      assert (Hmap : map fst (filter_map (fun o => o) slots) =
                     filter_map (fun o => match o with Some t => Some (fst t) | None => None end) slots).
      { clear. induction slots as [|[t|] r IH]; cbn [filter_map map]; [reflexivity | now rewrite IH | exact IH]. }
      rewrite Hmap.
      (* positions -> coordinates is injective *)
      assert (Hpos : forall k1 k2 c, nth_error slots k1 = Some (Some c) -> nth_error slots k2 = Some (Some c) -> True) by auto.
      assert (Hinj : forall k1 k2 t1 t2, nth_error slots k1 = Some (Some t1) -> nth_error slots k2 = Some (Some t2) ->
                       fst t1 = fst t2 -> k1 = k2).
      { intros k1 k2 t1 t2 H1 H2 Ec.
        assert (K1 : (k1 < length slots)%nat) by (apply nth_error_Some; congruence).
        assert (K2 : (k2 < length slots)%nat) by (apply nth_error_Some; congruence).
        assert (I1 : N.of_nat k1 < n) by lia. assert (I2 : N.of_nat k2 < n) by lia.
        pose proof (Hinv _ I1) as A. pose proof (Hinv _ I2) as B. rewrite Nat2N.id in A, B. rewrite H1 in A. rewrite H2 in B.
        destruct (fsv ss (cidx (N.of_nat k1))); [|discriminate]. destruct (fsv ss (cidx (N.of_nat k2))); [|discriminate].
        cbn [option_map] in A, B. inversion A; inversion B; subst. cbn [fst] in Ec.
        assert (N.of_nat k1 = N.of_nat k2); [|lia]. apply cxy_inj; [exact I1 | exact I2|].
        unfold cidx in Ec. inversion Ec. destruct (cxy (N.of_nat k1)), (cxy (N.of_nat k2)). cbn in *. congruence. }
      clear - Hinj. revert Hinj. generalize slots as l. intros l.
      induction l as [|o r IH]; intros Hinj; cbn [filter_map]; [constructor|].
      assert (IHr : NoDup (filter_map (fun o => match o with Some t => Some (fst t) | None => None end) r)).
      { apply IH. intros k1 k2 t1 t2 H1 H2 Ec. assert (S k1 = S k2); [|lia]. apply (Hinj (S k1) (S k2) t1 t2); assumption. }
      destruct o as [t|]; [|exact IHr]. constructor; [|exact IHr].
      intros Hc. apply filter_map_In in Hc. destruct Hc as (o' & Ho' & Eo'). destruct o' as [t'|]; [|discriminate].
      inversion Eo' as [Ec]. apply In_nth_error in Ho'. destruct Ho' as (k & Hk).
      assert (0 = S k)%nat; [|lia]. apply (Hinj 0%nat (S k) t t'); [reflexivity | exact Hk | now symmetry].
    - intros c v. rewrite (Hmem (c, v)). cbn [fst snd]. split.
      + intros (i & Hi & Ef & ->). destruct (cxy_spec i Hi) as (_ & Hin & _).
        unfold cidx at 1 2 3. unfold cz, cx, cy. cbn [fst snd]. auto.
      + intros (Hz & Hin & Ef). destruct (index_of_member _ _ Hin) as (i & _ & Hi & Hc).
        exists i. assert (c = cidx i) as ->; [|auto].
        unfold cidx. rewrite Hc. cbn [fst snd]. rewrite <- Hz. apply coord_eta.
  Qed.
End Cell.

(* ---------- the whole overlay ---------- *)
Lemma fsv_source ss c v : fsv ss c = Some v -> exists s, In s ss /\ lookv s c = Some v.
Proof.
  induction ss as [|s r IH]; cbn [fsv]; [discriminate|].
  destruct (lookv s c) eqn:E.
  - intros H; inversion H; subst. exists s. split; [now left | exact E].
  - intros H. destruct (IH H) as (s' & A & B). exists s'. split; [now right | exact B].
Qed.

Lemma include_level a b c : include_bbox a b = Ok c -> level c = level a.
Proof.
  unfold include_bbox. destruct (N.eqb_spec (level a) (level b)) as [E|E]; cbn [negb]; [|discriminate].
  destruct (is_empty b); [intros H; inversion H; reflexivity|].
  destruct (is_empty a); intros H; inversion H; subst; cbn; congruence.
Qed.

Lemma overlay_cov_fold ss z acc : z <= 31 -> Forall good ss -> wf acc -> level acc = z ->
  let r := fold_left (fun acc s => match include_bbox acc (cov s z) with Ok b => b | _ => acc end) ss acc in
  wf r /\ level r = z /\ (forall x y, In_box acc x y -> In_box r x y)
  /\ (forall s, In s ss -> forall x y, In_box (cov s z) x y -> In_box r x y).
Proof.
  intros Hz Hg. revert acc. induction Hg as [|s r G _ IH]; intros acc Wa La; cbn [fold_left].
  - split; [exact Wa|]. split; [exact La|]. split; [auto|]. intros s [].
  - destruct (g_cov_wf _ G z Hz) as (Ws & Ls).
    assert (Hinc : exists b, include_bbox acc (cov s z) = Ok b).
    { unfold include_bbox. rewrite La, Ls, N.eqb_refl. cbn [negb].
      destruct (is_empty (cov s z)); [eauto|]. destruct (is_empty acc); eauto. }
    destruct Hinc as [b Eb]. rewrite Eb.
    destruct (include_spec _ _ _ Wa Ws Eb) as (A & _ & Wb).
    assert (Lb : level b = z) by (rewrite (include_level _ _ _ Eb); exact La).
    destruct (IH b Wb Lb) as (I1 & I2 & I3 & I4).
    split; [exact I1|]. split; [exact I2|]. split; [intros x y H; apply I3, A; now left|].
    intros s' [<-|Hin] x y H; [apply I3, A; now right | now apply (I4 s' Hin)].
Qed.

Lemma concat_In {A} (a : A) ll : In a (concat ll) <-> exists l, In l ll /\ In a l.
Proof. apply in_concat. Qed.

Lemma good_overlay ss : Forall good ss -> ss <> [] -> good (overlay 1 ss).
Proof.
  intros Hg Hne. split.
  - intros c. cbn [overlay look]. rewrite (first_some_good ss c Hg). eauto.
  - intros c v. cbn [overlay look]. rewrite (first_some_good ss c Hg). intros H; inversion H. eapply fsv_valid; eauto.
  - intros z Hz. cbn [overlay cov]. unfold overlay_cov. destruct ss as [|s0 r]; [congruence|].
    inversion Hg as [|? ? G0 _]; subst. destruct (g_cov_wf _ G0 z Hz) as (W0 & L0).
    destruct (overlay_cov_fold (s0 :: r) z (cov s0 z) Hz Hg W0 L0) as (A & B & _). auto.
  - intros c v. cbn [overlay look cov]. rewrite (first_some_good ss c Hg). intros H; inversion H as [Hf].
    pose proof (fsv_valid ss c v Hg Hf) as (Hz & _).
    destruct (fsv_source ss c v Hf) as (s & Hin & Hl).
    assert (G : good s) by (rewrite Forall_forall in Hg; auto).
    assert (Hs : In_box (cov s (cz c)) (cx c) (cy c)).
    { apply (g_cov_sound _ G c v). rewrite (look_lookv s c G), Hl. reflexivity. }
    unfold overlay_cov. destruct ss as [|s0 r]; [congruence|].
    inversion Hg as [|? ? G0 _]; subst. destruct (g_cov_wf _ G0 (cz c) Hz) as (W0 & L0).
    destruct (overlay_cov_fold (s0 :: r) (cz c) (cov s0 (cz c)) Hz Hg W0 L0) as (_ & _ & _ & D).
    exact (D s Hin _ _ Hs).
  - intros b Hb. cbn [overlay strm]. unfold overlay_grid.
    destruct (grid_partition b 32 Hb) as (cells & Eg & _ & Hcells & Hpart); [lia | unfold u32_lim; lia|].
    rewrite Eg. cbn [obind].
    (* every cell has its own specification *)
    assert (Hspec : forall cl, In cl cells -> exists out, overlay_cell 1 ss cl = Ok out /\ NoDup (map fst out)
              /\ forall c v, In (c, v) out <-> (cz c = level b /\ In_box cl (cx c) (cy c) /\ fsv ss c = Some v)).
    { intros cl Hcl. rewrite Forall_forall in Hcells. destruct (Hcells cl Hcl) as (Ene & Wcl & Lcl & _).
      destruct (overlay_cell_spec cl Wcl ss Hg) as (out & Eo & Hnd & Hin) || destruct (overlay_cell_spec cl Wcl Ene ss Hg) as (out & Eo & Hnd & Hin). exists out. rewrite <- Lcl. auto. }
    (* run over all cells *)
    assert (Hall : exists outs, map_o (overlay_cell 1 ss) cells = Ok outs /\ Forall2 (fun cl out =>
              NoDup (map fst out) /\ forall c v, In (c, v) out <-> (cz c = level b /\ In_box cl (cx c) (cy c) /\ fsv ss c = Some v)) cells outs).
    { clear Hpart Hcells Eg. induction cells as [|cl r IH]; cbn [map_o].
      - exists []. split; [reflexivity | constructor].
      - destruct (Hspec cl (or_introl eq_refl)) as (out & Eo & Hnd & Hin). rewrite Eo. cbn [obind].
        destruct IH as (outs & Eos & F2); [intros; apply Hspec; now right|]. rewrite Eos. cbn [obind].
        exists (out :: outs). split; [reflexivity|]. constructor; auto. }
    destruct Hall as (outs & Eos & F2). rewrite Eos. cbn [omap obind].
    eexists. split; [reflexivity|].
    assert (Hmem : forall c v, In (c, v) (concat outs) <-> exists cl, In cl cells /\ cz c = level b /\ In_box cl (cx c) (cy c) /\ fsv ss c = Some v).
    { intros c v. rewrite in_concat. clear - F2. induction F2 as [|cl out cls outs' [_ Hin] _ IH].
      - split; [intros (l & [] & _) | intros (cl & [] & _)].
      - split.
        + intros (l & [<-|Hl] & Hcv).
          * apply Hin in Hcv. exists cl. split; [now left | exact Hcv].
          * destruct (proj1 IH (ex_intro _ l (conj Hl Hcv))) as (cl' & A & B). exists cl'. split; [now right | exact B].
        + intros (cl' & [<-|Hcl] & Hrest).
          * exists out. split; [now left | now apply Hin].
          * destruct (proj2 IH (ex_intro _ cl' (conj Hcl Hrest))) as (l & A & B). exists l. split; [now right | exact B]. }
    split.
    + (* coordinates are distinct: within a cell by the cell lemma, across cells by the partition *)
      assert (Hdisj : forall l1 cl l2, cells = l1 ++ cl :: l2 -> forall x y, In_box cl x y -> forall cl', In cl' l2 -> ~ In_box cl' x y).
      { intros l1 cl l2 Ecells x y Hxy cl' Hcl' Hxy'.
        rewrite Forall_forall in Hcells.
        assert (Hclin : In cl cells) by (rewrite Ecells; apply in_or_app; right; now left).
        destruct (Hcells cl Hclin) as (_ & _ & _ & Hsub & _).
        destruct (Hpart x y (Hsub x y Hxy)) as (k1 & c0 & k2 & Ek & Hc0 & Hother).
        (* cl and cl' are two distinct positions of the list; at most one of them is c0's position *)
        pose proof (iter_coords_NoDup b) as _.
        assert (Hpos : exists m1 m2 m3, cells = m1 ++ cl :: m2 ++ cl' :: m3).
        { apply in_split in Hcl'. destruct Hcl' as (a1 & a2 & ->). exists l1, a1, a2. exact Ecells. }
        destruct Hpos as (m1 & m2 & m3 & Em).
        (* compare the two decompositions of `cells` *)
        assert (Hcount : forall (P : bbox -> Prop), True) by auto.
        rewrite Em in Ek.
        (* positions: c0 is at index length k1; cl at length m1; cl' at length m1 + 1 + length m2 *)
        assert (Hcases : In cl (k1 ++ k2) \/ In cl' (k1 ++ k2)).
        { clear - Ek. revert m1 Ek. induction k1 as [|a k1 IH]; intros m1 Ek.
          - destruct m1 as [|b m1]; cbn [app] in Ek; inversion Ek; subst.
            + right. cbn [app]. apply in_or_app. right. now left.
            + left. cbn [app]. apply in_or_app. right. now left.
          - destruct m1 as [|b m1]; cbn [app] in Ek; inversion Ek; subst.
            + left. now left.
            + destruct (IH m1 H1) as [H|H]; [left | right]; now right. }
        destruct Hcases as [H|H]; [exact (Hother cl H Hxy) | exact (Hother cl' H Hxy')]. }
      clear Hmem Eos Hspec Eg Hpart Hcells. revert Hdisj. induction F2 as [|cl out cls outs' [Hnd Hin] F2' IH]; intros Hdisj; cbn [concat map]; [constructor|].
      rewrite map_app. apply NoDup_app_intro.
      * exact Hnd.
      * apply IH. intros l1 cl0 l2 E x y Hxy cl' Hcl'. apply (Hdisj (cl :: l1) cl0 l2); [cbn [app]; now rewrite E | exact Hxy | exact Hcl'].
      * intros c Hc1 Hc2. apply in_map_iff in Hc1. destruct Hc1 as ([c1 v1] & <- & H1). cbn [fst] in *.
        apply in_map_iff in Hc2. destruct Hc2 as ([c2 v2] & Ec & H2). cbn [fst] in Ec. subst c2.
        apply Hin in H1. destruct H1 as (_ & Hb1 & _).
        apply in_concat in H2. destruct H2 as (l & Hl & Hcv).
        (* l is the output of some later cell cl' *)
        assert (Hex : exists cl', In cl' cls /\ In_box cl' (cx c1) (cy c1)).
        { clear - F2' Hl Hcv. induction F2' as [|cl' out' cls' outs'' [_ Hin'] _ IH]; [destruct Hl|].
          destruct Hl as [<-|Hl]; [exists cl'; split; [now left | apply Hin' in Hcv; tauto]|].
          destruct (IH Hl) as (c' & A & B). exists c'. split; [now right | exact B]. }
        destruct Hex as (cl' & Hcl' & Hb2). exact (Hdisj [] cl cls eq_refl _ _ Hb1 cl' Hcl' Hb2).
    + intros c v. rewrite Hmem. cbn [overlay look]. rewrite (first_some_good ss c Hg). split.
      * intros (cl & Hcl & Hz & Hb' & Hf). rewrite Forall_forall in Hcells. destruct (Hcells cl Hcl) as (_ & _ & _ & Hsub & _).
        split; [exact Hz|]. split; [now apply Hsub | now rewrite Hf].
      * intros (Hz & Hbx & Hf). inversion Hf as [Hf'].
        destruct (Hpart _ _ Hbx) as (k1 & c0 & k2 & Ek & Hc0 & _). exists c0.
        split; [rewrite Ek; apply in_or_app; right; now left|]. auto.
Qed.

(* ---------- every pipeline expression denotes a good source (C02 + C03 by structural induction) ---------- *)
Fixpoint expr_ok (e : pexpr) : Prop :=
  match e with
  | PLeaf t => tiles_ok t
  | PZoom _ _ e => expr_ok e
  | PBBox g e => pyr_ok (pyr_of_list g) /\ expr_ok e
  | POver es => es <> [] /\ (fix all (l : list pexpr) : Prop := match l with [] => True | x :: r => expr_ok x /\ all r end) es
  | PConv _ _ req e => req_ok (option_map pyr_of_list req) /\ expr_ok e
  end.

Definition D := denote 1 1 1 1.

Lemma good_denote : forall e, expr_ok e -> good (D e).
Proof.
  fix IH 1. intros e. destruct e as [tiles|a b e|g e|es|f s req e]; cbn [expr_ok].
  - apply good_leaf.
  - intros H. apply good_filter_zoom. apply IH. exact H.
  - intros [Hg H]. apply good_filter_bbox; [apply IH; exact H | exact Hg].
  - intros [Hne Hall]. unfold D. cbn [denote]. apply good_overlay; [|destruct es; [congruence | discriminate]].
    revert Hall.
    refine ((fix all (l : list pexpr) :
               (fix allp (l : list pexpr) : Prop := match l with [] => True | x :: r => expr_ok x /\ allp r end) l ->
               Forall good (map (denote 1 1 1 1) l) :=
               match l with
               | [] => fun _ => Forall_nil _
               | x :: r => fun H => Forall_cons _ (IH x (proj1 H)) (all r (proj2 H))
               end) es).
  - intros [Hr H]. unfold D. cbn [denote]. apply good_converter; [apply IH; exact H | exact Hr].
Qed.

(* non-vacuity: a nested expression with two sources of different coverage, a filter and a converter *)
Example expr_ok_example :
  expr_ok (PConv true true None (POver [PZoom (Some 1) (Some 3) (PLeaf [((2, 1, 0), 7); ((3, 7, 7), 8)]); PLeaf [((2, 1, 0), 9); ((2, 3, 3), 10)]])).
Proof.
  cbn. unfold tiles_ok, okc, cz, cx, cy, level_max. cbn.
  repeat (split || constructor); try discriminate; try (cbn; lia); exact I.
Qed.
