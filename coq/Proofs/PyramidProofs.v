(* Pyramids behave as the sets they denote, level by level (C15). *)
From Coq Require Import List NArith Bool Arith Lia.
From VT Require Import Base.Outcome Model.BBox Proofs.BBoxProofs Model.Pyramid.
Import ListNotations.
Local Open Scope N_scope.

Definition wfp (p : pyramid) : Prop :=
  length p = 32%nat /\ forall i b, nth_error p i = Some b -> wf b /\ level b = N.of_nat i.

Definition In_pyr (p : pyramid) (z x y : N) : Prop :=
  exists b, nth_error p (N.to_nat z) = Some b /\ In_box b x y.

(* ---------- intersect ---------- *)
Lemma map2_intersect p : forall q,
  length p = length q ->
  (forall i a b, nth_error p i = Some a -> nth_error q i = Some b -> level a = level b) ->
  exists r, py_intersect p q = Ok r /\ length r = length p /\
    forall i a b, nth_error p i = Some a -> nth_error q i = Some b -> exists c, nth_error r i = Some c /\ intersect_bbox a b = Ok c.
Proof.
  induction p as [|a p IH]; intros [|b q] Hl Hlev; try discriminate.
  - exists []. split; [reflexivity|]. split; [reflexivity|]. intros i x y H; destruct i; discriminate.
  - injection Hl as Hl.
    destruct (intersect_total a b (Hlev 0%nat a b eq_refl eq_refl)) as (c & Hc).
    destruct (IH q Hl (fun i x y Hx Hy => Hlev (S i) x y Hx Hy)) as (r & Hr & Hlr & Hnth).
    exists (c :: r). unfold py_intersect in *. cbn [map2_o]. rewrite Hc. cbn [unwrap obind]. rewrite Hr. cbn [omap obind].
    split; [reflexivity|]. split; [cbn; lia|].
    intros [|i] x y Hx Hy; cbn in Hx, Hy |- *.
    + injection Hx as <-. injection Hy as <-. exists c. split; [reflexivity|exact Hc].
    + apply (Hnth i x y Hx Hy).
Qed.

Theorem py_intersect_spec p q : wfp p -> wfp q ->
  exists r, py_intersect p q = Ok r /\ wfp r /\
    forall z x y, In_pyr r z x y <-> In_pyr p z x y /\ In_pyr q z x y.
Proof.
  intros [Lp Wp] [Lq Wq].
  destruct (map2_intersect p q ltac:(lia)) as (r & Hr & Lr & Hn).
  { intros i a b Ha Hb. destruct (Wp i a Ha) as [_ ->]. destruct (Wq i b Hb) as [_ ->]. reflexivity. }
  exists r. split; [exact Hr|]. split.
  - split; [lia|]. intros i c Hc.
    assert (Hi : (i < length p)%nat) by (rewrite <- Lr; apply nth_error_Some; congruence).
    destruct (nth_error p i) as [a|] eqn:Ea; [|apply nth_error_None in Ea; lia].
    destruct (nth_error q i) as [b|] eqn:Eb; [|apply nth_error_None in Eb; lia].
    destruct (Hn i a b Ea Eb) as (c' & Hc' & Hint). rewrite Hc in Hc'. injection Hc' as <-.
    destruct (Wp i a Ea) as [Wa La]. destruct (Wq i b Eb) as [Wb _].
    split; [exact (intersect_wf a b c Wa Wb Hint)|].
    unfold intersect_bbox in Hint. destruct (negb (level a =? level b)); [discriminate|].
    destruct (negb (is_empty a) && negb (is_empty b)); injection Hint as <-; cbn; exact La.
  - intros z x y. unfold In_pyr. split.
    + intros (c & Hc & Hin).
      assert (Hi : (N.to_nat z < length p)%nat) by (rewrite <- Lr; apply nth_error_Some; congruence).
      destruct (nth_error p (N.to_nat z)) as [a|] eqn:Ea; [|apply nth_error_None in Ea; lia].
      destruct (nth_error q (N.to_nat z)) as [b|] eqn:Eb; [|apply nth_error_None in Eb; lia].
      destruct (Hn _ a b Ea Eb) as (c' & Hc' & Hint). rewrite Hc in Hc'. injection Hc' as <-.
      apply (intersect_spec a b c Hint) in Hin. destruct Hin as [Ha Hb]. split; [exists a|exists b]; auto.
    + intros [(a & Ea & Ha) (b & Eb & Hb)]. destruct (Hn _ a b Ea Eb) as (c & Hc & Hint).
      exists c. split; [exact Hc|]. apply (intersect_spec a b c Hint). auto.
Qed.

(* ---------- zoom limits ---------- *)
Lemma levels32_nth i : (i < 32)%nat -> nth_error levels32 i = Some (N.of_nat i).
Proof. intros H. unfold levels32. rewrite nth_error_map, (nth_error_nth' (seq 0 32) 0%nat) by (rewrite seq_length; exact H). rewrite seq_nth by exact H. reflexivity. Qed.

Lemma nth_map_combine {A B C} (f : A * B -> C) (l1 : list A) (l2 : list B) i :
  nth_error (map f (combine l1 l2)) i =
    match nth_error l1 i, nth_error l2 i with Some a, Some b => Some (f (a, b)) | _, _ => None end.
Proof.
  revert l2 i; induction l1 as [|a l1 IH]; intros l2 i; [destruct i; reflexivity|].
  destruct l2 as [|b l2]; [destruct i as [|i]; cbn; [reflexivity|destruct (nth_error l1 i); reflexivity]|].
  destruct i as [|i]; cbn; [reflexivity|apply IH].
Qed.

Theorem py_set_zoom_min_spec p m : wfp p ->
  wfp (py_set_zoom_min p m) /\
  forall z x y, In_pyr (py_set_zoom_min p m) z x y <-> In_pyr p z x y /\ m <= z.
Proof.
  intros [Lp Wp]. unfold py_set_zoom_min. split.
  - split; [rewrite map_length, combine_length; unfold levels32; rewrite map_length, seq_length; lia|].
    intros i b Hb. rewrite nth_map_combine in Hb.
    destruct (nth_error levels32 i) as [z|] eqn:Ez; [|discriminate]. destruct (nth_error p i) as [a|] eqn:Ea; [|discriminate].
    destruct (Wp i a Ea) as [Wa La]. cbn [fst snd] in Hb. destruct (z <? m); injection Hb as <-; [|auto].
    split; [|exact La]. destruct Wa as (A & B & C & D & E & F). unfold wf, set_empty. cbn. repeat split; try lia.
  - intros z x y. unfold In_pyr. rewrite nth_map_combine.
    destruct (nth_error p (N.to_nat z)) as [a|] eqn:Ea.
    + assert (Hi : (N.to_nat z < 32)%nat) by (rewrite <- Lp; apply nth_error_Some; congruence).
      rewrite levels32_nth by exact Hi. cbn [fst snd]. rewrite N2Nat.id.
      destruct (N.ltb_spec z m) as [Hlt|Hge]; split.
      * intros (b & Hb & Hin). injection Hb as <-. exfalso. revert Hin. apply (proj1 (empty_spec _) (set_empty_empty a)).
      * intros [_ H]. lia.
      * intros (b & Hb & Hin). injection Hb as <-. split; [exists a; auto|exact Hge].
      * intros [(b & Hb & Hin) _]. exists b. split; [f_equal; congruence|exact Hin].
    + destruct (nth_error levels32 (N.to_nat z)); split; intros H; try (destruct H as (b & Hb & _); discriminate); destruct H as [(b & Hb & _) _]; discriminate.
Qed.

Theorem py_set_zoom_max_spec p m : wfp p ->
  wfp (py_set_zoom_max p m) /\
  forall z x y, In_pyr (py_set_zoom_max p m) z x y <-> In_pyr p z x y /\ z <= m.
Proof.
  intros [Lp Wp]. unfold py_set_zoom_max. split.
  - split; [rewrite map_length, combine_length; unfold levels32; rewrite map_length, seq_length; lia|].
    intros i b Hb. rewrite nth_map_combine in Hb.
    destruct (nth_error levels32 i) as [z|] eqn:Ez; [|discriminate]. destruct (nth_error p i) as [a|] eqn:Ea; [|discriminate].
    destruct (Wp i a Ea) as [Wa La]. cbn [fst snd] in Hb. destruct (m <? z); injection Hb as <-; [|auto].
    split; [|exact La]. destruct Wa as (A & B & C & D & E & F). unfold wf, set_empty. cbn. repeat split; try lia.
  - intros z x y. unfold In_pyr. rewrite nth_map_combine.
    destruct (nth_error p (N.to_nat z)) as [a|] eqn:Ea.
    + assert (Hi : (N.to_nat z < 32)%nat) by (rewrite <- Lp; apply nth_error_Some; congruence).
      rewrite levels32_nth by exact Hi. cbn [fst snd]. rewrite N2Nat.id.
      destruct (N.ltb_spec m z) as [Hlt|Hge]; split.
      * intros (b & Hb & Hin). injection Hb as <-. exfalso. revert Hin. apply (proj1 (empty_spec _) (set_empty_empty a)).
      * intros [_ H]. lia.
      * intros (b & Hb & Hin). injection Hb as <-. split; [exists a; auto|exact Hge].
      * intros [(b & Hb & Hin) _]. exists b. split; [f_equal; congruence|exact Hin].
    + destruct (nth_error levels32 (N.to_nat z)); split; intros H; try (destruct H as (b & Hb & _); discriminate); destruct H as [(b & Hb & _) _]; discriminate.
Qed.

(* ---------- lowest non-empty level ---------- *)
Lemma find_first {A} (f : A -> bool) l x : find f l = Some x ->
  exists i, nth_error l i = Some x /\ f x = true /\ forall j y, (j < i)%nat -> nth_error l j = Some y -> f y = false.
Proof.
  induction l as [|a l IH]; [discriminate|]. cbn [find]. destruct (f a) eqn:Fa.
  - intros H; injection H as <-. exists 0%nat. split; [reflexivity|]. split; [exact Fa|]. intros j y Hj; lia.
  - intros H. destruct (IH H) as (i & Hi & Fx & Hlow). exists (S i). split; [exact Hi|]. split; [exact Fx|].
    intros [|j] y Hj Hy; cbn in Hy; [injection Hy as <-; exact Fa|apply (Hlow j y); [lia|exact Hy]].
Qed.

Theorem py_zoom_min_spec p z : wfp p -> py_zoom_min p = Some z ->
  (exists x y, In_pyr p z x y) /\ forall z' x y, z' < z -> ~ In_pyr p z' x y.
Proof.
  intros [Lp Wp]. unfold py_zoom_min. destruct (find (fun b => negb (is_empty b)) p) as [b|] eqn:Ef; [|discriminate].
  intros H; injection H as <-. destruct (find_first _ _ _ Ef) as (i & Hi & Hne & Hlow).
  destruct (Wp i b Hi) as [Wb Lb]. rewrite Lb. split.
  - apply negb_true_iff in Hne. destruct (is_empty b) eqn:E; [discriminate|].
    assert (Hx : exists x y, In_box b x y).
    { exists (x_min b), (y_min b). revert E. unf. lia. }
    destruct Hx as (x & y & Hin). exists x, y, b. rewrite Nat2N.id. auto.
  - intros z' x y Hlt (b' & Hb' & Hin). pose proof (Hlow (N.to_nat z') b' ltac:(lia) Hb') as He.
    apply negb_false_iff in He. revert Hin. apply (proj1 (empty_spec b') He).
Qed.

(* ---------- include_coord ---------- *)
Lemma nth_set_nth {A} (l : list A) i v j : (i < length l)%nat ->
  nth_error (set_nth i v l) j = if Nat.eqb j i then Some v else nth_error l j.
Proof.
  revert i j; induction l as [|a l IH]; intros i j Hi; [cbn in Hi; lia|].
  destruct i as [|i]; destruct j as [|j]; cbn; try reflexivity. apply IH. cbn in Hi; lia.
Qed.

Lemma length_set_nth {A} (l : list A) i v : length (set_nth i v l) = length l.
Proof. revert i; induction l as [|a l IH]; intros i; [destruct i; reflexivity|]. destruct i; cbn; [reflexivity|f_equal; apply IH]. Qed.

Theorem py_include_coord_spec p z x y : wfp p -> z <= 31 -> x <= level_max z -> y <= level_max z ->
  exists r, py_include_coord p z x y = Ok r /\ wfp r /\ In_pyr r z x y /\
    forall z' u v, In_pyr p z' u v -> In_pyr r z' u v.
Proof.
  intros [Lp Wp] Hz Hx Hy. unfold py_include_coord, py_level.
  destruct (nth_error p (N.to_nat z)) as [b|] eqn:Eb; [|apply nth_error_None in Eb; lia].
  destruct (Wp _ b Eb) as [Wb Lb]. rewrite N2Nat.id in Lb.
  assert (Hm : bmax b = level_max z) by (destruct Wb as (_ & Hm & _); rewrite Hm, Lb; reflexivity).
  destruct (include_coord_spec b x y Wb ltac:(lia) ltac:(lia)) as (I1 & I2 & _ & I4 & _).
  cbn [obind]. eexists. split; [reflexivity|].
  assert (Hlen : (N.to_nat z < length p)%nat) by lia.
  split; [|split].
  - split.
    + rewrite length_set_nth. exact Lp.
    + intros i c Hc. rewrite nth_set_nth in Hc by exact Hlen. destruct (Nat.eqb_spec i (N.to_nat z)) as [->|Hne].
      * injection Hc as <-. split; [exact I4|]. rewrite N2Nat.id. unfold include_coord. destruct (is_empty b); cbn; exact Lb.
      * apply (Wp i c Hc).
  - exists (include_coord b x y). split; [rewrite nth_set_nth by exact Hlen; rewrite Nat.eqb_refl; reflexivity|exact I1].
  - intros z' u v (c & Hc & Hin). unfold In_pyr. rewrite nth_set_nth by exact Hlen.
    destruct (Nat.eqb_spec (N.to_nat z') (N.to_nat z)) as [E|Hne].
    + rewrite E in Hc. rewrite Eb in Hc. injection Hc as <-. eexists. split; [reflexivity|]. apply I2. exact Hin.
    + exists c. auto.
Qed.

(* ---------- include_bbox_pyramid ---------- *)
Lemma include_total a b : level a = level b -> exists c, include_bbox a b = Ok c /\ level c = level a.
Proof.
  intros H. unfold include_bbox. rewrite H, N.eqb_refl. cbn [negb].
  destruct (is_empty b); [exists a; auto|]. destruct (is_empty a); [exists b; auto|]. eexists; split; reflexivity.
Qed.

Lemma py_include_bbox_spec p b : wfp p -> wf b -> level b <= 31 ->
  exists r, py_include_bbox p b = Ok r /\ wfp r /\
    (forall z x y, In_pyr p z x y -> In_pyr r z x y) /\ (forall x y, In_box b x y -> In_pyr r (level b) x y).
Proof.
  intros [Lp Wp] Wb Hl. unfold py_include_bbox, py_level.
  destruct (nth_error p (N.to_nat (level b))) as [a|] eqn:Ea; [|apply nth_error_None in Ea; lia].
  destruct (Wp _ a Ea) as [Wa La]. rewrite N2Nat.id in La.
  destruct (include_total a b La) as (c & Hc & Lc). cbn [obind]. rewrite Hc. cbn [unwrap obind].
  destruct (include_spec a b c Wa Wb Hc) as (Hsup & _ & Wc).
  assert (Hlen : (N.to_nat (level b) < length p)%nat) by lia.
  eexists. split; [reflexivity|]. split; [|split].
  - split; [rewrite length_set_nth; exact Lp|]. intros i d Hd. rewrite nth_set_nth in Hd by exact Hlen.
    destruct (Nat.eqb_spec i (N.to_nat (level b))) as [->|Hne]; [injection Hd as <-; split; [exact Wc|rewrite N2Nat.id; congruence]|apply (Wp i d Hd)].
  - intros z x y (d & Hd & Hin). unfold In_pyr. rewrite nth_set_nth by exact Hlen.
    destruct (Nat.eqb_spec (N.to_nat z) (N.to_nat (level b))) as [E|Hne]; [|exists d; auto].
    rewrite E, Ea in Hd. injection Hd as <-. eexists. split; [reflexivity|]. apply Hsup. left; exact Hin.
  - intros x y Hin. unfold In_pyr. rewrite nth_set_nth by exact Hlen. rewrite Nat.eqb_refl. eexists. split; [reflexivity|]. apply Hsup. right; exact Hin.
Qed.

Lemma py_include_all_spec bs : forall p, wfp p -> Forall (fun b => wf b /\ level b <= 31) bs ->
  exists r, py_include_all p bs = Ok r /\ wfp r /\
    (forall z x y, In_pyr p z x y -> In_pyr r z x y) /\
    (forall b, In b bs -> forall x y, In_box b x y -> In_pyr r (level b) x y).
Proof.
  induction bs as [|b bs IH]; intros p Wp Hall.
  - exists p. split; [reflexivity|]. split; [exact Wp|]. split; [auto|]. intros b [].
  - inversion Hall as [|? ? [Wb Lb] Hall']; subst. cbn [py_include_all].
    destruct (is_empty b) eqn:Eb.
    + destruct (IH p Wp Hall') as (r & Hr & Wr & Hm & Hb). exists r. split; [exact Hr|]. split; [exact Wr|]. split; [exact Hm|].
      intros b' [<-|Hin] x y Hbox; [exfalso; revert Hbox; apply (proj1 (empty_spec b) Eb)|apply (Hb b' Hin x y Hbox)].
    + destruct (py_include_bbox_spec p b Wp Wb Lb) as (p' & Hp' & Wp' & Hm1 & Hb1). rewrite Hp'. cbn [obind].
      destruct (IH p' Wp' Hall') as (r & Hr & Wr & Hm & Hb). exists r. split; [exact Hr|]. split; [exact Wr|]. split; [intros z x y H; apply Hm, Hm1, H|].
      intros b' [<-|Hin] x y Hbox; [apply Hm, Hb1, Hbox|apply (Hb b' Hin x y Hbox)].
Qed.

Theorem py_include_pyramid_spec p q : wfp p -> wfp q ->
  exists r, py_include_pyramid p q = Ok r /\ wfp r /\
    forall z x y, In_pyr p z x y \/ In_pyr q z x y -> In_pyr r z x y.
Proof.
  intros Wp [Lq Wq]. unfold py_include_pyramid.
  destruct (py_include_all_spec q p Wp) as (r & Hr & Wr & Hm & Hb).
  { apply Forall_forall. intros b Hb. destruct (In_nth_error q b Hb) as (i & Hi). destruct (Wq i b Hi) as [Wb Lb].
    split; [exact Wb|]. assert (i < 32)%nat by (rewrite <- Lq; apply nth_error_Some; congruence). lia. }
  exists r. split; [exact Hr|]. split; [exact Wr|]. intros z x y [H|(b & Hb' & Hin)]; [apply Hm, H|].
  destruct (Wq _ b Hb') as [_ Lb]. rewrite N2Nat.id in Lb. rewrite <- Lb. apply (Hb b (nth_error_In _ _ Hb') x y Hin).
Qed.
