(* C09 (last clause) / C18: invalid filter arguments are reported when the pipeline is built. *)
From Coq Require Import List NArith ZArith Bool Lia.
From VT Require Import Model.Http Model.VPLArgs.
Import ListNotations.

(* filter_bbox builds exactly for four numeric entries that form a valid geographic box *)
Theorem bbox_builds_iff p :
  bbox_builds p = true <->
  exists a b c d w s e n, p = Some [a; b; c; d] /\
    literal a = Some w /\ literal b = Some s /\ literal c = Some e /\ literal d = Some n /\
    (-180 <= w /\ w <= e /\ e <= 180 /\ -90 <= s /\ s <= n /\ n <= 90)%Z.
Proof.
  unfold bbox_builds, get_array4. split.
  - destruct p as [[|a [|b [|c [|d [|x r]]]]]|]; try discriminate.
    destruct (literal a) as [w|] eqn:Ea; [|discriminate].
    destruct (literal b) as [s|] eqn:Eb; [|discriminate].
    destruct (literal c) as [e|] eqn:Ec; [|discriminate].
    destruct (literal d) as [n|] eqn:Ed; [|discriminate].
    unfold geo_check. intros H. repeat (apply andb_true_iff in H; destruct H as [H ?]).
    exists a, b, c, d, w, s, e, n. repeat split; auto; apply Z.leb_le; assumption.
  - intros (a & b & c & d & w & s & e & n & -> & Ea & Eb & Ec & Ed & H). rewrite Ea, Eb, Ec, Ed.
    unfold geo_check. repeat (apply andb_true_iff; split); apply Z.leb_le; lia.
Qed.

(* entries beyond the fourth, a missing parameter, a repeated parameter: never accepted *)
Corollary bbox_wrong_arity_rejected p : (forall l, p = Some l -> length l <> 4%nat) -> bbox_builds p = false.
Proof.
  intros H. destruct (bbox_builds p) eqn:E; [|reflexivity]. apply bbox_builds_iff in E.
  destruct E as (a & b & c & d & _ & _ & _ & _ & -> & _). exfalso. apply (H _ eq_refl). reflexivity.
Qed.

(* filter_zoom builds exactly when each given limit is one entry that is a u8 *)
Theorem zoom_builds_iff pmin pmax a b :
  zoom_builds pmin pmax = AOk (a, b) <->
  (match a with None => pmin = None | Some v => exists s, pmin = Some [s] /\ parse_uint 255 s = Some v end) /\
  (match b with None => pmax = None | Some v => exists s, pmax = Some [s] /\ parse_uint 255 s = Some v end).
Proof.
  assert (G : forall p r, get_u8 p = AOk r <-> match r with None => p = None | Some v => exists s, p = Some [s] /\ parse_uint 255 s = Some v end).
  { intros p r. unfold get_u8, get_property. destruct p as [[|x [|y l]]|].
    - split; [discriminate|]. destruct r; [intros (s & H & _); discriminate | discriminate].
    - destruct (parse_uint 255 x) as [v|] eqn:E.
      + split. * intros H; inversion H; subst. exists x. auto.
               * destruct r as [v'|]; [|discriminate]. intros (s & H & H'). inversion H; subst. congruence.
      + split; [discriminate|]. destruct r as [v'|]; [|discriminate]. intros (s & H & H'). inversion H; subst. congruence.
    - split; [discriminate|]. destruct r; [intros (s & H & _); discriminate | discriminate].
    - split. * intros H; inversion H; subst. reflexivity.
             * destruct r; [intros (s & H & _); discriminate | reflexivity]. }
  unfold zoom_builds. split.
  - destruct (get_u8 pmin) as [ra|] eqn:Ea; [|discriminate]. destruct (get_u8 pmax) as [rb|] eqn:Eb; [|discriminate].
    intros H; inversion H; subst. split; apply G; assumption.
  - intros [Ha Hb]. apply G in Ha. apply G in Hb. rewrite Ha, Hb. reflexivity.
Qed.

Theorem zoom_limits_are_u8 pmin pmax a b : zoom_builds pmin pmax = AOk (a, b) ->
  (forall v, a = Some v -> (v <= 255)%N) /\ (forall v, b = Some v -> (v <= 255)%N).
Proof.
  assert (B : forall s v, parse_uint 255 s = Some v -> (v <= 255)%N).
  { intros s v. unfold parse_uint. destruct (match s with 43%N :: r => r | _ => s end) as [|c0 l0]; [discriminate|].
    destruct (digits_val 0 (c0 :: l0)) as [w|]; [|discriminate]. destruct (N.leb w 255) eqn:E; [|discriminate].
    intros H; inversion H; subst. apply N.leb_le. exact E. }
  intros H. apply zoom_builds_iff in H. destruct H as [Ha Hb]. split; intros v ->.
  - destruct Ha as (s & _ & P). eapply B; eauto.
  - destruct Hb as (s & _ & P). eapply B; eauto.
Qed.
