(* C01: a PMTiles file as the writer lays it out is read back tile by tile by the reader's
   byte-level path - header, compressed root, leaves section, tile data offset. *)
From Coq Require Import List NArith Arith Lia Bool.
From VT Require Import Base.Outcome Model.MVT Model.Crash Proofs.CrashProofs Model.VTBytes Proofs.VTBytesProofs Model.PMDir Proofs.PMDirProofs
  Proofs.PMTreeProofs Model.PMWrite Proofs.PMWriteProofs Model.PMHeader Proofs.PMHeaderProofs Model.PMFile Proofs.VTBlockProofs Proofs.VTFileProofs.
Import ListNotations.
Local Open Scope N_scope.

Definition cosmetic_ok (h : pmh) : Prop :=
  p_addressed h <= u64_max /\ p_entries h <= u64_max /\ p_contents h <= u64_max /\
  p_icomp h <= 4 /\ p_tcomp h <= 4 /\ p_type h <= 5 /\ p_minz h <= 255 /\ p_maxz h <= 255 /\
  p_b0 h <= u32_max /\ p_b1 h <= u32_max /\ p_b2 h <= u32_max /\ p_b3 h <= u32_max /\
  p_cz h <= 255 /\ p_c0 h <= u32_max /\ p_c1 h <= u32_max.

Lemma sub_is_sub (b : list N) o n : Crash.sub b (N.to_nat o) (N.to_nat n) = PMWrite.sub b o n.
Proof. reflexivity. Qed.

Section WithCodec.
  Variables (zip : bytes -> bytes) (unzip : bytes -> option bytes).
  Hypothesis Hzip : forall b, unzip (zip b) = Some b.

  Theorem pm_file_roundtrip av h0 d meta tiles :
    cosmetic_ok h0 ->
    let file := pm_assemble zip h0 d meta tiles in
    N.of_nat (length (zip (serialize (d_root d)))) <= 16384 - 127 ->       (* the root fits in front of the metadata *)
    N.of_nat (length file) <= u64_max ->
    deserialize av (serialize (d_root d)) = Ok (d_root d) ->
    forall e t,
      pm_lookup av 3 (file_leaf unzip av (d_leaves_bytes d)) (d_root d) t = Ok (Some e) ->
      e_off e + e_len e <= N.of_nat (length tiles) ->
      pm_file_lookup unzip av file t = Ok (Some (PMWrite.sub tiles (e_off e) (e_len e))).
  Proof.
    intros Hc file Hroot Hfile Hparse e t Hlk Hin.
    destruct Hc as (C1 & C2 & C3 & C4 & C5 & C6 & C7 & C8 & C9 & C10 & C11 & C12 & C13 & C14 & C15).
    unfold file, pm_assemble in *.
    set (rootz := zip (serialize (d_root d))) in *. set (metaz := zip meta) in *.
    set (pad := repeat 0 (N.to_nat (16384 - 127 - N.of_nat (length rootz)))) in *.
    set (leaves := d_leaves_bytes d) in *.
    set (data_off := 16384 + N.of_nat (length metaz)) in *.
    match goal with |- context [pmh_serialize ?hh] => set (h := hh) in * end.
    assert (Hpad : N.of_nat (length pad) = 16384 - 127 - N.of_nat (length rootz)) by (unfold pad; rewrite repeat_length; lia).
    pose proof (pmh_serialize_length h) as Hhl0.
    assert (Hwf : pmh_wf h).
    { unfold pmh_wf, h. cbn [p_root_off p_root_len p_meta_off p_meta_len p_leaf_off p_leaf_len p_data_off p_data_len p_addressed p_entries p_contents p_icomp p_tcomp p_type p_minz p_maxz p_b0 p_b1 p_b2 p_b3 p_cz p_c0 p_c1]. unfold u64_max, u32_max, data_off in *. rewrite !app_length in Hfile. repeat split; lia. }
    destruct (pmh_roundtrip h Hwf) as [Hhl Hhd].
    unfold pm_file_lookup.
    rewrite firstn_app, Hhl, Nat.sub_diag, firstn_O, app_nil_r. rewrite <- Hhl at 1. rewrite firstn_all, Hhd. cbn [obind].
    assert (Hlenfile : length (pmh_serialize h ++ rootz ++ pad ++ metaz ++ tiles ++ leaves) =
                       (127 + (length rootz + (length pad + (length metaz + (length tiles + length leaves)))))%nat)
      by (rewrite !app_length, Hhl; reflexivity).
    assert (E1 : p_meta_off h = 16384) by reflexivity. assert (E2 : p_meta_len h = N.of_nat (length metaz)) by reflexivity.
    assert (E3 : p_root_off h = 127) by reflexivity. assert (E4 : p_root_len h = N.of_nat (length rootz)) by reflexivity.
    assert (E5 : p_leaf_off h = data_off + N.of_nat (length tiles)) by reflexivity. assert (E6 : p_leaf_len h = N.of_nat (length leaves)) by reflexivity.
    assert (E7 : p_data_off h = data_off) by reflexivity.
    rewrite E1, E2, E3, E4, E5, E6, E7. clearbody h.
    set (F := pmh_serialize h ++ rootz ++ pad ++ metaz ++ tiles ++ leaves) in *.
    assert (Hm : read_range F 16384 (N.of_nat (length metaz)) = Some metaz).
    { rewrite read_range_at by (rewrite Hlenfile; lia).
      replace (N.to_nat 16384) with (length (pmh_serialize h ++ rootz ++ pad)) by (rewrite !app_length, Hhl; lia).
      rewrite Nat2N.id. unfold F. replace (pmh_serialize h ++ rootz ++ pad ++ metaz ++ tiles ++ leaves) with ((pmh_serialize h ++ rootz ++ pad) ++ metaz ++ tiles ++ leaves) by (rewrite <- !app_assoc; reflexivity).
      rewrite sub_mid. reflexivity. }
    assert (Hr : read_range F 127 (N.of_nat (length rootz)) = Some rootz).
    { rewrite read_range_at by (rewrite Hlenfile; lia).
      replace (N.to_nat 127) with (length (pmh_serialize h)) by (rewrite Hhl; reflexivity). rewrite Nat2N.id. unfold F. rewrite sub_mid. reflexivity. }
    assert (Hl : read_range F (data_off + N.of_nat (length tiles)) (N.of_nat (length leaves)) = Some leaves).
    { rewrite read_range_at by (rewrite Hlenfile; unfold data_off; lia).
      replace (N.to_nat (data_off + N.of_nat (length tiles))) with (length (pmh_serialize h ++ rootz ++ pad ++ metaz ++ tiles)) by (rewrite !app_length, Hhl; unfold data_off; lia).
      rewrite Nat2N.id. unfold F.
      replace (pmh_serialize h ++ rootz ++ pad ++ metaz ++ tiles ++ leaves) with ((pmh_serialize h ++ rootz ++ pad ++ metaz ++ tiles) ++ leaves ++ []) by (rewrite app_nil_r, <- !app_assoc; reflexivity).
      rewrite sub_mid. reflexivity. }
    assert (Ht : read_range F (e_off e + data_off) (e_len e) = Some (PMWrite.sub tiles (e_off e) (e_len e))).
    { rewrite read_range_at by (rewrite Hlenfile; unfold data_off; lia). f_equal. rewrite <- sub_is_sub.
      replace (N.to_nat (e_off e + data_off)) with (length (pmh_serialize h ++ rootz ++ pad ++ metaz) + N.to_nat (e_off e))%nat by (rewrite !app_length, Hhl; unfold data_off; lia).
      unfold F. replace (pmh_serialize h ++ rootz ++ pad ++ metaz ++ tiles ++ leaves) with ((pmh_serialize h ++ rootz ++ pad ++ metaz) ++ tiles ++ leaves) by (rewrite <- !app_assoc; reflexivity).
      rewrite sub_skip. apply sub_app_l. lia. }
    rewrite Hm. unfold metaz at 1. rewrite Hzip. rewrite Hr. unfold rootz at 1. rewrite Hzip. rewrite Hl.
    rewrite Hparse. cbn [obind]. rewrite Hlk. cbn [obind].
    replace (u64_max <? e_off e + data_off) with false by (symmetry; apply N.ltb_ge; rewrite Hlenfile in Hfile; unfold data_off; lia).
    rewrite Ht. reflexivity.
  Qed.
  Hypothesis Hzip_ne : forall l : list entry, zip (serialize l) <> [].

  (* the file the writer lays out around the directory it builds (case 3: leaves of k entries) hands
     back, for every id of every run, the bytes of the tile-data section the writer's entry names *)
  Theorem pm_written_file_lookup av h0 k es meta tiles :
    cosmetic_ok h0 -> (0 < k)%nat -> runs_ok es -> Forall entry_ok es -> Forall (fun e => 0 < e_len e /\ 0 < e_run e) es ->
    N.of_nat (length es) <= 10000000000 ->
    let d := build_roots_leaves_enc zip k es in
    let file := pm_assemble zip h0 d meta tiles in
    N.of_nat (length (zip (serialize (d_root d)))) <= 16384 - 127 -> N.of_nat (length file) + 1 <= u64_max ->
    forall e t, In e es -> e_id e <= t < e_id e + e_run e -> e_off e + e_len e <= N.of_nat (length tiles) ->
    pm_file_lookup unzip av file t = Ok (Some (PMWrite.sub tiles (e_off e) (e_len e))).
  Proof.
    intros Hc Hk Hr Hok Hpos Hn d file Hroot Hfile e t Hin Ht Hrange.
    apply (pm_file_roundtrip av h0 d meta tiles Hc Hroot); [unfold file in Hfile; lia| | |exact Hrange].
    - apply (writer_root_parses_enc zip Hzip_ne av k es Hk Hr Hok Hn).
      unfold file, pm_assemble in Hfile. rewrite !app_length in Hfile. unfold d, MVT.two64, u64_max in *. lia.
    - assert (Hst : stored 1 (file_leaf unzip av (d_leaves_bytes d)) (d_root d) es).
      { apply (writer_tree_stored_leaf zip Hzip_ne (file_leaf unzip av (d_leaves_bytes d)) k es Hk Hpos).
        intros x Hx. destruct (placed_leaf_bytes zip Hzip_ne k es Hk Hr Hok Hn x Hx) as (Hb & Hbd & Hd). fold d in Hb, Hbd.
        unfold file_leaf. rewrite read_range_at by exact Hbd. rewrite sub_is_sub, Hb, Hzip. apply Hd. }
      exact (multi_level_lookup av _ 1 _ es Hst Hr e t Hin Ht 1%nat).
  Qed.

  (* case 1: all entries in the root directory, no leaves *)
  Theorem pm_written_file_lookup_root_only av h0 es meta tiles :
    cosmetic_ok h0 -> runs_ok es -> Forall entry_ok es -> Forall (fun e => 0 < e_len e /\ 0 < e_run e) es ->
    N.of_nat (length es) <= 10000000000 ->
    let d := mkDir es [] [] in
    let file := pm_assemble zip h0 d meta tiles in
    N.of_nat (length (zip (serialize es))) <= 16384 - 127 -> N.of_nat (length file) <= u64_max ->
    forall e t, In e es -> e_id e <= t < e_id e + e_run e -> e_off e + e_len e <= N.of_nat (length tiles) ->
    pm_file_lookup unzip av file t = Ok (Some (PMWrite.sub tiles (e_off e) (e_len e))).
  Proof.
    intros Hc Hr Hok Hpos Hn d file Hroot Hfile e t Hin Ht Hrange.
    apply (pm_file_roundtrip av h0 d meta tiles Hc Hroot Hfile); [| |exact Hrange].
    - cbn [d_root d]. apply (deserialize_serialize av []); [exact Hok| |exact Hn].
      apply runs_ok_nondec; [exact Hr|]. destruct es; [exact I|lia].
    - cbn [d_root d d_leaves_bytes]. rewrite Forall_forall in Hpos. destruct (Hpos e Hin) as [Hl Hrun].
      apply pm_lookup_hit; [|exact Hl|exact Hrun].
      apply (find_in_run av es e t Hr Hin); [left; lia|intros _; lia].
  Qed.
End WithCodec.

(* ---- any encoder: a PMTiles file that is valid by the published layout, whatever the order of its sections ---- *)
Section AnyEncoder.
  Variable unzip : bytes -> option bytes.

  Theorem pm_valid_file_lookup av file h mz meta rz rootraw root leaves d flat e t :
    pmh_deserialize (firstn 127 file) = Ok h ->
    read_range file (p_meta_off h) (p_meta_len h) = Some mz -> unzip mz = Some meta ->
    read_range file (p_root_off h) (p_root_len h) = Some rz -> unzip rz = Some rootraw -> deserialize av rootraw = Ok root ->
    read_range file (p_leaf_off h) (p_leaf_len h) = Some leaves ->
    (* a directory tree of at most two levels of leaf directories under the root (the reader's budget) over the tile entries `flat` *)
    (d <= 2)%nat -> stored d (file_leaf unzip av leaves) root flat -> runs_ok flat ->
    In e flat -> e_id e <= t < e_id e + e_run e ->
    e_off e + p_data_off h <= u64_max -> e_off e + p_data_off h + e_len e <= N.of_nat (length file) ->
    pm_file_lookup unzip av file t = Ok (Some (Crash.sub file (N.to_nat (e_off e + p_data_off h)) (N.to_nat (e_len e)))).
  Proof.
    intros Hh Hm1 Hm2 Hr1 Hr2 Hr3 Hl Hd Hst Hruns Hin Ht Hov Hrange.
    unfold pm_file_lookup. rewrite Hh. cbn [obind]. rewrite Hm1, Hm2, Hr1, Hr2, Hl, Hr3. cbn [obind].
    pose proof (multi_level_lookup av (file_leaf unzip av leaves) d root flat Hst Hruns e t Hin Ht (2 - d)%nat) as Hlk.
    replace (S d + (2 - d))%nat with 3%nat in Hlk by lia. rewrite Hlk. cbn [obind].
    replace (u64_max <? e_off e + p_data_off h) with false by (symmetry; apply N.ltb_ge; exact Hov).
    rewrite read_range_at by exact Hrange. reflexivity.
  Qed.
End AnyEncoder.

(* ================= C19: the PMTiles lookup path never panics ================= *)
From VT Require Import Proofs.NoPanicProofs.
Theorem pm_file_lookup_soft (unzip : bytes -> option bytes) file t : soft (pm_file_lookup unzip 1 file t).
Proof.
  unfold pm_file_lookup.
  pose proof (pmh_deserialize_soft (firstn 127 file)) as Sh. destruct (pmh_deserialize (firstn 127 file)) as [h| | |]; cbn [obind]; try exact Sh.
  destruct (read_range file (p_meta_off h) (p_meta_len h)); [|exact I]. destruct (unzip l); [|exact I].
  destruct (read_range file (p_root_off h) (p_root_len h)) as [rz|]; [|exact I]. destruct (unzip rz) as [rootraw|]; [|exact I].
  destruct (read_range file (p_leaf_off h) (p_leaf_len h)) as [leaves|]; [|exact I].
  pose proof (deserialize_soft rootraw) as Sd. destruct (deserialize 1 rootraw) as [root| | |]; cbn [obind]; try exact Sd.
  assert (Sleaf : forall o n, soft (file_leaf unzip 1 leaves o n)).
  { intros o n. unfold file_leaf. destruct (read_range leaves o n) as [z|]; [|exact I]. destruct (unzip z) as [raw|]; [|exact I]. apply deserialize_soft. }
  pose proof (pm_lookup_soft 3 (file_leaf unzip 1 leaves) Sleaf root t) as Sl.
  destruct (pm_lookup 1 3 (file_leaf unzip 1 leaves) root t) as [[e|]| | |]; cbn [obind]; try exact Sl; try exact I.
  destruct (u64_max <? e_off e + p_data_off h); [exact I|]. destruct (read_range file (e_off e + p_data_off h) (e_len e)); exact I.
Qed.
