(* C15 / C09 / C06: the rounding guard of from_geo. *)
From Coq Require Import ZArith Lia.
From VT Require Import Model.Geo.
Local Open Scope Z_scope.

Lemma clampz_range n v : 1 <= n -> 0 <= clampz n v <= n - 1.
Proof. unfold clampz. lia. Qed.
Lemma clampz_id n v : 0 <= v <= n - 1 -> clampz n v = v.
Proof. unfold clampz. lia. Qed.

Lemma div_cell S a e : 0 < S -> 0 <= e < S -> (a * S + e) / S = a.
Proof. intros HS He. symmetry. apply Z.div_unique with (r := e); lia. Qed.

(* the box of an axis is never empty and lies inside the level *)
Theorem axis_box_nonempty v S G n uw ue : 1 <= n ->
  let '(a, b) := axis_box v S G n uw ue in 0 <= a /\ a <= b /\ b <= n - 1.
Proof.
  intros Hn. unfold axis_box, lo_cell, hi_cell.
  pose proof (clampz_range n ((uw + (if N.eqb v 0 then 0 else G)) / S) Hn).
  pose proof (clampz_range n ((ue - G) / S) Hn). lia.
Qed.

(* tile box -> geographic bounds -> tile box is the identity, and stays so when the two real
   coordinates come back perturbed by less than the guard (floating point) *)
Theorem axis_roundtrip S G n a b e1 e2 : 0 < S -> 0 <= G -> 2 * G <= S ->
  0 <= a -> a <= b -> b <= n - 1 ->
  - G <= e1 < S - G -> G - S <= e2 < G ->
  axis_box 1 S G n (a * S + e1) ((b + 1) * S + e2) = (a, b).
Proof.
  intros HS HG H2 Ha Hab Hb He1 He2. unfold axis_box, lo_cell, hi_cell. cbn [N.eqb].
  replace (a * S + e1 + G) with (a * S + (e1 + G)) by lia.
  rewrite (div_cell S a (e1 + G)) by lia.
  replace ((b + 1) * S + e2 - G) with (b * S + (S + e2 - G)) by lia.
  rewrite (div_cell S b (S + e2 - G)) by lia.
  rewrite !clampz_id by lia. f_equal; lia.
Qed.

(* without the guard on the lower corner, a coordinate that comes back one sub-unit short of the
   tile edge falls into the neighbouring tile *)
Theorem axis_roundtrip_refuted_without_guard :
  axis_box 0 1000000 1 16 (1 * 1000000 - 1) (2 * 1000000 - 1) = (0, 1).
Proof. reflexivity. Qed.

(* coverage: every cell that the interval (uw + G, ue - G) reaches into belongs to the box *)
Theorem axis_covers v S G n uw ue i : 0 < S -> 0 <= G -> 1 <= n ->
  0 <= i <= n - 1 ->
  uw + G < (i + 1) * S -> i * S <= ue - G ->
  let '(a, b) := axis_box v S G n uw ue in a <= i <= b.
Proof.
  intros HS HG Hn Hi Hw He. unfold axis_box, lo_cell, hi_cell.
  set (g := if N.eqb v 0 then 0 else G). assert (Hg : 0 <= g <= G) by (unfold g; destruct (N.eqb v 0); lia).
  assert (L : (uw + g) / S <= i).
  { apply Z.lt_succ_r. apply Z.div_lt_upper_bound; lia. }
  assert (H : i <= (ue - G) / S).
  { apply Z.div_le_lower_bound; lia. }
  unfold clampz. lia.
Qed.

(* tightness: a cell of the box is reached by the interval between the two guarded coordinates
   (no cell beyond them), as long as no clamping happens *)
Theorem axis_tight S G n uw ue i : 0 < S -> 0 <= G ->
  0 <= uw + G -> uw + G < n * S -> 0 <= ue - G -> ue - G < n * S ->
  let '(a, b) := axis_box 1 S G n uw ue in
  a <= i <= b -> i * S <= Z.max (uw + G) (ue - G) /\ Z.min (uw + G) (ue - G) < (i + 1) * S.
Proof.
  intros HS HG H1 H2 H3 H4. unfold axis_box, lo_cell, hi_cell. cbn [N.eqb].
  assert (A : 0 <= (uw + G) / S <= n - 1).
  { split; [apply Z.div_pos; lia|]. apply Z.lt_succ_r. replace (Z.succ (n - 1)) with n by lia. apply Z.div_lt_upper_bound; lia. }
  assert (B : 0 <= (ue - G) / S <= n - 1).
  { split; [apply Z.div_pos; lia|]. apply Z.lt_succ_r. replace (Z.succ (n - 1)) with n by lia. apply Z.div_lt_upper_bound; lia. }
  rewrite !clampz_id by lia.
  pose proof (Z.mul_div_le (uw + G) S HS). pose proof (Z.mul_succ_div_gt (uw + G) S HS).
  pose proof (Z.mul_div_le (ue - G) S HS). pose proof (Z.mul_succ_div_gt (ue - G) S HS).
  intros Hi. nia.
Qed.
