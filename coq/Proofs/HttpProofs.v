(* C05: status of the tile endpoint; content negotiation on token lists. *)
From Coq Require Import List NArith Bool Lia ZifyBool.
From VT Require Import Model.Http.
Import ListNotations.
Local Open Scope N_scope.

(* with the empty-path guard the endpoint always produces a status (never a dropped connection) *)
Theorem status_total num has path : exists s, status 1 num has path = Some s /\ (s = 200 \/ s = 400 \/ s = 404).
Proof.
  unfold status. destruct (parse_tile_path 1 num path) eqn:E.
  - destruct (has z x y); eauto.
  - eauto.
  - eauto.
  - eauto.
  - exfalso. unfold parse_tile_path in E. destruct (as_vec path) as [|p0 [|p1 [|p2 r]]]; cbn in E;
      repeat match type of E with context [match ?x with _ => _ end] => destruct x end; discriminate.
Qed.

(* 200 exactly when the path parses to a coordinate that holds a tile (or is the metadata document) *)
Theorem status_200_iff num has path :
  status 1 num has path = Some 200 <->
  (parse_tile_path 1 num path = PMeta \/ exists z x y, parse_tile_path 1 num path = PCoord z x y /\ has z x y = true).
Proof.
  unfold status. destruct (parse_tile_path 1 num path) eqn:E.
  - destruct (has z x y) eqn:H; split.
    + intros _. right. eauto.
    + reflexivity.
    + discriminate.
    + intros [D|(z' & x' & y' & D & H')]; [discriminate|]. inversion D; subst. congruence.
  - split; [discriminate|]. intros [D|(z' & x' & y' & D & _)]; discriminate.
  - split; [intros _; now left | reflexivity].
  - split; [discriminate|]. intros [D|(z' & x' & y' & D & _)]; discriminate.
  - split; [discriminate|]. intros [D|(z' & x' & y' & D & _)]; discriminate.
Qed.

(* a parsed coordinate is always a valid TileCoord3 level and u32 coordinates *)
Theorem parsed_coord_in_range v num path z x y : parse_tile_path v num path = PCoord z x y -> z <= 31 /\ x <= 4294967295 /\ y <= 4294967295.
Proof.
  unfold parse_tile_path. destruct (as_vec path) as [|p0 [|p1 [|p2 r]]]; try (destruct (v =? 0); discriminate);
    try (repeat match goal with |- context [if ?c then _ else _] => destruct c end; discriminate).
  destruct (parse_uint 255 p0) as [z0|]; [|discriminate].
  destruct (parse_uint 4294967295 p1) as [x0|] eqn:Ex; [|discriminate].
  destruct (parse_uint 4294967295 (take_digits num p2)) as [y0|] eqn:Ey; [|discriminate].
  destruct (z0 <=? 31) eqn:Ez; [|discriminate]. intros H; inversion H; subst.
  assert (Hb : forall lim s v0, parse_uint lim s = Some v0 -> v0 <= lim).
  { intros lim s v0. unfold parse_uint. destruct (match s with 43 :: r0 => r0 | _ => s end) as [|c0 l0]; [discriminate|].
    destruct (digits_val 0 (c0 :: l0)) as [w|]; [|discriminate]. destruct (w <=? lim) eqn:E; [|discriminate]. intros H0; inversion H0; subst. lia. }
  split; [lia|]. split; [eapply Hb; eauto | eapply Hb; eauto].
Qed.

(* the y part: whatever follows the leading numeric characters is ignored (a file extension), and
   a leading run that contains a numeric character outside 0-9 is a bad request, not a coordinate *)
Lemma digits_val_all_digits l : forall acc v, digits_val acc l = Some v -> forallb is_digit l = true.
Proof.
  induction l as [|c r IH]; intros acc v H; [reflexivity|]. cbn [digits_val forallb] in *.
  destruct (is_digit c); [|discriminate]. cbn. eapply IH; eauto.
Qed.
Lemma parse_uint_ascii lim s v : parse_uint lim s = Some v -> forallb (fun c => is_digit c || (c =? 43)) s = true.
Proof.
  unfold parse_uint. intros H.
  assert (G : forall t, match t with [] => None | _ => match digits_val 0 t with Some w => if w <=? lim then Some w else None | None => None end end = Some v -> forallb is_digit t = true).
  { intros t. destruct t as [|c0 t0]; [discriminate|]. destruct (digits_val 0 (c0 :: t0)) eqn:E; [|discriminate]. intros _. eapply digits_val_all_digits; eauto. }
  assert (W : forall t, forallb is_digit t = true -> forallb (fun c => is_digit c || (c =? 43)) t = true).
  { induction t as [|c t IHt]; [reflexivity|]. cbn [forallb]. intros Ht. apply andb_true_iff in Ht. destruct Ht as [H1 H2]. rewrite H1, IHt by exact H2. reflexivity. }
  destruct s as [|c r]; [discriminate|].
  destruct c as [|p]; [apply W; apply G; exact H|].
  do 6 (try destruct p as [p|p|]); try (apply W; apply G; exact H).
  cbn [forallb]. change (43 =? 43) with true. rewrite orb_true_r. cbn [andb]. apply W. apply G. exact H.
Qed.
Theorem y_non_ascii_numeric_is_bad_request v num path p0 p1 p2 rest c :
  as_vec path = p0 :: p1 :: p2 :: rest ->
  In c (take_digits num p2) -> is_digit c = false -> c <> 43 ->
  parse_tile_path v num path = PBad.
Proof.
  intros Hv Hin Hd Hp. unfold parse_tile_path. rewrite Hv.
  assert (E : parse_uint 4294967295 (take_digits num p2) = None).
  { destruct (parse_uint 4294967295 (take_digits num p2)) eqn:E; [|reflexivity].
    apply parse_uint_ascii in E. rewrite forallb_forall in E. specialize (E c Hin). rewrite Hd in E. cbn in E.
    apply N.eqb_eq in E. contradiction. }
  rewrite E. destruct (parse_uint 255 p0); destruct (parse_uint 4294967295 p1); reflexivity.
Qed.

(* the pinned source drops the connection for an empty tile path *)
Lemma empty_path_panics_v0 num has : status 0 num has [47] = None.
Proof. reflexivity. Qed.

(* ---------- Accept-Encoding: substring test = token membership on well-formed lists ---------- *)
(* a header value is a list of tokens joined by separators; a pattern occurrence cannot span a
   separator when the separator starts with a character that is not in the pattern *)
Lemma contains_app_l p a b : contains p a = true -> contains p (a ++ b) = true.
Proof.
  revert p. induction a as [|x a IH]; intros p.
  - cbn. destruct p; [intros _; destruct b; reflexivity | cbn; discriminate].
  - cbn [contains app]. intros H. apply orb_true_iff in H. apply orb_true_iff. destruct H as [H|H].
    + left. clear IH. revert x a H. induction p as [|c p IHp]; intros x a H; [reflexivity|].
      cbn [prefix_of app] in *. apply andb_true_iff in H. destruct H as [H1 H2]. rewrite H1. cbn.
      destruct a as [|y a]; [destruct p; [reflexivity | discriminate]|]. apply IHp. exact H2.
    + right. apply IH. exact H.
Qed.

Lemma contains_app_r p a b : contains p b = true -> contains p (a ++ b) = true.
Proof. induction a as [|x a IH]; intros H; cbn [app contains]; [exact H|]. rewrite IH by exact H. apply orb_true_r. Qed.

(* if the header lists the token (anywhere), the encoding is allowed *)
Theorem token_listed_allowed tok pre post : contains tok (pre ++ tok ++ post) = true.
Proof.
  apply contains_app_r. apply contains_app_l.
  destruct tok as [|c t]; [reflexivity|]. cbn [contains]. apply orb_true_iff. left.
  induction (c :: t) as [|a l IH]; [reflexivity|]. cbn. now rewrite N.eqb_refl.
Qed.

(* finite sweep: over every ordered selection of distinct tokens from {gzip, br, deflate,
   identity, zstd} joined by ", " the substring test agrees with token membership *)
Definition tokens : list str :=
  [s_gzip; s_br; [100;101;102;108;97;116;101]; [105;100;101;110;116;105;116;121]; [122;115;116;100]].
Fixpoint join (sep : str) (l : list str) : str :=
  match l with [] => [] | [x] => x | x :: r => x ++ sep ++ join sep r end.
Fixpoint selections (n : nat) (pool : list str) : list (list str) :=
  match n with
  | O => [[]]
  | S k => [] :: flat_map (fun t => map (cons t) (selections k (filter (fun u => negb (if list_eq_dec N.eq_dec t u then true else false)) pool))) pool
  end.
Definition mem_str (t : str) (l : list str) : bool := existsb (fun u => if list_eq_dec N.eq_dec t u then true else false) l.

Theorem accept_encoding_subsets_exact :
  forallb (fun sel => let h := join [44; 32] sel in
             Bool.eqb (contains s_gzip h) (mem_str s_gzip sel) && Bool.eqb (contains s_br h) (mem_str s_br sel))
          (selections 5 tokens) = true.
Proof. vm_compute. reflexivity. Qed.
