(* C18: the VPL parser. Quoted values round-trip; (more: see below) *)
From Coq Require Import List NArith Bool Lia ZifyBool.
From VT Require Import Model.VPL.
Import ListNotations.
Local Open Scope N_scope.

Definition esc_char (c : N) : str :=
  if c =? 92 then [92; 92] else if c =? 34 then [92; 34] else if c =? 10 then [92; 110] else if c =? 9 then [92; 116] else [c].
Definition escape (s : str) : str := flat_map esc_char s.
Definition qprint (s : str) : str := 34 :: escape s ++ [34].

Lemma pstring_go_escape s : forall acc tail, pstring_go acc (escape s ++ 34 :: tail) = ROk (acc ++ s) (34 :: tail).
Proof.
  induction s as [|c r IH]; intros acc tail; cbn [escape flat_map app].
  - cbn [pstring_go]. rewrite N.eqb_refl. now rewrite app_nil_r.
  - rewrite <- app_assoc. fold (escape r). unfold esc_char.
    destruct (c =? 92) eqn:E92; [apply N.eqb_eq in E92; subst; cbn [app pstring_go N.eqb Pos.eqb]; rewrite IH; now rewrite <- app_assoc|].
    destruct (c =? 34) eqn:E34; [apply N.eqb_eq in E34; subst; cbn [app pstring_go N.eqb Pos.eqb]; rewrite IH; now rewrite <- app_assoc|].
    destruct (c =? 10) eqn:E10; [apply N.eqb_eq in E10; subst; cbn [app pstring_go N.eqb Pos.eqb]; rewrite IH; now rewrite <- app_assoc|].
    destruct (c =? 9) eqn:E9; [apply N.eqb_eq in E9; subst; cbn [app pstring_go N.eqb Pos.eqb]; rewrite IH; now rewrite <- app_assoc|].
    cbn [app pstring_go]. rewrite E34, E92. rewrite IH. now rewrite <- app_assoc.
Qed.

(* every string (any characters, also empty with the opt variant) survives quoting *)
Theorem quoted_roundtrip s tail : quoted 1 (qprint s ++ tail) = ROk s tail.
Proof.
  unfold quoted, qprint. cbn [app]. rewrite <- app_assoc. cbn [app].
  destruct s as [|c r].
  - cbn [escape flat_map app pstring N.eqb Pos.eqb]. reflexivity.
  - assert (Hp : pstring (escape (c :: r) ++ 34 :: tail) = pstring_go [] (escape (c :: r) ++ 34 :: tail)).
    { unfold pstring. cbn [escape flat_map]. unfold esc_char.
      repeat match goal with |- context [if ?b then _ else _] => destruct b eqn:? end; cbn [app]; try reflexivity;
      match goal with |- context [?x =? 34] => destruct (x =? 34) eqn:E; [|reflexivity] end; apply N.eqb_eq in E; subst; discriminate. }
    rewrite Hp, pstring_go_escape. reflexivity.
Qed.

(* with the pinned parser an empty quoted value is rejected (and the property then fails hard) *)
Lemma empty_value_rejected_v0 : parse_vpl 0 [97; 32; 98; 61; 34; 34] = None.
Proof. reflexivity. Qed.
Lemma empty_value_accepted_v1 : parse_vpl 1 [97; 32; 98; 61; 34; 34] = Some [Node [97] [([98], [[]])] []].
Proof. reflexivity. Qed.
