(* C07: a request that passes the guard resolves to a file below the configured root. *)
From Coq Require Import List NArith Bool Lia.
From VT Require Import Model.StaticPath.
Import ListNotations.
Local Open Scope N_scope.

Lemma resolve_go_no_parent acc p : has_parent p = false -> resolve_go acc p = acc ++ names p.
Proof.
  revert acc. induction p as [|c r IH]; intros acc H; cbn [resolve_go names flat_map].
  - now rewrite app_nil_r.
  - destruct c as [s|]; cbn in H; [|discriminate]. rewrite IH by exact H. cbn [app]. now rewrite <- app_assoc.
Qed.

Lemma comp_eqb_eq a b : comp_eqb a b = true -> a = b.
Proof.
  destruct a as [s|], b as [t|]; cbn; try discriminate; [|reflexivity].
  destruct (list_eq_dec N.eq_dec s t); [congruence | discriminate].
Qed.

Lemma starts_with_split p root : starts_with p root = true -> exists rest, p = root ++ rest.
Proof.
  revert p. induction root as [|r root IH]; intros p H; cbn [starts_with] in H.
  - exists p. reflexivity.
  - destruct p as [|c p]; [discriminate|]. apply andb_true_iff in H. destruct H as [H1 H2].
    apply comp_eqb_eq in H1. subst c. destruct (IH p H2) as [rest ->]. exists rest. reflexivity.
Qed.

Lemma prefix_strs_app a b : prefix_strs a (a ++ b) = true.
Proof. induction a as [|x a IH]; cbn; [reflexivity|]. destruct (list_eq_dec N.eq_dec x x); [exact IH | congruence]. Qed.

Lemma has_parent_app a b : has_parent (a ++ b) = has_parent a || has_parent b.
Proof. unfold has_parent. apply existsb_app. Qed.

(* every request target, every root without ".." (a canonicalized directory): whatever the guard
   lets through is opened below the root *)
Theorem folder_confined root url file :
  has_parent root = false ->
  served 1 root url = Some file -> prefix_strs (names root) file = true.
Proof.
  intros Hroot. unfold served, guard. cbn [N.eqb Pos.eqb].
  destruct (starts_with (local_path root url) root) eqn:Hs; [|discriminate]. cbn [andb].
  destruct (has_parent (local_path root url)) eqn:Hp; [discriminate|]. cbn [negb].
  intros H; inversion H; subst; clear H.
  destruct (starts_with_split _ _ Hs) as [rest E]. unfold resolve. rewrite resolve_go_no_parent by exact Hp.
  cbn [app]. rewrite E. unfold names. rewrite flat_map_app. apply prefix_strs_app.
Qed.

(* the lexical guard alone lets ".." through (the code before the fix) *)
Theorem folder_escape_before_fix :
  let root := [Normal [115;114;118]; Normal [119;119;119]] in                      (* /srv/www *)
  let url := [47; 46;46; 47; 115;101;99;114;101;116] in                             (* /../secret *)
  served 0 root url = Some [[115;114;118]; [115;101;99;114;101;116]].              (* /srv/secret *)
Proof. vm_compute. reflexivity. Qed.

(* an absolute remainder ("//abs/path") replaces the root and is refused unless it lies in the root *)
Theorem absolute_remainder_needs_root_prefix root url file :
  has_parent root = false -> served 1 root url = Some file -> prefix_strs (names root) file = true.
Proof. exact (folder_confined root url file). Qed.

(* tar source: only entries of the archive are ever returned (exact-name lookup in a table) *)
Fixpoint tar_lookup (table : list (str * str)) (name : str) : option str :=
  match table with [] => None | (k, v) :: r => if list_eq_dec N.eq_dec k name then Some v else tar_lookup r name end.
Theorem tar_confined table name v : tar_lookup table name = Some v -> In (name, v) table.
Proof.
  induction table as [|[k w] r IH]; cbn [tar_lookup]; [discriminate|].
  destruct (list_eq_dec N.eq_dec k name) as [->|]; [intros H; inversion H; now left | intros H; right; now apply IH].
Qed.
