(* Proofs about Model/BBox.v: boxes behave as the sets of tiles they denote. *)
From Coq Require Import List NArith ZArith Bool Lia ZifyBool ZifyN Permutation Arith Sorted.
From VT Require Import Base.Outcome Model.BBox.
Import ListNotations.
Local Open Scope N_scope.

Definition In_box (b : bbox) (x y : N) : Prop :=
  x_min b <= x /\ x <= x_max b /\ y_min b <= y /\ y <= y_max b.

(* well-formed: what every public constructor and set operation establishes *)
Definition wf (b : bbox) : Prop :=
  level b <= 31 /\ bmax b = level_max (level b) /\
  x_max b <= bmax b /\ y_max b <= bmax b /\ x_min b <= bmax b + 1 /\ y_min b <= bmax b + 1.
Ltac unf := unfold In_box, contains3, contains2, set_empty, count_tiles, width, height, is_empty in *; cbn [level x_min y_min x_max y_max bmax] in *.

Lemma empty_spec b : is_empty b = true <-> (forall x y, ~ In_box b x y).
Proof.
  split.
  - intros He x y H. unf. lia.
  - intros H. destruct (is_empty b) eqn:E; [reflexivity|]. exfalso.
    apply (H (x_min b) (y_min b)). unf. lia.
Qed.

Lemma contains2_spec b x y : contains2 b x y = true <-> In_box b x y.
Proof. unf. lia. Qed.

Lemma contains3_spec b z x y : contains3 b z x y = true <-> z = level b /\ In_box b x y.
Proof. unf. lia. Qed.

Lemma set_empty_empty b : is_empty (set_empty b) = true.
Proof. reflexivity. Qed.

Ltac wfd H := let a := fresh "Hl" in let b := fresh "Hm" in let c := fresh "Hx1" in let d := fresh "Hy1" in
  let e := fresh "Hx0" in let f := fresh "Hy0" in destruct H as (a & b & c & d & e & f).

Lemma new_empty_empty z b : new_empty z = Ok b -> is_empty b = true /\ wf b.
Proof.
  unfold new_empty. destruct (31 <? z) eqn:E; [discriminate|]. intros H; inversion H; subst; clear H.
  unfold wf. unf. repeat split; lia.
Qed.

Lemma new_wf z x0 y0 x1 y1 b : new z x0 y0 x1 y1 = Ok b ->
  wf b /\ is_empty b = false /\ level b = z /\ x_min b = x0 /\ y_min b = y0 /\ x_max b = x1 /\ y_max b = y1.
Proof.
  unfold new.
  destruct (31 <? z) eqn:E1; [discriminate|].
  destruct (level_max z <? x1) eqn:E2; [discriminate|].
  destruct (level_max z <? y1) eqn:E3; [discriminate|].
  destruct (x1 <? x0) eqn:E4; [discriminate|].
  destruct (y1 <? y0) eqn:E5; [discriminate|].
  intros H; inversion H; subst; clear H. unfold wf. unf. repeat split; lia.
Qed.

Lemma new_full_spec z b : new_full z = Ok b ->
  wf b /\ forall x y, In_box b x y <-> (x <= level_max z /\ y <= level_max z).
Proof.
  unfold new_full. destruct (31 <? z) eqn:E; [discriminate|]. intros H.
  destruct (new_wf _ _ _ _ _ _ H) as (Hwf & _ & _ & A & B & C & D).
  split; [assumption|]. intros x y. unfold In_box. rewrite A, B, C, D. lia.
Qed.

(* ---------- intersection ---------- *)
Lemma intersect_spec a b c : intersect_bbox a b = Ok c ->
  forall x y, In_box c x y <-> In_box a x y /\ In_box b x y.
Proof.
  unfold intersect_bbox. destruct (negb (level a =? level b)); [discriminate|].
  destruct (negb (is_empty a) && negb (is_empty b)) eqn:E; intros H; inversion H; subst; clear H; intros x y; unf; lia.
Qed.

Lemma intersect_level_mismatch a b : level a <> level b -> intersect_bbox a b = Err.
Proof. intros H. unfold intersect_bbox. destruct (N.eqb_spec (level a) (level b)); [congruence | reflexivity]. Qed.

Lemma intersect_total a b : level a = level b -> exists c, intersect_bbox a b = Ok c.
Proof.
  intros H. unfold intersect_bbox. rewrite H, N.eqb_refl. cbn [negb].
  destruct (negb (is_empty a) && negb (is_empty b)); eauto.
Qed.

Lemma intersect_wf a b c : wf a -> wf b -> intersect_bbox a b = Ok c -> wf c.
Proof.
  intros Ha Hb. wfd Ha. wfd Hb. unfold intersect_bbox.
  destruct (N.eqb_spec (level a) (level b)) as [El|]; cbn [negb]; [|discriminate].
  assert (Mab : bmax a = bmax b) by congruence.
  destruct (negb (is_empty a) && negb (is_empty b)) eqn:E; intros H; inversion H; subst; clear H; unfold wf; unf;
    repeat split; lia.
Qed.

(* ---------- bounding union ---------- *)
Lemma include_spec a b c : wf a -> wf b -> include_bbox a b = Ok c ->
  (forall x y, In_box a x y \/ In_box b x y -> In_box c x y)
  /\ (forall d, (forall x y, In_box a x y -> In_box d x y) -> (forall x y, In_box b x y -> In_box d x y) ->
                forall x y, In_box c x y -> In_box d x y)
  /\ wf c.
Proof.
  intros Ha Hb. pose proof Ha as Ha'. pose proof Hb as Hb'. wfd Ha. wfd Hb. unfold include_bbox.
  destruct (N.eqb_spec (level a) (level b)) as [El|]; cbn [negb]; [|discriminate].
  destruct (is_empty b) eqn:Eb.
  { intros H; inversion H; subst; clear H. split; [|split].
    - intros x y [H|H]; [assumption|]. exfalso. revert H. now apply empty_spec.
    - intros d Hda _ x y. apply Hda.
    - assumption. }
  destruct (is_empty a) eqn:Ea.
  { intros H; inversion H; subst; clear H. split; [|split].
    - intros x y [H|H]; [|assumption]. exfalso. revert H. now apply empty_spec.
    - intros d _ Hdb x y. apply Hdb.
    - assumption. }
  intros H; inversion H; subst; clear H.
  assert (Mab : bmax a = bmax b) by congruence.
  split; [|split].
  - intros x y. unf. lia.
  - intros d Hda Hdb x y.
    pose proof (Hda (x_min a) (y_min a)) as A1. pose proof (Hda (x_max a) (y_max a)) as A2.
    pose proof (Hdb (x_min b) (y_min b)) as B1. pose proof (Hdb (x_max b) (y_max b)) as B2.
    unf. lia.
  - unfold wf; unf. repeat split; lia.
Qed.

(* ---------- overlap ---------- *)
Lemma overlaps_spec a b r : overlaps_bbox a b = Ok r ->
  (r = true <-> exists x y, In_box a x y /\ In_box b x y).
Proof.
  unfold overlaps_bbox. destruct (negb (level a =? level b)); [discriminate|].
  destruct (is_empty a || is_empty b) eqn:E; intros H; inversion H; subst; clear H.
  - split; [discriminate|]. intros (x & y & Ha & Hb). unf. lia.
  - split.
    + intros Hr. exists (N.max (x_min a) (x_min b)), (N.max (y_min a) (y_min b)). unf. lia.
    + intros (x & y & Ha & Hb). unf. lia.
Qed.

(* ---------- include_coord ---------- *)
Lemma include_coord_spec b x y : wf b -> x <= bmax b -> y <= bmax b ->
  let c := include_coord b x y in
  In_box c x y /\ (forall u v, In_box b u v -> In_box c u v)
  /\ (forall d, In_box d x y -> (forall u v, In_box b u v -> In_box d u v) -> forall u v, In_box c u v -> In_box d u v)
  /\ wf c /\ is_empty c = false.
Proof.
  intros Hb Hx Hy. wfd Hb. unfold include_coord. destruct (is_empty b) eqn:E; cbn zeta.
  - split; [unf; lia|]. split; [intros u v H; exfalso; revert H; now apply empty_spec|].
    split; [intros d Hd _ u v; unf; intros; assert (u = x) by lia; assert (v = y) by lia; subst; assumption|].
    split; [unfold wf; unf; repeat split; lia | unf; lia].
  - split; [unf; lia|]. split; [intros u v; unf; lia|].
    split.
    + intros d Hd Hdb u v. pose proof (Hdb (x_min b) (y_min b)) as B1. pose proof (Hdb (x_max b) (y_max b)) as B2.
      unf. lia.
    + split; [unfold wf; unf; repeat split; lia | unf; lia].
Qed.

(* ---------- enumeration ---------- *)
Lemma range_from_In a n x : In x (range_from a n) <-> a <= x /\ x < a + N.of_nat n.
Proof.
  revert a. induction n as [|k IH]; intros a; cbn [range_from In].
  - lia.
  - rewrite IH. lia.
Qed.

Lemma range_from_length a n : length (range_from a n) = n.
Proof. revert a. induction n as [|k IH]; intros a; cbn [range_from length]; [reflexivity | now rewrite IH]. Qed.

Lemma range_from_NoDup a n : NoDup (range_from a n).
Proof.
  revert a. induction n as [|k IH]; intros a; cbn [range_from]; constructor; [|apply IH].
  rewrite range_from_In. lia.
Qed.

Lemma range_from_nth a n i d : (i < n)%nat -> nth i (range_from a n) d = a + N.of_nat i.
Proof.
  revert a i. induction n as [|k IH]; intros a i Hi; [lia|]. cbn [range_from].
  destruct i as [|j]; cbn [nth]; [lia|]. rewrite IH by lia. lia.
Qed.

Lemma range_incl_In a b x : In x (range_incl a b) <-> a <= x /\ x <= b.
Proof.
  unfold range_incl. destruct (b <? a) eqn:E; cbn [In]; [lia|]. rewrite range_from_In. lia.
Qed.

Lemma range_incl_length a b : N.of_nat (length (range_incl a b)) = if b <? a then 0 else b - a + 1.
Proof.
  unfold range_incl. destruct (b <? a) eqn:E; cbn [length]; [reflexivity|]. rewrite range_from_length. lia.
Qed.

Lemma range_incl_NoDup a b : NoDup (range_incl a b).
Proof. unfold range_incl. destruct (b <? a); [constructor | apply range_from_NoDup]. Qed.

Lemma iter_coords_In b x y : In (x, y) (iter_coords b) <-> In_box b x y.
Proof.
  unfold iter_coords, In_box. rewrite in_flat_map. split.
  - intros (y0 & Hy & Hin). apply in_map_iff in Hin. destruct Hin as (x0 & E & Hx). inversion E; subst.
    apply range_incl_In in Hy. apply range_incl_In in Hx. lia.
  - intros H. exists y. split; [apply range_incl_In; lia|]. apply in_map_iff. exists x. split; [reflexivity|].
    apply range_incl_In. lia.
Qed.

Lemma flat_map_const_length {A B} (f : A -> list B) l k :
  (forall a, In a l -> length (f a) = k) -> length (flat_map f l) = (length l * k)%nat.
Proof.
  induction l as [|a r IH]; intros H; cbn [flat_map length]; [reflexivity|].
  rewrite app_length, H by (now left). rewrite IH by (intros; apply H; now right). lia.
Qed.

Lemma iter_coords_length b : N.of_nat (length (iter_coords b)) = count_tiles b.
Proof.
  unfold iter_coords.
  rewrite (flat_map_const_length _ _ (length (range_incl (x_min b) (x_max b)))) by (intros; apply map_length).
  rewrite Nat2N.inj_mul, !range_incl_length. unfold count_tiles, width, height.
  destruct (x_max b <? x_min b), (y_max b <? y_min b); lia.
Qed.

Lemma NoDup_app_intro {A} (l1 l2 : list A) :
  NoDup l1 -> NoDup l2 -> (forall a, In a l1 -> ~ In a l2) -> NoDup (l1 ++ l2).
Proof.
  induction l1 as [|a r IH]; intros H1 H2 Hd; cbn [app]; [assumption|].
  inversion H1 as [|? ? Hn Hr]; subst. constructor.
  - rewrite in_app_iff. intros [H|H]; [tauto|]. apply (Hd a); [now left | assumption].
  - apply IH; [assumption|assumption|]. intros b Hb. apply Hd. now right.
Qed.

Lemma iter_coords_NoDup b : NoDup (iter_coords b).
Proof.
  unfold iter_coords. pose proof (range_incl_NoDup (y_min b) (y_max b)) as Hy.
  induction (range_incl (y_min b) (y_max b)) as [|y r IH]; cbn [flat_map]; [constructor|].
  inversion Hy as [|? ? Hn Hr]; subst. apply NoDup_app_intro.
  - apply FinFun.Injective_map_NoDup; [|apply range_incl_NoDup]. intros u v E. now inversion E.
  - now apply IH.
  - intros [u v] H1 H2. apply in_map_iff in H1. destruct H1 as (x0 & E & _). inversion E; subst.
    apply in_flat_map in H2. destruct H2 as (y0 & Hy0 & H2). apply in_map_iff in H2.
    destruct H2 as (x1 & E1 & _). inversion E1; subst. contradiction.
Qed.

(* row-major order: strictly increasing in (y, x) *)
Definition lex_lt (p q : N * N) : Prop := snd p < snd q \/ (snd p = snd q /\ fst p < fst q).

Lemma range_from_sorted a n : StronglySorted N.lt (range_from a n).
Proof.
  revert a. induction n as [|k IH]; intros a; cbn [range_from]; constructor; [apply IH|].
  apply Forall_forall. intros x Hx. apply range_from_In in Hx. lia.
Qed.

Lemma iter_coords_sorted b : StronglySorted lex_lt (iter_coords b).
Proof.
  unfold iter_coords.
  assert (Hy : StronglySorted N.lt (range_incl (y_min b) (y_max b))).
  { unfold range_incl. destruct (_ <? _); [constructor | apply range_from_sorted]. }
  assert (Hx : StronglySorted N.lt (range_incl (x_min b) (x_max b))).
  { unfold range_incl. destruct (_ <? _); [constructor | apply range_from_sorted]. }
  induction Hy as [|y r Hr IH Hall]; cbn [flat_map]; [constructor|].
  set (row := map (fun x => (x, y)) (range_incl (x_min b) (x_max b))).
  assert (Hrow : StronglySorted lex_lt row).
  { unfold row. clear - Hx. induction Hx as [|x xs Hxs IHx Hall]; cbn [map]; constructor; [assumption|].
    apply Forall_forall. intros p Hp. apply in_map_iff in Hp. destruct Hp as (x' & <- & Hx').
    rewrite Forall_forall in Hall. right. cbn. split; [reflexivity | now apply Hall]. }
  assert (Hcross : forall p q, In p row -> In q (flat_map (fun y0 => map (fun x => (x, y0)) (range_incl (x_min b) (x_max b))) r) -> lex_lt p q).
  { intros p q Hp Hq. apply in_map_iff in Hp. destruct Hp as (x0 & <- & _).
    apply in_flat_map in Hq. destruct Hq as (y0 & Hy0 & Hq). apply in_map_iff in Hq. destruct Hq as (x1 & <- & _).
    left. cbn. rewrite Forall_forall in Hall. now apply Hall. }
  clear Hx. induction Hrow as [|p ps Hps IHp Hallp]; cbn [app]; [assumption|]. constructor.
  - apply IHp. intros p' q Hp'. apply Hcross. now right.
  - apply Forall_forall. intros q Hq. apply in_app_or in Hq. destruct Hq as [Hq|Hq].
    + rewrite Forall_forall in Hallp. now apply Hallp.
    + apply Hcross; [now left | assumption].
Qed.

(* ---------- index <-> coordinate ---------- *)
Lemma index_inverse_1 b x y i : wf b -> In_box b x y ->
  get_tile_index 1 b x y = Ok i -> i < count_tiles b /\ get_coord_by_index 1 b i = Ok (x, y).
Proof.
  intros Hwf Hin. unfold get_tile_index. rewrite (proj2 (contains2_spec b x y) Hin). cbn [negb N.eqb Pos.eqb].
  intros H; inversion H; subst; clear H.
  unfold get_coord_by_index. cbn [N.eqb Pos.eqb]. unf.
  destruct (x_max b <? x_min b) eqn:Ex; [lia|]. destruct (y_max b <? y_min b) eqn:Ey; [lia|].
  set (w := x_max b - x_min b + 1). assert (Hw : x_max b + 1 - x_min b = w) by lia. rewrite Hw.
  set (dx := x - x_min b). set (dy := y - y_min b).
  assert (Hdx : dx < w) by lia. assert (Hdy : dy < y_max b - y_min b + 1) by lia.
  assert (Hlt : dy * w + dx < w * (y_max b - y_min b + 1)) by nia.
  split; [exact Hlt|].
  destruct (dy * w + dx <? w * (y_max b - y_min b + 1)) eqn:E; [|lia]. cbn [negb].
  destruct (w =? 0) eqn:E0; [lia|].
  assert (Hm : (dy * w + dx) mod w = dx).
  { rewrite N.add_comm, N.mod_add by lia. apply N.mod_small. exact Hdx. }
  assert (Hd : (dy * w + dx) / w = dy).
  { rewrite N.add_comm, N.div_add by lia. rewrite N.div_small by exact Hdx. lia. }
  rewrite Hm, Hd. f_equal. f_equal; lia.
Qed.

Lemma index_inverse_2 b i : i < count_tiles b ->
  exists x y, get_coord_by_index 1 b i = Ok (x, y) /\ In_box b x y /\ get_tile_index 1 b x y = Ok i.
Proof.
  intros Hi. unfold get_coord_by_index. cbn [N.eqb Pos.eqb].
  destruct (i <? count_tiles b) eqn:E; [|lia]. cbn [negb].
  unfold count_tiles, width, height in *.
  destruct (x_max b <? x_min b) eqn:Ex; [lia|]. destruct (y_max b <? y_min b) eqn:Ey; [lia|].
  set (w := x_max b - x_min b + 1) in *. set (h := y_max b - y_min b + 1) in *.
  destruct (w =? 0) eqn:E0; [lia|].
  assert (Hm : i mod w < w) by (apply N.mod_lt; lia).
  assert (Hd : i / w < h) by (apply N.div_lt_upper_bound; lia).
  exists (i mod w + x_min b), (i / w + y_min b). split; [reflexivity|].
  assert (Hin : In_box b (i mod w + x_min b) (i / w + y_min b)).
  { revert Hm Hd. generalize (i mod w) (i / w). intros r q Hr Hq. unfold In_box. subst w h. clear E Hi E0. lia. }
  split; [exact Hin|].
  unfold get_tile_index. rewrite (proj2 (contains2_spec _ _ _) Hin). cbn [negb N.eqb Pos.eqb]. f_equal.
  assert (Hw : x_max b + 1 - x_min b = w) by lia. rewrite Hw.
  rewrite !N.add_sub. rewrite (N.mul_comm (i / w) w). symmetry. apply N.div_mod. lia.
Qed.

(* the pinned (u32) arithmetic agrees with the exact one whenever the box has < 2^32 tiles *)
Lemma index_variant0_agrees b x y : wf b -> count_tiles b < u32_lim -> In_box b x y ->
  get_tile_index 0 b x y = get_tile_index 1 b x y.
Proof.
  intros (Hl & Hm & Hx1 & Hy1 & Hx0 & Hy0) Hc Hin. unfold get_tile_index.
  rewrite (proj2 (contains2_spec b x y) Hin). cbn [negb N.eqb Pos.eqb].
  unfold count_tiles, width, height, In_box in *.
  destruct (x_max b <? x_min b) eqn:Ex; [lia|]. destruct (y_max b <? y_min b) eqn:Ey; [lia|].
  assert (Hmax : bmax b < 2147483648).
  { rewrite Hm. unfold level_max. assert (2 ^ level b <= 2 ^ 31) by (apply N.pow_le_mono_r; lia).
    change (2 ^ 31) with 2147483648 in H. lia. }
  unfold u32_add, u32_mul, obind, u32_lim in *.
  destruct (x_max b + 1 <? 4294967296) eqn:E1; [|lia].
  set (w := x_max b - x_min b + 1) in *. assert (Hw : x_max b + 1 - x_min b = w) by lia. rewrite Hw.
  assert ((y - y_min b) * w + (x - x_min b) < w * (y_max b - y_min b + 1)) by nia.
  destruct ((y - y_min b) * w <? 4294967296) eqn:E2; [|nia].
  destruct ((y - y_min b) * w + (x - x_min b) <? 4294967296) eqn:E3; [reflexivity|lia].
Qed.

(* ---------- transforms ---------- *)
Lemma flip_y_spec b c : wf b -> flip_y b = Ok c ->
  wf c /\ (forall x y, y <= bmax b -> (In_box c x y <-> In_box b x (bmax b - y))).
Proof.
  intros (Hl & Hm & Hx1 & Hy1 & Hx0 & Hy0). unfold flip_y.
  destruct (is_empty b) eqn:E.
  - intros H; inversion H; subst; clear H. split; [unfold wf; tauto|].
    intros x y _. split; intros H; exfalso; revert H; now apply empty_spec.
  - destruct (bmax b <? y_max b) eqn:E1; [discriminate|]. destruct (bmax b <? y_min b) eqn:E2; [discriminate|].
    intros H; inversion H; subst; clear H. unfold wf. unf. split; [repeat split; lia|]. intros x y Hy. lia.
Qed.

Lemma flip_y_total b : wf b -> exists c, flip_y b = Ok c.
Proof.
  intros (Hl & Hm & Hx1 & Hy1 & Hx0 & Hy0). unfold flip_y. destruct (is_empty b) eqn:E; [eauto|].
  unf. destruct (bmax b <? y_max b) eqn:E1; [lia|]. destruct (bmax b <? y_min b) eqn:E2; [lia|]. eauto.
Qed.

Lemma flip_y_involutive b c : wf b -> flip_y b = Ok c -> flip_y c = Ok b.
Proof.
  intros (Hl & Hm & Hx1 & Hy1 & Hx0 & Hy0). unfold flip_y. destruct (is_empty b) eqn:E.
  - intros H; inversion H; subst; clear H. now rewrite E.
  - unf. destruct (bmax b <? y_max b) eqn:E1; [discriminate|]. destruct (bmax b <? y_min b) eqn:E2; [discriminate|].
    intros H; inversion H; subst; clear H. cbn [level x_min y_min x_max y_max bmax].
    destruct ((x_max b <? x_min b) || (bmax b - y_min b <? bmax b - y_max b)) eqn:E3; [lia|].
    destruct (bmax b <? bmax b - y_min b) eqn:E4; [lia|]. destruct (bmax b <? bmax b - y_max b) eqn:E5; [lia|].
    f_equal. destruct b; cbn in *. f_equal; lia.
Qed.

Lemma swap_xy_spec b : (forall x y, In_box (swap_xy b) x y <-> In_box b y x) /\ (wf b -> wf (swap_xy b)).
Proof.
  unfold swap_xy. destruct (is_empty b) eqn:E.
  - split; [|tauto]. intros x y. split; intros H; exfalso; revert H; now apply empty_spec.
  - split; [intros x y; unf; lia|]. unfold wf. unf. intros; repeat split; lia.
Qed.

Lemma swap_xy_involutive b : swap_xy (swap_xy b) = b.
Proof.
  unfold swap_xy. destruct (is_empty b) eqn:E; [now rewrite E|].
  unf. cbn [level x_min y_min x_max y_max bmax].
  destruct ((y_max b <? y_min b) || (x_max b <? x_min b)) eqn:E2; [lia|]. now destruct b.
Qed.

Lemma coord_flip_involutive z x y p : coord_flip_y z x y = Ok p -> coord_flip_y z (fst p) (snd p) = Ok (x, y).
Proof.
  unfold coord_flip_y. destruct (level_max z <? y) eqn:E; [discriminate|]. intros H; inversion H; subst; clear H.
  cbn [fst snd]. destruct (level_max z <? level_max z - y) eqn:E2; [lia|]. f_equal. f_equal. lia.
Qed.

(* ---------- iter_bbox_grid is a partition ---------- *)
Definition cell_of (b : bbox) (s : N) (p : N * N) : bbox :=
  let X := fst p * s in let Y := snd p * s in
  mkB (level b) (N.max X (x_min b)) (N.max Y (y_min b))
      (N.min (N.min (X + s - 1) (level_max (level b))) (x_max b))
      (N.min (N.min (Y + s - 1) (level_max (level b))) (y_max b)) (level_max (level b)).

Lemma level_max_bound z : z <= 31 -> level_max z < 2147483648.
Proof.
  intros H. unfold level_max. assert (2 ^ z <= 2 ^ 31) by (apply N.pow_le_mono_r; lia).
  change (2 ^ 31) with 2147483648 in H0. assert (0 < 2 ^ z) by (apply N.neq_0_lt_0, N.pow_nonzero; lia). lia.
Qed.

Lemma mul_le_of_le_div m s a : 0 < s -> m <= a / s -> m * s <= a.
Proof.
  intros Hs H. pose proof (N.mul_div_le a s ltac:(lia)).
  assert (m * s <= (a / s) * s) by (apply N.mul_le_mono_r; exact H). lia.
Qed.

Lemma lt_mul_of_div_le m s a : 0 < s -> a / s <= m -> a < m * s + s.
Proof.
  intros Hs H. pose proof (N.mul_succ_div_gt a s ltac:(lia)).
  assert ((a / s) * s <= m * s) by (apply N.mul_le_mono_r; exact H). lia.
Qed.

Lemma div_eq_iff a s m : 0 < s -> (a / s = m <-> m * s <= a /\ a < m * s + s).
Proof.
  intros Hs. split.
  - intros <-. split; [apply mul_le_of_le_div; [assumption | lia] | apply lt_mul_of_div_le; [assumption | lia]].
  - intros [H1 H2]. symmetry. apply (N.div_unique a s m (a - m * s)); lia.
Qed.

Lemma grid_cell_eval b s mx my :
  wf b -> 0 < s -> s < u32_lim -> mx <= x_max b / s -> my <= y_max b / s ->
  grid_cell b s mx my = Ok (if is_empty b then set_empty (cell_of b s (mx, my)) else cell_of b s (mx, my)).
Proof.
  intros Hb Hs Hs2 Hmx Hmy. wfd Hb.
  pose proof (level_max_bound _ Hl) as HM.
  pose proof (mul_le_of_le_div _ _ _ Hs Hmx) as HX. pose proof (mul_le_of_le_div _ _ _ Hs Hmy) as HY.
  assert (HXs : mx * s + s < u32_lim).
  { destruct (N.eq_dec mx 0) as [->|Hne]; [unfold u32_lim in *; lia|].
    assert (s <= mx * s) by nia. unfold u32_lim in *. lia. }
  assert (HYs : my * s + s < u32_lim).
  { destruct (N.eq_dec my 0) as [->|Hne]; [unfold u32_lim in *; lia|].
    assert (s <= my * s) by nia. unfold u32_lim in *. lia. }
  unfold grid_cell, cell_of. cbn [fst snd].
  remember (mx * s) as X. remember (my * s) as Y.
  unfold u32_mul, u32_add. rewrite <- HeqX, <- HeqY.
  destruct (X <? u32_lim) eqn:E1; [|unfold u32_lim in *; lia]. cbn [obind].
  destruct (Y <? u32_lim) eqn:E2; [|unfold u32_lim in *; lia]. cbn [obind].
  destruct (X + s <? u32_lim) eqn:E3; [|lia]. cbn [obind].
  destruct (Y + s <? u32_lim) eqn:E4; [|lia]. cbn [obind].
  unfold new.
  destruct (31 <? level b) eqn:E5; [lia|].
  destruct (level_max (level b) <? N.min (X + s - 1) (level_max (level b))) eqn:E6; [lia|].
  destruct (level_max (level b) <? N.min (Y + s - 1) (level_max (level b))) eqn:E7; [lia|].
  destruct (N.min (X + s - 1) (level_max (level b)) <? X) eqn:E8; [lia|].
  destruct (N.min (Y + s - 1) (level_max (level b)) <? Y) eqn:E9; [lia|].
  unfold intersect_bbox. cbn [level x_min y_min x_max y_max bmax]. rewrite N.eqb_refl. cbn [negb].
  unfold is_empty at 1. cbn [level x_min y_min x_max y_max bmax].
  rewrite E8, E9. cbn [orb negb andb].
  destruct (is_empty b) eqn:Eb; cbn [negb]; reflexivity.
Qed.

Lemma sequence_map_ok {A B} (f : A -> outcome B) (g : A -> B) l :
  (forall a, In a l -> f a = Ok (g a)) -> sequence (map f l) = Ok (map g l).
Proof.
  induction l as [|a r IH]; intros H; cbn [map sequence]; [reflexivity|].
  rewrite H by (now left). cbn [obind]. rewrite IH by (intros; apply H; now right). reflexivity.
Qed.

Lemma filter_all_true {A} (f : A -> bool) l : (forall a, In a l -> f a = true) -> filter f l = l.
Proof.
  induction l as [|a r IH]; intros H; cbn [filter]; [reflexivity|].
  rewrite H by (now left). f_equal. apply IH. intros; apply H; now right.
Qed.

Lemma filter_all_false {A} (f : A -> bool) l : (forall a, In a l -> f a = false) -> filter f l = [].
Proof.
  induction l as [|a r IH]; intros H; cbn [filter]; [reflexivity|].
  rewrite H by (now left). apply IH. intros; apply H; now right.
Qed.

Definition meta_of (b : bbox) (s : N) : bbox :=
  mkB (level b) (x_min b / s) (y_min b / s) (x_max b / s) (y_max b / s) (bmax b).

Lemma cell_nonempty b s p : wf b -> 0 < s -> is_empty b = false ->
  In_box (meta_of b s) (fst p) (snd p) -> is_empty (cell_of b s p) = false.
Proof.
  intros Hb Hs He Hin. wfd Hb. destruct p as [mx my]. unfold In_box, meta_of in Hin.
  cbn [fst snd level x_min y_min x_max y_max bmax] in Hin. destruct Hin as (A1 & A2 & A3 & A4).
  pose proof (mul_le_of_le_div _ _ _ Hs A2). pose proof (mul_le_of_le_div _ _ _ Hs A4).
  pose proof (lt_mul_of_div_le _ _ _ Hs A1). pose proof (lt_mul_of_div_le _ _ _ Hs A3).
  unfold cell_of. cbn [fst snd]. remember (mx * s) as X. remember (my * s) as Y. unf. lia.
Qed.

Lemma cell_member b s p x y : wf b -> 0 < s ->
  (In_box (cell_of b s p) x y <-> In_box b x y /\ x / s = fst p /\ y / s = snd p).
Proof.
  intros Hb Hs. wfd Hb. destruct p as [mx my]. cbn [fst snd].
  rewrite (div_eq_iff x s mx Hs), (div_eq_iff y s my Hs).
  unfold cell_of. cbn [fst snd]. remember (mx * s) as X. remember (my * s) as Y. unf. lia.
Qed.

Theorem grid_partition b s : wf b -> 0 < s -> s < u32_lim ->
  exists cells, iter_bbox_grid b s = Ok cells
  /\ (is_empty b = true -> cells = [])
  /\ Forall (fun c => is_empty c = false /\ wf c /\ level c = level b
                      /\ (forall x y, In_box c x y -> In_box b x y)
                      /\ x_min c / s = x_max c / s /\ y_min c / s = y_max c / s) cells
  /\ (forall x y, In_box b x y ->
        exists l1 c l2, cells = l1 ++ c :: l2 /\ In_box c x y /\ forall c', In c' (l1 ++ l2) -> ~ In_box c' x y).
Proof.
  intros Hb Hs Hs2. pose proof Hb as Hb'. wfd Hb.
  unfold iter_bbox_grid. destruct (s =? 0) eqn:E0; [lia|].
  unfold scale_down. rewrite E0. fold (meta_of b s).
  set (coords := iter_coords (meta_of b s)).
  assert (Hcoords : forall p, In p coords -> fst p <= x_max b / s /\ snd p <= y_max b / s /\ In_box (meta_of b s) (fst p) (snd p)).
  { intros [mx my] Hp. apply iter_coords_In in Hp. pose proof Hp as Hp'. unfold In_box, meta_of in Hp.
    cbn [fst snd level x_min y_min x_max y_max bmax] in *. tauto. }
  destruct (is_empty b) eqn:Eb.
  - (* empty box: every cell is empty and filtered away *)
    rewrite (sequence_map_ok _ (fun p => set_empty (cell_of b s p))).
    2:{ intros [mx my] Hp. destruct (Hcoords _ Hp) as (A & B & _). cbn [fst snd] in *.
        rewrite (grid_cell_eval b s mx my Hb' Hs Hs2 A B). now rewrite Eb. }
    cbn [obind]. rewrite filter_all_false.
    2:{ intros c Hc. apply in_map_iff in Hc. destruct Hc as (p & <- & _). reflexivity. }
    exists []. split; [reflexivity|]. split; [reflexivity|]. split; [constructor|].
    intros x y H. exfalso. revert H. now apply empty_spec.
  - rewrite (sequence_map_ok _ (cell_of b s)).
    2:{ intros [mx my] Hp. destruct (Hcoords _ Hp) as (A & B & _). cbn [fst snd] in *.
        rewrite (grid_cell_eval b s mx my Hb' Hs Hs2 A B). now rewrite Eb. }
    cbn [obind]. rewrite filter_all_true.
    2:{ intros c Hc. apply in_map_iff in Hc. destruct Hc as (p & <- & Hp).
        destruct (Hcoords _ Hp) as (_ & _ & C). rewrite (cell_nonempty b s p Hb' Hs Eb C). reflexivity. }
    exists (map (cell_of b s) coords). split; [reflexivity|]. split; [discriminate|]. split.
    + apply Forall_forall. intros c Hc. apply in_map_iff in Hc. destruct Hc as (p & <- & Hp).
      destruct (Hcoords _ Hp) as (A & B & C).
      pose proof (cell_nonempty b s p Hb' Hs Eb C) as Hne.
      split; [exact Hne|].
      assert (Hsub : forall x y, In_box (cell_of b s p) x y -> In_box b x y /\ x / s = fst p /\ y / s = snd p)
        by (intros x y; apply cell_member; assumption).
      split.
      { pose proof (level_max_bound _ Hl). unfold wf, cell_of. cbn [level x_min y_min x_max y_max bmax].
        destruct p as [mx my]. cbn [fst snd] in *. pose proof (mul_le_of_le_div _ _ _ Hs A). pose proof (mul_le_of_le_div _ _ _ Hs B).
        remember (mx * s) as X. remember (my * s) as Y. repeat split; lia. }
      split; [reflexivity|]. split; [intros x y H; now apply Hsub|].
      (* both corners of the cell lie in the cell, hence in the same grid square *)
      assert (C1 : In_box (cell_of b s p) (x_min (cell_of b s p)) (y_min (cell_of b s p))) by (revert Hne; unf; lia).
      assert (C2 : In_box (cell_of b s p) (x_max (cell_of b s p)) (y_max (cell_of b s p))) by (revert Hne; unf; lia).
      apply Hsub in C1. apply Hsub in C2. destruct C1 as (_ & C1a & C1b), C2 as (_ & C2a & C2b). split; congruence.
    + intros x y Hxy.
      assert (Hp : In (x / s, y / s) coords).
      { apply iter_coords_In. unfold In_box, meta_of. cbn [level x_min y_min x_max y_max bmax].
        unfold In_box in Hxy. repeat split; apply N.div_le_mono; lia. }
      destruct (in_split _ _ Hp) as (k1 & k2 & Hk).
      exists (map (cell_of b s) k1), (cell_of b s (x / s, y / s)), (map (cell_of b s) k2).
      split; [rewrite Hk, map_app; reflexivity|].
      split; [apply cell_member; [assumption|assumption|]; cbn [fst snd]; tauto|].
      intros c' Hc'. rewrite <- map_app in Hc'. apply in_map_iff in Hc'. destruct Hc' as (p' & <- & Hp').
      intros Hin. apply cell_member in Hin; [|assumption|assumption]. destruct Hin as (_ & E1 & E2).
      assert (p' = (x / s, y / s)) by (destruct p'; cbn [fst snd] in *; congruence). subst p'.
      pose proof (iter_coords_NoDup (meta_of b s)) as Hnd. fold coords in Hnd. rewrite Hk in Hnd.
      apply NoDup_remove_2 in Hnd. contradiction.
Qed.

(* size 0 yields no cells (and no failure) *)
Lemma grid_size0 b : iter_bbox_grid b 0 = Ok [].
Proof. reflexivity. Qed.

(* ---------- add_border (saturating variant) ---------- *)
Lemma add_border_spec b a0 b0 a1 b1 : wf b -> is_empty b = false ->
  exists c, add_border 1 b a0 b0 a1 b1 = Ok c /\ wf c /\
    forall x y, In_box c x y <->
      (x <= bmax b /\ y <= bmax b /\ x_min b - a0 <= x /\ x <= x_max b + a1 /\ y_min b - b0 <= y /\ y <= y_max b + b1).
Proof.
  intros Hb He. wfd Hb. pose proof (level_max_bound _ Hl). unfold add_border. rewrite He. cbn [N.eqb Pos.eqb].
  eexists. split; [reflexivity|]. unfold sat_add, u32_lim. split.
  - unfold wf. unf. repeat split; lia.
  - intros x y. unf. lia.
Qed.

Lemma add_border_empty v b a0 b0 a1 b1 : is_empty b = true -> add_border v b a0 b0 a1 b1 = Ok b.
Proof. intros He. unfold add_border. now rewrite He. Qed.

(* the unchecked variant (pinned source) overflows *)
Lemma add_border_overflow_v0 :
  exists b, new 8 5 10 20 30 = Ok b /\ add_border 0 b 0 0 4294967295 0 = Overflow.
Proof. eexists. split; reflexivity. Qed.

Lemma coord_by_index_big_refuted_v0 :
  exists b, new_full 16 = Ok b /\ get_coord_by_index 0 b 0 = Err /\ get_coord_by_index 1 b 0 = Ok (0, 0).
Proof. eexists. split; [reflexivity|]. split; reflexivity. Qed.

(* non-vacuity examples *)
Example wf_example : exists b, new 9 250 250 260 300 = Ok b /\ wf b /\ is_empty b = false.
Proof. eexists. split; [reflexivity|]. split; [unfold wf; cbn; repeat split; lia | reflexivity]. Qed.

Lemma C15_flip_aux b : wf b ->
  exists c, flip_y b = Ok c /\ wf c /\ flip_y c = Ok b
  /\ (forall x y, y <= bmax b -> (In_box c x y <-> In_box b x (bmax b - y))).
Proof.
  intros Hb. destruct (flip_y_total b Hb) as [c Hc]. exists c. split; [exact Hc|].
  destruct (flip_y_spec b c Hb Hc) as [Hw Hi]. split; [exact Hw|]. split; [now apply flip_y_involutive | exact Hi].
Qed.

(* the cells of a grid partition, explicitly: one cell per coordinate of the scaled-down box *)
Lemma grid_cells_explicit b s : wf b -> 0 < s -> s < u32_lim ->
  iter_bbox_grid b s = Ok (if is_empty b then [] else map (cell_of b s) (iter_coords (meta_of b s))).
Proof.
  intros Hb Hs Hs2. pose proof Hb as Hb'. wfd Hb.
  unfold iter_bbox_grid. destruct (s =? 0) eqn:E0; [lia|].
  unfold scale_down. rewrite E0. fold (meta_of b s).
  set (coords := iter_coords (meta_of b s)).
  assert (Hcoords : forall p, In p coords -> fst p <= x_max b / s /\ snd p <= y_max b / s /\ In_box (meta_of b s) (fst p) (snd p)).
  { intros [mx my] Hp. apply iter_coords_In in Hp. pose proof Hp as Hp'. unfold In_box, meta_of in Hp.
    cbn [fst snd level x_min y_min x_max y_max bmax] in *. tauto. }
  destruct (is_empty b) eqn:Eb.
  - rewrite (sequence_map_ok _ (fun p => set_empty (cell_of b s p))).
    2:{ intros [mx my] Hp. destruct (Hcoords _ Hp) as (A & B & _). cbn [fst snd] in *.
        rewrite (grid_cell_eval b s mx my Hb' Hs Hs2 A B). now rewrite Eb. }
    cbn [obind]. rewrite filter_all_false; [reflexivity|].
    intros c Hc. apply in_map_iff in Hc. destruct Hc as (p & <- & _). reflexivity.
  - rewrite (sequence_map_ok _ (cell_of b s)).
    2:{ intros [mx my] Hp. destruct (Hcoords _ Hp) as (A & B & _). cbn [fst snd] in *.
        rewrite (grid_cell_eval b s mx my Hb' Hs Hs2 A B). now rewrite Eb. }
    cbn [obind]. rewrite filter_all_true; [reflexivity|].
    intros c Hc. apply in_map_iff in Hc. destruct Hc as (p & <- & Hp).
    destruct (Hcoords _ Hp) as (_ & _ & C). rewrite (cell_nonempty b s p Hb' Hs Eb C). reflexivity.
Qed.
