(* C01: the directory tree the PMTiles writer builds (as_directory / build_roots_leaves) is found
   again, entry by entry, by the reader's lookup - for every leaf size > 0 and any number of entries. *)
From Coq Require Import List NArith ZArith Lia Bool.
From VT Require Import Base.Outcome Model.MVT Model.PMDir Model.PMWrite Proofs.PMDirProofs Proofs.PMTreeProofs.
Import ListNotations.
Local Open Scope N_scope.

(* ---------- cutting ---------- *)
Lemma cut_concat k : (0 < k)%nat -> forall fuel es, (length es <= fuel)%nat -> concat (cut_leaves fuel k es) = es.
Proof.
  intros Hk. induction fuel as [|f IH]; intros es Hl.
  - destruct es; [reflexivity|cbn in Hl; lia].
  - destruct es as [|a r]; [reflexivity|]. cbn [cut_leaves concat].
    rewrite IH; [apply firstn_skipn|]. rewrite skipn_length. cbn [length] in *. lia.
Qed.

Lemma cut_nonempty k : (0 < k)%nat -> forall fuel es, Forall (fun l => l <> []) (cut_leaves fuel k es).
Proof.
  intros Hk. induction fuel as [|f IH]; intros es; [constructor|].
  destruct es as [|a r]; [constructor|]. cbn [cut_leaves]. constructor; [|apply IH].
  destruct k as [|k']; [lia|]. cbn [firstn]. discriminate.
Qed.

(* the code's leaves are full except possibly the last one *)
Lemma cut_sizes k : (0 < k)%nat -> forall fuel es, Forall (fun l => (length l <= k)%nat) (cut_leaves fuel k es).
Proof.
  intros Hk. induction fuel as [|f IH]; intros es; [constructor|].
  destruct es as [|a r]; [constructor|]. cbn [cut_leaves]. constructor; [|apply IH].
  rewrite firstn_length. lia.
Qed.

(* ---------- placing ---------- *)
Lemma place_fst size : forall ls off, map fst (place_leaves size off ls) = ls.
Proof. induction ls as [|l r IH]; intros off; [reflexivity|]. cbn [place_leaves map fst]. rewrite IH. reflexivity. Qed.

Lemma pointer_root_of ls : map pointer ls = root_of ls.
Proof. induction ls as [|[l [o n]] r IH]; [reflexivity|]. cbn [map root_of]. rewrite IH. reflexivity. Qed.

Lemma sub_at (pre m post : bytes) : sub (pre ++ m ++ post) (N.of_nat (length pre)) (N.of_nat (length m)) = m.
Proof.
  unfold sub. rewrite !Nat2N.id. rewrite skipn_app, skipn_all, Nat.sub_diag. cbn [skipn app].
  rewrite firstn_app, firstn_all, Nat.sub_diag. cbn [firstn]. apply app_nil_r.
Qed.

Lemma place_bytes (f : list entry -> bytes) : forall ls off pre, N.of_nat (length pre) = off ->
  Forall (fun x => sub (pre ++ flat_map (fun x => f (fst x)) (place_leaves (fun l => N.of_nat (length (f l))) off ls)) (fst (snd x)) (snd (snd x)) = f (fst x))
         (place_leaves (fun l => N.of_nat (length (f l))) off ls).
Proof.
  induction ls as [|l r IH]; intros off pre Hp; [constructor|].
  cbn [place_leaves flat_map fst]. constructor.
  - cbn [fst snd]. subst off. apply sub_at.
  - specialize (IH (off + N.of_nat (length (f l))) (pre ++ f l)).
    rewrite <- app_assoc in IH. apply IH. rewrite app_length, Nat2N.inj_add. lia.
Qed.

Lemma serialize_nonempty es : 0 < ser_size es.
Proof.
  unfold ser_size, stored_size, stored_bytes, serialize, serialize_with. rewrite app_length.
  pose proof (write_varint_nonempty (N.of_nat (length es))). lia.
Qed.

Lemma place_sizes (f : list entry -> bytes) : (forall l, f l <> []) ->
  forall ls off, Forall (fun x => 0 < snd (snd x)) (place_leaves (fun l => N.of_nat (length (f l))) off ls).
Proof.
  intros Hf. induction ls as [|l r IH]; intros off; [constructor|]. cbn [place_leaves]. constructor; [|apply IH].
  cbn [snd]. specialize (Hf l). destruct (f l); [congruence|cbn [length]; lia].
Qed.

(* ---------- what the parts of a runs_ok list inherit ---------- *)
Lemma runs_ok_nondec es : runs_ok es -> forall last, (match es with [] => True | e :: _ => last <= e_id e end) -> nondec last es.
Proof.
  induction es as [|a r IH]; intros Hr last Hl; [exact I|].
  cbn [nondec]. split; [exact Hl|]. rewrite runs_ok_cons in Hr. destruct Hr as [H1 H2].
  apply IH; [exact H2|]. destruct r as [|b r']; [exact I|]. lia.
Qed.

Lemma In_concat_Forall {A} (P : A -> Prop) (ls : list (list A)) : Forall P (concat ls) -> Forall (Forall P) ls.
Proof.
  induction ls as [|l r IH]; intros H; [constructor|]. cbn [concat] in H. apply Forall_app in H. destruct H as [H1 H2].
  constructor; [exact H1|apply IH; exact H2].
Qed.

Lemma runs_ok_parts ls : runs_ok (concat ls) -> Forall runs_ok ls.
Proof.
  induction ls as [|l r IH]; intros H; [constructor|]. cbn [concat] in H.
  constructor; [exact (runs_ok_app_l _ _ H)|apply IH; exact (runs_ok_app_r _ _ H)].
Qed.

Lemma parts_length {A} (ls : list (list A)) : Forall (fun l => (length l <= length (concat ls))%nat) ls.
Proof.
  induction ls as [|l r IH]; [constructor|]. cbn [concat]. rewrite app_length.
  constructor; [lia|]. eapply Forall_impl; [|exact IH]. cbn. intros; lia.
Qed.

(* the root the writer stores parses back to itself (so the reader starts from d_root) *)
Lemma pointer_entry_ok x : snd (snd x) < two64 -> fst (snd x) + 1 < two64 -> fst (snd x) + snd (snd x) < two64 ->
  (match fst x with e :: _ => e_id e < two64 | [] => True end) -> entry_ok (pointer x).
Proof.
  intros H1 H2 H3 H4. unfold entry_ok, pointer. cbn [e_id e_run e_len e_off].
  split; [destruct (fst x); [unfold two64; lia|exact H4]|]. split; [lia|]. split; [exact H1|]. split; [exact H2|exact H3].
Qed.

Lemma concat_length_le {A} (ls : list (list A)) : Forall (fun l => l <> []) ls -> (length ls <= length (concat ls))%nat.
Proof.
  induction ls as [|l r IH]; intros H; [cbn; lia|]. inversion H as [|? ? Hl Hr]; subst. cbn [concat length]. rewrite app_length.
  specialize (IH Hr). destruct l; [congruence|cbn [length]; lia].
Qed.

Lemma place_bounds_gen (f : list entry -> bytes) : forall ls off,
  Forall (fun x => fst (snd x) + snd (snd x) <= off + N.of_nat (length (flat_map (fun x => f (fst x)) (place_leaves (fun l => N.of_nat (length (f l))) off ls))))
         (place_leaves (fun l => N.of_nat (length (f l))) off ls).
Proof.
  induction ls as [|l r IH]; intros off; [constructor|]. cbn [place_leaves flat_map fst]. rewrite app_length, Nat2N.inj_add.
  constructor; [cbn [fst snd]; lia|].
  eapply Forall_impl; [|exact (IH (off + N.of_nat (length (f l))))]. cbn beta. intros x Hx. lia.
Qed.

(* ---------- the written tree is a stored tree ---------- *)
Section Enc.
  Variables (enc : bytes -> bytes) (dec : bytes -> option bytes).
  Hypothesis Hdec : forall b, dec (enc b) = Some b.
  Hypothesis Henc_ne : forall l : list entry, enc (serialize l) <> [].

  (* whatever function hands back each placed leaf at its pointer: the written root is a stored tree *)
  Lemma writer_tree_stored_leaf (leaf : N -> N -> outcome (list entry)) k es :
    (0 < k)%nat -> Forall (fun e => 0 < e_len e /\ 0 < e_run e) es ->
    let d := build_roots_leaves_enc enc k es in
    (forall x, In x (d_leaves d) -> leaf (fst (snd x)) (snd (snd x)) = Ok (fst x)) ->
    stored 1 leaf (d_root d) es.
  Proof.
    intros Hk Hpos d Hleaf. right. unfold d, build_roots_leaves_enc in *. cbn [d_root d_leaves] in *.
    set (cut := cut_leaves (length es) k es) in *.
    assert (Hcat : concat cut = es) by (apply cut_concat; [exact Hk|lia]).
    set (placed := place_leaves (stored_size enc) 0 cut) in *.
    assert (Hfst : map fst placed = cut) by apply place_fst.
    exists (map (fun x => (x, fst x)) placed).
    assert (Hm1 : map fst (map (fun x : list entry * (N * N) => (x, fst x)) placed) = placed).
    { rewrite map_map. cbn [fst]. apply map_id. }
    rewrite Hm1. split; [rewrite Hfst; symmetry; exact Hcat|]. split; [apply pointer_root_of|].
    pose proof (place_sizes (stored_bytes enc) Henc_ne cut 0) as Hsz.
    change (fun l : list entry => N.of_nat (length (stored_bytes enc l))) with (stored_size enc) in Hsz. fold placed in Hsz.
    pose proof (cut_nonempty k Hk (length es) es) as Hne. fold cut in Hne. rewrite <- Hfst in Hne.
    assert (Hpos' : Forall (Forall (fun e => 0 < e_len e /\ 0 < e_run e)) cut) by (apply In_concat_Forall; rewrite Hcat; exact Hpos).
    rewrite <- Hfst in Hpos'. rewrite Forall_map in Hne, Hpos'.
    rewrite Forall_map. rewrite Forall_forall in *.
    intros x Hx. cbn [fst snd]. split; [split; [exact (Hne x Hx)|exact (Hsz x Hx)]|]. split; [exact (Hleaf x Hx)|].
    left. split; [reflexivity|exact (Hpos' x Hx)].
  Qed.

  (* each placed leaf, read at its pointer from the leaves section and decompressed, parses back *)
  Lemma placed_leaf_bytes k es : (0 < k)%nat -> runs_ok es -> Forall entry_ok es -> N.of_nat (length es) <= 10000000000 ->
    let d := build_roots_leaves_enc enc k es in
    forall x, In x (d_leaves d) ->
      sub (d_leaves_bytes d) (fst (snd x)) (snd (snd x)) = enc (serialize (fst x)) /\
      fst (snd x) + snd (snd x) <= N.of_nat (length (d_leaves_bytes d)) /\
      forall av, deserialize av (serialize (fst x)) = Ok (fst x).
  Proof.
    intros Hk Hr Hok Hn d x Hx. unfold d, build_roots_leaves_enc in *. cbn [d_leaves d_leaves_bytes] in *.
    set (cut := cut_leaves (length es) k es) in *.
    assert (Hcat : concat cut = es) by (apply cut_concat; [exact Hk|lia]).
    set (placed := place_leaves (stored_size enc) 0 cut) in *.
    assert (Hfst : map fst placed = cut) by apply place_fst.
    pose proof (place_bytes (stored_bytes enc) cut 0 [] eq_refl) as Hbytes. cbn [app] in Hbytes.
    change (fun l : list entry => N.of_nat (length (stored_bytes enc l))) with (stored_size enc) in Hbytes. fold placed in Hbytes.
    pose proof (place_bounds_gen (stored_bytes enc) cut 0) as Hbd.
    change (fun l : list entry => N.of_nat (length (stored_bytes enc l))) with (stored_size enc) in Hbd. fold placed in Hbd.
    assert (Hok' : Forall (Forall entry_ok) cut) by (apply In_concat_Forall; rewrite Hcat; exact Hok).
    assert (Hr' : Forall runs_ok cut) by (apply runs_ok_parts; rewrite Hcat; exact Hr).
    assert (Hlen' : Forall (fun l => (length l <= length es)%nat) cut) by (rewrite <- Hcat; apply parts_length).
    rewrite <- Hfst in Hok', Hr', Hlen'. rewrite Forall_map in Hok', Hr', Hlen'. rewrite Forall_forall in *.
    split; [exact (Hbytes x Hx)|]. split; [specialize (Hbd x Hx); lia|].
    intros av. apply (deserialize_serialize av []); [exact (Hok' x Hx)| |].
    - apply runs_ok_nondec; [exact (Hr' x Hx)|]. destruct (fst x); [exact I|lia].
    - specialize (Hlen' x Hx). lia.
  Qed.

  Theorem writer_tree_stored_enc av k es :
    (0 < k)%nat -> runs_ok es -> Forall entry_ok es -> Forall (fun e => 0 < e_len e /\ 0 < e_run e) es ->
    N.of_nat (length es) <= 10000000000 ->
    let d := build_roots_leaves_enc enc k es in
    stored 1 (read_leaf_dec dec av (d_leaves_bytes d)) (d_root d) es.
  Proof.
    intros Hk Hr Hok Hpos Hn d. apply writer_tree_stored_leaf; [exact Hk|exact Hpos|].
    intros x Hx. destruct (placed_leaf_bytes k es Hk Hr Hok Hn x Hx) as (Hb & _ & Hd).
    unfold read_leaf_dec. fold d in Hb. rewrite Hb, Hdec. apply Hd.
  Qed.

  Theorem writer_tree_lookup_enc av k es extra :
    (0 < k)%nat -> runs_ok es -> Forall entry_ok es -> Forall (fun e => 0 < e_len e /\ 0 < e_run e) es ->
    N.of_nat (length es) <= 10000000000 ->
    let d := build_roots_leaves_enc enc k es in
    forall e t, In e es -> e_id e <= t < e_id e + e_run e ->
    pm_lookup av (2 + extra) (read_leaf_dec dec av (d_leaves_bytes d)) (d_root d) t = Ok (Some e).
  Proof.
    intros Hk Hr Hok Hpos Hn d e t Hin Ht.
    exact (multi_level_lookup av _ 1 _ es (writer_tree_stored_enc av k es Hk Hr Hok Hpos Hn) Hr e t Hin Ht extra).
  Qed.
  Theorem writer_root_parses_enc av k es :
    (0 < k)%nat -> runs_ok es -> Forall entry_ok es -> N.of_nat (length es) <= 10000000000 ->
    let d := build_roots_leaves_enc enc k es in
    N.of_nat (length (d_leaves_bytes d)) + 1 < two64 ->
    deserialize av (serialize (d_root d)) = Ok (d_root d).
  Proof.
    intros Hk Hr Hok Hn d Hb. unfold d, build_roots_leaves_enc in *. cbn [d_root d_leaves_bytes] in *.
    set (cut := cut_leaves (length es) k es) in *.
    assert (Hcat : concat cut = es) by (apply cut_concat; [exact Hk|lia]).
    set (placed := place_leaves (stored_size enc) 0 cut) in *.
    assert (Hfst : map fst placed = cut) by apply place_fst.
    pose proof (place_sizes (stored_bytes enc) Henc_ne cut 0) as Hsz.
    change (fun l : list entry => N.of_nat (length (stored_bytes enc l))) with (stored_size enc) in Hsz. fold placed in Hsz.
    pose proof (place_bounds_gen (stored_bytes enc) cut 0) as Hbd.
    change (fun l : list entry => N.of_nat (length (stored_bytes enc l))) with (stored_size enc) in Hbd. fold placed in Hbd.
    pose proof (cut_nonempty k Hk (length es) es) as Hne. fold cut in Hne. rewrite <- Hfst in Hne. rewrite Forall_map in Hne.
    assert (Hok' : Forall (Forall entry_ok) cut) by (apply In_concat_Forall; rewrite Hcat; exact Hok).
    rewrite <- Hfst in Hok'. rewrite Forall_map in Hok'.
    apply (deserialize_serialize av []).
    - rewrite Forall_map. rewrite Forall_forall in *. intros x Hx. specialize (Hbd x Hx). specialize (Hsz x Hx).
      apply pointer_entry_ok; try lia.
      specialize (Hok' x Hx). destruct (fst x) as [|e ?]; [exact I|]. apply Forall_inv in Hok'. exact (proj1 Hok').
    - rewrite pointer_root_of. apply runs_ok_nondec; [|destruct (root_of placed); [exact I|lia]].
      apply root_runs_ok; [rewrite Hfst, Hcat; exact Hr|].
      rewrite Forall_forall in *. intros x Hx. split; [exact (Hne x Hx)|exact (Hsz x Hx)].
    - rewrite map_length.
      assert (Hlen : (length placed <= length es)%nat).
      { rewrite <- (map_length fst placed), <- Hcat, <- Hfst. apply concat_length_le. rewrite Forall_map. exact Hne. }
      lia.
  Qed.
End Enc.

Theorem writer_tree_stored av k es :
  (0 < k)%nat -> runs_ok es -> Forall entry_ok es -> Forall (fun e => 0 < e_len e /\ 0 < e_run e) es ->
  N.of_nat (length es) <= 10000000000 ->
  let d := build_roots_leaves k es in
  stored 1 (read_leaf av (d_leaves_bytes d)) (d_root d) es.
Proof.
  intros Hk Hr Hok Hpos Hn.
  refine (writer_tree_stored_enc (fun b => b) Some (fun b => eq_refl) _ av k es Hk Hr Hok Hpos Hn).
  intros l Hl. pose proof (serialize_nonempty l) as H. unfold ser_size, stored_size, stored_bytes in H. rewrite Hl in H. cbn in H. lia.
Qed.

(* every tile entry the writer was given is what the reader's lookup through the written root
   and leaves section returns for every id of its run; ids of no run are answered "no tile" or
   with an entry that carries a tile (multi_level_lookup_sound) *)
Theorem writer_tree_lookup av k es extra :
  (0 < k)%nat -> runs_ok es -> Forall entry_ok es -> Forall (fun e => 0 < e_len e /\ 0 < e_run e) es ->
  N.of_nat (length es) <= 10000000000 ->
  let d := build_roots_leaves k es in
  forall e t, In e es -> e_id e <= t < e_id e + e_run e ->
  pm_lookup av (2 + extra) (read_leaf av (d_leaves_bytes d)) (d_root d) t = Ok (Some e).
Proof.
  intros Hk Hr Hok Hpos Hn d e t Hin Ht.
  exact (multi_level_lookup av _ 1 _ es (writer_tree_stored av k es Hk Hr Hok Hpos Hn) Hr e t Hin Ht extra).
Qed.

(* nothing is left out and nothing is invented: the leaves, in order, are the entry list *)
Theorem writer_leaves_partition k es : (0 < k)%nat ->
  concat (map fst (d_leaves (build_roots_leaves k es))) = es /\
  Forall (fun l => l <> [] /\ (length l <= k)%nat) (map fst (d_leaves (build_roots_leaves k es))).
Proof.
  intros Hk. unfold build_roots_leaves, build_roots_leaves_enc. cbn [d_leaves]. rewrite place_fst. split; [apply cut_concat; [exact Hk|lia]|].
  pose proof (cut_nonempty k Hk (length es) es) as H1. pose proof (cut_sizes k Hk (length es) es) as H2.
  rewrite Forall_forall in *. intros l Hl. split; [exact (H1 l Hl)|exact (H2 l Hl)].
Qed.

(* case 1 and case 3 together: whatever as_directory returns answers every lookup *)
Lemma first_fit_some target es : forall ks d, first_fit target ks es = Some d -> exists k, In k ks /\ d = build_roots_leaves k es.
Proof.
  induction ks as [|k r IH]; intros d H; [discriminate|]. cbn [first_fit] in H.
  destruct (ser_size (d_root (build_roots_leaves k es)) <=? target).
  - inversion H; subst. exists k. split; [left; reflexivity|reflexivity].
  - destruct (IH d H) as (k' & Hin & Hd). exists k'. split; [right; exact Hin|exact Hd].
Qed.

Theorem as_directory_lookup av limit target ks es d extra :
  Forall (fun k => (0 < k)%nat) ks -> runs_ok es -> Forall entry_ok es -> Forall (fun e => 0 < e_len e /\ 0 < e_run e) es ->
  N.of_nat (length es) <= 10000000000 ->
  as_directory limit target ks es = Some d ->
  forall e t, In e es -> e_id e <= t < e_id e + e_run e ->
  pm_lookup av (2 + extra) (read_leaf av (d_leaves_bytes d)) (d_root d) t = Ok (Some e).
Proof.
  intros Hks Hr Hok Hpos Hn Hd e t Hin Ht. unfold as_directory in Hd.
  destruct ((N.of_nat (length es) <? limit) && (ser_size es <=? target)).
  - inversion Hd; subst. cbn [d_root d_leaves_bytes].
    rewrite Forall_forall in Hpos. destruct (Hpos e Hin) as [Hl Hrun].
    change (2 + extra)%nat with (S (S extra)). apply pm_lookup_hit; [|exact Hl|exact Hrun].
    apply (find_in_run av es e t Hr Hin); [left; lia|intros _; lia].
  - destruct (first_fit_some target es ks d Hd) as (k & Hk & ->).
    rewrite Forall_forall in Hks. exact (writer_tree_lookup av k es extra (Hks k Hk) Hr Hok Hpos Hn e t Hin Ht).
Qed.


Lemma place_sizes_id : forall ls off, Forall (fun x => 0 < snd (snd x)) (place_leaves ser_size off ls).
Proof. induction ls as [|l r IH]; intros off; [constructor|]. cbn [place_leaves]. constructor; [apply serialize_nonempty|apply IH]. Qed.

Lemma place_bounds : forall ls off,
  Forall (fun x => fst (snd x) + snd (snd x) <= off + N.of_nat (length (flat_map (fun x => serialize (fst x)) (place_leaves ser_size off ls))))
         (place_leaves ser_size off ls).
Proof.
  induction ls as [|l r IH]; intros off; [constructor|]. cbn [place_leaves flat_map fst]. rewrite app_length, Nat2N.inj_add.
  constructor; [cbn [fst snd]; unfold ser_size, stored_size, stored_bytes; lia|].
  eapply Forall_impl; [|exact (IH (off + ser_size l))]. cbn beta. intros x Hx. unfold ser_size, stored_size, stored_bytes in *. lia.
Qed.


Theorem writer_root_parses av k es :
  (0 < k)%nat -> runs_ok es -> Forall entry_ok es -> N.of_nat (length es) <= 10000000000 ->
  let d := build_roots_leaves k es in
  N.of_nat (length (d_leaves_bytes d)) + 1 < two64 ->
  deserialize av (serialize (d_root d)) = Ok (d_root d).
Proof.
  intros Hk Hr Hok Hn d Hb. unfold d, build_roots_leaves, build_roots_leaves_enc in *. cbn [d_root d_leaves_bytes] in *. change (stored_size (fun b : bytes => b)) with ser_size in *.
  change (fun x : list entry * (N * N) => stored_bytes (fun b : bytes => b) (fst x)) with (fun x : list entry * (N * N) => serialize (fst x)) in *.
  set (cut := cut_leaves (length es) k es) in *.
  assert (Hcat : concat cut = es) by (apply cut_concat; [exact Hk|lia]).
  set (placed := place_leaves ser_size 0 cut) in *.
  assert (Hfst : map fst placed = cut) by apply place_fst.
  pose proof (place_sizes_id cut 0) as Hsz. fold placed in Hsz.
  pose proof (place_bounds cut 0) as Hbd. fold placed in Hbd.
  pose proof (cut_nonempty k Hk (length es) es) as Hne. fold cut in Hne. rewrite <- Hfst in Hne. rewrite Forall_map in Hne.
  assert (Hok' : Forall (Forall entry_ok) cut) by (apply In_concat_Forall; rewrite Hcat; exact Hok).
  rewrite <- Hfst in Hok'. rewrite Forall_map in Hok'.
  apply (deserialize_serialize av []).
  - rewrite Forall_map. rewrite Forall_forall in *. intros x Hx. specialize (Hbd x Hx). specialize (Hsz x Hx).
    apply pointer_entry_ok; try lia.
    specialize (Hok' x Hx). destruct (fst x) as [|e ?]; [exact I|]. apply Forall_inv in Hok'. exact (proj1 Hok').
  - rewrite pointer_root_of. apply runs_ok_nondec; [|destruct (root_of placed); [exact I|lia]].
    apply root_runs_ok; [rewrite Hfst, Hcat; exact Hr|].
    rewrite Forall_forall in *. intros x Hx. split; [exact (Hne x Hx)|exact (Hsz x Hx)].
  - rewrite map_length.
    assert (Hlen : (length placed <= length es)%nat).
    { rewrite <- (map_length fst placed), <- Hcat, <- Hfst. apply concat_length_le. rewrite Forall_map. exact Hne. }
    lia.
Qed.
