(* Proofs for C12: every crash state of a well-shaped write sequence is rejected by the reader or
   is the completely written file (versatiles) / presents the same reader view (pmtiles). *)
From Coq Require Import List NArith Bool Arith Lia.
From VT Require Import Model.Crash.
Import ListNotations.

(* ---------------- pointwise list toolkit (nat scope) ---------------- *)
Lemma list_ext (l1 l2 : list N) : (forall i, nth_error l1 i = nth_error l2 i) -> l1 = l2.
Proof.
  revert l2; induction l1 as [|a l1 IH]; intros [|b l2] H; try reflexivity.
  - specialize (H 0); discriminate.
  - specialize (H 0); discriminate.
  - f_equal. + specialize (H 0); cbn in H; congruence. + apply IH; intros i; exact (H (S i)).
Qed.

Lemma nth_error_nil0 i : @nth_error N [] i = None.  Proof. destruct i; reflexivity. Qed.

Lemma nth_firstn (l : list N) n i : nth_error (firstn n l) i = if i <? n then nth_error l i else None.
Proof.
  revert l i; induction n as [|n IH]; intros l i.
  - cbn. destruct i; reflexivity.
  - destruct l as [|a l]. { cbn [firstn]. rewrite nth_error_nil0. destruct (i <? S n); reflexivity. }
    destruct i as [|i]; [reflexivity|]. cbn [firstn nth_error]. rewrite IH. reflexivity.
Qed.

Lemma nth_skipn (l : list N) n i : nth_error (skipn n l) i = nth_error l (n + i).
Proof.
  revert l; induction n as [|n IH]; intros l; [reflexivity|].
  destruct l as [|a l]; [destruct i; reflexivity|]. cbn. apply IH.
Qed.

Lemma nth_sub f off len i : nth_error (sub f off len) i = if i <? len then nth_error f (off + i) else None.
Proof. unfold sub. rewrite nth_firstn, nth_skipn. reflexivity. Qed.

Lemma nth_error_nil i : @nth_error N [] i = None.  Proof. destruct i; reflexivity. Qed.

Lemma nth_put f at_ d i :
  nth_error (put f at_ d) i =
    if i <? at_ then Some (nth i f 0%N)
    else if i <? at_ + length d then nth_error d (i - at_) else nth_error f i.
Proof.
  revert f i; induction at_ as [|k IH]; intros f i.
  - cbn [put]. destruct (Nat.ltb_spec i 0) as [H0|_]; [lia|].
    cbn [Nat.add]. destruct (Nat.ltb_spec i (length d)) as [H|H].
    + rewrite nth_error_app1 by exact H. f_equal; lia.
    + rewrite nth_error_app2 by exact H. rewrite nth_skipn. f_equal; lia.
  - destruct f as [|b r]; destruct i as [|i]; cbn [put nth_error nth]; try reflexivity.
    + rewrite IH. cbn [Nat.add]. change (S i <? S k) with (i <? k). change (S i <? S (k + length d)) with (i <? k + length d).
      destruct (i <? k). { destruct i; reflexivity. }
      destruct (i <? k + length d); [reflexivity|]. rewrite nth_error_nil; reflexivity.
    + rewrite IH. cbn [Nat.add]. change (S i <? S k) with (i <? k). change (S i <? S (k + length d)) with (i <? k + length d).
      reflexivity.
Qed.

Lemma length_put f at_ d : length (put f at_ d) = Nat.max (length f) (at_ + length d).
Proof.
  revert f; induction at_ as [|k IH]; intros f.
  - cbn [put]. rewrite app_length, skipn_length. lia.
  - destruct f as [|b r]; cbn [put length]; rewrite IH; cbn [length]; lia.
Qed.

Lemma nth_some (l : list N) i : i < length l -> nth_error l i = Some (nth i l 0%N).
Proof. intros H. apply nth_error_nth'. exact H. Qed.

Lemma list_eqb_eq a b : list_eqb a b = true -> a = b.
Proof.
  revert b; induction a as [|x a IH]; intros [|y b] H; try discriminate; [reflexivity|].
  cbn [list_eqb] in H. apply andb_prop in H as [H1 H2]. apply N.eqb_eq in H1. f_equal; [exact H1|apply IH; exact H2].
Qed.

Lemma split_last_spec {A} (l : list A) i z : split_last l = Some (i, z) -> l = i ++ [z].
Proof.
  revert i; induction l as [|a l IH]; intros i H; [discriminate|].
  destruct l as [|b l].
  - cbn in H. injection H as <- <-. reflexivity.
  - change (split_last (a :: b :: l)) with (match split_last (b :: l) with Some (i, z) => Some (a :: i, z) | None => None end) in H.
    destruct (split_last (b :: l)) as [[i' z']|] eqn:E; [|discriminate].
    injection H as <- <-. cbn. f_equal. apply IH. reflexivity.
Qed.

(* appends at or above lo never change the first lo bytes of a file that already has them *)
Lemma firstn_put_above f at_ d lo : lo <= at_ -> lo <= length f -> firstn lo (put f at_ d) = firstn lo f.
Proof.
  intros H1 H2. apply list_ext; intros i. rewrite !nth_firstn.
  destruct (Nat.ltb_spec i lo) as [Hi|Hi]; [|reflexivity].
  rewrite nth_put. replace (i <? at_) with true by (symmetry; apply Nat.ltb_lt; lia).
  symmetry; apply nth_some; lia.
Qed.

Lemma body_op_keeps lo f op : is_body_op (N.of_nat lo) op = true -> lo <= length f ->
  firstn lo (apply_op f op) = firstn lo f /\ lo <= length (apply_op f op).
Proof.
  intros H Hl. destruct op as [a d|d|p]; cbn in *; try discriminate.
  - apply N.leb_le in H. split; [apply firstn_put_above; lia|]. rewrite length_put; lia.
  - split; [reflexivity|exact Hl].
Qed.

Lemma body_partial_keeps lo f op cut : is_body_op (N.of_nat lo) op = true -> lo <= length f ->
  firstn lo (partial_op f op cut) = firstn lo f.
Proof.
  intros H Hl. destruct op as [a d|d|p]; cbn in *; try discriminate; [|reflexivity].
  apply N.leb_le in H. destruct (firstn cut d); [reflexivity|]. apply firstn_put_above; lia.
Qed.

Lemma body_run_keeps lo body f : forallb (is_body_op (N.of_nat lo)) body = true -> lo <= length f ->
  firstn lo (fold_left apply_op body f) = firstn lo f /\ lo <= length (fold_left apply_op body f).
Proof.
  revert f; induction body as [|op body IH]; intros f H Hl; [split; [reflexivity|exact Hl]|].
  cbn in H. apply andb_prop in H as [H1 H2]. cbn [fold_left].
  destruct (body_op_keeps lo f op H1 Hl) as [E L]. destruct (IH _ H2 L) as [E' L']. split; [congruence|exact L'].
Qed.

(* every crash state is the complete file or a partial operation after a prefix *)
Lemma crash_state_cases ops k cut :
  crash_state ops k cut = run_ops ops \/
  exists pre op post, ops = pre ++ op :: post /\ crash_state ops k cut = partial_op (run_ops pre) op cut.
Proof.
  unfold crash_state. destruct (nth_error ops k) as [op|] eqn:E.
  - right. destruct (nth_error_split ops k E) as (l1 & l2 & -> & Hl). exists l1, op, l2. split; [reflexivity|].
    rewrite <- Hl. rewrite firstn_app, Nat.sub_diag, firstn_all. cbn. rewrite app_nil_r. reflexivity.
  - left. apply nth_error_None in E. rewrite firstn_all2 by exact E. reflexivity.
Qed.

Lemma run_ops_app a b : run_ops (a ++ b) = fold_left apply_op b (run_ops a).
Proof. unfold run_ops. apply fold_left_app. Qed.

(* ---------------- big-endian fields ---------------- *)
Local Open Scope N_scope.

Lemma rd_be_acc l acc : rd_be l acc = acc * 256 ^ N.of_nat (length l) + rd_be l 0.
Proof.
  revert acc; induction l as [|b l IH]; intros acc.
  - cbn. lia.
  - cbn [rd_be length]. rewrite IH. rewrite (IH (0 * 256 + b)).
    rewrite Nat2N.inj_succ, N.pow_succ_r'. lia.
Qed.

Lemma rd_be_app a b : rd_be (a ++ b) 0 = rd_be a 0 * 256 ^ N.of_nat (length b) + rd_be b 0.
Proof.
  assert (G : forall l acc, rd_be (l ++ b) acc = rd_be b (rd_be l acc)).
  { intros l; induction l as [|y l IH]; intros acc; [reflexivity|]. cbn. apply IH. }
  rewrite G. apply rd_be_acc.
Qed.

Lemma rd_be_zeros m : rd_be (repeat 0 m) 0 = 0.
Proof. induction m as [|m IH]; [reflexivity|]. cbn. exact IH. Qed.

Lemma rd_be_bound l : bytes_ok l = true -> rd_be l 0 < 256 ^ N.of_nat (length l).
Proof.
  induction l as [|b l IH]; intros H; [cbn; lia|].
  cbn in H. apply andb_prop in H as [Hb Hl]. apply N.ltb_lt in Hb. specialize (IH Hl).
  cbn [rd_be length]. rewrite rd_be_acc. rewrite Nat2N.inj_succ, N.pow_succ_r'. nia.
Qed.

Lemma rd_be_inj l1 l2 : bytes_ok l1 = true -> bytes_ok l2 = true -> length l1 = length l2 ->
  rd_be l1 0 = rd_be l2 0 -> l1 = l2.
Proof.
  revert l2; induction l1 as [|a l1 IH]; intros [|b l2] H1 H2 Hl E; try discriminate; [reflexivity|].
  cbn in H1, H2. apply andb_prop in H1 as [Ha H1]. apply andb_prop in H2 as [Hb H2].
  apply N.ltb_lt in Ha, Hb. injection Hl as Hl.
  cbn [rd_be] in E. rewrite (rd_be_acc l1), (rd_be_acc l2) in E. rewrite Hl in E.
  pose proof (rd_be_bound l1 H1) as B1. pose proof (rd_be_bound l2 H2) as B2. rewrite Hl in B1.
  set (P := 256 ^ N.of_nat (length l2)) in *. clearbody P.
  remember (rd_be l1 0) as u eqn:Eu. remember (rd_be l2 0) as v eqn:Ev.
  assert (a = b) as -> by (destruct (N.lt_trichotomy a b) as [Hlt|[Heq|Hgt]]; [exfalso; nia|exact Heq|exfalso; nia]).
  assert (E' : u = v) by lia. rewrite Eu, Ev in E'.
  f_equal. apply IH; [exact H1|exact H2|exact Hl|congruence].
Qed.

Lemma bytes_ok_app a b : bytes_ok (a ++ b) = bytes_ok a && bytes_ok b.
Proof. unfold bytes_ok. apply forallb_app. Qed.

Lemma bytes_ok_firstn n l : bytes_ok l = true -> bytes_ok (firstn n l) = true.
Proof.
  revert l; induction n as [|n IH]; intros [|a l] H; try reflexivity.
  cbn in *. apply andb_prop in H as [H1 H2]. rewrite H1. apply IH. exact H2.
Qed.
Lemma bytes_ok_skipn n l : bytes_ok l = true -> bytes_ok (skipn n l) = true.
Proof.
  revert l; induction n as [|n IH]; intros [|a l] H; try reflexivity; try exact H.
  cbn in *. apply andb_prop in H as [H1 H2]. apply IH. exact H2.
Qed.
Lemma bytes_ok_zeros m : bytes_ok (repeat 0 m) = true.
Proof. induction m; [reflexivity|]. cbn. assumption. Qed.

(* a field whose first j bytes are new and whose remaining bytes are still zero *)
Lemma torn_field_le (B : list N) j : (j <= length B)%nat ->
  rd_be (firstn j B ++ repeat 0 (length B - j)) 0 <= rd_be B 0.
Proof.
  intros Hj. rewrite <- (firstn_skipn j B) at 3. rewrite !rd_be_app, rd_be_zeros.
  rewrite repeat_length, skipn_length. lia.
Qed.

(* ---------------- shared list facts ---------------- *)
Local Close Scope N_scope.

Lemma nth_via_error (l : list N) i d : nth i l d = match nth_error l i with Some x => x | None => d end.
Proof. revert i; induction l as [|a l IH]; intros [|i]; cbn; try reflexivity. apply IH. Qed.

Lemma nth_error_zeros m i : nth_error (repeat 0%N m) i = if i <? m then Some 0%N else None.
Proof.
  revert i; induction m as [|m IH]; intros i; [cbn; apply nth_error_nil|].
  destruct i as [|i]; [reflexivity|]. cbn [repeat nth_error]. rewrite IH. reflexivity.
Qed.

Lemma split_snoc {A} (pre post body : list A) op z : pre ++ op :: post = body ++ [z] ->
  (post = [] /\ pre = body /\ op = z) \/ (exists post', post = post' ++ [z] /\ body = pre ++ op :: post').
Proof.
  intros H. destruct post as [|y post'] using rev_ind.
  - left. apply (app_inj_tail pre body op z) in H as [-> ->]. auto.
  - right. clear IHpost'. exists post'. 
    replace (pre ++ op :: post' ++ [y]) with ((pre ++ op :: post') ++ [y]) in H by (rewrite <- app_assoc; reflexivity).
    apply app_inj_tail in H as [<- ->]. auto.
Qed.

Lemma forallb_app_l {A} (p : A -> bool) a b : forallb p (a ++ b) = true -> forallb p a = true.
Proof. rewrite forallb_app. intros H; apply andb_prop in H as [H _]; exact H. Qed.

Lemma forallb_mid {A} (p : A -> bool) a x b : forallb p (a ++ x :: b) = true -> p x = true.
Proof. rewrite forallb_app. cbn. intros H. apply andb_prop in H as [_ H]. apply andb_prop in H as [H _]. exact H. Qed.

(* ---------------- pmtiles ---------------- *)
Definition zero_head (f : list N) : Prop := forall i, i < 127 -> nth i f 0%N = 0%N.

Lemma zero_head_nil : zero_head [].
Proof. intros i _. destruct i; reflexivity. Qed.

Lemma zero_head_put f a d : zero_head f -> 127 <= a -> zero_head (put f a d).
Proof.
  intros Z Ha i Hi. rewrite nth_via_error, nth_put.
  replace (i <? a) with true by (symmetry; apply Nat.ltb_lt; lia). apply Z; exact Hi.
Qed.

Lemma zero_head_apply f op : zero_head f -> is_body_op 127 op = true -> zero_head (apply_op f op).
Proof.
  intros Z H. destruct op as [a d|d|p]; cbn in *; try discriminate; [|exact Z].
  apply N.leb_le in H. apply zero_head_put; [exact Z|lia].
Qed.

Lemma zero_head_partial f op cut : zero_head f -> is_body_op 127 op = true -> zero_head (partial_op f op cut).
Proof.
  intros Z H. destruct op as [a d|d|p]; cbn in *; try discriminate; [|exact Z].
  apply N.leb_le in H. destruct (firstn cut d); [exact Z|]. apply zero_head_put; [exact Z|lia].
Qed.

Lemma zero_head_run body f : zero_head f -> forallb (is_body_op 127) body = true -> zero_head (fold_left apply_op body f).
Proof.
  revert f; induction body as [|op body IH]; intros f Z H; [exact Z|].
  cbn in H. apply andb_prop in H as [H1 H2]. cbn [fold_left]. apply IH; [apply zero_head_apply; assumption|exact H2].
Qed.

Lemma nth_firstn_lt (l : list N) n i d : i < n -> nth i (firstn n l) d = nth i l d.
Proof. intros H. rewrite !nth_via_error, nth_firstn. replace (i <? n) with true by (symmetry; apply Nat.ltb_lt; lia). reflexivity. Qed.

Lemma pm_view_some f v : pm_view f = Some v ->
  127 <= length f /\ nth 0 f 0%N = 80%N /\ nth 97 f 0%N <> 0%N /\ nth 98 f 0%N <> 0%N.
Proof.
  unfold pm_view. intros H.
  destruct (length (firstn 127 f) =? 127) eqn:E1; [|discriminate]. cbn [negb] in H.
  destruct (list_eqb (firstn 8 (firstn 127 f)) pm_magic) eqn:E2; [|discriminate]. cbn [negb] in H.
  destruct ((1 <=? nth 97 (firstn 127 f) 0) && (nth 97 (firstn 127 f) 0 <=? 3))%N eqn:E3; [|discriminate]. cbn [negb] in H.
  destruct ((1 <=? nth 98 (firstn 127 f) 0) && (nth 98 (firstn 127 f) 0 <=? 3))%N eqn:E4; [|discriminate]. clear H.
  apply Nat.eqb_eq in E1. rewrite firstn_length in E1.
  apply list_eqb_eq in E2. apply andb_prop in E3 as [E3 _]. apply andb_prop in E4 as [E4 _].
  apply N.leb_le in E3, E4. rewrite nth_firstn_lt in E3, E4 by lia.
  repeat split; try lia.
  assert (G : nth 0 (firstn 8 (firstn 127 f)) 0%N = 80%N) by (rewrite E2; reflexivity).
  rewrite !nth_firstn_lt in G by lia. exact G.
Qed.

Lemma pm_view_zero_head f : zero_head f -> pm_view f = None.
Proof.
  intros Z. destruct (pm_view f) as [v|] eqn:E; [|reflexivity].
  apply pm_view_some in E as (_ & E & _). rewrite Z in E by lia. discriminate.
Qed.

Lemma pm_view_ext f g : 127 <= length f -> 127 <= length g ->
  (forall i, i < 99 -> nth_error f i = nth_error g i) ->
  (nth 99 f 0 <= 5)%N -> (nth 99 g 0 <= 5)%N -> skipn 127 f = skipn 127 g -> pm_view f = pm_view g.
Proof.
  intros Lf Lg P Tf Tg S. unfold pm_view.
  assert (E8 : firstn 8 (firstn 127 f) = firstn 8 (firstn 127 g)).
  { apply list_ext; intros i. rewrite !nth_firstn. destruct (Nat.ltb_spec i 8); [|reflexivity].
    replace (i <? 127) with true by (symmetry; apply Nat.ltb_lt; lia). apply P; lia. }
  assert (E99 : firstn 99 (firstn 127 f) = firstn 99 (firstn 127 g)).
  { apply list_ext; intros i. rewrite !nth_firstn. destruct (Nat.ltb_spec i 99); [|reflexivity].
    replace (i <? 127) with true by (symmetry; apply Nat.ltb_lt; lia). apply P; lia. }
  assert (Ei : forall i, i < 99 -> nth i (firstn 127 f) 0%N = nth i (firstn 127 g) 0%N).
  { intros i Hi. rewrite !nth_firstn_lt by lia. rewrite !nth_via_error, P by lia. reflexivity. }
  rewrite !firstn_length. replace (Nat.min 127 (length f)) with 127 by lia. replace (Nat.min 127 (length g)) with 127 by lia.
  rewrite E8, E99, (Ei 97), (Ei 98), S by lia.
  rewrite (nth_firstn_lt f 127 99), (nth_firstn_lt g 127 99) by lia.
  apply N.leb_le in Tf, Tg. rewrite Tf, Tg. reflexivity.
Qed.

Theorem pm_crash_safe ops k cut :
  pm_wfb ops = true ->
  pm_view (crash_state ops k cut) <> None ->
  pm_view (crash_state ops k cut) = pm_view (run_ops ops).
Proof.
  intros W Hopen. unfold pm_wfb in W.
  destruct (split_last ops) as [[body z]|] eqn:Es; [|discriminate].
  destruct z as [a d|h1|p]; try discriminate.
  apply andb_prop in W as [W Wb]. apply andb_prop in W as [Wl Wt]. apply Nat.eqb_eq in Wl. apply N.leb_le in Wt.
  apply split_last_spec in Es. subst ops.
  destruct (crash_state_cases (body ++ [WStart h1]) k cut) as [E|(pre & op & post & Eo & E)]; [rewrite E; reflexivity|].
  rewrite E in *. clear E.
  symmetry in Eo. apply split_snoc in Eo as [(-> & -> & ->)|(post' & -> & ->)].
  - (* the final header write is cut *)
    set (f0 := run_ops body) in *.
    assert (Z : zero_head f0) by (apply zero_head_run; [apply zero_head_nil|exact Wb]).
    rewrite run_ops_app. cbn [fold_left apply_op partial_op]. cbn [partial_op] in Hopen. fold f0.
    destruct (le_lt_dec 127 cut) as [Hc|Hc]. { rewrite firstn_all2 by lia. reflexivity. }
    assert (Lp : length (firstn cut h1) = cut) by (rewrite firstn_length; lia).
    assert (P : forall i, nth_error (put f0 0 (firstn cut h1)) i = if i <? cut then nth_error h1 i else nth_error f0 i).
    { intros i. rewrite nth_put, Lp. cbn [Nat.add]. destruct (Nat.ltb_spec i 0) as [H0|_]; [lia|].
      destruct (Nat.ltb_spec i cut) as [Hi|Hi]; [|reflexivity]. rewrite nth_firstn, Nat.sub_0_r.
      replace (i <? cut) with true by (symmetry; apply Nat.ltb_lt; lia). reflexivity. }
    assert (Q : forall i, nth_error (put f0 0 h1) i = if i <? 127 then nth_error h1 i else nth_error f0 i).
    { intros i. rewrite nth_put, Wl. cbn [Nat.add]. destruct (Nat.ltb_spec i 0) as [H0|_]; [lia|].
      rewrite Nat.sub_0_r. reflexivity. }
    destruct (pm_view (put f0 0 (firstn cut h1))) as [v|] eqn:Ev; [|exfalso; apply Hopen; reflexivity].
    pose proof (pm_view_some _ _ Ev) as (Ll & _ & N97 & N98).
    assert (Hc99 : 99 <= cut).
    { destruct (le_lt_dec 99 cut) as [G|G]; [exact G|exfalso].
      destruct (le_lt_dec cut 97) as [G1|G1].
      - apply N97. rewrite nth_via_error, P. replace (97 <? cut) with false by (symmetry; apply Nat.ltb_ge; lia).
        rewrite <- nth_via_error. apply Z; lia.
      - apply N98. rewrite nth_via_error, P. replace (98 <? cut) with false by (symmetry; apply Nat.ltb_ge; lia).
        rewrite <- nth_via_error. apply Z; lia. }
    rewrite <- Ev. apply pm_view_ext.
    + exact Ll.
    + rewrite length_put. lia.
    + intros i Hi. rewrite P, Q.
      replace (i <? cut) with true by (symmetry; apply Nat.ltb_lt; lia).
      replace (i <? 127) with true by (symmetry; apply Nat.ltb_lt; lia). reflexivity.
    + rewrite nth_via_error, P. destruct (99 <? cut); [rewrite <- nth_via_error; exact Wt|].
      rewrite <- nth_via_error, Z by lia. lia.
    + rewrite nth_via_error, Q. change (99 <? 127) with true. cbv iota. rewrite <- nth_via_error. exact Wt.
    + apply list_ext; intros i. rewrite !nth_skipn, P, Q.
      replace (127 + i <? cut) with false by (symmetry; apply Nat.ltb_ge; lia).
      replace (127 + i <? 127) with false by (symmetry; apply Nat.ltb_ge; lia). reflexivity.
  - (* an earlier operation is cut: bytes 0..127 are still zero *)
    exfalso. apply Hopen. apply pm_view_zero_head. apply zero_head_partial.
    + apply zero_head_run; [apply zero_head_nil|]. exact (forallb_app_l _ _ _ Wb).
    + exact (forallb_mid _ _ _ _ Wb).
Qed.

(* ---------------- versatiles ---------------- *)
Lemma vt_parse_fields h v : vt_parse_header h = Some v ->
  length h = 66 /\ vh_boff v = rd_be (sub h 50 8) 0%N /\ vh_blen v = rd_be (sub h 58 8) 0%N.
Proof.
  unfold vt_parse_header. intros H.
  destruct (length h =? 66) eqn:E1; [|discriminate]. cbn [negb] in H.
  destruct (vt_fixed_ok h); [|discriminate]. cbn [negb] in H.
  injection H as <-. apply Nat.eqb_eq in E1. cbn. auto.
Qed.

Section VtProofs.
  Variable decomp : N -> list N -> option (list N).
  Variable unbrotli : list N -> option (list N).
  Hypothesis unbrotli_nil : unbrotli [] = None.

  (* a header whose block-index length field reads 0 is never accepted *)
  Lemma vt_open_blen0 f :
    rd_be (sub (firstn 66 f) 58 8) 0%N = 0%N -> vt_open decomp unbrotli f = None.
  Proof.
    intros Hz. unfold vt_open. destruct (vt_parse_header (firstn 66 f)) as [v|] eqn:E; [|reflexivity].
    apply vt_parse_fields in E as (_ & _ & Eb). rewrite Hz in Eb.
    match goal with |- (if negb ?c then _ else _) = _ => destruct c end; [|reflexivity]. cbn [negb].
    rewrite Eb. unfold read_range. destruct (_ <=? _)%N; [|reflexivity].
    change (N.to_nat 0) with 0. unfold sub. cbn [firstn]. rewrite unbrotli_nil. reflexivity.
  Qed.

  Lemma sub_zero_tail h0 f : length h0 = 66 -> skipn 34 h0 = repeat 0%N 32 -> firstn 66 f = h0 ->
    forall i, 34 <= i < 66 -> nth_error f i = Some 0%N.
  Proof.
    intros L Z E i Hi.
    assert (G : nth_error (firstn 66 f) i = nth_error f i) by (rewrite nth_firstn; replace (i <? 66) with true by (symmetry; apply Nat.ltb_lt; lia); reflexivity).
    rewrite <- G, E. replace i with (34 + (i - 34)) by lia. rewrite <- nth_skipn, Z, nth_error_zeros.
    replace (i - 34 <? 32) with true by (symmetry; apply Nat.ltb_lt; lia). reflexivity.
  Qed.

  Lemma vt_open_provisional h0 f : length h0 = 66 -> skipn 34 h0 = repeat 0%N 32 -> firstn 66 f = h0 ->
    vt_open decomp unbrotli f = None.
  Proof.
    intros L Z E. apply vt_open_blen0.
    replace (sub (firstn 66 f) 58 8) with (repeat 0%N 8); [reflexivity|].
    apply list_ext; intros i. rewrite nth_sub, nth_error_zeros. destruct (Nat.ltb_spec i 8) as [Hi|Hi]; [|reflexivity].
    rewrite nth_firstn. replace (58 + i <? 66) with true by (symmetry; apply Nat.ltb_lt; lia).
    symmetry. apply (sub_zero_tail h0 f L Z E). lia.
  Qed.

  Theorem vt_crash_safe ops k cut :
    vt_wfb ops = true ->
    (forall n, n < length (vt_index_of ops) -> unbrotli (firstn n (vt_index_of ops)) = None) ->
    vt_open decomp unbrotli (crash_state ops k cut) <> None ->
    crash_state ops k cut = run_ops ops.
  Proof.
    intros W Hpre Hopen. unfold vt_wfb in W.
    destruct ops as [|[a0 h0|?|?] rest]; try discriminate. destruct a0; [|discriminate].
    destruct (split_last rest) as [[rest1 zW]|] eqn:Es1; [|discriminate].
    destruct zW as [?|h1|?]; try discriminate.
    destruct (split_last rest1) as [[body zI]|] eqn:Es2; [|discriminate].
    destruct zI as [boff idxc|?|?]; try discriminate.
    repeat (apply andb_prop in W as [W ?]).
    repeat match goal with H : (_ =? _) = true |- _ => apply Nat.eqb_eq in H end.
    repeat match goal with H : (_ =? _)%N = true |- _ => apply N.eqb_eq in H end.
    repeat match goal with H : list_eqb _ _ = true |- _ => apply list_eqb_eq in H end.
    match goal with H : (66 <=? boff)%N = true |- _ => apply N.leb_le in H; rename H into Hb66 end.
    match goal with H : length h0 = 66 |- _ => rename H into L0 end.
    match goal with H : length h1 = 66 |- _ => rename H into L1 end.
    match goal with H : skipn 34 h0 = _ |- _ => rename H into Z0 end.
    match goal with H : firstn 34 h0 = _ |- _ => rename H into Fx end.
    match goal with H : bytes_ok h1 = true |- _ => rename H into Bk end.
    match goal with H : forallb _ body = true |- _ => rename H into Wb end.
    match goal with H : rd_be (sub h1 50 8) _ = boff |- _ => rename H into Eboff end.
    match goal with H : rd_be (sub h1 58 8) _ = _ |- _ => rename H into Eblen end.
    apply split_last_spec in Es1, Es2. subst rest rest1.
    assert (Eidx : vt_index_of (WAppend 0 h0 :: (body ++ [WAppend boff idxc]) ++ [WStart h1]) = idxc).
    { unfold vt_index_of.
      assert (G : forall {A} (l : list A) z, split_last (l ++ [z]) = Some (l, z)).
      { intros A l z. induction l as [|x l IH]; [reflexivity|]. cbn [app].
        destruct (l ++ [z]) eqn:E; [destruct l; discriminate|]. 
        change (split_last (x :: a :: l0)) with (match split_last (a :: l0) with Some (i, z) => Some (x :: i, z) | None => None end).
        rewrite IH. reflexivity. }
      change (WAppend 0 h0 :: (body ++ [WAppend boff idxc]) ++ [WStart h1]) with ((WAppend 0 h0 :: body ++ [WAppend boff idxc]) ++ [WStart h1]).
      rewrite G. change (WAppend 0 h0 :: body ++ [WAppend boff idxc]) with ((WAppend 0 h0 :: body) ++ [WAppend boff idxc]).
      rewrite G. reflexivity. }
    rewrite Eidx in Hpre. clear Eidx.
    set (ops := WAppend 0 h0 :: (body ++ [WAppend boff idxc]) ++ [WStart h1]) in *.
    destruct (crash_state_cases ops k cut) as [E|(pre & op & post & Eo & E)]; [exact E|].
    rewrite E in *. clear E.
    assert (Wb' : forallb (is_body_op (N.of_nat 66)) (body ++ [WAppend boff idxc]) = true).
    { rewrite forallb_app. change (N.of_nat 66) with 66%N. rewrite Wb. cbn. apply N.leb_le in Hb66. rewrite Hb66. reflexivity. }
    set (body' := body ++ [WAppend boff idxc]) in *.
    assert (R0 : run_ops [WAppend 0 h0] = h0).
    { cbn. rewrite skipn_nil. apply app_nil_r. }
    assert (Hrun : forall b, forallb (is_body_op (N.of_nat 66)) b = true ->
              firstn 66 (run_ops (WAppend 0 h0 :: b)) = h0 /\ 66 <= length (run_ops (WAppend 0 h0 :: b))).
    { intros b Hb0. change (WAppend 0 h0 :: b) with ([WAppend 0 h0] ++ b). rewrite run_ops_app, R0.
      destruct (body_run_keeps 66 b h0 Hb0 ltac:(lia)) as [G1 G2]. split; [|exact G2].
      rewrite G1. rewrite <- L0. apply firstn_all. }
    unfold ops in Eo. destruct pre as [|p0 pre'].
    - (* the provisional header append is cut *)
      cbn [app] in Eo. injection Eo as <- _. exfalso. apply Hopen.
      cbn [partial_op run_ops fold_left]. change (N.to_nat 0) with 0.
      assert (G : match firstn cut h0 with [] => @nil N | n :: l => put [] 0 (n :: l) end = firstn cut h0).
      { destruct (firstn cut h0) as [|x p]; [reflexivity|]. cbn [put]. rewrite skipn_nil. apply app_nil_r. }
      rewrite G.
      destruct (le_lt_dec 66 cut) as [Hc|Hc].
      + apply (vt_open_provisional h0); [exact L0|exact Z0|]. rewrite (firstn_all2 (n:=cut) h0) by lia. rewrite <- L0. apply firstn_all.
      + unfold vt_open, vt_parse_header. rewrite !firstn_length. rewrite L0.
        replace (Nat.min 66 (Nat.min cut 66) =? 66) with false by (symmetry; apply Nat.eqb_neq; lia). reflexivity.
    - cbn [app] in Eo. injection Eo as <- Eo. symmetry in Eo.
      apply split_snoc in Eo as [(-> & -> & ->)|(post' & -> & Eb)].
      + (* the final header write is cut *)
        destruct (Hrun body' Wb') as [F0 Lf0].
        set (f0 := run_ops (WAppend 0 h0 :: body')) in *.
        unfold ops. change (WAppend 0 h0 :: body' ++ [WStart h1]) with ((WAppend 0 h0 :: body') ++ [WStart h1]).
        rewrite run_ops_app. fold f0. cbn [fold_left apply_op partial_op]. cbn [partial_op] in Hopen.
        destruct (le_lt_dec 66 cut) as [Hc|Hc]. { rewrite firstn_all2 by lia. reflexivity. }
        assert (Lp : length (firstn cut h1) = cut) by (rewrite firstn_length; lia).
        set (st := put f0 0 (firstn cut h1)) in *.
        assert (P : forall i, nth_error st i = if i <? cut then nth_error h1 i else nth_error f0 i).
        { intros i. unfold st. rewrite nth_put, Lp. cbn [Nat.add]. destruct (Nat.ltb_spec i 0) as [H0|_]; [lia|].
          destruct (Nat.ltb_spec i cut) as [Hi|Hi]; [|reflexivity]. rewrite nth_firstn, Nat.sub_0_r.
          replace (i <? cut) with true by (symmetry; apply Nat.ltb_lt; lia). reflexivity. }
        assert (Q : forall i, nth_error (put f0 0 h1) i = if i <? 66 then nth_error h1 i else nth_error f0 i).
        { intros i. rewrite nth_put, L1. cbn [Nat.add]. destruct (Nat.ltb_spec i 0) as [H0|_]; [lia|].
          rewrite Nat.sub_0_r. reflexivity. }
        assert (Zf0 : forall i, 34 <= i < 66 -> nth_error f0 i = Some 0%N) by (apply (sub_zero_tail h0 f0 L0 Z0 F0)).
        (* f0 holds the block index at boff *)
        assert (If0 : forall i, i < length idxc -> nth_error f0 (N.to_nat boff + i) = nth_error idxc i).
        { intros i Hi. unfold f0, body'. change (WAppend 0 h0 :: body ++ [WAppend boff idxc]) with ((WAppend 0 h0 :: body) ++ [WAppend boff idxc]).
          rewrite run_ops_app. cbn [fold_left apply_op]. rewrite nth_put.
          replace (N.to_nat boff + i <? N.to_nat boff) with false by (symmetry; apply Nat.ltb_ge; lia).
          replace (N.to_nat boff + i <? N.to_nat boff + length idxc) with true by (symmetry; apply Nat.ltb_lt; lia).
          f_equal; lia. }
        assert (Lf0' : N.to_nat boff + length idxc <= length f0).
        { unfold f0, body'. change (WAppend 0 h0 :: body ++ [WAppend boff idxc]) with ((WAppend 0 h0 :: body) ++ [WAppend boff idxc]).
          rewrite run_ops_app. cbn [fold_left apply_op]. rewrite length_put. lia. }
        assert (Lst : length st = length f0) by (unfold st; rewrite length_put, Lp; lia).
        destruct (le_lt_dec cut 58) as [Hc58|Hc58].
        * (* the length field of the block index is still zero *)
          exfalso. apply Hopen. apply vt_open_blen0.
          replace (sub (firstn 66 st) 58 8) with (repeat 0%N 8); [reflexivity|].
          apply list_ext; intros i. rewrite nth_sub, nth_error_zeros. destruct (Nat.ltb_spec i 8) as [Hi|Hi]; [|reflexivity].
          rewrite nth_firstn. replace (58 + i <? 66) with true by (symmetry; apply Nat.ltb_lt; lia).
          rewrite P. replace (58 + i <? cut) with false by (symmetry; apply Nat.ltb_ge; lia).
          symmetry. apply Zf0. lia.
        * (* the length field is torn: j = cut - 58 of its 8 bytes are new *)
          set (B := sub h1 58 8) in *. set (T := sub (firstn 66 st) 58 8).
          assert (LB : length B = 8).
          { unfold B, sub. rewrite firstn_length, skipn_length. lia. }
          assert (ET : T = firstn (cut - 58) B ++ repeat 0%N (length B - (cut - 58))).
          { apply list_ext; intros i. unfold T. rewrite nth_sub, nth_firstn, P.
            destruct (Nat.ltb_spec i 8) as [Hi|Hi].
            - replace (58 + i <? 66) with true by (symmetry; apply Nat.ltb_lt; lia).
              destruct (Nat.ltb_spec (58 + i) cut) as [Hic|Hic].
              + rewrite nth_error_app1 by (rewrite firstn_length; lia). rewrite nth_firstn.
                replace (i <? cut - 58) with true by (symmetry; apply Nat.ltb_lt; lia).
                unfold B. rewrite nth_sub. replace (i <? 8) with true by (symmetry; apply Nat.ltb_lt; lia). reflexivity.
              + rewrite nth_error_app2 by (rewrite firstn_length; lia). rewrite nth_error_zeros, firstn_length.
                replace (i - Nat.min (cut - 58) (length B) <? length B - (cut - 58)) with true by (symmetry; apply Nat.ltb_lt; lia).
                apply Zf0. lia.
            - symmetry. apply nth_error_None. rewrite app_length, firstn_length, repeat_length. lia. }
          assert (BkB : bytes_ok B = true) by (unfold B, sub; apply bytes_ok_firstn, bytes_ok_skipn; exact Bk).
          assert (BkT : bytes_ok T = true).
          { rewrite ET, bytes_ok_app, bytes_ok_firstn, bytes_ok_zeros by exact BkB. reflexivity. }
          assert (Tle : (rd_be T 0 <= rd_be B 0)%N) by (rewrite ET; apply torn_field_le; lia).
          assert (Eoff : sub (firstn 66 st) 50 8 = sub h1 50 8).
          { apply list_ext; intros i. rewrite !nth_sub. destruct (Nat.ltb_spec i 8) as [Hi|Hi]; [|reflexivity].
            rewrite nth_firstn, P. replace (50 + i <? 66) with true by (symmetry; apply Nat.ltb_lt; lia).
            replace (50 + i <? cut) with true by (symmetry; apply Nat.ltb_lt; lia). reflexivity. }
          destruct (N.eq_dec (rd_be T 0) (rd_be B 0)) as [Eq|Neq].
          -- (* the remaining bytes of the new header are zero as well: the file is complete *)
             assert (ETB : T = B).
             { apply rd_be_inj; [exact BkT|exact BkB| |exact Eq]. rewrite ET, app_length, firstn_length, repeat_length. lia. }
             apply list_ext; intros i. rewrite P, Q.
             destruct (Nat.ltb_spec i cut) as [Hi|Hi]. { replace (i <? 66) with true by (symmetry; apply Nat.ltb_lt; lia). reflexivity. }
             destruct (Nat.ltb_spec i 66) as [Hi2|Hi2]; [|reflexivity].
             assert (G1 : nth_error T (i - 58) = nth_error st i).
             { unfold T. rewrite nth_sub, nth_firstn. replace (i - 58 <? 8) with true by (symmetry; apply Nat.ltb_lt; lia).
               replace (58 + (i - 58)) with i by lia. replace (i <? 66) with true by (symmetry; apply Nat.ltb_lt; lia). reflexivity. }
             assert (G2 : nth_error B (i - 58) = nth_error h1 i).
             { unfold B. rewrite nth_sub. replace (i - 58 <? 8) with true by (symmetry; apply Nat.ltb_lt; lia).
               replace (58 + (i - 58)) with i by lia. reflexivity. }
             rewrite <- G2, <- ETB, G1, P. replace (i <? cut) with false by (symmetry; apply Nat.ltb_ge; lia). reflexivity.
          -- (* a strictly shorter block index is read: rejected by the decompressor *)
             exfalso. apply Hopen. unfold vt_open.
             destruct (vt_parse_header (firstn 66 st)) as [v|] eqn:Ev; [|reflexivity].
             apply vt_parse_fields in Ev as (_ & Evo & Evl). fold T in Evl. rewrite Eoff, Eboff in Evo.
             match goal with |- (if negb ?c then _ else _) = _ => destruct c end; [|reflexivity]. cbn [negb].
             rewrite Evo, Evl. unfold read_range.
             assert (Hlt : (rd_be T 0 < N.of_nat (length idxc))%N) by lia.
             replace (boff + rd_be T 0 <=? N.of_nat (length st))%N with true by (symmetry; apply N.leb_le; lia).
             replace (sub st (N.to_nat boff) (N.to_nat (rd_be T 0))) with (firstn (N.to_nat (rd_be T 0)) idxc).
             { rewrite Hpre by lia. reflexivity. }
             apply list_ext; intros i. rewrite nth_sub, nth_firstn.
             destruct (Nat.ltb_spec i (N.to_nat (rd_be T 0))) as [Hi|Hi]; [|reflexivity].
             rewrite P. replace (N.to_nat boff + i <? cut) with false by (symmetry; apply Nat.ltb_ge; lia).
             symmetry. apply If0. lia.
      + (* an operation after the provisional header and before the final write is cut *)
        exfalso. apply Hopen.
        assert (Wpre : forallb (is_body_op (N.of_nat 66)) pre' = true) by (rewrite Eb in Wb'; exact (forallb_app_l _ _ _ Wb')).
        assert (Wop : is_body_op (N.of_nat 66) op = true) by (rewrite Eb in Wb'; exact (forallb_mid _ _ _ _ Wb')).
        destruct (Hrun pre' Wpre) as [F0 Lf0].
        apply (vt_open_provisional h0); [exact L0|exact Z0|].
        rewrite (body_partial_keeps 66 _ op cut Wop Lf0). exact F0.
  Qed.
End VtProofs.
