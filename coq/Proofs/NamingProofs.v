(* Member names written by the tar / directory writers are read back to the same coordinate,
   format and compression (C01), with or without the "./" prefix (C16). *)
From Coq Require Import List NArith Bool Arith Lia.
From VT Require Import Model.Naming.
Import ListNotations.
Local Open Scope N_scope.

(* ---------- decimal ---------- *)
Definition is_dig (c : N) : bool := (48 <=? c) && (c <=? 57).

Lemma to_dec_go_app f : forall n acc, to_dec_go f n acc = to_dec_go f n [] ++ acc.
Proof.
  induction f as [|f IH]; intros n acc; [reflexivity|]. cbn [to_dec_go].
  destruct (n <? 10); [reflexivity|]. rewrite (IH (n / 10) (_ :: acc)), (IH (n / 10) [_]), <- app_assoc. reflexivity.
Qed.

Lemma dv_app l1 : forall l2 a, digits_val (l1 ++ l2) a = match digits_val l1 a with Some v => digits_val l2 v | None => None end.
Proof. induction l1 as [|c r IH]; intros l2 a; [reflexivity|]. cbn [app digits_val]. destruct ((48 <=? c) && (c <=? 57)); [apply IH|reflexivity]. Qed.

Lemma digits_val_single d a : d < 10 -> digits_val [48 + d] a = Some (a * 10 + d) /\ is_dig (48 + d) = true.
Proof.
  intros Hd. assert (E : ((48 <=? 48 + d) && (48 + d <=? 57)) = true) by (apply andb_true_intro; split; apply N.leb_le; lia).
  split; [|exact E]. cbn [digits_val]. rewrite E. f_equal. lia.
Qed.

Lemma to_dec_go_spec f : forall n a, n < 10 ^ N.of_nat f -> (0 < f)%nat ->
  exists k, digits_val (to_dec_go f n []) a = Some (a * 10 ^ k + n) /\ forallb is_dig (to_dec_go f n []) = true /\ to_dec_go f n [] <> [].
Proof.
  induction f as [|f IH]; intros n a Hn Hf; [exfalso; exact (Nat.lt_irrefl 0 Hf)|]. cbn [to_dec_go].
  assert (Hm : n mod 10 < 10) by (apply N.mod_lt; lia).
  destruct (N.ltb_spec n 10) as [Hlt|Hge].
  - exists 1. rewrite N.mod_small by lia. destruct (digits_val_single n a Hlt) as [Hv Hd]. rewrite Hv.
    split; [f_equal; lia|]. split; [cbn [forallb]; rewrite Hd; reflexivity|discriminate].
  - destruct f as [|f']; [cbn in Hn; lia|].
    assert (Hn' : n / 10 < 10 ^ N.of_nat (S f')) by (rewrite (Nat2N.inj_succ (S f')), N.pow_succ_r' in Hn; apply N.div_lt_upper_bound; lia).
    destruct (IH (n / 10) a Hn' ltac:(lia)) as (k & Hv & Hall & Hne).
    rewrite to_dec_go_app. exists (k + 1). rewrite dv_app, Hv.
    destruct (digits_val_single (n mod 10) (a * 10 ^ k + n / 10) Hm) as [Hv2 Hd]. rewrite Hv2.
    split; [|split; [rewrite forallb_app, Hall; cbn [forallb]; rewrite Hd; reflexivity|destruct (to_dec_go (S f') (n / 10) []); [congruence|discriminate]]].
    f_equal. pose proof (N.div_mod n 10 ltac:(lia)). rewrite N.pow_add_r. change (10 ^ 1) with 10. lia.
Qed.

Lemma to_dec_facts n : n < 10 ^ 20 ->
  digits_val (to_dec n) 0 = Some n /\ forallb is_dig (to_dec n) = true /\ to_dec n <> [].
Proof.
  intros Hn. unfold to_dec. destruct (to_dec_go_spec 20 n 0 Hn ltac:(lia)) as (k & Hv & Hall & Hne).
  split; [rewrite Hv; f_equal; lia|]. split; assumption.
Qed.

Lemma parse_uint_to_dec maxv n : n <= maxv -> n < 10 ^ 20 -> parse_uint maxv (to_dec n) = Some n.
Proof.
  intros Hm Hn. destruct (to_dec_facts n Hn) as (Hv & Hall & Hne). unfold parse_uint.
  destruct (to_dec n) as [|c r] eqn:E; [congruence|].
  assert (Hc : c <> 43). { cbn in Hall. apply andb_prop in Hall as [Hc _]. unfold is_dig in Hc. apply andb_prop in Hc as [Hc _]. apply N.leb_le in Hc. lia. }
  replace (c =? 43) with false by (symmetry; apply N.eqb_neq; exact Hc).
  rewrite Hv. replace (n <=? maxv) with true by (symmetry; apply N.leb_le; exact Hm). reflexivity.
Qed.

(* ---------- dots and slashes ---------- *)
Definition free_of (x : N) (l : str) : Prop := Forall (fun c => c <> x) l.

Lemma digits_free x l : forallb is_dig l = true -> x < 48 -> free_of x l.
Proof.
  intros H Hx. induction l as [|c r IH]; constructor; cbn in H; apply andb_prop in H as [Hc Hr]; [|apply IH; exact Hr].
  unfold is_dig in Hc. apply andb_prop in Hc as [Hc _]. apply N.leb_le in Hc. lia.
Qed.

Lemma last_dot_none l : free_of 46 l -> last_dot l = None.
Proof.
  induction 1 as [|c r Hc _ IH]; [reflexivity|]. cbn [last_dot]. rewrite IH.
  replace (c =? 46) with false by (symmetry; apply N.eqb_neq; exact Hc). reflexivity.
Qed.

Lemma last_dot_app a b : free_of 46 b -> last_dot (a ++ 46 :: b) = Some (a, 46 :: b).
Proof.
  intros Hb. induction a as [|c a IH]; cbn [app last_dot].
  - rewrite (last_dot_none b Hb). reflexivity.
  - rewrite IH. reflexivity.
Qed.

Lemma split_on_free sep l : free_of sep l -> split_on sep l = [l].
Proof.
  induction 1 as [|c r Hc _ IH]; [reflexivity|]. cbn [split_on].
  replace (c =? sep) with false by (symmetry; apply N.eqb_neq; exact Hc). rewrite IH. reflexivity.
Qed.

Lemma split_on_app sep a b : free_of sep a -> split_on sep (a ++ sep :: b) = a :: split_on sep b.
Proof.
  induction 1 as [|c r Hc _ IH]; cbn [app split_on]; [rewrite N.eqb_refl; reflexivity|].
  replace (c =? sep) with false by (symmetry; apply N.eqb_neq; exact Hc). rewrite IH. reflexivity.
Qed.

Lemma free_of_app x a b : free_of x a -> free_of x b -> free_of x (a ++ b).
Proof. intros Ha Hb. apply Forall_app. split; assumption. Qed.

(* ---------- the ten format extensions: finite facts ---------- *)
Definition ext_good (f : N) (e : str) : bool :=
  match e with
  | 46 :: body =>
      forallb (fun c => negb (c =? 46) && negb (c =? 47)) body &&
      str_eqb (map lower e) e && negb (str_eqb e ext_jpeg) && negb (str_eqb e ext_gz) && negb (str_eqb e ext_br) &&
      match index_of e format_exts 0 with Some i => i =? f | None => false end
  | _ => false
  end.

Lemma exts_good : forallb (fun f => ext_good f (nth (N.to_nat f) format_exts [])) [0; 1; 2; 3; 4; 5; 6; 7; 8; 9] = true.
Proof. vm_compute. reflexivity. Qed.

Lemma ext_good_of f : f < 10 -> ext_good f (nth (N.to_nat f) format_exts []) = true.
Proof.
  intros Hf. pose proof exts_good as H. rewrite forallb_forall in H. apply H.
  assert (f = 0 \/ f = 1 \/ f = 2 \/ f = 3 \/ f = 4 \/ f = 5 \/ f = 6 \/ f = 7 \/ f = 8 \/ f = 9) as D by lia.
  repeat (destruct D as [->|D]; [cbn; tauto|]). subst; cbn; tauto.
Qed.

Lemma str_eqb_refl a : str_eqb a a = true.
Proof. induction a as [|x a IH]; [reflexivity|]. cbn. rewrite N.eqb_refl, IH. reflexivity. Qed.
Lemma str_eqb_eq a : forall b, str_eqb a b = true -> a = b.
Proof.
  induction a as [|x a IH]; intros [|y b] H; try discriminate; [reflexivity|]. cbn in H. apply andb_prop in H as [H1 H2].
  apply N.eqb_eq in H1. f_equal; [exact H1|apply IH; exact H2].
Qed.

(* ---------- round trip ---------- *)
Theorem member_roundtrip dot z x y f c :
  z <= 31 -> x <= 4294967295 -> y <= 4294967295 -> f < 10 -> c <= 2 ->
  parse_member (render_member dot z x y f c) = Some (z, x, y, f, c).
Proof.
  intros Hz Hx Hy Hf Hc.
  assert (B20 : forall n, n <= 4294967295 -> n < 10 ^ 20) by (intros n Hn; change (10 ^ 20) with 100000000000000000000; lia).
  destruct (to_dec_facts z (B20 z ltac:(lia))) as (_ & Dz & Nz).
  destruct (to_dec_facts x (B20 x Hx)) as (_ & Dx & _).
  destruct (to_dec_facts y (B20 y Hy)) as (_ & Dy & _).
  pose proof (ext_good_of f Hf) as G. set (e := nth (N.to_nat f) format_exts []) in *.
  destruct e as [|e0 body] eqn:Ee; [discriminate|]. unfold ext_good in G.
  destruct e0 as [|p]; [discriminate|]. repeat (destruct p; try discriminate).
  repeat (apply andb_prop in G as [G ?]).
  match goal with H : forallb _ body = true |- _ => rename H into Gbody end.
  match goal with H : str_eqb (map lower _) _ = true |- _ => rename H into Glow end.
  match goal with H : negb (str_eqb _ ext_jpeg) = true |- _ => rename H into Gj end.
  match goal with H : negb (str_eqb _ ext_gz) = true |- _ => rename H into Ggz end.
  match goal with H : negb (str_eqb _ ext_br) = true |- _ => rename H into Gbr end.
  match goal with H : match index_of _ _ _ with _ => _ end = true |- _ => rename H into Gidx end.
  assert (Fb46 : free_of 46 body) by (apply Forall_forall; intros ch Hch; rewrite forallb_forall in Gbody; specialize (Gbody ch Hch); apply andb_prop in Gbody as [G1 _]; apply negb_true_iff, N.eqb_neq in G1; exact G1).
  assert (Fb47 : free_of 47 body) by (apply Forall_forall; intros ch Hch; rewrite forallb_forall in Gbody; specialize (Gbody ch Hch); apply andb_prop in Gbody as [_ G1]; apply negb_true_iff, N.eqb_neq in G1; exact G1).
  set (file := to_dec y ++ (46 :: body) ++ comp_ext c).
  assert (Ffile : free_of 47 file).
  { unfold file. apply free_of_app; [apply (digits_free 47 _ Dy); lia|]. apply free_of_app; [constructor; [lia|exact Fb47]|].
    unfold comp_ext. destruct (c =? 1); [repeat constructor; lia|]. destruct (c =? 2); repeat constructor; lia. }
  (* the three components *)
  assert (Hparts : (let parts := split_on 47 (render_member dot z x y f c) in match parts with h :: r => if str_eqb h [46] then r else parts | [] => parts end) = [to_dec z; to_dec x; file]).
  { unfold render_member. fold e. rewrite Ee. fold file.
    assert (S3 : split_on 47 (to_dec z ++ 47 :: to_dec x ++ 47 :: file) = [to_dec z; to_dec x; file]).
    { rewrite split_on_app by (apply (digits_free 47 _ Dz); lia). rewrite split_on_app by (apply (digits_free 47 _ Dx); lia).
      rewrite split_on_free by exact Ffile. reflexivity. }
    destruct dot; cbn [app].
    - change (46 :: 47 :: to_dec z ++ 47 :: to_dec x ++ 47 :: file) with ([46] ++ 47 :: (to_dec z ++ 47 :: to_dec x ++ 47 :: file)).
      rewrite split_on_app by (repeat constructor; lia). rewrite S3. reflexivity.
    - rewrite S3. assert (E46 : str_eqb (to_dec z) [46] = false).
      { destruct (to_dec z) as [|d0 dr]; [congruence|]. cbn in Dz. apply andb_prop in Dz as [Dz _]. unfold is_dig in Dz. apply andb_prop in Dz as [Dz _]. apply N.leb_le in Dz.
        cbn [str_eqb]. replace (d0 =? 46) with false by (symmetry; apply N.eqb_neq; lia). reflexivity. }
      rewrite E46. reflexivity. }
  cbv zeta in Hparts. unfold parse_member. cbv zeta. rewrite Hparts.
  rewrite (parse_uint_to_dec 255 z ltac:(lia) (B20 z ltac:(lia))), (parse_uint_to_dec 4294967295 x Hx (B20 x Hx)).
  replace (31 <? z) with false by (symmetry; apply N.ltb_ge; exact Hz).
  (* compression *)
  assert (Hsc : strip_compression file = (c, to_dec y ++ 46 :: body)).
  { unfold strip_compression, file, comp_ext.
    destruct (N.eqb_spec c 1) as [->|H1]; [|destruct (N.eqb_spec c 2) as [->|H2]].
    - change ((46 :: body) ++ ext_gz) with ((46 :: body) ++ 46 :: [103; 122]). rewrite app_assoc.
      rewrite last_dot_app by (repeat constructor; lia). fold ext_gz. rewrite str_eqb_refl. reflexivity.
    - change ((46 :: body) ++ ext_br) with ((46 :: body) ++ 46 :: [98; 114]). rewrite app_assoc.
      rewrite last_dot_app by (repeat constructor; lia). fold ext_br.
      replace (str_eqb ext_br ext_gz) with false by reflexivity. rewrite str_eqb_refl. reflexivity.
    - assert (c = 0) by lia. subst c. rewrite app_nil_r. cbn [app].
      rewrite last_dot_app by exact Fb46. apply negb_true_iff in Ggz, Gbr. rewrite Ggz, Gbr. reflexivity. }
  rewrite Hsc.
  (* format *)
  assert (Hsf : strip_format (to_dec y ++ 46 :: body) = Some (f, to_dec y)).
  { unfold strip_format. rewrite last_dot_app by exact Fb46. apply str_eqb_eq in Glow. rewrite Glow.
    apply negb_true_iff in Gj. rewrite Gj. destruct (index_of (46 :: body) format_exts 0) as [i|]; [|discriminate].
    apply N.eqb_eq in Gidx. subst i. reflexivity. }
  rewrite Hsf, (parse_uint_to_dec 4294967295 y Hy (B20 y Hy)). reflexivity.
Qed.
