(* C01 / C16: PMTiles lookups through directory trees of any depth (root -> leaf -> leaf -> ... ->
   tile entries), as far as the reader's depth budget goes.  Builds on the one-directory and
   two-level results of PMDirProofs. *)
From Coq Require Import List NArith ZArith Lia Bool.
From VT Require Import Base.Outcome Model.PMDir Proofs.PMDirProofs.
Import ListNotations.
Local Open Scope N_scope.

Definition leaf_ok (x : list entry * (N * N)) : Prop := fst x <> [] /\ 0 < snd (snd x).

(* the binary search on a directory of pointers picks the pointer of the sub-tree that holds the
   entry whose run contains t *)
Lemma find_root_pointer av pre l o n post e t :
  let leaves := pre ++ (l, (o, n)) :: post in
  runs_ok (concat (map fst leaves)) -> Forall leaf_ok leaves ->
  In e l -> e_id e <= t -> t < e_id e + N.max (e_run e) 1 ->
  find_tile av (root_of leaves) t = Ok (Some (pointer_of l o n)).
Proof.
  intros leaves Hr Hne Hin Hle Hlt.
  pose proof (root_runs_ok leaves Hr Hne) as Hroot_ok.
  assert (Hroot_split : root_of leaves = root_of pre ++ pointer_of l o n :: root_of post) by (unfold leaves; rewrite root_of_app; reflexivity).
  assert (Hcat : concat (map fst leaves) = concat (map fst pre) ++ l ++ concat (map fst post)).
  { unfold leaves. rewrite map_app, concat_app. reflexivity. }
  rewrite Hcat in Hr.
  assert (Hl_ok : runs_ok l) by (apply runs_ok_app_r in Hr; apply runs_ok_app_l in Hr; exact Hr).
  unfold leaves in Hne. apply Forall_app in Hne as [Hne_pre Hne2]. inversion Hne2 as [|? ? [Hlne Hn] Hne_post]; subst. cbn [fst snd] in Hlne, Hn.
  destruct l as [|h l']; [destruct Hin|].
  assert (Hh : e_id h <= e_id e).
  { destruct Hin as [<-|Hin]; [lia|]. pose proof (runs_ok_later h l' Hl_ok e Hin). lia. }
  apply (find_in_run av (root_of leaves) (pointer_of (h :: l') o n) t Hroot_ok).
  - rewrite Hroot_split. apply in_or_app. right. left. reflexivity.
  - right. unfold pointer_of at 1 2. cbn [e_run e_id]. split; [reflexivity|]. split; [lia|].
    intros e' He' Hlt'. unfold pointer_of in Hlt'. cbn [e_id] in Hlt'.
    rewrite Hroot_split in He'. apply in_app_or in He'. destruct He' as [He'|[<-|He']].
    + pose proof (root_ids_before pre (h :: l') (concat (map fst post)) Hr Hne_pre e' h He' (or_introl eq_refl)). lia.
    + unfold pointer_of in *. cbn [e_id] in *. lia.
    + pose proof (root_ids_behind (h :: l') post (runs_ok_app_r _ _ Hr) Hne_post e' e He' Hin). lia.
  - intros H0. unfold pointer_of in H0. cbn [e_run] in H0. lia.
Qed.

(* a directory `dir` stored with the tile entries `flat` below it, at most d pointer levels deep:
   either it is the list of tile entries itself, or a list of pointers, one per non-empty
   sub-tree, each carrying the first id below it and the byte range at which `leaf` yields the
   sub-tree's own directory *)
Fixpoint stored (d : nat) (leaf : N -> N -> outcome (list entry)) (dir flat : list entry) : Prop :=
  (dir = flat /\ Forall (fun e => 0 < e_len e /\ 0 < e_run e) flat) \/
  match d with
  | O => False
  | S d' => exists kids : list ((list entry * (N * N)) * list entry),
      flat = concat (map fst (map fst kids)) /\
      dir = root_of (map fst kids) /\
      Forall (fun k => leaf_ok (fst k) /\ leaf (fst (snd (fst k))) (snd (snd (fst k))) = Ok (snd k) /\
                       stored d' leaf (snd k) (fst (fst k))) kids
  end.

Theorem multi_level_lookup av leaf d : forall dir flat, stored d leaf dir flat -> runs_ok flat ->
  forall e t, In e flat -> e_id e <= t < e_id e + e_run e ->
  forall extra, pm_lookup av (S d + extra) leaf dir t = Ok (Some e).
Proof.
  induction d as [|d IH]; intros dir flat Hst Hr e t Hin Ht extra.
  - destruct Hst as [[-> Hall]|[]]. rewrite Forall_forall in Hall. destruct (Hall e Hin) as [Hl Hrun].
    cbn [plus]. apply pm_lookup_hit; [|exact Hl|exact Hrun].
    apply (find_in_run av flat e t Hr Hin); [left; lia | intros _; lia].
  - destruct Hst as [[-> Hall]|(kids & Hflat & Hdir & Hk)].
    + rewrite Forall_forall in Hall. destruct (Hall e Hin) as [Hl Hrun].
      change (S (S d) + extra)%nat with (S (S d + extra)). apply pm_lookup_hit; [|exact Hl|exact Hrun].
      apply (find_in_run av flat e t Hr Hin); [left; lia | intros _; lia].
    + subst flat dir. apply in_concat in Hin. destruct Hin as (l & Hl & Hel).
      apply in_map_iff in Hl. destruct Hl as (lk & <- & Hlk). apply in_map_iff in Hlk. destruct Hlk as (k & <- & Hkin).
      destruct (in_split k kids Hkin) as (pre & post & ->).
      rewrite Forall_forall in Hk. destruct (Hk k Hkin) as (Hok & Hleaf & Hsub).
      destruct k as [[kflat [o n]] kdir]. cbn [fst snd] in *.
      assert (Hleaves : map fst (pre ++ ((kflat, (o, n)), kdir) :: post) = map fst pre ++ (kflat, (o, n)) :: map fst post) by (rewrite map_app; reflexivity).
      rewrite Hleaves in *.
      assert (Hne : Forall leaf_ok (map fst pre ++ (kflat, (o, n)) :: map fst post)).
      { rewrite <- Hleaves. apply Forall_forall. intros x Hx. apply in_map_iff in Hx. destruct Hx as (k' & <- & Hk'). exact (proj1 (Hk k' Hk')). }
      assert (Hrun_pos : e_id e <= t /\ t < e_id e + N.max (e_run e) 1) by lia.
      pose proof (find_root_pointer av (map fst pre) kflat o n (map fst post) e t Hr Hne Hel (proj1 Hrun_pos) (proj2 Hrun_pos)) as Hfind.
      change (S (S d) + extra)%nat with (S (S d + extra)).
      rewrite (pm_lookup_step av (S d + extra) leaf _ t (pointer_of kflat o n) kdir Hfind);
        [|unfold pointer_of; cbn [e_len]; exact (proj2 Hok)|reflexivity|unfold pointer_of; cbn [e_off e_len]; exact Hleaf].
      apply (IH kdir kflat Hsub); [|exact Hel|exact Ht].
      rewrite map_app, concat_app in Hr. cbn [map concat fst] in Hr.
      apply runs_ok_app_r in Hr. apply runs_ok_app_l in Hr. exact Hr.
Qed.

(* ids that no entry covers are answered with "no tile" or an entry that does not cover them is
   never returned: whatever the lookup returns covers t *)
Theorem multi_level_lookup_sound av leaf : forall fuel dir t e,
  pm_lookup av fuel leaf dir t = Ok (Some e) -> 0 < e_len e /\ 0 < e_run e.
Proof.
  induction fuel as [|f IH]; intros dir t e; cbn [pm_lookup]; [discriminate|].
  destruct (find_tile av dir t) as [[p|]| | | ]; cbn [obind]; try discriminate.
  destruct (0 <? e_len p) eqn:El; [|discriminate].
  destruct (0 <? e_run p) eqn:Er.
  - intros H; inversion H; subst. split; apply N.ltb_lt; assumption.
  - destruct (leaf (e_off p) (e_len p)) as [dir'| | | ]; cbn [obind]; try discriminate. apply IH.
Qed.
