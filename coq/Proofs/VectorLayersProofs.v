(* C17: merging vector_layers, key by key *)
From Coq Require Import List NArith Bool Lia.
From VT Require Import Model.Http Model.TileJson Model.VectorLayers.
Import ListNotations.

Lemma str_eqb_refl k : str_eqb k k = true.
Proof. unfold str_eqb. destruct (list_eq_dec N.eq_dec k k); congruence. Qed.
Lemma str_eqb_eq a b : str_eqb a b = true <-> a = b.
Proof. unfold str_eqb. destruct (list_eq_dec N.eq_dec a b); split; congruence. Qed.
Lemma str_eqb_neq a b : str_eqb a b = false <-> a <> b.
Proof. unfold str_eqb. destruct (list_eq_dec N.eq_dec a b); split; congruence. Qed.

Lemma l_get_put k v m k' : l_get k' (l_put k v m) = if str_eqb k' k then Some v else l_get k' m.
Proof.
  induction m as [|[k0 v0] r IH]; cbn [l_put l_get].
  - destruct (str_eqb k' k); reflexivity.
  - destruct (str_eqb k k0) eqn:E; cbn [l_get].
    + apply str_eqb_eq in E. subst k0. destruct (str_eqb k' k); reflexivity.
    + destruct (str_eqb k' k0) eqn:E2.
      * apply str_eqb_eq in E2. subst k0. destruct (str_eqb k' k) eqn:E3; [|reflexivity].
        apply str_eqb_eq in E3. subst k'. rewrite str_eqb_refl in E. discriminate.
      * exact IH.
Qed.

Lemma f_get_put k v m k' : f_get k' (f_put k v m) = if str_eqb k' k then Some v else f_get k' m.
Proof.
  induction m as [|[k0 v0] r IH]; cbn [f_put f_get].
  - destruct (str_eqb k' k); reflexivity.
  - destruct (str_eqb k k0) eqn:E; cbn [f_get].
    + apply str_eqb_eq in E. subst k0. destruct (str_eqb k' k); reflexivity.
    + destruct (str_eqb k' k0) eqn:E2.
      * apply str_eqb_eq in E2. subst k0. destruct (str_eqb k' k) eqn:E3; [|reflexivity].
        apply str_eqb_eq in E3. subst k'. rewrite str_eqb_refl in E. discriminate.
      * exact IH.
Qed.

(* a field of the merged layer: the other layer's value if it has the field (its last one), else the own *)
Fixpoint f_last (k : str) (m : list (str * str)) (acc : option str) : option str :=
  match m with [] => acc | (k', v) :: r => f_last k r (if str_eqb k k' then Some v else acc) end.

Lemma fields_merge k : forall b a, f_get k (fold_left (fun m kv => f_put (fst kv) (snd kv) m) b a) = f_last k b (f_get k a).
Proof.
  induction b as [|[k0 v0] r IH]; intros a; [reflexivity|]. cbn [fold_left f_last fst snd]. rewrite IH, f_get_put. reflexivity.
Qed.

Theorem vl_merge_field a b k : f_get k (vl_fields (vl_merge a b)) = f_last k (vl_fields b) (f_get k (vl_fields a)).
Proof. unfold vl_merge. cbn [vl_fields]. apply fields_merge. Qed.

(* layer by layer: present in both -> merged, in one -> that one, in none -> absent (ids of `b` distinct) *)
Fixpoint ids_unique (m : vlayers) : Prop :=
  match m with [] => True | (k, _) :: r => l_get k r = None /\ ids_unique r end.

Theorem vls_merge_get : forall b a id, ids_unique b ->
  l_get id (vls_merge a b) =
    match l_get id b with
    | Some lb => Some (match l_get id a with Some la => vl_merge la lb | None => lb end)
    | None => l_get id a
    end.
Proof.
  unfold vls_merge. induction b as [|[k v] r IH]; intros a id Hu; [reflexivity|].
  destruct Hu as [Hk Hr]. cbn [fold_left fst snd l_get].
  rewrite IH by exact Hr. destruct (str_eqb id k) eqn:E.
  - apply str_eqb_eq in E. subst k. rewrite Hk. destruct (l_get id a) as [la|] eqn:Ea; rewrite l_get_put, str_eqb_refl; reflexivity.
  - destruct (l_get id r) as [lb|]; destruct (l_get k a) as [la|]; rewrite l_get_put, E; reflexivity.
Qed.

(* merging into a document without vector layers (the default document) hands the layers back *)
Theorem vls_merge_into_empty b id : ids_unique b -> l_get id (vls_merge [] b) = l_get id b.
Proof. intros Hu. rewrite vls_merge_get by exact Hu. destruct (l_get id b); reflexivity. Qed.
