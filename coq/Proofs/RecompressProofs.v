(* C04 / C05: recompression changes only the encoding. For ANY codecs with decomp (comp b) = Some b. *)
From Coq Require Import List NArith Bool Lia.
From VT Require Import Model.Recompress.
Import ListNotations.
Local Open Scope N_scope.

Definition lawful (c : codec) : Prop := forall b, cz_decomp c (cz_comp c b) = Some b.

Section Laws.
  Variables gz br : codec.
  Hypothesis Hgz : lawful gz.
  Hypothesis Hbr : lawful br.

  Lemma decompress_compress c b : decompress gz br c (compress gz br c b) = Some b.
  Proof. destruct c; cbn; auto. Qed.

  (* the recompressor: decoded with the declared target compression, the output is the source
     tile decoded with the source compression - for all 3 x 3 x 2 combinations *)
  Theorem recompressor_preserves src dst force b p :
    decompress gz br src b = Some p ->
    exists b', process gz br (recompressor src dst force) b = Some b' /\ decompress gz br dst b' = Some p.
  Proof.
    intros Hd. unfold recompressor.
    destruct (force || negb (comp_eqb src dst)) eqn:E.
    - destruct src, dst; cbn in *; try (inversion Hd; subst);
        repeat match goal with
        | H : cz_decomp _ _ = Some _ |- _ => rewrite H; cbn
        end; eexists; (split; [reflexivity|]); cbn; auto.
    - apply orb_false_iff in E. destruct E as [_ E]. apply negb_false_iff in E.
      destruct src, dst; try discriminate; cbn; eexists; (split; [reflexivity | exact Hd]).
  Qed.

  (* a source blob that does not decode makes the pipeline fail (never a silently wrong tile) *)
  Theorem recompressor_fails_only_on_bad_input src dst force b :
    process gz br (recompressor src dst force) b = None -> decompress gz br src b = None.
  Proof.
    destruct (decompress gz br src b) as [p|] eqn:E; [|reflexivity].
    destruct (recompressor_preserves src dst force b p E) as (b' & H & _). congruence.
  Qed.

  Theorem recompress_preserves src dst b p :
    decompress gz br src b = Some p ->
    exists b', recompress gz br src dst b = Some b' /\ decompress gz br dst b' = Some p.
  Proof.
    intros Hd. unfold recompress. destruct (comp_eqb src dst) eqn:E.
    - exists b. split; [reflexivity|]. destruct src, dst; try discriminate; exact Hd.
    - rewrite Hd. eexists. split; [reflexivity | apply decompress_compress].
  Qed.

  (* optimize_compression (HTTP content negotiation): whenever it answers, the encoding is one the
     client allowed and the body decodes to what the stored tile decodes to *)
  Theorem optimize_sound b input t p :
    decompress gz br input b = Some p ->
    forall r enc, optimize gz br b input t = Some (r, enc) ->
      allowed t enc = true /\ exists b', r = Some b' /\ decompress gz br enc b' = Some p.
  Proof.
    intros Hd r enc. unfold optimize.
    destruct (negb (al_u t || al_g t || al_b t)); [discriminate|].
    destruct (al_u t) eqn:Eu; cbn [negb]; [|discriminate].
    destruct (negb (goal t =? 1) && allowed t input) eqn:E1.
    - intros H; inversion H; subst. apply andb_true_iff in E1. destruct E1 as [_ E1]. split; [exact E1|]. eauto.
    - destruct input; cbn in Hd.
      + inversion Hd; subst.
        destruct (negb (goal t =? 2)); [destruct (al_b t) eqn:Eb; [|destruct (al_g t) eqn:Eg]|];
          intros H; inversion H; subst; cbn; (split; [assumption|]); eexists; (split; [reflexivity|]); cbn; auto.
      + rewrite Hd. destruct (negb (goal t =? 2) && al_b t) eqn:E2.
        * intros H; inversion H; subst. apply andb_true_iff in E2. cbn. split; [tauto|]. eexists; split; [reflexivity|]. cbn; auto.
        * destruct (al_g t) eqn:Eg; intros H; inversion H; subst; cbn; (split; [assumption|]); eexists; (split; [reflexivity|]); cbn; auto.
      + destruct (al_b t) eqn:Eb.
        * intros H; inversion H; subst. cbn. split; [assumption|]. eauto.
        * rewrite Hd. destruct (negb (goal t =? 2) && al_g t) eqn:E2; intros H; inversion H; subst; cbn.
          -- apply andb_true_iff in E2. split; [tauto|]. eexists; split; [reflexivity|]. cbn; auto.
          -- split; [assumption|]. eauto.
  Qed.

  (* it answers whenever Uncompressed is among the allowed encodings *)
  Theorem optimize_total b input t : al_u t = true -> exists r enc, optimize gz br b input t = Some (r, enc).
  Proof.
    intros Hu. unfold optimize. rewrite Hu. cbn [orb negb].
    destruct (negb (goal t =? 1) && allowed t input); [eauto|].
    destruct input.
    - destruct (negb (goal t =? 2)); [destruct (al_b t); [|destruct (al_g t)]|]; eauto.
    - destruct (negb (goal t =? 2) && al_b t); [|destruct (al_g t)]; eauto.
    - destruct (al_b t); [eauto|]. destruct (cz_decomp br b); [destruct (negb (goal t =? 2) && al_g t)|]; eauto.
  Qed.

  (* goal 2 (incompressible, used for images) never adds a compression *)
  Theorem optimize_incompressible_never_compresses b t r enc :
    goal t = 2 -> optimize gz br b CU t = Some (r, enc) -> enc = CU /\ r = Some b.
  Proof.
    intros Hg. unfold optimize. rewrite Hg. cbn [N.eqb Pos.eqb negb andb].
    destruct (negb (al_u t || al_g t || al_b t)); [discriminate|]. destruct (al_u t) eqn:Eu; cbn [negb]; [|discriminate].
    cbn [allowed]. rewrite Eu. intros H; inversion H; auto.
  Qed.
End Laws.

(* the concrete framed codecs are lawful (the hypotheses are satisfiable) *)
Lemma framed_lawful tag : lawful (framed tag).
Proof. intros b. cbn. now rewrite N.eqb_refl. Qed.
