(* Whatever the grouping into chunks, every tile of the stream is the tile's own byte range. *)
From Coq Require Import List NArith Bool Arith Lia.
From VT Require Import Base.Outcome Model.Crash Proofs.CrashProofs Model.Chunk.
Import ListNotations.
Local Open Scope N_scope.

Lemma sub_sub (f : list N) a n b m : (a <= b)%nat -> (b + m <= a + n)%nat -> (a + n <= length f)%nat ->
  sub (sub f a n) (b - a) m = sub f b m.
Proof.
  intros H1 H2 H3. apply list_ext. intros i. rewrite !nth_sub.
  destruct (Nat.ltb_spec i m) as [Hi|Hi]; [|reflexivity].
  replace (b - a + i <? n)%nat with true by (symmetry; apply Nat.ltb_lt; lia). f_equal. lia.
Qed.

Definition covered (c : chunk) (e : tref) : Prop := c_off c <= t_off e /\ t_off e + t_len e <= c_off c + c_len c.

Definition chunk_ok (file : list N) (c : chunk) : Prop :=
  Forall (covered c) (c_tiles c) /\ c_off c + c_len c <= N.of_nat (length file).

Lemma deliver_spec file c : chunk_ok file c ->
  deliver file c = map (fun e => (t_id e, sub file (N.to_nat (t_off e)) (N.to_nat (t_len e)))) (c_tiles c).
Proof.
  intros [Hc Hf]. unfold deliver. apply map_ext_in. intros e He.
  rewrite Forall_forall in Hc. destruct (Hc e He) as [H1 H2]. f_equal.
  replace (N.to_nat (t_off e - c_off c)) with (N.to_nat (t_off e) - N.to_nat (c_off c))%nat by lia.
  unfold covered in *. apply sub_sub.
  - lia.
  - lia.
  - lia.
Qed.

Lemma push_ok file c e c' : chunk_ok file c -> c_off c <= t_off e -> t_off e + t_len e <= N.of_nat (length file) ->
  push c e = Ok c' -> chunk_ok file c' /\ c_tiles c' = c_tiles c ++ [e] /\ c_off c' = c_off c.
Proof.
  intros [Hc Hf] Ho He. unfold push. destruct (t_off e <? c_off c) eqn:E; [discriminate|]. apply N.ltb_ge in E.
  intros H; injection H as <-. cbn [c_off c_len c_tiles]. split; [|split; reflexivity].
  destruct (N.max_spec (c_len c) (t_off e + t_len e - c_off c)) as [[M1 M2]|[M1 M2]]; rewrite M2.
  all: split; cbn [c_off c_len c_tiles]; [|lia].
  all: apply Forall_app; split; [eapply Forall_impl; [|exact Hc]; intros x [X1 X2]; unfold covered in *; cbn [c_off c_len]; lia|constructor; [|constructor]; unfold covered; cbn [c_off c_len]; lia].
Qed.

Lemma push_total c e : c_off c <= t_off e -> exists c', push c e = Ok c'.
Proof. intros H. unfold push. replace (t_off e <? c_off c) with false by (symmetry; apply N.ltb_ge; exact H). eexists; reflexivity. Qed.

Fixpoint sorted_from (lo : N) (es : list tref) : Prop :=
  match es with [] => True | e :: r => lo <= t_off e /\ sorted_from (t_off e) r end.

Lemma sorted_from_weaken lo lo' es : lo' <= lo -> sorted_from lo es -> sorted_from lo' es.
Proof. destruct es as [|e r]; [trivial|]. cbn. intros H [H1 H2]. split; [lia|exact H2]. Qed.

Lemma sorted_from_all lo es : sorted_from lo es -> Forall (fun e => lo <= t_off e) es.
Proof.
  revert lo; induction es as [|e r IH]; intros lo H; [constructor|]. destruct H as [H1 H2]. constructor; [exact H1|].
  eapply Forall_impl; [|apply (IH _ H2)]. intros x Hx. cbn in Hx. lia.
Qed.

Definition flat (cs : list chunk) : list tref := concat (map c_tiles cs).

Lemma build_spec file : forall es cur done,
  sorted_from (c_off cur) es ->
  Forall (fun e => t_off e + t_len e <= N.of_nat (length file)) es ->
  chunk_ok file cur -> Forall (chunk_ok file) done ->
  exists cs, build es cur done = Ok cs /\ Forall (chunk_ok file) cs /\ flat cs = flat done ++ c_tiles cur ++ es.
Proof.
  induction es as [|e r IH]; intros cur done Hs Hf Hcur Hdone.
  - cbn [build]. destruct (0 <? N.of_nat (length (c_tiles cur))) eqn:E.
    + exists (done ++ [cur]). split; [reflexivity|]. split; [apply Forall_app; split; [exact Hdone|constructor; [exact Hcur|constructor]]|].
      unfold flat. rewrite map_app, concat_app. cbn. rewrite !app_nil_r. reflexivity.
    + exists done. split; [reflexivity|]. split; [exact Hdone|].
      assert (c_tiles cur = []) by (destruct (c_tiles cur); [reflexivity|cbn [length] in E; apply N.ltb_ge in E; lia]).
      rewrite H, !app_nil_r. reflexivity.
  - destruct Hs as [Hs1 Hs2]. inversion Hf as [|? ? Hfe Hfr]; subst.
    cbn [build].
    destruct ((t_off e + t_len e <? c_off cur + max_chunk_size) && (t_off e <? c_off cur + c_len cur + max_chunk_gap)).
    + destruct (push_total cur e Hs1) as (c' & Hp). rewrite Hp. cbn [obind].
      destruct (push_ok file cur e c' Hcur Hs1 Hfe Hp) as (Hc' & Ht & Ho).
      destruct (IH c' done) as (cs & Hb & Hcs & Hfl); [rewrite Ho; apply (sorted_from_weaken (t_off e)); [exact Hs1|exact Hs2]|exact Hfr|exact Hc'|exact Hdone|].
      exists cs. split; [exact Hb|]. split; [exact Hcs|]. rewrite Hfl, Ht, <- !app_assoc. reflexivity.
    + set (c0 := mkC (t_off e) 0 []).
      assert (H0 : chunk_ok file c0) by (split; [constructor|cbn; lia]).
      destruct (push_total c0 e ltac:(cbn; lia)) as (c' & Hp). rewrite Hp. cbn [obind].
      destruct (push_ok file c0 e c' H0 ltac:(cbn; lia) Hfe Hp) as (Hc' & Ht & Ho).
      destruct (IH c' (done ++ [cur])) as (cs & Hb & Hcs & Hfl);
        [rewrite Ho; cbn; exact Hs2|exact Hfr|exact Hc'|apply Forall_app; split; [exact Hdone|constructor; [exact Hcur|constructor]]|].
      exists cs. split; [exact Hb|]. split; [exact Hcs|]. rewrite Hfl, Ht. unfold flat. rewrite map_app, concat_app. cbn. rewrite !app_nil_r, <- !app_assoc. reflexivity.
Qed.

(* the stream of a block: for ranges sorted by offset that lie inside the file, the chunked reads
   never panic and deliver, in order, every tile with exactly its own bytes *)
Theorem stream_spec file es :
  sorted_from 0 es -> Forall (fun e => t_off e + t_len e <= N.of_nat (length file)) es ->
  stream file es = Ok (map (fun e => (t_id e, sub file (N.to_nat (t_off e)) (N.to_nat (t_len e)))) es).
Proof.
  intros Hs Hf. unfold stream, chunks_of. destruct es as [|e r]; [reflexivity|].
  set (c0 := mkC (t_off e) 0 []).
  assert (H0 : chunk_ok file c0).
  { split; [constructor|]. cbn. inversion Hf; subst. lia. }
  destruct (build_spec file (e :: r) c0 []) as (cs & Hb & Hcs & Hfl).
  - cbn. split; [lia|]. destruct Hs as [_ Hs]. exact Hs.
  - exact Hf.
  - exact H0.
  - constructor.
  - rewrite Hb. cbn [omap obind]. f_equal. cbn [flat app c_tiles c0] in Hfl. cbn in Hfl.
    rewrite <- Hfl. unfold flat. clear Hb Hfl. induction Hcs as [|c cs Hc _ IH]; [reflexivity|].
    cbn [map concat]. rewrite map_app, (deliver_spec file c Hc), IH. reflexivity.
Qed.
