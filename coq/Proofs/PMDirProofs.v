(* Proofs for PMTiles directories: binary search = specification on sorted directories;
   deserialisation inverts every admissible serialisation. *)
From Coq Require Import List NArith ZArith Bool Lia.
From VT Require Import Base.Outcome Model.MVT Proofs.MVTProofs Model.PMDir.
Import ListNotations.
Local Open Scope N_scope.

(* ---------- sorted directories and the lookup specification ---------- *)
Fixpoint sorted (es : list entry) : Prop :=
  match es with
  | [] => True
  | a :: r => (match r with [] => True | b :: _ => e_id a < e_id b end) /\ sorted r
  end.

Fixpoint last_le (es : list entry) (t : N) (acc : option entry) : option entry :=
  match es with [] => acc | e :: r => if e_id e <=? t then last_le r t (Some e) else acc end.

(* the published rule: the last entry whose id is <= the wanted id, if it is a leaf pointer or its
   run reaches the wanted id *)
Definition find_spec (es : list entry) (t : N) : option entry :=
  match last_le es t None with
  | None => None
  | Some e => if (e_run e =? 0) || (t - e_id e <? e_run e) then Some e else None
  end.

Fixpoint cnt (p : entry -> bool) (es : list entry) : nat :=
  match es with [] => O | e :: r => if p e then S (cnt p r) else O end.

Lemma cnt_le_length p es : (cnt p es <= length es)%nat.
Proof. induction es as [|e r IH]; cbn; [lia|]. destruct (p e); lia. Qed.

Lemma sorted_head_lt a r : sorted (a :: r) -> forall e, In e r -> e_id a < e_id e.
Proof.
  revert a; induction r as [|b r IH]; intros a [H1 H2] e He; [destruct He|].
  destruct He as [<-|He]; [exact H1|]. specialize (IH b H2 e He). lia.
Qed.

Lemma sorted_tl a r : sorted (a :: r) -> sorted r.  Proof. intros [_ H]; exact H. Qed.

(* a predicate that, on a sorted list, holds on a prefix: "id <= t" and "id < t" *)
Lemma cnt_prefix (p : entry -> bool) es :
  sorted es -> (forall a b, e_id a < e_id b -> p b = true -> p a = true) ->
  forall i e, nth_error es i = Some e -> ((i < cnt p es)%nat <-> p e = true).
Proof.
  intros S Hp. induction es as [|a r IH]; intros i e Hi; [destruct i; discriminate|].
  cbn [cnt]. destruct i as [|j]; cbn in Hi.
  - injection Hi as <-. destruct (p a); split; intros; try lia; try discriminate; reflexivity.
  - specialize (IH (sorted_tl _ _ S) j e Hi). destruct (p a) eqn:Pa.
    + rewrite <- IH. lia.
    + split; [lia|]. intros Pe. exfalso. apply nth_error_In in Hi.
      pose proof (sorted_head_lt a r S e Hi) as Hlt. rewrite (Hp a e Hlt Pe) in Pa. discriminate.
Qed.

Definition ple (t : N) (e : entry) : bool := e_id e <=? t.
Definition plt (t : N) (e : entry) : bool := e_id e <? t.

Lemma ple_mono t a b : e_id a < e_id b -> ple t b = true -> ple t a = true.
Proof. unfold ple. intros H1 H2. apply N.leb_le in H2. apply N.leb_le. lia. Qed.
Lemma plt_mono t a b : e_id a < e_id b -> plt t b = true -> plt t a = true.
Proof. unfold plt. intros H1 H2. apply N.ltb_lt in H2. apply N.ltb_lt. lia. Qed.

Lemma cnt_lt_le t es : (cnt (plt t) es <= cnt (ple t) es)%nat.
Proof.
  induction es as [|e r IH]; cbn; [lia|]. unfold plt, ple.
  destruct (N.ltb_spec (e_id e) t), (N.leb_spec (e_id e) t); try lia.
  fold (plt t) (ple t). lia.
Qed.

Lemma last_le_cnt t es acc :
  last_le es t acc = match cnt (ple t) es with O => acc | S c => nth_error es c end.
Proof.
  revert acc; induction es as [|e r IH]; intros acc; [reflexivity|].
  cbn [last_le cnt]. unfold ple at 1. destruct (e_id e <=? t); [|reflexivity].
  rewrite IH. destruct (cnt (ple t) r); reflexivity.
Qed.

Lemma sorted_adjacent es : sorted es -> forall i a b,
  nth_error es i = Some a -> nth_error es (S i) = Some b -> e_id a < e_id b.
Proof.
  induction es as [|x r IH]; intros S i a b Ha Hb; [destruct i; discriminate|].
  destruct i as [|j]; cbn in Ha, Hb.
  - injection Ha as <-. destruct r as [|y r']; [discriminate|]. cbn in Hb. injection Hb as <-. exact (proj1 S).
  - exact (IH (sorted_tl _ _ S) j a b Ha Hb).
Qed.

Lemma find_loop_spec av es t : sorted es -> forall fuel m n,
  (0 <= m <= Z.of_nat (cnt (plt t) es))%Z ->
  (Z.of_nat (cnt (ple t) es) - 1 <= n <= Z.of_nat (length es) - 1)%Z ->
  (n - m + 1 < Z.of_nat fuel)%Z ->
  find_loop av fuel es m n t = Ok (find_spec es t).
Proof.
  intros Hs. pose proof (cnt_lt_le t es) as Clt. pose proof (cnt_le_length (ple t) es) as Cle.
  induction fuel as [|f IH]; intros m n Hm Hn Hf; [lia|].
  cbn [find_loop]. destruct (Z.leb_spec m n) as [Hmn|Hmn].
  - rewrite Z.shiftr_div_pow2 by lia. change (2 ^ 1)%Z with 2%Z.
    set (k := ((n + m) / 2)%Z).
    assert (Hk : (m <= k <= n)%Z) by (unfold k; split; [apply Z.div_le_lower_bound|apply Z.div_le_upper_bound]; lia).
    destruct (nth_error es (Z.to_nat k)) as [e|] eqn:Ek; [|apply nth_error_None in Ek; lia].
    pose proof (cnt_prefix (plt t) es Hs (plt_mono t) _ _ Ek) as Plt.
    pose proof (cnt_prefix (ple t) es Hs (ple_mono t) _ _ Ek) as Ple.
    unfold plt in Plt. unfold ple in Ple.
    destruct (N.ltb_spec (e_id e) t) as [H1|H1].
    + apply IH; try lia. assert ((Z.to_nat k < cnt (plt t) es)%nat) by (apply Plt; reflexivity). lia.
    + destruct (N.ltb_spec t (e_id e)) as [H2|H2].
      * apply IH; try lia.
        assert (~ (Z.to_nat k < cnt (ple t) es)%nat) by (rewrite Ple; intros Q; apply N.leb_le in Q; lia). lia.
      * (* exact hit: k is the last index with id <= t *)
        assert (Eid : e_id e = t) by lia.
        assert (K1 : (Z.to_nat k < cnt (ple t) es)%nat) by (apply Ple; apply N.leb_le; lia).
        assert (K2 : (cnt (ple t) es <= S (Z.to_nat k))%nat).
        { destruct (nth_error es (S (Z.to_nat k))) as [e'|] eqn:Ek'.
          - pose proof (sorted_adjacent es Hs _ _ _ Ek Ek') as Hadj.
            pose proof (cnt_prefix (ple t) es Hs (ple_mono t) _ _ Ek') as Ple'. unfold ple in Ple'.
            destruct (Nat.le_gt_cases (cnt (ple t) es) (S (Z.to_nat k))) as [G|G]; [exact G|].
            apply Ple' in G. apply N.leb_le in G. lia.
          - apply nth_error_None in Ek'. lia. }
        unfold find_spec. rewrite last_le_cnt.
        replace (cnt (ple t) es) with (S (Z.to_nat k)) by lia. rewrite Ek.
        rewrite Eid, N.sub_diag. destruct (N.eqb_spec (e_run e) 0) as [R|R]; [reflexivity|].
        replace (0 <? e_run e) with true by (symmetry; apply N.ltb_lt; lia). reflexivity.
  - assert (En : n = (Z.of_nat (cnt (ple t) es) - 1)%Z) by lia.
    unfold find_spec. rewrite last_le_cnt.
    destruct (Z.leb_spec 0 n) as [Hn0|Hn0].
    + destruct (cnt (ple t) es) as [|c] eqn:Ec; [lia|].
      replace (Z.to_nat n) with c by lia.
      destruct (nth_error es c) as [e|] eqn:Ee; [|apply nth_error_None in Ee; lia].
      pose proof (cnt_prefix (ple t) es Hs (ple_mono t) _ _ Ee) as Ple.
      assert (Hid : e_id e <= t) by (apply N.leb_le; change (ple t e = true); apply Ple; lia).
      destruct (e_run e =? 0); [reflexivity|]. cbn [orb].
      replace (t <? e_id e) with false by (symmetry; apply N.ltb_ge; lia).
      destruct (t - e_id e <? e_run e); reflexivity.
    + replace (cnt (ple t) es) with O by lia. reflexivity.
Qed.

Theorem find_tile_spec av es t : sorted es -> find_tile av es t = Ok (find_spec es t).
Proof.
  intros Hs. unfold find_tile. apply find_loop_spec; [exact Hs| | |].
  - lia.
  - pose proof (cnt_le_length (ple t) es). lia.
  - lia.
Qed.

(* ---------- serialisation round trip ---------- *)
Lemma write_varint_nonempty v : (1 <= length (write_varint v))%nat.
Proof. unfold write_varint. cbn [write_varint_go]. destruct (v <? 128); cbn [length]; lia. Qed.

Lemma read_n_flat vs : forall fuel rest, Forall (fun v => v < two64) vs -> (length vs <= fuel)%nat ->
  read_n fuel (N.of_nat (length vs)) (flat_map write_varint vs ++ rest) = Some (vs, rest).
Proof.
  induction vs as [|v vs IH]; intros fuel rest Hall Hf.
  - destruct fuel; reflexivity.
  - destruct fuel as [|f]; [cbn in Hf; lia|].
    inversion Hall as [|? ? Hv Hvs]; subst.
    cbn [read_n length flat_map]. replace (N.of_nat (S (length vs)) =? 0) with false by (symmetry; apply N.eqb_neq; lia).
    rewrite <- app_assoc, varint_roundtrip by exact Hv.
    replace (N.of_nat (S (length vs)) - 1) with (N.of_nat (length vs)) by lia.
    rewrite IH; [reflexivity|exact Hvs|cbn in Hf; lia].
Qed.

Fixpoint nondec (last : N) (es : list entry) : Prop :=
  match es with [] => True | e :: r => last <= e_id e /\ nondec (e_id e) r end.

Definition entry_ok (e : entry) : Prop :=
  e_id e < two64 /\ e_run e < 4294967296 /\ e_len e < two64 /\ e_off e + 1 < two64 /\ e_off e + e_len e < two64.

Lemma prefix_sums_deltas es : forall last, nondec last es -> Forall entry_ok es ->
  prefix_sums last (ser_deltas last es) = Ok (map e_id es).
Proof.
  induction es as [|e r IH]; intros last Hn Hok; [reflexivity|].
  destruct Hn as [H1 H2]. inversion Hok as [|? ? He Hr]; subst. destruct He as (Hid & _).
  cbn [ser_deltas prefix_sums map]. replace (last + (e_id e - last)) with (e_id e) by lia.
  replace (two64 <=? e_id e) with false by (symmetry; apply N.leb_gt; exact Hid).
  rewrite IH by assumption. reflexivity.
Qed.

Lemma dec_offsets_ser es : forall prev ch, Forall entry_ok es ->
  dec_offsets (option_map (fun p => (e_off p, e_len p)) prev) (map e_len es) (ser_offsets prev ch es) = Ok (map e_off es).
Proof.
  induction es as [|e r IH]; intros prev ch Hok; [reflexivity|].
  inversion Hok as [|? ? He Hr]; subst. destruct He as (_ & _ & _ & Ho1 & Ho2).
  cbn [map ser_offsets dec_offsets].
  assert (Hnext : dec_offsets (Some (e_off e, e_len e)) (map e_len r) (ser_offsets (Some e) (tl ch) r) = Ok (map e_off r))
    by (apply (IH (Some e) (tl ch) Hr)).
  destruct prev as [p|]; cbn [option_map].
  - destruct ((match ch with b :: _ => b | [] => true end) && (e_off e =? e_off p + e_len p)) eqn:C.
    + apply andb_prop in C as [_ C]. apply N.eqb_eq in C. cbn [N.eqb].
      replace (two64 <=? e_off p + e_len p) with false by (symmetry; apply N.leb_gt; lia).
      cbn [obind]. rewrite <- C, Hnext. reflexivity.
    + replace (e_off e + 1 =? 0) with false by (symmetry; apply N.eqb_neq; lia).
      replace (e_off e + 1 - 1) with (e_off e) by lia. cbn [obind]. rewrite Hnext. reflexivity.
  - replace (e_off e + 1 =? 0) with false by (symmetry; apply N.eqb_neq; lia).
    replace (e_off e + 1 - 1) with (e_off e) by lia. cbn [obind]. rewrite Hnext. reflexivity.
Qed.

Lemma zip4_maps es : Forall entry_ok es ->
  zip4 (map e_id es) (map e_off es) (map e_len es) (map (fun r => r mod 4294967296) (map e_run es)) = es.
Proof.
  induction es as [|e r IH]; intros Hok; [reflexivity|].
  inversion Hok as [|? ? He Hr]; subst. destruct He as (_ & Hrun & _).
  cbn [map zip4]. rewrite IH by exact Hr. rewrite N.mod_small by exact Hrun. destruct e; reflexivity.
Qed.

Lemma flat_len (vs : list N) : (length vs <= length (flat_map write_varint vs))%nat.
Proof.
  induction vs as [|v vs IH]; [cbn; lia|]. cbn [flat_map length]. rewrite app_length.
  pose proof (write_varint_nonempty v). cbn [length]. lia.
Qed.

Lemma read_ids_bridge av fuel : forall count last l ds r ids,
  read_n fuel count l = Some (ds, r) -> prefix_sums last ds = Ok ids -> read_ids av fuel count last l = Ok (ids, r).
Proof.
  induction fuel as [|f IH]; intros count last l ds r ids Hr Hp.
  - cbn in *. destruct (count =? 0); [|discriminate]. injection Hr as <- <-. cbn in Hp. injection Hp as <-. reflexivity.
  - cbn [read_n read_ids] in *. destruct (count =? 0).
    + injection Hr as <- <-. cbn in Hp. injection Hp as <-. reflexivity.
    + destruct (read_varint l) as [[d r1]|]; [|discriminate].
      destruct (read_n f (count - 1) r1) as [[vs r2]|] eqn:E; [|discriminate]. injection Hr as <- <-.
      cbn [prefix_sums] in Hp. destruct (two64 <=? last + d); [discriminate|].
      destruct (prefix_sums (last + d) vs) as [ids'| | |] eqn:Ep; try discriminate. cbn in Hp. injection Hp as <-.
      rewrite (IH _ _ _ _ _ _ E Ep). reflexivity.
Qed.

Lemma read_offsets_bridge av fuel : forall prev lens l tmps r offs,
  read_n fuel (N.of_nat (length lens)) l = Some (tmps, r) -> dec_offsets prev lens tmps = Ok offs ->
  read_offsets av fuel prev lens l = Ok offs.
Proof.
  induction fuel as [|f IH]; intros prev lens l tmps r offs Hr Hd.
  - destruct lens as [|len lr]; [cbn in *; injection Hr as <- <-; cbn in Hd; exact Hd|].
    cbn [read_n length] in Hr. replace (N.of_nat (S (length lr)) =? 0) with false in Hr by (symmetry; apply N.eqb_neq; lia). discriminate.
  - destruct lens as [|len lr]; [cbn in *; injection Hr as <- <-; cbn in Hd; exact Hd|].
    cbn [read_n read_offsets length] in *. replace (N.of_nat (S (length lr)) =? 0) with false in Hr by (symmetry; apply N.eqb_neq; lia).
    destruct (read_varint l) as [[tmp r1]|]; [|discriminate].
    replace (N.of_nat (S (length lr)) - 1) with (N.of_nat (length lr)) in Hr by lia.
    destruct (read_n f (N.of_nat (length lr)) r1) as [[vs r2]|] eqn:E; [|discriminate]. injection Hr as <- <-.
    cbn [dec_offsets] in Hd.
    assert (G : forall off, (match prev with Some (po, pl) => if tmp =? 0 then if two64 <=? po + pl then Overflow else Ok (po + pl) else Ok (tmp - 1) | None => if tmp =? 0 then Overflow else Ok (tmp - 1) end) = Ok off ->
              (match prev with Some (po, pl) => if tmp =? 0 then if two64 <=? po + pl then ovf av else Ok (po + pl) else Ok (tmp - 1) | None => if tmp =? 0 then ovf av else Ok (tmp - 1) end) = @Ok N off).
    { intros off. destruct prev as [[po pl]|]; destruct (tmp =? 0); try destruct (two64 <=? po + pl); intros Q; try discriminate; exact Q. }
    destruct (match prev with Some (po, pl) => if tmp =? 0 then if two64 <=? po + pl then Overflow else Ok (po + pl) else Ok (tmp - 1) | None => if tmp =? 0 then Overflow else Ok (tmp - 1) end) as [off| | |] eqn:Eo; try discriminate.
    rewrite (G off eq_refl).
    cbn [obind] in *. destruct (dec_offsets (Some (off, len)) lr vs) as [os| | |] eqn:Ed; try discriminate.
    rewrite (IH _ _ _ _ _ _ E Ed). exact Hd.
Qed.

Theorem deserialize_serialize av ch es :
  Forall entry_ok es -> nondec 0 es -> N.of_nat (length es) <= 10000000000 ->
  deserialize av (serialize_with ch es) = Ok es.
Proof.
  intros Hok Hnd Hc. unfold deserialize, serialize_with.
  assert (Hc64 : N.of_nat (length es) < two64) by (unfold two64; lia).
  rewrite varint_roundtrip by exact Hc64.
  replace (10000000000 <? N.of_nat (length es)) with false by (symmetry; apply N.ltb_ge; exact Hc).
  set (total := length (write_varint (N.of_nat (length es)) ++ _)).
  assert (Lds : length (ser_deltas 0 es) = length es) by (clear; generalize 0; induction es as [|e r IH]; intros l; cbn; [reflexivity|f_equal; apply IH]).
  assert (Los : forall prev ch', length (ser_offsets prev ch' es) = length es) by (clear; induction es as [|e r IH]; intros prev ch'; cbn; [reflexivity|f_equal; apply IH]).
  assert (Htot : (length es <= total)%nat).
  { unfold total. rewrite !app_length. pose proof (flat_len (ser_deltas 0 es)). lia. }
  assert (A1 : Forall (fun v => v < two64) (ser_deltas 0 es)).
  { clear -Hok. generalize 0. induction es as [|e r IH]; intros l; cbn; constructor.
    - inversion Hok as [|? ? He _]; subst. destruct He as (Hid & _). lia.
    - apply IH. inversion Hok; assumption. }
  assert (A2 : Forall (fun v => v < two64) (map e_run es)).
  { clear -Hok. induction Hok as [|e r He _ IH]; cbn; constructor; [|exact IH]. destruct He as (_ & Hr & _). unfold two64. lia. }
  assert (A3 : Forall (fun v => v < two64) (map e_len es)).
  { clear -Hok. induction Hok as [|e r He _ IH]; cbn; constructor; [|exact IH]. destruct He as (_ & _ & Hl & _). exact Hl. }
  assert (A4 : forall prev ch', Forall (fun v => v < two64) (ser_offsets prev ch' es)).
  { clear -Hok. induction Hok as [|e r He _ IH]; intros prev ch'; cbn; constructor; [|apply IH].
    destruct He as (_ & _ & _ & Ho & _). destruct prev; [destruct (_ && _)|]; unfold two64 in *; lia. }
  assert (R1 : read_n total (N.of_nat (length es)) (flat_map write_varint (ser_deltas 0 es) ++ flat_map write_varint (map e_run es) ++ flat_map write_varint (map e_len es) ++ flat_map write_varint (ser_offsets None ch es))
               = Some (ser_deltas 0 es, flat_map write_varint (map e_run es) ++ flat_map write_varint (map e_len es) ++ flat_map write_varint (ser_offsets None ch es))).
  { rewrite <- Lds at 1. apply read_n_flat; [exact A1|lia]. }
  rewrite (read_ids_bridge av _ _ _ _ _ _ _ R1 (prefix_sums_deltas es 0 Hnd Hok)). cbn [obind].
  replace (N.of_nat (length es)) with (N.of_nat (length (map e_run es))) at 1 by (rewrite map_length; reflexivity).
  rewrite read_n_flat by (try exact A2; rewrite map_length; lia).
  replace (N.of_nat (length es)) with (N.of_nat (length (map e_len es))) at 1 by (rewrite map_length; reflexivity).
  rewrite read_n_flat by (try exact A3; rewrite map_length; lia).
  assert (R4 : read_n total (N.of_nat (length (map e_len es))) (flat_map write_varint (ser_offsets None ch es)) = Some (ser_offsets None ch es, [])).
  { rewrite <- (app_nil_r (flat_map write_varint (ser_offsets None ch es))). rewrite map_length, <- (Los None ch) at 1.
    apply read_n_flat; [apply A4|rewrite Los; lia]. }
  pose proof (dec_offsets_ser es None ch Hok) as Do. cbn [option_map] in Do.
  rewrite (read_offsets_bridge av _ _ _ _ _ _ _ R4 Do). cbn [obind]. rewrite zip4_maps by exact Hok. reflexivity.
Qed.

(* ---------- lookups inside runs ---------- *)
(* directory whose runs do not overlap: the next id lies behind the run (leaf pointers and
   single tiles occupy their own id) *)
Fixpoint runs_ok (es : list entry) : Prop :=
  match es with
  | [] => True
  | a :: r => (match r with [] => True | b :: _ => e_id a + N.max (e_run a) 1 <= e_id b end) /\ runs_ok r
  end.

Lemma runs_ok_sorted es : runs_ok es -> sorted es.
Proof.
  induction es as [|a r IH]; [trivial|]. intros [H1 H2]. split; [|apply IH; exact H2].
  destruct r as [|b r']; [trivial|]. lia.
Qed.

Lemma runs_ok_adjacent es : runs_ok es -> forall i a b,
  nth_error es i = Some a -> nth_error es (S i) = Some b -> e_id a + N.max (e_run a) 1 <= e_id b.
Proof.
  induction es as [|x r IH]; intros S i a b Ha Hb; [destruct i; discriminate|].
  destruct i as [|j]; cbn in Ha, Hb.
  - injection Ha as <-. destruct r as [|y r']; [discriminate|]. cbn in Hb. injection Hb as <-. exact (proj1 S).
  - exact (IH (proj2 S) j a b Ha Hb).
Qed.

Theorem find_in_run av es e t : runs_ok es -> In e es -> e_id e <= t < e_id e + N.max (e_run e) 1 \/ (e_run e = 0 /\ e_id e <= t /\ forall e', In e' es -> e_id e < e_id e' -> t < e_id e') ->
  (0 < e_run e -> t < e_id e + e_run e) ->
  find_tile av es t = Ok (Some e).
Proof.
  intros Hr Hin Hcov Hrun. pose proof (runs_ok_sorted es Hr) as Hs.
  rewrite (find_tile_spec av es t Hs). unfold find_spec. rewrite last_le_cnt.
  destruct (In_nth_error es e Hin) as (i & Hi).
  pose proof (cnt_prefix (ple t) es Hs (ple_mono t) _ _ Hi) as Ple.
  assert (Hle : e_id e <= t) by (destruct Hcov as [H|H]; lia).
  assert (K1 : (i < cnt (ple t) es)%nat) by (apply Ple; unfold ple; apply N.leb_le; exact Hle).
  assert (K2 : (cnt (ple t) es <= S i)%nat).
  { destruct (nth_error es (S i)) as [e'|] eqn:Ei'.
    - pose proof (cnt_prefix (ple t) es Hs (ple_mono t) _ _ Ei') as Ple'.
      destruct (Nat.le_gt_cases (cnt (ple t) es) (S i)) as [G|G]; [exact G|].
      apply Ple' in G. unfold ple in G. apply N.leb_le in G.
      pose proof (runs_ok_adjacent es Hr _ _ _ Hi Ei') as Adj.
      destruct Hcov as [H|(H0 & _ & Hnext)]; [lia|].
      assert (t < e_id e') by (apply Hnext; [eapply nth_error_In; exact Ei'|lia]). lia.
    - apply nth_error_None in Ei'. pose proof (cnt_le_length (ple t) es). lia. }
  replace (cnt (ple t) es) with (S i) by lia. rewrite Hi.
  destruct (N.eqb_spec (e_run e) 0) as [R|R]; [reflexivity|]. cbn [orb].
  replace (t - e_id e <? e_run e) with true by (symmetry; apply N.ltb_lt; specialize (Hrun ltac:(lia)); lia). reflexivity.
Qed.

(* the coverage scan visits every id of every run of a directory *)
Lemma run_ids_In e t : e_id e <= t < e_id e + e_run e -> In t (run_ids e).
Proof.
  intros H. unfold run_ids. apply in_map_iff. exists (N.to_nat (t - e_id e)). split; [lia|].
  apply in_seq. lia.
Qed.

Theorem cov_ids_complete fuel leaf dir l e t :
  cov_ids (S fuel) leaf dir = Ok l -> In e dir -> 0 < e_len e -> e_id e <= t < e_id e + e_run e -> In t l.
Proof.
  cbn [cov_ids]. revert l. induction dir as [|a r IH]; intros l Hc Hin Hlen Ht; [destruct Hin|].
  set (go := fix go (es : list entry) : outcome (list N) := match es with [] => Ok [] | e0 :: r0 =>
     obind (if 0 <? e_len e0 then if 0 <? e_run e0 then Ok (run_ids e0) else obind (leaf (e_off e0) (e_len e0)) (cov_ids fuel leaf) else Ok [])
           (fun a0 => omap (app a0) (go r0)) end) in *.
  change (go (a :: r)) with (obind (if 0 <? e_len a then if 0 <? e_run a then Ok (run_ids a) else obind (leaf (e_off a) (e_len a)) (cov_ids fuel leaf) else Ok [])
           (fun a0 => omap (app a0) (go r))) in Hc.
  destruct (if 0 <? e_len a then if 0 <? e_run a then Ok (run_ids a) else obind (leaf (e_off a) (e_len a)) (cov_ids fuel leaf) else Ok []) as [la| | |] eqn:Ea; try discriminate.
  cbn [obind] in Hc. destruct (go r) as [lr| | |] eqn:Er; try discriminate. cbn in Hc. injection Hc as <-.
  apply in_or_app. destruct Hin as [->|Hin].
  - left. replace (0 <? e_len e) with true in Ea by (symmetry; apply N.ltb_lt; exact Hlen).
    replace (0 <? e_run e) with true in Ea by (symmetry; apply N.ltb_lt; lia). injection Ea as <-. apply run_ids_In; exact Ht.
  - right. apply (IH lr eq_refl Hin Hlen Ht).
Qed.

(* ---------- lookups through leaf directories ---------- *)
(* one step down: a leaf pointer hands the lookup to the directory it points to *)
Lemma pm_lookup_step av d leaf dir t p dir' :
  find_tile av dir t = Ok (Some p) -> 0 < e_len p -> e_run p = 0 -> leaf (e_off p) (e_len p) = Ok dir' ->
  pm_lookup av (S d) leaf dir t = pm_lookup av d leaf dir' t.
Proof.
  intros Hf Hl Hr Hleaf. cbn [pm_lookup]. rewrite Hf. cbn [obind].
  replace (0 <? e_len p) with true by (symmetry; apply N.ltb_lt; exact Hl).
  rewrite Hr. cbn. rewrite Hleaf. reflexivity.
Qed.

Lemma pm_lookup_hit av d leaf dir t e :
  find_tile av dir t = Ok (Some e) -> 0 < e_len e -> 0 < e_run e -> pm_lookup av (S d) leaf dir t = Ok (Some e).
Proof.
  intros Hf Hl Hr. cbn [pm_lookup]. rewrite Hf. cbn [obind].
  replace (0 <? e_len e) with true by (symmetry; apply N.ltb_lt; exact Hl).
  replace (0 <? e_run e) with true by (symmetry; apply N.ltb_lt; exact Hr). reflexivity.
Qed.

(* the two-level layout (what as_directory writes when the root would not fit 16 KiB, and what
   other encoders write): the root holds one pointer per leaf, carrying the leaf's first id *)
Definition pointer_of (leaf_dir : list entry) (off len : N) : entry :=
  mkE (match leaf_dir with e :: _ => e_id e | [] => 0 end) off len 0.

Fixpoint root_of (leaves : list (list entry * (N * N))) : list entry :=
  match leaves with [] => [] | (l, (o, n)) :: r => pointer_of l o n :: root_of r end.

Lemma runs_ok_cons x r : runs_ok (x :: r) = ((match r with [] => True | y :: _ => e_id x + N.max (e_run x) 1 <= e_id y end) /\ runs_ok r).
Proof. reflexivity. Qed.

Lemma runs_ok_app_l a b : runs_ok (a ++ b) -> runs_ok a.
Proof.
  induction a as [|x a IH]; [intros _; exact I|]. rewrite <- app_comm_cons, !runs_ok_cons. intros [H1 H2]. split; [|apply IH; exact H2].
  destruct a as [|y a']; [trivial|]. exact H1.
Qed.
Lemma runs_ok_app_r a b : runs_ok (a ++ b) -> runs_ok b.
Proof. induction a as [|x a IH]; [intros H; exact H|]. rewrite <- app_comm_cons, runs_ok_cons. intros [_ H2]. apply IH; exact H2. Qed.

Lemma runs_ok_later x r : runs_ok (x :: r) -> forall e, In e r -> e_id x + N.max (e_run x) 1 <= e_id e.
Proof.
  revert x; induction r as [|y r IH]; intros x H e He; [destruct He|]. rewrite runs_ok_cons in H. destruct H as [H1 H2].
  destruct He as [<-|He]; [exact H1|]. specialize (IH y H2 e He). lia.
Qed.

Lemma runs_ok_app_cross a b : runs_ok (a ++ b) -> forall x y, In x a -> In y b -> e_id x + N.max (e_run x) 1 <= e_id y.
Proof.
  induction a as [|z a IH]; intros H x y Hx Hy; [destruct Hx|]. rewrite <- app_comm_cons in H.
  destruct Hx as [<-|Hx].
  - apply (runs_ok_later z (a ++ b) H). apply in_or_app; right; exact Hy.
  - rewrite runs_ok_cons in H. apply IH; [exact (proj2 H)|exact Hx|exact Hy].
Qed.

(* removing a middle segment keeps the runs disjoint *)
Lemma runs_ok_drop_middle a m b : runs_ok (a ++ m ++ b) -> runs_ok (a ++ b).
Proof.
  induction a as [|x a IH]; intros H; [cbn [app] in *; apply runs_ok_app_r in H; exact H|].
  rewrite <- app_comm_cons in *. rewrite runs_ok_cons in *. destruct H as [H1 H2]. split; [|apply IH; exact H2].
  destruct a as [|y a']; [|exact H1]. cbn [app] in *. destruct b as [|z b']; [exact I|].
  apply (runs_ok_later x (m ++ z :: b')); [rewrite runs_ok_cons; split; assumption|]. apply in_or_app; right; left; reflexivity.
Qed.

(* the pointers of consecutive non-empty leaves form a directory with disjoint runs *)
Lemma root_runs_ok ls : runs_ok (concat (map fst ls)) -> Forall (fun x => fst x <> [] /\ 0 < snd (snd x)) ls -> runs_ok (root_of ls).
Proof.
  induction ls as [|[l1 [o1 n1]] ls IH]; intros Hr Hne; [exact I|].
  inversion Hne as [|? ? [Hl1 _] Hne']; subst. cbn [fst snd] in *.
  cbn [root_of]. rewrite runs_ok_cons. cbn [map concat fst] in Hr. split.
  - destruct ls as [|[l2 [o2 n2]] ls']; [exact I|]. cbn [root_of].
    inversion Hne' as [|? ? [Hl2 _] _]; subst. cbn [fst] in Hl2.
    destruct l1 as [|a1 l1']; [congruence|]. destruct l2 as [|a2 l2']; [congruence|].
    unfold pointer_of. cbn [e_id e_run]. cbn [map concat fst] in Hr.
    assert (G : e_id a1 + N.max (e_run a1) 1 <= e_id a2).
    { apply (runs_ok_app_cross (a1 :: l1') ((a2 :: l2') ++ concat (map fst ls')) Hr a1 a2); left; reflexivity. }
    lia.
  - apply IH; [apply runs_ok_app_r in Hr; exact Hr|exact Hne'].
Qed.

Lemma root_of_app a b : root_of (a ++ b) = root_of a ++ root_of b.
Proof. induction a as [|[l0 [o0 n0]] a IH]; [reflexivity|]. cbn. f_equal. exact IH. Qed.

(* ids of the pointers before / behind a leaf *)
Lemma root_ids_before pre m tl : runs_ok (concat (map fst pre) ++ m ++ tl) ->
  Forall (fun x => fst x <> [] /\ 0 < snd (snd x)) pre ->
  forall p h, In p (root_of pre) -> In h m -> e_id p < e_id h.
Proof.
  induction pre as [|[l0 [o0 n0]] pre IH]; intros Hr Hne p h Hp Hh; [destruct Hp|].
  inversion Hne as [|? ? [Hl0 _] Hne']; subst. cbn [fst] in Hl0. cbn [map concat fst] in Hr. rewrite <- app_assoc in Hr.
  destruct Hp as [<-|Hp].
  - destruct l0 as [|a0 l0']; [congruence|]. unfold pointer_of. cbn [e_id].
    assert (G : e_id a0 + N.max (e_run a0) 1 <= e_id h).
    { apply (runs_ok_app_cross (a0 :: l0') (concat (map fst pre) ++ m ++ tl) Hr a0 h); [left; reflexivity|].
      apply in_or_app; right. apply in_or_app; left; exact Hh. }
    lia.
  - apply (IH (runs_ok_app_r _ _ Hr) Hne' p h Hp Hh).
Qed.

Lemma root_ids_behind m post : runs_ok (m ++ concat (map fst post)) ->
  Forall (fun x => fst x <> [] /\ 0 < snd (snd x)) post ->
  forall p e, In p (root_of post) -> In e m -> e_id e + N.max (e_run e) 1 <= e_id p.
Proof.
  induction post as [|[l2 [o2 n2]] post IH]; intros Hr Hne p e Hp He; [destruct Hp|].
  inversion Hne as [|? ? [Hl2 _] Hne']; subst. cbn [fst] in Hl2. cbn [map concat fst] in Hr.
  destruct Hp as [<-|Hp].
  - destruct l2 as [|a2 l2']; [congruence|]. unfold pointer_of. cbn [e_id].
    apply (runs_ok_app_cross m ((a2 :: l2') ++ concat (map fst post)) Hr e a2 He). left; reflexivity.
  - apply (IH (runs_ok_drop_middle _ _ _ Hr) Hne' p e Hp He).
Qed.

Theorem two_level_lookup av leaffn pre l o n post e t d :
  let leaves := pre ++ (l, (o, n)) :: post in
  runs_ok (concat (map fst leaves)) ->
  Forall (fun x => fst x <> [] /\ 0 < snd (snd x)) leaves ->
  leaffn o n = Ok l ->
  In e l -> 0 < e_len e -> 0 < e_run e -> e_id e <= t < e_id e + e_run e ->
  pm_lookup av (S (S d)) leaffn (root_of leaves) t = Ok (Some e).
Proof.
  intros leaves Hr Hne Hleaf Hin Hlen Hrun Ht.
  pose proof (root_runs_ok leaves Hr Hne) as Hroot_ok.
  assert (Hroot_split : root_of leaves = root_of pre ++ pointer_of l o n :: root_of post) by (unfold leaves; rewrite root_of_app; reflexivity).
  assert (Hcat : concat (map fst leaves) = concat (map fst pre) ++ l ++ concat (map fst post)).
  { unfold leaves. rewrite map_app, concat_app. reflexivity. }
  rewrite Hcat in Hr.
  assert (Hl_ok : runs_ok l) by (apply runs_ok_app_r in Hr; apply runs_ok_app_l in Hr; exact Hr).
  unfold leaves in Hne. apply Forall_app in Hne as [Hne_pre Hne2]. inversion Hne2 as [|? ? [Hlne Hn] Hne_post]; subst. cbn [fst snd] in Hlne, Hn.
  destruct l as [|h l']; [destruct Hin|].
  assert (Hh : e_id h <= e_id e).
  { destruct Hin as [<-|Hin]; [lia|]. pose proof (runs_ok_later h l' Hl_ok e Hin). lia. }
  assert (Hfind_root : find_tile av (root_of leaves) t = Ok (Some (pointer_of (h :: l') o n))).
  { apply (find_in_run av (root_of leaves) (pointer_of (h :: l') o n) t Hroot_ok).
    - rewrite Hroot_split. apply in_or_app. right. left. reflexivity.
    - right. unfold pointer_of at 1 2. cbn [e_run e_id]. split; [reflexivity|]. split; [lia|].
      intros e' He' Hlt. unfold pointer_of in Hlt. cbn [e_id] in Hlt.
      rewrite Hroot_split in He'. apply in_app_or in He'. destruct He' as [He'|[<-|He']].
      + pose proof (root_ids_before pre (h :: l') (concat (map fst post)) Hr Hne_pre e' h He' (or_introl eq_refl)). lia.
      + unfold pointer_of in *. cbn [e_id] in *. lia.
      + pose proof (root_ids_behind (h :: l') post (runs_ok_app_r _ _ Hr) Hne_post e' e He' Hin). lia.
    - intros H0. unfold pointer_of in H0. cbn [e_run] in H0. lia. }
  rewrite (pm_lookup_step av (S d) leaffn (root_of leaves) t (pointer_of (h :: l') o n) (h :: l') Hfind_root);
    [|unfold pointer_of; cbn [e_len]; exact Hn|reflexivity|unfold pointer_of; cbn [e_off e_len]; exact Hleaf].
  apply pm_lookup_hit; [|exact Hlen|exact Hrun].
  apply (find_in_run av (h :: l') e t Hl_ok Hin); [left; lia|intros _; lia].
Qed.
