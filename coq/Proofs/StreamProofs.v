(* C14: every completion order of the parallel stream stage yields a permutation of the mapped
   input; no item stuck; observed orders satisfy the executable `accepts`; buffered chunks. *)
From Coq Require Import List NArith Bool Arith Lia Permutation.
From VT Require Import Model.Stream.
Import ListNotations.

Section Proofs.
  Variables A B : Type.
  Variable F : A -> B.

  Lemma remove_nth_perm i (l : list B) y r : remove_nth i l = Some (y, r) -> Permutation l (y :: r) /\ length l = S (length r).
  Proof.
    revert i y r. induction l as [|x l IH]; intros [|j] y r; cbn [remove_nth]; try discriminate.
    - intros H; inversion H; subst. split; [reflexivity | reflexivity].
    - destruct (remove_nth j l) as [[y' r']|] eqn:E; [|discriminate]. intros H; inversion H; subst.
      destruct (IH _ _ _ E) as [P L]. split; [|cbn; lia].
      rewrite P. apply perm_swap.
  Qed.

  Lemma remove_nth_some i (l : list B) : i < length l -> exists y r, remove_nth i l = Some (y, r).
  Proof.
    revert i. induction l as [|x l IH]; intros [|j] H; cbn in H; try lia; cbn [remove_nth]; [eauto|].
    destruct (IH j) as (y & r & E); [lia|]. rewrite E. eauto.
  Qed.

  (* invariant: emitted ++ inflight ++ map F pending is a permutation of map F input *)
  Definition content (s : st A B) : list B := emitted s ++ inflight s ++ map F (pending s).

  Lemma step_content n s t s' : do_step F n s t = Some s' -> Permutation (content s') (content s).
  Proof.
    unfold content. destruct t as [|i]; cbn [do_step].
    - destruct (pending s) as [|x p] eqn:Ep; [discriminate|]. destruct (Nat.ltb _ _); [|discriminate].
      intros H; inversion H; subst. cbn [pending inflight emitted map]. rewrite <- app_assoc. reflexivity.
    - destruct (remove_nth i (inflight s)) as [[y r]|] eqn:E; [|discriminate]. intros H; inversion H; subst.
      cbn [pending inflight emitted]. destruct (remove_nth_perm _ _ _ _ E) as [P _].
      rewrite P. rewrite <- app_assoc. cbn [app]. reflexivity.
  Qed.

  Lemma run_content n ts : forall s s', run F n s ts = Some s' -> Permutation (content s') (content s).
  Proof.
    induction ts as [|t r IH]; intros s s'; cbn [run].
    - intros H; inversion H; reflexivity.
    - destruct (do_step F n s t) as [s1|] eqn:E; [|discriminate]. intros H.
      rewrite (IH _ _ H). eapply step_content; eauto.
  Qed.

  (* every run that ends in a terminal state has emitted a permutation of the mapped input:
     each output is the result of exactly one input, nothing lost, nothing duplicated *)
  Theorem map_perm n input ts s :
    run F n (init input) ts = Some s -> terminal s = true -> Permutation (emitted s) (map F input).
  Proof.
    intros Hr Ht. pose proof (run_content n ts _ _ Hr) as P. unfold content, init in P. cbn [pending inflight emitted app] in P.
    unfold terminal in Ht. destruct (pending s); [|discriminate]. destruct (inflight s); [|discriminate].
    cbn [map app] in P. now rewrite app_nil_r in P.
  Qed.

  (* no item is stuck: a non-terminal state can always make a step (n >= 1) *)
  Theorem progress n s : 1 <= n -> terminal s = false -> length (inflight s) <= n -> exists t s', do_step F n s t = Some s'.
  Proof.
    intros Hn Ht Hl. destruct (inflight s) as [|y r] eqn:Ei.
    - destruct (pending s) as [|x p] eqn:Ep; [unfold terminal in Ht; rewrite Ep, Ei in Ht; discriminate|].
      exists Spawn. cbn [do_step]. rewrite Ep, Ei. cbn [length]. destruct (Nat.ltb_spec 0 n); [eauto | lia].
    - exists (Complete 0). cbn [do_step]. rewrite Ei. cbn [remove_nth]. eauto.
  Qed.

  (* every step strictly decreases 2*|pending| + |inflight|: all maximal runs are finite *)
  Definition measure (s : st A B) : nat := 2 * length (pending s) + length (inflight s).
  Theorem step_decreases n s t s' : do_step F n s t = Some s' -> measure s' < measure s.
  Proof.
    unfold measure. destruct t as [|i]; cbn [do_step].
    - destruct (pending s) as [|x p]; [discriminate|]. destruct (Nat.ltb _ _); [|discriminate].
      intros H; inversion H; subst. cbn [pending inflight length]. rewrite app_length. cbn. lia.
    - destruct (remove_nth i (inflight s)) as [[y r]|] eqn:E; [|discriminate]. intros H; inversion H; subst.
      cbn [pending inflight]. destruct (remove_nth_perm _ _ _ _ E) as [_ L]. lia.
  Qed.

  Theorem window_invariant n ts : forall s s', run F n s ts = Some s' -> length (inflight s) <= n -> length (inflight s') <= n.
  Proof.
    induction ts as [|t r IH]; intros s s'; cbn [run]; [intros H; inversion H; auto|].
    destruct (do_step F n s t) as [s1|] eqn:E; [|discriminate]. intros H Hl. apply (IH _ _ H).
    destruct t as [|i]; cbn [do_step] in E.
    - destruct (pending s); [discriminate|]. destruct (Nat.ltb_spec (length (inflight s)) n); [|discriminate].
      inversion E; subst. cbn [inflight]. rewrite app_length. cbn. lia.
    - destruct (remove_nth i (inflight s)) as [[y r']|] eqn:E2; [|discriminate]. inversion E; subst. cbn [inflight].
      destruct (remove_nth_perm _ _ _ _ E2) as [_ L]. lia.
  Qed.
End Proofs.

(* ---------- the executable acceptance test is sound for observed orders ---------- *)
(* items are their own input indices: input = seq 0 len, F = id *)
Definition idx_state_ok (len : nat) (s : st nat nat) : Prop :=
  exists next, pending s = seq next (len - next) /\ next <= len
    /\ next = length (emitted s) + length (inflight s)
    /\ Forall (fun i => i < next) (inflight s).

Lemma idx_step n len s t s' : idx_state_ok len s -> do_step (fun x => x) n s t = Some s' -> idx_state_ok len s'.
Proof.
  intros (next & Hp & Hle & Hn & Hf). destruct t as [|i]; cbn [do_step].
  - rewrite Hp. destruct (len - next) as [|k] eqn:Ek; cbn [seq]; [discriminate|].
    destruct (Nat.ltb _ _); [|discriminate]. intros H; injection H as <-.
    exists (S next). cbn [pending inflight emitted]. split; [f_equal; lia|]. split; [lia|].
    split; [rewrite app_length; cbn; lia|]. apply Forall_app. split; [eapply Forall_impl; [|exact Hf]; cbn; lia | constructor; [lia | constructor]].
  - destruct (remove_nth i (inflight s)) as [[y r]|] eqn:E; [|discriminate]. intros H; injection H as <-.
    destruct (remove_nth_perm _ _ _ _ _ E) as [P L].
    exists next. cbn [pending inflight emitted]. split; [exact Hp|]. split; [exact Hle|].
    split; [rewrite app_length; cbn; lia|].
    assert (Hf' : Forall (fun i => i < next) (y :: r)) by (eapply Permutation_Forall; eauto).
    now inversion Hf'.
Qed.

Lemma window_ok_app n j l i : window_ok n j (l ++ [i]) = window_ok n j l && Nat.ltb i (j + length l + n).
Proof.
  revert j. induction l as [|x r IH]; intros j; cbn [window_ok app length].
  - rewrite Nat.add_0_r. now rewrite andb_true_r.
  - rewrite IH. rewrite andb_assoc. f_equal. f_equal. lia.
Qed.

Lemma idx_run_window n len ts : forall s s', run (fun x => x) n s ts = Some s' ->
  idx_state_ok len s -> length (inflight s) <= n -> window_ok n 0 (emitted s) = true ->
  window_ok n 0 (emitted s') = true /\ idx_state_ok len s'.
Proof.
  induction ts as [|t r IH]; intros s s'; cbn [run]; [intros H; inversion H; auto|].
  destruct (do_step (fun x => x) n s t) as [s1|] eqn:E; [|discriminate]. intros H Hok Hl Hw.
  apply (IH s1 s' H).
  - eapply idx_step; eauto.
  - apply (window_invariant nat nat (fun x => x) n [t] s s1); [cbn [run]; now rewrite E | exact Hl].
  - destruct Hok as (next & Hp & Hle & Hn & Hf). destruct t as [|i]; cbn [do_step] in E.
    + destruct (pending s); [discriminate|]. destruct (Nat.ltb _ _); [|discriminate]. injection E as <-. exact Hw.
    + destruct (remove_nth i (inflight s)) as [[y r']|] eqn:E2; [|discriminate]. injection E as <-. cbn [emitted].
      rewrite window_ok_app, Hw. cbn [andb Nat.add].
      destruct (remove_nth_perm _ _ _ _ _ E2) as [P L].
      assert (Hy : y < next).
      { assert (Hf' : Forall (fun i => i < next) (y :: r')) by (eapply Permutation_Forall; eauto). now inversion Hf'. }
      apply Nat.ltb_lt. lia.
Qed.

Lemma covers_perm len out : Permutation out (seq 0 len) -> covers len out = true.
Proof.
  intros P. unfold covers. apply forallb_forall. intros i Hi. apply existsb_exists. exists i.
  split; [eapply Permutation_in; [symmetry; exact P | exact Hi] | apply Nat.eqb_refl].
Qed.

Theorem accepts_sound n len ts s : 1 <= n ->
  run (fun x => x) n (init (seq 0 len)) ts = Some s -> terminal s = true -> accepts n len (emitted s) = true.
Proof.
  intros Hn Hr Ht. pose proof (map_perm nat nat (fun x => x) n _ ts s Hr Ht) as P. rewrite map_id in P.
  unfold accepts. rewrite (covers_perm _ _ P).
  assert (Hlen : length (emitted s) = len) by (rewrite (Permutation_length P); apply seq_length).
  rewrite Hlen, Nat.eqb_refl. cbn [andb].
  assert (Hok0 : idx_state_ok len (init (seq 0 len))).
  { exists 0. cbn. rewrite Nat.sub_0_r. repeat split; auto; lia. }
  destruct (idx_run_window n len ts _ _ Hr Hok0) as [W _]; [cbn; lia | reflexivity | exact W].
Qed.

(* ---------- for_each_buffered ---------- *)
Lemma chunk_go_concat {A} k : forall (l buf : list A), concat (chunk_go k buf l) = buf ++ l.
Proof.
  induction l as [|x r IH]; intros buf; cbn [chunk_go].
  - destruct buf; cbn; [reflexivity | now rewrite !app_nil_r].
  - destruct (Nat.leb k (length (buf ++ [x]))); cbn [concat]; rewrite IH; [cbn; now rewrite <- app_assoc | now rewrite <- app_assoc].
Qed.

Theorem chunks_concat {A} k (l : list A) : concat (chunks k l) = l.
Proof. unfold chunks. now rewrite chunk_go_concat. Qed.

Lemma chunk_go_sizes {A} k : 1 <= k -> forall (l buf : list A), length buf < k ->
  Forall (fun c => c <> []) (chunk_go k buf l)
  /\ (forall pre last, chunk_go k buf l = pre ++ [last] -> Forall (fun c => length c = k) pre /\ length last <= k).
Proof.
  intros Hk. induction l as [|x r IH]; intros buf Hb; cbn [chunk_go].
  - destruct buf as [|b0 br]; split.
    + constructor.
    + intros pre last H. destruct pre; discriminate.
    + constructor; [discriminate | constructor].
    + intros pre last H. destruct pre as [|p pre]; [inversion H; subst; split; [constructor | cbn in *; lia]|].
      destruct pre; discriminate.
  - destruct (Nat.leb_spec k (length (buf ++ [x]))) as [Hfull|Hnot].
    + assert (Hlen : length (buf ++ [x]) = k) by (rewrite app_length in *; cbn in *; lia).
      destruct (IH [] ltac:(cbn; lia)) as [A1 A2]. split.
      * constructor; [destruct buf; discriminate | exact A1].
      * intros pre last H. destruct pre as [|p pre].
        -- cbn in H. injection H as H1 H2. split; [constructor | rewrite <- H1; lia].
        -- cbn in H. injection H as H1 H2. destruct (A2 _ _ H2) as [B1 B2]. split; [constructor; [rewrite <- H1; exact Hlen | exact B1] | exact B2].
    + apply IH. exact Hnot.
Qed.

Theorem chunks_sizes {A} k (l : list A) : 1 <= k ->
  Forall (fun c => c <> []) (chunks k l)
  /\ (forall pre last, chunks k l = pre ++ [last] -> Forall (fun c => length c = k) pre /\ length last <= k).
Proof. intros Hk. unfold chunks. apply chunk_go_sizes; [exact Hk | cbn; lia]. Qed.

(* k = 0: `buffer.len() >= 0` holds after every push, so every chunk is a singleton *)
Theorem chunks_zero {A} (l : list A) : chunks 0 l = map (fun x => [x]) l.
Proof. unfold chunks. induction l as [|x r IH]; cbn [chunk_go map]; [reflexivity|]. cbn. now rewrite IH. Qed.
