(* versatiles addressing: what the writer lays out is what the reader finds, for every coverage
   pyramid and every tile set. *)
From Coq Require Import List NArith Bool Lia.
From VT Require Import Base.Outcome Model.BBox Proofs.BBoxProofs Model.VTFormat.
Import ListNotations.
Local Open Scope N_scope.

Lemma concat_o_ok {A B} (f : A -> outcome (list B)) (g : A -> list B) l :
  (forall a, In a l -> f a = Ok (g a)) -> concat_o (map f l) = Ok (concat (map g l)).
Proof.
  induction l as [|a l IH]; intros H; [reflexivity|].
  cbn [map concat_o concat]. rewrite (H a (or_introl eq_refl)). cbn [obind].
  rewrite IH by (intros a' Ha'; apply H; right; exact Ha'). reflexivity.
Qed.

Lemma find_unique {A} (f : A -> bool) l b0 :
  (forall b, In b l -> f b = true -> b = b0) -> (exists b, In b l /\ f b = true) -> find f l = Some b0.
Proof.
  intros Hu (b & Hb & Hf). destruct (find f l) as [b'|] eqn:E.
  - apply find_some in E as [E1 E2]. f_equal. apply Hu; assumption.
  - pose proof (find_none f l E b Hb) as G. congruence.
Qed.

Lemma nth_error_map_seq {A} (f : nat -> A) n k : (k < n)%nat -> nth_error (map f (seq 0 n)) k = Some (f k).
Proof.
  intros H. rewrite nth_error_map. rewrite (nth_error_nth' (seq 0 n) 0%nat) by (rewrite seq_length; exact H).
  rewrite seq_nth by exact H. reflexivity.
Qed.

(* the slot of a coordinate inside a block *)
Lemma slot_lookup tiles c x y : wf c -> In_box c x y ->
  exists i, get_tile_index 1 c x y = Ok i
    /\ N.of_nat (length (vb_slots (block_of_cell 1 tiles c))) = count_tiles c
    /\ nth_error (vb_slots (block_of_cell 1 tiles c)) (N.to_nat i) = Some (tiles (level c, x, y)).
Proof.
  intros Hwf Hin.
  assert (Hi : exists i, get_tile_index 1 c x y = Ok i).
  { unfold get_tile_index. rewrite (proj2 (contains2_spec c x y) Hin). cbn [negb N.eqb Pos.eqb]. eexists; reflexivity. }
  destruct Hi as (i & Hi). exists i. split; [exact Hi|].
  destruct (index_inverse_1 c x y i Hwf Hin Hi) as (Hlt & Hback).
  cbn [block_of_cell vb_slots]. rewrite map_length, seq_length, N2Nat.id. split; [reflexivity|].
  rewrite nth_error_map_seq by lia. rewrite N2Nat.id, Hback. reflexivity.
Qed.

Definition cells_of (b : bbox) : list bbox :=
  if is_empty b then [] else map (cell_of b 256) (iter_coords (meta_of b 256)).

Lemma cell_facts b p : wf b -> is_empty b = false -> In p (iter_coords (meta_of b 256)) ->
  let c := cell_of b 256 p in
  wf c /\ level c = level b /\ x_min c / 256 = fst p /\ y_min c / 256 = snd p.
Proof.
  intros Hb He Hp c.
  destruct (grid_partition b 256 Hb ltac:(lia) ltac:(unfold u32_lim; lia)) as (cells & Hc & _ & Hall & _).
  rewrite (grid_cells_explicit b 256 Hb ltac:(lia) ltac:(unfold u32_lim; lia)), He in Hc. injection Hc as <-.
  rewrite Forall_forall in Hall. specialize (Hall c (in_map _ _ _ Hp)). destruct Hall as (Hne & Hwf & Hl & _ & _).
  split; [exact Hwf|]. split; [exact Hl|].
  assert (C1 : In_box c (x_min c) (y_min c)) by (revert Hne; unfold c; unf; lia).
  apply (cell_member b 256 p) in C1; [|exact Hb|lia]. tauto.
Qed.

Lemma levels_In z : In z levels <-> z <= 31.
Proof.
  unfold levels. rewrite in_map_iff. split.
  - intros (n & <- & Hn). apply in_seq in Hn. lia.
  - intros H. exists (N.to_nat z). split; [apply N2Nat.id|]. apply in_seq. lia.
Qed.

Theorem vt_roundtrip pyr tiles : (forall z, z <= 31 -> wf (pyr z) /\ level (pyr z) = z) ->
  exists blocks, vt_write 1 pyr tiles = Ok blocks /\
    forall z x y, z <= 31 ->
      vt_lookup 1 blocks (z, x, y) = Ok (if contains2 (pyr z) x y then tiles (z, x, y) else None).
Proof.
  intros Hp.
  set (blocks := concat (map (fun z => map (block_of_cell 1 tiles) (cells_of (pyr z))) levels)).
  exists blocks. split.
  - unfold vt_write. apply concat_o_ok. intros z Hz. apply levels_In in Hz. destruct (Hp z Hz) as [Hwf _].
    rewrite (grid_cells_explicit (pyr z) 256 Hwf ltac:(lia) ltac:(unfold u32_lim; lia)). reflexivity.
  - intros z x y Hz. destruct (Hp z Hz) as [Hwf Hl].
    set (p := (x / 256, y / 256)). set (b0 := block_of_cell 1 tiles (cell_of (pyr z) 256 p)).
    (* every block with the key of (z, x, y) is b0, and then p is a cell of level z *)
    assert (Huniq : forall b, In b blocks -> key_eqb b z (x / 256) (y / 256) = true ->
              b = b0 /\ is_empty (pyr z) = false /\ In p (iter_coords (meta_of (pyr z) 256))).
    { intros b Hb Hk. unfold blocks in Hb. apply in_concat in Hb as (l & Hl1 & Hl2).
      apply in_map_iff in Hl1 as (z' & <- & Hz'). apply levels_In in Hz'.
      apply in_map_iff in Hl2 as (c & <- & Hc). unfold cells_of in Hc.
      destruct (Hp z' Hz') as [Hwf' Hl'].
      destruct (is_empty (pyr z')) eqn:Ee; [destruct Hc|].
      apply in_map_iff in Hc as (p' & <- & Hp').
      destruct (cell_facts (pyr z') p' Hwf' Ee Hp') as (_ & K1 & K2 & K3).
      unfold key_eqb in Hk. cbn [block_of_cell vb_z vb_bx vb_by] in Hk.
      apply andb_prop in Hk as [Hk Hk3]. apply andb_prop in Hk as [Hk1 Hk2].
      apply N.eqb_eq in Hk1, Hk2, Hk3. rewrite K1, Hl' in Hk1. subst z'.
      assert (p' = p) by (unfold p; destruct p'; cbn [fst snd] in *; congruence). subst p'.
      repeat split; assumption. }
    unfold vt_lookup, vt_find.
    destruct (contains2 (pyr z) x y) eqn:Ec.
    + apply contains2_spec in Ec.
      assert (Ee : is_empty (pyr z) = false).
      { destruct (is_empty (pyr z)) eqn:Ee; [|reflexivity]. exfalso. apply (proj1 (empty_spec (pyr z)) Ee x y Ec). }
      assert (Hpin : In p (iter_coords (meta_of (pyr z) 256))).
      { apply iter_coords_In. unfold In_box, meta_of, p. cbn [fst snd level x_min y_min x_max y_max bmax].
        unfold In_box in Ec. repeat split; apply N.div_le_mono; lia. }
      assert (Hb0 : In b0 blocks).
      { unfold blocks. apply in_concat. exists (map (block_of_cell 1 tiles) (cells_of (pyr z))). split.
        - apply in_map_iff. exists z. split; [reflexivity|]. apply levels_In; exact Hz.
        - apply in_map. unfold cells_of. rewrite Ee. apply in_map. exact Hpin. }
      destruct (cell_facts (pyr z) p Hwf Ee Hpin) as (Cwf & Cl & Cx & Cy).
      assert (Hk0 : key_eqb b0 z (x / 256) (y / 256) = true).
      { unfold key_eqb, b0. cbn [block_of_cell vb_z vb_bx vb_by]. rewrite Cl, Hl, Cx, Cy. unfold p. cbn [fst snd]. rewrite !N.eqb_refl. reflexivity. }
      rewrite (find_unique _ (rev blocks) b0).
      2:{ intros b Hb Hk. apply in_rev in Hb. exact (proj1 (Huniq b Hb Hk)). }
      2:{ exists b0. split; [apply in_rev; rewrite rev_involutive; exact Hb0|exact Hk0]. }
      assert (Hcin : In_box (cell_of (pyr z) 256 p) x y).
      { apply cell_member; [exact Hwf|lia|]. unfold p. cbn [fst snd]. tauto. }
      unfold b0 at 1. cbn [block_of_cell vb_box]. rewrite (proj2 (contains2_spec _ x y) Hcin). cbn [negb].
      destruct (slot_lookup tiles (cell_of (pyr z) 256 p) x y Cwf Hcin) as (i & Hi & Hlen & Hnth).
      unfold b0. cbn [vb_box] . change (vb_box (block_of_cell 1 tiles (cell_of (pyr z) 256 p))) with (cell_of (pyr z) 256 p).
      rewrite Hi, Hlen, N.eqb_refl. cbn [negb]. rewrite Hnth. rewrite Cl, Hl.
      destruct (tiles (z, x, y)); reflexivity.
    + destruct (find (fun b => key_eqb b z (x / 256) (y / 256)) (rev blocks)) as [b|] eqn:Ef; [|reflexivity].
      apply find_some in Ef as [Ef1 Ef2]. apply in_rev in Ef1.
      destruct (Huniq b Ef1 Ef2) as (-> & Ee & Hpin).
      unfold b0. cbn [block_of_cell vb_box].
      destruct (contains2 (cell_of (pyr z) 256 p) x y) eqn:Ec2; [|reflexivity].
      apply contains2_spec in Ec2. apply cell_member in Ec2; [|exact Hwf|lia].
      destruct Ec2 as (Ec2 & _). apply contains2_spec in Ec2. congruence.
Qed.

(* the reader on ANY block list an encoder may produce (sparse index, partial blocks, any order):
   a coordinate inside a listed block is answered from that block's slot, provided block
   coordinates are unique and a block's box lies in its own 256-cell *)
Definition block_ok (b : vblock) : Prop :=
  wf (vb_box b) /\ vb_z b = level (vb_box b)
  /\ x_min (vb_box b) / 256 = vb_bx b /\ x_max (vb_box b) / 256 = vb_bx b
  /\ y_min (vb_box b) / 256 = vb_by b /\ y_max (vb_box b) / 256 = vb_by b
  /\ N.of_nat (length (vb_slots b)) = count_tiles (vb_box b).

Theorem vt_lookup_listed blocks b x y :
  In b blocks -> block_ok b ->
  (forall b', In b' blocks -> key_eqb b' (vb_z b) (vb_bx b) (vb_by b) = true -> b' = b) ->
  In_box (vb_box b) x y ->
  exists i, get_tile_index 1 (vb_box b) x y = Ok i /\ i < count_tiles (vb_box b) /\
    vt_lookup 1 blocks (vb_z b, x, y) = Ok (match nth_error (vb_slots b) (N.to_nat i) with Some v => v | None => None end).
Proof.
  intros Hin (Hwf & Hz & Hx0 & Hx1 & Hy0 & Hy1 & Hlen) Huniq Hbox.
  assert (Hkx : x / 256 = vb_bx b).
  { unfold In_box in Hbox. apply (div_eq_iff x 256 (vb_bx b)); [lia|].
    apply (div_eq_iff _ 256 _ ltac:(lia)) in Hx0. apply (div_eq_iff _ 256 _ ltac:(lia)) in Hx1. lia. }
  assert (Hky : y / 256 = vb_by b).
  { unfold In_box in Hbox. apply (div_eq_iff y 256 (vb_by b)); [lia|].
    apply (div_eq_iff _ 256 _ ltac:(lia)) in Hy0. apply (div_eq_iff _ 256 _ ltac:(lia)) in Hy1. lia. }
  assert (Hi : exists i, get_tile_index 1 (vb_box b) x y = Ok i).
  { unfold get_tile_index. rewrite (proj2 (contains2_spec _ x y) Hbox). cbn [negb N.eqb Pos.eqb]. eexists; reflexivity. }
  destruct Hi as (i & Hi). exists i. split; [exact Hi|].
  destruct (index_inverse_1 _ x y i Hwf Hbox Hi) as (Hlt & _). split; [exact Hlt|].
  unfold vt_lookup, vt_find. rewrite Hkx, Hky.
  rewrite (find_unique _ (rev blocks) b).
  2:{ intros b' Hb' Hk. apply in_rev in Hb'. apply Huniq; assumption. }
  2:{ exists b. split; [apply in_rev; rewrite rev_involutive; exact Hin|]. unfold key_eqb. rewrite !N.eqb_refl. reflexivity. }
  rewrite (proj2 (contains2_spec _ x y) Hbox). cbn [negb]. rewrite Hi, Hlen, N.eqb_refl. cbn [negb].
  destruct (nth_error (vb_slots b) (N.to_nat i)) as [[v|]|] eqn:En; try reflexivity.
  apply nth_error_None in En. lia.
Qed.

(* a coordinate whose block is not listed, or which lies outside the listed block's box, has no tile *)
Theorem vt_lookup_unlisted blocks z x y :
  (forall b, In b blocks -> key_eqb b z (x / 256) (y / 256) = true -> contains2 (vb_box b) x y = false) ->
  vt_lookup 1 blocks (z, x, y) = Ok None.
Proof.
  intros H. unfold vt_lookup, vt_find.
  destruct (find (fun b => key_eqb b z (x / 256) (y / 256)) (rev blocks)) as [b|] eqn:Ef; [|reflexivity].
  apply find_some in Ef as [E1 E2]. apply in_rev in E1. rewrite (H b E1 E2). reflexivity.
Qed.
