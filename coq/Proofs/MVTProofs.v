(* C10 / C11: varint and zig-zag codecs; re-indexing of property tables preserves every feature's
   properties; merging concatenates features with unchanged id, type, geometry and properties. *)
From Coq Require Import List NArith ZArith Bool Lia ZifyBool ZifyN Arith.
From VT Require Import Model.MVT.
Import ListNotations.
Local Open Scope N_scope.

(* ---------- varint ---------- *)
Lemma read_write_varint_go : forall fuel shift acc v rest,
  v < 128 ^ N.of_nat (S fuel) -> acc < 2 ^ shift -> acc + v * 2 ^ shift < two64 ->
  read_varint_go (S fuel) shift acc (write_varint_go fuel v ++ rest) = Some (acc + v * 2 ^ shift, rest).
Proof.
  induction fuel as [|f IH]; intros shift acc v rest Hv Hacc Hsum.
  - cbn [write_varint_go app read_varint_go]. change (128 ^ N.of_nat 1) with 128 in Hv.
    rewrite (N.mod_small v 128) by lia. rewrite (N.mod_small v 128) by lia.
    rewrite (N.mod_small (v * 2 ^ shift) two64) by lia.
    destruct (v <? 128) eqn:E; [reflexivity | lia].
  - cbn [write_varint_go]. destruct (v <? 128) eqn:E.
    + cbn [app read_varint_go]. rewrite E. rewrite (N.mod_small v 128) by lia.
      rewrite (N.mod_small (v * 2 ^ shift) two64) by lia. reflexivity.
    + cbn [app]. change (read_varint_go (S (S f)) shift acc ((v mod 128 + 128) :: write_varint_go f (v / 128) ++ rest))
        with (let b := v mod 128 + 128 in
              let acc' := acc + ((b mod 128) * 2 ^ shift) mod two64 in
              if b <? 128 then Some (acc', write_varint_go f (v / 128) ++ rest)
              else read_varint_go (S f) (shift + 7) acc' (write_varint_go f (v / 128) ++ rest)).
      cbv zeta.
      assert (Hm : v mod 128 < 128) by (apply N.mod_lt; lia).
      assert (Hb : (v mod 128 + 128) mod 128 = v mod 128).
      { rewrite N.add_mod by lia. rewrite N.mod_same by lia. rewrite N.add_0_r. rewrite N.mod_mod by lia. now rewrite N.mod_small by lia. }
      rewrite Hb. destruct (v mod 128 + 128 <? 128) eqn:E2; [lia|].
      pose proof (N.div_mod v 128 ltac:(lia)) as Hdm.
      assert (Hpow : 2 ^ (shift + 7) = 128 * 2 ^ shift) by (rewrite N.pow_add_r; change (2 ^ 7) with 128; lia).
      assert (Hle : (v mod 128) * 2 ^ shift <= v * 2 ^ shift) by (apply N.mul_le_mono_r; lia).
      rewrite (N.mod_small ((v mod 128) * 2 ^ shift) two64) by lia.
      rewrite IH.
      * f_equal. f_equal. rewrite Hpow. nia.
      * assert (Hp : 128 ^ N.of_nat (S (S f)) = 128 * 128 ^ N.of_nat (S f)) by (rewrite !Nat2N.inj_succ, N.pow_succ_r'; reflexivity).
        rewrite Hp in Hv. apply N.div_lt_upper_bound; lia.
      * rewrite Hpow. nia.
      * rewrite Hpow. nia.
Qed.

(* every u64 round-trips through write_varint / read_varint, whatever follows *)
Theorem varint_roundtrip v rest : v < two64 -> read_varint (write_varint v ++ rest) = Some (v, rest).
Proof.
  intros Hv. unfold read_varint, write_varint. rewrite read_write_varint_go.
  - f_equal. f_equal. change (2 ^ 0) with 1. lia.
  - change (128 ^ N.of_nat 10) with 1180591620717411303424. unfold two64 in Hv. lia.
  - reflexivity.
  - change (2 ^ 0) with 1. lia.
Qed.

(* ---------- zig-zag ---------- *)
Theorem zigzag_roundtrip z : (- 9223372036854775808 <= z < 9223372036854775808)%Z -> zz_dec 1 (zz_enc z) = z.
Proof.
  intros Hz. unfold zz_dec, zz_enc. cbn [N.eqb Pos.eqb andb].
  destruct (z <? 0)%Z eqn:E.
  - assert (Hn : Z.to_N (-2 * z - 1) = 2 * Z.to_N (- z - 1) + 1) by lia.
    rewrite Hn. rewrite N.even_add, N.even_mul. cbn [N.even orb Bool.eqb].
    assert (Hd : (2 * Z.to_N (- z - 1) + 1) / 2 = Z.to_N (- z - 1)).
    { rewrite N.add_comm, N.mul_comm, N.div_add by lia. cbn. lia. }
    rewrite Hd. lia.
  - assert (Hn : Z.to_N (2 * z) = 2 * Z.to_N z) by lia.
    rewrite Hn. rewrite N.even_mul. cbn [N.even orb].
    rewrite N.mul_comm, N.div_mul by lia. lia.
Qed.

Theorem zigzag_range z : (- 9223372036854775808 <= z < 9223372036854775808)%Z -> zz_enc z < two64.
Proof. intros Hz. unfold zz_enc, two64. destruct (z <? 0)%Z eqn:E; lia. Qed.

(* the arithmetic-shift decoder (pinned source) is wrong from 2^62 on *)
Lemma zigzag_refuted_v0 : zz_dec 0 (zz_enc 9223372036854775807) = (-1)%Z /\ zz_dec 1 (zz_enc 9223372036854775807) = 9223372036854775807%Z.
Proof. split; vm_compute; reflexivity. Qed.

(* ---------- property tables ---------- *)
Lemma bytes_eqb_eq a b : bytes_eqb a b = true <-> a = b.
Proof. unfold bytes_eqb. destruct (list_eq_dec N.eq_dec a b); split; congruence. Qed.

Lemma value_eqb_eq a b : value_eqb a b = true <-> a = b.
Proof.
  destruct a, b; cbn [value_eqb]; try (split; [discriminate | intros H; inversion H]).
  - destruct (list_eq_dec N.eq_dec s s0); split; congruence.
  - rewrite N.eqb_eq. split; congruence.
  - rewrite N.eqb_eq. split; congruence.
  - rewrite Z.eqb_eq. split; congruence.
  - rewrite N.eqb_eq. split; congruence.
  - rewrite Bool.eqb_true_iff. split; congruence.
Qed.

Section Tables.
  Context {A : Type} (eqb : A -> A -> bool) (eqb_eq : forall a b, eqb a b = true <-> a = b).

  Lemma index_of_spec x t i0 i : index_of eqb x t i0 = Some i ->
    i0 <= i /\ nth_error t (N.to_nat (i - i0)) = Some x.
  Proof.
    revert i0. induction t as [|y r IH]; intros i0; cbn [index_of]; [discriminate|].
    destruct (eqb x y) eqn:E.
    - intros H; inversion H; subst. apply eqb_eq in E. subst. rewrite N.sub_diag. split; [lia | reflexivity].
    - intros H. destruct (IH _ H) as [H1 H2]. split; [lia|].
      replace (N.to_nat (i - i0)) with (S (N.to_nat (i - (i0 + 1)))) by lia. exact H2.
  Qed.

  (* VTLPMap::add: the returned id points at the entry, and the old table is a prefix of the new *)
  Lemma table_add_spec t x t' i : table_add eqb t x = (t', i) ->
    nth_error t' (N.to_nat i) = Some x /\ exists ext, t' = t ++ ext.
  Proof.
    unfold table_add. destruct (index_of eqb x t 0) as [j|] eqn:E; intros H; inversion H; subst.
    - destruct (index_of_spec _ _ _ _ E) as [_ Hn]. rewrite N.sub_0_r in Hn. split; [exact Hn | exists []; now rewrite app_nil_r].
    - split; [|eauto]. rewrite Nat2N.id. rewrite nth_error_app2 by lia. now rewrite Nat.sub_diag.
  Qed.
End Tables.

Lemma nth_error_prefix {A} (t ext : list A) i x : nth_error t i = Some x -> nth_error (t ++ ext) i = Some x.
Proof. intros H. rewrite nth_error_app1; [exact H | apply nth_error_Some; congruence]. Qed.

(* tags that decode against (keys, vals) decode to the same properties against extended tables *)
Lemma decode_tags_prefix keys vals ek ev tags ps :
  decode_tags keys vals tags = Some ps -> decode_tags (keys ++ ek) (vals ++ ev) tags = Some ps.
Proof.
  assert (H : forall n tags, (length tags <= n)%nat -> forall ps,
            decode_tags keys vals tags = Some ps -> decode_tags (keys ++ ek) (vals ++ ev) tags = Some ps).
  { induction n as [|n IH]; intros tags0 Hl ps0.
    - destruct tags0; [auto | cbn in Hl; lia].
    - destruct tags0 as [|k [|v r]]; cbn [decode_tags]; [auto | discriminate|].
      destruct (nth_error keys (N.to_nat k)) as [kk|] eqn:Ek; [|discriminate].
      destruct (nth_error vals (N.to_nat v)) as [vv|] eqn:Ev; [|discriminate].
      destruct (decode_tags keys vals r) as [rest|] eqn:Er; [|discriminate].
      intros H; inversion H; subst.
      rewrite (nth_error_prefix _ ek _ _ Ek), (nth_error_prefix _ ev _ _ Ev).
      rewrite (IH r ltac:(cbn in Hl; lia) rest Er). reflexivity. }
  apply (H (length tags) tags (le_n _)).
Qed.

(* encode_tag_ids followed by decode_tag_ids is the identity on property lists, and the tables
   only grow (so everything encoded earlier keeps its meaning) *)
Lemma encode_decode_tags ps : forall keys vals keys2 vals2 tags,
  encode_tags keys vals ps = (keys2, vals2, tags) ->
  decode_tags keys2 vals2 tags = Some ps /\ (exists ek, keys2 = keys ++ ek) /\ (exists ev, vals2 = vals ++ ev).
Proof.
  induction ps as [|[k v] r IH]; intros keys vals keys2 vals2 tags; cbn [encode_tags].
  - intros H; inversion H; subst. split; [reflexivity|]. split; exists []; now rewrite app_nil_r.
  - destruct (table_add bytes_eqb keys k) as [keys1 ki] eqn:Ek.
    destruct (table_add value_eqb vals v) as [vals1 vi] eqn:Ev.
    destruct (encode_tags keys1 vals1 r) as [[keys3 vals3] tags3] eqn:Er.
    intros H; inversion H; subst.
    destruct (table_add_spec bytes_eqb bytes_eqb_eq _ _ _ _ Ek) as [Hk [ek1 ->]].
    destruct (table_add_spec value_eqb value_eqb_eq _ _ _ _ Ev) as [Hv [ev1 ->]].
    destruct (IH _ _ _ _ _ Er) as (Hd & [ek2 ->] & [ev2 ->]).
    split; [|split; [exists (ek1 ++ ek2); now rewrite app_assoc | exists (ev1 ++ ev2); now rewrite app_assoc]].
    cbn [decode_tags]. rewrite (nth_error_prefix _ ek2 _ _ Hk), (nth_error_prefix _ ev2 _ _ Hv), Hd. reflexivity.
Qed.

(* ---------- merging ---------- *)
(* what a feature means inside its layer: id, geometry type, geometry bytes, decoded properties *)
Definition fcontent (keys : list bytes) (vals : list value) (f : feature) :=
  (fid f, ftype f, fgeom f, decode_tags keys vals (ftags f)).
Definition lcontent (l : layer) := map (fcontent (lkeys l) (lvals l)) (lfeatures l).
Definition all_decodable (l : layer) : Prop := Forall (fun f => decode_tags (lkeys l) (lvals l) (ftags f) <> None) (lfeatures l).

Lemma fcontent_prefix keys vals ek ev f : decode_tags keys vals (ftags f) <> None ->
  fcontent (keys ++ ek) (vals ++ ev) f = fcontent keys vals f.
Proof.
  intros H. unfold fcontent. destruct (decode_tags keys vals (ftags f)) as [ps|] eqn:E; [|congruence].
  now rewrite (decode_tags_prefix _ _ ek ev _ _ E).
Qed.

(* add_from_layer: the target keeps its features unchanged and gains the source's features in
   order, each with the same id, type, geometry and properties (re-indexed into the target tables) *)
Theorem add_features_content fs : forall dst skeys svals dst',
  all_decodable dst ->
  add_features dst skeys svals fs = Some dst' ->
  lcontent dst' = lcontent dst ++ map (fcontent skeys svals) fs
  /\ all_decodable dst' /\ lname dst' = lname dst /\ lextent dst' = lextent dst /\ lversion dst' = lversion dst.
Proof.
  induction fs as [|f r IH]; intros dst skeys svals dst' Hdec; cbn [add_features].
  - intros H; inversion H; subst. rewrite app_nil_r. auto.
  - destruct (decode_tags skeys svals (ftags f)) as [ps|] eqn:Ed; [|discriminate].
    destruct (encode_tags (lkeys dst) (lvals dst) ps) as [[k2 v2] tags] eqn:Ee.
    destruct (encode_decode_tags ps _ _ _ _ _ Ee) as (Hd & [ek ->] & [ev ->]).
    set (dst1 := mkL (lname dst) (lextent dst) (lversion dst) (lkeys dst ++ ek) (lvals dst ++ ev) (lfeatures dst ++ [mkF (fid f) tags (ftype f) (fgeom f)])).
    assert (Hdec1 : all_decodable dst1).
    { unfold all_decodable, dst1. cbn [lkeys lvals lfeatures]. apply Forall_app. split.
      - eapply Forall_impl; [|exact Hdec]. cbn. intros g Hg.
        destruct (decode_tags (lkeys dst) (lvals dst) (ftags g)) as [q|] eqn:Eq; [|congruence].
        rewrite (decode_tags_prefix _ _ ek ev _ _ Eq). discriminate.
      - constructor; [cbn [ftags]; rewrite Hd; discriminate | constructor]. }
    intros H. destruct (IH dst1 skeys svals dst' Hdec1 H) as (Hc & Hdd & Hn & He & Hv).
    split; [|auto].
    rewrite Hc. unfold lcontent, dst1. cbn [lkeys lvals lfeatures map]. rewrite map_app. cbn [map].
    rewrite <- app_assoc. cbn [app]. f_equal.
    + apply map_ext_in. intros g Hg. apply fcontent_prefix. unfold all_decodable in Hdec. rewrite Forall_forall in Hdec. now apply Hdec.
    + f_equal. unfold fcontent. cbn [fid ftype fgeom ftags]. now rewrite Hd, Ed.
Qed.

(* an undecodable source feature makes the merge fail (an error, not silent corruption) *)
Theorem add_features_fails_only_on_bad_tags fs dst skeys svals :
  add_features dst skeys svals fs = None -> exists f, In f fs /\ decode_tags skeys svals (ftags f) = None.
Proof.
  revert dst. induction fs as [|f r IH]; intros dst; cbn [add_features]; [discriminate|].
  destruct (decode_tags skeys svals (ftags f)) as [ps|] eqn:Ed.
  - destruct (encode_tags (lkeys dst) (lvals dst) ps) as [[k2 v2] tags]. intros H.
    destruct (IH _ H) as (g & Hg & Hn). exists g. split; [now right | exact Hn].
  - intros _. exists f. split; [now left | exact Ed].
Qed.

(* the table variant that de-duplicates while reading loses the positions the tags refer to *)
Lemma dedup_read_refuted :
  let keys := [[97]; [98]; [97]; [99]] in                     (* a b a c *)
  decode_tags (fold_left (push_table bytes_eqb 0) keys []) [VBool true] [3; 0] = None
  /\ decode_tags (fold_left (push_table bytes_eqb 1) keys []) [VBool true] [3; 0] = Some [([99], VBool true)].
Proof. split; vm_compute; reflexivity. Qed.

Lemma push_table_keeps {A} (eqb : A -> A -> bool) l acc : fold_left (push_table eqb 1) l acc = acc ++ l.
Proof.
  revert acc. induction l as [|x r IH]; intros acc; cbn [fold_left]; [now rewrite app_nil_r|].
  unfold push_table at 2. cbn [N.eqb Pos.eqb andb]. rewrite IH. now rewrite <- app_assoc.
Qed.
