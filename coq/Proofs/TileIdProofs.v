(* Proofs for the PMTiles tile-id curve: the decoder loop inverts the encoder loop. *)
From Coq Require Import ZArith Bool List Lia.
From VT Require Import Model.TileId.
Import ListNotations.
Local Open Scope Z_scope.

(* ---------- structural specifications of the two loops ---------- *)
Fixpoint enc (k : nat) (x y : Z) : Z :=
  match k with
  | O => 0
  | S k' =>
      let s := 2 ^ Z.of_nat k' in
      let rx := s <=? x in let ry := s <=? y in
      let '(x', y') := rotate s (x mod s) (y mod s) rx ry in
      s * s * quad rx ry + enc k' x' y'
  end.

Definition digit (q : Z) : bool * bool :=
  let rx := Z.odd (q / 2) in (rx, Z.odd (Z.lxor q (b2z rx))).

Fixpoint dec (k : nat) (t : Z) : Z * Z :=
  match k with
  | O => (0, 0)
  | S k' =>
      let s := 2 ^ Z.of_nat k' in
      let '(px, py) := dec k' (t mod (s * s)) in
      let '(rx, ry) := digit (t / (s * s)) in
      let '(px, py) := rotate s px py rx ry in
      (px + s * b2z rx, py + s * b2z ry)
  end.

Lemma pow2_pos k : 0 < 2 ^ Z.of_nat k.  Proof. apply Z.pow_pos_nonneg; lia. Qed.

Lemma rotate_invol s x y rx ry : rotate s (fst (rotate s x y rx ry)) (snd (rotate s x y rx ry)) rx ry = (x, y).
Proof. unfold rotate. destruct ry, rx; cbn; f_equal; lia. Qed.

Lemma rotate_range s x y rx ry : 0 <= x < s -> 0 <= y < s ->
  0 <= fst (rotate s x y rx ry) < s /\ 0 <= snd (rotate s x y rx ry) < s.
Proof. unfold rotate. destruct ry, rx; cbn; lia. Qed.

Lemma digit_quad rx ry : digit (quad rx ry) = (rx, ry).
Proof. destruct rx, ry; reflexivity. Qed.

Lemma quad_range rx ry : 0 <= quad rx ry <= 3.
Proof. destruct rx, ry; cbn; lia. Qed.

Lemma enc_range k x y : 0 <= enc k x y < 2 ^ Z.of_nat k * 2 ^ Z.of_nat k.
Proof.
  revert x y; induction k as [|k IH]; intros x y; [cbn; lia|].
  cbn [enc]. set (s := 2 ^ Z.of_nat k).
  destruct (rotate s (x mod s) (y mod s) (s <=? x) (s <=? y)) as [x' y'].
  specialize (IH x' y'). fold s in IH. pose proof (quad_range (s <=? x) (s <=? y)) as Q.
  rewrite Nat2Z.inj_succ, Z.pow_succ_r by lia. fold s. pose proof (pow2_pos k) as P. fold s in P. nia.
Qed.

Theorem dec_enc k x y : 0 <= x < 2 ^ Z.of_nat k -> 0 <= y < 2 ^ Z.of_nat k -> dec k (enc k x y) = (x, y).
Proof.
  revert x y; induction k as [|k IH]; intros x y Hx Hy.
  - cbn in *. f_equal; lia.
  - rewrite Nat2Z.inj_succ, Z.pow_succ_r in Hx, Hy by lia.
    cbn [enc dec]. set (s := 2 ^ Z.of_nat k) in *. pose proof (pow2_pos k) as P. fold s in P.
    pose proof (Z.mod_pos_bound x s P) as Mx. pose proof (Z.mod_pos_bound y s P) as My.
    pose proof (rotate_range s (x mod s) (y mod s) (s <=? x) (s <=? y) Mx My) as [R1 R2].
    pose proof (rotate_invol s (x mod s) (y mod s) (s <=? x) (s <=? y)) as RI.
    destruct (rotate s (x mod s) (y mod s) (s <=? x) (s <=? y)) as [x' y'] eqn:ER. cbn [fst snd] in *.
    pose proof (enc_range k x' y') as E. fold s in E.
    set (q := quad (s <=? x) (s <=? y)). set (e := enc k x' y') in *.
    assert (Hmod : (s * s * q + e) mod (s * s) = e).
    { rewrite Z.add_comm, Z.mul_comm, Z.mod_add by nia. apply Z.mod_small; lia. }
    assert (Hdiv : (s * s * q + e) / (s * s) = q).
    { rewrite Z.add_comm, Z.mul_comm, Z.div_add by nia. rewrite Z.div_small by lia. lia. }
    rewrite Hmod, Hdiv. unfold e. rewrite IH by lia. unfold q. rewrite digit_quad, RI.
    f_equal.
    + destruct (Z.leb_spec s x) as [H|H]; cbn [b2z].
      * rewrite Z.mod_eq by lia. replace (x / s) with 1; [lia|]. apply Z.div_unique with (x - s); lia.
      * rewrite Z.mod_small by lia. lia.
    + destruct (Z.leb_spec s y) as [H|H]; cbn [b2z].
      * rewrite Z.mod_eq by lia. replace (y / s) with 1; [lia|]. apply Z.div_unique with (y - s); lia.
      * rewrite Z.mod_small by lia. lia.
Qed.

(* ---------- the loops compute the specifications ---------- *)
Lemma land_pow2 a n : 0 <= n -> Z.land a (2 ^ n) = if Z.testbit a n then 2 ^ n else 0.
Proof.
  intros Hn. apply Z.bits_inj'. intros m Hm. rewrite Z.land_spec, Z.pow2_bits_eqb by lia.
  destruct (Z.eqb_spec n m) as [->|Hne].
  - rewrite andb_true_r. destruct (Z.testbit a m) eqn:E; [rewrite Z.pow2_bits_eqb, Z.eqb_refl by lia; reflexivity|apply eq_sym, Z.bits_0].
  - rewrite andb_false_r. destruct (Z.testbit a n); [rewrite Z.pow2_bits_eqb by lia; symmetry; apply Z.eqb_neq; exact Hne|apply eq_sym, Z.bits_0].
Qed.

Lemma mod_2s a k : let s := 2 ^ Z.of_nat k in
  a mod (2 ^ Z.of_nat (S k)) = a mod s + s * b2z (Z.testbit a (Z.of_nat k)).
Proof.
  intros s. pose proof (pow2_pos k) as P. fold s in P.
  rewrite Nat2Z.inj_succ, Z.pow_succ_r by lia. fold s. rewrite (Z.mul_comm 2 s).
  rewrite Z.rem_mul_r by lia. f_equal. f_equal. unfold b2z.
  pose proof (Z.testbit_spec' a (Z.of_nat k) ltac:(lia)) as T. fold s in T.
  destruct (Z.testbit a (Z.of_nat k)); cbn [Z.b2z] in T; lia.
Qed.

Lemma bit_code_spec a k : let s := 2 ^ Z.of_nat k in
  (0 <? Z.land a s) = (s <=? a mod (2 ^ Z.of_nat (S k))) /\ (a mod (2 ^ Z.of_nat (S k))) mod s = a mod s.
Proof.
  intros s. pose proof (pow2_pos k) as P. fold s in P.
  pose proof (Z.mod_pos_bound a s P) as M.
  rewrite mod_2s. fold s. unfold s at 1. rewrite land_pow2 by lia. fold s.
  destruct (Z.testbit a (Z.of_nat k)); cbn [b2z]; split.
  - destruct (Z.ltb_spec 0 s), (Z.leb_spec s (a mod s + s * 1)); try reflexivity; lia.
  - replace (a mod s + s * 1) with (a mod s + 1 * s) by lia. rewrite Z.mod_add by lia. apply Z.mod_mod; lia.
  - destruct (Z.leb_spec s (a mod s + s * 0)); [lia|reflexivity].
  - rewrite Z.mul_0_r, Z.add_0_r. apply Z.mod_mod; lia.
Qed.

Lemma flip_mod s a : 0 < s -> (s - 1 - a) mod s = s - 1 - a mod s.
Proof.
  intros P. pose proof (Z.mod_pos_bound a s P) as M. pose proof (Z.div_mod a s ltac:(lia)) as D.
  symmetry. apply Z.mod_unique_pos with (q := - (a / s)); [lia|]. nia.
Qed.

Lemma rotate_mod s tx ty rx ry : 0 < s ->
  (fst (rotate s tx ty rx ry) mod s, snd (rotate s tx ty rx ry) mod s) = rotate s (tx mod s) (ty mod s) rx ry.
Proof. intros P. unfold rotate. destruct ry, rx; cbn [fst snd]; rewrite ?flip_mod by exact P; reflexivity. Qed.

Lemma enc_loop_spec k : forall tx ty d,
  enc_loop k tx ty d = d + enc k (tx mod 2 ^ Z.of_nat k) (ty mod 2 ^ Z.of_nat k).
Proof.
  induction k as [|k IH]; intros tx ty d; [cbn; lia|].
  cbn [enc_loop enc]. set (s := 2 ^ Z.of_nat k). pose proof (pow2_pos k) as P. fold s in P.
  destruct (bit_code_spec tx k) as [Bx Mx]. destruct (bit_code_spec ty k) as [By My]. fold s in Bx, Mx, By, My.
  rewrite <- Bx, <- By, Mx, My.
  set (rx := 0 <? Z.land tx s). set (ry := 0 <? Z.land ty s).
  pose proof (rotate_mod s tx ty rx ry P) as R.
  destruct (rotate s tx ty rx ry) as [tx' ty']. cbn [fst snd] in R. rewrite <- R.
  rewrite IH. fold s. lia.
Qed.

Lemma pow4 n : 4 ^ Z.of_nat n = 2 ^ Z.of_nat n * 2 ^ Z.of_nat n.
Proof. change 4 with (2 * 2). apply Z.pow_mul_l. Qed.

Lemma digit_low t : 0 <= t -> digit (t mod 4) = (Z.odd (t / 2), Z.odd (Z.lxor t (b2z (Z.odd (t / 2))))).
Proof.
  intros Ht. unfold digit.
  pose proof (Z.div_mod t 4 ltac:(lia)) as D. pose proof (Z.mod_pos_bound t 4 ltac:(lia)) as M.
  set (r := t mod 4) in *. set (a := t / 4) in *.
  assert (E1 : Z.odd (t / 2) = Z.odd (r / 2)).
  { rewrite D. replace (4 * a + r) with (r + (2 * a) * 2) by lia. rewrite Z.div_add by lia. rewrite Z.odd_add_mul_2. reflexivity. }
  assert (E2 : forall b, Z.odd (Z.lxor t b) = Z.odd (Z.lxor r b)).
  { intros b. rewrite <- !Z.bit0_odd, !Z.lxor_spec, !Z.bit0_odd. f_equal. rewrite D. replace (4 * a + r) with (r + 2 * (2 * a)) by lia. apply Z.odd_add_mul_2. }
  rewrite E1, E2. reflexivity.
Qed.

Lemma dec_loop_spec k : forall i u t, 0 <= u < 2 ^ Z.of_nat i * 2 ^ Z.of_nat i -> 0 <= t ->
  dec_loop k (2 ^ Z.of_nat i) t (fst (dec i u)) (snd (dec i u)) = dec (i + k) (u + 2 ^ Z.of_nat i * 2 ^ Z.of_nat i * t).
Proof.
  induction k as [|k IH]; intros i u t Hu Ht.
  - cbn [dec_loop]. rewrite Nat.add_0_r. 
    (* t may carry higher digits that dec i ignores only if they are absent: with k = 0 the loop has consumed them *)
    destruct (dec i u) as [a b] eqn:E. cbn [fst snd].
    (* dec i (u + S*S*t) for t >= 0: dec i reads t mod (S*S) at the top only through lower levels; we show it by a helper below *)
    revert E. revert a b. 
    assert (G : forall j v w, 0 <= v < 2 ^ Z.of_nat j * 2 ^ Z.of_nat j -> dec j (v + 2 ^ Z.of_nat j * 2 ^ Z.of_nat j * w) = dec j v).
    { clear. induction j as [|j IHj]; intros v w Hv; [reflexivity|].
      cbn [dec]. set (s := 2 ^ Z.of_nat j). pose proof (pow2_pos j) as P. fold s in P.
      rewrite Nat2Z.inj_succ, Z.pow_succ_r in Hv |- * by lia. fold s in Hv |- *.
      assert (E1 : (v + 2 * s * (2 * s) * w) mod (s * s) = v mod (s * s)).
      { replace (v + 2 * s * (2 * s) * w) with (v + (4 * w) * (s * s)) by lia. apply Z.mod_add; nia. }
      assert (E2 : digit ((v + 2 * s * (2 * s) * w) / (s * s)) = digit (v / (s * s))).
      { replace (v + 2 * s * (2 * s) * w) with (v + (4 * w) * (s * s)) by lia. rewrite Z.div_add by nia.
        unfold digit.
        assert (O1 : Z.odd ((v / (s * s) + 4 * w) / 2) = Z.odd (v / (s * s) / 2)).
        { replace (v / (s * s) + 4 * w) with (v / (s * s) + (2 * w) * 2) by lia. rewrite Z.div_add by lia. apply Z.odd_add_mul_2. }
        rewrite O1. f_equal. rewrite <- !Z.bit0_odd, !Z.lxor_spec, !Z.bit0_odd. f_equal.
        replace (v / (s * s) + 4 * w) with (v / (s * s) + 2 * (2 * w)) by lia. apply Z.odd_add_mul_2. }
      rewrite E1, E2. reflexivity. }
    intros a b E. rewrite G by exact Hu. exact (eq_sym E).
  - cbn [dec_loop]. set (s := 2 ^ Z.of_nat i) in *. pose proof (pow2_pos i) as P. fold s in P.
    set (rx := Z.odd (t / 2)). set (ry := Z.odd (Z.lxor t (b2z rx))).
    pose proof (Z.div_mod t 4 ltac:(lia)) as D. pose proof (Z.mod_pos_bound t 4 ltac:(lia)) as M.
    set (u' := u + s * s * (t mod 4)).
    assert (Hu' : 0 <= u' < 2 ^ Z.of_nat (S i) * 2 ^ Z.of_nat (S i)).
    { rewrite Nat2Z.inj_succ, Z.pow_succ_r by lia. fold s. unfold u'. nia. }
    assert (Ed : dec (S i) u' = (fst (rotate s (fst (dec i u)) (snd (dec i u)) rx ry) + (if rx then s else 0),
                                 snd (rotate s (fst (dec i u)) (snd (dec i u)) rx ry) + (if ry then s else 0))).
    { cbn [dec]. fold s.
      assert (E1 : u' mod (s * s) = u) by (unfold u'; replace (u + s * s * (t mod 4)) with (u + (t mod 4) * (s * s)) by lia; rewrite Z.mod_add by nia; apply Z.mod_small; lia).
      assert (E2 : u' / (s * s) = t mod 4) by (unfold u'; replace (u + s * s * (t mod 4)) with (u + (t mod 4) * (s * s)) by lia; rewrite Z.div_add by nia; rewrite Z.div_small by lia; lia).
      rewrite E1, E2, digit_low by exact Ht. fold rx ry.
      destruct (dec i u) as [px py]. cbn [fst snd].
      destruct (rotate s px py rx ry) as [qx qy]. cbn [fst snd].
      destruct rx, ry; cbn [b2z]; f_equal; lia. }
    destruct (rotate s (fst (dec i u)) (snd (dec i u)) rx ry) as [qx qy] eqn:ER. cbn [fst snd] in Ed.
    replace (2 * s) with (2 ^ Z.of_nat (S i)) by (rewrite Nat2Z.inj_succ, Z.pow_succ_r by lia; reflexivity).
    replace (qx + (if rx then s else 0)) with (fst (dec (S i) u')) by (rewrite Ed; reflexivity).
    replace (qy + (if ry then s else 0)) with (snd (dec (S i) u')) by (rewrite Ed; reflexivity).
    rewrite IH; [|exact Hu'|apply Z.div_pos; lia].
    replace (S i + k)%nat with (i + S k)%nat by lia. f_equal.
    rewrite Nat2Z.inj_succ, Z.pow_succ_r by lia. fold s. unfold u'. lia.
Qed.

(* ---------- levels ---------- *)
Lemma zoom_acc_le a b : (a <= b)%nat -> zoom_acc a <= zoom_acc b.
Proof.
  induction 1 as [|b H IH]; [lia|]. cbn [zoom_acc]. pose proof (pow2_pos b). rewrite pow4. nia.
Qed.

Lemma find_level_spec fuel : forall tz z id, (tz <= z)%nat -> (z < tz + fuel)%nat ->
  zoom_acc z <= id < zoom_acc z + 4 ^ Z.of_nat z ->
  find_level fuel tz (zoom_acc tz) id = Some (z, id - zoom_acc z).
Proof.
  induction fuel as [|f IH]; intros tz z id H1 H2 H3; [lia|].
  cbn [find_level]. destruct (Nat.eq_dec tz z) as [->|Hne].
  - replace (id <? zoom_acc z + 4 ^ Z.of_nat z) with true by (symmetry; apply Z.ltb_lt; lia). reflexivity.
  - assert (Hle : zoom_acc (S tz) <= zoom_acc z) by (apply zoom_acc_le; lia). cbn [zoom_acc] in Hle.
    replace (id <? zoom_acc tz + 4 ^ Z.of_nat tz) with false by (symmetry; apply Z.ltb_ge; lia).
    change (zoom_acc tz + 4 ^ Z.of_nat tz) with (zoom_acc (S tz)). apply IH; lia.
Qed.

Theorem tile_id_roundtrip z x y : (z < 32)%nat -> 0 <= x < 2 ^ Z.of_nat z -> 0 <= y < 2 ^ Z.of_nat z ->
  exists id, coord_to_tile_id x y z = Some id /\ tile_id_to_coord id = Some (z, x, y).
Proof.
  intros Hz Hx Hy. exists (zoom_acc z + enc_loop z x y 0). split.
  - unfold coord_to_tile_id. replace (32 <=? z)%nat with false by (symmetry; apply Nat.leb_gt; lia).
    replace (2 ^ Z.of_nat z <=? x) with false by (symmetry; apply Z.leb_gt; lia).
    replace (2 ^ Z.of_nat z <=? y) with false by (symmetry; apply Z.leb_gt; lia). reflexivity.
  - rewrite enc_loop_spec, !Z.mod_small by lia. cbn [Z.add].
    pose proof (enc_range z x y) as E. rewrite <- pow4 in E.
    unfold tile_id_to_coord. change 0 with (zoom_acc 0) at 1.
    rewrite (find_level_spec 32 0 z) by lia.
    replace (zoom_acc z + enc z x y - zoom_acc z) with (enc z x y) by lia.
    pose proof (dec_loop_spec z 0 0 (enc z x y) ltac:(cbn; lia) ltac:(lia)) as L.
    cbn [dec fst snd Nat.add] in L. change (2 ^ Z.of_nat 0) with 1 in L.
    rewrite L. replace (0 + 1 * 1 * enc z x y) with (enc z x y) by lia.
    rewrite dec_enc by lia. reflexivity.
Qed.

(* distinct coordinates get distinct ids *)
Corollary tile_id_injective z1 x1 y1 z2 x2 y2 id :
  (z1 < 32)%nat -> 0 <= x1 < 2 ^ Z.of_nat z1 -> 0 <= y1 < 2 ^ Z.of_nat z1 ->
  (z2 < 32)%nat -> 0 <= x2 < 2 ^ Z.of_nat z2 -> 0 <= y2 < 2 ^ Z.of_nat z2 ->
  coord_to_tile_id x1 y1 z1 = Some id -> coord_to_tile_id x2 y2 z2 = Some id -> (z1, x1, y1) = (z2, x2, y2).
Proof.
  intros A1 A2 A3 B1 B2 B3 E1 E2.
  destruct (tile_id_roundtrip z1 x1 y1 A1 A2 A3) as (i1 & F1 & G1).
  destruct (tile_id_roundtrip z2 x2 y2 B1 B2 B3) as (i2 & F2 & G2).
  congruence.
Qed.
