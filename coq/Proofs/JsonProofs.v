(* C17: parse_string (quote (escape s)) = s for every list of scalar values. *)
From Coq Require Import List NArith ZArith Bool Lia ZifyBool ZifyN.
From VT Require Import Model.Json.
Import ListNotations.
Local Open Scope N_scope.

Lemma hexdig_spec n : n < 16 -> hexdig n < 128 /\ hexval (hexdig n) = Some n.
Proof.
  intros H. unfold hexdig, hexval. destruct (n <? 10) eqn:E.
  - split; [lia|]. destruct ((48 <=? 48 + n) && (48 + n <=? 57)) eqn:E1; [f_equal; lia | lia].
  - split; [lia|]. destruct ((48 <=? 87 + n) && (87 + n <=? 57)) eqn:E1; [lia|].
    destruct ((97 <=? 87 + n) && (87 + n <=? 102)) eqn:E2; [f_equal; lia | lia].
Qed.

Lemma utf8_len_ascii c : c < 128 -> utf8_len c = 1.
Proof. intros H. unfold utf8_len. destruct (c <? 128) eqn:E; [reflexivity | lia]. Qed.

Lemma hex_step1 v k val bytes acc d n l : d < 128 -> hexval d = Some n -> bytes + 1 <= 4 ->
  pstr v (SHex k val bytes) acc (d :: l) =
  match k with
  | S (S k') => pstr v (SHex (S k') (val * 16 + n) (bytes + 1)) acc l
  | _ => let u := val * 16 + n in if (55296 <=? u) && (u <=? 57343) then JErr else pstr v SNorm (acc ++ [u]) l
  end.
Proof.
  intros Hd Hh Hb. cbn [pstr]. rewrite (utf8_len_ascii _ Hd), Hh.
  destruct (v =? 0); cbn [andb]; [destruct (4 <? bytes + 1) eqn:E; [lia|]|]; reflexivity.
Qed.

Lemma norm_bs v acc l : pstr v SNorm acc (92 :: l) = pstr v SEsc acc l.
Proof. reflexivity. Qed.

Lemma esc_u v acc l : pstr v SEsc acc (117 :: l) = pstr v (SHex 4 0 0) acc l.
Proof. cbn [pstr]. now rewrite N.eqb_refl. Qed.

(* four hex digits after \u decode to their value (both variants: an all-ASCII window never panics) *)
Lemma hex_unroll v acc d1 d2 d3 d4 n1 n2 n3 n4 tail :
  d1 < 128 -> d2 < 128 -> d3 < 128 -> d4 < 128 ->
  hexval d1 = Some n1 -> hexval d2 = Some n2 -> hexval d3 = Some n3 -> hexval d4 = Some n4 ->
  let u := ((n1 * 16 + n2) * 16 + n3) * 16 + n4 in
  (55296 <=? u) && (u <=? 57343) = false ->
  pstr v SEsc acc (117 :: d1 :: d2 :: d3 :: d4 :: tail) = pstr v SNorm (acc ++ [u]) tail.
Proof.
  intros L1 L2 L3 L4 H1 H2 H3 H4 u Hu.
  rewrite esc_u.
  rewrite (hex_step1 v 4 0 0 acc d1 n1 _ L1 H1) by lia.
  rewrite (hex_step1 v 3 _ _ acc d2 n2 _ L2 H2) by lia.
  rewrite (hex_step1 v 2 _ _ acc d3 n3 _ L3 H3) by lia.
  rewrite (hex_step1 v 1 _ _ acc d4 n4 _ L4 H4) by lia.
  cbv zeta. replace (((0 * 16 + n1) * 16 + n2) * 16 + n3) with ((n1 * 16 + n2) * 16 + n3) by lia.
  fold u. rewrite Hu. reflexivity.
Qed.

Lemma hex4_value c : c < 65536 ->
  ((((c / 4096) mod 16) * 16 + (c / 256) mod 16) * 16 + (c / 16) mod 16) * 16 + c mod 16 = c.
Proof.
  intros H.
  pose proof (N.div_mod c 16 ltac:(lia)). pose proof (N.div_mod (c / 16) 16 ltac:(lia)).
  pose proof (N.div_mod (c / 16 / 16) 16 ltac:(lia)).
  assert (c / 256 = c / 16 / 16) by (rewrite N.div_div by lia; reflexivity).
  assert (c / 4096 = c / 16 / 16 / 16) by (rewrite !N.div_div by lia; reflexivity).
  assert (c / 16 / 16 / 16 < 16) by (apply N.div_lt_upper_bound; [lia|]; apply N.div_lt_upper_bound; [lia|]; apply N.div_lt_upper_bound; lia).
  rewrite H3, H4. rewrite (N.mod_small (c / 16 / 16 / 16) 16) by lia. lia.
Qed.

Lemma esc_char_step v c acc tail : v = 0 \/ v = 1 -> c < 55296 \/ (57343 < c) ->
  pstr v SNorm acc (esc_char c ++ tail) = pstr v SNorm (acc ++ [c]) tail.
Proof.
  intros Hv Hc. unfold esc_char.
  destruct (c =? 34) eqn:E34; [apply N.eqb_eq in E34; subst; reflexivity|].
  destruct (c =? 92) eqn:E92; [apply N.eqb_eq in E92; subst; reflexivity|].
  destruct (c =? 10) eqn:E10; [apply N.eqb_eq in E10; subst; reflexivity|].
  destruct (c =? 13) eqn:E13; [apply N.eqb_eq in E13; subst; reflexivity|].
  destruct (c =? 9) eqn:E9; [apply N.eqb_eq in E9; subst; reflexivity|].
  destruct (c =? 8) eqn:E8; [apply N.eqb_eq in E8; subst; reflexivity|].
  destruct (c =? 12) eqn:E12; [apply N.eqb_eq in E12; subst; reflexivity|].
  destruct (is_control c) eqn:Ec.
  - (* \u00XX *)
    assert (Hc256 : c < 256) by (unfold is_control in Ec; lia).
    unfold hex4. cbn [app]. rewrite norm_bs.
    assert (A : (c / 4096) mod 16 < 16) by (apply N.mod_lt; lia).
    assert (B : (c / 256) mod 16 < 16) by (apply N.mod_lt; lia).
    assert (C : (c / 16) mod 16 < 16) by (apply N.mod_lt; lia).
    assert (D : c mod 16 < 16) by (apply N.mod_lt; lia).
    destruct (hexdig_spec _ A) as [A1 A2]. destruct (hexdig_spec _ B) as [B1 B2].
    destruct (hexdig_spec _ C) as [C1 C2]. destruct (hexdig_spec _ D) as [D1 D2].
    rewrite (hex_unroll v acc _ _ _ _ _ _ _ _ tail A1 B1 C1 D1 A2 B2 C2 D2).
    + rewrite hex4_value by lia. reflexivity.
    + rewrite hex4_value by lia. lia.
  - cbn [app pstr]. rewrite E34, E92. reflexivity.
Qed.

Definition scalar (c : N) : Prop := c < 55296 \/ (57343 < c /\ c < 1114112).

Lemma escape_roundtrip v s : v = 0 \/ v = 1 -> Forall scalar s ->
  forall acc tail, pstr v SNorm acc (escape s ++ 34 :: tail) = JOk (acc ++ s) tail.
Proof.
  intros Hv Hs. induction Hs as [|c r Hc _ IH]; intros acc tail; cbn [escape flat_map app].
  - cbn [pstr]. rewrite N.eqb_refl. now rewrite app_nil_r.
  - rewrite <- app_assoc. rewrite (esc_char_step v c acc _ Hv) by (unfold scalar in Hc; lia).
    fold (escape r). rewrite IH. now rewrite <- app_assoc.
Qed.

(* the string round trip: every string of Unicode scalar values, whatever follows the closing quote *)
Theorem string_roundtrip v s tail : v = 0 \/ v = 1 -> Forall scalar s ->
  parse_string v (quote s ++ tail) = JOk s tail.
Proof.
  intros Hv Hs. unfold parse_string, quote. cbn [app]. rewrite <- app_assoc. cbn [app].
  exact (escape_roundtrip v s Hv Hs [] tail).
Qed.

(* the pinned source panics for \u followed by a window that cuts a multi-byte character *)
Lemma hex_window_panics_v0 : parse_string 0 [34; 92; 117; 48; 48; 48; 233; 34] = JPanic.
Proof. reflexivity. Qed.
Lemma hex_window_err_v1 : parse_string 1 [34; 92; 117; 48; 48; 48; 233; 34] = JErr.
Proof. reflexivity. Qed.

(* ---------- values ---------- *)
Fixpoint vsize (v : value) : nat :=
  match v with
  | VArr l => (1 + fold_right (fun x a => S (vsize x) + a) 0 l)%nat
  | VObj l => (2 + fold_right (fun kv a => S (vsize (snd kv)) + a) 0 l)%nat
  | _ => 1%nat
  end.

(* number literals as f64 Display prints finite numbers: -?digits(.digits)? *)
Definition all_digits (l : str) : Prop := l <> [] /\ Forall (fun c => is_dig c = true) l.
Definition num_lit (l : str) : Prop :=
  exists sign ds frac, l = sign ++ ds ++ frac /\ (sign = [] \/ sign = [45]) /\ all_digits ds
                       /\ (frac = [] \/ exists fd, frac = 46 :: fd /\ all_digits fd).

Fixpoint good (v : value) : Prop :=
  match v with
  | VStr s => Forall scalar s
  | VNum lit => num_lit lit
  | VBool _ | VNull => True
  | VArr l => (fix all (l : list value) : Prop := match l with [] => True | x :: r => good x /\ all r end) l
  | VObj l => (fix all (l : list (str * value)) : Prop := match l with [] => True | kv :: r => Forall scalar (fst kv) /\ good (snd kv) /\ all r end) l
  end.

Definition tail_ok (t : str) : Prop := match t with [] => True | c :: _ => c = 44 \/ c = 93 \/ c = 125 end.

Lemma take_digits_all ds t : Forall (fun c => is_dig c = true) ds -> (match t with [] => True | c :: _ => is_dig c = false end) ->
  take_digits (ds ++ t) = (ds, t).
Proof.
  induction 1 as [|c r Hc _ IH]; intros Ht; cbn [app take_digits].
  - destruct t as [|c t']; [reflexivity|]. cbn [take_digits]. now rewrite Ht.
  - rewrite Hc, (IH Ht). reflexivity.
Qed.

Lemma tail_ok_nodigit t : tail_ok t -> match t with [] => True | c :: _ => is_dig c = false end.
Proof. destruct t as [|c t]; [auto|]. cbn. intros [->|[->| ->]]; reflexivity. Qed.

Lemma tail_ok_frac t : tail_ok t -> take_frac t = Some ([], t).
Proof. destruct t as [|c t]; [reflexivity|]. cbn. intros [->|[->| ->]]; reflexivity. Qed.
Lemma tail_ok_exp t : tail_ok t -> take_exp t = Some ([], t).
Proof. destruct t as [|c t]; [reflexivity|]. cbn. intros [->|[->| ->]]; reflexivity. Qed.

Lemma scan_number_lit lit t : num_lit lit -> tail_ok t -> scan_number (lit ++ t) = JOk lit t.
Proof.
  intros (sign & ds & frac & -> & Hs & (Hne & Hds) & Hf) Ht.
  pose proof (tail_ok_nodigit t Ht) as Hnd.
  assert (Hd0 : exists d0 dr, ds = d0 :: dr /\ is_dig d0 = true).
  { destruct ds as [|d0 dr]; [congruence|]. inversion Hds; subst. eauto. }
  destruct Hd0 as (d0 & dr & -> & Hd0).
  unfold scan_number.
  assert (Hsign : take_sign ((sign ++ (d0 :: dr) ++ frac) ++ t) = (sign, ((d0 :: dr) ++ frac) ++ t)).
  { destruct Hs as [->| ->]; cbn [app take_sign].
    - assert (is_sign d0 = false) as -> by (unfold is_sign, is_dig in *; lia). reflexivity.
    - reflexivity. }
  rewrite Hsign.
  destruct Hf as [->|(fd & -> & (Hfne & Hfd))].
  - rewrite app_nil_r. rewrite (take_digits_all (d0 :: dr) t Hds Hnd).
    rewrite (tail_ok_frac t Ht), (tail_ok_exp t Ht). rewrite !app_nil_r. reflexivity.
  - assert (Hnd2 : match (46 :: fd) ++ t with [] => True | c :: _ => is_dig c = false end) by reflexivity.
    rewrite <- app_assoc. rewrite (take_digits_all (d0 :: dr) ((46 :: fd) ++ t) Hds Hnd2).
    cbn [app take_frac N.eqb Pos.eqb]. rewrite (take_digits_all fd t Hfd Hnd).
    destruct fd as [|f0 fr]; [congruence|].
    rewrite (tail_ok_exp t Ht). rewrite !app_nil_r. reflexivity.
Qed.

Lemma expect_tag_app tag t : expect_tag tag (tag ++ t) = Some t.
Proof. induction tag as [|c r IH]; cbn [expect_tag app]; [reflexivity|]. now rewrite N.eqb_refl. Qed.

Lemma join_two sep x y r : join sep (x :: y :: r) = x ++ sep ++ join sep (y :: r).
Proof. reflexivity. Qed.

Lemma join_cons sep x xs : join sep (x :: xs) = x ++ flat_map (fun y => sep ++ y) xs.
Proof.
  revert x. induction xs as [|y r IH]; intros x.
  - cbn. now rewrite app_nil_r.
  - rewrite join_two, IH. cbn [flat_map]. now rewrite <- app_assoc.
Qed.

(* the first character of a stringified value: never whitespace, never a closing bracket, and it
   selects the right branch of the parser *)
Definition head_ok (c : N) : Prop := is_ws c = false /\ c <> 93 /\ c <> 125 /\ c <> 44.
Lemma num_lit_head lit : num_lit lit -> exists c r, lit = c :: r /\ (is_dig c = true \/ c = 45).
Proof.
  intros (sign & ds & frac & -> & Hs & (Hne & Hds) & _).
  destruct Hs as [->| ->]; cbn [app].
  - destruct ds as [|d dr]; [congruence|]. inversion Hds; subst. exists d, (dr ++ frac). split; [reflexivity | now left].
  - exists 45, (ds ++ frac). split; [reflexivity | now right].
Qed.

Lemma stringify_head v : good v -> exists c r, stringify v = c :: r /\ head_ok c.
Proof.
  destruct v as [s|lit|[|]| |l|l]; cbn [stringify good]; intros G.
  - exists 34, (escape s ++ [34]). split; [reflexivity|]. unfold head_ok; cbn; repeat split; congruence.
  - destruct (num_lit_head _ G) as (c & r & -> & Hc). exists c, r. split; [reflexivity|].
    unfold head_ok, is_ws, is_dig in *. destruct Hc as [Hc| ->]; repeat split; try lia; congruence.
  - eexists _, _. split; [reflexivity|]. unfold head_ok; cbn; repeat split; congruence.
  - eexists _, _. split; [reflexivity|]. unfold head_ok; cbn; repeat split; congruence.
  - eexists _, _. split; [reflexivity|]. unfold head_ok; cbn; repeat split; congruence.
  - eexists _, _. split; [reflexivity|]. unfold head_ok; cbn; repeat split; congruence.
  - eexists _, _. split; [reflexivity|]. unfold head_ok; cbn; repeat split; congruence.
Qed.

Lemma skip_ws_head c r : is_ws c = false -> skip_ws (c :: r) = c :: r.
Proof. intros H. cbn [skip_ws]. now rewrite H. Qed.

Lemma skip_ws_stringify x t : good x -> skip_ws (stringify x ++ t) = stringify x ++ t.
Proof.
  intros G. destruct (stringify_head x G) as (c & rr & Ec & (Hws & _)). rewrite Ec. cbn [app]. now apply skip_ws_head.
Qed.

Lemma head_not_93 x t : good x -> head_is 93 (stringify x ++ t) = false.
Proof.
  intros G. destruct (stringify_head x G) as (c & rr & Ec & (_ & H93 & _)). rewrite Ec. cbn [app head_is].
  destruct (N.eqb_spec c 93); [congruence | reflexivity].
Qed.

Section ValueRoundTrip.
  Variable hv : N.
  Hypothesis Hhv : hv = 0 \/ hv = 1.

  Definition RT (v : value) : Prop :=
    good v -> forall fuel tail, (vsize v <= fuel)%nat -> tail_ok tail -> pval hv fuel (stringify v ++ tail) = JOk v tail.

  Lemma rt_leaf_branch (c : N) : True. Proof. exact I. Qed.

  (* remaining array elements *)
  Lemma parr_rt xs : Forall RT xs -> (fix all (l : list value) : Prop := match l with [] => True | x :: r => good x /\ all r end) xs ->
    forall fuel tail, (S (fold_right (fun x a => (S (vsize x) + a)%nat) 0%nat xs) <= fuel)%nat ->
      parr hv fuel (flat_map (fun y => [44] ++ y) (map stringify xs) ++ 93 :: tail) = JOk xs tail.
  Proof.
    induction 1 as [|x r Hx _ IH]; intros G fuel tail Hf; cbn [map flat_map fold_right app] in *.
    - destruct fuel as [|f]; [lia|]. cbn [parr skip_ws]. reflexivity.
    - destruct G as [Gx Gr]. destruct fuel as [|f]; [lia|]. cbn [parr].
      rewrite skip_ws_head by reflexivity. rewrite <- app_assoc.
      rewrite (skip_ws_stringify x _ Gx).
      rewrite (Hx Gx f _ ltac:(lia)).
      + rewrite (IH Gr f tail ltac:(lia)). reflexivity.
      + destruct r as [|y r']; cbn; auto.
  Qed.

  Lemma pobj_rt kvs : Forall (fun kv => RT (snd kv)) kvs ->
    (fix all (l : list (str * value)) : Prop := match l with [] => True | kv :: r => Forall scalar (fst kv) /\ good (snd kv) /\ all r end) kvs ->
    forall fuel tail, (S (fold_right (fun kv a => (S (vsize (snd kv)) + a)%nat) 0%nat kvs) <= fuel)%nat ->
      pobj hv fuel (join [44] (map (fun kv => quote (fst kv) ++ [58] ++ stringify (snd kv)) kvs) ++ 125 :: tail) = JOk kvs tail.
  Proof.
    induction 1 as [|[k x] r Hx _ IH]; intros G fuel tail Hf; cbn [map fold_right fst snd] in *.
    - destruct fuel as [|f]; [lia|]. reflexivity.
    - destruct G as (Gk & Gx & Gr). destruct fuel as [|f]; [lia|].
      rewrite join_cons. cbn [pobj].
      assert (Hq : forall t, (quote k ++ [58] ++ stringify x) ++ t = 34 :: (escape k ++ [34]) ++ 58 :: stringify x ++ t).
      { intros t. unfold quote. cbn [app]. rewrite <- !app_assoc. reflexivity. }
      rewrite <- app_assoc. rewrite Hq. rewrite skip_ws_head by reflexivity.
      change (34 :: (escape k ++ [34]) ++ ?t) with (quote k ++ t).
      rewrite (string_roundtrip hv k _ Hhv Gk).
      rewrite skip_ws_head by reflexivity.
      rewrite (skip_ws_stringify x _ Gx).
      destruct r as [|kv2 r'].
      + cbn [map flat_map app]. rewrite (Hx Gx f (125 :: tail) ltac:(cbn in Hf; lia)) by (cbn; auto).
        cbn [skip_ws is_ws N.eqb Pos.eqb orb]. reflexivity.
      + cbn [map flat_map]. rewrite <- app_assoc. cbn [app].
        rewrite (Hx Gx f _ ltac:(cbn in Hf; lia)) by (cbn; auto).
        rewrite skip_ws_head by reflexivity.
        specialize (IH Gr f tail ltac:(cbn in Hf |- *; lia)). cbn [map] in IH. rewrite join_cons in IH.
        rewrite <- app_assoc in IH. cbn [app] in IH |- *. rewrite IH. reflexivity.
  Qed.

  Theorem value_roundtrip : forall v, RT v.
  Proof.
    fix IH 1. intros v G fuel tail Hf Ht. destruct fuel as [|f]; [destruct v; cbn in Hf; lia|].
    cbn [pval]. rewrite (skip_ws_stringify v tail G).
    destruct v as [s|lit|b| |l|l]; cbn [stringify good vsize] in *.
    - (* string *)
      unfold quote at 1 2. cbn [app N.eqb Pos.eqb].
      change (34 :: (escape s ++ [34]) ++ tail) with (quote s ++ tail).
      rewrite (string_roundtrip hv s tail Hhv G). reflexivity.
    - (* number *)
      destruct (num_lit_head _ G) as (c & r & E & Hc). rewrite E at 1. cbn [app].
      assert (c =? 91 = false /\ c =? 123 = false /\ c =? 34 = false) as (-> & -> & ->) by (unfold is_dig in *; destruct Hc as [Hc| ->]; repeat split; lia).
      assert (is_dig c || (c =? 46) || (c =? 45) = true) as -> by (destruct Hc as [-> | ->]; reflexivity).
      rewrite (scan_number_lit lit tail G Ht). reflexivity.
    - destruct b; cbn [app s_true s_false N.eqb Pos.eqb is_dig N.leb N.compare Pos.compare Pos.compare_cont andb orb].
      + change (116 :: 114 :: 117 :: 101 :: tail) with (s_true ++ tail). now rewrite expect_tag_app.
      + change (102 :: 97 :: 108 :: 115 :: 101 :: tail) with (s_false ++ tail). now rewrite expect_tag_app.
    - cbn [app s_null N.eqb Pos.eqb is_dig N.leb N.compare Pos.compare Pos.compare_cont andb orb].
      change (110 :: 117 :: 108 :: 108 :: tail) with (s_null ++ tail). now rewrite expect_tag_app.
    - (* array *)
      cbn [app N.eqb Pos.eqb].
      destruct l as [|x xs].
      + cbn [map join app skip_ws is_ws N.eqb Pos.eqb orb head_is tl]. reflexivity.
      + cbn [map]. rewrite join_cons. destruct G as [Gx Gxs].
        rewrite <- !app_assoc. rewrite (skip_ws_stringify x _ Gx).
        cbv zeta. rewrite (head_not_93 x _ Gx).
        cbn [fold_right] in Hf.
        rewrite (IH x Gx f _ ltac:(lia)).
        * assert (HF : Forall RT xs) by exact ((fix F (l : list value) : Forall RT l := match l with [] => Forall_nil _ | y :: ys => Forall_cons y (IH y) (F ys) end) xs).
          change ([93] ++ tail) with (93 :: tail). rewrite (parr_rt xs HF Gxs f tail ltac:(lia)). reflexivity.
        * destruct xs; cbn; auto.
    - (* object *)
      cbn [app N.eqb Pos.eqb].
      assert (HF : Forall (fun kv => RT (snd kv)) l) by exact ((fix F (l0 : list (str * value)) : Forall (fun kv => RT (snd kv)) l0 := match l0 with [] => Forall_nil _ | kv :: r => Forall_cons kv (IH (snd kv)) (F r) end) l).
      rewrite <- app_assoc. cbn [app].
      change (fun kv : str * value => quote (fst kv) ++ 58 :: stringify (snd kv)) with (fun kv : str * value => quote (fst kv) ++ [58] ++ stringify (snd kv)).
      rewrite (pobj_rt l HF G f tail ltac:(lia)). reflexivity.
  Qed.
End ValueRoundTrip.

(* ---------- the fuel of parse_json suffices for every printed value ---------- *)
Lemma join_len_ge sep (l : list str) : (fold_right (fun x a => length x + a) 0 l <= length (join sep l))%nat.
Proof.
  induction l as [|x r IH]; [cbn; lia|]. destruct r as [|y r']; [cbn; lia|].
  change (join sep (x :: y :: r')) with (x ++ sep ++ join sep (y :: r')). rewrite !app_length. cbn [fold_right] in *. lia.
Qed.

Lemma quote_len s : (2 <= length (quote s))%nat.
Proof. unfold quote. cbn [length]. rewrite app_length. cbn. lia. Qed.

Lemma vsize_le_length : forall v, good v -> (vsize v <= length (stringify v))%nat.
Proof.
  fix IH 1. intros v G. destruct v as [s|lit|b| |l|l].
  - cbn [vsize stringify]. pose proof (quote_len s). lia.
  - cbn [vsize stringify]. cbn [good] in G. destruct G as (sg & ds & fr & -> & _ & (Hne & _) & _). rewrite !app_length. destruct ds; [congruence|cbn; lia].
  - destruct b; cbn; lia.
  - cbn; lia.
  - cbn [vsize stringify]. rewrite !app_length. cbn [length].
    assert (H : (fold_right (fun x a => S (vsize x) + a) 0 l <= length (join [44%N] (map stringify l)) + 1)%nat).
    { cbn [good] in G.
      assert (H1 : (fold_right (fun x a => vsize x + a) 0 l <= fold_right (fun x a => length x + a) 0 (map stringify l))%nat).
      { induction l as [|x r IHr]; [cbn; lia|]. destruct G as [Gx Gr]. cbn [map fold_right]. specialize (IH x Gx). specialize (IHr Gr). lia. }
      pose proof (join_len_ge [44%N] (map stringify l)) as H2.
      assert (H3 : (fold_right (fun x a => S (vsize x) + a) 0 l = length l + fold_right (fun x a => vsize x + a) 0 l)%nat) by (clear; induction l as [|x r IHr]; cbn [fold_right length]; lia).
      (* each separator pays for one element beyond the first *)
      assert (H4 : (length l + fold_right (fun x a => length x + a) 0 (map stringify l) <= length (join [44%N] (map stringify l)) + 1)%nat).
      { clear. induction l as [|x r IHr]; [cbn; lia|]. destruct r as [|y r']; [cbn; lia|].
        change (join [44%N] (map stringify (x :: y :: r'))) with (stringify x ++ [44%N] ++ join [44%N] (map stringify (y :: r'))).
        rewrite !app_length. cbn [length map fold_right] in *. lia. }
      lia. }
    lia.
  - cbn [vsize stringify]. rewrite !app_length. cbn [length].
    set (f := fun kv : str * value => quote (fst kv) ++ [58%N] ++ stringify (snd kv)).
    assert (H : (fold_right (fun kv a => S (vsize (snd kv)) + a) 0 l <= length (join [44%N] (map f l)))%nat).
    { cbn [good] in G.
      assert (H1 : (fold_right (fun kv a => S (vsize (snd kv)) + a) 0 l <= fold_right (fun x a => length x + a) 0 (map f l))%nat).
      { induction l as [|kv r IHr]; [cbn; lia|]. destruct G as (_ & Gx & Gr). cbn [map fold_right]. specialize (IH (snd kv) Gx). specialize (IHr Gr).
        unfold f at 1. rewrite !app_length. pose proof (quote_len (fst kv)). cbn [length]. lia. }
      pose proof (join_len_ge [44%N] (map f l)). lia. }
    lia.
Qed.

(* parse_json (fuel = length of the text + 1) reads back every printed value completely *)
Theorem parse_json_stringify v : good v -> parse_json 1 (stringify v) = JOk v [].
Proof.
  intros G. unfold parse_json. rewrite <- (app_nil_r (stringify v)) at 2.
  apply value_roundtrip; [right; reflexivity|exact G| |exact I].
  pose proof (vsize_le_length v G). lia.
Qed.
