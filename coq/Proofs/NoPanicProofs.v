(* C19: the modelled decoders are total functions whose outcome is a value or an error - never the
   Panic / Overflow outcome - on EVERY input, with the variants regenerated from the current source. *)
From Coq Require Import List NArith ZArith Bool Lia.
From VT Require Import Base.Outcome Model.MVT Model.Json Model.PMDir.
Import ListNotations.
Local Open Scope N_scope.

(* ---------- JSON ---------- *)
Lemma pstr_no_panic st acc l : pstr 1 st acc l <> JPanic.
Proof.
  revert st acc; induction l as [|c r IH]; intros st acc; [destruct st; discriminate|].
  destruct st as [| |k v b]; cbn [pstr].
  - destruct (c =? 34); [discriminate|]. destruct (c =? 92); apply IH.
  - destruct (c =? 117); apply IH.
  - change (1 =? 0) with false. cbn [andb].
    destruct (hexval c) as [d|]; [|discriminate].
    destruct k as [|[|k']]; try (destruct ((55296 <=? v * 16 + d) && (v * 16 + d <=? 57343)); [discriminate|apply IH]).
    apply IH.
Qed.

Lemma parse_string_no_panic l : parse_string 1 l <> JPanic.
Proof. unfold parse_string. destruct l as [|c r]; [discriminate|]. destruct c as [|p]; [discriminate|]. repeat (destruct p; try discriminate). apply pstr_no_panic. Qed.

Lemma scan_number_no_panic l : scan_number l <> JPanic.
Proof.
  unfold scan_number. repeat match goal with |- context [match ?x with _ => _ end] => destruct x end; discriminate.
Qed.

Ltac np IH1 IH2 IH3 :=
  repeat match goal with
  | |- JOk _ _ <> JPanic => discriminate
  | |- JErr <> JPanic => discriminate
  | |- (if ?b then _ else _) <> JPanic => destruct b
  | |- match pval 1 ?f ?x with _ => _ end <> JPanic => let E := fresh "E" in destruct (pval 1 f x) eqn:E; [|discriminate|exfalso; exact (IH1 _ E)]
  | |- match parr 1 ?f ?x with _ => _ end <> JPanic => let E := fresh "E" in destruct (parr 1 f x) eqn:E; [|discriminate|exfalso; exact (IH2 _ E)]
  | |- match pobj 1 ?f ?x with _ => _ end <> JPanic => let E := fresh "E" in destruct (pobj 1 f x) eqn:E; [|discriminate|exfalso; exact (IH3 _ E)]
  | |- match parse_string 1 ?x with _ => _ end <> JPanic => let E := fresh "E" in destruct (parse_string 1 x) eqn:E; [|discriminate|exfalso; exact (parse_string_no_panic _ E)]
  | |- match scan_number ?x with _ => _ end <> JPanic => let E := fresh "E" in destruct (scan_number x) eqn:E; [|discriminate|exfalso; exact (scan_number_no_panic _ E)]
  | |- match expect_tag ?a ?b with _ => _ end <> JPanic => destruct (expect_tag a b)
  end.

Lemma json_no_panic_fuel f :
  (forall l, pval 1 f l <> JPanic) /\ (forall l, parr 1 f l <> JPanic) /\ (forall l, pobj 1 f l <> JPanic).
Proof.
  induction f as [|f (IH1 & IH2 & IH3)]; [repeat split; intros l; discriminate|].
  repeat split; intros l.
  - cbn [pval]. destruct (skip_ws l) as [|c r] eqn:El; [discriminate|]. np IH1 IH2 IH3.
  - cbn [parr]. destruct (skip_ws l) as [|c r]; [discriminate|].
    destruct c as [|p]; [discriminate|]. repeat (destruct p; try discriminate); np IH1 IH2 IH3.
  - cbn [pobj]. destruct (skip_ws l) as [|c r]; [discriminate|].
    destruct c as [|p]; [discriminate|]. repeat (destruct p; try discriminate); np IH1 IH2 IH3.
    + destruct (skip_ws rest) as [|c2 r2]; [discriminate|]. destruct c2 as [|p2]; [discriminate|]. repeat (destruct p2; try discriminate). np IH1 IH2 IH3.
      destruct (skip_ws rest0) as [|c3 r3]; [discriminate|]. destruct c3 as [|p3]; [discriminate|]. repeat (destruct p3; try discriminate); np IH1 IH2 IH3.
Qed.

Theorem parse_json_no_panic l : parse_json 1 l <> JPanic.
Proof. unfold parse_json. apply json_no_panic_fuel. Qed.

(* ---------- PMTiles directories ---------- *)
Definition soft {A} (o : outcome A) : Prop := match o with Ok _ | Err => True | _ => False end.

Lemma read_ids_soft fuel : forall count last l, soft (read_ids 1 fuel count last l).
Proof.
  induction fuel as [|f IH]; intros count last l; cbn [read_ids].
  - destruct (count =? 0); exact I.
  - destruct (count =? 0); [exact I|]. destruct (read_varint l) as [[d r]|]; [|exact I].
    destruct (two64 <=? last + d); [exact I|]. specialize (IH (count - 1) (last + d) r).
    destruct (read_ids 1 f (count - 1) (last + d) r); cbn; try exact I; exact IH.
Qed.

Lemma read_offsets_soft fuel : forall prev lens l, soft (read_offsets 1 fuel prev lens l).
Proof.
  induction fuel as [|f IH]; intros prev lens l; destruct lens as [|len lr]; cbn [read_offsets]; try exact I.
  destruct (read_varint l) as [[tmp r]|]; [|exact I].
  assert (G : forall off, soft (omap (cons off) (read_offsets 1 f (Some (off, len)) lr r))).
  { intros off. specialize (IH (Some (off, len)) lr r). destruct (read_offsets 1 f (Some (off, len)) lr r); cbn; try exact I; exact IH. }
  destruct prev as [[po pl]|]; destruct (tmp =? 0); try destruct (two64 <=? po + pl); cbn [obind ovf N.eqb Pos.eqb]; try exact I; apply G.
Qed.

Theorem deserialize_soft l : soft (deserialize 1 l).
Proof.
  unfold deserialize. destruct (read_varint l) as [[count r0]|]; [|exact I].
  destruct (10000000000 <? count); [exact I|].
  pose proof (read_ids_soft (length l) count 0 r0) as S1.
  destruct (read_ids 1 (length l) count 0 r0) as [[ids r1]| | |]; cbn [obind]; try exact I; try exact S1.
  destruct (read_n (length l) count r1) as [[runs r2]|]; [|exact I].
  destruct (read_n (length l) count r2) as [[lens r3]|]; [|exact I].
  pose proof (read_offsets_soft (length l) None lens r3) as S2.
  destruct (read_offsets 1 (length l) None lens r3); cbn [obind]; try exact I; exact S2.
Qed.

(* find_tile on ANY directory (sorted or not): indices stay inside the entry list, the loop ends *)
Lemma find_loop_total es t : forall fuel m n,
  (0 <= m)%Z -> (n < Z.of_nat (length es))%Z -> (Z.max 0 (n - m + 1) < Z.of_nat fuel)%Z ->
  exists r, find_loop 1 fuel es m n t = Ok r.
Proof.
  induction fuel as [|f IH]; intros m n Hm Hn Hf; [lia|].
  cbn [find_loop]. destruct (Z.leb_spec m n) as [Hmn|Hmn].
  - rewrite Z.shiftr_div_pow2 by lia. change (2 ^ 1)%Z with 2%Z.
    set (k := ((n + m) / 2)%Z).
    assert (Hk : (m <= k <= n)%Z) by (unfold k; split; [apply Z.div_le_lower_bound|apply Z.div_le_upper_bound]; lia).
    clearbody k. rewrite Nat2Z.inj_succ in Hf.
    destruct (nth_error es (Z.to_nat k)) as [e|] eqn:Ek; [|apply nth_error_None in Ek; lia].
    destruct (e_id e <? t); [apply IH; lia|]. destruct (t <? e_id e); [apply IH; lia|]. eexists; reflexivity.
  - destruct (Z.leb_spec 0 n) as [Hn0|Hn0]; [|eexists; reflexivity].
    destruct (nth_error es (Z.to_nat n)) as [e|] eqn:En; [|apply nth_error_None in En; lia].
    destruct (e_run e =? 0); [eexists; reflexivity|]. destruct (t <? e_id e); [eexists; reflexivity|].
    destruct (t - e_id e <? e_run e); eexists; reflexivity.
Qed.

Theorem find_tile_total es t : exists r, find_tile 1 es t = Ok r.
Proof. unfold find_tile. apply find_loop_total; lia. Qed.

(* the lookup through the directory levels never fails hard when reading a leaf does not *)
Theorem pm_lookup_soft depth leaf : (forall o l, soft (leaf o l)) -> forall dir t, soft (pm_lookup 1 depth leaf dir t).
Proof.
  intros Hl. induction depth as [|d IH]; intros dir t; [exact I|].
  cbn [pm_lookup]. destruct (find_tile_total dir t) as (r & ->). cbn [obind].
  destruct r as [e|]; [|exact I]. destruct (0 <? e_len e); [|exact I]. destruct (0 <? e_run e); [exact I|].
  specialize (Hl (e_off e) (e_len e)). destruct (leaf (e_off e) (e_len e)); cbn [obind]; try exact I; try exact Hl. apply IH.
Qed.
