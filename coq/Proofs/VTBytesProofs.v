(* C01 / C16 / C19: the versatiles v02 block definition and tile index at byte level. *)
From Coq Require Import List NArith ZArith Arith Lia Bool ZifyBool ZifyN.
From VT Require Import Base.Outcome Model.VTBytes Proofs.NoPanicProofs.
Import ListNotations.
Local Open Scope N_scope.

(* ---------- big-endian integers ---------- *)
Lemma be_length n v : length (be_bytes n v) = n.
Proof. induction n as [|k IH]; [reflexivity|]. cbn [be_bytes length]. rewrite IH. reflexivity. Qed.

Lemma be_bytes_lt n v : Forall (fun b => b < 256) (be_bytes n v).
Proof. induction n as [|k IH]; [constructor|]. cbn [be_bytes]. constructor; [apply N.mod_lt; lia|exact IH]. Qed.

Lemma rd_acc l : forall acc, fold_left (fun a b => a * 256 + b) l acc = acc * 256 ^ N.of_nat (length l) + fold_left (fun a b => a * 256 + b) l 0.
Proof.
  induction l as [|b r IH]; intros acc; [cbn; lia|]. cbn [fold_left length].
  rewrite (IH (acc * 256 + b)), (IH (0 * 256 + b)). rewrite Nat2N.inj_succ, N.pow_succ_r'. lia.
Qed.

Lemma rd_be_cons b r : rd_be (b :: r) = b * 256 ^ N.of_nat (length r) + rd_be r.
Proof. unfold rd_be. cbn [fold_left]. rewrite rd_acc. lia. Qed.

Lemma rd_be_bytes n : forall v, rd_be (be_bytes n v) = v mod 256 ^ N.of_nat n.
Proof.
  induction n as [|k IH]; intros v; [cbn; rewrite N.mod_1_r; reflexivity|].
  cbn [be_bytes]. rewrite rd_be_cons, be_length, IH.
  rewrite Nat2N.inj_succ, N.pow_succ_r', (N.mul_comm 256).
  rewrite N.mod_mul_r by (try apply N.pow_nonzero; lia). lia.
Qed.

Lemma rd_be_lt l : Forall (fun b => b < 256) l -> rd_be l < 256 ^ N.of_nat (length l).
Proof.
  induction l as [|b r IH]; intros H; [cbn; lia|]. inversion H as [|? ? Hb Hr]; subst.
  rewrite rd_be_cons. cbn [length]. rewrite Nat2N.inj_succ, N.pow_succ_r'. specialize (IH Hr). nia.
Qed.

Lemma take_be_app n v rest : v < 256 ^ N.of_nat n -> take_be n (be_bytes n v ++ rest) = Ok (v, rest).
Proof.
  intros Hv. unfold take_be. rewrite app_length, be_length.
  replace (Nat.leb n (n + length rest)) with true by (symmetry; apply Nat.leb_le; lia).
  rewrite firstn_app, be_length, Nat.sub_diag, firstn_O, app_nil_r, <- (be_length n v) at 1.
  rewrite firstn_all, rd_be_bytes, N.mod_small by exact Hv.
  rewrite skipn_app, be_length, Nat.sub_diag, <- (be_length n v) at 1. rewrite skipn_all. reflexivity.
Qed.

Lemma take_be_bound n l v r : Forall (fun b => b < 256) l -> take_be n l = Ok (v, r) ->
  v < 256 ^ N.of_nat n /\ Forall (fun b => b < 256) r.
Proof.
  intros Hl. unfold take_be. destruct (Nat.leb n (length l)) eqn:E; [|discriminate]. apply Nat.leb_le in E.
  intros H; inversion H; subst. rewrite <- (firstn_skipn n l) in Hl. apply Forall_app in Hl. destruct Hl as [H1 H2]. split; [|exact H2].
  pose proof (rd_be_lt (firstn n l) H1) as Hb. rewrite firstn_length_le in Hb by exact E. exact Hb.
Qed.

Lemma take_be_soft n l : take_be n l = Err \/ exists v r, take_be n l = Ok (v, r).
Proof. unfold take_be. destruct (Nat.leb n (length l)); [right; eauto|left; reflexivity]. Qed.

(* ---------- block definition: what was written is what is read ---------- *)
Definition bdef_wf (b : bdef) : Prop :=
  bd_z b <= 31 /\ bd_x b * 256 <= u32_max /\ bd_y b * 256 <= u32_max /\
  bd_cx0 b <= bd_cx1 b /\ bd_cy0 b <= bd_cy1 b /\ bd_cx1 b <= 255 /\ bd_cy1 b <= 255 /\
  bd_cx1 b <= 2 ^ N.min (bd_z b) 8 - 1 /\ bd_cy1 b <= 2 ^ N.min (bd_z b) 8 - 1 /\
  bd_gx0 b = bd_cx0 b + bd_x b * 256 /\ bd_gy0 b = bd_cy0 b + bd_y b * 256 /\
  bd_gx1 b = bd_cx1 b + bd_x b * 256 /\ bd_gy1 b = bd_cy1 b + bd_y b * 256 /\
  bd_gx1 b <= 2 ^ bd_z b - 1 /\ bd_gy1 b <= 2 ^ bd_z b - 1 /\
  bd_toff b + bd_tlen b <= u64_max /\ bd_ioff b = bd_toff b + bd_tlen b /\ bd_ilen b <= u32_max.

Ltac leb_true := match goal with |- context [?a <=? ?b] => replace (a <=? b) with true by (symmetry; apply N.leb_le; lia) end.
Ltac ltb_false := match goal with |- context [?a <? ?b] => replace (a <? b) with false by (symmetry; apply N.ltb_ge; lia) end.

Theorem bdef_roundtrip b : bdef_wf b -> exists l, bdef_as_blob b = Ok l /\ length l = 33%nat /\ bdef_from_blob l = Ok b.
Proof.
  intros (Hz & Hx & Hy & Hc0 & Hc1 & Hx255 & Hy255 & Hxm & Hym & Hg0 & Hg1 & Hg2 & Hg3 & Hgx & Hgy & Hsum & Hio & Hil).
  unfold u32_max, u64_max in *.
  assert (P31 : 2 ^ bd_z b <= 2 ^ 31) by (apply N.pow_le_mono_r; lia).
  assert (P31' : 2 ^ 31 = 2147483648) by reflexivity.
  unfold bdef_as_blob. unfold u64_max. ltb_false. replace (bd_toff b + bd_tlen b =? bd_ioff b) with true by (symmetry; apply N.eqb_eq; lia).
  cbn [negb]. eexists. split; [reflexivity|]. split; [rewrite !app_length, !be_length; reflexivity|].
  unfold bdef_from_blob.
  rewrite take_be_app by (cbn; lia). cbn [obind].
  rewrite take_be_app by (cbn; lia). cbn [obind].
  rewrite take_be_app by (cbn; lia). cbn [obind].
  rewrite take_be_app by (cbn; lia). cbn [obind].
  rewrite take_be_app by (cbn; lia). cbn [obind].
  rewrite take_be_app by (cbn; lia). cbn [obind].
  rewrite take_be_app by (cbn; lia). cbn [obind].
  assert (Hmin : N.min (bd_z b) 8 <= 31) by lia.
  unfold bbox_new_ok at 1. repeat leb_true. cbn [andb negb].
  rewrite take_be_app by (cbn; lia). cbn [obind].
  rewrite take_be_app by (cbn; lia). cbn [obind].
  rewrite <- (app_nil_r (be_bytes 4 (bd_ilen b))). rewrite take_be_app by (cbn; lia). cbn [obind].
  unfold u64_max, u32_max. repeat ltb_false. cbn [orb].
  unfold bbox_new_ok. repeat leb_true. cbn [andb negb].
  destruct b; cbn in *. subst. reflexivity.
Qed.

(* BlockDefinition::new on a cell of the 256-grid gives a well-formed definition *)
Ltac lia_div := Z.div_mod_to_equations; lia.
Theorem bdef_new_wf z gx0 gy0 gx1 gy1 :
  z <= 31 -> gx0 <= gx1 -> gy0 <= gy1 -> gx1 <= 2 ^ z - 1 -> gy1 <= 2 ^ z - 1 -> gx0 / 256 = gx1 / 256 -> gy0 / 256 = gy1 / 256 ->
  bdef_wf (bdef_new z gx0 gy0 gx1 gy1).
Proof.
  intros Hz Hx Hy Hxm Hym Hbx Hby. unfold bdef_wf, bdef_new, u32_max, u64_max. cbn [bd_z bd_x bd_y bd_cx0 bd_cy0 bd_cx1 bd_cy1 bd_gx0 bd_gy0 bd_gx1 bd_gy1 bd_toff bd_tlen bd_ioff bd_ilen].
  assert (P31 : 2 ^ z <= 2147483648) by (change 2147483648 with (2 ^ 31); apply N.pow_le_mono_r; lia).
  assert (Hlocal : forall g, g <= 2 ^ z - 1 -> g - (g / 256) * 256 <= 2 ^ N.min z 8 - 1).
  { intros g Hg. pose proof (N.div_mod g 256 ltac:(lia)) as D. pose proof (N.mod_lt g 256 ltac:(lia)) as M.
    destruct (N.le_gt_cases 8 z) as [H8|H8].
    - rewrite N.min_r by lia. change (2 ^ 8) with 256. lia.
    - rewrite N.min_l by lia. assert (2 ^ z <= 2 ^ 7) by (apply N.pow_le_mono_r; lia). change (2 ^ 7) with 128 in *.
      assert (g / 256 = 0) by (apply N.div_small; lia). lia. }
  pose proof (Hlocal gx1 Hxm) as L1. pose proof (Hlocal gy1 Hym) as L2. rewrite <- Hbx in L1. rewrite <- Hby in L2. clear Hlocal.
  pose proof (N.div_mod gx0 256 ltac:(lia)) as D0. pose proof (N.mod_lt gx0 256 ltac:(lia)) as M0.
  pose proof (N.div_mod gy0 256 ltac:(lia)) as D1. pose proof (N.mod_lt gy0 256 ltac:(lia)) as M1.
  pose proof (N.div_mod gx1 256 ltac:(lia)) as D2. pose proof (N.mod_lt gx1 256 ltac:(lia)) as M2.
  pose proof (N.div_mod gy1 256 ltac:(lia)) as D3. pose proof (N.mod_lt gy1 256 ltac:(lia)) as M3.
  rewrite <- Hbx in D2. rewrite <- Hby in D3. clear Hbx Hby.
  generalize dependent (gx0 / 256). generalize dependent (gy0 / 256). intros qy L2 D1 D3 qx L1 D0 D2.
  generalize dependent (gx0 mod 256). generalize dependent (gy0 mod 256). generalize dependent (gx1 mod 256). generalize dependent (gy1 mod 256).
  intros. repeat split; lia.
Qed.

(* ---------- from_blob never panics or overflows, whatever the bytes ---------- *)
Theorem bdef_from_blob_soft l : Forall (fun b => b < 256) l -> soft (bdef_from_blob l).
Proof.
  intros Hl. unfold bdef_from_blob.
  Ltac step H Hl :=
    match goal with |- soft (obind (take_be ?n ?l) _) =>
      let v := fresh "v" in let r := fresh "r" in let E := fresh "E" in
      destruct (take_be_soft n l) as [E|(v & r & E)]; rewrite E; cbn [obind]; [exact I|];
      destruct (take_be_bound n l v r Hl E) as [H Hl']; clear Hl; rename Hl' into Hl
    end.
  step Hz Hl. step Hx Hl. step Hy Hl. step H0 Hl. step H1 Hl. step H2 Hl. step H3 Hl.
  destruct (negb _); [exact I|].
  step Ho Hl. step Ht Hl. step Hi Hl.
  destruct (u64_max <? _); [exact I|].
  destruct (u32_max <? v0 * 256) eqn:Ex; [exact I|]. destruct (u32_max <? v1 * 256) eqn:Ey; [exact I|].
  apply N.ltb_ge in Ex, Ey. unfold u32_max in *. cbn in H0, H1, H2, H3, Hx, Hy.
  (* x0 is a multiple of 256 that fits u32, so x0 <= 2^32 - 256 and adding a u8 cannot overflow *)
  assert (v0 * 256 <= 4294967040) by lia. assert (v1 * 256 <= 4294967040) by lia.
  repeat ltb_false. cbn [orb].
  destruct (negb _); exact I.
Qed.

(* ---------- tile index ---------- *)
Lemma tidx_length idx : length (tidx_as_blob idx) = (12 * length idx)%nat.
Proof. induction idx as [|[o n] r IH]; [reflexivity|]. cbn [tidx_as_blob length]. rewrite !app_length, !be_length, IH. lia. Qed.

Lemma tidx_read_ser idx : Forall (fun p => fst p <= u64_max /\ snd p <= u32_max) idx ->
  tidx_read (length idx) (tidx_as_blob idx) = Ok idx.
Proof.
  induction idx as [|[o n] r IH]; intros H; [reflexivity|]. inversion H as [|? ? [Ho Hn] Hr]; subst. cbn [fst snd] in *.
  unfold u64_max, u32_max in *. cbn [length tidx_read tidx_as_blob].
  rewrite take_be_app by (cbn; lia). cbn [obind]. rewrite take_be_app by (cbn; lia). cbn [obind].
  rewrite (IH Hr). reflexivity.
Qed.

Theorem tidx_roundtrip idx : Forall (fun p => fst p <= u64_max /\ snd p <= u32_max) idx ->
  tidx_from_blob (tidx_as_blob idx) = Ok idx.
Proof.
  intros H. unfold tidx_from_blob. rewrite tidx_length.
  replace (N.of_nat (12 * length idx) / 12) with (N.of_nat (length idx)).
  - replace (N.of_nat (length idx) * 12 =? N.of_nat (12 * length idx)) with true by (symmetry; apply N.eqb_eq; lia).
    cbn [negb]. rewrite Nat2N.id. exact (tidx_read_ser idx H).
  - apply N.div_unique with 0; lia.
Qed.

Lemma tidx_read_soft count : forall l, Forall (fun b => b < 256) l -> soft (tidx_read count l).
Proof.
  induction count as [|k IH]; intros l Hl; [exact I|]. cbn [tidx_read].
  destruct (take_be_soft 8 l) as [E|(v & r & E)]; rewrite E; cbn [obind]; [exact I|].
  destruct (take_be_bound 8 l v r Hl E) as [_ Hr].
  destruct (take_be_soft 4 r) as [E2|(v2 & r2 & E2)]; rewrite E2; cbn [obind]; [exact I|].
  destruct (take_be_bound 4 r v2 r2 Hr E2) as [_ Hr2].
  specialize (IH r2 Hr2). destruct (tidx_read k r2); cbn; exact IH.
Qed.

Theorem tidx_from_blob_soft l : Forall (fun b => b < 256) l -> soft (tidx_from_blob l).
Proof. intros Hl. unfold tidx_from_blob. destruct (negb _); [exact I|]. apply tidx_read_soft; exact Hl. Qed.

(* every parsed entry is a u64 offset and a u32 length, and the entry count is the byte count / 12 *)
Lemma tidx_read_length count : forall l idx, tidx_read count l = Ok idx -> length idx = count.
Proof.
  induction count as [|k IH]; intros l idx H; [inversion H; reflexivity|]. cbn [tidx_read] in H.
  destruct (take_be 8 l) as [[v r]| | |]; cbn [obind] in H; try discriminate.
  destruct (take_be 4 r) as [[v2 r2]| | |]; cbn [obind] in H; try discriminate.
  destruct (tidx_read k r2) as [rest| | |] eqn:E; cbn in H; try discriminate. inversion H; subst. cbn [length]. f_equal. exact (IH r2 rest E).
Qed.

Theorem tidx_from_blob_count l idx : tidx_from_blob l = Ok idx -> (length l = 12 * length idx)%nat.
Proof.
  unfold tidx_from_blob. destruct (N.of_nat (length l) / 12 * 12 =? N.of_nat (length l)) eqn:E; cbn [negb]; [|discriminate].
  intros H. apply tidx_read_length in H. apply N.eqb_eq in E. lia.
Qed.

(* add_offset then reading a slot = the stored slot shifted (saturating at u64::MAX); never a failure *)
Theorem tidx_add_offset_total o idx : exists out, tidx_add_offset o idx = Ok out.
Proof.
  unfold tidx_add_offset. induction idx as [|[off len] r IH]; [eexists; reflexivity|].
  cbn [tidx_add_offset_v N.eqb andb]. destruct IH as (out & ->). eexists. reflexivity.
Qed.

Theorem tidx_add_offset_nth o idx out : tidx_add_offset o idx = Ok out ->
  forall i p, nth_error idx i = Some p -> nth_error out i = Some (N.min (fst p + o) u64_max, snd p).
Proof.
  unfold tidx_add_offset. revert out. induction idx as [|[off len] r IH]; intros out H i p Hp; [destruct i; discriminate|].
  cbn [tidx_add_offset_v N.eqb andb] in H.
  destruct (tidx_add_offset_v 1 o r) as [rest| | |] eqn:Er; cbn in H; try discriminate. inversion H; subst.
  destruct i as [|i]; cbn [nth_error] in *.
  - inversion Hp; subst. reflexivity.
  - exact (IH rest eq_refl i p Hp).
Qed.

(* the pinned source overflowed on an offset close to u64::MAX *)
Theorem tidx_add_offset_overflow_v0 : tidx_add_offset_v 0 66 [(u64_max - 2, 5)] = Overflow /\ tidx_add_offset 66 [(u64_max - 2, 5)] = Ok [(u64_max, 5)].
Proof. split; vm_compute; reflexivity. Qed.

(* ---------- file header ---------- *)
Definition hdr_wf (h : hdr) : Prop :=
  In (h_format h) format_codes /\ h_comp h <= 2 /\ h_z0 h <= 255 /\ h_z1 h <= 255 /\
  h_b0 h <= u32_max /\ h_b1 h <= u32_max /\ h_b2 h <= u32_max /\ h_b3 h <= u32_max /\
  h_moff h <= u64_max /\ h_mlen h <= u64_max /\ h_boff h <= u64_max /\ h_blen h <= u64_max.

Lemma bytes_eqb_refl a : bytes_eqb a a = true.
Proof. induction a as [|x r IH]; [reflexivity|]. cbn [bytes_eqb]. rewrite N.eqb_refl, IH. reflexivity. Qed.

Theorem hdr_roundtrip h : hdr_wf h -> length (hdr_to_blob h) = 66%nat /\ hdr_from_blob (hdr_to_blob h) = Ok h.
Proof.
  intros (Hf & Hc & Hz0 & Hz1 & H0 & H1 & H2 & H3 & Hmo & Hml & Hbo & Hbl). unfold u32_max, u64_max in *.
  assert (Hf255 : h_format h <= 35).
  { unfold format_codes in Hf. cbn [In] in Hf. repeat (destruct Hf as [<-|Hf]; [lia|]). destruct Hf. }
  split; [unfold hdr_to_blob; rewrite !app_length, !be_length; reflexivity|].
  unfold hdr_from_blob, hdr_to_blob.
  replace (Nat.eqb (length _) 66) with true by (symmetry; apply Nat.eqb_eq; rewrite !app_length, !be_length; reflexivity).
  cbn [negb]. change (firstn 14 (vt_magic ++ ?x)) with vt_magic. rewrite bytes_eqb_refl. cbn [negb].
  change (skipn 14 (vt_magic ++ ?x)) with x.
  rewrite take_be_app by (cbn; lia). cbn [obind].
  replace (existsb (N.eqb (h_format h)) format_codes) with true.
  2:{ symmetry. apply existsb_exists. exists (h_format h). split; [exact Hf|apply N.eqb_refl]. }
  cbn [negb].
  rewrite take_be_app by (cbn; lia). cbn [obind]. ltb_false.
  rewrite take_be_app by (cbn; lia). cbn [obind].
  rewrite take_be_app by (cbn; lia). cbn [obind].
  rewrite take_be_app by (cbn; lia). cbn [obind].
  rewrite take_be_app by (cbn; lia). cbn [obind].
  rewrite take_be_app by (cbn; lia). cbn [obind].
  rewrite take_be_app by (cbn; lia). cbn [obind].
  rewrite take_be_app by (cbn; lia). cbn [obind].
  rewrite take_be_app by (cbn; lia). cbn [obind].
  rewrite take_be_app by (cbn; lia). cbn [obind].
  rewrite <- (app_nil_r (be_bytes 8 (h_blen h))). rewrite take_be_app by (cbn; lia). cbn [obind].
  destruct h; reflexivity.
Qed.

(* what from_blob accepts carries one of the ten format codes and one of the three compression
   codes: the declared format and compression are those of the writer, or the file is refused *)
Theorem hdr_accepts_known_codes l h : hdr_from_blob l = Ok h -> In (h_format h) format_codes /\ h_comp h <= 2 /\ length l = 66%nat.
Proof.
  unfold hdr_from_blob. destruct (Nat.eqb (length l) 66) eqn:El; cbn [negb]; [|discriminate]. apply Nat.eqb_eq in El.
  destruct (bytes_eqb _ _); cbn [negb]; [|discriminate].
  destruct (take_be 1 _) as [[f r]| | |]; cbn [obind]; try discriminate.
  destruct (existsb (N.eqb f) format_codes) eqn:Ef; cbn [negb]; [|discriminate].
  destruct (take_be 1 r) as [[c r2]| | |]; cbn [obind]; try discriminate.
  destruct (2 <? c) eqn:Ec; [discriminate|].
  repeat (match goal with |- obind (take_be ?n ?x) _ = _ -> _ => destruct (take_be n x) as [[? ?]| | |]; cbn [obind]; try discriminate end).
  intros H; inversion H; subst. cbn [h_format h_comp]. apply N.ltb_ge in Ec. split; [|split; [exact Ec|exact El]].
  apply existsb_exists in Ef. destruct Ef as (x & Hx & E). apply N.eqb_eq in E. subst. exact Hx.
Qed.

Theorem hdr_from_blob_soft l : soft (hdr_from_blob l).
Proof.
  unfold hdr_from_blob. destruct (negb _); [exact I|]. destruct (negb _); [exact I|].
  repeat (match goal with
          | |- soft (obind (take_be ?n ?x) _) => destruct (take_be_soft n x) as [E|(? & ? & E)]; rewrite E; cbn [obind]; [exact I|]; clear E
          | |- soft (if ?c then _ else _) => destruct c; [exact I|]
          end).
  exact I.
Qed.

(* what from_blob returns is internally consistent: the global box is the local coverage moved to the block *)
Definition bdef_shape (b : bdef) : Prop :=
  bd_cx0 b <= bd_cx1 b /\ bd_cy0 b <= bd_cy1 b /\
  bd_gx0 b = bd_cx0 b + bd_x b * 256 /\ bd_gy0 b = bd_cy0 b + bd_y b * 256 /\
  bd_gx1 b = bd_cx1 b + bd_x b * 256 /\ bd_gy1 b = bd_cy1 b + bd_y b * 256 /\ bd_ioff b = bd_toff b + bd_tlen b.

Theorem bdef_from_blob_shape l b : bdef_from_blob l = Ok b -> bdef_shape b.
Proof.
  unfold bdef_from_blob.
  repeat (match goal with
          | |- obind (take_be ?n ?x) _ = _ -> _ => destruct (take_be n x) as [[? ?]| | |]; cbn [obind]; try discriminate
          end).
  destruct (bbox_new_ok (N.min n 8) n2 n3 n4 n5) eqn:Ebb; cbn [negb]; [|discriminate].
  repeat (match goal with
          | |- obind (take_be ?n ?x) _ = _ -> _ => destruct (take_be n x) as [[? ?]| | |]; cbn [obind]; try discriminate
          end).
  repeat (match goal with |- (if ?c then _ else _) = _ -> _ => destruct c; try discriminate end).
  intros H; inversion H; subst. unfold bdef_shape. cbn.
  unfold bbox_new_ok in Ebb. repeat (apply andb_true_iff in Ebb; destruct Ebb as [Ebb ?]).
  repeat match goal with H : (_ <=? _) = true |- _ => apply N.leb_le in H end.
  repeat split; try reflexivity; assumption.
Qed.
