(* The two-step row query returns the true row bounds of the level (C03, DESIGN A.7). *)
From Coq Require Import List NArith Bool Lia.
From VT Require Import Model.MBTiles.
Import ListNotations.
Local Open Scope N_scope.

Lemma min_of_spec l m : min_of l = Some m -> In m l /\ forall a, In a l -> m <= a.
Proof.
  revert m; induction l as [|a r IH]; intros m H; [discriminate|]. cbn [min_of] in H.
  destruct (min_of r) as [m'|] eqn:E.
  - injection H as <-. destruct (IH m' eq_refl) as [Hin Hle]. split.
    + destruct (N.min_spec a m') as [[_ ->]|[_ ->]]; [left; reflexivity|right; exact Hin].
    + intros b [<-|Hb]; [lia|]. specialize (Hle b Hb). lia.
  - injection H as <-. destruct r; [|cbn in E; destruct (min_of r); discriminate]. split; [left; reflexivity|]. intros b [<-|[]]; lia.
Qed.

Lemma max_of_spec l m : max_of l = Some m -> In m l /\ forall a, In a l -> a <= m.
Proof.
  revert m; induction l as [|a r IH]; intros m H; [discriminate|]. cbn [max_of] in H.
  destruct (max_of r) as [m'|] eqn:E.
  - injection H as <-. destruct (IH m' eq_refl) as [Hin Hle]. split.
    + destruct (N.max_spec a m') as [[_ ->]|[_ ->]]; [right; exact Hin|left; reflexivity].
    + intros b [<-|Hb]; [lia|]. specialize (Hle b Hb). lia.
  - injection H as <-. destruct r; [|cbn in E; destruct (max_of r); discriminate]. split; [left; reflexivity|]. intros b [<-|[]]; lia.
Qed.

Lemma min_of_some l : l <> [] -> exists m, min_of l = Some m.
Proof. destruct l as [|a r]; [congruence|]. intros _. cbn. destruct (min_of r); eexists; reflexivity. Qed.
Lemma max_of_some l : l <> [] -> exists m, max_of l = Some m.
Proof. destruct l as [|a r]; [congruence|]. intros _. cbn. destruct (max_of r); eexists; reflexivity. Qed.

Lemma in_map_sel (p : row -> bool) rows r : In r rows -> p r = true -> In (snd r) (map snd (sel p rows)).
Proof. intros H Hp. apply in_map. apply filter_In. auto. Qed.

(* for every non-empty set of rows of a level: the advertised box is exactly the bounding box *)
Theorem level_bounds_exact rows : rows <> [] ->
  exists x0 y0 x1 y1, level_bounds 1 rows = Some (x0, y0, x1, y1) /\
    (forall r, In r rows -> x0 <= fst r <= x1 /\ y0 <= snd r <= y1) /\
    (exists r, In r rows /\ fst r = x0) /\ (exists r, In r rows /\ fst r = x1) /\
    (exists r, In r rows /\ snd r = y0) /\ (exists r, In r rows /\ snd r = y1).
Proof.
  intros Hne. unfold level_bounds.
  assert (Hc : map fst rows <> []) by (destruct rows; [congruence|discriminate]).
  destruct (min_of_some _ Hc) as (x0 & Ex0). destruct (max_of_some _ Hc) as (x1 & Ex1). rewrite Ex0, Ex1.
  destruct (min_of_spec _ _ Ex0) as [Ix0 Lx0]. destruct (max_of_spec _ _ Ex1) as [Ix1 Lx1].
  apply in_map_iff in Ix0 as (r0 & Er0 & Hr0). apply in_map_iff in Ix1 as (r1 & Er1 & Hr1).
  set (xc := (x0 + x1) / 2).
  set (p3 := fun r : row => (fst r =? x0) || (fst r =? xc) || (fst r =? x1)).
  assert (H3 : map snd (sel p3 rows) <> []).
  { assert (In (snd r0) (map snd (sel p3 rows))) by (apply in_map_sel; [exact Hr0|unfold p3; rewrite Er0, N.eqb_refl; reflexivity]).
    destruct (map snd (sel p3 rows)); [destruct H|discriminate]. }
  destruct (min_of_some _ H3) as (e0 & Ee0). destruct (max_of_some _ H3) as (e1 & Ee1). rewrite Ee0, Ee1.
  destruct (min_of_spec _ _ Ee0) as [Ie0 _]. destruct (max_of_spec _ _ Ee1) as [Ie1 _].
  apply in_map_iff in Ie0 as (s0 & Es0 & Hs0). apply filter_In in Hs0 as [Hs0 _].
  apply in_map_iff in Ie1 as (s1 & Es1 & Hs1). apply filter_In in Hs1 as [Hs1 _].
  cbn [N.eqb Pos.eqb].
  set (pl := fun r : row => snd r <=? e0). set (ph := fun r : row => e1 <=? snd r).
  assert (Hl : map snd (sel pl rows) <> []).
  { assert (In (snd s0) (map snd (sel pl rows))) by (apply in_map_sel; [exact Hs0|unfold pl; apply N.leb_le; lia]).
    destruct (map snd (sel pl rows)); [destruct H|discriminate]. }
  assert (Hh : map snd (sel ph rows) <> []).
  { assert (In (snd s1) (map snd (sel ph rows))) by (apply in_map_sel; [exact Hs1|unfold ph; apply N.leb_le; lia]).
    destruct (map snd (sel ph rows)); [destruct H|discriminate]. }
  destruct (min_of_some _ Hl) as (y0 & Ey0). destruct (max_of_some _ Hh) as (y1 & Ey1). rewrite Ey0, Ey1.
  destruct (min_of_spec _ _ Ey0) as [Iy0 Ly0]. destruct (max_of_spec _ _ Ey1) as [Iy1 Ly1].
  apply in_map_iff in Iy0 as (t0 & Et0 & Ht0). apply filter_In in Ht0 as [Ht0 Pt0]. unfold pl in Pt0. apply N.leb_le in Pt0.
  apply in_map_iff in Iy1 as (t1 & Et1 & Ht1). apply filter_In in Ht1 as [Ht1 Pt1]. unfold ph in Pt1. apply N.leb_le in Pt1.
  exists x0, y0, x1, y1. split; [reflexivity|]. split; [|split; [exists r0; auto|split; [exists r1; auto|split; [exists t0; auto|exists t1; auto]]]].
  intros r Hr. split; [split; [apply Lx0; apply in_map; exact Hr|apply Lx1; apply in_map; exact Hr]|]. split.
  - destruct (N.le_gt_cases (snd r) e0) as [Hle|Hgt].
    + apply Ly0. apply in_map_sel; [exact Hr|unfold pl; apply N.leb_le; exact Hle].
    + lia.
  - destruct (N.le_gt_cases e1 (snd r)) as [Hle|Hgt].
    + apply Ly1. apply in_map_sel; [exact Hr|unfold ph; apply N.leb_le; exact Hle].
    + lia.
Qed.

(* with `tile_row <= y1` in the MAX refinement (a copy of the MIN line) the upper bound is only the
   estimate: a level whose top row lies outside the three probed columns is advertised too small *)
Lemma level_bounds_refuted_v0 :
  level_bounds 0 [(2, 7); (10, 7); (6, 8); (3, 11)] = Some (2, 7, 10, 8) /\
  level_bounds 1 [(2, 7); (10, 7); (6, 8); (3, 11)] = Some (2, 7, 10, 11).
Proof. split; vm_compute; reflexivity. Qed.
