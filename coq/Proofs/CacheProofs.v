(* Proofs about Model/Cache.v (LimitedCache). *)
From Coq Require Import List NArith Bool Lia Permutation Arith.
From VT Require Import Model.Cache.
Import ListNotations.
Local Open Scope N_scope.

(* ---------- sorting facts ---------- *)
Lemma insert_perm x l : Permutation (insert x l) (x :: l).
Proof.
  induction l as [|y r IH]; cbn [insert]; [reflexivity|].
  destruct (N.leb x y); [reflexivity|].
  rewrite IH. apply perm_swap.
Qed.

Lemma sort_perm l : Permutation (sort l) l.
Proof.
  induction l as [|x r IH]; cbn [sort]; [reflexivity|].
  rewrite insert_perm. now constructor.
Qed.

Lemma sort_length l : length (sort l) = length l.
Proof. apply Permutation_length, sort_perm. Qed.

Lemma sort_In x l : In x (sort l) <-> In x l.
Proof. split; apply Permutation_in; [apply sort_perm | symmetry; apply sort_perm]. Qed.

Lemma insert_app_max x s M : x < M -> insert x (s ++ [M]) = insert x s ++ [M].
Proof.
  intros Hx. induction s as [|y r IH]; cbn [insert app].
  - destruct (N.leb_spec x M); [reflexivity | lia].
  - destruct (N.leb x y); [reflexivity|]. now rewrite IH.
Qed.

Lemma insert_max M s : Forall (fun y => y < M) s -> insert M s = s ++ [M].
Proof.
  induction 1 as [|y r Hy _ IH]; cbn [insert app]; [reflexivity|].
  destruct (N.leb_spec M y); [lia|]. now rewrite IH.
Qed.

Lemma Forall_sort (P : N -> Prop) l : Forall P l -> Forall P (sort l).
Proof.
  rewrite !Forall_forall. intros H x Hx. apply H. now apply sort_In.
Qed.

Lemma sort_unique_max l1 M l2 :
  Forall (fun y => y < M) (l1 ++ l2) ->
  sort (l1 ++ M :: l2) = sort (l1 ++ l2) ++ [M].
Proof.
  induction l1 as [|x r IH]; cbn [app sort]; intros H.
  - apply insert_max. now apply Forall_sort.
  - inversion H as [|? ? Hx Hr]; subst. rewrite IH by assumption.
    now apply insert_app_max.
Qed.

(* ---------- invariant ---------- *)
Definition keys (l : list (N * (N * N))) := map fst l.

Record Inv (c : cache) : Prop := {
  inv_nodup : NoDup (keys (entries c));
  inv_len : N.of_nat (length (entries c)) <= cap c;
  inv_stamp : Forall (fun e => snd (snd e) <= last c) (entries c)
}.

Lemma lookup_In k l v s : lookup k l = Some (v, s) -> In (k, (v, s)) l.
Proof.
  induction l as [|[k' vs] r IH]; cbn [lookup]; [discriminate|].
  destruct (N.eqb_spec k k') as [->|]; intros H.
  - inversion H; subst. now left.
  - right. now apply IH.
Qed.

Lemma lookup_None k l : lookup k l = None <-> ~ In k (keys l).
Proof.
  induction l as [|[k' vs] r IH]; cbn [lookup keys map fst].
  - tauto.
  - destruct (N.eqb_spec k k') as [->|Hne].
    + split; [discriminate|]. intros H. exfalso. apply H. now left.
    + rewrite IH. unfold keys. cbn [In]. intuition congruence.
Qed.

Lemma In_lookup k v s l : NoDup (keys l) -> In (k, (v, s)) l -> lookup k l = Some (v, s).
Proof.
  induction l as [|[k' vs] r IH]; cbn [lookup keys map fst In]; [tauto|].
  intros Hnd [E|Hin].
  - inversion E; subst. now rewrite N.eqb_refl.
  - inversion Hnd as [|? ? Hnotin Hnd']; subst.
    destruct (N.eqb_spec k k') as [->|].
    + exfalso. apply Hnotin. change (In k' (keys r)). unfold keys.
      apply in_map_iff. now exists (k', (v, s)).
    + now apply IH.
Qed.

Lemma keys_set_stamp k s l : keys (set_stamp k s l) = keys l.
Proof.
  induction l as [|[k' [v s']] r IH]; cbn [set_stamp keys map]; [reflexivity|].
  destruct (N.eqb k k'); cbn [keys map fst]; [reflexivity|].
  f_equal. exact IH.
Qed.

Lemma length_set_stamp k s l : length (set_stamp k s l) = length l.
Proof.
  induction l as [|[k' [v s']] r IH]; cbn [set_stamp length]; [reflexivity|].
  destruct (N.eqb k k'); cbn [length]; congruence.
Qed.

Lemma In_set_stamp k s l e :
  NoDup (keys l) ->
  In e (set_stamp k s l) ->
  (exists v s', e = (k, (v, s)) /\ In (k, (v, s')) l) \/ (In e l /\ fst e <> k).
Proof.
  induction l as [|[k' [v s']] r IH]; cbn [set_stamp]; [intros _ []|].
  intros Hnd. inversion Hnd as [|? ? Hnotin Hnd']; subst.
  destruct (N.eqb_spec k k') as [->|Hne]; intros [E|Hin].
  - left. exists v, s'. split; [now symmetry | now left].
  - right. split; [now right|]. intros Hk. apply Hnotin.
    unfold keys. apply in_map_iff. exists e. split; [exact Hk | exact Hin].
  - right. subst e. split; [now left | cbn; congruence].
  - destruct (IH Hnd' Hin) as [(v0 & s0 & -> & H0)|[H1 H2]].
    + left. exists v0, s0. split; [reflexivity | now right].
    + right. split; [now right | assumption].
Qed.

Lemma lookup_set_stamp_same k s l v s0 :
  lookup k l = Some (v, s0) -> lookup k (set_stamp k s l) = Some (v, s).
Proof.
  induction l as [|[k' [v' s']] r IH]; cbn [lookup set_stamp]; [discriminate|].
  destruct (N.eqb_spec k k') as [->|Hne].
  - intros H; inversion H; subst. cbn [lookup]. now rewrite N.eqb_refl.
  - intros H. cbn [lookup]. destruct (N.eqb_spec k k'); [congruence|]. now apply IH.
Qed.

(* ---------- cleanup ---------- *)
Lemma median_ix_lt variant n : (0 < n)%nat -> (median_ix variant n < n)%nat.
Proof.
  intros H. unfold median_ix. destruct (N.eqb variant 0).
  - apply Nat.div_lt; lia.
  - destruct n as [|m]; [lia|]. cbn [Nat.sub]. rewrite Nat.sub_0_r.
    assert (m / 2 <= m)%nat by (apply Nat.div_le_upper_bound; lia). lia.
Qed.

Lemma median_In variant l : l <> [] -> In (median variant l) (stamps l).
Proof.
  intros Hl. unfold median. apply sort_In. apply nth_In.
  rewrite sort_length. unfold stamps. rewrite map_length.
  apply median_ix_lt. destruct l; [congruence | cbn; lia].
Qed.

Lemma filter_length_le {A} (f : A -> bool) l : (length (filter f l) <= length l)%nat.
Proof. induction l as [|y r IH]; cbn [filter length]; [lia|]. destruct (f y); cbn [length]; lia. Qed.

Lemma filter_length_lt {A} (f : A -> bool) l x :
  In x l -> f x = false -> (length (filter f l) < length l)%nat.
Proof.
  induction l as [|y r IH]; cbn [filter length]; [intros []|].
  intros [->|Hin] Hf.
  - rewrite Hf. pose proof (filter_length_le f r). lia.
  - specialize (IH Hin Hf). destruct (f y); cbn [length]; lia.
Qed.

Lemma cleanup_shrinks variant c :
  entries c <> [] -> (length (entries (cleanup variant c)) < length (entries c))%nat.
Proof.
  intros Hne. unfold cleanup. cbn [entries]. rewrite map_length.
  pose proof (median_In variant _ Hne) as Hin. unfold stamps in Hin.
  apply in_map_iff in Hin. destruct Hin as (e & He & Hine).
  apply filter_length_lt with (x := e); [assumption|].
  rewrite He. now rewrite N.leb_refl.
Qed.

Lemma keys_cleanup_sub variant c k :
  In k (keys (entries (cleanup variant c))) -> In k (keys (entries c)).
Proof.
  unfold cleanup, keys. cbn [entries]. rewrite map_map. cbn [fst].
  intros H. apply in_map_iff in H. destruct H as (e & <- & He).
  apply filter_In in He. apply in_map_iff. exists e. tauto.
Qed.

Lemma NoDup_map_filter {A B} (g : A -> B) f l : NoDup (map g l) -> NoDup (map g (filter f l)).
Proof.
  induction l as [|x r IH]; cbn [map filter]; [auto|].
  intros H. inversion H as [|? ? Hn Hr]; subst. destruct (f x); cbn [map].
  - constructor; [|auto]. intros Hin. apply Hn. apply in_map_iff in Hin.
    destruct Hin as (y & Hy & Hyin). apply in_map_iff. exists y. apply filter_In in Hyin. tauto.
  - auto.
Qed.

Lemma cleanup_inv variant c : Inv c -> Inv (cleanup variant c).
Proof.
  intros [Hnd Hlen Hst]. split.
  - unfold cleanup, keys. cbn [entries]. rewrite map_map. cbn [fst].
    apply (NoDup_map_filter fst). exact Hnd.
  - unfold cleanup. cbn [entries cap]. rewrite map_length.
    pose proof (filter_length_le (fun e => negb (N.leb (snd (snd e)) (median variant (entries c)))) (entries c)).
    lia.
  - unfold cleanup. cbn [entries last]. apply Forall_forall. intros e He.
    apply in_map_iff in He. destruct He as (e0 & <- & _). cbn. lia.
Qed.

Lemma cleanup_entry variant c k v s :
  In (k, (v, s)) (entries (cleanup variant c)) -> exists s0, In (k, (v, s0)) (entries c).
Proof.
  unfold cleanup. cbn [entries]. intros H. apply in_map_iff in H.
  destruct H as ([k0 [v0 s0]] & E & Hin). cbn in E. inversion E; subst.
  apply filter_In in Hin. exists s0. tauto.
Qed.

(* ---------- steps preserve the invariant ---------- *)
Lemma get_inv c k : Inv c -> Inv (fst (get c k)).
Proof.
  intros HI. destruct HI as [Hnd Hlen Hst]. unfold get.
  destruct (lookup k (entries c)) as [[v s]|] eqn:Hl; cbn [fst]; [|now split].
  split; cbn [entries cap last].
  - now rewrite keys_set_stamp.
  - now rewrite length_set_stamp.
  - apply Forall_forall. intros e He.
    destruct (In_set_stamp _ _ _ _ Hnd He) as [(v0 & s0 & -> & _)|[Hin _]].
    + cbn. lia.
    + rewrite Forall_forall in Hst. specialize (Hst _ Hin). lia.
Qed.

Lemma add_inv variant c k v : 0 < cap c -> Inv c -> Inv (fst (add variant c k v)).
Proof.
  intros Hcap HI. unfold add.
  set (c1 := if N.leb (cap c) (N.of_nat (length (entries c))) then cleanup variant c else c).
  assert (HI1 : Inv c1).
  { unfold c1. destruct (N.leb _ _); [now apply cleanup_inv | assumption]. }
  assert (Hcap1 : cap c1 = cap c).
  { unfold c1. destruct (N.leb _ _); reflexivity. }
  assert (Hroom : N.of_nat (length (entries c1)) < cap c1).
  { unfold c1. destruct (N.leb_spec (cap c) (N.of_nat (length (entries c)))) as [Hfull|Hfree].
    - assert (entries c <> []) by (destruct (entries c); [cbn in Hfull; lia | congruence]).
      pose proof (cleanup_shrinks variant c H). destruct HI as [_ Hlen _].
      cbn [cap cleanup]. lia.
    - exact Hfree. }
  destruct HI1 as [Hnd1 Hlen1 Hst1].
  destruct (lookup k (entries c1)) as [[v' s']|] eqn:Hl; cbn [fst].
  - split; cbn [entries cap last]; [assumption|assumption|].
    eapply Forall_impl; [|exact Hst1]. cbn. intros; lia.
  - split; cbn [entries cap last].
    + unfold keys. rewrite map_app. cbn [map fst].
      eapply Permutation_NoDup; [apply Permutation_cons_append|]. constructor; [|exact Hnd1].
      now apply lookup_None.
    + rewrite app_length. cbn [length]. lia.
    + apply Forall_app. split.
      * eapply Forall_impl; [|exact Hst1]. cbn. intros; lia.
      * constructor; [cbn; lia | constructor].
Qed.

Lemma cap_get c k : cap (fst (get c k)) = cap c.
Proof. unfold get. destruct (lookup k (entries c)) as [[? ?]|]; reflexivity. Qed.

Lemma cap_add variant c k v : cap (fst (add variant c k v)) = cap c.
Proof.
  unfold add. destruct (N.leb _ _); cbn [cleanup cap];
    destruct (lookup k _) as [[? ?]|]; reflexivity.
Qed.

Lemma step_inv variant c o : 0 < cap c -> Inv c ->
  Inv (fst (step variant c o)) /\ cap (fst (step variant c o)) = cap c.
Proof.
  intros Hcap HI. destruct o as [k|k v|k ld]; cbn [step].
  - split; [now apply get_inv | apply cap_get].
  - pose proof (add_inv variant c k v Hcap HI). pose proof (cap_add variant c k v).
    destruct (add variant c k v). cbn [fst] in *. tauto.
  - unfold get_or_set.
    pose proof (get_inv c k HI) as Hg. pose proof (cap_get c k) as Hc.
    destruct (get c k) as [c' [v|]]; cbn [fst] in *; [tauto|].
    destruct ld as [v|]; [|tauto].
    pose proof (add_inv variant c k v Hcap HI). pose proof (cap_add variant c k v).
    destruct (add variant c k v). cbn [fst] in *. tauto.
Qed.

Lemma empty_inv n : Inv (empty n).
Proof. split; cbn; [constructor | lia | constructor]. Qed.

Lemma run_fst_app variant c ops1 ops2 :
  final variant c (ops1 ++ ops2) = final variant (final variant c ops1) ops2.
Proof.
  unfold final. revert c. induction ops1 as [|o r IH]; intros c; cbn [app run fst]; [reflexivity|].
  destruct (step variant c o) as [c1 x] eqn:Hs.
  specialize (IH c1).
  destruct (run variant c1 (r ++ ops2)) as [c2 xs] eqn:Hr.
  destruct (run variant c1 r) as [c3 ys] eqn:Hr3. cbn [fst] in *. exact IH.
Qed.

Lemma final_inv variant c ops : 0 < cap c -> Inv c ->
  Inv (final variant c ops) /\ cap (final variant c ops) = cap c.
Proof.
  unfold final. revert c. induction ops as [|o r IH]; intros c Hcap HI; cbn [run fst]; [tauto|].
  destruct (step_inv variant c o Hcap HI) as [H1 H2].
  destruct (step variant c o) as [c1 x]. cbn [fst] in *.
  assert (Hcap1 : 0 < cap c1) by lia.
  destruct (IH c1 Hcap1 H1) as [H3 H4].
  destruct (run variant c1 r) as [c2 xs]. cbn [fst] in *. split; [assumption | lia].
Qed.

(* ---------- C20_capacity ---------- *)
Theorem capacity_all_histories :
  forall variant n ops, 0 < n ->
    N.of_nat (length (entries (final variant (empty n) ops))) <= n
    /\ NoDup (keys (entries (final variant (empty n) ops))).
Proof.
  intros variant n ops Hn.
  destruct (final_inv variant (empty n) ops Hn (empty_inv n)) as [[Hnd Hlen _] Hc].
  cbn [empty cap] in Hc. split; [lia | assumption].
Qed.

(* ---------- provenance ---------- *)
Definition supplied_of (o : op) : list (N * N) :=
  match o with
  | OGet _ => []
  | OAdd k v => [(k, v)]
  | OGetOrSet k (Some v) => [(k, v)]
  | OGetOrSet _ None => []
  end.
Definition supplied (ops : list op) : list (N * N) := flat_map supplied_of ops.
Definition op_key (o : op) : N :=
  match o with OGet k | OAdd k _ | OGetOrSet k _ => k end.

Definition Prov (S : list (N * N)) (c : cache) : Prop :=
  forall k v s, In (k, (v, s)) (entries c) -> In (k, v) S.

Lemma Prov_mono S S' c : incl S S' -> Prov S c -> Prov S' c.
Proof. intros Hi HP k v s H. apply Hi. eapply HP; eauto. Qed.

Lemma get_prov S c k : Inv c -> Prov S c ->
  Prov S (fst (get c k)) /\ (forall v, snd (get c k) = Some v -> In (k, v) S).
Proof.
  intros HI HP. unfold get.
  destruct (lookup k (entries c)) as [[v s]|] eqn:Hl; cbn [fst snd].
  - split.
    + intros k0 v0 s0 Hin. cbn [entries] in Hin.
      destruct (In_set_stamp _ _ _ _ (inv_nodup _ HI) Hin) as [(v1 & s1 & E & H1)|[H1 _]].
      * inversion E; subst. eapply HP; eauto.
      * eapply HP; eauto.
    + intros v0 E. inversion E; subst. apply lookup_In in Hl. eapply HP; eauto.
  - split; [assumption | discriminate].
Qed.

Lemma cleanup_prov variant S c : Prov S c -> Prov S (cleanup variant c).
Proof.
  intros HP k v s Hin. destruct (cleanup_entry _ _ _ _ _ Hin) as [s0 H0]. eapply HP; eauto.
Qed.

Lemma add_prov variant S c k v : Prov S c ->
  Prov (S ++ [(k, v)]) (fst (add variant c k v)) /\ In (k, snd (add variant c k v)) (S ++ [(k, v)]).
Proof.
  intros HP. unfold add.
  set (c1 := if N.leb (cap c) (N.of_nat (length (entries c))) then cleanup variant c else c).
  assert (HP1 : Prov S c1).
  { unfold c1. destruct (N.leb _ _); [now apply cleanup_prov | assumption]. }
  destruct (lookup k (entries c1)) as [[v' s']|] eqn:Hl; cbn [fst snd].
  - split.
    + intros k0 v0 s0 Hin. cbn [entries] in Hin. apply in_or_app. left. eapply HP1; eauto.
    + apply in_or_app. left. apply lookup_In in Hl. eapply HP1; eauto.
  - split.
    + intros k0 v0 s0 Hin. cbn [entries] in Hin. apply in_app_or in Hin. apply in_or_app.
      destruct Hin as [Hin|[E|[]]]; [left; eapply HP1; eauto | right; inversion E; now left].
    + apply in_or_app. right. now left.
Qed.

Lemma step_prov variant S c o : Inv c -> Prov S c ->
  Prov (S ++ supplied_of o) (fst (step variant c o))
  /\ (forall v, snd (step variant c o) = Some v -> In (op_key o, v) (S ++ supplied_of o)).
Proof.
  intros HI HP. destruct o as [k|k v|k ld]; cbn [step supplied_of op_key].
  - rewrite app_nil_r. now apply get_prov.
  - destruct (add_prov variant S c k v HP) as [H1 H2].
    destruct (add variant c k v) as [c' r]. cbn [fst snd] in *. split; [assumption|].
    intros v0 E. inversion E; subst. assumption.
  - unfold get_or_set. destruct (get_prov S c k HI HP) as [G1 G2].
    destruct (get c k) as [c' [v|]]; cbn [fst snd] in *.
    + split.
      * eapply Prov_mono; [|exact G1]. apply incl_appl, incl_refl.
      * intros v0 E. inversion E; subst. apply in_or_app. left. now apply G2.
    + destruct ld as [v|].
      * destruct (add_prov variant S c k v HP) as [H1 H2].
        destruct (add variant c k v) as [c2 r]. cbn [fst snd] in *. split; [assumption|].
        intros v0 E. inversion E; subst. assumption.
      * rewrite app_nil_r. split; [assumption | discriminate].
Qed.

Lemma final_prov variant S c ops : 0 < cap c -> Inv c -> Prov S c ->
  Prov (S ++ supplied ops) (final variant c ops).
Proof.
  unfold final. revert S c. induction ops as [|o r IH]; intros S c Hcap HI HP; cbn [run fst supplied flat_map].
  - now rewrite app_nil_r.
  - destruct (step_prov variant S c o HI HP) as [H1 _].
    destruct (step_inv variant c o Hcap HI) as [H2 H3].
    destruct (step variant c o) as [c1 x]. cbn [fst] in *.
    assert (Hcap1 : 0 < cap c1) by lia.
    specialize (IH _ c1 Hcap1 H2 H1).
    destruct (run variant c1 r) as [c2 xs]. cbn [fst] in *.
    rewrite app_assoc. exact IH.
Qed.

Theorem provenance_all_histories :
  forall variant n ops o v, 0 < n ->
    snd (step variant (final variant (empty n) ops) o) = Some v ->
    In (op_key o, v) (supplied (ops ++ [o])).
Proof.
  intros variant n ops o v Hn Hs.
  assert (HP0 : Prov [] (empty n)) by (intros k0 v0 s0 []).
  pose proof (final_prov variant [] (empty n) ops Hn (empty_inv n) HP0) as HP.
  destruct (final_inv variant (empty n) ops Hn (empty_inv n)) as [HI _].
  destruct (step_prov variant _ _ o HI HP) as [_ H2].
  specialize (H2 v Hs). cbn [app] in H2.
  unfold supplied. rewrite flat_map_app. cbn [flat_map]. now rewrite app_nil_r.
Qed.

(* ---------- get_or_set ---------- *)
Theorem get_or_set_spec :
  forall variant c k ld,
    (* hit: cached value, loader irrelevant *)
    (forall v s, lookup k (entries c) = Some (v, s) ->
        get_or_set variant c k ld = get c k /\ snd (get c k) = Some v)
    /\ (* miss + failing loader: error, state untouched *)
    (lookup k (entries c) = None -> ld = None -> get_or_set variant c k ld = (c, None))
    /\ (* miss + loader value v: v is returned and stored under k *)
    (forall v, lookup k (entries c) = None -> ld = Some v ->
        snd (get_or_set variant c k ld) = Some v
        /\ exists s, lookup k (entries (fst (get_or_set variant c k ld))) = Some (v, s)).
Proof.
  intros variant c k ld. repeat split.
  - unfold get_or_set, get. rewrite H. reflexivity.
  - unfold get. rewrite H. reflexivity.
  - intros Hl ->. unfold get_or_set, get. now rewrite Hl.
  - unfold get_or_set, get. rewrite H. subst ld. unfold add.
    set (c1 := if N.leb (cap c) (N.of_nat (length (entries c))) then cleanup variant c else c).
    assert (Hl1 : lookup k (entries c1) = None).
    { unfold c1. destruct (N.leb _ _); [|assumption].
      apply lookup_None. intros Hin. apply keys_cleanup_sub in Hin. now apply lookup_None in H. }
    rewrite Hl1. reflexivity.
  - unfold get_or_set, get. rewrite H. subst ld. unfold add.
    set (c1 := if N.leb (cap c) (N.of_nat (length (entries c))) then cleanup variant c else c).
    assert (Hl1 : lookup k (entries c1) = None).
    { unfold c1. destruct (N.leb _ _); [|assumption].
      apply lookup_None. intros Hin. apply keys_cleanup_sub in Hin. now apply lookup_None in H. }
    rewrite Hl1. cbn [fst entries]. exists (last c1 + 1).
    clear - Hl1. induction (entries c1) as [|[k' vs] r IH]; cbn [app lookup] in *.
    + now rewrite N.eqb_refl.
    + destruct (N.eqb k k'); [discriminate | now apply IH].
Qed.

(* ---------- a just-used entry survives the next eviction ---------- *)
Definition fresh (c : cache) (k : N) : Prop :=
  exists e1 v e2, entries c = e1 ++ (k, (v, last c)) :: e2
                  /\ Forall (fun e => snd (snd e) < last c) (e1 ++ e2).

Lemma cleanup_keeps_fresh variant c k :
  Inv c -> fresh c k ->
  (if N.eqb variant 0 then 3 <= length (entries c) else 2 <= length (entries c))%nat ->
  exists v, lookup k (entries (cleanup variant c)) = Some (v, 0).
Proof.
  intros HI (e1 & v & e2 & He & Hlt) Hlen.
  assert (Hmed : median variant (entries c) < last c).
  { unfold median, stamps. rewrite He, map_app. cbn [map snd].
    assert (HF : Forall (fun y => y < last c) (map (fun e => snd (snd e)) e1 ++ map (fun e => snd (snd e)) e2)).
    { rewrite <- map_app. apply Forall_forall. intros y Hy. apply in_map_iff in Hy.
      destruct Hy as (e & <- & Hin). rewrite Forall_forall in Hlt. now apply Hlt. }
    rewrite sort_unique_max by exact HF.
    set (rest := map (fun e => snd (snd e)) e1 ++ map (fun e => snd (snd e)) e2) in *.
    assert (Hlr : length (e1 ++ (k, (v, last c)) :: e2) = S (length rest)).
    { unfold rest. rewrite !app_length, !map_length. cbn [length]. lia. }
    rewrite Hlr. rewrite He in Hlen. rewrite Hlr in Hlen.
    assert (Hix : (median_ix variant (S (length rest)) < length rest)%nat).
    { unfold median_ix. destruct (N.eqb variant 0).
      - apply Nat.div_lt_upper_bound; lia.
      - cbn [Nat.sub]. rewrite Nat.sub_0_r. apply Nat.div_lt_upper_bound; lia. }
    rewrite app_nth1 by (rewrite sort_length; exact Hix).
    apply Forall_sort in HF. rewrite Forall_forall in HF. apply HF.
    apply nth_In. now rewrite sort_length. }
  exists v.
  apply In_lookup.
  - apply (inv_nodup _ (cleanup_inv variant c HI)).
  - unfold cleanup. cbn [entries]. apply in_map_iff. exists (k, (v, last c)). split; [reflexivity|].
    apply filter_In. split.
    + rewrite He. apply in_or_app. right. now left.
    + cbn [snd]. destruct (N.leb_spec (last c) (median variant (entries c))); [lia | reflexivity].
Qed.

(* "just used": a hit of get / get_or_set, or an inserting add / get_or_set, makes the key fresh *)
Lemma in_split_nodup (k : N) (x : N * N) (l : list (N * (N * N))) :
  In (k, x) l -> exists e1 e2, l = e1 ++ (k, x) :: e2.
Proof. intros H. destruct (in_split _ _ H) as (a & b & E). eauto. Qed.

Lemma get_hit_fresh c k v : Inv c -> snd (get c k) = Some v -> fresh (fst (get c k)) k.
Proof.
  intros HI. unfold get.
  destruct (lookup k (entries c)) as [[v0 s0]|] eqn:Hl; cbn [fst snd]; [|discriminate].
  intros E; inversion E; subst v0. clear E.
  pose proof (lookup_set_stamp_same k (last c + 1) _ _ _ Hl) as Hl'.
  apply lookup_In in Hl'. destruct (in_split _ _ Hl') as (e1 & e2 & He).
  exists e1, v, e2. cbn [entries last]. split; [exact He|].
  apply Forall_forall. intros e Hin.
  assert (Hnd : NoDup (keys (set_stamp k (last c + 1) (entries c)))).
  { rewrite keys_set_stamp. apply (inv_nodup _ HI). }
  assert (Hine : In e (set_stamp k (last c + 1) (entries c))).
  { rewrite He. apply in_app_or in Hin. apply in_or_app. destruct Hin; [now left | right; now right]. }
  destruct (In_set_stamp _ _ _ _ (inv_nodup _ HI) Hine) as [(v1 & s1 & -> & _)|[Hin0 Hk]].
  - (* a second entry with key k contradicts NoDup *)
    exfalso. rewrite He in Hnd. unfold keys in Hnd. rewrite map_app in Hnd. cbn [map fst] in Hnd.
    apply NoDup_remove_2 in Hnd. apply Hnd. rewrite <- map_app.
    apply in_map_iff. exists (k, (v1, last c + 1)). split; [reflexivity | exact Hin].
  - pose proof (inv_stamp _ HI) as Hst. rewrite Forall_forall in Hst. specialize (Hst _ Hin0). lia.
Qed.

Lemma add_insert_fresh variant c k v : 0 < cap c -> Inv c ->
  lookup k (entries c) = None -> fresh (fst (add variant c k v)) k.
Proof.
  intros Hcap HI Hl. unfold add.
  set (c1 := if N.leb (cap c) (N.of_nat (length (entries c))) then cleanup variant c else c).
  assert (HI1 : Inv c1).
  { unfold c1. destruct (N.leb _ _); [now apply cleanup_inv | assumption]. }
  assert (Hl1 : lookup k (entries c1) = None).
  { unfold c1. destruct (N.leb _ _); [|assumption].
    apply lookup_None. intros Hin. apply keys_cleanup_sub in Hin. now apply lookup_None in Hl. }
  rewrite Hl1. cbn [fst]. exists (entries c1), v, []. cbn [entries last]. split; [reflexivity|].
  rewrite app_nil_r. eapply Forall_impl; [|exact (inv_stamp _ HI1)]. cbn. intros; lia.
Qed.

Theorem recent_survives :
  forall variant n ops k,
    0 < n ->
    let c := final variant (empty n) ops in
    forall c', (* the last operation used k: hit, or insertion *)
      ((exists v, snd (get c k) = Some v /\ c' = fst (get c k))
       \/ (exists v, lookup k (entries c) = None /\ c' = fst (add variant c k v))) ->
      (if N.eqb variant 0 then 3 <= length (entries c') else 2 <= length (entries c'))%nat ->
      exists v, lookup k (entries (cleanup variant c')) = Some (v, 0).
Proof.
  intros variant n ops k Hn c c' Hused Hlen.
  destruct (final_inv variant (empty n) ops Hn (empty_inv n)) as [HI Hc]. fold c in HI, Hc.
  cbn [empty cap] in Hc.
  destruct Hused as [(v & Hg & ->)|(v & Hl & ->)].
  - apply cleanup_keeps_fresh; [now apply get_inv | now apply get_hit_fresh with v | assumption].
  - apply cleanup_keeps_fresh; [apply add_inv; [lia|assumption] | apply add_insert_fresh; [lia|assumption|assumption] | assumption].
Qed.

(* cleanup is only ever called from add when length >= cap, so for cap >= 3 (variant 0) resp.
   cap >= 2 (variant 1) the length hypothesis above always holds at an eviction. *)
Corollary recent_survives_at_eviction :
  forall variant n ops k c',
    (if N.eqb variant 0 then 3 <= n else 2 <= n) ->
    let c := final variant (empty n) ops in
    ((exists v, snd (get c k) = Some v /\ c' = fst (get c k))
     \/ (exists v, lookup k (entries c) = None /\ c' = fst (add variant c k v))) ->
    N.leb (cap c') (N.of_nat (length (entries c'))) = true ->   (* add would evict now *)
    exists v, lookup k (entries (cleanup variant c')) = Some (v, 0).
Proof.
  intros variant n ops k c' Hn c Hused Hfull.
  assert (Hn0 : 0 < n) by (destruct (N.eqb variant 0); lia).
  destruct (final_inv variant (empty n) ops Hn0 (empty_inv n)) as [HI Hc]. fold c in HI, Hc.
  cbn [empty cap] in Hc.
  apply (recent_survives variant n ops k Hn0 c' Hused).
  assert (Hcap' : cap c' = n).
  { destruct Hused as [(v & _ & ->)|(v & _ & ->)]; [rewrite cap_get | rewrite cap_add]; exact Hc. }
  apply N.leb_le in Hfull. rewrite Hcap' in Hfull.
  destruct (N.eqb variant 0); lia.
Qed.

(* ---------- the pinned source (variant 0) fails at capacity 2 ---------- *)
Lemma recent_cap2_refuted_v0 :
  let ops := [OAdd 1 10; OAdd 2 20; OGet 1; OAdd 3 30] in
  snd (step 0 (final 0 (empty 2) ops) (OGet 1)) = None.
Proof. vm_compute. reflexivity. Qed.

Lemma recent_cap2_holds_v1 :
  let ops := [OAdd 1 10; OAdd 2 20; OGet 1; OAdd 3 30] in
  snd (step 1 (final 1 (empty 2) ops) (OGet 1)) = Some 10.
Proof. vm_compute. reflexivity. Qed.

(* capacity 1: the two clauses contradict each other for ANY cache *)
Lemma cap1_impossible :
  forall (state : Type) (size : state -> nat) (has : state -> N -> bool)
         (addf : state -> N -> state),
    (forall s k, has (addf s k) k = true) ->             (* an added key is present ... *)
    (forall s, size s <= 1)%nat ->                          (* ... the bound holds ... *)
    (forall s, (length (filter (has s) [1%N; 2%N]) <= size s)%nat) ->  (* size counts keys *)
    (forall s k k', has s k = true -> has (addf s k') k = true) -> (* just-used survives *)
    forall s0 : state, False.
Proof.
  intros state size has addf Hadd Hsz Hcount Hsurv s0.
  set (s := addf (addf s0 1) 2).
  assert (H1 : has s 1 = true) by (apply Hsurv, Hadd).
  assert (H2 : has s 2 = true) by apply Hadd.
  specialize (Hcount s). specialize (Hsz s). cbn [filter] in Hcount.
  rewrite H1, H2 in Hcount. cbn in Hcount. lia.
Qed.

(* non-vacuity: a reachable state after three evictions meets the hypotheses *)
Example recent_hyp_inhabited :
  let ops := [OAdd 1 1; OAdd 2 2; OAdd 3 3; OAdd 4 4; OAdd 5 5; OAdd 6 6; OAdd 7 7; OAdd 8 8; OAdd 9 9; OGet 8] in
  let c := final 0 (empty 4) ops in
  (3 <= length (entries c))%nat /\ fresh c 8.
Proof.
  vm_compute. split; [lia|].
  eexists [_], _, [_]. split; [reflexivity|]. repeat constructor.
Qed.
