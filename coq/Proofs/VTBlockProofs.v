(* De-duplicated block storage is transparent: every slot reads back its own tile. *)
From Coq Require Import List NArith Bool Arith Lia.
From VT Require Import Model.Crash Proofs.CrashProofs Model.VTBlock.
Import ListNotations.
Local Open Scope N_scope.

Definition slot_ok (data : list N) (blob : option (list N)) (r : range) : Prop :=
  match blob with
  | None => r = (0, 0)
  | Some d => snd r = N.of_nat (length d) /\ sub data (N.to_nat (fst r)) (N.to_nat (snd r)) = d
              /\ (N.to_nat (fst r) + N.to_nat (snd r) <= length data)%nat
  end.

Lemma sub_app_l (a b : list N) o l : (o + l <= length a)%nat -> sub (a ++ b) o l = sub a o l.
Proof.
  intros H. apply list_ext. intros i. rewrite !nth_sub. destruct (Nat.ltb_spec i l); [|reflexivity].
  apply nth_error_app1. lia.
Qed.

Lemma sub_app_r (a b : list N) : sub (a ++ b) (length a) (length b) = b.
Proof.
  apply list_ext. intros i. rewrite nth_sub. destruct (Nat.ltb_spec i (length b)) as [H|H].
  - rewrite nth_error_app2 by lia. f_equal. lia.
  - symmetry. apply nth_error_None. lia.
Qed.

Lemma slot_ok_app data ext blob r : slot_ok data blob r -> slot_ok (data ++ ext) blob r.
Proof.
  destruct blob as [d|]; [|trivial]. intros (H1 & H2 & H3). split; [exact H1|]. split.
  - rewrite sub_app_l by exact H3. exact H2.
  - rewrite app_length. lia.
Qed.

Lemma Forall2_impl' {A B} (P Q : A -> B -> Prop) l1 l2 : (forall a b, P a b -> Q a b) -> Forall2 P l1 l2 -> Forall2 Q l1 l2.
Proof. intros H F. induction F; constructor; auto. Qed.

Definition inv (st : wstate) (done : list (option (list N))) : Prop :=
  Forall2 (slot_ok (w_data st)) done (w_index st) /\
  Forall (fun kr => slot_ok (w_data st) (Some (fst kr)) (snd kr)) (w_seen st).

Lemma lookup_sound d seen r : lookup d seen = Some r -> exists k, In (k, r) seen /\ k = d.
Proof.
  induction seen as [|[k r'] t IH]; [discriminate|]. cbn [lookup]. destruct (list_eqb k d) eqn:E.
  - intros H; injection H as <-. exists k. split; [left; reflexivity|apply list_eqb_eq; exact E].
  - intros H. destruct (IH H) as (k' & Hin & Hk). exists k'. split; [right; exact Hin|exact Hk].
Qed.

Lemma write_tile_inv st done blob : inv st done -> inv (write_tile st blob) (done ++ [blob]).
Proof.
  intros [Hi Hs]. unfold write_tile. destruct blob as [d|].
  - destruct (if N.of_nat (length d) <? dedup_limit then lookup d (w_seen st) else None) as [r|] eqn:El.
    + (* the content is already stored in this block *)
      assert (Hl : lookup d (w_seen st) = Some r) by (destruct (N.of_nat (length d) <? dedup_limit); [exact El|discriminate]).
      destruct (lookup_sound _ _ _ Hl) as (k & Hin & ->).
      rewrite Forall_forall in Hs. pose proof (Hs (d, r) Hin) as Hr. cbn [fst snd] in Hr.
      split; cbn [w_data w_index w_seen]; [apply Forall2_app; [exact Hi|constructor; [exact Hr|constructor]]|apply Forall_forall; exact Hs].
    + set (r := (N.of_nat (length (w_data st)), N.of_nat (length d))).
      assert (Hr : slot_ok (w_data st ++ d) (Some d) r).
      { unfold slot_ok, r. cbn [fst snd]. split; [reflexivity|]. rewrite !Nat2N.id. split; [apply sub_app_r|rewrite app_length; lia]. }
      split; cbn [w_data w_index w_seen].
      * apply Forall2_app; [|constructor; [exact Hr|constructor]].
        eapply Forall2_impl'; [|exact Hi]. intros b x Hx. apply slot_ok_app. exact Hx.
      * assert (Hs' : Forall (fun kr => slot_ok (w_data st ++ d) (Some (fst kr)) (snd kr)) (w_seen st)).
        { eapply Forall_impl; [|exact Hs]. intros kr Hkr. apply (slot_ok_app _ d (Some (fst kr))). exact Hkr. }
        destruct (N.of_nat (length d) <? dedup_limit); [constructor; [exact Hr|exact Hs']|exact Hs'].
  - split; cbn [w_data w_index w_seen]; [apply Forall2_app; [exact Hi|constructor; [reflexivity|constructor]]|exact Hs].
Qed.

Lemma write_block_inv slots : forall st done, inv st done -> inv (fold_left write_tile slots st) (done ++ slots).
Proof.
  induction slots as [|b slots IH]; intros st done H; [rewrite app_nil_r; exact H|].
  cbn [fold_left]. replace (done ++ b :: slots) with ((done ++ [b]) ++ slots) by (rewrite <- app_assoc; reflexivity).
  apply IH. apply write_tile_inv. exact H.
Qed.

(* every slot of a written block reads back its own tile; slots without a tile (and tiles with an
   empty payload, which the format cannot express) read back as "no tile" *)
Theorem block_roundtrip slots i :
  read_slot (write_block slots) i =
    match nth_error slots i with
    | Some (Some d) => if N.of_nat (length d) =? 0 then None else Some d
    | _ => None
    end.
Proof.
  unfold write_block. destruct (write_block_inv slots (mkW [] [] []) []) as [Hi _]; [split; constructor|].
  cbn [app] in Hi. set (st := fold_left write_tile slots (mkW [] [] [])) in *.
  unfold read_slot. revert i. generalize dependent (w_index st). generalize (w_data st) as data.
  intros data idx Hi. induction Hi as [|b r slots' idx' Hb _ IH]; intros i; [destruct i; reflexivity|].
  destruct i as [|i]; [|apply IH]. cbn [nth_error]. destruct r as [o l]. destruct b as [d|].
  - destruct Hb as (H1 & H2 & _). cbn [fst snd] in H1, H2. rewrite H1. destruct (N.of_nat (length d) =? 0); [reflexivity|]. rewrite <- H1, H2. reflexivity.
  - injection Hb as -> ->. reflexivity.
Qed.
