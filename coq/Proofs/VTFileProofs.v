(* C01: a block written by write_block, stored anywhere in a file together with its compressed
   tile index, is read back slot by slot by the reader's byte-level path. *)
From Coq Require Import List NArith Arith Lia Bool.
From VT Require Import Base.Outcome Model.Crash Proofs.CrashProofs Model.VTBlock Proofs.VTBlockProofs Model.VTBytes Proofs.VTBytesProofs Model.VTFile.
Import ListNotations.
Local Open Scope N_scope.

Lemma sub_skip (pre x : list N) o l : sub (pre ++ x) (length pre + o) l = sub x o l.
Proof. unfold sub. rewrite skipn_app. replace (length pre + o - length pre)%nat with o by lia. rewrite skipn_all2 by lia. reflexivity. Qed.

Lemma sub_mid (a m b : list N) : sub (a ++ m ++ b) (length a) (length m) = m.
Proof. rewrite <- (Nat.add_0_r (length a)), sub_skip. unfold sub. cbn [skipn]. rewrite firstn_app, firstn_all, Nat.sub_diag. cbn [firstn]. apply app_nil_r. Qed.

Lemma read_range_at (f : list N) (off len : N) : off + len <= N.of_nat (length f) ->
  read_range f off len = Some (sub f (N.to_nat off) (N.to_nat len)).
Proof. intros H. unfold read_range. replace (off + len <=? N.of_nat (length f)) with true by (symmetry; apply N.leb_le; exact H). reflexivity. Qed.

Lemma add_offset_ok o idx : Forall (fun p => fst p + o <= u64_max) idx ->
  tidx_add_offset o idx = Ok (map (fun p => (fst p + o, snd p)) idx).
Proof.
  induction idx as [|[off len] r IH]; intros H; [reflexivity|]. inversion H as [|? ? H1 Hr]; subst. cbn [fst] in H1.
  cbn [tidx_add_offset map fst snd]. replace (u64_max <? off + o) with false by (symmetry; apply N.ltb_ge; exact H1).
  rewrite (IH Hr). reflexivity.
Qed.

Lemma write_tile_index_length st b : length (w_index (write_tile st b)) = S (length (w_index st)).
Proof.
  unfold write_tile. destruct b as [d|]; [|cbn [w_index]; rewrite app_length; cbn; lia].
  destruct (if N.of_nat (length d) <? dedup_limit then lookup d (w_seen st) else None); cbn [w_index]; rewrite app_length; cbn; lia.
Qed.

Lemma write_block_index_length slots : length (w_index (write_block slots)) = length slots.
Proof.
  unfold write_block. assert (G : forall st, length (w_index (fold_left write_tile slots st)) = (length (w_index st) + length slots)%nat).
  { induction slots as [|b r IH]; intros st; [cbn; lia|]. cbn [fold_left length]. rewrite IH, write_tile_index_length. lia. }
  rewrite G. reflexivity.
Qed.

(* every index entry of a written block lies inside the block's tile data *)
Lemma write_block_ranges slots : Forall (fun r => fst r + snd r <= N.of_nat (length (w_data (write_block slots)))) (w_index (write_block slots)).
Proof.
  unfold write_block. destruct (write_block_inv slots (mkW [] [] []) []) as [Hi _]; [split; constructor|].
  cbn [app] in Hi. set (st := fold_left write_tile slots (mkW [] [] [])) in *.
  generalize dependent (w_index st). generalize (w_data st) as data. intros data idx Hi.
  induction Hi as [|b r s i Hb _ IH]; [constructor|]. constructor; [|exact IH].
  destruct b as [d|]; [destruct Hb as (_ & _ & H); lia|]. cbn in Hb. subst r. cbn. lia.
Qed.

Section WithCodec.
  Variables (brotli : list N -> list N) (unb : list N -> option (list N)).
  Hypothesis codec : forall b, unb (brotli b) = Some b.

  Theorem block_in_file slots pre post slot :
    let st := write_block slots in
    let data := w_data st in
    let cidx := brotli (tidx_as_blob (w_index st)) in
    let file := pre ++ data ++ cidx ++ post in
    let toff := N.of_nat (length pre) in
    N.of_nat (length file) <= u64_max ->                                 (* the file's offsets fit u64 *)
    Forall (fun p => snd p <= u32_max) (w_index st) ->                  (* tile lengths fit the index's u32 *)
    (slot < length slots)%nat ->
    read_tile unb file toff (toff + N.of_nat (length data)) (N.of_nat (length cidx)) (length slots) slot = Ok (read_slot st slot).
  Proof.
    intros st data cidx file toff Hfile Hlen Hslot.
    pose proof (write_block_ranges slots) as Hr. fold st in Hr. fold data in Hr.
    pose proof (write_block_index_length slots) as Hn. fold st in Hn.
    assert (Hflen : length file = (length pre + (length data + (length cidx + length post)))%nat) by (unfold file; rewrite !app_length; reflexivity).
    unfold read_tile, block_tile_index.
    (* 1: the compressed index is where the block definition says *)
    rewrite read_range_at by (rewrite Hflen; unfold toff; lia).
    replace (N.to_nat (toff + N.of_nat (length data))) with (length (pre ++ data)) by (rewrite app_length; unfold toff; lia).
    rewrite Nat2N.id. unfold file at 1. rewrite (app_assoc pre data), sub_mid.
    unfold cidx at 1. rewrite codec.
    (* 2: parse, shift *)
    assert (Hb64 : Forall (fun p => fst p + toff <= u64_max) (w_index st)).
    { rewrite Forall_forall in *. intros p Hp. specialize (Hr p Hp). unfold toff. rewrite Hflen in Hfile. lia. }
    rewrite tidx_roundtrip.
    2:{ rewrite Forall_forall in *. intros p Hp. split; [specialize (Hb64 p Hp); lia|exact (Hlen p Hp)]. }
    cbn [obind]. rewrite (add_offset_ok toff _ Hb64). cbn [obind]. rewrite map_length. replace (@length (N * N) (w_index st)) with (length slots) by (rewrite <- Hn; reflexivity). rewrite Nat.eqb_refl. cbn [obind].
    (* 3: the slot *)
    unfold read_slot. rewrite nth_error_map. unfold range in *.
    destruct (@nth_error (N * N) (w_index st) slot) as [[o l]|] eqn:En; [|exfalso; apply nth_error_None in En; pose proof (write_block_index_length slots) as Hn2; fold st in Hn2; unfold range in *; rewrite Hn2 in En; exact (Nat.lt_irrefl _ (Nat.lt_le_trans _ _ _ Hslot En))].
    cbn [option_map fst snd]. destruct (l =? 0) eqn:El; [reflexivity|].
    apply nth_error_In in En. rewrite Forall_forall in Hr. specialize (Hr (o, l) En). cbn [fst snd] in Hr.
    rewrite read_range_at by (rewrite Hflen; unfold toff; lia). f_equal. f_equal.
    replace (N.to_nat (o + toff)) with (length pre + N.to_nat o)%nat by (unfold toff; lia).
    unfold file. rewrite sub_skip. apply sub_app_l. unfold data in *. lia.
  Qed.
End WithCodec.
