(* C01: a block written by write_block, stored anywhere in a file together with its compressed
   tile index, is read back slot by slot by the reader's byte-level path. *)
From Coq Require Import List NArith Arith Lia Bool.
From VT Require Import Base.Outcome Model.Crash Proofs.CrashProofs Model.VTBlock Proofs.VTBlockProofs Model.VTBytes Proofs.VTBytesProofs Model.VTFile.

Lemma find_unique {A} (f : A -> bool) l b0 :
  (forall b, In b l -> f b = true -> b = b0) -> (exists b, In b l /\ f b = true) -> find f l = Some b0.
Proof.
  intros Hu (b & Hb & Hf). destruct (find f l) as [b'|] eqn:E.
  - apply find_some in E as [E1 E2]. f_equal. apply Hu; assumption.
  - pose proof (find_none f l E b Hb) as G. congruence.
Qed.

Lemma nodup_map_inj {A B} (f : A -> B) : forall l a b, NoDup (map f l) -> In a l -> In b l -> f a = f b -> a = b.
Proof.
  induction l as [|x r IH]; intros a b Hn Ha Hb Hf; [destruct Ha|]. cbn [map] in Hn. inversion Hn as [|? ? Hx Hr]; subst.
  destruct Ha as [<-|Ha], Hb as [<-|Hb]; [reflexivity| | |exact (IH a b Hr Ha Hb Hf)].
  - exfalso. apply Hx. rewrite Hf. apply in_map. exact Hb.
  - exfalso. apply Hx. rewrite <- Hf. apply in_map. exact Ha.
Qed.
Import ListNotations.
Local Open Scope N_scope.

Lemma sub_skip (pre x : list N) o l : sub (pre ++ x) (length pre + o) l = sub x o l.
Proof. unfold sub. rewrite skipn_app. replace (length pre + o - length pre)%nat with o by lia. rewrite skipn_all2 by lia. reflexivity. Qed.

Lemma sub_mid (a m b : list N) : sub (a ++ m ++ b) (length a) (length m) = m.
Proof. rewrite <- (Nat.add_0_r (length a)), sub_skip. unfold sub. cbn [skipn]. rewrite firstn_app, firstn_all, Nat.sub_diag. cbn [firstn]. apply app_nil_r. Qed.

Lemma read_range_at (f : list N) (off len : N) : off + len <= N.of_nat (length f) ->
  read_range f off len = Some (sub f (N.to_nat off) (N.to_nat len)).
Proof. intros H. unfold read_range. replace (off + len <=? N.of_nat (length f)) with true by (symmetry; apply N.leb_le; exact H). reflexivity. Qed.

Lemma add_offset_ok o idx : Forall (fun p => fst p + o <= u64_max) idx ->
  tidx_add_offset o idx = Ok (map (fun p => (fst p + o, snd p)) idx).
Proof.
  unfold tidx_add_offset. induction idx as [|[off len] r IH]; intros H; [reflexivity|]. inversion H as [|? ? H1 Hr]; subst. cbn [fst] in H1.
  cbn [tidx_add_offset_v N.eqb andb map fst snd]. rewrite (IH Hr). cbn. rewrite N.min_l by exact H1. reflexivity.
Qed.

Lemma write_tile_index_length st b : length (w_index (write_tile st b)) = S (length (w_index st)).
Proof.
  unfold write_tile. destruct b as [d|]; [|cbn [w_index]; rewrite app_length; cbn; lia].
  destruct (if N.of_nat (length d) <? dedup_limit then lookup d (w_seen st) else None); cbn [w_index]; rewrite app_length; cbn; lia.
Qed.

Lemma write_block_index_length slots : length (w_index (write_block slots)) = length slots.
Proof.
  unfold write_block. assert (G : forall st, length (w_index (fold_left write_tile slots st)) = (length (w_index st) + length slots)%nat).
  { induction slots as [|b r IH]; intros st; [cbn; lia|]. cbn [fold_left length]. rewrite IH, write_tile_index_length. lia. }
  rewrite G. reflexivity.
Qed.

(* every index entry of a written block lies inside the block's tile data *)
Lemma write_block_ranges slots : Forall (fun r => fst r + snd r <= N.of_nat (length (w_data (write_block slots)))) (w_index (write_block slots)).
Proof.
  unfold write_block. destruct (write_block_inv slots (mkW [] [] []) []) as [Hi _]; [split; constructor|].
  cbn [app] in Hi. set (st := fold_left write_tile slots (mkW [] [] [])) in *.
  generalize dependent (w_index st). generalize (w_data st) as data. intros data idx Hi.
  induction Hi as [|b r s i Hb _ IH]; [constructor|]. constructor; [|exact IH].
  destruct b as [d|]; [destruct Hb as (_ & _ & H); lia|]. cbn in Hb. subst r. cbn. lia.
Qed.

Section WithCodec.
  Variables (brotli : list N -> list N) (unb : list N -> option (list N)).
  Hypothesis codec : forall b, unb (brotli b) = Some b.

  Theorem block_in_file slots pre post slot :
    let st := write_block slots in
    let data := w_data st in
    let cidx := brotli (tidx_as_blob (w_index st)) in
    let file := pre ++ data ++ cidx ++ post in
    let toff := N.of_nat (length pre) in
    N.of_nat (length file) <= u64_max ->                                 (* the file's offsets fit u64 *)
    Forall (fun p => snd p <= u32_max) (w_index st) ->                  (* tile lengths fit the index's u32 *)
    (slot < length slots)%nat ->
    read_tile unb file toff (toff + N.of_nat (length data)) (N.of_nat (length cidx)) (length slots) slot = Ok (read_slot st slot).
  Proof.
    intros st data cidx file toff Hfile Hlen Hslot.
    pose proof (write_block_ranges slots) as Hr. fold st in Hr. fold data in Hr.
    pose proof (write_block_index_length slots) as Hn. fold st in Hn.
    assert (Hflen : length file = (length pre + (length data + (length cidx + length post)))%nat) by (unfold file; rewrite !app_length; reflexivity).
    unfold read_tile, block_tile_index.
    (* 1: the compressed index is where the block definition says *)
    rewrite read_range_at by (rewrite Hflen; unfold toff; lia).
    replace (N.to_nat (toff + N.of_nat (length data))) with (length (pre ++ data)) by (rewrite app_length; unfold toff; lia).
    rewrite Nat2N.id. unfold file at 1. rewrite (app_assoc pre data), sub_mid.
    unfold cidx at 1. rewrite codec.
    (* 2: parse, shift *)
    assert (Hb64 : Forall (fun p => fst p + toff <= u64_max) (w_index st)).
    { rewrite Forall_forall in *. intros p Hp. specialize (Hr p Hp). unfold toff. rewrite Hflen in Hfile. lia. }
    rewrite tidx_roundtrip.
    2:{ rewrite Forall_forall in *. intros p Hp. split; [specialize (Hb64 p Hp); lia|exact (Hlen p Hp)]. }
    cbn [obind]. rewrite (add_offset_ok toff _ Hb64). cbn [obind]. rewrite map_length. replace (@length (N * N) (w_index st)) with (length slots) by (rewrite <- Hn; reflexivity). rewrite Nat.eqb_refl. cbn [obind].
    (* 3: the slot *)
    unfold read_slot. rewrite nth_error_map. unfold range in *.
    destruct (@nth_error (N * N) (w_index st) slot) as [[o l]|] eqn:En; [|exfalso; apply nth_error_None in En; pose proof (write_block_index_length slots) as Hn2; fold st in Hn2; unfold range in *; rewrite Hn2 in En; exact (Nat.lt_irrefl _ (Nat.lt_le_trans _ _ _ Hslot En))].
    cbn [option_map fst snd]. destruct (l =? 0) eqn:El; [reflexivity|].
    apply nth_error_In in En. rewrite Forall_forall in Hr. specialize (Hr (o, l) En). cbn [fst snd] in Hr.
    rewrite read_range_at by (rewrite Hflen; unfold toff; lia). f_equal. f_equal.
    replace (N.to_nat (o + toff)) with (length pre + N.to_nat o)%nat by (unfold toff; lia).
    unfold file. rewrite sub_skip. apply sub_app_l. unfold data in *. lia.
  Qed.
End WithCodec.

(* ================= the whole file ================= *)
Section WholeFile.
  Variables (brotli : list N -> list N) (unb : list N -> option (list N)).
  Hypothesis codec : forall b, unb (brotli b) = Some b.

  Notation region := (region brotli).
  Notation lay_blocks := (lay_blocks brotli).

  Lemma bidx_read_blobs : forall bs raw, Forall bdef_wf bs -> concat_blobs bs = Ok raw ->
    length raw = (33 * length bs)%nat /\ bidx_read (length bs) raw = Ok bs.
  Proof.
    induction bs as [|b r IH]; intros raw Hwf H.
    - inversion H; subst. split; reflexivity.
    - inversion Hwf as [|? ? Hb Hr]; subst. cbn [concat_blobs] in H.
      destruct (bdef_roundtrip b Hb) as (l & Hl & Hlen & Hfrom). rewrite Hl in H. cbn [obind] in H.
      destruct (concat_blobs r) as [raw'| | |] eqn:Er; cbn in H; try discriminate. inversion H; subst.
      destruct (IH raw' Hr eq_refl) as [IH1 IH2]. split; [rewrite app_length, Hlen, IH1; cbn [length]; lia|].
      cbn [length bidx_read]. rewrite firstn_app, Hlen, Nat.sub_diag, firstn_O, app_nil_r. rewrite <- Hlen at 1. rewrite firstn_all, Hfrom. cbn [obind].
      rewrite skipn_app, Hlen, Nat.sub_diag. rewrite <- Hlen at 1. rewrite skipn_all. cbn [app skipn]. rewrite IH2. reflexivity.
  Qed.

  Lemma bidx_roundtrip bs raw : Forall bdef_wf bs -> concat_blobs bs = Ok raw -> bidx_from_blob raw = Ok bs.
  Proof.
    intros Hwf H. destruct (bidx_read_blobs bs raw Hwf H) as [Hl Hr]. unfold bidx_from_blob. rewrite Hl.
    replace (N.of_nat (33 * length bs) / 33) with (N.of_nat (length bs)) by (apply N.div_unique with 0; lia).
    replace (N.of_nat (length bs) * 33 =? N.of_nat (33 * length bs)) with true by (symmetry; apply N.eqb_eq; lia).
    cbn [negb]. rewrite Nat2N.id. exact Hr.
  Qed.

  Lemma lay_blocks_app : forall a b off,
    lay_blocks off (a ++ b) = lay_blocks off a ++ lay_blocks (off + N.of_nat (length (flat_map (fun cs => region (snd cs)) a))) b.
  Proof.
    induction a as [|[[z [[[x0 y0] x1] y1]] slots] r IH]; intros b off; [cbn; rewrite N.add_0_r; reflexivity|].
    cbn [app Model.VTFile.lay_blocks flat_map snd]. f_equal. rewrite IH. f_equal. f_equal.
    rewrite app_length, Nat2N.inj_add. unfold Model.VTFile.region at 2. rewrite app_length, Nat2N.inj_add. lia.
  Qed.

  Definition cell_ok (cs : cell * list (option (list N))) : Prop :=
    let '((z, (x0, y0, x1, y1)), slots) := cs in
    z <= 31 /\ x0 <= x1 /\ y0 <= y1 /\ x1 <= 2 ^ z - 1 /\ y1 <= 2 ^ z - 1 /\ x0 / 256 = x1 / 256 /\ y0 / 256 = y1 / 256 /\
    N.of_nat (length slots) = (x1 - x0 + 1) * (y1 - y0 + 1).
  Definition key (cs : cell * list (option (list N))) : N * N * N :=
    let '((z, (x0, y0, _, _)), _) := cs in (z, x0 / 256, y0 / 256).
  Definition bkey (b : bdef) : N * N * N := (bd_z b, bd_x b, bd_y b).
  Definition fits (b : bdef) : Prop := bd_toff b + bd_tlen b <= u64_max /\ bd_ilen b <= u32_max.

  Lemma lay_keys : forall bl off, map bkey (lay_blocks off bl) = map key bl.
  Proof.
    induction bl as [|[[z [[[x0 y0] x1] y1]] slots] r IH]; intros off; [reflexivity|].
    cbn [Model.VTFile.lay_blocks map key]. rewrite IH. reflexivity.
  Qed.

  Lemma lay_wf : forall bl off, Forall cell_ok bl -> Forall fits (lay_blocks off bl) -> Forall bdef_wf (lay_blocks off bl).
  Proof.
    induction bl as [|[[z [[[x0 y0] x1] y1]] slots] r IH]; intros off Hc Hf; [constructor|].
    inversion Hc as [|? ? Hc1 Hcr]; subst. cbn [Model.VTFile.lay_blocks] in *. inversion Hf as [|? ? Hf1 Hfr]; subst.
    constructor; [|exact (IH _ Hcr Hfr)].
    destruct Hc1 as (Hz & Hx & Hy & Hxm & Hym & Hbx & Hby & _). destruct Hf1 as [Hs Hi]. cbn [bd_toff bd_tlen bd_ilen] in Hs, Hi.
    pose proof (bdef_new_wf z x0 y0 x1 y1 Hz Hx Hy Hxm Hym Hbx Hby) as W. unfold bdef_wf in *. cbn in *.
    destruct W as (W1 & W2 & W3 & W4 & W5 & W6 & W7 & W8 & W9 & W10 & W11 & W12 & W13 & W14 & W15 & _).
    repeat split; try assumption; reflexivity.
  Qed.

  (* x in [x0, x1] with x0 and x1 in the same 256-column lies in that column *)
  Lemma same_block x0 x1 x : x0 <= x -> x <= x1 -> x0 / 256 = x1 / 256 -> x / 256 = x0 / 256.
  Proof.
    intros H0 H1 Hb. apply N.le_antisymm.
    - rewrite Hb. apply N.div_le_mono; lia.
    - apply N.div_le_mono; lia.
  Qed.

  Theorem vt_written_file_lookup h0 metaz A z x0 y0 x1 y1 slots B file :
    hdr_wf h0 ->
    let bl := A ++ ((z, (x0, y0, x1, y1)), slots) :: B in
    vt_assemble brotli h0 metaz bl = Ok file ->
    Forall cell_ok bl -> NoDup (map key bl) ->
    N.of_nat (length file) <= u64_max ->
    Forall fits (lay_blocks (66 + N.of_nat (length metaz)) bl) ->
    Forall (fun p => snd p <= u32_max) (w_index (write_block slots)) ->
    forall x y, x0 <= x <= x1 -> y0 <= y <= y1 ->
    vt_file_lookup unb file z x y =
      Ok (match nth_error slots (N.to_nat ((y - y0) * (x1 - x0 + 1) + (x - x0))) with
          | Some (Some d) => if N.of_nat (length d) =? 0 then None else Some d
          | _ => None
          end).
  Proof.
    intros Hh0 bl Hasm Hcells Hnd Hfile Hfits Hlens x y Hx Hy.
    unfold vt_assemble in Hasm.
    set (start := 66 + N.of_nat (length metaz)) in *.
    set (bs := lay_blocks start bl) in *.
    set (body := flat_map (fun cs => region (snd cs)) bl) in *.
    destruct (concat_blobs bs) as [raw| | |] eqn:Eraw; cbn [obind] in Hasm; try discriminate.
    set (bidxz := brotli raw) in *.
    match type of Hasm with Ok (hdr_to_blob ?hh ++ _) = _ => set (h := hh) in * end.
    assert (Hfile_eq : hdr_to_blob h ++ metaz ++ body ++ bidxz = file) by (apply (f_equal (fun o : outcome (list N) => match o with Ok v => v | _ => [] end)) in Hasm; exact Hasm). clear Hasm.
    assert (Hwf_bs : Forall bdef_wf bs) by (apply lay_wf; assumption).
    pose proof (bidx_roundtrip bs raw Hwf_bs Eraw) as Hbidx.
    (* the cell of interest *)
    assert (Hcell : cell_ok ((z, (x0, y0, x1, y1)), slots)).
    { rewrite Forall_forall in Hcells. apply Hcells. unfold bl. apply in_or_app. right. left. reflexivity. }
    destruct Hcell as (Hz & Hxx & Hyy & Hxm & Hym & Hbx & Hby & Hcount).
    (* header *)
    assert (Hbody_len : N.of_nat (length body) <= u64_max /\ N.of_nat (length bidxz) <= u64_max /\ N.of_nat (length metaz) <= u64_max /\ start + N.of_nat (length body) <= u64_max).
    { rewrite <- Hfile_eq in Hfile. rewrite !app_length in Hfile.
      assert (length (hdr_to_blob h) = 66%nat) by (unfold hdr_to_blob; rewrite !app_length, !be_length; reflexivity). unfold start. lia. }
    assert (Hwf_h : hdr_wf h).
    { destruct Hh0 as (F & C & Z0 & Z1 & B0 & B1 & B2 & B3 & _). destruct Hbody_len as (L1 & L2 & L3 & L4). unfold hdr_wf, h. cbn [h_format h_comp h_z0 h_z1 h_b0 h_b1 h_b2 h_b3 h_moff h_mlen h_boff h_blen].
      unfold u64_max in *. repeat split; try assumption; lia. }
    destruct (hdr_roundtrip h Hwf_h) as [Hhl Hhd].
    unfold vt_file_lookup. rewrite <- Hfile_eq.
    rewrite firstn_app, Hhl, Nat.sub_diag, firstn_O, app_nil_r. rewrite <- Hhl at 1. rewrite firstn_all, Hhd. cbn [obind].
    assert (E1 : h_moff h = 66) by reflexivity. assert (E2 : h_mlen h = N.of_nat (length metaz)) by reflexivity.
    assert (E3 : h_boff h = start + N.of_nat (length body)) by reflexivity. assert (E4 : h_blen h = N.of_nat (length bidxz)) by reflexivity.
    rewrite E1, E2, E3, E4. clearbody h.
    set (F := hdr_to_blob h ++ metaz ++ body ++ bidxz) in *.
    assert (HlenF : length F = (66 + (length metaz + (length body + length bidxz)))%nat) by (unfold F; rewrite !app_length, Hhl; reflexivity).
    (* metadata read while opening *)
    assert (Hmeta : (if 0 <? N.of_nat (length metaz) then match read_range F 66 (N.of_nat (length metaz)) with Some _ => Ok tt | None => Err end else Ok tt) = Ok tt).
    { destruct (0 <? N.of_nat (length metaz)); [|reflexivity]. rewrite read_range_at by (rewrite HlenF; lia). reflexivity. }
    rewrite Hmeta. cbn [obind].
    (* block index *)
    assert (Hb : read_range F (start + N.of_nat (length body)) (N.of_nat (length bidxz)) = Some bidxz).
    { rewrite read_range_at by (rewrite HlenF; unfold start; lia).
      replace (N.to_nat (start + N.of_nat (length body))) with (length (hdr_to_blob h ++ metaz ++ body)) by (rewrite !app_length, Hhl; unfold start; lia).
      rewrite Nat2N.id. unfold F.
      replace (hdr_to_blob h ++ metaz ++ body ++ bidxz) with ((hdr_to_blob h ++ metaz ++ body) ++ bidxz ++ []) by (rewrite app_nil_r, <- !app_assoc; reflexivity).
      rewrite sub_mid. reflexivity. }
    rewrite Hb. unfold bidxz at 1. rewrite codec, Hbidx. cbn [obind].
    replace (31 <? z) with false by (symmetry; apply N.ltb_ge; exact Hz).
    (* the block *)
    unfold bs, bl. rewrite lay_blocks_app. cbn [Model.VTFile.lay_blocks].
    set (st := write_block slots).
    match goal with |- context [bidx_find (?a ++ ?m :: ?b) _ _ _] => set (bsA := a); set (bmid := m); set (bsB := b) end.
    set (offA := bd_toff bmid).
    assert (Hfind : bidx_find (bsA ++ bmid :: bsB) z (x / 256) (y / 256) = Some bmid).
    { unfold bidx_find. apply find_unique.
      - intros b Hin Hm. apply in_rev in Hin.
        apply andb_true_iff in Hm. destruct Hm as [Hm Hm3]. apply andb_true_iff in Hm. destruct Hm as [Hm1 Hm2].
        apply N.eqb_eq in Hm1, Hm2, Hm3.
        assert (Hk : bkey b = bkey bmid).
        { unfold bkey. rewrite Hm1, Hm2, Hm3. unfold bmid, bdef_new. cbn [bd_z bd_x bd_y].
          rewrite (same_block x0 x1 x) by (try apply Hx; exact Hbx). rewrite (same_block y0 y1 y) by (try apply Hy; exact Hby). reflexivity. }
        (* keys are distinct *)
        assert (Hkeys : map bkey (bsA ++ bmid :: bsB) = map key bl).
        { pose proof (lay_keys bl start) as K. unfold bl in K. rewrite lay_blocks_app in K. exact K. }
        rewrite <- Hkeys in Hnd.
        apply (nodup_map_inj bkey (bsA ++ bmid :: bsB) b bmid Hnd Hin); [apply in_or_app; right; left; reflexivity|exact Hk].
      - exists bmid. split; [apply in_rev; rewrite rev_involutive; apply in_or_app; right; left; reflexivity|].
        unfold bmid, bdef_new. cbn [bd_z bd_x bd_y].
        rewrite (same_block x0 x1 x) by (try apply Hx; exact Hbx). rewrite (same_block y0 y1 y) by (try apply Hy; exact Hby).
        rewrite !N.eqb_refl. reflexivity. }
    rewrite Hfind.
    assert (G0 : bd_gx0 bmid = x0) by reflexivity. assert (G1 : bd_gx1 bmid = x1) by reflexivity.
    assert (G2 : bd_gy0 bmid = y0) by reflexivity. assert (G3 : bd_gy1 bmid = y1) by reflexivity.
    rewrite G0, G1, G2, G3.
    replace ((x0 <=? x) && (x <=? x1) && (y0 <=? y) && (y <=? y1)) with true
      by (symmetry; rewrite !andb_true_iff; repeat split; apply N.leb_le; lia).
    cbn [negb]. cbv zeta.
    (* slot count and slot number *)
    assert (Hcnt : N.to_nat ((bd_cx1 bmid - bd_cx0 bmid + 1) * (bd_cy1 bmid - bd_cy0 bmid + 1)) = length slots).
    { unfold bmid, bdef_new. cbn [bd_cx0 bd_cx1 bd_cy0 bd_cy1].
      pose proof (N.div_mod x0 256 ltac:(lia)) as D0. pose proof (N.div_mod y0 256 ltac:(lia)) as D1.
      replace (x1 - x0 / 256 * 256 - (x0 - x0 / 256 * 256)) with (x1 - x0) by lia.
      replace (y1 - y0 / 256 * 256 - (y0 - y0 / 256 * 256)) with (y1 - y0) by lia.
      rewrite <- Hcount. apply Nat2N.id. }
    rewrite Hcnt.
    assert (Hslot : (N.to_nat ((y - y0) * (x1 - x0 + 1) + (x - x0)) < length slots)%nat).
    { assert ((y - y0) * (x1 - x0 + 1) + (x - x0) < N.of_nat (length slots)); [|lia].
      rewrite Hcount. assert (Ha : y - y0 <= y1 - y0) by lia. assert (Hb' : x - x0 <= x1 - x0) by lia.
      remember (y - y0) as a eqn:Ea. remember (x - x0) as c eqn:Ec. remember (x1 - x0) as b eqn:Eb. remember (y1 - y0) as d eqn:Ed. clear - Ha Hb'.
      apply N.lt_le_trans with (a * (b + 1) + (b + 1)); [lia|]. replace (a * (b + 1) + (b + 1)) with ((a + 1) * (b + 1)) by lia.
      rewrite (N.mul_comm (b + 1)). apply N.mul_le_mono_r. lia. }
    (* the file around the block *)
    assert (Hshape : F = (hdr_to_blob h ++ metaz ++ flat_map (fun cs => region (snd cs)) A) ++ w_data st ++ brotli (tidx_as_blob (w_index st)) ++ (flat_map (fun cs => region (snd cs)) B ++ bidxz)).
    { unfold F, body, bl. rewrite flat_map_app. cbn [flat_map snd]. unfold Model.VTFile.region at 2. fold st. rewrite <- !app_assoc. reflexivity. }
    assert (HoffA : offA = N.of_nat (length (hdr_to_blob h ++ metaz ++ flat_map (fun cs => region (snd cs)) A))).
    { unfold offA, bmid. cbn [bd_toff]. unfold start. rewrite !app_length, Hhl, !Nat2N.inj_add, N.add_assoc. reflexivity. }
    assert (G4 : bd_ioff bmid = offA + N.of_nat (length (w_data st))) by reflexivity.
    assert (G5 : bd_ilen bmid = N.of_nat (length (brotli (tidx_as_blob (w_index st))))) by reflexivity.
    fold offA. rewrite G4, G5. rewrite HoffA, Hshape.
    rewrite (block_in_file brotli unb codec slots _ _ (N.to_nat ((y - y0) * (x1 - x0 + 1) + (x - x0)))).
    - f_equal. apply block_roundtrip.
    - fold st. rewrite <- Hshape, <- Hfile_eq in *. exact Hfile.
    - exact Hlens.
    - exact Hslot.
  Qed.

End WholeFile.

Section AnyEncoder.
  Variable unb : list N -> option (list N).

  (* ---- any encoder: a file that is valid by the published layout, in whatever order and with whatever
     padding or sharing its sections are stored ---- *)
  Definition count_of (b : bdef) : N := (bd_cx1 b - bd_cx0 b + 1) * (bd_cy1 b - bd_cy0 b + 1).

  (* the tile index of block b, as stored in the file, holds `idx`, and every non-empty entry names bytes inside the file *)
  Definition block_stored (file : list N) (b : bdef) (idx : list (N * N)) : Prop :=
    exists cz, read_range file (bd_ioff b) (bd_ilen b) = Some cz /\ unb cz = Some (tidx_as_blob idx) /\
      length idx = N.to_nat (count_of b) /\
      Forall (fun p => fst p + bd_toff b <= u64_max /\ snd p <= u32_max /\ (0 < snd p -> fst p + bd_toff b + snd p <= N.of_nat (length file))) idx.

  Definition file_valid (file : list N) (h : hdr) (bs : list bdef) (idx_of : bdef -> list (N * N)) : Prop :=
    hdr_from_blob (firstn 66 file) = Ok h /\
    (0 < h_mlen h -> h_moff h + h_mlen h <= N.of_nat (length file)) /\
    (exists bz raw, read_range file (h_boff h) (h_blen h) = Some bz /\ unb bz = Some raw /\ bidx_from_blob raw = Ok bs) /\
    NoDup (map bkey bs) /\
    Forall (fun b => block_stored file b (idx_of b)) bs.

  Lemma bidx_read_shape : forall n l bs, bidx_read n l = Ok bs -> Forall bdef_shape bs.
  Proof.
    induction n as [|k IH]; intros l bs H; [inversion H; constructor|]. cbn [bidx_read] in H.
    destruct (bdef_from_blob (firstn 33 l)) as [b| | |] eqn:Eb; cbn [obind] in H; try discriminate.
    destruct (bidx_read k (skipn 33 l)) as [r| | |] eqn:Er; cbn in H; try discriminate. inversion H; subst.
    constructor; [exact (bdef_from_blob_shape _ _ Eb)|exact (IH _ _ Er)].
  Qed.

  Lemma slot_in_index b x y : bdef_shape b -> bd_gx0 b <= x -> x <= bd_gx1 b -> bd_gy0 b <= y -> y <= bd_gy1 b ->
    (y - bd_gy0 b) * (bd_gx1 b - bd_gx0 b + 1) + (x - bd_gx0 b) < count_of b.
  Proof.
    intros (Hcx & Hcy & G0 & G1 & G2 & G3 & _) Hx0 Hx1 Hy0 Hy1. unfold count_of.
    replace (bd_cx1 b - bd_cx0 b) with (bd_gx1 b - bd_gx0 b) by lia. replace (bd_cy1 b - bd_cy0 b) with (bd_gy1 b - bd_gy0 b) by lia.
    assert (Ha : y - bd_gy0 b <= bd_gy1 b - bd_gy0 b) by lia. assert (Hc : x - bd_gx0 b <= bd_gx1 b - bd_gx0 b) by lia.
    remember (y - bd_gy0 b) as a eqn:E1. remember (x - bd_gx0 b) as c eqn:E2. remember (bd_gx1 b - bd_gx0 b) as w eqn:E3. remember (bd_gy1 b - bd_gy0 b) as d eqn:E4. clear - Ha Hc.
    apply N.lt_le_trans with (a * (w + 1) + (w + 1)); [lia|]. replace (a * (w + 1) + (w + 1)) with ((a + 1) * (w + 1)) by lia.
    rewrite (N.mul_comm (w + 1)). apply N.mul_le_mono_r. lia.
  Qed.

  Theorem vt_valid_file_lookup file h bs idx_of z x y :
    file_valid file h bs idx_of -> z <= 31 ->
    vt_file_lookup unb file z x y =
      Ok (match find (fun b => (bd_z b =? z) && (bd_x b =? x / 256) && (bd_y b =? y / 256)) bs with
          | None => None
          | Some b =>
              if (bd_gx0 b <=? x) && (x <=? bd_gx1 b) && (bd_gy0 b <=? y) && (y <=? bd_gy1 b) then
                match nth_error (idx_of b) (N.to_nat ((y - bd_gy0 b) * (bd_gx1 b - bd_gx0 b + 1) + (x - bd_gx0 b))) with
                | Some (o, l) => if l =? 0 then None else Some (sub file (N.to_nat (o + bd_toff b)) (N.to_nat l))
                | None => None        (* never: the slot number of a covered coordinate lies inside the index *)
                end
              else None
          end).
  Proof.
    intros (Hh & Hm & (bz & raw & Hb1 & Hb2 & Hb3) & Hnd & Hblocks) Hz.
    unfold vt_file_lookup. rewrite Hh. cbn [obind].
    assert (Hmeta : (if 0 <? h_mlen h then match read_range file (h_moff h) (h_mlen h) with Some _ => Ok tt | None => Err end else Ok tt) = Ok tt).
    { destruct (0 <? h_mlen h) eqn:E; [|reflexivity]. apply N.ltb_lt in E. rewrite read_range_at by exact (Hm E). reflexivity. }
    rewrite Hmeta. cbn [obind]. rewrite Hb1, Hb2, Hb3. cbn [obind].
    replace (31 <? z) with false by (symmetry; apply N.ltb_ge; exact Hz).
    (* with distinct keys the HashMap's "last insert wins" is the list's only match *)
    assert (Hfind : bidx_find bs z (x / 256) (y / 256) = find (fun b => (bd_z b =? z) && (bd_x b =? x / 256) && (bd_y b =? y / 256)) bs).
    { unfold bidx_find. set (f := fun b : bdef => (bd_z b =? z) && (bd_x b =? x / 256) && (bd_y b =? y / 256)).
      destruct (find f bs) as [b|] eqn:E.
      - apply find_some in E. destruct E as [Hin Hf]. apply find_unique.
        + intros b' Hin' Hf'. apply in_rev in Hin'. apply (nodup_map_inj bkey bs b' b Hnd Hin' Hin).
          unfold f in Hf, Hf'. apply andb_true_iff in Hf, Hf'. destruct Hf as [Hf1 Hf3], Hf' as [Hf1' Hf3'].
          apply andb_true_iff in Hf1, Hf1'. destruct Hf1 as [Hf1 Hf2], Hf1' as [Hf1' Hf2'].
          apply N.eqb_eq in Hf1, Hf2, Hf3, Hf1', Hf2', Hf3'. unfold bkey. congruence.
        + exists b. split; [apply in_rev; rewrite rev_involutive; exact Hin|exact Hf].
      - destruct (find f (rev bs)) as [b|] eqn:E2; [|reflexivity]. apply find_some in E2. destruct E2 as [Hin Hf].
        apply in_rev in Hin. pose proof (find_none f bs E b Hin). congruence. }
    rewrite Hfind.
    destruct (find _ bs) as [b|] eqn:Eb; [|reflexivity].
    apply find_some in Eb. destruct Eb as [Hin _].
    destruct ((bd_gx0 b <=? x) && (x <=? bd_gx1 b) && (bd_gy0 b <=? y) && (y <=? bd_gy1 b)) eqn:Ein; cbn [negb]; [|reflexivity].
    assert (Hshape : bdef_shape b).
    { unfold bidx_from_blob in Hb3. destruct (negb _); [discriminate|]. pose proof (bidx_read_shape _ _ _ Hb3) as Hs. rewrite Forall_forall in Hs. exact (Hs b Hin). }
    repeat (apply andb_true_iff in Ein; destruct Ein as [Ein ?]). repeat match goal with H : (_ <=? _) = true |- _ => apply N.leb_le in H end.
    cbv zeta. rewrite Forall_forall in Hblocks. destruct (Hblocks b Hin) as (cz & Hc1 & Hc2 & Hlen & Hents).
    set (slot := N.to_nat ((y - bd_gy0 b) * (bd_gx1 b - bd_gx0 b + 1) + (x - bd_gx0 b))).
    destruct (nth_error (idx_of b) slot) as [[o l]|] eqn:En.
    2:{ exfalso. apply nth_error_None in En. rewrite Hlen in En. pose proof (slot_in_index b x y Hshape ltac:(assumption) ltac:(assumption) ltac:(assumption) ltac:(assumption)) as Hlt. unfold slot in En. lia. }
    unfold read_tile, block_tile_index. rewrite Hc1, Hc2.
    assert (Hb64 : Forall (fun p => fst p + bd_toff b <= u64_max) (idx_of b)) by (eapply Forall_impl; [|exact Hents]; cbn; intros p Hp; apply Hp).
    rewrite tidx_roundtrip.
    2:{ eapply Forall_impl; [|exact Hents]. cbn. intros p (Hp1 & Hp2 & _). split; [lia|exact Hp2]. }
    cbn [obind]. rewrite (add_offset_ok (bd_toff b) _ Hb64). cbn [obind]. rewrite map_length. fold (count_of b). rewrite Hlen, Nat.eqb_refl. cbn [obind].
    rewrite nth_error_map, En. cbn [option_map fst snd].
    destruct (l =? 0) eqn:El; [reflexivity|]. apply N.eqb_neq in El.
    apply nth_error_In in En. rewrite Forall_forall in Hents. destruct (Hents (o, l) En) as (_ & _ & Hin_file). cbn [fst snd] in Hin_file.
    rewrite read_range_at by (apply Hin_file; lia). reflexivity.
  Qed.
End AnyEncoder.

(* ================= C19: the lookup path never panics ================= *)
From VT Require Import Proofs.NoPanicProofs.
Section LookupTotal.
  Variable unb : list N -> option (list N).
  (* the decompressor hands back bytes *)
  Hypothesis unb_bytes : forall b r, unb b = Some r -> Forall (fun x => x < 256) r.

  Lemma read_range_bytes f o n r : Forall (fun x => x < 256) f -> read_range f o n = Some r -> Forall (fun x => x < 256) r.
  Proof.
    intros Hf. unfold read_range. destruct (o + n <=? N.of_nat (length f)); [|discriminate]. intros H; inversion H; subst.
    unfold sub. rewrite <- (firstn_skipn (N.to_nat o) f) in Hf. apply Forall_app in Hf. destruct Hf as [_ Hf].
    rewrite <- (firstn_skipn (N.to_nat n) (skipn (N.to_nat o) f)) in Hf. apply Forall_app in Hf. exact (proj1 Hf).
  Qed.

  Lemma bidx_read_soft : forall n l, Forall (fun x => x < 256) l -> soft (bidx_read n l).
  Proof.
    induction n as [|k IH]; intros l Hl; [exact I|]. cbn [bidx_read].
    assert (H1 : Forall (fun x => x < 256) (firstn 33 l)) by (rewrite <- (firstn_skipn 33 l) in Hl; apply Forall_app in Hl; exact (proj1 Hl)).
    assert (H2 : Forall (fun x => x < 256) (skipn 33 l)) by (rewrite <- (firstn_skipn 33 l) in Hl; apply Forall_app in Hl; exact (proj2 Hl)).
    pose proof (bdef_from_blob_soft _ H1) as S1. destruct (bdef_from_blob (firstn 33 l)); cbn [obind]; try exact S1.
    specialize (IH _ H2). destruct (bidx_read k (skipn 33 l)); cbn; exact IH.
  Qed.

  Theorem vt_file_lookup_soft file z x y : Forall (fun b => b < 256) file -> soft (vt_file_lookup unb file z x y).
  Proof.
    intros Hf. unfold vt_file_lookup.
    pose proof (hdr_from_blob_soft (firstn 66 file)) as Sh. destruct (hdr_from_blob (firstn 66 file)) as [h| | |]; cbn [obind]; try exact Sh.
    destruct (0 <? h_mlen h); [destruct (read_range file (h_moff h) (h_mlen h)); cbn [obind]; [|exact I]|cbn [obind]].
    all: destruct (read_range file (h_boff h) (h_blen h)) as [bz|] eqn:Eb; [|exact I].
    all: destruct (unb bz) as [raw|] eqn:Er; [|exact I].
    all: pose proof (unb_bytes _ _ Er) as Hraw.
    all: assert (Sb : soft (bidx_from_blob raw)) by (unfold bidx_from_blob; destruct (negb _); [exact I|apply bidx_read_soft; exact Hraw]).
    all: destruct (bidx_from_blob raw) as [bs| | |] eqn:Ebs; cbn [obind]; try exact Sb.
    all: destruct (31 <? z); [exact I|].
    all: destruct (bidx_find bs z (x / 256) (y / 256)) as [b|] eqn:Efind; [|exact I].
    all: destruct ((bd_gx0 b <=? x) && (x <=? bd_gx1 b) && (bd_gy0 b <=? y) && (y <=? bd_gy1 b)) eqn:Ein; cbn [negb]; [|exact I].
    all: cbv zeta.
    all: assert (Hshape : bdef_shape b).
    1,3: (unfold bidx_find in Efind; apply find_some in Efind; destruct Efind as [Hin _]; apply in_rev in Hin;
          unfold bidx_from_blob in Ebs; destruct (negb _); [discriminate|]; pose proof (bidx_read_shape _ _ _ Ebs) as Hs; rewrite Forall_forall in Hs; exact (Hs b Hin)).
    all: repeat (apply andb_true_iff in Ein; destruct Ein as [Ein ?]); repeat match goal with H : (_ <=? _) = true |- _ => apply N.leb_le in H end.
    all: pose proof (slot_in_index b x y Hshape ltac:(assumption) ltac:(assumption) ltac:(assumption) ltac:(assumption)) as Hslot.
    all: unfold read_tile, block_tile_index.
    all: destruct (read_range file (bd_ioff b) (bd_ilen b)) as [cz|] eqn:Ec; [|exact I].
    all: destruct (unb cz) as [rawidx|] eqn:Eu; [|exact I].
    all: pose proof (tidx_from_blob_soft rawidx (unb_bytes _ _ Eu)) as St.
    all: destruct (tidx_from_blob rawidx) as [idx| | |]; cbn [obind]; try exact St.
    all: destruct (tidx_add_offset_total (bd_toff b) idx) as (out & Eo); rewrite Eo; cbn [obind].
    all: fold (count_of b).
    all: destruct (Nat.eqb (length out) (N.to_nat (count_of b))) eqn:El; cbn [obind]; [|exact I].
    all: apply Nat.eqb_eq in El.
    all: destruct (nth_error out (N.to_nat ((y - bd_gy0 b) * (bd_gx1 b - bd_gx0 b + 1) + (x - bd_gx0 b)))) as [[o ln]|] eqn:En;
         [destruct (ln =? 0); [exact I|destruct (read_range file o ln); exact I]|].
    all: exfalso; apply nth_error_None in En; lia.
  Qed.
End LookupTotal.
