(* C13: with positional reads every caller gets exactly the bytes of its own range, for every
   number of callers and every interleaving; with seek+read on the shared offset it does not. *)
From Coq Require Import List NArith Bool Lia Arith.
From VT Require Import Model.FileIO.
Import ListNotations.
Local Open Scope N_scope.

(* a thread is "positional" if its remaining program consists of Pread only *)
Definition positional (t : thread) : Prop := Forall (fun c => match c with Pread _ _ => True | _ => False end) (fst t).

(* what a positional thread will have read when it is done, independent of everything else *)
Definition expected (file : list N) (t : thread) : list (list N) :=
  snd t ++ map (fun c => match c with Pread off len => slice file off len | _ => [] end) (fst t).

Lemma nth_error_update {A} i j (x : A) l : nth_error (update i x l) j =
  if Nat.eqb i j then match nth_error l i with Some _ => Some x | None => None end else nth_error l j.
Proof.
  revert i j. induction l as [|a r IH]; intros i j.
  - cbn [update]. destruct i, j; cbn [nth_error Nat.eqb]; try reflexivity. destruct (Nat.eqb i j); reflexivity.
  - destruct i as [|i], j as [|j]; cbn [update nth_error Nat.eqb]; try reflexivity. apply IH.
Qed.

Lemma update_length {A} i (x : A) l : length (update i x l) = length l.
Proof. revert i. induction l as [|a r IH]; intros [|i]; cbn [update length]; auto. Qed.

Theorem pread_isolated file : forall sched pos ths,
  Forall positional ths ->
  let '(pos', ths') := run_sched file pos ths sched in
  length ths' = length ths /\ Forall positional ths'
  /\ forall i t t', nth_error ths i = Some t -> nth_error ths' i = Some t' -> expected file t' = expected file t.
Proof.
  induction sched as [|i r IH]; intros pos ths Hp; cbn [run_sched].
  - split; [reflexivity|]. split; [exact Hp|]. intros i t t' H1 H2. congruence.
  - destruct (nth_error ths i) as [[[|c prog] res]|] eqn:E; try apply (IH pos ths Hp).
    assert (Hpi : positional (c :: prog, res)) by (rewrite Forall_forall in Hp; apply Hp; eapply nth_error_In; eauto).
    unfold positional in Hpi. cbn [fst] in Hpi. inversion Hpi as [|? ? Hc Hprog]; subst.
    destruct c as [off|len|off len]; try contradiction. cbn [exec].
    set (t1 := (prog, res ++ [slice file off len])).
    assert (Hp1 : Forall positional (update i t1 ths)).
    { apply Forall_forall. intros t Ht. apply In_nth_error in Ht. destruct Ht as (j & Hj). rewrite nth_error_update in Hj.
      destruct (Nat.eqb i j); [rewrite E in Hj; inversion Hj; subst; exact Hprog|].
      rewrite Forall_forall in Hp. apply Hp. eapply nth_error_In; eauto. }
    specialize (IH pos (update i t1 ths) Hp1). destruct (run_sched file pos (update i t1 ths) r) as [pos' ths'].
    destruct IH as (L & P & S). split; [now rewrite L, update_length|]. split; [exact P|].
    intros j t t' H1 H2. rewrite (S j (if Nat.eqb i j then t1 else t) t'); [|rewrite nth_error_update; destruct (Nat.eqb i j) eqn:Eij; [apply Nat.eqb_eq in Eij; subst j; now rewrite E | exact H1] | exact H2].
    destruct (Nat.eqb i j) eqn:Eij; [|reflexivity]. apply Nat.eqb_eq in Eij. subst j. rewrite E in H1. inversion H1; subst t.
    unfold expected, t1. cbn [fst snd map]. now rewrite <- app_assoc.
Qed.

(* corollary in the terms of the property: any number of concurrent read_range calls (pread variant),
   any schedule that lets every call finish: call i has read exactly file[off_i, off_i+len_i) *)
Theorem read_range_concurrent_eq_sequential file calls sched pos :
  let '(_, ths') := run_sched file pos (start 1 calls) sched in
  all_done ths' = true ->
  forall i off len, nth_error calls i = Some (off, len) ->
    exists t', nth_error ths' i = Some t' /\ snd t' = [slice file off len].
Proof.
  assert (Hp : Forall positional (start 1 calls)).
  { unfold start. apply Forall_forall. intros t Ht. apply in_map_iff in Ht. destruct Ht as ([o l] & <- & _).
    unfold positional, read_range_prog. cbn. repeat constructor. }
  pose proof (pread_isolated file sched pos (start 1 calls) Hp) as H.
  destruct (run_sched file pos (start 1 calls) sched) as [pos' ths']. destruct H as (L & _ & S).
  intros Hdone i off len Hc.
  assert (Hi : (i < length ths')%nat).
  { rewrite L. unfold start. rewrite map_length. apply nth_error_Some. congruence. }
  destruct (nth_error ths' i) as [t'|] eqn:E; [|apply nth_error_None in E; lia].
  exists t'. split; [reflexivity|].
  assert (Hs : nth_error (start 1 calls) i = Some (read_range_prog 1 off len, [])).
  { unfold start. rewrite nth_error_map, Hc. reflexivity. }
  pose proof (S i _ t' Hs E) as Hexp. unfold expected in Hexp. cbn [fst snd read_range_prog N.eqb map app] in Hexp.
  assert (Hfin : fst t' = []).
  { unfold all_done in Hdone. rewrite forallb_forall in Hdone. specialize (Hdone t' (nth_error_In _ _ E)). destruct (fst t'); [reflexivity | discriminate]. }
  rewrite Hfin in Hexp. cbn [map] in Hexp. rewrite app_nil_r in Hexp. exact Hexp.
Qed.

(* the seek+read variant on the shared offset: two callers, schedule seekA seekB readA readB *)
Theorem seek_read_races :
  let file := [10; 11; 12; 13; 14; 15; 16; 17] in
  let '(_, ths) := run_sched file 0 (start 0 [(0, 2); (4, 2)]) [0; 1; 0; 1]%nat in
  all_done ths = true /\ nth_error ths 0 = Some ([], [[14; 15]]) (* caller A asked for bytes 0..1 = [10; 11] *).
Proof. vm_compute. split; reflexivity. Qed.

(* ---------- lookups through the mutex-protected index cache ---------- *)
From VT Require Import Model.Cache Proofs.CacheProofs.
(* every cache access happens inside a critical section, so an interleaving of lookups is a sequence
   of get_or_set operations whose loader decodes the index for exactly that key: result = load k *)
Theorem cached_lookup_transparent variant n (load : N -> N) ks k : (0 < n)%N ->
  let ops := map (fun k => OGetOrSet k (Some (load k))) ks in
  snd (step variant (final variant (empty n) ops) (OGetOrSet k (Some (load k)))) = Some (load k).
Proof.
  intros Hn ops.
  destruct (snd (step variant (final variant (empty n) ops) (OGetOrSet k (Some (load k))))) as [v|] eqn:E.
  - pose proof (provenance_all_histories variant n ops _ v Hn E) as Hin. cbn [op_key] in Hin.
    unfold supplied in Hin. apply in_flat_map in Hin. destruct Hin as (o & Ho & Hv).
    apply in_app_or in Ho. destruct Ho as [Ho|[<-|[]]].
    + unfold ops in Ho. apply in_map_iff in Ho. destruct Ho as (k' & <- & _). cbn in Hv. destruct Hv as [Hv|[]]. inversion Hv; subst. reflexivity.
    + cbn in Hv. destruct Hv as [Hv|[]]. inversion Hv; subst. reflexivity.
  - exfalso. cbn [step] in E. destruct (get_or_set_spec variant (final variant (empty n) ops) k (Some (load k))) as (H1 & _ & H3).
    destruct (lookup k (entries (final variant (empty n) ops))) as [[v s]|] eqn:El.
    + destruct (H1 v s eq_refl) as [A B]. rewrite A, B in E. discriminate.
    + destruct (H3 (load k) eq_refl eq_refl) as [A _]. rewrite A in E. discriminate.
Qed.
