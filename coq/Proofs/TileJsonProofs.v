(* C17: a TileJSON document comes back from a container unchanged, zoom range and bounds only narrowed. *)
From Coq Require Import List NArith ZArith Bool Lia.
From VT Require Import Model.Http Model.TileJson.
Import ListNotations.

Lemma str_eqb_eq a b : str_eqb a b = true <-> a = b.
Proof. unfold str_eqb. destruct (list_eq_dec N.eq_dec a b); split; congruence. Qed.
Lemma str_eqb_refl a : str_eqb a a = true.
Proof. now apply str_eqb_eq. Qed.

Lemma m_get_put k k' v m : m_get k (m_put k' v m) = if str_eqb k k' then Some v else m_get k m.
Proof.
  induction m as [|[k2 v2] r IH]; cbn [m_put m_get].
  - reflexivity.
  - destruct (str_eqb k' k2) eqn:E1; cbn [m_get].
    + apply str_eqb_eq in E1. subst k2. destruct (str_eqb k k'); reflexivity.
    + rewrite IH. destruct (str_eqb k k2) eqn:E2; [|reflexivity].
      apply str_eqb_eq in E2. subst k2. destruct (str_eqb k k') eqn:E3; [|reflexivity].
      apply str_eqb_eq in E3. subst k'. rewrite str_eqb_refl in E1. discriminate.
Qed.

Definition is_zoom (k : str) : bool := str_eqb k k_minzoom || str_eqb k k_maxzoom.

Lemma get_put_others k o : forall m,
  m_get k (put_others o m) = if is_zoom k then m_get k m else match m_get k (rev o) with Some v => Some v | None => m_get k m end.
Proof.
  induction o as [|[k1 v1] r IH]; intros m; cbn [put_others rev].
  - cbn [m_get]. destruct (is_zoom k); reflexivity.
  - rewrite IH. fold (is_zoom k1).
    assert (G : forall l, m_get k (l ++ [(k1, v1)]) = match m_get k l with Some x => Some x | None => if str_eqb k k1 then Some v1 else None end).
    { induction l as [|[a b] l IHl]; cbn [app m_get]; [reflexivity|]. destruct (str_eqb k a); [reflexivity | exact IHl]. }
    rewrite G. destruct (is_zoom k) eqn:Zk.
    + destruct (is_zoom k1) eqn:Z1; [reflexivity|]. rewrite m_get_put.
      destruct (str_eqb k k1) eqn:E; [|reflexivity]. apply str_eqb_eq in E. subst k1. congruence.
    + destruct (m_get k (rev r)) as [x|]; [reflexivity|].
      destruct (is_zoom k1) eqn:Z1.
      * destruct (str_eqb k k1) eqn:E; [|reflexivity]. apply str_eqb_eq in E. subst k1. congruence.
      * rewrite m_get_put. destruct (str_eqb k k1); reflexivity.
Qed.

(* the last entry of a key in an association list that was built by m_put is its only one; for
   lists with unique keys `rev` does not matter: *)
Fixpoint keys_unique (m : vals) : Prop :=
  match m with [] => True | (k, _) :: r => m_get k r = None /\ keys_unique r end.
Lemma m_get_rev_unique k m : keys_unique m -> m_get k (rev m) = m_get k m.
Proof.
  induction m as [|[k1 v1] r IH]; intros U; cbn [rev m_get]; [reflexivity|]. destruct U as [U1 U2].
  assert (G : forall l, m_get k (l ++ [(k1, v1)]) = match m_get k l with Some x => Some x | None => if str_eqb k k1 then Some v1 else None end).
  { induction l as [|[a b] l IHl]; cbn [app m_get]; [reflexivity|]. destruct (str_eqb k a); [reflexivity | exact IHl]. }
  rewrite G, (IH U2). destruct (str_eqb k k1) eqn:E.
  - apply str_eqb_eq in E. subst k1. now rewrite U1.
  - destruct (m_get k r); reflexivity.
Qed.

(* ---- merge, key by key ---- *)
Theorem merge_other_keys v a b k : is_zoom k = false -> keys_unique (t_vals b) ->
  m_get k (t_vals (merge v a b)) = match m_get k (t_vals b) with Some x => Some x | None => m_get k (t_vals a) end.
Proof.
  intros Zk U. unfold merge. cbn [t_vals]. rewrite get_put_others, Zk, (m_get_rev_unique _ _ U).
  destruct (m_get k (t_vals b)) as [x|]; [reflexivity|].
  assert (K1 : str_eqb k k_minzoom = false) by (unfold is_zoom in Zk; apply orb_false_iff in Zk; tauto).
  assert (K2 : str_eqb k k_maxzoom = false) by (unfold is_zoom in Zk; apply orb_false_iff in Zk; tauto).
  destruct (get_byte k_maxzoom (t_vals b)); destruct (get_byte k_minzoom (t_vals b)); rewrite ?m_get_put, ?K1, ?K2; reflexivity.
Qed.

Theorem merge_minzoom a b :
  get_byte k_minzoom (t_vals (merge 1 a b)) =
  match get_byte k_minzoom (t_vals b), get_byte k_minzoom (t_vals a) with
  | Some o, Some s => Some (N.min s o)
  | Some o, None => Some o
  | None, r => r
  end.
Proof.
  assert (Z : is_zoom k_minzoom = true) by reflexivity.
  assert (E : str_eqb k_minzoom k_maxzoom = false) by reflexivity.
  unfold merge. cbn [t_vals N.eqb]. unfold get_byte at 1. rewrite get_put_others, Z.
  set (v1 := match get_byte k_minzoom (t_vals b) with Some omin => m_put k_minzoom _ (t_vals a) | None => t_vals a end).
  assert (H2 : forall x : option N,
             m_get k_minzoom (match x with Some omax => m_put k_maxzoom (TByte (match get_byte k_maxzoom v1 with Some mz => N.max mz omax | None => omax end)) v1 | None => v1 end)
             = m_get k_minzoom v1).
  { intros [o|]; [rewrite m_get_put, E|]; reflexivity. }
  rewrite H2. unfold v1. destruct (get_byte k_minzoom (t_vals b)) as [o|].
  - rewrite m_get_put, str_eqb_refl. destruct (get_byte k_minzoom (t_vals a)); reflexivity.
  - reflexivity.
Qed.

Theorem merge_maxzoom v a b :
  get_byte k_maxzoom (t_vals (merge v a b)) =
  match get_byte k_maxzoom (t_vals b), get_byte k_maxzoom (t_vals a) with
  | Some o, Some s => Some (N.max s o)
  | Some o, None => Some o
  | None, r => r
  end.
Proof.
  unfold merge. cbn [t_vals]. unfold get_byte at 1. rewrite get_put_others.
  assert (Z : is_zoom k_maxzoom = true) by reflexivity. rewrite Z.
  assert (E : str_eqb k_maxzoom k_minzoom = false) by reflexivity.
  set (v1 := match get_byte k_minzoom (t_vals b) with Some omin => m_put k_minzoom _ (t_vals a) | None => t_vals a end).
  assert (H1 : get_byte k_maxzoom v1 = get_byte k_maxzoom (t_vals a)).
  { unfold v1, get_byte. destruct (match m_get k_minzoom (t_vals b) with Some (TByte n) => Some n | _ => None end); [rewrite m_get_put, E|]; reflexivity. }
  destruct (get_byte k_maxzoom (t_vals b)) as [o|].
  - rewrite m_get_put, str_eqb_refl, H1. destruct (get_byte k_maxzoom (t_vals a)); reflexivity.
  - fold (get_byte k_maxzoom v1). rewrite H1. destruct (get_byte k_maxzoom (t_vals a)); reflexivity.
Qed.

(* what the tar and directory readers do: the stored document merged into the default document is
   the stored document (it carries a "tilejson" key, as every parsed document does) *)
Theorem merge_into_default d : keys_unique (t_vals d) -> m_get k_tilejson (t_vals d) <> None ->
  t_bounds (merge 1 tj_default d) = t_bounds d /\ t_center (merge 1 tj_default d) = t_center d /\
  get_byte k_minzoom (t_vals (merge 1 tj_default d)) = get_byte k_minzoom (t_vals d) /\
  get_byte k_maxzoom (t_vals (merge 1 tj_default d)) = get_byte k_maxzoom (t_vals d) /\
  forall k, is_zoom k = false -> m_get k (t_vals (merge 1 tj_default d)) = m_get k (t_vals d).
Proof.
  intros U T. split; [|split; [|split; [|split]]].
  - unfold merge, tj_default. cbn [t_bounds]. destruct (t_bounds d); reflexivity.
  - unfold merge, tj_default. cbn [t_center]. destruct (t_center d); reflexivity.
  - rewrite merge_minzoom. unfold tj_default at 1. cbn [t_vals]. change (get_byte k_minzoom [(k_tilejson, TString [51; 46; 48; 46; 48]%N)]) with (@None N).
    destruct (get_byte k_minzoom (t_vals d)); reflexivity.
  - rewrite merge_maxzoom. unfold tj_default at 1. cbn [t_vals]. change (get_byte k_maxzoom [(k_tilejson, TString [51; 46; 48; 46; 48]%N)]) with (@None N).
    destruct (get_byte k_maxzoom (t_vals d)); reflexivity.
  - intros k Zk. rewrite (merge_other_keys 1 tj_default d k Zk U).
    destruct (m_get k (t_vals d)) as [x|] eqn:E; [reflexivity|].
    unfold tj_default. cbn [t_vals m_get]. destruct (str_eqb k k_tilejson) eqn:Ek; [|reflexivity].
    apply str_eqb_eq in Ek. subst k. congruence.
Qed.

(* with `unwrap_or_default` the merged document starts at zoom 0 *)
Theorem merge_into_default_refuted_v0 :
  get_byte k_minzoom (t_vals (merge 0 tj_default (mkTJ None None [(k_tilejson, TString [51%N]); (k_minzoom, TByte 3)]))) = Some 0%N.
Proof. reflexivity. Qed.

(* ---- narrowing to the coverage ---- *)
Theorem update_from_pyramid_spec cb zmin zmax a :
  let r := update_from_pyramid cb zmin zmax a in
  t_center r = t_center a /\
  t_bounds r = match cb with Some b => Some (match t_bounds a with Some sb => bb_intersect sb b | None => b end) | None => t_bounds a end /\
  get_byte k_minzoom (t_vals r) = match zmin with Some z => Some (match get_byte k_minzoom (t_vals a) with Some m => N.max m z | None => z end) | None => get_byte k_minzoom (t_vals a) end /\
  get_byte k_maxzoom (t_vals r) = match zmax with Some z => Some (match get_byte k_maxzoom (t_vals a) with Some m => N.min m z | None => z end) | None => get_byte k_maxzoom (t_vals a) end /\
  forall k, is_zoom k = false -> m_get k (t_vals r) = m_get k (t_vals a).
Proof.
  assert (E1 : str_eqb k_maxzoom k_minzoom = false) by reflexivity.
  assert (E2 : str_eqb k_minzoom k_maxzoom = false) by reflexivity.
  unfold update_from_pyramid. destruct cb as [b|]; destruct zmin as [z1|]; destruct zmax as [z2|];
    unfold limit_max_zoom, limit_min_zoom, limit_bbox, get_byte; cbn [t_vals t_bounds t_center];
    rewrite ?m_get_put, ?str_eqb_refl, ?E1, ?E2, ?m_get_put, ?str_eqb_refl, ?E1, ?E2;
    (repeat split; try reflexivity);
    try (intros k Zk; unfold is_zoom in Zk; apply orb_false_iff in Zk; destruct Zk as [K1 K2]; rewrite ?m_get_put, ?K1, ?K2, ?m_get_put, ?K1, ?K2; reflexivity).
Qed.

(* the zoom range only shrinks, and only as far as the coverage; bounds only shrink *)
Corollary update_narrows cb zmin zmax a m :
  get_byte k_minzoom (t_vals a) = Some m ->
  exists m', get_byte k_minzoom (t_vals (update_from_pyramid cb zmin zmax a)) = Some m' /\ (m <= m')%N /\
             (m' <= N.max m (match zmin with Some z => z | None => m end))%N.
Proof.
  intros H. destruct (update_from_pyramid_spec cb zmin zmax a) as (_ & _ & Hm & _). cbv zeta in Hm. rewrite Hm, H.
  destruct zmin as [z|]; eexists; (split; [reflexivity|]); lia.
Qed.
