(* C12 / C01: the header acceptance predicate of the crash model (Model/Crash.v: vt_parse_header) and
   the byte-level header parser (Model/VTBytes.v: hdr_from_blob) are two hand-written models of
   FileHeader::from_blob; they accept the same 66-byte strings and read the same four range fields. *)
From Coq Require Import List NArith Arith Lia Bool.
From VT Require Import Base.Outcome Model.Crash Model.VTBytes.
Import ListNotations.
Local Open Scope N_scope.

Lemma rd_be_acc_same l : forall acc, Crash.rd_be l acc = fold_left (fun a b => a * 256 + b) l acc.
Proof. induction l as [|b r IH]; intros acc; [reflexivity|]. cbn [Crash.rd_be fold_left]. apply IH. Qed.
Lemma rd_be_same l : Crash.rd_be l 0 = VTBytes.rd_be l.
Proof. unfold VTBytes.rd_be. apply rd_be_acc_same. Qed.

Lemma list_eqb_same a b : Crash.list_eqb a b = VTBytes.bytes_eqb a b.
Proof. revert b. induction a as [|x r IH]; intros [|y s]; cbn; try reflexivity. Qed.

Theorem header_models_agree h :
  vt_parse_header h =
    match hdr_from_blob h with
    | Ok d => Some (mkVH (h_moff d) (h_mlen d) (h_boff d) (h_blen d))
    | _ => None
    end.
Proof.
  unfold vt_parse_header, hdr_from_blob.
  destruct (Nat.eqb (length h) 66) eqn:El; cbn [negb]; [|reflexivity]. apply Nat.eqb_eq in El.
  (* 66 explicit bytes *)
  do 66 (destruct h as [|? h]; [discriminate El|]). destruct h; [|discriminate El]. clear El.
  unfold vt_fixed_ok. cbn [firstn skipn nth]. rewrite list_eqb_same. change Crash.vt_magic with VTBytes.vt_magic.
  destruct (bytes_eqb _ vt_magic) eqn:Em; cbn [negb andb]; [|reflexivity].
  unfold take_be. cbn [length Nat.leb firstn skipn obind]. unfold VTBytes.rd_be at 1. cbn [fold_left].
  replace (0 * 256 + n13) with n13 by lia.
  destruct (existsb (N.eqb n13) format_codes) eqn:Ef.
  2:{ unfold format_codes in Ef. rewrite Ef. reflexivity. }
  unfold format_codes in Ef. rewrite Ef. cbn [negb andb].
  unfold VTBytes.rd_be at 1. cbn [fold_left]. replace (0 * 256 + n14) with n14 by lia.
  rewrite (N.ltb_antisym n14 2). destruct (n14 <=? 2); cbn [negb]; [|reflexivity].
  unfold Crash.sub. cbn [firstn skipn]. rewrite !rd_be_same. reflexivity.
Qed.

(* ---- PMTiles: the crash model's view of the header (pm_view) accepts exactly what the byte-level
   parser accepts with usable compression codes (PMTilesCompression::as_value fails for Unknown and Zstd) ---- *)
From VT Require Import Model.PMHeader.
Theorem pm_header_models_agree f :
  (exists v, pm_view f = Some v) <->
  (exists d, pmh_deserialize (firstn 127 f) = Ok d /\ 1 <= p_icomp d <= 3 /\ 1 <= p_tcomp d <= 3).
Proof.
  unfold pm_view, pmh_deserialize.
  destruct (Nat.eqb (length (firstn 127 f)) 127) eqn:El; cbn [negb].
  2:{ split; [intros (v & H); discriminate|intros (d & H & _); discriminate]. }
  apply Nat.eqb_eq in El. remember (firstn 127 f) as h eqn:Eh. clear Eh.
  do 127 (destruct h as [|? h]; [discriminate El|]). destruct h; [|discriminate El]. clear El.
  cbn [firstn skipn nth]. rewrite list_eqb_same. change Crash.pm_magic with PMHeader.pm_magic.
  destruct (bytes_eqb _ PMHeader.pm_magic) eqn:Em; cbn [negb].
  2:{ split; [intros (v & H); discriminate|intros (d & H & _); discriminate]. }
  unfold take_le. cbn [length Nat.leb firstn skipn rev app obind].
  unfold VTBytes.rd_be. cbn [fold_left].
  replace (0 * 256 + n96) with n96 by lia. replace (0 * 256 + n97) with n97 by lia. replace (0 * 256 + n98) with n98 by lia.
  destruct (4 <? n96) eqn:E1.
  { apply N.ltb_lt in E1. replace ((1 <=? n96) && (n96 <=? 3)) with false by (symmetry; apply andb_false_iff; right; apply N.leb_gt; lia). cbn [negb].
    split; [intros (v & H); discriminate|intros (d & H & _); discriminate]. }
  destruct (4 <? n97) eqn:E2.
  { apply N.ltb_lt in E2. replace ((1 <=? n97) && (n97 <=? 3)) with false by (symmetry; apply andb_false_iff; right; apply N.leb_gt; lia).
    destruct (negb _); cbn [negb]; (split; [intros (v & H); discriminate|intros (d & H & _); discriminate]). }
  destruct (5 <? n98) eqn:E3.
  { apply N.ltb_lt in E3. replace (n98 <=? 5) with false by (symmetry; apply N.leb_gt; lia).
    destruct (negb ((1 <=? n96) && (n96 <=? 3))); [|destruct (negb ((1 <=? n97) && (n97 <=? 3)))]; cbn [negb]; (split; [intros (v & H); discriminate|intros (d & H & _); discriminate]). }
  apply N.ltb_ge in E1, E2, E3. replace (n98 <=? 5) with true by (symmetry; apply N.leb_le; lia). cbn [negb].
  destruct ((1 <=? n96) && (n96 <=? 3)) eqn:A1; cbn [negb].
  2:{ split; [intros (v & H); discriminate|]. intros (d & H & B1 & _). inversion H; subst. cbn [p_icomp] in B1.
      apply andb_false_iff in A1. destruct A1 as [A1|A1]; apply N.leb_gt in A1; lia. }
  destruct ((1 <=? n97) && (n97 <=? 3)) eqn:A2; cbn [negb].
  2:{ split; [intros (v & H); discriminate|]. intros (d & H & _ & B2). inversion H; subst. cbn [p_tcomp] in B2.
      apply andb_false_iff in A2. destruct A2 as [A2|A2]; apply N.leb_gt in A2; lia. }
  apply andb_true_iff in A1, A2. destruct A1 as [A1a A1b], A2 as [A2a A2b]. apply N.leb_le in A1a, A1b, A2a, A2b.
  split; [intros _|intros _; eexists; reflexivity]. eexists. split; [reflexivity|]. cbn [p_icomp p_tcomp]. lia.
Qed.
