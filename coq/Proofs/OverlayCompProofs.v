(* C08: "re-encoded to the compression the overlay declares" *)
From Coq Require Import List NArith Bool.
From VT Require Import Model.Recompress Proofs.RecompressProofs Model.OverlayComp.
Import ListNotations.

Lemma comp_eqb_eq a b : comp_eqb a b = true <-> a = b.
Proof. destruct a, b; cbn; split; intros H; try reflexivity; try discriminate. Qed.

Lemma fold_cu cs : fold_left (fun acc c => if comp_eqb c acc then acc else CU) cs CU = CU.
Proof. induction cs as [|c r IH]; [reflexivity|]. cbn [fold_left]. destruct (comp_eqb c CU); exact IH. Qed.

(* the declared compression is the common one, and "uncompressed" as soon as two sources differ *)
Theorem declared_common c cs : cs <> [] -> Forall (eq c) cs -> declared cs = c.
Proof.
  intros Hne Hall.
  assert (G : forall l, Forall (eq c) l -> fold_left (fun acc c' => if comp_eqb c' acc then acc else CU) l c = c).
  { induction l as [|x l IH]; intros Hl; [reflexivity|]. cbn [fold_left].
    assert (x = c) by (inversion Hl; congruence). subst x.
    replace (comp_eqb c c) with true by (symmetry; apply comp_eqb_eq; reflexivity). apply IH. inversion Hl; assumption. }
  destruct cs as [|c0 r]; [congruence|]. assert (c0 = c) by (inversion Hall; congruence). subst c0.
  unfold declared. exact (G (c :: r) Hall).
Qed.

Theorem declared_mixed cs a b : In a cs -> In b cs -> a <> b -> declared cs = CU.
Proof.
  intros Ha Hb Hab. destruct cs as [|c0 r]; [destruct Ha|]. unfold declared.
  (* some element differs from c0 *)
  assert (Hd : exists d, In d (c0 :: r) /\ d <> c0).
  { destruct (comp_eqb a c0) eqn:Ea; [apply comp_eqb_eq in Ea; subst a; exists b; split; [exact Hb|congruence]|].
    exists a. split; [exact Ha|]. intros ->. assert (comp_eqb c0 c0 = true) by (apply comp_eqb_eq; reflexivity). congruence. }
  destruct Hd as (d & Hin & Hd).
  assert (G : forall l acc, In d l -> d <> acc -> fold_left (fun acc c' => if comp_eqb c' acc then acc else CU) l acc = CU).
  { induction l as [|x l IH]; intros acc Hl Hne; [destruct Hl|]. cbn [fold_left]. destruct Hl as [->|Hl].
    - destruct (comp_eqb d acc) eqn:E; [apply comp_eqb_eq in E; congruence|]. apply fold_cu.
    - destruct (comp_eqb x acc) eqn:E; [apply IH; assumption|]. apply fold_cu. }
  exact (G (c0 :: r) c0 Hin Hd).
Qed.

Lemma first_tile_spec srcs c b : first_tile srcs = Some (c, b) <->
  exists pre post, srcs = pre ++ (c, Some b) :: post /\ Forall (fun s => snd s = None) pre.
Proof.
  induction srcs as [|[c0 [b0|]] r IH]; cbn [first_tile fold_right fst snd].
  - split; [discriminate|]. intros (pre & post & H & _). destruct pre; discriminate.
  - split.
    + intros H; inversion H; subst. exists [], r. split; [reflexivity|constructor].
    + intros (pre & post & H & Hp). destruct pre as [|p pre'].
      * cbn in H. inversion H; subst. reflexivity.
      * cbn in H. inversion H; subst. inversion Hp as [|? ? Hp1 _]; subst. cbn in Hp1. discriminate.
  - fold (first_tile r). rewrite IH. split.
    + intros (pre & post & -> & Hp). exists ((c0, None) :: pre), post. split; [reflexivity|constructor; [reflexivity|exact Hp]].
    + intros (pre & post & H & Hp). destruct pre as [|p pre']; cbn in H; inversion H; subst.
      exists pre', post. split; [reflexivity|]. inversion Hp; assumption.
Qed.

Section WithCodecs.
  Variables gz br : codec.
  Hypothesis Hgz : lawful gz.
  Hypothesis Hbr : lawful br.

  (* the tile handed out decodes, with the declared compression, to what the first source that has
     the tile stores (decoded with that source's compression); nothing where no source has one;
     an error only when the answering source's tile does not decode *)
  Theorem overlay_answer_first pre c b post p :
    Forall (fun s => snd s = None) pre -> decompress gz br c b = Some p ->
    let srcs := pre ++ (c, Some b) :: post in
    exists b', overlay_answer gz br srcs = Some (Some b') /\ decompress gz br (declared (map fst srcs)) b' = Some p.
  Proof.
    intros Hpre Hd srcs. unfold overlay_answer.
    assert (Hf : first_tile srcs = Some (c, b)) by (apply first_tile_spec; exists pre, post; split; [reflexivity|exact Hpre]).
    rewrite Hf. destruct (recompress_preserves gz br Hgz Hbr c (declared (map fst srcs)) b p Hd) as (b' & Hr & Hdec).
    exists b'. rewrite Hr. split; [reflexivity|exact Hdec].
  Qed.

  Theorem overlay_answer_none srcs : Forall (fun s => snd s = None) srcs -> overlay_answer gz br srcs = Some None.
  Proof.
    intros H. unfold overlay_answer. destruct (first_tile srcs) as [[c b]|] eqn:E; [|reflexivity].
    apply first_tile_spec in E. destruct E as (pre & post & -> & _). apply Forall_app in H. destruct H as [_ H].
    inversion H as [|? ? H1 _]; subst. cbn in H1. discriminate.
  Qed.

  Theorem overlay_answer_error srcs : overlay_answer gz br srcs = None ->
    exists c b, first_tile srcs = Some (c, b) /\ decompress gz br c b = None.
  Proof.
    unfold overlay_answer. destruct (first_tile srcs) as [[c b]|]; [|discriminate]. intros H. exists c, b. split; [reflexivity|].
    unfold recompress in H. destruct (comp_eqb c (declared (map fst srcs))); [discriminate|].
    destruct (decompress gz br c b); [discriminate|reflexivity].
  Qed.
End WithCodecs.
