(* C18: the canonical text of every well-formed pipeline parses back to that pipeline. *)
From Coq Require Import List NArith Bool Arith Lia.
From VT Require Import Model.VPL Proofs.VPLProofs.
Import ListNotations.
Local Open Scope N_scope.

(* ---------- canonical printer ---------- *)
Fixpoint join_c (l : list str) : str :=
  match l with [] => [] | [x] => x | x :: r => x ++ 44 :: join_c r end.

Definition render_value (v : list str) : str :=
  match v with
  | [s] => qprint s
  | _ => 91 :: join_c (map qprint v) ++ [93]
  end.

Definition render_prop (p : str * list str) : str := fst p ++ 61 :: render_value (snd p).

Fixpoint render_props (ps : list (str * list str)) : str :=
  match ps with [] => [] | p :: r => 32 :: render_prop p ++ render_props r end.

Fixpoint render_node (n : node) : str :=
  match n with
  | Node name ps srcs =>
      let render_pipe := fix rp (p : list node) : str :=
        match p with [] => [] | x :: r => render_node x ++ match r with [] => [] | _ => 124 :: rp r end end in
      name ++ render_props ps ++
      match srcs with
      | [] => []
      | p :: r => 91 :: render_pipe p ++
                  (fix rs (l : list (list node)) : str := match l with [] => [] | q :: t => 44 :: render_pipe q ++ rs t end) r ++ [93]
      end
  end.

Fixpoint render_pipe (p : list node) : str :=
  match p with [] => [] | x :: r => render_node x ++ match r with [] => [] | _ => 124 :: render_pipe r end end.

Fixpoint render_srcs_rest (l : list (list node)) : str :=
  match l with [] => [] | q :: t => 44 :: render_pipe q ++ render_srcs_rest t end.

Lemma render_node_eq name ps srcs :
  render_node (Node name ps srcs) =
    name ++ render_props ps ++ match srcs with [] => [] | p :: r => 91 :: render_pipe p ++ render_srcs_rest r ++ [93] end.
Proof. reflexivity. Qed.

(* ---------- well-formed pipelines ---------- *)
Definition ident_tail (c : N) : bool := is_alnum c || (c =? 95) || (c =? 45).
Definition wf_ident (s : str) : Prop :=
  exists a b, s = a ++ b /\ a <> [] /\ forallb is_alpha a = true /\ forallb ident_tail b = true
              /\ (match b with c :: _ => is_alpha c = false | [] => True end).

(* what may follow a node / pipeline in a canonical text *)
Definition tail_ok (rest : str) : Prop := match rest with [] => True | c :: _ => c = 124 \/ c = 44 \/ c = 93 end.

(* ---------- token lemmas ---------- *)
Lemma take_while_app p a rest : forallb p a = true -> (match rest with c :: _ => p c = false | [] => True end) ->
  take_while p (a ++ rest) = (a, rest).
Proof.
  induction a as [|c a IH]; intros Ha Hr.
  - cbn [app]. destruct rest as [|c r]; [reflexivity|]. cbn [take_while]. rewrite Hr. reflexivity.
  - cbn in Ha. apply andb_prop in Ha as [Hc Ha]. cbn [app take_while]. rewrite Hc, IH by assumption. reflexivity.
Qed.

Lemma ident_app s rest : wf_ident s -> (match rest with c :: _ => ident_tail c = false | [] => True end) ->
  ident (s ++ rest) = Some (s, rest).
Proof.
  intros (a & b & E & Hne & Ha & Hb & Hb0) Hr. subst s. unfold ident. rewrite <- app_assoc.
  rewrite (take_while_app is_alpha a (b ++ rest) Ha).
  2:{ destruct b as [|c b']; cbn [app]; [|exact Hb0]. destruct rest as [|c r]; [exact I|].
      unfold ident_tail in Hr. apply orb_false_elim in Hr as [Hr _]. apply orb_false_elim in Hr as [Hr _].
      unfold is_alnum in Hr. apply orb_false_elim in Hr as [Hr _]. exact Hr. }
  destruct a as [|a0 a']; [congruence|].
  change (fun c : N => is_alnum c || (c =? 95) || (c =? 45)) with ident_tail.
  rewrite (take_while_app ident_tail b rest Hb Hr). reflexivity.
Qed.

Lemma tail_ok_not_ident rest : tail_ok rest -> match rest with c :: _ => ident_tail c = false | [] => True end.
Proof. destruct rest as [|c r]; [trivial|]. intros [ -> | [ -> | -> ] ]; reflexivity. Qed.

Lemma tail_ok_ws0 rest : tail_ok rest -> ws0 rest = rest.
Proof. destruct rest as [|c r]; [reflexivity|]. intros [ -> | [ -> | -> ] ]; reflexivity. Qed.

Lemma ident_fails_on rest : (match rest with c :: _ => is_alpha c = false | [] => True end) -> ident rest = None.
Proof.
  intros H. unfold ident. destruct rest as [|c r]; [reflexivity|]. cbn [take_while]. rewrite H. reflexivity.
Qed.

(* ---------- values ---------- *)
Lemma item_q s tail : item 1 (qprint s ++ tail) = ROk s tail.
Proof. unfold item. rewrite quoted_roundtrip. reflexivity. Qed.

Definition rest_items (vs : list str) : str := flat_map (fun s => 44 :: qprint s) vs.

Lemma join_c_cons s vs : join_c (map qprint (s :: vs)) = qprint s ++ rest_items vs.
Proof.
  revert s; induction vs as [|v vs IH]; intros s; [cbn; rewrite app_nil_r; reflexivity|].
  change (join_c (map qprint (s :: v :: vs))) with (qprint s ++ 44 :: join_c (map qprint (v :: vs))).
  rewrite IH. reflexivity.
Qed.

Lemma qprint_head s : exists r, qprint s = 34 :: r.
Proof. unfold qprint. eexists; reflexivity. Qed.

Lemma ws0_qprint s rest : ws0 (qprint s ++ rest) = qprint s ++ rest.
Proof. reflexivity. Qed.

Lemma parray_rest_spec vs : forall fuel tail, (length vs < fuel)%nat ->
  parray_rest 1 fuel (rest_items vs ++ 93 :: tail) = ROk vs (93 :: tail).
Proof.
  induction vs as [|v vs IH]; intros fuel tail Hf; (destruct fuel as [|f]; [cbn in Hf; lia|]).
  - cbn [rest_items flat_map app parray_rest ws0 is_space N.eqb Pos.eqb orb]. reflexivity.
  - cbn [rest_items flat_map]. fold (rest_items vs). cbn [app parray_rest].
    change (ws0 (44 :: (qprint v ++ rest_items vs) ++ 93 :: tail)) with (44 :: (qprint v ++ rest_items vs) ++ 93 :: tail).
    cbn iota. rewrite <- app_assoc, ws0_qprint.
    rewrite item_q. rewrite IH by (cbn in Hf; lia). reflexivity.
Qed.

Lemma rest_items_length vs : (length vs <= length (rest_items vs))%nat.
Proof. induction vs as [|v vs IH]; [cbn; lia|]. cbn [rest_items flat_map]. fold (rest_items vs). rewrite app_length. cbn [length]. lia. Qed.

Lemma parray_spec v tail : parray 1 (91 :: join_c (map qprint v) ++ 93 :: tail) = ROk v tail.
Proof.
  unfold parray. destruct v as [|s vs].
  - cbn [map join_c app ws0 is_space N.eqb Pos.eqb orb]. cbn. reflexivity.
  - rewrite join_c_cons, <- app_assoc, ws0_qprint.
    rewrite item_q. rewrite parray_rest_spec.
    + cbn [ws0 is_space N.eqb Pos.eqb orb]. reflexivity.
    + rewrite app_length. pose proof (rest_items_length vs). lia.
Qed.

Lemma unquoted_fails_on c r : (is_alnum c || (c =? 46) || (c =? 45) || (c =? 95)) = false -> unquoted (c :: r) = None.
Proof. intros H. unfold unquoted. cbn [take_while]. rewrite H. reflexivity. Qed.

Lemma pvalue_spec v tail : pvalue 1 (render_value v ++ tail) = ROk v tail.
Proof.
  unfold pvalue, render_value.
  destruct v as [|s [|s2 vs]].
  - cbn [map join_c app]. cbn [quoted]. rewrite unquoted_fails_on by reflexivity. apply (parray_spec [] tail).
  - rewrite quoted_roundtrip. reflexivity.
  - set (v := s :: s2 :: vs). cbn [app quoted]. rewrite unquoted_fails_on by reflexivity. rewrite <- app_assoc. apply (parray_spec v tail).
Qed.

Lemma render_value_head v : exists c r, render_value v = c :: r /\ is_space c = false /\ ident_tail c = false.
Proof.
  unfold render_value. destruct v as [|s [|s2 vs]]; [exists 91; eexists; split; [reflexivity|split; reflexivity]| |exists 91; eexists; split; [reflexivity|split; reflexivity]].
  unfold qprint. exists 34; eexists; split; [reflexivity|split; reflexivity].
Qed.

Lemma ws0_render_value v tail : ws0 (render_value v ++ tail) = render_value v ++ tail.
Proof. destruct (render_value_head v) as (c & r & Hv & Hs & _). rewrite Hv. cbn [app ws0]. rewrite Hs. reflexivity. Qed.

(* ---------- properties ---------- *)
Lemma property_spec k v tail : wf_ident k -> property 1 (render_prop (k, v) ++ tail) = ROk (k, v) tail.
Proof.
  intros Hk. unfold property, render_prop. cbn [fst snd]. rewrite <- app_assoc. cbn [app].
  rewrite (ident_app k (61 :: render_value v ++ tail) Hk) by reflexivity.
  cbn [ws0 is_space N.eqb Pos.eqb orb]. cbn iota.
  rewrite ws0_render_value, pvalue_spec. reflexivity.
Qed.

Definition stop_ok (rest : str) : Prop := match rest with [] => True | c :: _ => c = 91 \/ c = 124 \/ c = 44 \/ c = 93 end.

Lemma stop_ok_ws1 rest : stop_ok rest -> ws1 rest = None.
Proof. destruct rest as [|c r]; [reflexivity|]. intros [ -> | [ -> | [ -> | -> ] ] ]; reflexivity. Qed.
Lemma stop_ok_ws0 rest : stop_ok rest -> ws0 rest = rest.
Proof. destruct rest as [|c r]; [reflexivity|]. intros [ -> | [ -> | [ -> | -> ] ] ]; reflexivity. Qed.
Lemma stop_ok_no_ident rest : stop_ok rest -> ident rest = None.
Proof. intros H. apply ident_fails_on. destruct rest as [|c r]; [exact I|]. destruct H as [ -> | [ -> | [ -> | -> ] ] ]; reflexivity. Qed.

Definition wf_props (ps : list (str * list str)) : Prop := Forall (fun p => wf_ident (fst p)) ps.

Lemma wf_ident_head k : wf_ident k -> exists c r, k = c :: r /\ is_alpha c = true.
Proof.
  intros (a & b & -> & Hne & Ha & _). destruct a as [|c a']; [congruence|]. exists c, (a' ++ b). split; [reflexivity|].
  cbn in Ha. apply andb_prop in Ha as [Hc _]. exact Hc.
Qed.

Lemma alpha_not_space c : is_alpha c = true -> is_space c = false.
Proof.
  unfold is_alpha, is_space. intros H. apply orb_prop in H as [H|H]; apply andb_prop in H as [H1 H2]; apply N.leb_le in H1, H2;
  repeat (apply orb_false_intro); apply N.eqb_neq; lia.
Qed.

Lemma props_rest_spec ps : forall fuel rest, (length ps < fuel)%nat -> wf_props ps -> stop_ok rest ->
  props_rest 1 fuel (render_props ps ++ rest) = ROk ps rest.
Proof.
  induction ps as [|[k v] ps IH]; intros fuel rest Hf Hwf Hs; (destruct fuel as [|f]; [cbn in Hf; lia|]).
  - cbn [render_props app props_rest]. rewrite (stop_ok_ws1 rest Hs). reflexivity.
  - inversion Hwf as [|? ? Hk Hwf']; subst. cbn [fst] in Hk.
    cbn [render_props app props_rest ws1 is_space N.eqb Pos.eqb orb].
    destruct (wf_ident_head k Hk) as (c & r & Ek & Hc).
    assert (Hws : ws0 ((render_prop (k, v) ++ render_props ps) ++ rest) = (render_prop (k, v) ++ render_props ps) ++ rest).
    { unfold render_prop. cbn [fst]. rewrite Ek. cbn [app ws0]. rewrite (alpha_not_space c Hc). reflexivity. }
    rewrite Hws, <- app_assoc, (property_spec k v _ Hk). rewrite IH; [reflexivity|cbn in Hf; lia|exact Hwf'|exact Hs].
Qed.

Lemma render_props_length ps : (length ps <= length (render_props ps))%nat.
Proof. induction ps as [|p ps IH]; [cbn; lia|]. cbn [render_props length]. rewrite app_length. lia. Qed.

(* props applied to what pnode hands it: the text after the node name, leading blanks skipped *)
Lemma props_spec ps rest : wf_props ps -> stop_ok rest ->
  props 1 (ws0 (render_props ps ++ rest)) = ROk ps rest.
Proof.
  intros Hwf Hs. destruct ps as [|[k v] ps].
  - cbn [render_props app]. rewrite (stop_ok_ws0 rest Hs). unfold props, property. rewrite (stop_ok_no_ident rest Hs). reflexivity.
  - inversion Hwf as [|? ? Hk Hwf']; subst. cbn [fst] in Hk.
    cbn [render_props app ws0 is_space N.eqb Pos.eqb orb].
    destruct (wf_ident_head k Hk) as (c & r & Ek & Hc).
    assert (Hws : ws0 ((render_prop (k, v) ++ render_props ps) ++ rest) = (render_prop (k, v) ++ render_props ps) ++ rest).
    { unfold render_prop. cbn [fst]. rewrite Ek. cbn [app ws0]. rewrite (alpha_not_space c Hc). reflexivity. }
    rewrite Hws, <- app_assoc. unfold props. rewrite (property_spec k v _ Hk).
    rewrite props_rest_spec; [reflexivity| |exact Hwf'|exact Hs].
    rewrite app_length. pose proof (render_props_length ps). lia.
Qed.

(* ---------- nodes, pipelines, source lists ---------- *)
(* well-formedness: identifiers as names and keys, no empty pipeline *)
Fixpoint wf_node (n : node) : Prop :=
  match n with
  | Node name ps srcs =>
      wf_ident name /\ wf_props ps /\
      (fix wl (l : list (list node)) : Prop :=
         match l with [] => True | p :: r => (p <> [] /\ (fix wp (q : list node) : Prop := match q with [] => True | x :: t => wf_node x /\ wp t end) p) /\ wl r end) srcs
  end.
Fixpoint wf_nodes (q : list node) : Prop := match q with [] => True | x :: t => wf_node x /\ wf_nodes t end.
Definition wf_pipe (p : list node) : Prop := p <> [] /\ wf_nodes p.
Fixpoint wf_pipes (l : list (list node)) : Prop := match l with [] => True | p :: r => wf_pipe p /\ wf_pipes r end.

Lemma wf_node_eq name ps srcs : wf_node (Node name ps srcs) = (wf_ident name /\ wf_props ps /\ wf_pipes srcs).
Proof. reflexivity. Qed.

(* fuel each parser needs on a canonical text (sums, so every sub-call fits) *)
Fixpoint cn (n : node) : nat :=
  match n with
  | Node _ _ srcs =>
      match srcs with
      | [] => 1%nat
      | p :: r =>
          let cpf := fix cpf (q : list node) : nat := match q with [] => 1%nat | x :: t => (1 + cn x + cpf t)%nat end in
          (1 + cpf p + (fix csf (l : list (list node)) : nat := match l with [] => 1%nat | q :: t => (1 + cpf q + csf t)%nat end) r)%nat
      end
  end.
Fixpoint cr (q : list node) : nat := match q with [] => 1%nat | x :: t => (1 + cn x + cr t)%nat end.     (* pnodes_rest; also ppipe on x :: t *)
Fixpoint cs (l : list (list node)) : nat := match l with [] => 1%nat | q :: t => (1 + cr q + cs t)%nat end.

Lemma cn_eq name ps srcs : cn (Node name ps srcs) = match srcs with [] => 1%nat | p :: r => (1 + cr p + cs r)%nat end.
Proof. reflexivity. Qed.

Fixpoint render_nodes_rest (ns : list node) : str :=
  match ns with [] => [] | x :: t => 124 :: render_node x ++ render_nodes_rest t end.

Lemma render_pipe_eq x t : render_pipe (x :: t) = render_node x ++ render_nodes_rest t.
Proof.
  revert x; induction t as [|y t IH]; intros x; [reflexivity|].
  change (render_pipe (x :: y :: t)) with (render_node x ++ 124 :: render_pipe (y :: t)). rewrite IH. reflexivity.
Qed.

Definition after_pipe (rest : str) : Prop := match rest with [] => True | c :: _ => c = 44 \/ c = 93 end.

Lemma after_pipe_tail_ok rest : after_pipe rest -> tail_ok rest.
Proof. destruct rest as [|c r]; [trivial|]. intros [ -> | -> ]; cbn; auto. Qed.

Lemma wf_ident_ws0 k rest : wf_ident k -> ws0 (k ++ rest) = k ++ rest.
Proof. intros Hk. destruct (wf_ident_head k Hk) as (c & r & -> & Hc). cbn [app ws0]. rewrite (alpha_not_space c Hc). reflexivity. Qed.

Lemma render_node_ws0 n rest : wf_node n -> ws0 (render_node n ++ rest) = render_node n ++ rest.
Proof. destruct n as [name ps srcs]. rewrite wf_node_eq, render_node_eq. intros (Hn & _). rewrite <- app_assoc. apply wf_ident_ws0; exact Hn. Qed.

Lemma render_pipe_ws0 p rest : wf_pipe p -> ws0 (render_pipe p ++ rest) = render_pipe p ++ rest.
Proof.
  intros [Hne Hw]. destruct p as [|x t]; [congruence|]. rewrite render_pipe_eq, <- app_assoc. apply render_node_ws0. exact (proj1 Hw).
Qed.

Lemma roundtrip_fuel : forall fuel,
  (forall n rest, wf_node n -> tail_ok rest -> (cn n <= fuel)%nat -> pnode 1 fuel (render_node n ++ rest) = ROk n rest) /\
  (forall ns rest, wf_nodes ns -> after_pipe rest -> (cr ns <= fuel)%nat -> pnodes_rest 1 fuel (render_nodes_rest ns ++ rest) = ROk ns rest) /\
  (forall p rest, wf_pipe p -> after_pipe rest -> (cr p <= fuel)%nat -> ppipe 1 fuel (render_pipe p ++ rest) = ROk p rest) /\
  (forall l rest, wf_pipes l -> (match rest with c :: _ => c = 93 | [] => True end) -> (cs l <= fuel)%nat ->
       psrc_rest 1 fuel (render_srcs_rest l ++ rest) = ROk l rest).
Proof.
  induction fuel as [|f (IHn & IHr & IHp & IHs)].
  - repeat split; intros.
    + destruct n as [a b [|p r]]; rewrite cn_eq in *; lia.
    + destruct ns; cbn in *; lia.
    + destruct p; cbn in *; lia.
    + destruct l; cbn in *; lia.
  - repeat split.
    + (* pnode *)
      intros [name ps srcs] rest Hwf Ht Hc. rewrite wf_node_eq in Hwf. destruct Hwf as (Hname & Hps & Hsrc).
      rewrite render_node_eq, cn_eq in *. cbn [pnode].
      destruct srcs as [|p r].
      * rewrite app_nil_r. rewrite <- app_assoc. rewrite (wf_ident_ws0 name _ Hname).
        assert (Hstop : stop_ok rest) by (destruct rest as [|c q]; [exact I|]; cbn in Ht |- *; tauto).
        rewrite (ident_app name (render_props ps ++ rest) Hname).
        2:{ destruct ps as [|[k v] ps']; cbn [render_props app]; [apply tail_ok_not_ident; exact Ht|reflexivity]. }
        rewrite (props_spec ps rest Hps Hstop). rewrite (stop_ok_ws0 rest Hstop).
        destruct rest as [|c q]; [reflexivity|]. cbn in Ht. destruct Ht as [ -> | [ -> | -> ] ]; reflexivity.
      * destruct Hsrc as (Hp & Hr).
        set (inner := render_pipe p ++ render_srcs_rest r ++ [93]).
        replace ((name ++ render_props ps ++ 91 :: inner) ++ rest) with (name ++ render_props ps ++ 91 :: inner ++ rest)
          by (repeat rewrite <- app_assoc; reflexivity).
        rewrite (wf_ident_ws0 name _ Hname).
        rewrite (ident_app name (render_props ps ++ 91 :: inner ++ rest) Hname).
        2:{ destruct ps as [|[k v] ps']; cbn [render_props app]; reflexivity. }
        rewrite (props_spec ps (91 :: inner ++ rest) Hps ltac:(cbn; auto)).
        cbn [ws0 is_space N.eqb Pos.eqb orb]. cbn iota.
        unfold inner. rewrite <- !app_assoc. rewrite (render_pipe_ws0 p _ Hp).
        rewrite (IHp p (render_srcs_rest r ++ [93] ++ rest) Hp).
        2:{ destruct r as [|q t]; cbn; auto. }
        2:{ lia. }
        rewrite (IHs r ([93] ++ rest) Hr ltac:(reflexivity) ltac:(lia)).
        cbn [app ws0 is_space N.eqb Pos.eqb orb]. cbn iota. rewrite (tail_ok_ws0 rest Ht). reflexivity.
    + (* pnodes_rest *)
      intros ns rest Hwf Ha Hc. destruct ns as [|x t].
      * cbn [render_nodes_rest app pnodes_rest]. destruct rest as [|c q]; [reflexivity|]. cbn in Ha. destruct Ha as [ -> | -> ]; reflexivity.
      * destruct Hwf as [Hx Ht]. cbn [cr] in Hc. cbn [render_nodes_rest app pnodes_rest]. rewrite <- app_assoc.
        rewrite (IHn x (render_nodes_rest t ++ rest) Hx).
        2:{ destruct t as [|y t']; cbn [render_nodes_rest app]; [apply after_pipe_tail_ok; exact Ha|cbn; auto]. }
        2:{ lia. }
        rewrite (IHr t rest Ht Ha ltac:(lia)). reflexivity.
    + (* ppipe *)
      intros p rest [Hne Hwf] Ha Hc. destruct p as [|x t]; [congruence|]. destruct Hwf as [Hx Ht]. cbn [cr] in Hc.
      cbn [ppipe]. rewrite render_pipe_eq, <- app_assoc. rewrite (render_node_ws0 x _ Hx).
      rewrite (IHn x (render_nodes_rest t ++ rest) Hx).
      2:{ destruct t as [|y t']; cbn [render_nodes_rest app]; [apply after_pipe_tail_ok; exact Ha|cbn; auto]. }
      2:{ lia. }
      rewrite (IHr t rest Ht Ha ltac:(lia)). rewrite (tail_ok_ws0 rest (after_pipe_tail_ok rest Ha)). reflexivity.
    + (* psrc_rest *)
      intros l rest Hwf Hrest Hc. destruct l as [|q t].
      * cbn [render_srcs_rest app psrc_rest]. destruct rest as [|c r]; [reflexivity|]. subst c. reflexivity.
      * destruct Hwf as [Hq Ht]. cbn [cs] in Hc. cbn [render_srcs_rest app psrc_rest]. rewrite <- app_assoc.
        rewrite (IHp q (render_srcs_rest t ++ rest) Hq).
        2:{ destruct t as [|q2 t']; cbn [render_srcs_rest app]; [destruct rest as [|c r]; [exact I|subst c; cbn; auto]|cbn; auto]. }
        2:{ lia. }
        rewrite (IHs t rest Ht Hrest ltac:(lia)). reflexivity.
Qed.

(* ---------- the fuel of parse_vpl suffices ---------- *)
Lemma node_ind' (P : node -> Prop) :
  (forall name ps srcs, Forall (Forall P) srcs -> P (Node name ps srcs)) -> forall n, P n.
Proof.
  intros H. fix IH 1. intros [name ps srcs]. apply H.
  induction srcs as [|p r IHr]; constructor; [|exact IHr].
  induction p as [|x t IHt]; constructor; [apply IH|exact IHt].
Qed.

Lemma wf_ident_len k : wf_ident k -> (1 <= length k)%nat.
Proof. intros Hk. destruct (wf_ident_head k Hk) as (c & r & -> & _). cbn; lia. Qed.

Lemma cr_rest_bound t : Forall (fun x => wf_node x -> (cn x + 3 <= 4 * length (render_node x))%nat) t -> wf_nodes t ->
  (cr t <= 4 * length (render_nodes_rest t) + 1)%nat.
Proof.
  induction t as [|y t IH]; intros HP Hwf; [cbn; lia|].
  inversion HP as [|? ? Hy HP']; subst. destruct Hwf as [Wy Wt]. specialize (Hy Wy). specialize (IH HP' Wt).
  cbn [cr render_nodes_rest length]. rewrite app_length. lia.
Qed.

Lemma cr_pipe_bound p : Forall (fun x => wf_node x -> (cn x + 3 <= 4 * length (render_node x))%nat) p -> wf_pipe p ->
  (cr p + 1 <= 4 * length (render_pipe p))%nat.
Proof.
  intros HP [Hne Hwf]. destruct p as [|x t]; [congruence|].
  inversion HP as [|? ? Hx HP']; subst. destruct Hwf as [Wx Wt]. specialize (Hx Wx).
  pose proof (cr_rest_bound t HP' Wt) as Ht.
  rewrite render_pipe_eq, app_length. cbn [cr]. lia.
Qed.

Lemma cn_bound : forall n, wf_node n -> (cn n + 3 <= 4 * length (render_node n))%nat.
Proof.
  apply (node_ind' (fun n => wf_node n -> (cn n + 3 <= 4 * length (render_node n))%nat)).
  intros name ps srcs HP Hwf. rewrite wf_node_eq in Hwf. destruct Hwf as (Hname & _ & Hsrc).
  pose proof (wf_ident_len name Hname) as Ln. rewrite render_node_eq, cn_eq, !app_length.
  destruct srcs as [|p r]; [cbn [length]; lia|].
  inversion HP as [|? ? Hp HP']; subst. destruct Hsrc as [Wp Wr].
  pose proof (cr_pipe_bound p Hp Wp) as Bp.
  assert (Br : (cs r <= 4 * length (render_srcs_rest r) + 1)%nat).
  { clear -HP' Wr. induction r as [|q t IH]; [cbn; lia|].
    inversion HP' as [|? ? Hq HP'']; subst. destruct Wr as [Wq Wt]. specialize (IH Wt HP'').
    pose proof (cr_pipe_bound q Hq Wq). cbn [cs render_srcs_rest length]. rewrite app_length. lia. }
  cbn [length]. rewrite !app_length. cbn [length]. lia.
Qed.

Lemma cr_bound p : wf_pipe p -> (cr p + 1 <= 4 * length (render_pipe p))%nat.
Proof.
  intros Hp. apply cr_pipe_bound; [|exact Hp]. apply Forall_forall. intros x _. apply cn_bound.
Qed.

(* C18: every well-formed pipeline (any nesting of source lists, any number of nodes and
   properties, any values) is read back from its canonical text *)
Theorem vpl_roundtrip p : wf_pipe p -> parse_vpl 1 (render_pipe p) = Some p.
Proof.
  intros Hp. unfold parse_vpl.
  destruct (roundtrip_fuel (4 * S (length (render_pipe p)))) as (_ & _ & Hpipe & _).
  specialize (Hpipe p [] Hp I). rewrite app_nil_r in Hpipe. rewrite Hpipe; [reflexivity|].
  pose proof (cr_bound p Hp). lia.
Qed.
