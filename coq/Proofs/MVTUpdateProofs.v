(* C11: vectortiles_update_properties changes only the property sets of the named layer. *)
From Coq Require Import List NArith ZArith Bool Lia.
From VT Require Import Model.MVT Proofs.MVTProofs Model.MVTUpdate.
Import ListNotations.
Local Open Scope N_scope.

(* ---- the map laws the join relies on (no sortedness needed) ---- *)
Lemma bt_get_insert k k' v m : bt_get k (bt_insert k' v m) = if bytes_eqb k k' then Some v else bt_get k m.
Proof.
  induction m as [|[k2 v2] r IH]; cbn [bt_insert bt_get].
  - reflexivity.
  - destruct (bytes_eqb k' k2) eqn:E1.
    + apply bytes_eqb_eq in E1. subst k2. cbn [bt_get]. destruct (bytes_eqb k k'); reflexivity.
    + destruct (bytes_ltb k' k2); cbn [bt_get].
      * reflexivity.
      * rewrite IH. destruct (bytes_eqb k k2) eqn:E2; [|reflexivity].
        apply bytes_eqb_eq in E2. subst k2. destruct (bytes_eqb k k') eqn:E3; [|reflexivity].
        apply bytes_eqb_eq in E3. subst k'. assert (bytes_eqb k k = true) by now apply bytes_eqb_eq. congruence.
Qed.

(* GeoProperties::update: new entries win, old entries with other keys stay *)
Lemma bt_get_update k new : forall m,
  bt_get k (bt_update m new) = match props_get new k with Some v => Some v | None => bt_get k m end.
Proof.
  unfold bt_update. induction new as [|[k1 v1] r IH]; intros m; cbn [fold_left props_get fst snd]; [reflexivity|].
  rewrite IH. destruct (props_get r k) as [x|]; [reflexivity|]. rewrite bt_get_insert. destruct (bytes_eqb k k1); reflexivity.
Qed.

(* a decoded tag list as a map: the last tag pair of a key wins *)
Corollary bt_get_of k ps : bt_get k (bt_of ps) = props_get ps k.
Proof. unfold bt_of. rewrite bt_get_update. destruct (props_get ps k); reflexivity. Qed.

(* ---- the closure: what happens to one feature's properties ---- *)
Theorem upd_props_spec find idf replace remove p :
  match bt_get idf p with
  | None => upd_props find idf replace remove p = Some p                         (* no id field: untouched *)
  | Some id =>
      match find id with
      | None => upd_props find idf replace remove p = if remove then None else Some p
      | Some np => exists q, upd_props find idf replace remove p = Some q /\
                   forall k, bt_get k q = if replace then bt_get k np
                                         else match props_get np k with Some v => Some v | None => bt_get k p end
      end
  end.
Proof.
  unfold upd_props. destruct (bt_get idf p) as [id|]; [|reflexivity].
  destruct (find id) as [np|]; [|reflexivity].
  eexists. split; [reflexivity|]. intros k. destruct replace; [reflexivity|]. apply bt_get_update.
Qed.

(* ---- first pass: retained features, in order ---- *)
Definition keep find idf replace remove keys vals (f : feature) : list (feature * props) :=
  match decode_tags keys vals (ftags f) with
  | Some ps => match upd_props find idf replace remove (bt_of ps) with Some p => [(f, p)] | None => [] end
  | None => []
  end.

Theorem retained_spec find idf replace remove keys vals fs rp :
  retained find idf replace remove keys vals fs = Some rp ->
  rp = flat_map (keep find idf replace remove keys vals) fs /\
  Forall (fun f => decode_tags keys vals (ftags f) <> None) fs.
Proof.
  revert rp. induction fs as [|f r IH]; intros rp; cbn [retained flat_map].
  - intros H; inversion H. split; [reflexivity | constructor].
  - unfold keep at 1. destruct (decode_tags keys vals (ftags f)) as [ps|] eqn:Ed; [|discriminate].
    destruct (retained find idf replace remove keys vals r) as [rest|] eqn:Er; [|discriminate].
    destruct (IH rest eq_refl) as [-> Hall].
    destruct (upd_props find idf replace remove (bt_of ps)) as [p|]; intros H; inversion H; subst;
      (split; [reflexivity | constructor; [congruence | exact Hall]]).
Qed.

Theorem retained_fails_only_on_bad_tags find idf replace remove keys vals fs :
  retained find idf replace remove keys vals fs = None -> exists f, In f fs /\ decode_tags keys vals (ftags f) = None.
Proof.
  induction fs as [|f r IH]; cbn [retained]; [discriminate|].
  destruct (decode_tags keys vals (ftags f)) as [ps|] eqn:Ed; [|intros _; exists f; split; [now left | exact Ed]].
  destruct (retained find idf replace remove keys vals r) as [rest|] eqn:Er.
  - destruct (upd_props find idf replace remove (bt_of ps)); discriminate.
  - intros _. destruct (IH eq_refl) as (g & Hg & Hd). exists g. split; [now right | exact Hd].
Qed.

(* ---- second pass: re-encoding keeps id, type, geometry and yields exactly the given properties ---- *)
Definition want (fp : feature * props) := (fid (fst fp), ftype (fst fp), fgeom (fst fp), Some (snd fp)).

Lemma reencode_content l : forall keys vals acc k v fs,
  Forall (fun f => decode_tags keys vals (ftags f) <> None) acc ->
  reencode keys vals acc l = (k, v, fs) ->
  map (fcontent k v) fs = map (fcontent keys vals) acc ++ map want l.
Proof.
  induction l as [|[f p] r IH]; intros keys vals acc k v fs Hacc; cbn [reencode].
  - intros H; inversion H; subst. cbn [map]. now rewrite app_nil_r.
  - destruct (encode_tags keys vals p) as [[k2 v2] tags] eqn:Ee.
    destruct (encode_decode_tags p _ _ _ _ _ Ee) as (Hd & [ek ->] & [ev ->]).
    intros H. erewrite IH; [|  | exact H].
    + rewrite map_app. cbn [map]. rewrite <- app_assoc. cbn [app]. f_equal.
      * apply map_ext_in. intros g Hg. apply fcontent_prefix. rewrite Forall_forall in Hacc. now apply Hacc.
      * f_equal. unfold fcontent, want. cbn [fid ftype fgeom ftags fst snd]. now rewrite Hd.
    + apply Forall_app. split.
      * eapply Forall_impl; [|exact Hacc]. cbn. intros g Hg.
        destruct (decode_tags keys vals (ftags g)) as [q|] eqn:Eq; [|congruence].
        rewrite (decode_tags_prefix _ _ ek ev _ _ Eq). discriminate.
      * constructor; [cbn [ftags]; rewrite Hd; discriminate | constructor].
Qed.

(* the named layer: name, extent and version stay; the features are the retained ones in their
   original order, each with its id, geometry type and geometry bytes and with the joined properties *)
Theorem update_layer_spec find idf replace remove l l' :
  update_layer find idf replace remove l = Some l' ->
  lname l' = lname l /\ lextent l' = lextent l /\ lversion l' = lversion l /\
  lcontent l' = map want (flat_map (keep find idf replace remove (lkeys l) (lvals l)) (lfeatures l)).
Proof.
  unfold update_layer. destruct (retained find idf replace remove (lkeys l) (lvals l) (lfeatures l)) as [rp|] eqn:Er; [|discriminate].
  destruct (reencode [] [] [] rp) as [[k v] fs] eqn:Ee. intros H; inversion H; subst. cbn [lname lextent lversion].
  repeat split. unfold lcontent. cbn [lkeys lvals lfeatures].
  rewrite (reencode_content rp [] [] [] k v fs (Forall_nil _) Ee). cbn [map app].
  destruct (retained_spec _ _ _ _ _ _ _ _ Er) as [-> _]. reflexivity.
Qed.

(* the whole tile: same number of layers, in the same order; a layer with another name is
   returned as it is (same tables, same features, same tag ids) *)
Theorem update_tile_spec find idf replace remove name ls ls' :
  update_tile find idf replace remove name ls = Some ls' ->
  Forall2 (fun l l' => if bytes_eqb (lname l) name then update_layer find idf replace remove l = Some l' else l' = l) ls ls'.
Proof.
  revert ls'. induction ls as [|l r IH]; intros ls'; cbn [update_tile].
  - intros H; inversion H. constructor.
  - destruct (bytes_eqb (lname l) name) eqn:En.
    + destruct (update_layer find idf replace remove l) as [l1|] eqn:El; [|discriminate].
      destruct (update_tile find idf replace remove name r) as [r1|]; [|discriminate].
      intros H; inversion H; subst. constructor; [rewrite En; exact El | apply IH; reflexivity].
    + destruct (update_tile find idf replace remove name r) as [r1|]; [|discriminate].
      intros H; inversion H; subst. constructor; [rewrite En; reflexivity | apply IH; reflexivity].
Qed.

(* a failure is an undecodable feature in a layer of that name, nothing else *)
Theorem update_tile_fails_only_on_bad_tags find idf replace remove name ls :
  update_tile find idf replace remove name ls = None ->
  exists l f, In l ls /\ lname l = name /\ In f (lfeatures l) /\ decode_tags (lkeys l) (lvals l) (ftags f) = None.
Proof.
  induction ls as [|l r IH]; cbn [update_tile]; [discriminate|].
  destruct (bytes_eqb (lname l) name) eqn:En.
  - destruct (update_layer find idf replace remove l) as [l1|] eqn:El.
    + destruct (update_tile find idf replace remove name r) as [r1|]; [discriminate|].
      intros _. destruct (IH eq_refl) as (l0 & f & Hl & Hn & Hf & Hd). exists l0, f. repeat split; auto. now right.
    + intros _. unfold update_layer in El.
      destruct (retained find idf replace remove (lkeys l) (lvals l) (lfeatures l)) as [rp|] eqn:Er.
      * destruct (reencode [] [] [] rp) as [[k v] fs]. discriminate.
      * destruct (retained_fails_only_on_bad_tags _ _ _ _ _ _ _ Er) as (f & Hf & Hd).
        exists l, f. repeat split; auto; [now left | now apply bytes_eqb_eq].
  - destruct (update_tile find idf replace remove name r) as [r1|]; [discriminate|].
    intros _. destruct (IH eq_refl) as (l0 & f & Hl & Hn & Hf & Hd). exists l0, f. repeat split; auto. now right.
Qed.

(* ---- the association list really is a BTreeMap: kept strictly sorted by key ---- *)
Fixpoint bt_sorted (m : props) : bool :=
  match m with
  | [] => true
  | (k1, _) :: r => match r with [] => true | (k2, _) :: _ => bytes_ltb k1 k2 && bt_sorted r end
  end.

Lemma bytes_ltb_trichotomy a : forall b, bytes_eqb a b = false -> bytes_ltb a b = false -> bytes_ltb b a = true.
Proof.
  induction a as [|x a IH]; intros [|y b] He Hl; cbn [bytes_ltb] in *.
  - exfalso. assert (bytes_eqb [] [] = true) by now apply bytes_eqb_eq. congruence.
  - discriminate.
  - reflexivity.
  - destruct (x <? y) eqn:E1; [discriminate|]. destruct (y <? x) eqn:E2; [reflexivity|].
    assert (x = y) by (apply N.ltb_ge in E1; apply N.ltb_ge in E2; lia). subst y.
    apply IH; [|exact Hl]. destruct (bytes_eqb a b) eqn:E; [|reflexivity].
    apply bytes_eqb_eq in E. subst b. assert (bytes_eqb (x :: a) (x :: a) = true) by now apply bytes_eqb_eq. congruence.
Qed.

Theorem bt_insert_sorted k v m : bt_sorted m = true -> bt_sorted (bt_insert k v m) = true.
Proof.
  induction m as [|[k1 v1] r IH]; intros Hs; cbn [bt_insert]; [reflexivity|].
  destruct (bytes_eqb k k1) eqn:E1.
  - apply bytes_eqb_eq in E1. subst k1. exact Hs.
  - destruct (bytes_ltb k k1) eqn:E2.
    + cbn [bt_sorted]. cbn [bt_sorted] in Hs. rewrite E2. exact Hs.
    + assert (L : bytes_ltb k1 k = true) by exact (bytes_ltb_trichotomy k k1 E1 E2).
      destruct r as [|[k2 v2] r2].
      * cbn [bt_insert bt_sorted]. now rewrite L.
      * cbn [bt_sorted] in Hs. apply andb_true_iff in Hs. destruct Hs as [H12 Hr].
        specialize (IH Hr). cbn [bt_insert] in *.
        destruct (bytes_eqb k k2) eqn:E3.
        -- cbn [bt_sorted] in *. rewrite L. exact IH.
        -- destruct (bytes_ltb k k2) eqn:E4.
           ++ cbn [bt_sorted] in *. rewrite L. exact IH.
           ++ cbn [bt_sorted] in *. rewrite H12. exact IH.
Qed.

Corollary bt_update_sorted new : forall m, bt_sorted m = true -> bt_sorted (bt_update m new) = true.
Proof.
  unfold bt_update. induction new as [|[k v] r IH]; intros m H; cbn [fold_left fst snd]; [exact H|].
  apply IH. now apply bt_insert_sorted.
Qed.
Corollary bt_of_sorted ps : bt_sorted (bt_of ps) = true.
Proof. unfold bt_of. now apply bt_update_sorted. Qed.
