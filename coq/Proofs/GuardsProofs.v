From Coq Require Import NArith ZArith Bool Lia.
From VT Require Import Base.Outcome Model.Guards.
Local Open Scope N_scope.

(* with the saturating addition the sub-reader request ends with a range inside the data or an error *)
Theorem sub_reader_total start length len : start <= u64_max -> length <= u64_max -> len < u64_max ->
  (start + length <= len -> sub_reader 1 start length len = Ok (start, start + length)) /\
  (len < start + length -> sub_reader 1 start length len = Err).
Proof.
  intros Hs Hl Hn. unfold sub_reader. change (1 =? 0) with false. cbn [andb]. split; intros H.
  - rewrite N.min_l by lia. destruct (len <? start + length) eqn:E; [apply N.ltb_lt in E; exfalso; lia | reflexivity].
  - destruct (len <? N.min (start + length) u64_max) eqn:E; [reflexivity|]. apply N.ltb_ge in E. exfalso. lia.
Qed.

Theorem sub_reader_overflow_refuted_v0 : sub_reader 0 5 u64_max 100 = Overflow /\ sub_reader 1 5 u64_max 100 = Err.
Proof. split; reflexivity. Qed.

Theorem fm_decoded_never_panics {A} (d : option A) : fm_decoded 1 d <> Panic /\ fm_decoded 0 (@None A) = Panic.
Proof. split; [destruct d; discriminate | reflexivity]. Qed.
