(* Explicit outcomes of Rust operations: value, Err(..) return, panic, arithmetic overflow
   (a panic in the dev profile, a wrap in release — kept apart so theorems can exclude it). *)
Inductive outcome (A : Type) : Type :=
| Ok (a : A)
| Err
| Panic
| Overflow.
Arguments Ok {A} a.
Arguments Err {A}.
Arguments Panic {A}.
Arguments Overflow {A}.

Definition obind {A B} (o : outcome A) (f : A -> outcome B) : outcome B :=
  match o with Ok a => f a | Err => Err | Panic => Panic | Overflow => Overflow end.
Definition omap {A B} (f : A -> B) (o : outcome A) : outcome B := obind o (fun a => Ok (f a)).
Definition is_ok {A} (o : outcome A) : bool := match o with Ok _ => true | _ => false end.
Definition fails_hard {A} (o : outcome A) : bool :=
  match o with Panic | Overflow => true | _ => false end.
