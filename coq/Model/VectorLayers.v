(* "vector_layers" of a TileJSON document (versatiles_core/src/tilejson/vector_layer.rs):
   VectorLayers::merge and VectorLayer::merge.  Both maps are BTreeMaps: association lists with
   replace-on-insert here; documents are compared key by key.  Executable definitions only. *)
From Coq Require Import List NArith Bool.
From VT Require Import Model.Http Model.TileJson.
Import ListNotations.

Record vlayer := mkVL { vl_fields : list (str * str); vl_desc : option str; vl_min : option N; vl_max : option N }.
Definition vlayers := list (str * vlayer).

Fixpoint f_get (k : str) (m : list (str * str)) : option str :=
  match m with [] => None | (k', v) :: r => if str_eqb k k' then Some v else f_get k r end.
Fixpoint f_put (k : str) (v : str) (m : list (str * str)) : list (str * str) :=
  match m with [] => [(k, v)] | (k', v') :: r => if str_eqb k k' then (k, v) :: r else (k', v') :: f_put k v r end.
Fixpoint l_get (k : str) (m : vlayers) : option vlayer :=
  match m with [] => None | (k', v) :: r => if str_eqb k k' then Some v else l_get k r end.
Fixpoint l_put (k : str) (v : vlayer) (m : vlayers) : vlayers :=
  match m with [] => [(k, v)] | (k', v') :: r => if str_eqb k k' then (k, v) :: r else (k', v') :: l_put k v r end.

(* VectorLayer::merge: the other layer's fields overwrite, its description wins if present, the zoom range widens *)
Definition vl_merge (a b : vlayer) : vlayer :=
  mkVL (fold_left (fun m kv => f_put (fst kv) (snd kv) m) (vl_fields b) (vl_fields a))
       (match vl_desc b with Some d => Some d | None => vl_desc a end)
       (match vl_min b with Some o => Some (match vl_min a with Some m => N.min m o | None => o end) | None => vl_min a end)
       (match vl_max b with Some o => Some (match vl_max a with Some m => N.max m o | None => o end) | None => vl_max a end).

(* VectorLayers::merge *)
Definition vls_merge (a b : vlayers) : vlayers :=
  fold_left (fun m kv => match l_get (fst kv) m with
                         | Some existing => l_put (fst kv) (vl_merge existing (snd kv)) m
                         | None => l_put (fst kv) (snd kv) m
                         end) b a.
