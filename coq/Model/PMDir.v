(* PMTiles v3 directories (versatiles_container/src/container/pmtiles/types/entries_v3.rs,
   reader.rs): column-wise varint serialisation, binary search with run lengths and leaf
   fall-through, lookup through the directory levels, coverage scan.  Executable definitions only. *)
From Coq Require Import List NArith ZArith Bool.
From VT Require Import Base.Outcome Model.MVT Model.TileId.
Import ListNotations.
Local Open Scope N_scope.

Record entry := mkE { e_id : N; e_off : N; e_len : N; e_run : N }.

(* ---------- serialisation ---------- *)
Fixpoint ser_deltas (last : N) (es : list entry) : list N :=
  match es with [] => [] | e :: r => (e_id e - last) :: ser_deltas (e_id e) r end.

(* offset column: 0 means "directly behind the previous entry".  The format leaves the use of the
   shorthand to the encoder (ch); serialize_entries uses it whenever it applies (all true). *)
Fixpoint ser_offsets (prev : option entry) (ch : list bool) (es : list entry) : list N :=
  match es with
  | [] => []
  | e :: r =>
      let c := match ch with b :: _ => b | [] => true end in
      (match prev with
       | Some p => if c && (e_off e =? e_off p + e_len p) then 0 else e_off e + 1
       | None => e_off e + 1
       end) :: ser_offsets (Some e) (tl ch) r
  end.

Definition serialize_with (ch : list bool) (es : list entry) : bytes :=
  write_varint (N.of_nat (length es)) ++
  flat_map write_varint (ser_deltas 0 es) ++
  flat_map write_varint (map e_run es) ++
  flat_map write_varint (map e_len es) ++
  flat_map write_varint (ser_offsets None ch es).

Definition serialize (es : list entry) : bytes := serialize_with [] es.

(* count varints; every varint takes at least one byte, so the byte count bounds the recursion *)
Fixpoint read_n (fuel : nat) (count : N) (l : bytes) : option (list N * bytes) :=
  if count =? 0 then Some ([], l) else
  match fuel with
  | O => None
  | S f => match read_varint l with
           | None => None
           | Some (v, r) => match read_n f (count - 1) r with
                            | Some (vs, r') => Some (v :: vs, r')
                            | None => None
                            end
           end
  end.

Fixpoint prefix_sums (last : N) (ds : list N) : outcome (list N) :=
  match ds with
  | [] => Ok []
  | d :: r => let s := last + d in
              if two64 <=? s then Overflow else omap (cons s) (prefix_sums s r)
  end.

Fixpoint dec_offsets (prev : option (N * N)) (lens tmps : list N) : outcome (list N) :=
  match lens, tmps with
  | len :: lr, tmp :: tr =>
      let o := match prev with
               | Some (po, pl) => if tmp =? 0 then (if two64 <=? po + pl then Overflow else Ok (po + pl))
                                  else Ok (tmp - 1)
               | None => if tmp =? 0 then Overflow else Ok (tmp - 1)           (* tmp - 1 on 0u64 *)
               end in
      obind o (fun off => omap (cons off) (dec_offsets (Some (off, len)) lr tr))
  | _, _ => Ok []
  end.

Fixpoint zip4 (a b c d : list N) : list entry :=
  match a, b, c, d with
  | i :: a', o :: b', l :: c', r :: d' => mkE i o l r :: zip4 a' b' c' d'
  | _, _, _, _ => []
  end.

(* the columns are consumed in the order of the code: ids are summed while they are read, offsets
   are resolved while they are read (an arithmetic overflow there precedes a later end of input) *)
(* av: arithmetic variant regenerated from the source (Gen/Constants.pm_arith_variant): 0 = unchecked
   u64 arithmetic (a panic with overflow checks), 1 = checked arithmetic, failing with an error *)
Definition ovf {A} (av : N) : outcome A := if av =? 1 then Err else Overflow.

Fixpoint read_ids (av : N) (fuel : nat) (count last : N) (l : bytes) : outcome (list N * bytes) :=
  if count =? 0 then Ok ([], l) else
  match fuel with
  | O => Err
  | S f => match read_varint l with
           | None => Err
           | Some (d, r) =>
               let s := last + d in
               if two64 <=? s then ovf av else
               obind (read_ids av f (count - 1) s r) (fun p => Ok (s :: fst p, snd p))
           end
  end.

Fixpoint read_offsets (av : N) (fuel : nat) (prev : option (N * N)) (lens : list N) (l : bytes) : outcome (list N) :=
  match lens with
  | [] => Ok []
  | len :: lr =>
      match fuel with
      | O => Err
      | S f => match read_varint l with
               | None => Err
               | Some (tmp, r) =>
                   let o := match prev with
                            | Some (po, pl) => if tmp =? 0 then (if two64 <=? po + pl then ovf av else Ok (po + pl))
                                               else Ok (tmp - 1)
                            | None => if tmp =? 0 then ovf av else Ok (tmp - 1)
                            end in
                   obind o (fun off => omap (cons off) (read_offsets av f (Some (off, len)) lr r))
               end
      end
  end.

Definition deserialize (av : N) (l : bytes) : outcome (list entry) :=
  match read_varint l with
  | None => Err
  | Some (count, r0) =>
      if 10000000000 <? count then Err else
      let fuel := length l in
      obind (read_ids av fuel count 0 r0) (fun p1 =>
      let '(ids, r1) := p1 in
      match read_n fuel count r1 with None => Err | Some (runs, r2) =>
      match read_n fuel count r2 with None => Err | Some (lens, r3) =>
      obind (read_offsets av fuel None lens r3) (fun offs =>
      Ok (zip4 ids offs lens (map (fun r => r mod 4294967296) runs)))   (* as u32 *)
      end end)
  end.

(* ---------- find_tile ---------- *)
Fixpoint find_loop (av : N) (fuel : nat) (es : list entry) (m n : Z) (t : N) : outcome (option entry) :=
  match fuel with
  | O => Panic
  | S f =>
      if (m <=? n)%Z then
        let k := Z.shiftr (n + m) 1 in
        match nth_error es (Z.to_nat k) with
        | None => Panic
        | Some e => if e_id e <? t then find_loop av f es (k + 1)%Z n t
                    else if t <? e_id e then find_loop av f es m (k - 1)%Z t
                    else Ok (Some e)
        end
      else if (0 <=? n)%Z then
        match nth_error es (Z.to_nat n) with
        | None => Panic
        | Some e => if e_run e =? 0 then Ok (Some e)
                    else if t <? e_id e then (if av =? 1 then Ok None else Overflow)   (* tile_id - entry.tile_id in u64 *)
                    else if t - e_id e <? e_run e then Ok (Some e) else Ok None
        end
      else Ok None
  end.

Definition find_tile (av : N) (es : list entry) (t : N) : outcome (option entry) :=
  find_loop av (S (length es)) es 0 (Z.of_nat (length es) - 1) t.

(* ---------- lookup through the levels (get_tile_data: for _depth in 0..3) ---------- *)
Fixpoint pm_lookup (av : N) (depth : nat) (leaf : N -> N -> outcome (list entry)) (dir : list entry) (t : N)
  : outcome (option entry) :=
  match depth with
  | O => Err                                                             (* bail!("not found") *)
  | S d =>
      obind (find_tile av dir t) (fun oe =>
      match oe with
      | None => Ok None
      | Some e =>
          if 0 <? e_len e then
            if 0 <? e_run e then Ok (Some e)
            else obind (leaf (e_off e) (e_len e)) (fun dir' => pm_lookup av d leaf dir' t)
          else Ok None
      end)
  end.

(* ---------- coverage scan (calc_bbox_pyramid): every id of every run, through all leaves ---------- *)
Definition run_ids (e : entry) : list N := map (fun i => e_id e + N.of_nat i) (seq 0 (N.to_nat (e_run e))).

Fixpoint cov_ids (fuel : nat) (leaf : N -> N -> outcome (list entry)) (dir : list entry) : outcome (list N) :=
  match fuel with
  | O => Err                  (* depth limit (pm_depth_variant = 1: fuel 3); before the fix the recursion was unbounded *)
  | S f =>
      (fix go (es : list entry) : outcome (list N) :=
         match es with
         | [] => Ok []
         | e :: r =>
             obind (if 0 <? e_len e then
                      if 0 <? e_run e then Ok (run_ids e)
                      else obind (leaf (e_off e) (e_len e)) (cov_ids f leaf)
                    else Ok []) (fun a => omap (app a) (go r))
         end) dir
  end.
