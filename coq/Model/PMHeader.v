(* PMTiles v3 header, 127 bytes little-endian (versatiles_container/src/container/pmtiles/types/
   header_v3.rs: serialize / deserialize; tile_compression.rs, tile_type.rs: from_u8).
   i32 fields are kept as their 32 bits.  Executable definitions only. *)
From Coq Require Import List NArith Bool.
From VT Require Import Base.Outcome Model.VTBytes.
Import ListNotations.
Local Open Scope N_scope.

Definition le_bytes (n : nat) (v : N) : bytes := rev (be_bytes n v).
Definition take_le (n : nat) (l : bytes) : outcome (N * bytes) :=
  if Nat.leb n (length l) then Ok (rd_be (rev (firstn n l)), skipn n l) else Err.

Definition pm_magic : bytes := [80; 77; 84; 105; 108; 101; 115; 3].       (* "PMTiles", version 3 *)

Record pmh := mkPMH {
  p_root_off : N; p_root_len : N; p_meta_off : N; p_meta_len : N;
  p_leaf_off : N; p_leaf_len : N; p_data_off : N; p_data_len : N;
  p_addressed : N; p_entries : N; p_contents : N;
  p_clustered : bool; p_icomp : N; p_tcomp : N; p_type : N;
  p_minz : N; p_maxz : N; p_b0 : N; p_b1 : N; p_b2 : N; p_b3 : N;
  p_cz : N; p_c0 : N; p_c1 : N
}.

Definition pmh_serialize (h : pmh) : bytes :=
  pm_magic ++
  le_bytes 8 (p_root_off h) ++ le_bytes 8 (p_root_len h) ++ le_bytes 8 (p_meta_off h) ++ le_bytes 8 (p_meta_len h) ++
  le_bytes 8 (p_leaf_off h) ++ le_bytes 8 (p_leaf_len h) ++ le_bytes 8 (p_data_off h) ++ le_bytes 8 (p_data_len h) ++
  le_bytes 8 (p_addressed h) ++ le_bytes 8 (p_entries h) ++ le_bytes 8 (p_contents h) ++
  le_bytes 1 (if p_clustered h then 1 else 0) ++ le_bytes 1 (p_icomp h) ++ le_bytes 1 (p_tcomp h) ++ le_bytes 1 (p_type h) ++
  le_bytes 1 (p_minz h) ++ le_bytes 1 (p_maxz h) ++
  le_bytes 4 (p_b0 h) ++ le_bytes 4 (p_b1 h) ++ le_bytes 4 (p_b2 h) ++ le_bytes 4 (p_b3 h) ++
  le_bytes 1 (p_cz h) ++ le_bytes 4 (p_c0 h) ++ le_bytes 4 (p_c1 h).

Definition pmh_deserialize (l : bytes) : outcome pmh :=
  if negb (Nat.eqb (length l) 127) then Err else
  if negb (bytes_eqb (firstn 8 l) pm_magic) then Err else          (* magic, then version = 3 *)
  let l := skipn 8 l in
  obind (take_le 8 l) (fun '(ro, l) => obind (take_le 8 l) (fun '(rl, l) =>
  obind (take_le 8 l) (fun '(mo, l) => obind (take_le 8 l) (fun '(ml, l) =>
  obind (take_le 8 l) (fun '(lo, l) => obind (take_le 8 l) (fun '(ll, l) =>
  obind (take_le 8 l) (fun '(do_, l) => obind (take_le 8 l) (fun '(dl, l) =>
  obind (take_le 8 l) (fun '(na, l) => obind (take_le 8 l) (fun '(ne, l) => obind (take_le 8 l) (fun '(nc, l) =>
  obind (take_le 1 l) (fun '(cl, l) =>
  obind (take_le 1 l) (fun '(ic, l) => if 4 <? ic then Err else
  obind (take_le 1 l) (fun '(tc, l) => if 4 <? tc then Err else
  obind (take_le 1 l) (fun '(ty, l) => if 5 <? ty then Err else
  obind (take_le 1 l) (fun '(z0, l) => obind (take_le 1 l) (fun '(z1, l) =>
  obind (take_le 4 l) (fun '(b0, l) => obind (take_le 4 l) (fun '(b1, l) =>
  obind (take_le 4 l) (fun '(b2, l) => obind (take_le 4 l) (fun '(b3, l) =>
  obind (take_le 1 l) (fun '(cz, l) => obind (take_le 4 l) (fun '(c0, l) => obind (take_le 4 l) (fun '(c1, _) =>
  Ok (mkPMH ro rl mo ml lo ll do_ dl na ne nc (cl =? 1) ic tc ty z0 z1 b0 b1 b2 b3 cz c0 c1))))))))))))))))))))))))).
