(* Model of byte-range reads on one open file description shared by all callers
   (versatiles_core/src/io/data_reader_file.rs).  A duplicated descriptor (try_clone = dup) shares
   the file offset with the original, so `dup; lseek; read` from several callers interleave on ONE
   offset; `pread` carries its own offset.  Executable definitions only. *)
From Coq Require Import List NArith Bool.
Import ListNotations.
Local Open Scope N_scope.

Inductive sysc := Seek (off : N) | Read (len : N) | Pread (off len : N).

Definition slice (file : list N) (off len : N) : list N :=
  firstn (N.to_nat len) (skipn (N.to_nat off) file).

(* one syscall on the shared state (the offset); returns new offset and the bytes read, if any *)
Definition exec (file : list N) (pos : N) (c : sysc) : N * option (list N) :=
  match c with
  | Seek off => (off, None)
  | Read len => let d := slice file pos len in (pos + N.of_nat (length d), Some d)
  | Pread off len => (pos, Some (slice file off len))
  end.

(* the program one read_range(off, len) call issues; variant 0 = dup + lseek + read (pinned
   source; dup has no effect on the shared offset), 1 = pread *)
Definition read_range_prog (variant : N) (off len : N) : list sysc :=
  if variant =? 0 then [Seek off; Read len] else [Pread off len].

(* threads: remaining program + bytes read so far; a schedule picks the thread for every step *)
Definition thread := (list sysc * list (list N))%type.

Fixpoint update {A} (i : nat) (x : A) (l : list A) : list A :=
  match l, i with
  | [], _ => []
  | _ :: r, O => x :: r
  | a :: r, S j => a :: update j x r
  end.

Fixpoint run_sched (file : list N) (pos : N) (ths : list thread) (sched : list nat) : N * list thread :=
  match sched with
  | [] => (pos, ths)
  | i :: r =>
      match nth_error ths i with
      | Some (c :: prog, res) =>
          let '(pos', out) := exec file pos c in
          let res' := match out with Some d => res ++ [d] | None => res end in
          run_sched file pos' (update i (prog, res') ths) r
      | _ => run_sched file pos ths r          (* finished or unknown thread: no-op *)
      end
  end.

Definition start (variant : N) (calls : list (N * N)) : list thread :=
  map (fun c => (read_range_prog variant (fst c) (snd c), [])) calls.

Definition all_done (ths : list thread) : bool := forallb (fun t => match fst t with [] => true | _ => false end) ths.
