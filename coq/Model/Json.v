(* Model of JSON string escaping and parsing (versatiles_core/src/json/stringify.rs escape_json_string,
   byte_iterator/basics.rs parse_quoted_json_string, json/parse.rs, json/types).
   Strings are lists of Unicode scalar values.  The Rust parser works on UTF-8 bytes, copies
   non-escape bytes verbatim and only inspects ASCII bytes, which never occur inside a multi-byte
   sequence; the one place where byte boundaries matter (the 4 bytes after \u) is modelled by
   utf8_len.  Numbers are kept as their literal text (f64 Display/FromStr are not modelled). *)
From Coq Require Import List NArith Bool.
Import ListNotations.
Local Open Scope N_scope.

Definition str := list N.

Definition is_control (c : N) : bool := (c <? 32) || ((127 <=? c) && (c <=? 159)).
Definition hexdig (n : N) : N := if n <? 10 then 48 + n else 87 + n.
Definition hex4 (c : N) : str :=
  [hexdig ((c / 4096) mod 16); hexdig ((c / 256) mod 16); hexdig ((c / 16) mod 16); hexdig (c mod 16)].

Definition esc_char (c : N) : str :=
  if c =? 34 then [92; 34] else if c =? 92 then [92; 92]
  else if c =? 10 then [92; 110] else if c =? 13 then [92; 114] else if c =? 9 then [92; 116]
  else if c =? 8 then [92; 98] else if c =? 12 then [92; 102]
  else if is_control c then [92; 117] ++ hex4 c
  else [c].
Definition escape (s : str) : str := flat_map esc_char s.
Definition quote (s : str) : str := 34 :: escape s ++ [34].

Definition hexval (c : N) : option N :=
  if (48 <=? c) && (c <=? 57) then Some (c - 48)
  else if (97 <=? c) && (c <=? 102) then Some (c - 87)
  else if (65 <=? c) && (c <=? 70) then Some (c - 55)
  else None.

Definition utf8_len (c : N) : N := if c <? 128 then 1 else if c <? 2048 then 2 else if c <? 65536 then 3 else 4.

Inductive jresult (A : Type) := JOk (a : A) (rest : str) | JErr | JPanic.
Arguments JOk {A}. Arguments JErr {A}. Arguments JPanic {A}.

(* state machine of parse_quoted_json_string after the opening quote *)
Inductive sst := SNorm | SEsc | SHex (k : nat) (v : N) (bytes : N).

(* the window already holds a non-hex byte; only a straddling character can still make it panic *)
Fixpoint pstr_bad (left : N) (l : str) : jresult str :=
  match l with
  | [] => JErr
  | c :: r => if left <? utf8_len c then JPanic
              else if left =? utf8_len c then JErr else pstr_bad (left - utf8_len c) r
  end.

(* hex_variant 0: `from_utf8(&hex).unwrap()` panics when the 4-byte window after \u ends inside a
   multi-byte character (pinned source); 1: any non-hex byte is an error *)
Fixpoint pstr (hex_variant : N) (st : sst) (acc : str) (l : str) : jresult str :=
  match l with
  | [] => JErr                                                        (* unexpected end *)
  | c :: r =>
      match st with
      | SNorm => if c =? 34 then JOk acc r else if c =? 92 then pstr hex_variant SEsc acc r
                 else pstr hex_variant SNorm (acc ++ [c]) r
      | SEsc =>
          if c =? 117 then pstr hex_variant (SHex 4 0 0) acc r
          else let d := if c =? 98 then 8 else if c =? 102 then 12 else if c =? 110 then 10
                        else if c =? 114 then 13 else if c =? 116 then 9 else c in
               pstr hex_variant SNorm (acc ++ [d]) r
      | SHex k v bytes =>
          (* the window is 4 BYTES: a multi-byte character that straddles its end cannot be decoded *)
          let bytes' := bytes + utf8_len c in
          if (hex_variant =? 0) && (4 <? bytes') then JPanic
          else match hexval c with
               | None => if (hex_variant =? 0) && (bytes' <? 4) then pstr_bad (4 - bytes') r else JErr
               | Some d =>
                   match k with
                   | S (S k') => pstr hex_variant (SHex (S k') (v * 16 + d) bytes') acc r
                   | _ => let u := v * 16 + d in
                          if (55296 <=? u) && (u <=? 57343) then JErr      (* lone surrogate *)
                          else pstr hex_variant SNorm (acc ++ [u]) r
                   end
               end
      end
  end.

Definition parse_string (hex_variant : N) (l : str) : jresult str :=
  match l with
  | 34 :: r => pstr hex_variant SNorm [] r
  | _ => JErr
  end.

(* ---------- values ---------- *)
Inductive value :=
| VStr (s : str) | VNum (lit : str) | VBool (b : bool) | VNull
| VArr (l : list value) | VObj (l : list (str * value)).

Fixpoint join (sep : str) (l : list str) : str :=
  match l with [] => [] | [x] => x | x :: r => x ++ sep ++ join sep r end.

Definition s_true : str := [116;114;117;101].
Definition s_false : str := [102;97;108;115;101].
Definition s_null : str := [110;117;108;108].

Fixpoint stringify (v : value) : str :=
  match v with
  | VStr s => quote s
  | VNum lit => lit
  | VBool true => s_true
  | VBool false => s_false
  | VNull => s_null
  | VArr l => [91] ++ join [44] (map stringify l) ++ [93]
  | VObj l => [123] ++ join [44] (map (fun kv => quote (fst kv) ++ [58] ++ stringify (snd kv)) l) ++ [125]
  end.

Definition is_ws (c : N) : bool := (c =? 32) || (c =? 9) || (c =? 10) || (c =? 13) || (c =? 12).
Fixpoint skip_ws (l : str) : str := match l with c :: r => if is_ws c then skip_ws r else l | [] => [] end.
Definition is_dig (c : N) : bool := (48 <=? c) && (c <=? 57).
Fixpoint take_digits (l : str) : str * str :=
  match l with c :: r => if is_dig c then let '(d, t) := take_digits r in (c :: d, t) else ([], l) | [] => ([], []) end.

(* parse_number_as_string: sign, digits, optional fraction, optional exponent; returns the text *)
Definition is_sign (c : N) : bool := (c =? 43) || (c =? 45).
Definition take_sign (l : str) : str * str :=
  match l with c :: r => if is_sign c then ([c], r) else ([], l) | [] => ([], l) end.
Definition take_frac (l : str) : option (str * str) :=
  match l with
  | c :: r => if c =? 46 then (let '(fd, t) := take_digits r in match fd with [] => None | _ => Some (46 :: fd, t) end)
              else Some ([], l)
  | [] => Some ([], l)
  end.
Definition take_exp (l : str) : option (str * str) :=
  match l with
  | c :: r => if (c =? 101) || (c =? 69) then
                (let '(sg, r1) := take_sign r in
                 let '(ed, t) := take_digits r1 in
                 match ed with [] => None | _ => Some (c :: sg ++ ed, t) end)
              else Some ([], l)
  | [] => Some ([], l)
  end.
Definition scan_number (l : str) : jresult str :=
  let '(sign, l1) := take_sign l in
  let '(ds, l2) := take_digits l1 in
  match ds with
  | [] => JErr
  | _ => match take_frac l2 with
         | None => JErr
         | Some (frac, l3) =>
             match take_exp l3 with
             | None => JErr
             | Some (ex, l4) => JOk (sign ++ ds ++ frac ++ ex) l4
             end
         end
  end.

Fixpoint expect_tag (tag l : str) : option str :=
  match tag, l with
  | [], _ => Some l
  | t :: tr, c :: r => if t =? c then expect_tag tr r else None
  | _ :: _, [] => None
  end.

Definition head_is (c : N) (l : str) : bool := match l with x :: _ => x =? c | [] => false end.

(* parse_json_iter with explicit fuel (one unit per value and per loop iteration) *)
Fixpoint pval (v : N) (fuel : nat) (l : str) : jresult value :=
  match fuel with O => JErr | S f =>
  let l := skip_ws l in
  match l with
  | [] => JErr
  | c :: r =>
      if c =? 91 then                                                   (* '[' *)
        let r1 := skip_ws r in
        if head_is 93 r1 then JOk (VArr []) (tl r1)
        else match pval v f r1 with
             | JOk x t => match parr v f t with JOk xs t' => JOk (VArr (x :: xs)) t' | JErr => JErr | JPanic => JPanic end
             | JErr => JErr | JPanic => JPanic
             end
      else if c =? 123 then                                             (* '{' *)
        match pobj v f r with JOk kvs t => JOk (VObj kvs) t | JErr => JErr | JPanic => JPanic end
      else if c =? 34 then match parse_string v l with JOk s t => JOk (VStr s) t | JErr => JErr | JPanic => JPanic end
      else if is_dig c || (c =? 46) || (c =? 45) then match scan_number l with JOk s t => JOk (VNum s) t | JErr => JErr | JPanic => JPanic end
      else if c =? 116 then match expect_tag s_true l with Some t => JOk (VBool true) t | None => JErr end
      else if c =? 102 then match expect_tag s_false l with Some t => JOk (VBool false) t | None => JErr end
      else if c =? 110 then match expect_tag s_null l with Some t => JOk VNull t | None => JErr end
      else JErr
  end end
(* remaining array elements: after a value, ws then ']' or ',' ws value *)
with parr (v : N) (fuel : nat) (l : str) : jresult (list value) :=
  match fuel with O => JErr | S f =>
  match skip_ws l with
  | 93 :: t => JOk [] t
  | 44 :: t => match pval v f (skip_ws t) with
               | JOk x t1 => match parr v f t1 with JOk xs t2 => JOk (x :: xs) t2 | JErr => JErr | JPanic => JPanic end
               | JErr => JErr | JPanic => JPanic
               end
  | _ => JErr
  end end
(* object body after '{': ws then '}' or "key" ws ':' ws value ws (',' | '}') *)
with pobj (v : N) (fuel : nat) (l : str) : jresult (list (str * value)) :=
  match fuel with O => JErr | S f =>
  match skip_ws l with
  | 125 :: t => JOk [] t
  | (34 :: _) as l1 =>
      match parse_string v l1 with
      | JOk k t =>
          match skip_ws t with
          | 58 :: t1 =>
              match pval v f (skip_ws t1) with
              | JOk x t2 =>
                  match skip_ws t2 with
                  | 44 :: t3 => match pobj v f t3 with JOk kvs t4 => JOk ((k, x) :: kvs) t4 | JErr => JErr | JPanic => JPanic end
                  | 125 :: t3 => JOk [(k, x)] t3
                  | _ => JErr
                  end
              | JErr => JErr | JPanic => JPanic
              end
          | _ => JErr
          end
      | JErr => JErr | JPanic => JPanic
      end
  | _ => JErr
  end end.

Definition parse_json (v : N) (l : str) : jresult value := pval v (S (length l)) l.
