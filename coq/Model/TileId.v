(* PMTiles tile ids (versatiles_container/src/container/pmtiles/types/tile_id.rs): the two loops,
   in the shape of the code, over Z (the code computes in i64; all intermediate values stay within
   (-2^33, 2^62), see DESIGN).  Executable definitions only. *)
From Coq Require Import ZArith Bool List.
Import ListNotations.
Local Open Scope Z_scope.

Definition b2z (b : bool) : Z := if b then 1 else 0.

(* fn rotate(s, &mut tx, &mut ty, rx, ry) *)
Definition rotate (s tx ty : Z) (rx ry : bool) : Z * Z :=
  if ry then (tx, ty)
  else let '(tx, ty) := if rx then (s - 1 - tx, s - 1 - ty) else (tx, ty) in (ty, tx).

Definition quad (rx ry : bool) : Z := Z.lxor (3 * b2z rx) (b2z ry).

(* while s > 0 { ... s /= 2 } starting at s = 2^(k-1): k iterations *)
Fixpoint enc_loop (k : nat) (tx ty d : Z) : Z :=
  match k with
  | O => d
  | S k' =>
      let s := 2 ^ Z.of_nat k' in
      let rx := 0 <? Z.land tx s in
      let ry := 0 <? Z.land ty s in
      let d := d + s * s * quad rx ry in
      let '(tx, ty) := rotate s tx ty rx ry in
      enc_loop k' tx ty d
  end.

(* acc = sum of 4^t for t < z *)
Fixpoint zoom_acc (z : nat) : Z :=
  match z with O => 0 | S z' => zoom_acc z' + 4 ^ Z.of_nat z' end.

Definition coord_to_tile_id (x y : Z) (z : nat) : option Z :=
  if (32 <=? z)%nat then None else
  if (2 ^ Z.of_nat z <=? x) || (2 ^ Z.of_nat z <=? y) then None else
  Some (zoom_acc z + enc_loop z x y 0).

(* while s < n { ... t /= 4; s *= 2 } from s = 1: k iterations for n = 2^k *)
Fixpoint dec_loop (k : nat) (s t tx ty : Z) : Z * Z :=
  match k with
  | O => (tx, ty)
  | S k' =>
      let rx := Z.odd (t / 2) in
      let ry := Z.odd (Z.lxor t (b2z rx)) in
      let '(tx, ty) := rotate s tx ty rx ry in
      dec_loop k' (2 * s) (t / 4) (tx + (if rx then s else 0)) (ty + (if ry then s else 0))
  end.

(* for t_z in 0..32 { if acc + 4^t_z > tileid { ... } acc += 4^t_z } *)
Fixpoint find_level (fuel : nat) (tz : nat) (acc tileid : Z) : option (nat * Z) :=
  match fuel with
  | O => None
  | S f => if tileid <? acc + 4 ^ Z.of_nat tz then Some (tz, tileid - acc)
           else find_level f (S tz) (acc + 4 ^ Z.of_nat tz) tileid
  end.

Definition tile_id_to_coord (tileid : Z) : option (nat * Z * Z) :=
  match find_level 32 0 0 tileid with
  | Some (tz, t) => let '(x, y) := dec_loop tz 1 t 0 0 in Some (tz, x, y)
  | None => None
  end.
