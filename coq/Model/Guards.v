(* Small guards whose absence was a genuine defect (C19): the length check of
   ValueReader::get_sub_reader (versatiles_core/src/io/value_reader_{slice,blob,file}.rs) and the
   handling of an undecodable feature in VectorTileLayer::filter_map_properties.
   Numbers are u64 in the code: sums are taken modulo nothing here, an overflow is an outcome.  *)
From Coq Require Import NArith Bool.
From VT Require Import Base.Outcome.
Local Open Scope N_scope.

Definition u64_max : N := 18446744073709551615.

(* variant 0: `let end = start + length` (overflow check panics in debug builds);
   variant 1: `start.saturating_add(length)`; then `if end > self.len { bail!(..) }` *)
Definition sub_reader (variant : N) (start length len : N) : outcome (N * N) :=
  if (variant =? 0) && (u64_max <? start + length) then Overflow
  else let e := N.min (start + length) u64_max in
       if len <? e then Err else Ok (start, e).

(* variant 0: `decode_tag_ids(..).unwrap()`; variant 1: the error is returned *)
Definition fm_decoded {A} (variant : N) (decoded : option A) : outcome A :=
  match decoded with Some p => Ok p | None => if variant =? 0 then Panic else Err end.
