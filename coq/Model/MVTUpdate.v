(* vectortiles_update_properties (versatiles_pipeline/src/operations/transform/
   vectortiles_update_properties.rs: Runner::run, the properties_map built in Operation::build) on
   top of VectorTileLayer::filter_map_properties (versatiles_geometry/src/vector_tile/layer.rs)
   and GeoProperties (a BTreeMap<String, GeoValue>: here an association list kept sorted by key,
   one entry per key).
   `find` stands for `properties_map.get(&id.to_string())`: the Display text of a GeoValue (float
   formatting) is not modelled, the map from values to data rows is a parameter.  Table
   construction (PropertyManager::from_iter sorts by frequency) is abstracted: the retained
   features are re-encoded into tables that start empty, in feature order.  *)
From Coq Require Import List NArith ZArith Bool.
From VT Require Import Model.MVT.
Import ListNotations.
Local Open Scope N_scope.

Definition props := list (bytes * value).

(* String order = lexicographic order of the UTF-8 bytes *)
Fixpoint bytes_ltb (a b : bytes) : bool :=
  match a, b with
  | [], [] => false
  | [], _ :: _ => true
  | _ :: _, [] => false
  | x :: a', y :: b' => if x <? y then true else if y <? x then false else bytes_ltb a' b'
  end.

(* BTreeMap::insert *)
Fixpoint bt_insert (k : bytes) (v : value) (m : props) : props :=
  match m with
  | [] => [(k, v)]
  | (k', v') :: r => if bytes_eqb k k' then (k, v) :: r
                     else if bytes_ltb k k' then (k, v) :: m
                     else (k', v') :: bt_insert k v r
  end.
Fixpoint bt_get (k : bytes) (m : props) : option value :=
  match m with [] => None | (k', v) :: r => if bytes_eqb k k' then Some v else bt_get k r end.
Fixpoint bt_remove (k : bytes) (m : props) : props :=
  match m with [] => [] | (k', v) :: r => if bytes_eqb k k' then bt_remove k r else (k', v) :: bt_remove k r end.
(* decode_tag_ids collects into a map in tag order; GeoProperties::update inserts every new entry *)
Definition bt_update (m new : props) : props := fold_left (fun acc kv => bt_insert (fst kv) (snd kv) acc) new m.
Definition bt_of (ps : props) : props := bt_update [] ps.

(* Operation::build: a data row becomes the new properties, without its id column unless include_id *)
Definition row_props (include_id : bool) (idf_data : bytes) (row : props) : props :=
  if include_id then bt_of row else bt_remove idf_data (bt_of row).

Section Update.
  Variable find : value -> option props.        (* properties_map.get(&id.to_string()) *)
  Variable idf : bytes.                         (* id_field_tiles *)
  Variables replace remove : bool.              (* replace_properties, remove_non_matching *)

  (* the closure passed to filter_map_properties: None = the feature is dropped *)
  Definition upd_props (p : props) : option props :=
    match bt_get idf p with
    | Some id => match find id with
                 | Some np => Some (if replace then np else bt_update p np)
                 | None => if remove then None else Some p
                 end
    | None => Some p
    end.

  (* first pass of filter_map_properties: decode every feature (an undecodable one is an error),
     keep those the closure keeps, in order *)
  Fixpoint retained (keys : list bytes) (vals : list value) (fs : list feature) : option (list (feature * props)) :=
    match fs with
    | [] => Some []
    | f :: r =>
        match decode_tags keys vals (ftags f) with
        | None => None
        | Some ps =>
            match retained keys vals r with
            | None => None
            | Some rest => match upd_props (bt_of ps) with Some p => Some ((f, p) :: rest) | None => Some rest end
            end
        end
    end.

  (* second pass: new tables, every retained feature re-encoded, everything else of it kept *)
  Fixpoint reencode (keys : list bytes) (vals : list value) (acc : list feature) (l : list (feature * props))
    : list bytes * list value * list feature :=
    match l with
    | [] => (keys, vals, acc)
    | (f, p) :: r =>
        let '(k2, v2, tags) := encode_tags keys vals p in
        reencode k2 v2 (acc ++ [mkF (fid f) tags (ftype f) (fgeom f)]) r
    end.

  Definition update_layer (l : layer) : option layer :=
    match retained (lkeys l) (lvals l) (lfeatures l) with
    | None => None
    | Some rp => let '(k, v, fs) := reencode [] [] [] rp in Some (mkL (lname l) (lextent l) (lversion l) k v fs)
    end.

  (* Runner::run: every layer with the given name is rewritten, the others are not touched *)
  Fixpoint update_tile (name : bytes) (ls : list layer) : option (list layer) :=
    match ls with
    | [] => Some []
    | l :: r =>
        match (if bytes_eqb (lname l) name then update_layer l else Some l), update_tile name r with
        | Some l', Some r' => Some (l' :: r')
        | _, _ => None
        end
    end.
End Update.
