(* versatiles v02 addressing (versatiles_container/src/container/versatiles/{writer,reader}.rs,
   types/block_definition.rs, types/tile_index.rs): 256x256 block grid per level, one tile-index
   slot per coordinate of the block's bounding box, lookup by block coordinate and slot.
   Payloads are opaque ids; byte offsets and de-duplication are below this model (the independent
   decoder of the harness checks them on real files).  Executable definitions only. *)
From Coq Require Import List NArith Bool.
From VT Require Import Base.Outcome Model.BBox.
Import ListNotations.
Local Open Scope N_scope.

Record vblock := mkVB {
  vb_z : N; vb_bx : N; vb_by : N;     (* block coordinate: BlockDefinition.offset *)
  vb_box : bbox;                       (* global bounding box of the block's slots *)
  vb_slots : list (option N)           (* tile index: payload, or an empty range *)
}.

Definition vcoord := (N * N * N)%type.  (* z, x, y *)

(* write_block: one slot per index of the block's box, filled from the source *)
Definition block_of_cell (iv : N) (tiles : vcoord -> option N) (c : bbox) : vblock :=
  mkVB (level c) (x_min c / 256) (y_min c / 256) c
       (map (fun i => match get_coord_by_index iv c (N.of_nat i) with
                      | Ok p => tiles (level c, fst p, snd p)
                      | _ => None
                      end) (seq 0 (N.to_nat (count_tiles c)))).

Fixpoint concat_o {A} (l : list (outcome (list A))) : outcome (list A) :=
  match l with
  | [] => Ok []
  | o :: r => obind o (fun a => omap (app a) (concat_o r))
  end.

Definition levels : list N := map N.of_nat (seq 0 32).

(* write_blocks: every cell of the 256-grid of every level's coverage becomes a block *)
Definition vt_write (iv : N) (pyr : N -> bbox) (tiles : vcoord -> option N) : outcome (list vblock) :=
  concat_o (map (fun z => omap (map (block_of_cell iv tiles)) (iter_bbox_grid (pyr z) 256)) levels).

Definition key_eqb (b : vblock) (z bx by_ : N) : bool := (vb_z b =? z) && (vb_bx b =? bx) && (vb_by b =? by_).

(* BlockIndex is a HashMap keyed by the block coordinate: a later definition replaces an earlier one *)
Definition vt_find (blocks : list vblock) (z bx by_ : N) : option vblock :=
  find (fun b => key_eqb b z bx by_) (rev blocks).

Definition vt_lookup (iv : N) (blocks : list vblock) (c : vcoord) : outcome (option N) :=
  let '(z, x, y) := c in
  match vt_find blocks z (x / 256) (y / 256) with
  | None => Ok None
  | Some b =>
      if negb (contains2 (vb_box b) x y) then Ok None else
      match get_tile_index iv (vb_box b) x y with
      | Ok i =>
          if negb (N.of_nat (length (vb_slots b)) =? count_tiles (vb_box b)) then Panic   (* assert_eq! *)
          else match nth_error (vb_slots b) (N.to_nat i) with
               | Some (Some v) => Ok (Some v)
               | Some None => Ok None
               | None => Panic
               end
      | _ => Panic                                                                         (* unwrap *)
      end
  end.
