(* MBTiles coverage of one zoom level (versatiles_container/src/container/mbtiles/reader.rs,
   get_bbox_pyramid): column bounds by MIN/MAX, row bounds by a two-step query - an estimate from
   three columns (leftmost, middle, rightmost), then MIN over the rows at or below the estimate and
   MAX over the rows at or above it.  Rows are TMS rows.  Executable definitions only.
   rv: variant regenerated from the source: 1 = `tile_row <= y0` for MIN and `tile_row >= y1` for MAX. *)
From Coq Require Import List NArith Bool.
Import ListNotations.
Local Open Scope N_scope.

Definition row := (N * N)%type.     (* tile_column, tile_row *)

Fixpoint min_of (l : list N) : option N :=
  match l with [] => None | a :: r => match min_of r with Some m => Some (N.min a m) | None => Some a end end.
Fixpoint max_of (l : list N) : option N :=
  match l with [] => None | a :: r => match max_of r with Some m => Some (N.max a m) | None => Some a end end.

Definition sel (p : row -> bool) (rows : list row) : list row := filter p rows.

(* SELECT MIN/MAX(tile_row) ... WHERE cond; NULL (no row) is an error in simple_query *)
Definition level_bounds (rv : N) (rows : list row) : option (N * N * N * N) :=
  match min_of (map fst rows), max_of (map fst rows) with
  | Some x0, Some x1 =>
      let xc := (x0 + x1) / 2 in
      let three := sel (fun r => (fst r =? x0) || (fst r =? xc) || (fst r =? x1)) rows in
      match min_of (map snd three), max_of (map snd three) with
      | Some e0, Some e1 =>
          match min_of (map snd (sel (fun r => snd r <=? e0) rows)),
                max_of (map snd (sel (fun r => if rv =? 1 then e1 <=? snd r else snd r <=? e1) rows)) with
          | Some y0, Some y1 => Some (x0, y0, x1, y1)
          | _, _ => None
          end
      | _, _ => None
      end
  | _, _ => None
  end.
