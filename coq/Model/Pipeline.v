(* Model of tile sources and the operators over them:
     - in-memory leaf source (the harness's TilesReaderTrait implementation, default stream loop of
       tiles_reader.rs),
     - filter_zoom / filter_bbox (versatiles_pipeline/src/operations/transform/filter_*.rs),
     - from_overlayed (operations/read/from_overlayed.rs, 32-grid slot filling),
     - TilesConvertReader (versatiles_container/src/container/converter.rs: flip_y / swap_xy /
       requested pyramid).
   Tile payloads are opaque ids (N): these operators never look inside a blob (recompression is
   C04).  A pyramid is a function level -> bbox.  Streams are lists (order = emission order of the
   sequential model; the implementation's order may differ, streams are compared as maps).       *)
From Coq Require Import List NArith Bool.
From VT Require Import Base.Outcome Model.BBox.
Import ListNotations.
Local Open Scope N_scope.

Definition coord := (N * N * N)%type.          (* (z, x, y) *)
Definition tile := (coord * N)%type.           (* coordinate, payload id *)
Definition cz (c : coord) := fst (fst c).
Definition cx (c : coord) := snd (fst c).
Definition cy (c : coord) := snd c.

Record source := mkSrc {
  cov : N -> bbox;                              (* advertised coverage per level *)
  look : coord -> outcome (option N);           (* get_tile_data *)
  strm : bbox -> outcome (list tile)            (* get_bbox_tile_stream / get_tile_stream *)
}.

Definition coord_eqb (a b : coord) : bool := (cz a =? cz b) && (cx a =? cx b) && (cy a =? cy b).

(* ---------- leaf: finite tile list, exact bounding coverage, default lookup-loop stream ---------- *)
Fixpoint leaf_look (tiles : list tile) (c : coord) : option N :=
  match tiles with
  | [] => None
  | (c', v) :: r => if coord_eqb c c' then Some v else leaf_look r c
  end.

Definition empty_box (z : N) : bbox := mkB z (level_max z + 1) (level_max z + 1) 0 0 (level_max z).

Definition leaf_cov (tiles : list tile) (z : N) : bbox :=
  fold_left (fun b t => if cz (fst t) =? z then include_coord b (cx (fst t)) (cy (fst t)) else b) tiles (empty_box z).

Fixpoint filter_map {A B} (f : A -> option B) (l : list A) : list B :=
  match l with [] => [] | a :: r => match f a with Some b => b :: filter_map f r | None => filter_map f r end end.

Definition default_stream (lk : coord -> option N) (b : bbox) : list tile :=
  filter_map (fun p => let c := (level b, fst p, snd p) in
                       match lk c with Some v => Some (c, v) | None => None end) (iter_coords b).

Definition leaf (tiles : list tile) : source :=
  mkSrc (leaf_cov tiles) (fun c => Ok (leaf_look tiles c)) (fun b => Ok (default_stream (leaf_look tiles) b)).

(* ---------- filters: coverage narrowed at build time; lookup guarded by containment;
              stream box intersected with the narrowed coverage ---------- *)
Definition filtered (p : N -> bbox) (s : source) : source :=
  mkSrc p
    (fun c => if 31 <? cz c then Ok None                      (* level_bbox.get(z) is None for z >= 32 *)
              else if contains3 (p (cz c)) (cz c) (cx c) (cy c) then look s c else Ok None)
    (fun b => match intersect_bbox b (p (level b)) with
              | Ok b' => strm s b'
              | _ => Panic                                       (* .unwrap() *)
              end).

Definition zoom_pyramid (zmin zmax : option N) (p : N -> bbox) : N -> bbox :=
  fun z =>
    let b := p z in
    let b := match zmin with Some m => if z <? m then set_empty b else b | None => b end in
    match zmax with Some m => if m <? z then set_empty b else b | None => b end.

Definition filter_zoom (zmin zmax : option N) (s : source) : source :=
  filtered (zoom_pyramid zmin zmax (cov s)) s.

(* g z = TileBBox::from_geo(z, bbox) — supplied by the caller (Geo model / implementation) *)
Definition bbox_pyramid (g : N -> bbox) (p : N -> bbox) : N -> bbox :=
  fun z => match intersect_bbox (p z) (g z) with Ok b => b | _ => p z end.

Definition filter_bbox (g : N -> bbox) (s : source) : source :=
  filtered (bbox_pyramid g (cov s)) s.

(* ---------- converter ---------- *)
(* forward transform of a coordinate: flip first, then swap *)
Definition tr_fwd (flip swap : bool) (c : coord) : outcome coord :=
  obind (if flip then omap (fun p => (cz c, fst p, snd p)) (coord_flip_y (cz c) (cx c) (cy c)) else Ok c) (fun c1 =>
  Ok (if swap then (cz c1, cy c1, cx c1) else c1)).
(* inverse: swap first, then flip *)
Definition tr_inv (flip swap : bool) (c : coord) : outcome coord :=
  let c1 := if swap then (cz c, cy c, cx c) else c in
  if flip then omap (fun p => (cz c1, fst p, snd p)) (coord_flip_y (cz c1) (cx c1) (cy c1)) else Ok c1.

Definition box_fwd (flip swap : bool) (b : bbox) : outcome bbox :=
  obind (if flip then flip_y b else Ok b) (fun b1 => Ok (if swap then swap_xy b1 else b1)).
Definition box_inv (flip swap : bool) (b : bbox) : outcome bbox :=
  let b1 := if swap then swap_xy b else b in if flip then flip_y b1 else Ok b1.

Fixpoint map_o {A B} (f : A -> outcome B) (l : list A) : outcome (list B) :=
  match l with
  | [] => Ok []
  | a :: r => obind (f a) (fun b => obind (map_o f r) (fun br => Ok (b :: br)))
  end.

(* Three facts about converter.rs are regenerated from the source (Gen/Constants.v):
   inv = 1: get_tile_data maps the request back with swap-then-flip (the inverse); 0: flip-then-swap
   rg  = 1: coordinates outside their level answer None before any transform
   sel = 1: lookups and streams are restricted to the requested pyramid                         *)
Definition out_of_level (c : coord) : bool :=
  (31 <? cz c) || (level_max (cz c) <? cx c) || (level_max (cz c) <? cy c).

Definition pyr_contains (r : N -> bbox) (c : coord) : bool :=
  if 31 <? cz c then false else contains3 (r (cz c)) (cz c) (cx c) (cy c).

Definition converter (inv rg sel : N) (flip swap : bool) (req : option (N -> bbox)) (s : source) : source :=
  mkSrc
    (fun z => let b := match box_fwd flip swap (cov s z) with Ok b => b | _ => cov s z end in
              match req with
              | Some r => match intersect_bbox b (r z) with Ok b' => b' | _ => b end
              | None => b
              end)
    (fun c =>
       if (rg =? 1) && out_of_level c then Ok None else
       if (sel =? 1) && match req with Some r => negb (pyr_contains r c) | None => false end then Ok None else
       match (if inv =? 1 then tr_inv flip swap c else tr_fwd flip swap c) with
       | Ok c' => look s c'
       | _ => Panic
       end)
    (fun b =>
       let b0 := if sel =? 1 then
                   match req with
                   | Some r => match intersect_bbox b (r (level b)) with Ok b' => b' | _ => set_empty b end
                   | None => b
                   end
                 else b in
       match box_inv flip swap b0 with
       | Ok b' => obind (strm s b') (fun l =>
                    map_o (fun t => match tr_fwd flip swap (fst t) with Ok c => Ok (c, snd t) | _ => Panic end) l)
       | _ => Panic
       end).

(* ---------- overlay ---------- *)
Fixpoint first_some (ss : list source) (c : coord) : outcome (option N) :=
  match ss with
  | [] => Ok None
  | s :: r => obind (look s c) (fun o => match o with Some v => Ok (Some v) | None => first_some r c end)
  end.

Definition overlay_cov (ss : list source) (z : N) : bbox :=
  match ss with
  | [] => empty_box z
  | s0 :: _ => fold_left (fun acc s => match include_bbox acc (cov s z) with Ok b => b | _ => acc end) ss (cov s0 z)
  end.

(* slot vector of one grid cell: slot i belongs to get_coord_by_index cell i *)
Fixpoint set_nth {A} (i : nat) (v : A) (l : list A) : list A :=
  match l, i with
  | [], _ => []
  | _ :: r, O => v :: r
  | a :: r, S j => a :: set_nth j v r
  end.

Fixpoint missing_box (iv : N) (cell : bbox) (slots : list (option tile)) (i : N) (acc : bbox) : outcome bbox :=
  match slots with
  | [] => Ok acc
  | Some _ :: r => missing_box iv cell r (i + 1) acc
  | None :: r =>
      match get_coord_by_index iv cell i with
      | Ok p => missing_box iv cell r (i + 1) (include_coord acc (fst p) (snd p))
      | _ => Panic
      end
  end.

Definition fill_slot (iv : N) (cell : bbox) (slots : list (option tile)) (t : tile) : outcome (list (option tile)) :=
  if negb (cz (fst t) =? level cell) then Panic else       (* get_tile_index3(..).unwrap() *)
  match get_tile_index iv cell (cx (fst t)) (cy (fst t)) with
  | Ok i => match nth_error slots (N.to_nat i) with
            | Some None => Ok (set_nth (N.to_nat i) (Some t) slots)
            | Some (Some _) => Ok slots
            | None => Panic                                       (* index out of range *)
            end
  | _ => Panic
  end.

Fixpoint fold_o {A B} (f : B -> A -> outcome B) (l : list A) (b : B) : outcome B :=
  match l with [] => Ok b | a :: r => obind (f b a) (fun b' => fold_o f r b') end.

Definition overlay_cell (iv : N) (ss : list source) (cell : bbox) : outcome (list tile) :=
  let init := repeat (@None tile) (N.to_nat (count_tiles cell)) in
  obind (fold_o (fun slots s =>
           obind (missing_box iv cell slots 0 (empty_box (level cell))) (fun left =>
           if is_empty left then Ok slots else
           obind (strm s left) (fun l => fold_o (fill_slot iv cell) l slots))) ss init)
        (fun slots => Ok (filter_map (fun o => o) slots)).

Definition overlay_grid : N := 32.

Definition overlay (iv : N) (ss : list source) : source :=
  mkSrc (overlay_cov ss)
        (first_some ss)
        (fun b => obind (iter_bbox_grid b overlay_grid) (fun cells =>
                  omap (@concat tile) (map_o (overlay_cell iv ss) cells))).

(* ---------- pipeline expressions (what the harness builds from VPL text / reader wrappers) ---------- *)
Inductive pexpr :=
| PLeaf (tiles : list tile)
| PZoom (zmin zmax : option N) (e : pexpr)
| PBBox (g : list bbox) (e : pexpr)                 (* from_geo boxes for levels 0.. (others: empty) *)
| POver (es : list pexpr)
| PConv (flip swap : bool) (req : option (list bbox)) (e : pexpr).

Definition pyr_of_list (l : list bbox) : N -> bbox :=
  fun z => nth (N.to_nat z) l (empty_box z).

Section Denote.
  Variables conv_inv conv_rg conv_sel : N.   (* converter facts, regenerated from the source *)
  Variable index_variant : N.                (* bbox index arithmetic variant *)
  Fixpoint denote (e : pexpr) : source :=
    match e with
    | PLeaf tiles => leaf tiles
    | PZoom a b e => filter_zoom a b (denote e)
    | PBBox g e => filter_bbox (pyr_of_list g) (denote e)
    | POver es => overlay index_variant (map denote es)
    | PConv f s req e => converter conv_inv conv_rg conv_sel f s (option_map pyr_of_list req) (denote e)
    end.
End Denote.
