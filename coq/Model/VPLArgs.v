(* Argument decoding of pipeline operations (versatiles_pipeline/src/vpl/vpl_node.rs:
   get_property, get_property_number, get_property_number_array4, required) as used by
   filter_zoom (min, max : Option<u8>) and filter_bbox (bbox : [f64; 4], then GeoBBox::check via
   intersect_geo_bbox).  A parameter is the list of its entries (None = not given; a parameter
   given twice has the entries of both occurrences).  Entries are byte strings; numbers are
   modelled for decimal integer literals only (optional sign, digits): `literal`.  *)
From Coq Require Import List NArith ZArith Bool.
From VT Require Import Model.Http.
Import ListNotations.

Inductive ares (A : Type) := AOk (a : A) | AErr.
Arguments AOk {A} _. Arguments AErr {A}.

(* get_property: a scalar parameter must have exactly one entry *)
Definition get_property (p : option (list str)) : ares (option str) :=
  match p with
  | None => AOk None
  | Some [x] => AOk (Some x)
  | Some _ => AErr
  end.

(* get_property_number::<u8> *)
Definition get_u8 (p : option (list str)) : ares (option N) :=
  match get_property p with
  | AErr => AErr
  | AOk None => AOk None
  | AOk (Some s) => match parse_uint 255 s with Some v => AOk (Some v) | None => AErr end
  end.

(* f64::from_str restricted to integer literals: optional sign, at least one digit *)
Definition literal (s : str) : option Z :=
  let '(neg, d) := match s with
                   | c :: r => if N.eqb c 45 then (true, r) else if N.eqb c 43 then (false, r) else (false, s)
                   | [] => (false, s)
                   end in
  match d with
  | [] => None
  | _ => match digits_val 0 d with
         | Some v => Some (if neg then Z.opp (Z.of_N v) else Z.of_N v)
         | None => None
         end
  end.

(* get_property_number_array4_req: exactly four entries, each a number; the parameter is required *)
Definition get_array4 (p : option (list str)) : ares (Z * Z * Z * Z) :=
  match p with
  | Some [a; b; c; d] =>
      match literal a, literal b, literal c, literal d with
      | Some w, Some s, Some e, Some n => AOk (w, s, e, n)
      | _, _, _, _ => AErr
      end
  | _ => AErr
  end.

(* GeoBBox::check *)
Definition geo_check (g : Z * Z * Z * Z) : bool :=
  let '(w, s, e, n) := g in
  (Z.leb (-180) w && Z.leb (-90) s && Z.leb e 180 && Z.leb n 90 && Z.leb w e && Z.leb s n)%bool.

(* does `filter_bbox bbox=...` build? *)
Definition bbox_builds (p : option (list str)) : bool :=
  match get_array4 p with AOk g => geo_check g | AErr => false end.

(* does `filter_zoom min=... max=...` build, and with which limits? *)
Definition zoom_builds (pmin pmax : option (list str)) : ares (option N * option N) :=
  match get_u8 pmin, get_u8 pmax with
  | AOk a, AOk b => AOk (a, b)
  | _, _ => AErr
  end.
