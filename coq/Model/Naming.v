(* Member names of tar archives and directory trees: `z/x/y<.format>[<.compression>]`
   (tar/writer.rs:39-65, tar/reader.rs:36-90, directory reader; TileFormat::from_filename,
   TileCompression::from_filename).  Names are ASCII code points.  Executable definitions only. *)
From Coq Require Import List NArith Bool.
Import ListNotations.
Local Open Scope N_scope.

Definition str := list N.

(* ---------- decimal numbers ---------- *)
Fixpoint to_dec_go (fuel : nat) (n : N) (acc : str) : str :=
  match fuel with
  | O => acc
  | S f => let acc' := (48 + n mod 10) :: acc in if n <? 10 then acc' else to_dec_go f (n / 10) acc'
  end.
Definition to_dec (n : N) : str := to_dec_go 20 n [].              (* Display of u8 / u32: at most 10 digits *)

Fixpoint digits_val (l : str) (acc : N) : option N :=
  match l with
  | [] => Some acc
  | c :: r => if (48 <=? c) && (c <=? 57) then digits_val r (acc * 10 + (c - 48)) else None
  end.

(* str::parse::<uN>(): optional '+', at least one digit, no overflow *)
Definition parse_uint (maxv : N) (l : str) : option N :=
  let l' := match l with c :: r => if c =? 43 then r else l | [] => l end in
  match l' with
  | [] => None
  | _ => match digits_val l' 0 with Some v => if v <=? maxv then Some v else None | None => None end
  end.

(* ---------- extensions ---------- *)
(* (before the last '.', from the last '.' on) *)
Fixpoint last_dot (l : str) : option (str * str) :=
  match l with
  | [] => None
  | c :: r => match last_dot r with
              | Some (a, b) => Some (c :: a, b)
              | None => if c =? 46 then Some ([], l) else None
              end
  end.

Fixpoint str_eqb (a b : str) : bool :=
  match a, b with [], [] => true | x :: r, y :: s => (x =? y) && str_eqb r s | _, _ => false end.

Definition ext_gz : str := [46; 103; 122].
Definition ext_br : str := [46; 98; 114].

(* TileCompression::from_filename: 0 uncompressed (name unchanged), 1 gzip, 2 brotli *)
Definition strip_compression (l : str) : N * str :=
  match last_dot l with
  | Some (a, b) => if str_eqb b ext_gz then (1, a) else if str_eqb b ext_br then (2, a) else (0, l)
  | None => (0, l)
  end.

(* format number = position in this list; TileFormat::extension() of each format *)
Definition format_exts : list str :=
  [[46;97;118;105;102]; [46;98;105;110]; [46;103;101;111;106;115;111;110]; [46;106;112;103]; [46;106;115;111;110];
   [46;112;98;102]; [46;112;110;103]; [46;115;118;103]; [46;116;111;112;111;106;115;111;110]; [46;119;101;98;112]].
Definition ext_jpeg : str := [46;106;112;101;103].

Definition lower (c : N) : N := if (65 <=? c) && (c <=? 90) then c + 32 else c.

Fixpoint index_of (e : str) (l : list str) (i : N) : option N :=
  match l with [] => None | x :: r => if str_eqb x e then Some i else index_of e r (i + 1) end.

(* TileFormat::from_filename *)
Definition strip_format (l : str) : option (N * str) :=
  match last_dot l with
  | Some (a, b) => let e := map lower b in
                   if str_eqb e ext_jpeg then Some (3, a)
                   else match index_of e format_exts 0 with Some f => Some (f, a) | None => None end
  | None => None
  end.

(* ---------- member names ---------- *)
Fixpoint split_on (sep : N) (l : str) : list str :=
  match l with
  | [] => [[]]
  | c :: r => if c =? sep then [] :: split_on sep r
              else match split_on sep r with h :: t => (c :: h) :: t | [] => [[c]] end
  end.

Definition comp_ext (c : N) : str := if c =? 1 then ext_gz else if c =? 2 then ext_br else [].

Definition render_member (dot : bool) (z x y f c : N) : str :=
  (if dot then [46; 47] else []) ++ to_dec z ++ 47 :: to_dec x ++ 47 :: to_dec y ++ nth (N.to_nat f) format_exts [] ++ comp_ext c.

(* tar reader: path components, a leading "." dropped; three components = a tile *)
Definition parse_member (l : str) : option (N * N * N * N * N) :=
  let parts := split_on 47 l in
  let parts := match parts with h :: r => if str_eqb h [46] then r else parts | [] => parts end in
  match parts with
  | [zs; xs; fs] =>
      match parse_uint 255 zs, parse_uint 4294967295 xs with
      | Some z, Some x =>
          if 31 <? z then None else                                   (* TileCoord3::new *)
          let '(c, name) := strip_compression fs in
          match strip_format name with
          | Some (f, ys) => match parse_uint 4294967295 ys with Some y => Some (z, x, y, f, c) | None => None end
          | None => None
          end
      | _, _ => None
      end
  | _ => None
  end.
