(* versatiles v02, byte level (versatiles_container/src/container/versatiles/types/
   block_definition.rs, tile_index.rs): the 33-byte block definition and the 12-byte tile-index
   entries, big-endian, as written by as_blob and read by from_blob (through ValueReaderSlice /
   ValueWriterBlob).  Integer widths are explicit: `as u8` / `as u32` casts truncate, u64 and u32
   additions and multiplications that the code does unchecked are `Overflow` outcomes, checked ones
   and every `ensure!` / short read are `Err`.  Executable definitions only. *)
From Coq Require Import List NArith Bool.
From VT Require Import Base.Outcome.
Import ListNotations.
Local Open Scope N_scope.

Definition bytes := list N.

(* ---------- fixed-width big-endian integers ---------- *)
Fixpoint be_bytes (n : nat) (v : N) : bytes :=
  match n with O => [] | S k => (v / 256 ^ N.of_nat k) mod 256 :: be_bytes k v end.

Definition rd_be (l : bytes) : N := fold_left (fun acc b => acc * 256 + b) l 0.

(* read n bytes as an unsigned big-endian integer; a short input is the reader's error *)
Definition take_be (n : nat) (l : bytes) : outcome (N * bytes) :=
  if Nat.leb n (length l) then Ok (rd_be (firstn n l), skipn n l) else Err.

(* ---------- TileBBox::new (only what from_blob needs: the checks) ---------- *)
Definition bbox_new_ok (level xmin ymin xmax ymax : N) : bool :=
  (level <=? 31) && (xmax <=? 2 ^ level - 1) && (ymax <=? 2 ^ level - 1) && (xmin <=? xmax) && (ymin <=? ymax).

(* ---------- block definition ---------- *)
Record bdef := mkBD {
  bd_z : N; bd_x : N; bd_y : N;                          (* offset: TileCoord3 (block coordinate) *)
  bd_cx0 : N; bd_cy0 : N; bd_cx1 : N; bd_cy1 : N;        (* tiles_coverage, level min(z, 8) *)
  bd_gx0 : N; bd_gy0 : N; bd_gx1 : N; bd_gy1 : N;        (* global_bbox, level z *)
  bd_toff : N; bd_tlen : N;                              (* tiles_range *)
  bd_ioff : N; bd_ilen : N                               (* index_range *)
}.

Definition u32_max := 4294967295.
Definition u64_max := 18446744073709551615.

Definition bdef_from_blob (l : bytes) : outcome bdef :=
  obind (take_be 1 l) (fun '(z, l) =>
  obind (take_be 4 l) (fun '(x, l) =>
  obind (take_be 4 l) (fun '(y, l) =>
  obind (take_be 1 l) (fun '(cx0, l) =>
  obind (take_be 1 l) (fun '(cy0, l) =>
  obind (take_be 1 l) (fun '(cx1, l) =>
  obind (take_be 1 l) (fun '(cy1, l) =>
  if negb (bbox_new_ok (N.min z 8) cx0 cy0 cx1 cy1) then Err else
  obind (take_be 8 l) (fun '(off, l) =>
  obind (take_be 8 l) (fun '(tlen, l) =>
  obind (take_be 4 l) (fun '(ilen, _) =>
  if u64_max <? off + tlen then Err else                                  (* checked_add *)
  if u32_max <? x * 256 then Err else if u32_max <? y * 256 then Err else (* checked_mul *)
  let x0 := x * 256 in let y0 := y * 256 in
  if (u32_max <? cx0 + x0) || (u32_max <? cy0 + y0) || (u32_max <? cx1 + x0) || (u32_max <? cy1 + y0) then Overflow else
  if negb (bbox_new_ok z (cx0 + x0) (cy0 + y0) (cx1 + x0) (cy1 + y0)) then Err else
  (* TileCoord3::new(x, y, z): z <= 31, already ensured by the global box *)
  Ok (mkBD z x y cx0 cy0 cx1 cy1 (cx0 + x0) (cy0 + y0) (cx1 + x0) (cy1 + y0) off tlen (off + tlen) ilen))))))))))).

Definition bdef_as_blob (b : bdef) : outcome bytes :=
  if u64_max <? bd_toff b + bd_tlen b then Overflow else                  (* unchecked u64 `+` inside ensure! *)
  if negb (bd_toff b + bd_tlen b =? bd_ioff b) then Err else
  Ok (be_bytes 1 (bd_z b) ++ be_bytes 4 (bd_x b) ++ be_bytes 4 (bd_y b) ++
      be_bytes 1 (bd_cx0 b) ++ be_bytes 1 (bd_cy0 b) ++ be_bytes 1 (bd_cx1 b) ++ be_bytes 1 (bd_cy1 b) ++   (* `as u8` *)
      be_bytes 8 (bd_toff b) ++ be_bytes 8 (bd_tlen b) ++ be_bytes 4 (bd_ilen b)).                               (* `as u32` *)

(* BlockDefinition::new(bbox): block coordinate and local coverage of a grid cell *)
Definition bdef_new (z gx0 gy0 gx1 gy1 : N) : bdef :=
  let x := gx0 / 256 in let y := gy0 / 256 in
  mkBD z x y (gx0 - x * 256) (gy0 - y * 256) (gx1 - x * 256) (gy1 - y * 256) gx0 gy0 gx1 gy1 0 0 0 0.

(* ---------- tile index ---------- *)
Fixpoint tidx_as_blob (idx : list (N * N)) : bytes :=
  match idx with [] => [] | (off, len) :: r => be_bytes 8 off ++ be_bytes 4 len ++ tidx_as_blob r end.

Fixpoint tidx_read (count : nat) (l : bytes) : outcome (list (N * N)) :=
  match count with
  | O => Ok []
  | S k => obind (take_be 8 l) (fun '(off, l) => obind (take_be 4 l) (fun '(len, l) => omap (cons (off, len)) (tidx_read k l)))
  end.

Definition tidx_from_blob (l : bytes) : outcome (list (N * N)) :=
  let count := N.of_nat (length l) / 12 in
  if negb (count * 12 =? N.of_nat (length l)) then Err else tidx_read (N.to_nat count) l.

(* add_offset: `r.offset = r.offset.saturating_add(offset)`; variant 0 = the unchecked `r.offset += offset`
   of the pinned source (overflow: a panic in the dev profile, a wrap in release) *)
Fixpoint tidx_add_offset_v (variant : N) (o : N) (idx : list (N * N)) : outcome (list (N * N)) :=
  match idx with
  | [] => Ok []
  | (off, len) :: r =>
      if (variant =? 0) && (u64_max <? off + o) then Overflow
      else omap (cons (N.min (off + o) u64_max, len)) (tidx_add_offset_v variant o r)
  end.
Definition tidx_add_offset := tidx_add_offset_v 1.

(* ---------- file header (66 bytes; file_header.rs) ---------- *)
Definition vt_magic : bytes := [118; 101; 114; 115; 97; 116; 105; 108; 101; 115; 95; 118; 48; 50].   (* "versatiles_v02" *)
Definition format_codes : list N := [0; 16; 17; 18; 19; 20; 32; 33; 34; 35].

Record hdr := mkH {
  h_format : N; h_comp : N; h_z0 : N; h_z1 : N;
  h_b0 : N; h_b1 : N; h_b2 : N; h_b3 : N;               (* bbox * 1e7 as i32, kept as their 32 bits *)
  h_moff : N; h_mlen : N; h_boff : N; h_blen : N        (* meta_range, blocks_range *)
}.

Fixpoint bytes_eqb (a b : bytes) : bool :=
  match a, b with [], [] => true | x :: r, y :: s => (x =? y) && bytes_eqb r s | _, _ => false end.

Definition hdr_to_blob (h : hdr) : bytes :=
  vt_magic ++ be_bytes 1 (h_format h) ++ be_bytes 1 (h_comp h) ++ be_bytes 1 (h_z0 h) ++ be_bytes 1 (h_z1 h) ++
  be_bytes 4 (h_b0 h) ++ be_bytes 4 (h_b1 h) ++ be_bytes 4 (h_b2 h) ++ be_bytes 4 (h_b3 h) ++
  be_bytes 8 (h_moff h) ++ be_bytes 8 (h_mlen h) ++ be_bytes 8 (h_boff h) ++ be_bytes 8 (h_blen h).

Definition hdr_from_blob (l : bytes) : outcome hdr :=
  if negb (Nat.eqb (length l) 66) then Err else
  if negb (bytes_eqb (firstn 14 l) vt_magic) then Err else      (* read_string(14) + comparison; non-UTF-8 bytes are an error too *)
  let l := skipn 14 l in
  obind (take_be 1 l) (fun '(f, l) =>
  if negb (existsb (N.eqb f) format_codes) then Err else
  obind (take_be 1 l) (fun '(c, l) =>
  if 2 <? c then Err else
  obind (take_be 1 l) (fun '(z0, l) =>
  obind (take_be 1 l) (fun '(z1, l) =>
  obind (take_be 4 l) (fun '(b0, l) =>
  obind (take_be 4 l) (fun '(b1, l) =>
  obind (take_be 4 l) (fun '(b2, l) =>
  obind (take_be 4 l) (fun '(b3, l) =>
  obind (take_be 8 l) (fun '(mo, l) =>
  obind (take_be 8 l) (fun '(ml, l) =>
  obind (take_be 8 l) (fun '(bo, l) =>
  obind (take_be 8 l) (fun '(bl, _) =>
  Ok (mkH f c z0 z1 b0 b1 b2 b3 mo ml bo bl))))))))))))).
