(* CSV reader (versatiles_core/src/utils/csv.rs): quoted fields with doubled quotes, simple fields,
   CR ignored in front of LF, empty lines skipped, equal field count on every line (read_csv_iter).
   Bytes are N; String::from_utf8 is the oracle `valid` (any function: the theorems hold for all).
   v: variant regenerated from the source - what happens on text after a closing quote:
   0 = `panic!()` (pinned source), 1 = an error.  Executable definitions only. *)
From Coq Require Import List NArith Bool.
Import ListNotations.
Local Open Scope N_scope.

Definition bytes := list N.

(* after the opening quote *)
Fixpoint quoted (l : bytes) (acc : bytes) : option (bytes * bytes) :=
  match l with
  | [] => None                                        (* unexpected end of file *)
  | 34 :: 34 :: r => quoted r (acc ++ [34])
  | 34 :: r => Some (acc, r)
  | c :: r => quoted r (acc ++ [c])
  end.

Fixpoint simple (sep : N) (l : bytes) (acc : bytes) : bytes * bytes :=
  match l with
  | [] => (acc, [])
  | c :: r => if (c =? sep) || (c =? 13) || (c =? 10) then (acc, l) else simple sep r (acc ++ [c])
  end.

Inductive after := ANewline (rest : bytes) | AEof | ASep (rest : bytes) | AOther.

Fixpoint after_value (sep : N) (l : bytes) : after :=
  match l with
  | [] => AEof
  | c :: r => if c =? 13 then after_value sep r
              else if c =? 10 then ANewline r
              else if c =? sep then ASep r
              else AOther
  end.

Inductive lres := LRow (fields : list bytes) (rest : bytes) | LEnd | LErr | LPanic.

Definition is_blank (fs : list bytes) : bool := match fs with [[]] => true | _ => false end.

Fixpoint fields (v sep : N) (valid : bytes -> bool) (fuel : nat) (l : bytes) (acc : list bytes) : lres :=
  match fuel with
  | O => LPanic
  | S f =>
      let value := match l with
                   | 34 :: r => quoted r []
                   | _ => Some (simple sep l [])
                   end in
      match value with
      | None => LErr
      | Some (s, r') =>
          if negb (valid s) then LErr else
          let acc' := acc ++ [s] in
          match after_value sep r' with
          | ANewline r2 => if is_blank acc' then fields v sep valid f r2 [] else LRow acc' r2
          | AEof => if is_blank acc' then LEnd else LRow acc' []
          | ASep r2 => fields v sep valid f r2 acc'
          | AOther => if v =? 0 then LPanic else LErr
          end
      end
  end.

Inductive status := SOk | SErr | SPanic.

Fixpoint lines (v sep : N) (valid : bytes -> bool) (fuel : nat) (l : bytes) (rows : list (list bytes)) : list (list bytes) * status :=
  match fuel with
  | O => (rows, SPanic)
  | S f =>
      match l with
      | [] => (rows, SOk)
      | _ => match fields v sep valid (S (length l)) l [] with
             | LRow r rest => lines v sep valid f rest (rows ++ [r])
             | LEnd => (rows, SOk)
             | LErr => (rows, SErr)
             | LPanic => (rows, SPanic)
             end
      end
  end.

(* read_csv_iter: every line must have as many fields as the first *)
Fixpoint same_width (n : nat) (rows : list (list bytes)) : list (list bytes) * bool :=
  match rows with
  | [] => ([], true)
  | r :: rest => if Nat.eqb (length r) n then let (a, b) := same_width n rest in (r :: a, b) else ([], false)
  end.

Definition read_csv (v sep : N) (valid : bytes -> bool) (l : bytes) : list (list bytes) * status :=
  let (rows, st) := lines v sep valid (S (length l)) l [] in
  match rows with
  | [] => (rows, st)
  | r0 :: _ => let (a, ok) := same_width (length r0) rows in (a, if ok then st else SErr)
  end.
