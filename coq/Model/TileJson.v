(* TileJSON documents as the containers and operators handle them
   (versatiles_core/src/tilejson/mod.rs: merge, limit_bbox, limit_min_zoom, limit_max_zoom,
   update_from_pyramid; value.rs: get_byte, update_byte, insert).
   `values` is a BTreeMap<String, TileJsonValue>: here an association list with replace-on-insert
   (the order is not observable: documents are compared key by key).  Bounds and center are
   numbers; GeoBBox::extend / intersect only take minima and maxima, so integers stand for them.
   vector_layers (merged layer by layer) is not part of this model.
   merge_variant: 1 = a missing own minzoom is replaced by the other's (the code);
                  0 = a missing own minzoom counts as 0 (`unwrap_or_default`).  *)
From Coq Require Import List NArith ZArith Bool.
From VT Require Import Model.Http.
Import ListNotations.

Inductive tval := TByte (n : N) | TList (l : list str) | TString (s : str).
Definition vals := list (str * tval).
Definition str_eqb (a b : str) : bool := if list_eq_dec N.eq_dec a b then true else false.

Fixpoint m_get (k : str) (m : vals) : option tval :=
  match m with [] => None | (k', v) :: r => if str_eqb k k' then Some v else m_get k r end.
Fixpoint m_put (k : str) (v : tval) (m : vals) : vals :=
  match m with [] => [(k, v)] | (k', v') :: r => if str_eqb k k' then (k, v) :: r else (k', v') :: m_put k v r end.
Definition get_byte (k : str) (m : vals) : option N :=
  match m_get k m with Some (TByte n) => Some n | _ => None end.

Definition bbox := (Z * Z * Z * Z)%type.      (* west, south, east, north *)
Definition bb_extend (a b : bbox) : bbox :=
  let '(w, s, e, n) := a in let '(w', s', e', n') := b in (Z.min w w', Z.min s s', Z.max e e', Z.max n n').
Definition bb_intersect (a b : bbox) : bbox :=
  let '(w, s, e, n) := a in let '(w', s', e', n') := b in (Z.max w w', Z.max s s', Z.min e e', Z.min n n').

Record tj := mkTJ { t_bounds : option bbox; t_center : option (Z * Z * Z); t_vals : vals }.

Definition k_minzoom : str := [109;105;110;122;111;111;109]%N.
Definition k_maxzoom : str := [109;97;120;122;111;111;109]%N.
Definition k_tilejson : str := [116;105;108;101;106;115;111;110]%N.
(* TileJSON::default(): no bounds, no center, {"tilejson": "3.0.0"} *)
Definition tj_default : tj := mkTJ None None [(k_tilejson, TString [51;46;48;46;48]%N)].

(* step 4 of merge: every value of `other` except the zoom limits overwrites *)
Fixpoint put_others (o : vals) (m : vals) : vals :=
  match o with
  | [] => m
  | (k, v) :: r => put_others r (if str_eqb k k_minzoom || str_eqb k k_maxzoom then m else m_put k v m)
  end.

Definition merge (variant : N) (a b : tj) : tj :=
  let bounds := match t_bounds b with
                | Some ob => Some (match t_bounds a with Some sb => bb_extend sb ob | None => ob end)
                | None => t_bounds a end in
  let center := match t_center b with Some c => Some c | None => t_center a end in
  let v1 := match get_byte k_minzoom (t_vals b) with
            | Some omin => m_put k_minzoom (TByte (match get_byte k_minzoom (t_vals a) with
                                                   | Some mz => N.min mz omin
                                                   | None => if N.eqb variant 0 then N.min 0 omin else omin end)) (t_vals a)
            | None => t_vals a end in
  let v2 := match get_byte k_maxzoom (t_vals b) with
            | Some omax => m_put k_maxzoom (TByte (match get_byte k_maxzoom v1 with Some mz => N.max mz omax | None => omax end)) v1
            | None => v1 end in
  mkTJ bounds center (put_others (t_vals b) v2).

Definition limit_min_zoom (z : N) (a : tj) : tj :=
  mkTJ (t_bounds a) (t_center a) (m_put k_minzoom (TByte (match get_byte k_minzoom (t_vals a) with Some mz => N.max mz z | None => z end)) (t_vals a)).
Definition limit_max_zoom (z : N) (a : tj) : tj :=
  mkTJ (t_bounds a) (t_center a) (m_put k_maxzoom (TByte (match get_byte k_maxzoom (t_vals a) with Some mz => N.min mz z | None => z end)) (t_vals a)).
Definition limit_bbox (b : bbox) (a : tj) : tj :=
  mkTJ (Some (match t_bounds a with Some sb => bb_intersect sb b | None => b end)) (t_center a) (t_vals a).

(* update_from_pyramid: the coverage's geographic box and zoom range, each if the coverage has one *)
Definition update_from_pyramid (cov_box : option bbox) (zmin zmax : option N) (a : tj) : tj :=
  let a1 := match cov_box with Some b => limit_bbox b a | None => a end in
  let a2 := match zmin with Some z => limit_min_zoom z a1 | None => a1 end in
  match zmax with Some z => limit_max_zoom z a2 | None => a2 end.
