(* The discrete stage of TileCoord2::from_geo / TileBBox::from_geo
   (versatiles_core/src/types/tile_coords.rs, tile_bbox.rs), one axis at a time.
   A real-valued tile coordinate u (the code's `zoom * (x / 360.0 + 0.5)`, resp. the Mercator
   expression) is given in sub-units: u = U / S tiles, S > 0 sub-units per tile.  The code adds
   (lower corner) or subtracts (upper corner) a guard of 1e-6 tile, takes floor, clamps to
   [0, n-1] (n = 2^z) and TileBBox::from_geo orders the two results.  The guard is G sub-units.
   variant_lo: 1 = the lower corner adds the guard before floor (the code), 0 = plain floor.  *)
From Coq Require Import ZArith.
Local Open Scope Z_scope.

Definition clampz (n v : Z) : Z := Z.max 0 (Z.min (n - 1) v).
Definition lo_cell (variant_lo : N) (S G n u : Z) : Z :=
  clampz n ((u + (if N.eqb variant_lo 0 then 0 else G)) / S).
Definition hi_cell (S G n u : Z) : Z := clampz n ((u - G) / S).
Definition axis_box (variant_lo : N) (S G n uw ue : Z) : Z * Z :=
  let l := lo_cell variant_lo S G n uw in
  let h := hi_cell S G n ue in
  (Z.min l h, Z.max l h).
