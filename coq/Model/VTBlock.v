(* versatiles write_block (versatiles/writer.rs:132-203): the tiles of one block are appended in
   stream order; payloads shorter than 1000 bytes are stored once per block (a map from content to
   byte range); the tile index holds one (offset, length) per slot, relative to the block start.
   The reader cuts a tile out of the block region at its index entry.  Executable definitions only. *)
From Coq Require Import List NArith Bool.
From VT Require Import Model.Crash.
Import ListNotations.
Local Open Scope N_scope.

Definition range := (N * N)%type.   (* offset, length *)
Record wstate := mkW { w_data : list N; w_index : list range; w_seen : list (list N * range) }.

Fixpoint lookup (d : list N) (seen : list (list N * range)) : option range :=
  match seen with
  | [] => None
  | (k, r) :: t => if list_eqb k d then Some r else lookup d t
  end.

Definition dedup_limit : N := 1000.

Definition write_tile (st : wstate) (blob : option (list N)) : wstate :=
  match blob with
  | None => mkW (w_data st) (w_index st ++ [(0, 0)]) (w_seen st)            (* slot without a tile *)
  | Some d =>
      let small := N.of_nat (length d) <? dedup_limit in
      match (if small then lookup d (w_seen st) else None) with
      | Some r => mkW (w_data st) (w_index st ++ [r]) (w_seen st)
      | None =>
          let r := (N.of_nat (length (w_data st)), N.of_nat (length d)) in
          mkW (w_data st ++ d) (w_index st ++ [r]) (if small then (d, r) :: w_seen st else w_seen st)
      end
  end.

Definition write_block (slots : list (option (list N))) : wstate := fold_left write_tile slots (mkW [] [] []).

(* reader: entry of the slot, None for an empty range *)
Definition read_slot (st : wstate) (i : nat) : option (list N) :=
  match nth_error (w_index st) i with
  | Some (o, l) => if l =? 0 then None else Some (sub (w_data st) (N.to_nat o) (N.to_nat l))
  | None => None
  end.
