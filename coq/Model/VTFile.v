(* versatiles v02, one block inside the file (reader.rs: get_block_tile_index + get_tile_data after
   the block has been found and the slot number computed): read the block's index range, undo the
   brotli compression, parse the 12-byte entries, shift them by the offset of the block's tile data,
   compare the entry count with the block's coverage, take the slot's entry, read its byte range.
   The brotli codec is a parameter.  Executable definitions only. *)
From Coq Require Import List NArith Bool.
From VT Require Import Base.Outcome Model.Crash Model.VTBytes.
Import ListNotations.
Local Open Scope N_scope.

Section WithCodec.
  Variable unbrotli : list N -> option (list N).

  Definition block_tile_index (file : list N) (toff ioff ilen : N) (count : nat) : outcome (list (N * N)) :=
    match read_range file ioff ilen with
    | None => Err
    | Some cidx =>
        match unbrotli cidx with
        | None => Err
        | Some raw =>
            obind (tidx_from_blob raw) (fun idx =>
            obind (tidx_add_offset toff idx) (fun idx' =>
            if Nat.eqb (length idx') count then Ok idx' else Err))          (* ensure!(len == count_tiles) *)
        end
    end.

  Definition read_tile (file : list N) (toff ioff ilen : N) (count slot : nat) : outcome (option (list N)) :=
    obind (block_tile_index file toff ioff ilen count) (fun idx =>
    match nth_error idx slot with
    | None => Panic                                                           (* tile_index.get(tile_id) *)
    | Some (o, l) => if l =? 0 then Ok None else
                     match read_range file o l with Some b => Ok (Some b) | None => Err end
    end).
End WithCodec.
