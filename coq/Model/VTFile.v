(* versatiles v02, one block inside the file (reader.rs: get_block_tile_index + get_tile_data after
   the block has been found and the slot number computed): read the block's index range, undo the
   brotli compression, parse the 12-byte entries, shift them by the offset of the block's tile data,
   compare the entry count with the block's coverage, take the slot's entry, read its byte range.
   The brotli codec is a parameter.  Executable definitions only. *)
From Coq Require Import List NArith Bool.
From VT Require Import Base.Outcome Model.Crash Model.VTBytes.
Import ListNotations.
Local Open Scope N_scope.

Section WithCodec.
  Variable unbrotli : list N -> option (list N).

  Definition block_tile_index (file : list N) (toff ioff ilen : N) (count : nat) : outcome (list (N * N)) :=
    match read_range file ioff ilen with
    | None => Err
    | Some cidx =>
        match unbrotli cidx with
        | None => Err
        | Some raw =>
            obind (tidx_from_blob raw) (fun idx =>
            obind (tidx_add_offset toff idx) (fun idx' =>
            if Nat.eqb (length idx') count then Ok idx' else Err))          (* ensure!(len == count_tiles) *)
        end
    end.

  Definition read_tile (file : list N) (toff ioff ilen : N) (count slot : nat) : outcome (option (list N)) :=
    obind (block_tile_index file toff ioff ilen count) (fun idx =>
    match nth_error idx slot with
    | None => Panic                                                           (* tile_index.get(tile_id) *)
    | Some (o, l) => if l =? 0 then Ok None else
                     match read_range file o l with Some b => Ok (Some b) | None => Err end
    end).
End WithCodec.

(* ---------- the whole file (reader.rs: open_reader + get_tile_data; writer.rs: layout) ---------- *)
From VT Require Import Model.VTBlock.

Section WholeFile.
  Variables (brotli : list N -> list N) (unb : list N -> option (list N)).

  (* BlockIndex::from_blob: 33-byte definitions, one after the other; a later definition of a block
     coordinate replaces an earlier one (HashMap insert) *)
  Fixpoint bidx_read (count : nat) (l : list N) : outcome (list bdef) :=
    match count with
    | O => Ok []
    | S k => obind (bdef_from_blob (firstn 33 l)) (fun b => omap (cons b) (bidx_read k (skipn 33 l)))
    end.
  Definition bidx_from_blob (l : list N) : outcome (list bdef) :=
    let count := N.of_nat (length l) / 33 in
    if negb (count * 33 =? N.of_nat (length l)) then Err else bidx_read (N.to_nat count) l.
  Definition bidx_find (bs : list bdef) (z bx by_ : N) : option bdef :=
    find (fun b => (bd_z b =? z) && (bd_x b =? bx) && (bd_y b =? by_)) (rev bs).

  Definition vt_file_lookup (file : list N) (z x y : N) : outcome (option (list N)) :=
    obind (hdr_from_blob (firstn 66 file)) (fun h =>
    obind (if 0 <? h_mlen h then                                             (* metadata is read while opening *)
             match read_range file (h_moff h) (h_mlen h) with None => Err | Some _ => Ok tt end
           else Ok tt) (fun _ =>
    match read_range file (h_boff h) (h_blen h) with
    | None => Err
    | Some bz =>
        match unb bz with
        | None => Err
        | Some raw =>
            obind (bidx_from_blob raw) (fun bs =>
            if 31 <? z then Err else                                          (* TileCoord3::new(x >> 8, y >> 8, z) *)
            match bidx_find bs z (x / 256) (y / 256) with
            | None => Ok None
            | Some b =>
                if negb ((bd_gx0 b <=? x) && (x <=? bd_gx1 b) && (bd_gy0 b <=? y) && (y <=? bd_gy1 b)) then Ok None else
                let width := bd_gx1 b - bd_gx0 b + 1 in
                let slot := (y - bd_gy0 b) * width + (x - bd_gx0 b) in
                let count := (bd_cx1 b - bd_cx0 b + 1) * (bd_cy1 b - bd_cy0 b + 1) in       (* tiles_coverage.count_tiles() *)
                read_tile unb file (bd_toff b) (bd_ioff b) (bd_ilen b) (N.to_nat count) (N.to_nat slot)
            end)
        end
    end)).

  (* the writer: blocks one after the other behind header and metadata, each as tile data followed by
     its compressed tile index; block index last; the header names metadata and block index *)
  Definition cell := (N * (N * N * N * N))%type.            (* level, (x_min, y_min, x_max, y_max) of a 256-grid cell *)
  Definition region (slots : list (option (list N))) : list N :=
    let st := write_block slots in w_data st ++ brotli (tidx_as_blob (w_index st)).

  Fixpoint lay_blocks (off : N) (bl : list (cell * list (option (list N)))) : list bdef :=
    match bl with
    | [] => []
    | ((z, (x0, y0, x1, y1)), slots) :: r =>
        let st := write_block slots in
        let n := bdef_new z x0 y0 x1 y1 in
        let tlen := N.of_nat (length (w_data st)) in
        let ilen := N.of_nat (length (brotli (tidx_as_blob (w_index st)))) in
        mkBD (bd_z n) (bd_x n) (bd_y n) (bd_cx0 n) (bd_cy0 n) (bd_cx1 n) (bd_cy1 n) x0 y0 x1 y1 off tlen (off + tlen) ilen
          :: lay_blocks (off + tlen + ilen) r
    end.

  Fixpoint concat_blobs (bs : list bdef) : outcome (list N) :=
    match bs with [] => Ok [] | b :: r => obind (bdef_as_blob b) (fun x => omap (app x) (concat_blobs r)) end.

  Definition vt_assemble (h0 : hdr) (metaz : list N) (bl : list (cell * list (option (list N)))) : outcome (list N) :=
    let start := 66 + N.of_nat (length metaz) in
    let bs := lay_blocks start bl in
    let body := flat_map (fun cs => region (snd cs)) bl in
    obind (concat_blobs bs) (fun raw =>
    let bidxz := brotli raw in
    let h := mkH (h_format h0) (h_comp h0) (h_z0 h0) (h_z1 h0) (h_b0 h0) (h_b1 h0) (h_b2 h0) (h_b3 h0)
                 66 (N.of_nat (length metaz)) (start + N.of_nat (length body)) (N.of_nat (length bidxz)) in
    Ok (hdr_to_blob h ++ metaz ++ body ++ bidxz)).
End WholeFile.
