(* Model of tile recompression: TileConverter::new_tile_recompressor / process_blob
   (versatiles_container/src/container/tile_converter.rs), utils::{compress, decompress, recompress,
   optimize_compression} (versatiles_core/src/utils/compression.rs).
   The codecs themselves (flate2, brotli) are abstract: a `codec` is any pair of functions with
   decomp (comp b) = Some b.  Executable with the concrete `framed` instance below. *)
From Coq Require Import List NArith Bool.
Import ListNotations.
Local Open Scope N_scope.

Definition bytes := list N.

Inductive compression := CU | CG | CB.                 (* Uncompressed | Gzip | Brotli *)
Definition comp_eqb (a b : compression) : bool :=
  match a, b with CU, CU | CG, CG | CB, CB => true | _, _ => false end.

Record codec := mkCodec { cz_comp : bytes -> bytes; cz_decomp : bytes -> option bytes }.

Section WithCodecs.
  Variables gz br : codec.

  Inductive fnconv := UnGzip | UnBrotli | DoGzip | DoBrotli.

  Definition run1 (f : fnconv) (b : bytes) : option bytes :=
    match f with
    | UnGzip => cz_decomp gz b
    | UnBrotli => cz_decomp br b
    | DoGzip => Some (cz_comp gz b)
    | DoBrotli => Some (cz_comp br b)
    end.

  Fixpoint process (p : list fnconv) (b : bytes) : option bytes :=
    match p with
    | [] => Some b
    | f :: r => match run1 f b with Some b' => process r b' | None => None end
    end.

  Definition recompressor (src dst : compression) (force : bool) : list fnconv :=
    if force || negb (comp_eqb src dst) then
      (match src with CU => [] | CG => [UnGzip] | CB => [UnBrotli] end) ++
      (match dst with CU => [] | CG => [DoGzip] | CB => [DoBrotli] end)
    else [].

  Definition compress (c : compression) (b : bytes) : bytes :=
    match c with CU => b | CG => cz_comp gz b | CB => cz_comp br b end.
  Definition decompress (c : compression) (b : bytes) : option bytes :=
    match c with CU => Some b | CG => cz_decomp gz b | CB => cz_decomp br b end.

  (* utils::recompress *)
  Definition recompress (src dst : compression) (b : bytes) : option bytes :=
    if comp_eqb src dst then Some b else
    match decompress src b with Some d => Some (compress dst d) | None => None end.

  (* optimize_compression: allowed set as three flags, goal 0 = fast, 1 = best, 2 = incompressible *)
  Record target := mkT { al_u : bool; al_g : bool; al_b : bool; goal : N }.
  Definition allowed (t : target) (c : compression) : bool :=
    match c with CU => al_u t | CG => al_g t | CB => al_b t end.

  Definition optimize (b : bytes) (input : compression) (t : target) : option (option bytes * compression) :=
    (* outer None = Err(bail!); inner None = a decompression failed *)
    if negb (al_u t || al_g t || al_b t) then None else
    if negb (al_u t) then None else
    if negb (goal t =? 1) && allowed t input then Some (Some b, input) else
    match input with
    | CU =>
        if negb (goal t =? 2) then
          if al_b t then Some (Some (cz_comp br b), CB)
          else if al_g t then Some (Some (cz_comp gz b), CG)
          else Some (Some b, CU)
        else Some (Some b, CU)
    | CG =>
        if negb (goal t =? 2) && al_b t then
          Some (match cz_decomp gz b with Some d => Some (cz_comp br d) | None => None end, CB)
        else if al_g t then Some (Some b, CG)
        else Some (cz_decomp gz b, CU)
    | CB =>
        if al_b t then Some (Some b, CB)
        else match cz_decomp br b with
             | Some d => if negb (goal t =? 2) && al_g t then Some (Some (cz_comp gz d), CG) else Some (Some d, CU)
             | None => Some (None, if negb (goal t =? 2) && al_g t then CG else CU)
             end
    end.
End WithCodecs.

(* a concrete codec for running the model: tag byte + payload; rejects anything else *)
Definition framed (tag : N) : codec :=
  mkCodec (fun b => tag :: b) (fun b => match b with t :: r => if t =? tag then Some r else None | [] => None end).
