(* Model of the parallel stream operators of versatiles_core::types::TileStream (tile_stream.rs):
     stream.map(|item| tokio::spawn(task(item))).buffer_unordered(n) [.filter_map(..)]
   as a transition system: at most n tasks are in flight, tasks are started in input order, any
   in-flight task may complete next; the coordinate travels inside the task together with its
   result (the closure captures `coord` and returns `(coord, cb(blob))`).
   for_each_buffered is a deterministic chunker.  Executable definitions only. *)
From Coq Require Import List NArith Bool Arith.
Import ListNotations.

Section Stream.
  Variables A B : Type.
  Variable F : A -> B.                 (* the whole task: (coord, blob) |-> (coord, f blob) *)

  Record st := mkSt { pending : list A; inflight : list B; emitted : list B }.

  Inductive step := Spawn | Complete (i : nat).

  Fixpoint remove_nth (i : nat) (l : list B) : option (B * list B) :=
    match l, i with
    | [], _ => None
    | x :: r, O => Some (x, r)
    | x :: r, S j => match remove_nth j r with Some (y, r') => Some (y, x :: r') | None => None end
    end.

  Definition do_step (n : nat) (s : st) (t : step) : option st :=
    match t with
    | Spawn =>
        match pending s with
        | x :: p => if Nat.ltb (length (inflight s)) n then Some (mkSt p (inflight s ++ [F x]) (emitted s)) else None
        | [] => None
        end
    | Complete i =>
        match remove_nth i (inflight s) with
        | Some (y, r) => Some (mkSt (pending s) r (emitted s ++ [y]))
        | None => None
        end
    end.

  Fixpoint run (n : nat) (s : st) (ts : list step) : option st :=
    match ts with
    | [] => Some s
    | t :: r => match do_step n s t with Some s' => run n s' r | None => None end
    end.

  Definition init (input : list A) : st := mkSt input [] [].
  Definition terminal (s : st) : bool :=
    match pending s, inflight s with [], [] => true | _, _ => false end.
End Stream.

Arguments mkSt {A B}.
Arguments pending {A B}.
Arguments inflight {A B}.
Arguments emitted {A B}.
Arguments do_step {A B}.
Arguments run {A B}.
Arguments init {A B}.
Arguments terminal {A B}.
Arguments remove_nth {B}.

(* executable acceptance test for an observed output order, given as the list of input indices:
   a permutation of 0..len-1 in which the j-th output has input index < j + n *)
Fixpoint window_ok (n : nat) (j : nat) (out : list nat) : bool :=
  match out with
  | [] => true
  | i :: r => Nat.ltb i (j + n) && window_ok n (S j) r
  end.

Definition covers (len : nat) (out : list nat) : bool :=
  forallb (fun i => existsb (Nat.eqb i) out) (seq 0 len).

Definition accepts (n len : nat) (out : list nat) : bool :=
  Nat.eqb (length out) len && covers len out && window_ok n 0 out.

(* for_each_buffered(k): push items, flush when buffer.len() >= k, flush the rest at the end *)
Fixpoint chunk_go {A} (k : nat) (buf : list A) (l : list A) : list (list A) :=
  match l with
  | [] => match buf with [] => [] | _ => [buf] end
  | x :: r => let buf' := buf ++ [x] in
              if Nat.leb k (length buf') then buf' :: chunk_go k [] r else chunk_go k buf' r
  end.
Definition chunks {A} (k : nat) (l : list A) : list (list A) := chunk_go k [] l.
