(* TileBBoxPyramid (versatiles_core/src/types/tile_bbox_pyramid.rs): one box per level 0..31, the
   operations apply the box operations level by level.  Executable definitions only. *)
From Coq Require Import List NArith Bool.
From VT Require Import Base.Outcome Model.BBox.
Import ListNotations.
Local Open Scope N_scope.

Definition pyramid := list bbox.          (* index = level; always 32 entries *)
Definition levels32 : list N := map N.of_nat (seq 0 32).

Fixpoint map_o {A B} (f : A -> outcome B) (l : list A) : outcome (list B) :=
  match l with [] => Ok [] | a :: r => obind (f a) (fun b => omap (cons b) (map_o f r)) end.

Definition unwrap {A} (o : outcome A) : outcome A := match o with Err => Panic | x => x end.   (* .unwrap() *)

Definition py_new_empty : outcome pyramid := map_o new_empty levels32.
Definition py_new_full (m : N) : outcome pyramid := map_o (fun z => if z <=? m then new_full z else new_empty z) levels32.

Definition py_level (p : pyramid) (z : N) : outcome bbox :=
  match nth_error p (N.to_nat z) with Some b => Ok b | None => Panic end.                      (* index out of bounds *)

Fixpoint map2_o (f : bbox -> bbox -> outcome bbox) (p q : pyramid) : outcome pyramid :=
  match p, q with
  | a :: p', b :: q' => obind (f a b) (fun c => omap (cons c) (map2_o f p' q'))
  | _, _ => Ok []
  end.

Definition py_intersect (p q : pyramid) : outcome pyramid := map2_o (fun a b => unwrap (intersect_bbox a b)) p q.

Fixpoint set_nth {A} (i : nat) (v : A) (l : list A) : list A :=
  match l, i with [], _ => [] | _ :: r, O => v :: r | a :: r, S j => a :: set_nth j v r end.

Definition py_set_level (p : pyramid) (b : bbox) : outcome pyramid :=
  if N.of_nat (length p) <=? level b then Panic else Ok (set_nth (N.to_nat (level b)) b p).

Definition py_include_coord (p : pyramid) (z x y : N) : outcome pyramid :=
  obind (py_level p z) (fun b => Ok (set_nth (N.to_nat z) (include_coord b x y) p)).

Definition py_include_bbox (p : pyramid) (b : bbox) : outcome pyramid :=
  obind (py_level p (level b)) (fun a => obind (unwrap (include_bbox a b)) (fun c => Ok (set_nth (N.to_nat (level b)) c p))).

(* include_bbox_pyramid: the non-empty levels of q, one after the other *)
Fixpoint py_include_all (p : pyramid) (bs : list bbox) : outcome pyramid :=
  match bs with [] => Ok p | b :: r => if is_empty b then py_include_all p r else obind (py_include_bbox p b) (fun p' => py_include_all p' r) end.
Definition py_include_pyramid (p q : pyramid) : outcome pyramid := py_include_all p q.

Definition py_contains (p : pyramid) (z x y : N) : bool :=
  match nth_error p (N.to_nat z) with Some b => contains3 b z x y | None => false end.

Definition py_overlaps (p : pyramid) (b : bbox) : bool :=
  match nth_error p (N.to_nat (level b)) with
  | Some a => match overlaps_bbox a b with Ok r => r | _ => false end
  | None => false
  end.

Definition py_set_zoom_min (p : pyramid) (m : N) : pyramid :=
  map (fun zb => if fst zb <? m then set_empty (snd zb) else snd zb) (combine levels32 p).
Definition py_set_zoom_max (p : pyramid) (m : N) : pyramid :=
  map (fun zb => if m <? fst zb then set_empty (snd zb) else snd zb) (combine levels32 p).

Definition py_zoom_min (p : pyramid) : option N := option_map level (find (fun b => negb (is_empty b)) p).
Definition py_zoom_max (p : pyramid) : option N := option_map level (find (fun b => negb (is_empty b)) (rev p)).
Definition py_count (p : pyramid) : N := fold_left (fun a b => a + count_tiles b) p 0.
Definition py_is_empty (p : pyramid) : bool := forallb is_empty p.
Definition py_add_border (v : N) (p : pyramid) (a b c d : N) : outcome pyramid := map_o (fun x => add_border v x a b c d) p.
