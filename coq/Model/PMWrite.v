(* PMTiles v3 writer, directory construction (versatiles_container/src/container/pmtiles/types/
   entries_v3.rs: as_directory, build_roots_leaves): the sorted entry list is either stored as the
   root directory itself (case 1) or cut into leaf directories of `leaf_size` entries, stored one
   behind the other, with one root pointer per leaf (case 3).  Compression is the identity here
   (TileCompression::Uncompressed); the theorems about compressed directories take the codec as a
   parameter.  Executable definitions only. *)
From Coq Require Import List NArith ZArith Bool.
From VT Require Import Base.Outcome Model.MVT Model.PMDir.
Import ListNotations.
Local Open Scope N_scope.

(* while idx < entries.len() { end = min(idx + leaf_size, len); leaf = entries[idx..end]; idx += leaf_size }
   fuel = number of entries: with leaf_size > 0 every round consumes at least one entry.
   (leaf_size = 0 never ends in the code; as_directory starts at 4096.) *)
Fixpoint cut_leaves (fuel k : nat) (es : list entry) : list (list entry) :=
  match fuel with
  | O => []
  | S f => match es with [] => [] | _ :: _ => firstn k es :: cut_leaves f k (skipn k es) end
  end.

(* leaves_bytes grows by each serialised leaf; the pointer records (leaves_bytes.len(), serialized.len()) *)
Fixpoint place_leaves (size : list entry -> N) (off : N) (ls : list (list entry)) : list (list entry * (N * N)) :=
  match ls with
  | [] => []
  | l :: r => (l, (off, size l)) :: place_leaves size (off + size l) r
  end.

(* EntryV3::new(entries.get(idx).tile_id, ByteRange::new(offset, length), 0) *)
Definition pointer (x : list entry * (N * N)) : entry :=
  mkE (match fst x with e :: _ => e_id e | [] => 0 end) (fst (snd x)) (snd (snd x)) 0.

Record directory := mkDir { d_root : list entry; d_leaves : list (list entry * (N * N)); d_leaves_bytes : bytes }.

(* the bytes a directory is stored as: its serialisation passed through the internal compression
   `enc` (the writer uses gzip; `enc` = identity is TileCompression::Uncompressed) *)
Section Enc.
  Variable enc : bytes -> bytes.
  Definition stored_bytes (l : list entry) : bytes := enc (serialize l).
  Definition stored_size (l : list entry) : N := N.of_nat (length (stored_bytes l)).

  Definition build_roots_leaves_enc (k : nat) (es : list entry) : directory :=
    let placed := place_leaves stored_size 0 (cut_leaves (length es) k es) in
    mkDir (map pointer placed) placed (flat_map (fun x => stored_bytes (fst x)) placed).
End Enc.

Definition ser_size (l : list entry) : N := stored_size (fun b => b) l.
Definition build_roots_leaves (k : nat) (es : list entry) : directory := build_roots_leaves_enc (fun b => b) k es.

(* as_directory: case 1 when there are fewer than `limit` (16384) entries and the serialised root
   fits `target`; otherwise the first leaf size of `ks` whose root fits (the code multiplies an f32
   by 1.2 per round; the sequence is a parameter, the theorems hold for every positive size) *)
Fixpoint first_fit (target : N) (ks : list nat) (es : list entry) : option directory :=
  match ks with
  | [] => None
  | k :: r => let d := build_roots_leaves k es in
              if ser_size (d_root d) <=? target then Some d else first_fit target r es
  end.

Definition as_directory (limit target : N) (ks : list nat) (es : list entry) : option directory :=
  if (N.of_nat (length es) <? limit) && (ser_size es <=? target)
  then Some (mkDir es [] [])
  else first_fit target ks es.

(* the reader's view of the leaves section: bytes [o, o+n) parsed as a directory *)
Definition sub (b : bytes) (o n : N) : bytes := firstn (N.to_nat n) (skipn (N.to_nat o) b).
Definition read_leaf (av : N) (b : bytes) (o n : N) : outcome (list entry) := deserialize av (sub b o n).
(* ... with the internal compression undone first (`dec`), as PMTilesReader does for every leaf *)
Definition read_leaf_dec (dec : bytes -> option bytes) (av : N) (b : bytes) (o n : N) : outcome (list entry) :=
  match dec (sub b o n) with Some raw => deserialize av raw | None => Err end.
