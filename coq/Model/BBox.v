(* Model of versatiles_core::types::TileBBox (tile_bbox.rs), TileCoord3::flip_y/swap_xy and the
   TransformCoord impl for TileBBox (transform_coord.rs).  Executable definitions only.
   Fields are u32 in Rust; here N, with every place where the Rust arithmetic can overflow,
   index, unwrap or assert modelled by an explicit outcome.  Both encodings of "empty"
   (new_empty: (max+1,max+1,0,0);  set_empty: (1,1,0,0)) and the half-empty boxes produced by
   intersect_bbox are ordinary values. *)
From Coq Require Import List NArith Bool.
From VT Require Import Base.Outcome.
Import ListNotations.
Local Open Scope N_scope.

Definition u32_lim : N := 4294967296.
Definition u32_add (a b : N) : outcome N := if a + b <? u32_lim then Ok (a + b) else Overflow.
Definition u32_mul (a b : N) : outcome N := if a * b <? u32_lim then Ok (a * b) else Overflow.
Definition sat_add (a b : N) : N := N.min (a + b) (u32_lim - 1).

Record bbox := mkB { level : N; x_min : N; y_min : N; x_max : N; y_max : N; bmax : N }.

Definition level_max (z : N) : N := 2 ^ z - 1.

Definition new (z x0 y0 x1 y1 : N) : outcome bbox :=
  if 31 <? z then Err else
  let m := level_max z in
  if m <? x1 then Err else if m <? y1 then Err else
  if x1 <? x0 then Err else if y1 <? y0 then Err else
  Ok (mkB z x0 y0 x1 y1 m).

Definition new_full (z : N) : outcome bbox :=
  if 31 <? z then Err else new z 0 0 (level_max z) (level_max z).

Definition new_empty (z : N) : outcome bbox :=
  if 31 <? z then Err else
  let m := level_max z in Ok (mkB z (m + 1) (m + 1) 0 0 m).

Definition is_empty (b : bbox) : bool := (x_max b <? x_min b) || (y_max b <? y_min b).
Definition width (b : bbox) : N := if x_max b <? x_min b then 0 else x_max b - x_min b + 1.
Definition height (b : bbox) : N := if y_max b <? y_min b then 0 else y_max b - y_min b + 1.
Definition count_tiles (b : bbox) : N := width b * height b.   (* u64: cannot overflow *)

Definition contains2 (b : bbox) (x y : N) : bool :=
  (x_min b <=? x) && (x <=? x_max b) && (y_min b <=? y) && (y <=? y_max b).
Definition contains3 (b : bbox) (z x y : N) : bool := (z =? level b) && contains2 b x y.

Definition set_empty (b : bbox) : bbox := mkB (level b) 1 1 0 0 (bmax b).

Definition include_coord (b : bbox) (x y : N) : bbox :=
  if is_empty b then mkB (level b) x y x y (bmax b)
  else mkB (level b) (N.min (x_min b) x) (N.min (y_min b) y)
           (N.min (N.max (x_max b) x) (bmax b)) (N.min (N.max (y_max b) y) (bmax b)) (bmax b).

(* add_border: `variant` 0 = unchecked `x_max + border` (pinned source), 1 = saturating_add *)
Definition add_border (variant : N) (b : bbox) (bx0 by0 bx1 by1 : N) : outcome bbox :=
  if is_empty b then Ok b else
  if variant =? 0 then
    obind (u32_add (x_max b) bx1) (fun xs =>
    obind (u32_add (y_max b) by1) (fun ys =>
    Ok (mkB (level b) (x_min b - bx0) (y_min b - by0) (N.min xs (bmax b)) (N.min ys (bmax b)) (bmax b))))
  else
    Ok (mkB (level b) (x_min b - bx0) (y_min b - by0)
            (N.min (sat_add (x_max b) bx1) (bmax b)) (N.min (sat_add (y_max b) by1) (bmax b)) (bmax b)).

Definition include_bbox (a b : bbox) : outcome bbox :=
  if negb (level a =? level b) then Err else
  if is_empty b then Ok a else
  if is_empty a then Ok b else
  Ok (mkB (level a) (N.min (x_min a) (x_min b)) (N.min (y_min a) (y_min b))
          (N.min (N.max (x_max a) (x_max b)) (bmax a)) (N.min (N.max (y_max a) (y_max b)) (bmax a)) (bmax a)).

Definition intersect_bbox (a b : bbox) : outcome bbox :=
  if negb (level a =? level b) then Err else
  if negb (is_empty a) && negb (is_empty b) then
    Ok (mkB (level a) (N.max (x_min a) (x_min b)) (N.max (y_min a) (y_min b))
            (N.min (x_max a) (x_max b)) (N.min (y_max a) (y_max b)) (bmax a))
  else Ok (set_empty a).

Definition overlaps_bbox (a b : bbox) : outcome bool :=
  if negb (level a =? level b) then Err else
  if is_empty a || is_empty b then Ok false else
  Ok ((x_min a <=? x_max b) && (x_min b <=? x_max a) && (y_min a <=? y_max b) && (y_min b <=? y_max a)).

Definition shift_by (b : bbox) (x y : N) : bbox :=
  mkB (level b) (sat_add (x_min b) x) (sat_add (y_min b) y) (sat_add (x_max b) x) (sat_add (y_max b) y) (bmax b).
Definition subtract (b : bbox) (x y : N) : bbox :=
  mkB (level b) (x_min b - x) (y_min b - y) (x_max b - x) (y_max b - y) (bmax b).
Definition scale_down (b : bbox) (s : N) : outcome bbox :=
  if s =? 0 then Panic else
  Ok (mkB (level b) (x_min b / s) (y_min b / s) (x_max b / s) (y_max b / s) (bmax b)).

(* enumeration: rows y_min..=y_max, inside a row x_min..=x_max *)
Fixpoint range_from (a : N) (n : nat) : list N :=
  match n with O => [] | S k => a :: range_from (a + 1) k end.
Definition range_incl (a b : N) : list N := if b <? a then [] else range_from a (N.to_nat (b - a + 1)).

Definition iter_coords (b : bbox) : list (N * N) :=   (* (x, y) pairs in iteration order *)
  flat_map (fun y => map (fun x => (x, y)) (range_incl (x_min b) (x_max b))) (range_incl (y_min b) (y_max b)).

(* iter_bbox_grid(size): scale down, one cell per meta coordinate, clip to the box, drop empties.
   The inner TileBBox::new(..).unwrap() is a Panic when `new` fails; x*size and x+size-1 are u32. *)
Definition grid_cell (b : bbox) (size mx my : N) : outcome bbox :=
  let m := level_max (level b) in
  obind (u32_mul mx size) (fun x =>
  obind (u32_mul my size) (fun y =>
  obind (u32_add x size) (fun xs =>
  obind (u32_add y size) (fun ys =>
  match new (level b) x y (N.min (xs - 1) m) (N.min (ys - 1) m) with
  | Ok c => match intersect_bbox c b with Ok r => Ok r | _ => Panic end
  | _ => Panic
  end)))).

Fixpoint sequence {A} (l : list (outcome A)) : outcome (list A) :=
  match l with
  | [] => Ok []
  | o :: r => obind o (fun a => obind (sequence r) (fun ar => Ok (a :: ar)))
  end.

Definition iter_bbox_grid (b : bbox) (size : N) : outcome (list bbox) :=
  if size =? 0 then Ok [] else
  match scale_down b size with
  | Ok meta =>
      obind (sequence (map (fun c => grid_cell b size (fst c) (snd c)) (iter_coords meta)))
            (fun cells => Ok (filter (fun c => negb (is_empty c)) cells))
  | _ => Panic
  end.

(* index <-> coordinate.  `variant` 0 = pinned source (u32 product, count as u32),
   1 = 64-bit arithmetic (after the fix) *)
Definition get_tile_index (variant : N) (b : bbox) (x y : N) : outcome N :=
  if negb (contains2 b x y) then Err else
  let dx := x - x_min b in let dy := y - y_min b in
  if variant =? 0 then
    obind (u32_add (x_max b) 1) (fun w1 =>
    obind (u32_mul dy (w1 - x_min b)) (fun p => u32_add p dx))
  else Ok (dy * (x_max b + 1 - x_min b) + dx).

Definition get_coord_by_index (variant : N) (b : bbox) (i : N) : outcome (N * N) :=
  let cnt := if variant =? 0 then count_tiles b mod u32_lim else count_tiles b in
  if negb (i <? cnt) then Err else
  let w := width b in
  if w =? 0 then Panic else          (* division by zero; unreachable when i < count *)
  Ok (i mod w + x_min b, i / w + y_min b).

(* TransformCoord *)
Definition coord_flip_y (z x y : N) : outcome (N * N) :=
  let m := level_max z in if m <? y then Panic else Ok (x, m - y).
Definition coord_swap_xy (x y : N) : N * N := (y, x).

Definition flip_y (b : bbox) : outcome bbox :=
  if is_empty b then Ok b else
  if bmax b <? y_max b then Panic else
  (* y_min' = max - y_min (u32 subtraction: overflow when y_min > max) *)
  if bmax b <? y_min b then Overflow else
  Ok (mkB (level b) (x_min b) (bmax b - y_max b) (x_max b) (bmax b - y_min b) (bmax b)).
Definition swap_xy (b : bbox) : bbox :=
  if is_empty b then b else mkB (level b) (y_min b) (x_min b) (y_max b) (x_max b) (bmax b).
