(* Model of the tile endpoint's path handling (versatiles/src/tools/server/sources/tile_source.rs
   TileSource::get_data, utils/url.rs Url::as_vec) and of get_encoding (tile_server.rs).
   Paths are lists of Unicode scalar values (the request target after the `/tiles/<id>/` prefix,
   which hyper hands over as a `&str`).  `numeric` stands for `char::is_numeric` of the standard
   library (Unicode general categories Nd, Nl, No), which the code uses to cut the leading digits off the
   y part; `str::parse` itself only accepts ASCII digits.  *)
From Coq Require Import List NArith Bool.
Import ListNotations.
Local Open Scope N_scope.

Definition str := list N.
Definition slash : N := 47.
Definition is_digit (c : N) : bool := (48 <=? c) && (c <=? 57).

(* Url::as_vec: split at '/', drop empty parts *)
Fixpoint split_go (cur : str) (l : str) : list str :=
  match l with
  | [] => match cur with [] => [] | _ => [cur] end
  | c :: r => if c =? slash then (match cur with [] => split_go [] r | _ => cur :: split_go [] r end)
              else split_go (cur ++ [c]) r
  end.
Definition as_vec (path : str) : list str := split_go [] path.

(* str::parse::<uN>(): optional '+', at least one ASCII digit, value <= limit *)
Fixpoint digits_val (acc : N) (l : str) : option N :=
  match l with
  | [] => Some acc
  | c :: r => if is_digit c then digits_val (acc * 10 + (c - 48)) r else None
  end.
Definition parse_uint (limit : N) (s : str) : option N :=
  let s' := match s with 43 :: r => r | _ => s end in          (* leading '+' *)
  match s' with
  | [] => None
  | _ => match digits_val 0 s' with Some v => if v <=? limit then Some v else None | None => None end
  end.

(* `.chars().take_while(|c| c.is_numeric()).collect::<String>()` *)
Fixpoint take_digits (numeric : N -> bool) (l : str) : str :=
  match l with c :: r => if numeric c then c :: take_digits numeric r else [] | [] => [] end.

Inductive presult := PCoord (z x y : N) | PBad | PMeta | PNone | PPanic.

(* variant 0: `parts[0]` is indexed unconditionally (pinned source: panics for an empty path);
   1: an empty path is "unknown request" *)
Definition parse_tile_path (variant : N) (numeric : N -> bool) (path : str) : presult :=
  let parts := as_vec path in
  match parts with
  | p0 :: p1 :: p2 :: _ =>
      match parse_uint 255 p0, parse_uint 4294967295 p1, parse_uint 4294967295 (take_digits numeric p2) with
      | Some z, Some x, Some y => if z <=? 31 then PCoord z x y else PBad       (* TileCoord3::new *)
      | _, _, _ => PBad
      end
  | [] => if variant =? 0 then PPanic else PNone
  | p0 :: _ =>
      (* "meta.json" / "tiles.json" *)
      if (list_eq_dec N.eq_dec p0 [109;101;116;97;46;106;115;111;110]) then PMeta
      else if (list_eq_dec N.eq_dec p0 [116;105;108;101;115;46;106;115;111;110]) then PMeta
      else PNone
  end.

(* HTTP status: 400 for an unparsable coordinate, 404 when there is no tile / unknown request *)
Definition status (variant : N) (numeric : N -> bool) (has_tile : N -> N -> N -> bool) (path : str) : option N :=
  match parse_tile_path variant numeric path with
  | PCoord z x y => Some (if has_tile z x y then 200 else 404)
  | PBad => Some 400
  | PMeta => Some 200
  | PNone => Some 404
  | PPanic => None                         (* connection dropped *)
  end.

(* get_encoding: substring tests on the Accept-Encoding header value *)
Fixpoint prefix_of (p l : str) : bool :=
  match p, l with
  | [], _ => true
  | a :: p', b :: l' => (a =? b) && prefix_of p' l'
  | _ :: _, [] => false
  end.
Fixpoint contains (p l : str) : bool :=
  prefix_of p l || match l with [] => false | _ :: r => contains p r end.
Definition s_gzip : str := [103;122;105;112].
Definition s_br : str := [98;114].
Definition get_encoding (header : option str) : bool * bool :=     (* (gzip allowed, brotli allowed) *)
  match header with None => (false, false) | Some h => (contains s_gzip h, contains s_br h) end.
