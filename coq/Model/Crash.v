(* Model of interrupted container writes (C12).
   - the file as a byte list, the three DataWriterTrait operations the writers issue
     (versatiles_core/src/io/data_writer.rs), complete and byte-cut application of an operation,
   - the part of VersaTilesReader::open_reader / PMTilesReader::open_reader that decides whether a
     byte string is accepted (versatiles/reader.rs:91-115, file_header.rs from_blob;
     pmtiles/reader.rs open_reader, header_v3.rs deserialize),
   - the shape of the operation sequences the two writers issue (versatiles/writer.rs:43-80,
     pmtiles/writer.rs:70-111) as boolean predicates that the correspondence check evaluates on
     every operation sequence recorded from the real writers.
   Executable definitions only. *)
From Coq Require Import List NArith Bool Arith.
Import ListNotations.
Local Open Scope N_scope.

Inductive wop :=
| WAppend (at_ : N) (d : list N)          (* append(blob) issued at writer position at_ *)
| WStart (d : list N)                     (* write_start(blob): overwrite from offset 0 *)
| WSetPos (p : N).                        (* set_position(p) *)

(* write d at offset at_, zero-filling a hole (what a file does after seek past its end) *)
Fixpoint put (f : list N) (at_ : nat) (d : list N) : list N :=
  match at_ with
  | O => d ++ skipn (length d) f
  | S k => match f with
           | [] => 0 :: put [] k d
           | b :: r => b :: put r k d
           end
  end.

Definition apply_op (f : list N) (op : wop) : list N :=
  match op with
  | WAppend a d => put f (N.to_nat a) d
  | WStart d => put f 0 d
  | WSetPos _ => f
  end.

(* the first cut bytes of the operation reached the disk *)
Definition partial_op (f : list N) (op : wop) (cut : nat) : list N :=
  match op with
  | WAppend a d => match firstn cut d with [] => f | p => put f (N.to_nat a) p end
  | WStart d => put f 0 (firstn cut d)
  | WSetPos _ => f
  end.

Definition run_ops (ops : list wop) : list N := fold_left apply_op ops [].

(* k complete operations, then cut bytes of operation k *)
Definition crash_state (ops : list wop) (k cut : nat) : list N :=
  let f := run_ops (firstn k ops) in
  match nth_error ops k with
  | Some op => partial_op f op cut
  | None => f
  end.

Definition sub (f : list N) (off len : nat) : list N := firstn len (skipn off f).

Definition read_range (f : list N) (off len : N) : option (list N) :=
  if off + len <=? N.of_nat (length f) then Some (sub f (N.to_nat off) (N.to_nat len)) else None.

Fixpoint rd_be (l : list N) (acc : N) : N :=
  match l with [] => acc | b :: r => rd_be r (acc * 256 + b) end.

Definition bytes_ok (l : list N) : bool := forallb (fun b => b <? 256) l.

Fixpoint list_eqb (a b : list N) : bool :=
  match a, b with
  | [], [] => true
  | x :: r, y :: s => (x =? y) && list_eqb r s
  | _, _ => false
  end.

(* ---------------- versatiles ---------------- *)
Definition vt_magic : list N := [118; 101; 114; 115; 97; 116; 105; 108; 101; 115; 95; 118; 48; 50].

(* the 18 header bytes after the magic that carry no offsets: format, compression (zoom range and
   bbox bytes are not validated by from_blob) *)
Definition vt_fixed_ok (h : list N) : bool :=
  list_eqb (firstn 14 h) vt_magic &&
  existsb (N.eqb (nth 14 h 255)) [0; 16; 17; 18; 19; 20; 32; 33; 34; 35] &&
  (nth 15 h 255 <=? 2).

Record vt_header := mkVH { vh_moff : N; vh_mlen : N; vh_boff : N; vh_blen : N }.

Definition vt_parse_header (h : list N) : option vt_header :=
  if negb (length h =? 66)%nat then None else
  if negb (vt_fixed_ok h) then None else
  Some (mkVH (rd_be (sub h 34 8) 0) (rd_be (sub h 42 8) 0) (rd_be (sub h 50 8) 0) (rd_be (sub h 58 8) 0)).

Section VtOpen.
  (* the two decompressors are external code: decompress(blob, compression) for the metadata and
     decompress_brotli for the block index *)
  Variable decomp : N -> list N -> option (list N).
  Variable unbrotli : list N -> option (list N).

  Definition vt_open (f : list N) : option (vt_header * list N * list N) :=
    match vt_parse_header (firstn 66 f) with
    | None => None
    | Some h =>
        let meta_ok :=
          if 0 <? vh_mlen h then
            match read_range f (vh_moff h) (vh_mlen h) with
            | Some m => match decomp (nth 15 f 255) m with Some _ => true | None => false end
            | None => false
            end
          else true in
        if negb meta_ok then None else
        match read_range f (vh_boff h) (vh_blen h) with
        | None => None
        | Some bi => match unbrotli bi with
                     | None => None
                     | Some idx => Some (h, idx, f)
                     end
        end
    end.
End VtOpen.

Definition is_body_op (lo : N) (op : wop) : bool :=
  match op with WAppend a _ => lo <=? a | WSetPos _ => true | WStart _ => false end.

Fixpoint split_last {A} (l : list A) : option (list A * A) :=
  match l with
  | [] => None
  | [a] => Some ([], a)
  | a :: r => match split_last r with Some (i, z) => Some (a :: i, z) | None => None end
  end.

(* shape of the versatiles writer's operation sequence: provisional header (all four range fields
   zero) appended first; then appends that never touch the first 66 bytes; the block index appended
   last; finally the header rewritten in place, differing from the provisional one only in the
   range fields, whose last one describes exactly the block index just appended *)
Definition vt_wfb (ops : list wop) : bool :=
  match ops with
  | WAppend 0 h0 :: rest =>
      match split_last rest with
      | Some (rest1, WStart h1) =>
          match split_last rest1 with
          | Some (body, WAppend boff idxc) =>
              (length h0 =? 66)%nat && (length h1 =? 66)%nat &&
              list_eqb (skipn 34 h0) (repeat 0 32) &&
              list_eqb (firstn 34 h0) (firstn 34 h1) &&
              bytes_ok h1 &&
              forallb (is_body_op 66) body && (66 <=? boff) &&
              (rd_be (sub h1 50 8) 0 =? boff) && (rd_be (sub h1 58 8) 0 =? N.of_nat (length idxc))
          | _ => false
          end
      | _ => false
      end
  | _ => false
  end.

Definition vt_index_of (ops : list wop) : list N :=
  match split_last ops with
  | Some (r1, _) => match split_last r1 with Some (_, WAppend _ d) => d | _ => [] end
  | None => []
  end.

(* ---------------- pmtiles ---------------- *)
Definition pm_magic : list N := [80; 77; 84; 105; 108; 101; 115; 3].

(* what the reader takes from the 127 header bytes to serve tiles: bytes 0..99 (magic, version, the
   four ranges, the three counts, clustered, internal compression, tile compression); the tile
   type byte 99 must be a known value (0 = UNKNOWN is accepted and reported as BIN); zoom range,
   bounds and centre (bytes 100..126) only feed the header struct *)
Definition pm_view (f : list N) : option (list N * list N) :=
  let h := firstn 127 f in
  if negb (length h =? 127)%nat then None else
  if negb (list_eqb (firstn 8 h) pm_magic) then None else
  let ic := nth 97 h 0 in let tc := nth 98 h 0 in let tt := nth 99 h 0 in
  if negb ((1 <=? ic) && (ic <=? 3)) then None else      (* Unknown and Zstd: as_value() fails *)
  if negb ((1 <=? tc) && (tc <=? 3)) then None else
  if negb (tt <=? 5) then None else
  Some (firstn 99 h, skipn 127 f).

(* shape of the pmtiles writer's sequence: nothing is written below offset 127 until the single
   final write_start of the 127-byte header *)
Definition pm_wfb (ops : list wop) : bool :=
  match split_last ops with
  | Some (body, WStart h1) => (length h1 =? 127)%nat && (nth 99 h1 0 <=? 5) && forallb (is_body_op 127) body
  | _ => false
  end.
