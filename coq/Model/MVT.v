(* Model of the Mapbox-vector-tile codec and table handling:
   versatiles_core/src/io/value_{reader,writer}.rs (varint, zig-zag, PBF keys, packed uint32),
   versatiles_geometry/src/vector_tile/{tile,layer,feature,value,property_manager}.rs,
   merge_tiles of from_vectortiles_merged.rs and filter_map_properties of layer.rs.
   Bytes are N < 256.  Floats are carried as bit patterns.  Strings are byte lists (UTF-8 validity
   is checked by the caller).  Executable definitions only. *)
From Coq Require Import List NArith ZArith Bool.
Import ListNotations.
Local Open Scope N_scope.

Definition bytes := list N.
Definition two64 : N := 18446744073709551616.

(* ---------- varint ---------- *)
Fixpoint write_varint_go (fuel : nat) (v : N) : bytes :=
  match fuel with
  | O => [v mod 128]
  | S f => if v <? 128 then [v] else (v mod 128 + 128) :: write_varint_go f (v / 128)
  end.
Definition write_varint (v : N) : bytes := write_varint_go 9 v.   (* a u64 needs at most 10 bytes *)

(* value |= (byte & 0x7f) << shift, in u64; error after 10 continuation bytes *)
Fixpoint read_varint_go (fuel : nat) (shift : N) (acc : N) (l : bytes) : option (N * bytes) :=
  match fuel with O => None | S f =>
  match l with
  | [] => None
  | b :: r =>
      let acc' := (acc + ((b mod 128) * 2 ^ shift) mod two64) in   (* distinct bit ranges: | is + ; high bits fall off *)
      if b <? 128 then Some (acc', r) else read_varint_go f (shift + 7) acc' r
  end end.
Definition read_varint (l : bytes) : option (N * bytes) := read_varint_go 10 0 0 l.

(* zig-zag.  i64 values are Z.  variant 0: `(n as i64 >> 1) ^ -(n & 1)` with an ARITHMETIC shift
   (pinned source, wrong when bit 63 of n is set); variant 1: logical shift *)
Definition zz_enc (z : Z) : N := if (z <? 0)%Z then Z.to_N (-2 * z - 1)%Z else Z.to_N (2 * z)%Z.
Definition zz_dec (variant : N) (n : N) : Z :=
  if (variant =? 0) && (two64 / 2 <=? n) then
    (* n as i64 is negative: n - 2^64; arithmetic >> 1 = floor division by 2 *)
    let s := (Z.of_N n - Z.of_N two64)%Z in
    let h := (s / 2)%Z in
    if N.even n then h else (- h - 1)%Z            (* x ^ -1 = -x - 1 *)
  else if N.even n then Z.of_N (n / 2) else (- Z.of_N (n / 2) - 1)%Z.

Definition as_i64 (n : N) : Z := if n <? two64 / 2 then Z.of_N n else (Z.of_N n - Z.of_N two64)%Z.

(* ---------- generic protobuf field scan ---------- *)
Definition take (n : N) (l : bytes) : option (bytes * bytes) :=
  if N.of_nat (length l) <? n then None else Some (firstn (N.to_nat n) l, skipn (N.to_nat n) l).

Inductive field := FVar (num : N) (v : N) | FLen (num : N) (b : bytes) | F32 (num : N) (b : bytes) | F64 (num : N) (b : bytes) | FOther (num wt : N).

(* one (key, payload); wire types 0 varint, 1 fixed64, 2 length-delimited, 5 fixed32 *)
Definition read_field (l : bytes) : option (field * bytes) :=
  match read_varint l with
  | None => None
  | Some (k, r) =>
      let num := (k / 8) mod 4294967296 in let wt := k mod 8 in
      if wt =? 0 then match read_varint r with Some (v, r2) => Some (FVar num v, r2) | None => None end
      else if wt =? 2 then match read_varint r with
                           | Some (n, r2) => match take n r2 with Some (b, r3) => Some (FLen num b, r3) | None => None end
                           | None => None end
      else if wt =? 5 then match take 4 r with Some (b, r2) => Some (F32 num b, r2) | None => None end
      else if wt =? 1 then match take 8 r with Some (b, r2) => Some (F64 num b, r2) | None => None end
      else Some (FOther num wt, r)
  end.

Fixpoint read_fields (fuel : nat) (l : bytes) : option (list field) :=
  match l with
  | [] => Some []
  | _ => match fuel with O => None | S f =>
         match read_field l with
         | Some (x, r) => match read_fields f r with Some xs => Some (x :: xs) | None => None end
         | None => None
         end end
  end.

Definition le_val (b : bytes) : N := fold_right (fun x acc => x + 256 * acc) 0 b.

(* ---------- values ---------- *)
Inductive value := VStr (s : bytes) | VFloat (bits : N) | VDouble (bits : N) | VInt (z : Z) | VUInt (n : N) | VBool (b : bool).

(* GeoValue::read: the LAST field wins; an empty message is an error *)
Definition value_of_field (zv : N) (f : field) : option value :=
  match f with
  | FLen 1 b => Some (VStr b)
  | F32 2 b => Some (VFloat (le_val b))
  | F64 3 b => Some (VDouble (le_val b))
  | FVar 4 v => Some (VInt (as_i64 v))
  | FVar 5 v => Some (VUInt v)
  | FVar 6 v => Some (VInt (zz_dec zv v))
  | FVar 7 v => Some (VBool (negb (v =? 0)))
  | _ => None
  end.
Fixpoint all_some {A} (l : list (option A)) : option (list A) :=
  match l with [] => Some [] | Some a :: r => match all_some r with Some x => Some (a :: x) | None => None end | None :: _ => None end.
Definition decode_value (zv : N) (b : bytes) : option value :=
  match read_fields (S (length b)) b with
  | Some fs => match all_some (map (value_of_field zv) fs) with
               | Some vs => match rev vs with v :: _ => Some v | [] => None end
               | None => None end
  | None => None
  end.

(* ---------- features / layers / tiles ---------- *)
Record feature := mkF { fid : option N; ftags : list N; ftype : N; fgeom : bytes }.
Record layer := mkL { lname : bytes; lextent : N; lversion : N; lkeys : list bytes; lvals : list value; lfeatures : list feature }.

Fixpoint read_packed (fuel : nat) (l : bytes) : option (list N) :=
  match l with
  | [] => Some []
  | _ => match fuel with O => None | S f =>
         match read_varint l with
         | Some (v, r) => match read_packed f r with Some vs => Some (v mod 4294967296 :: vs) | None => None end
         | None => None end end
  end.

Definition geom_type_of (v : N) : N := if (1 <=? v) && (v <=? 3) then v else 0.

Fixpoint feature_fields (fs : list field) (acc : feature) : option feature :=
  match fs with
  | [] => Some acc
  | FVar 1 v :: r => feature_fields r (mkF (Some v) (ftags acc) (ftype acc) (fgeom acc))
  | FLen 2 b :: r => match read_packed (S (length b)) b with
                     | Some t => feature_fields r (mkF (fid acc) t (ftype acc) (fgeom acc)) | None => None end
  | FVar 3 v :: r => feature_fields r (mkF (fid acc) (ftags acc) (geom_type_of v) (fgeom acc))
  | FLen 4 b :: r => feature_fields r (mkF (fid acc) (ftags acc) (ftype acc) b)
  | _ => None
  end.
Definition decode_feature (b : bytes) : option feature :=
  match read_fields (S (length b)) b with Some fs => feature_fields fs (mkF None [] 0 []) | None => None end.

(* table insertion: variant 0 = de-duplicating `add` while READING a layer (pinned source),
   variant 1 = append as stored *)
Definition value_eqb (a b : value) : bool :=
  match a, b with
  | VStr x, VStr y => if list_eq_dec N.eq_dec x y then true else false
  | VFloat x, VFloat y | VDouble x, VDouble y | VUInt x, VUInt y => x =? y
  | VInt x, VInt y => (x =? y)%Z
  | VBool x, VBool y => Bool.eqb x y
  | _, _ => false
  end.
Definition bytes_eqb (a b : bytes) : bool := if list_eq_dec N.eq_dec a b then true else false.
Definition push_table {A} (eqb : A -> A -> bool) (variant : N) (t : list A) (x : A) : list A :=
  if (variant =? 0) && existsb (eqb x) t then t else t ++ [x].

Fixpoint layer_fields (tv zv : N) (fs : list field) (acc : layer) (name : option bytes) : option (layer * option bytes) :=
  match fs with
  | [] => Some (acc, name)
  | FLen 1 b :: r => layer_fields tv zv r acc (Some b)
  | FLen 2 b :: r => match decode_feature b with
                     | Some f => layer_fields tv zv r (mkL (lname acc) (lextent acc) (lversion acc) (lkeys acc) (lvals acc) (lfeatures acc ++ [f])) name
                     | None => None end
  | FLen 3 b :: r => layer_fields tv zv r (mkL (lname acc) (lextent acc) (lversion acc) (push_table bytes_eqb tv (lkeys acc) b) (lvals acc) (lfeatures acc)) name
  | FLen 4 b :: r => match decode_value zv b with
                     | Some v => layer_fields tv zv r (mkL (lname acc) (lextent acc) (lversion acc) (lkeys acc) (push_table value_eqb tv (lvals acc) v) (lfeatures acc)) name
                     | None => None end
  | FVar 5 v :: r => layer_fields tv zv r (mkL (lname acc) (v mod 4294967296) (lversion acc) (lkeys acc) (lvals acc) (lfeatures acc)) name
  | FVar 15 v :: r => layer_fields tv zv r (mkL (lname acc) (lextent acc) (v mod 4294967296) (lkeys acc) (lvals acc) (lfeatures acc)) name
  | _ => None
  end.
Definition decode_layer (tv zv : N) (b : bytes) : option layer :=
  match read_fields (S (length b)) b with
  | Some fs => match layer_fields tv zv fs (mkL [] 4096 1 [] [] []) None with
               | Some (l, Some n) => Some (mkL n (lextent l) (lversion l) (lkeys l) (lvals l) (lfeatures l))
               | _ => None end
  | None => None
  end.

Fixpoint tile_fields (tv zv : N) (fs : list field) : option (list layer) :=
  match fs with
  | [] => Some []
  | FLen 3 b :: r => match decode_layer tv zv b, tile_fields tv zv r with Some l, Some ls => Some (l :: ls) | _, _ => None end
  | _ => None
  end.
Definition decode_tile (tv zv : N) (b : bytes) : option (list layer) :=
  match read_fields (S (length b)) b with Some fs => tile_fields tv zv fs | None => None end.

(* ---------- encoding (to_blob) ---------- *)
Definition key (num wt : N) : bytes := write_varint (num * 8 + wt).
Definition len_delim (num : N) (b : bytes) : bytes := key num 2 ++ write_varint (N.of_nat (length b)) ++ b.
Fixpoint le_bytes (n : nat) (v : N) : bytes := match n with O => [] | S k => v mod 256 :: le_bytes k (v / 256) end.

Definition encode_value (v : value) : bytes :=
  match v with
  | VStr s => len_delim 1 s
  | VFloat b => key 2 5 ++ le_bytes 4 b
  | VDouble b => key 3 1 ++ le_bytes 8 b
  | VUInt n => key 5 0 ++ write_varint n
  | VInt z => key 6 0 ++ write_varint (zz_enc z)
  | VBool b => key 7 0 ++ write_varint (if b then 1 else 0)
  end.
Definition encode_feature (f : feature) : bytes :=
  (match fid f with Some i => key 1 0 ++ write_varint i | None => [] end) ++
  (match ftags f with [] => [] | t => len_delim 2 (flat_map write_varint t) end) ++
  key 3 0 ++ write_varint (ftype f) ++
  (match fgeom f with [] => [] | g => len_delim 4 g end).
Definition encode_layer (l : layer) : bytes :=
  len_delim 1 (lname l) ++ flat_map (fun f => len_delim 2 (encode_feature f)) (lfeatures l) ++
  flat_map (len_delim 3) (lkeys l) ++ flat_map (fun v => len_delim 4 (encode_value v)) (lvals l) ++
  (if lextent l =? 4096 then [] else key 5 0 ++ write_varint (lextent l)) ++
  (if lversion l =? 1 then [] else key 15 0 ++ write_varint (lversion l)).
Definition encode_tile (ls : list layer) : bytes := flat_map (fun l => len_delim 3 (encode_layer l)) ls.

(* ---------- property sets ---------- *)
(* decode_tag_ids: pairs (key id, value id) -> map (BTreeMap: last duplicate key wins); here an
   association list in tag order; `props_get` reads it with last-wins semantics *)
Fixpoint decode_tags (keys : list bytes) (vals : list value) (tags : list N) : option (list (bytes * value)) :=
  match tags with
  | [] => Some []
  | [_] => None                                         (* odd number of tag ids *)
  | k :: v :: r =>
      match nth_error keys (N.to_nat k), nth_error vals (N.to_nat v), decode_tags keys vals r with
      | Some kk, Some vv, Some rest => Some ((kk, vv) :: rest)
      | _, _, _ => None
      end
  end.
Fixpoint props_get (ps : list (bytes * value)) (k : bytes) : option value :=
  match ps with [] => None | (k', v) :: r => match props_get r k with Some x => Some x | None => if bytes_eqb k k' then Some v else None end end.

(* VTLPMap::add on a table: index of the first equal entry, or append *)
Fixpoint index_of {A} (eqb : A -> A -> bool) (x : A) (t : list A) (i : N) : option N :=
  match t with [] => None | y :: r => if eqb x y then Some i else index_of eqb x r (i + 1) end.
Definition table_add {A} (eqb : A -> A -> bool) (t : list A) (x : A) : list A * N :=
  match index_of eqb x t 0 with Some i => (t, i) | None => (t ++ [x], N.of_nat (length t)) end.

(* encode_tag_ids into (keys, vals) *)
Fixpoint encode_tags (keys : list bytes) (vals : list value) (ps : list (bytes * value)) : list bytes * list value * list N :=
  match ps with
  | [] => (keys, vals, [])
  | (k, v) :: r =>
      let '(keys1, ki) := table_add bytes_eqb keys k in
      let '(vals1, vi) := table_add value_eqb vals v in
      let '(keys2, vals2, tags) := encode_tags keys1 vals1 r in
      (keys2, vals2, ki :: vi :: tags)
  end.

(* add_from_layer: every feature of `src` is decoded with src's tables and re-encoded into dst *)
Fixpoint add_features (dst : layer) (skeys : list bytes) (svals : list value) (fs : list feature) : option layer :=
  match fs with
  | [] => Some dst
  | f :: r =>
      match decode_tags skeys svals (ftags f) with
      | None => None
      | Some ps =>
          let '(k2, v2, tags) := encode_tags (lkeys dst) (lvals dst) ps in
          add_features (mkL (lname dst) (lextent dst) (lversion dst) k2 v2 (lfeatures dst ++ [mkF (fid f) tags (ftype f) (fgeom f)])) skeys svals r
      end
  end.

(* merge_tiles: layers grouped by name; output layer order is unspecified (HashMap): here first-seen *)
Fixpoint merge_layer (acc : list layer) (l : layer) : option (list layer) :=
  match acc with
  | [] => Some [l]
  | a :: r => if bytes_eqb (lname a) (lname l) then
                match add_features a (lkeys l) (lvals l) (lfeatures l) with Some a' => Some (a' :: r) | None => None end
              else match merge_layer r l with Some r' => Some (a :: r') | None => None end
  end.
Fixpoint merge_tiles (acc : list layer) (tiles : list (list layer)) : option (list layer) :=
  match tiles with
  | [] => Some acc
  | t :: r => match fold_left (fun a l => match a with Some x => merge_layer x l | None => None end) t (Some acc) with
              | Some acc' => merge_tiles acc' r | None => None end
  end.
