(* PMTiles v3, the whole file (pmtiles/reader.rs: open_reader + get_tile_data; pmtiles/writer.rs:
   the layout the writer produces).  Header at 0, root directory behind it, metadata at 16384,
   tile data, leaf directories last.  The internal compression is a parameter.
   Executable definitions only. *)
From Coq Require Import List NArith Bool.
From VT Require Import Base.Outcome Model.Crash Model.VTBytes Model.PMDir Model.PMWrite Model.PMHeader.
Import ListNotations.
Local Open Scope N_scope.

Section WithCodec.
  Variables (zip : bytes -> bytes) (unzip : bytes -> option bytes).

  (* self.leaves_bytes.read_range(range) -> decompress -> EntriesV3::from_blob *)
  Definition file_leaf (av : N) (leaves : bytes) (o n : N) : outcome (list entry) :=
    match read_range leaves o n with
    | None => Err
    | Some z => match unzip z with None => Err | Some raw => deserialize av raw end
    end.

  Definition pm_file_lookup (av : N) (file : bytes) (t : N) : outcome (option bytes) :=
    obind (pmh_deserialize (firstn 127 file)) (fun h =>
    match read_range file (p_meta_off h) (p_meta_len h) with None => Err | Some mz =>
    match unzip mz with None => Err | Some _ =>
    match read_range file (p_root_off h) (p_root_len h) with None => Err | Some rz =>
    match unzip rz with None => Err | Some rootraw =>
    match read_range file (p_leaf_off h) (p_leaf_len h) with None => Err | Some leaves =>
    obind (deserialize av rootraw) (fun root =>
    obind (pm_lookup av 3 (file_leaf av leaves) root t) (fun oe =>
    match oe with
    | None => Ok None
    | Some e =>
        if u64_max <? e_off e + p_data_off h then Err else                      (* checked_add *)
        match read_range file (e_off e + p_data_off h) (e_len e) with Some b => Ok (Some b) | None => Err end
    end)) end end end end end).

  (* the writer's layout; h0 carries the fields that do not describe the layout (counts, zoom range, bounds, types) *)
  Definition pm_assemble (h0 : pmh) (d : directory) (meta tiles : bytes) : bytes :=
    let rootz := zip (serialize (d_root d)) in
    let metaz := zip meta in
    let pad := repeat 0 (N.to_nat (16384 - 127 - N.of_nat (length rootz))) in
    let data_off := 16384 + N.of_nat (length metaz) in
    let h := mkPMH 127 (N.of_nat (length rootz)) 16384 (N.of_nat (length metaz))
                   (data_off + N.of_nat (length tiles)) (N.of_nat (length (d_leaves_bytes d))) data_off (N.of_nat (length tiles))
                   (p_addressed h0) (p_entries h0) (p_contents h0) (p_clustered h0) (p_icomp h0) (p_tcomp h0) (p_type h0)
                   (p_minz h0) (p_maxz h0) (p_b0 h0) (p_b1 h0) (p_b2 h0) (p_b3 h0) (p_cz h0) (p_c0 h0) (p_c1 h0) in
    pmh_serialize h ++ rootz ++ pad ++ metaz ++ tiles ++ d_leaves_bytes d.
End WithCodec.
