(* Model of the static folder source (versatiles/src/tools/server/sources/static_source_folder.rs,
   utils/url.rs Url::as_path): the request path (after prefix stripping, as delivered by
   uri.path(): no percent-decoding) is joined onto the root; Rust's Path::join replaces the base
   when the right operand is absolute; Path::components drops empty and "." parts and keeps "..";
   Path::starts_with compares components lexically.  Opening the file lets the OS resolve "..".
   Symbolic links are outside the model. *)
From Coq Require Import List NArith Bool.
Import ListNotations.
Local Open Scope N_scope.

Definition str := list N.
Inductive comp := Normal (s : str) | ParentDir.

Definition comp_eqb (a b : comp) : bool :=
  match a, b with
  | ParentDir, ParentDir => true
  | Normal s, Normal t => if list_eq_dec N.eq_dec s t then true else false
  | _, _ => false
  end.

(* split at '/', drop empty parts and "." ; ".." becomes ParentDir *)
Fixpoint split_go (cur : str) (l : str) : list str :=
  match l with
  | [] => [cur]
  | c :: r => if c =? 47 then cur :: split_go [] r else split_go (cur ++ [c]) r
  end.
Definition to_comp (s : str) : option comp :=
  match s with
  | [] => None
  | [46] => None
  | [46; 46] => Some ParentDir
  | _ => Some (Normal s)
  end.
Fixpoint keep {A} (l : list (option A)) : list A :=
  match l with [] => [] | Some a :: r => a :: keep r | None :: r => keep r end.
Definition components (s : str) : list comp := keep (map to_comp (split_go [] s)).

(* url.as_path(root): root.join(&url[1..]) *)
Definition local_path (root : list comp) (url : str) : list comp :=
  match url with
  | [] => root
  | _ :: rel => match rel with
                | 47 :: _ => components rel              (* absolute right operand replaces the base *)
                | _ => root ++ components rel
                end
  end.

Fixpoint starts_with (p root : list comp) : bool :=
  match root, p with
  | [], _ => true
  | r :: root', c :: p' => comp_eqb r c && starts_with p' root'
  | _ :: _, [] => false
  end.

Definition has_parent (p : list comp) : bool := existsb (fun c => match c with ParentDir => true | _ => false end) p.

(* variant 0: lexical starts_with only (pinned source); 1: additionally refuses ".." components *)
Definition guard (variant : N) (root p : list comp) : bool :=
  starts_with p root && (if variant =? 0 then true else negb (has_parent p)).

(* what the OS opens: ".." pops the previous component *)
Fixpoint resolve_go (acc : list str) (p : list comp) : list str :=
  match p with
  | [] => acc
  | Normal s :: r => resolve_go (acc ++ [s]) r
  | ParentDir :: r => resolve_go (removelast acc) r
  end.
Definition resolve (p : list comp) : list str := resolve_go [] p.

Fixpoint prefix_strs (root p : list str) : bool :=
  match root, p with
  | [], _ => true
  | r :: root', c :: p' => (if list_eq_dec N.eq_dec r c then true else false) && prefix_strs root' p'
  | _ :: _, [] => false
  end.

Definition names (p : list comp) : list str := flat_map (fun c => match c with Normal s => [s] | ParentDir => [] end) p.

(* tile_server.rs serve_static: a request path ending in '/' gets "index.html" appended *)
Definition request_url (u : str) : str :=
  match rev u with 47 :: _ => u ++ [105;110;100;101;120;46;104;116;109;108] | _ => u end.

(* the file a request ends up at, if the guard lets it through *)
Definition served (variant : N) (root : list comp) (url : str) : option (list str) :=
  let p := local_path root url in if guard variant root p then Some (resolve p) else None.
