(* Model of versatiles_core::types::LimitedCache  (limited_cache.rs).
   Executable definitions only; proofs live in Proofs/CacheProofs.v.

   State: the HashMap is an association list without duplicate keys (iteration order of the
   Rust HashMap never influences a result: `cleanup` is a filter), `cap` = max_length,
   `last` = last_index.  Keys and values are N (the implementation is run at <u64,u64>).
   u64 overflow of last_index (2^64 operations) is out of scope.

   `median_ix` is the index into the sorted stamp vector used by cleanup(); it is regenerated
   from the source into Gen/Constants.v as `cache_median_variant`
   (0: indices[len/2]  -- 1: indices[(len-1)/2]) and passed in by the callers.           *)
From Coq Require Import List NArith Bool.
Import ListNotations.
Local Open Scope N_scope.

Record cache := mkCache { entries : list (N * (N * N)); cap : N; last : N }.

Definition empty (c : N) : cache := mkCache [] c 0.

Fixpoint lookup (k : N) (l : list (N * (N * N))) : option (N * N) :=
  match l with
  | [] => None
  | (k', vs) :: r => if N.eqb k k' then Some vs else lookup k r
  end.

Fixpoint set_stamp (k s : N) (l : list (N * (N * N))) : list (N * (N * N)) :=
  match l with
  | [] => []
  | (k', (v, s')) :: r => if N.eqb k k' then (k', (v, s)) :: r else (k', (v, s')) :: set_stamp k s r
  end.

(* insertion sort on N *)
Fixpoint insert (x : N) (l : list N) : list N :=
  match l with
  | [] => [x]
  | y :: r => if N.leb x y then x :: l else y :: insert x r
  end.
Fixpoint sort (l : list N) : list N :=
  match l with [] => [] | x :: r => insert x (sort r) end.

Definition stamps (l : list (N * (N * N))) : list N := map (fun e => snd (snd e)) l.

(* variant 0: len/2 (pinned source)   variant 1: (len-1)/2 *)
Definition median_ix (variant : N) (len : nat) : nat :=
  if N.eqb variant 0 then Nat.div len 2 else Nat.div (len - 1) 2.

Definition median (variant : N) (l : list (N * (N * N))) : N :=
  nth (median_ix variant (length l)) (sort (stamps l)) 0.

Definition cleanup (variant : N) (c : cache) : cache :=
  let m := median variant (entries c) in
  mkCache
    (map (fun e => (fst e, (fst (snd e), 0)))
         (filter (fun e => negb (N.leb (snd (snd e)) m)) (entries c)))
    (cap c) (last c).

(* get: Some value and stamp refresh on a hit, state unchanged on a miss *)
Definition get (c : cache) (k : N) : cache * option N :=
  match lookup k (entries c) with
  | Some (v, _) =>
      let l := last c + 1 in
      (mkCache (set_stamp k l (entries c)) (cap c) l, Some v)
  | None => (c, None)
  end.

(* add: cleanup when full, bump the counter, `entry(k).or_insert` keeps an existing entry *)
Definition add (variant : N) (c : cache) (k v : N) : cache * N :=
  let c1 := if N.leb (cap c) (N.of_nat (length (entries c))) then cleanup variant c else c in
  let l := last c1 + 1 in
  match lookup k (entries c1) with
  | Some (v', _) => (mkCache (entries c1) (cap c1) l, v')
  | None => (mkCache (entries c1 ++ [(k, (v, l))]) (cap c1) l, v)
  end.

(* get_or_set with the loader's outcome given as data: Some v = Ok(v), None = Err *)
Definition get_or_set (variant : N) (c : cache) (k : N) (loader : option N) : cache * option N :=
  match get c k with
  | (c', Some v) => (c', Some v)
  | (_, None) =>
      match loader with
      | None => (c, None)
      | Some v => let '(c', r) := add variant c k v in (c', Some r)
      end
  end.

Inductive op := OGet (k : N) | OAdd (k v : N) | OGetOrSet (k : N) (loader : option N).

(* observable result of an operation: returned value (None = miss / Err) *)
Definition step (variant : N) (c : cache) (o : op) : cache * option N :=
  match o with
  | OGet k => get c k
  | OAdd k v => let '(c', r) := add variant c k v in (c', Some r)
  | OGetOrSet k ld => get_or_set variant c k ld
  end.

Fixpoint run (variant : N) (c : cache) (ops : list op) : cache * list (option N) :=
  match ops with
  | [] => (c, [])
  | o :: r => let '(c1, x) := step variant c o in
              let '(c2, xs) := run variant c1 r in (c2, x :: xs)
  end.

Definition final (variant : N) (c : cache) (ops : list op) : cache := fst (run variant c ops).
