(* Model of the VPL parser (versatiles_pipeline/src/vpl/parser.rs), mirroring the nom combinators
   one to one, including the difference between a recoverable Error and a `cut` Failure.
   Text = list of code points.  Recursion through nested source lists uses explicit fuel. *)
From Coq Require Import List NArith Bool.
Import ListNotations.
Local Open Scope N_scope.

Definition str := list N.
Inductive res (A : Type) := ROk (a : A) (rest : str) | RErr | RFail.
Arguments ROk {A}. Arguments RErr {A}. Arguments RFail {A}.

Definition is_space (c : N) : bool := (c =? 32) || (c =? 9) || (c =? 10) || (c =? 13).
Definition is_alpha (c : N) : bool := ((65 <=? c) && (c <=? 90)) || ((97 <=? c) && (c <=? 122)).
Definition is_digit (c : N) : bool := (48 <=? c) && (c <=? 57).
Definition is_alnum (c : N) : bool := is_alpha c || is_digit c.

Fixpoint ws0 (l : str) : str := match l with c :: r => if is_space c then ws0 r else l | [] => [] end.
Definition ws1 (l : str) : option str := match l with c :: r => if is_space c then Some (ws0 r) else None | [] => None end.

Fixpoint take_while (p : N -> bool) (l : str) : str * str :=
  match l with c :: r => if p c then let '(a, b) := take_while p r in (c :: a, b) else ([], l) | [] => ([], []) end.

(* parse_bare_identifier: alpha+ then (alnum | _ | -)* *)
Definition ident (l : str) : option (str * str) :=
  let '(a, r) := take_while is_alpha l in
  match a with [] => None | _ => let '(b, r2) := take_while (fun c => is_alnum c || (c =? 95) || (c =? 45)) r in Some (a ++ b, r2) end.

(* parse_unquoted_value: (alnum | . | - | _)+ *)
Definition unquoted (l : str) : option (str * str) :=
  let '(a, r) := take_while (fun c => is_alnum c || (c =? 46) || (c =? 45) || (c =? 95)) l in
  match a with [] => None | _ => Some (a, r) end.

(* parse_string = escaped_transform(none_of(backslash, quote), backslash, alt(backslash | quote | n | t)) *)
Fixpoint pstring_go (acc : str) (l : str) : res str :=
  match l with
  | [] => ROk acc []
  | c :: r =>
      if c =? 34 then ROk acc l
      else if c =? 92 then
        match r with
        | e :: r2 => if e =? 92 then pstring_go (acc ++ [92]) r2 else if e =? 34 then pstring_go (acc ++ [34]) r2
                     else if e =? 110 then pstring_go (acc ++ [10]) r2 else if e =? 116 then pstring_go (acc ++ [9]) r2
                     else RErr
        | [] => RErr
        end
      else pstring_go (acc ++ [c]) r
  end.
Definition pstring (l : str) : res str :=
  match l with
  | c :: _ => if c =? 34 then RErr else pstring_go [] l          (* escaped_transform: nothing consumed = Error *)
  | [] => pstring_go [] l
  end.

(* variant 0: delimited(quote, parse_string, cut(quote))                          (pinned source)
   variant 1: delimited(quote, opt(parse_string) -> unwrap_or_default, cut(quote)) *)
Definition quoted (ev : N) (l : str) : res str :=
  match l with
  | 34 :: r =>
      let body := match pstring r with
                  | RErr => if ev =? 0 then RErr else ROk [] r
                  | x => x
                  end in
      match body with
      | ROk s (34 :: r2) => ROk s r2
      | ROk _ _ => RFail
      | RErr => RErr | RFail => RFail
      end
  | _ => RErr
  end.

Definition item (ev : N) (l : str) : res str :=           (* alt((quoted, unquoted)) *)
  match quoted ev l with
  | RErr => match unquoted l with Some (s, r) => ROk s r | None => RErr end
  | x => x
  end.

(* separated_list0((ws0 ',' ws0), item) after the first element *)
Fixpoint parray_rest (ev : N) (fuel : nat) (l : str) : res (list str) :=
  match fuel with O => RErr | S f =>
  match ws0 l with
  | 44 :: r => match item ev (ws0 r) with
               | ROk s r2 => match parray_rest ev f r2 with ROk ss r3 => ROk (s :: ss) r3 | RErr => RErr | RFail => RFail end
               | RErr => ROk [] l                           (* separator is given back *)
               | RFail => RFail
               end
  | _ => ROk [] l
  end end.

Definition parray (ev : N) (l : str) : res (list str) :=
  match l with
  | 91 :: r =>
      let r1 := ws0 r in
      let body := match item ev r1 with
                  | ROk s r2 => match parray_rest ev (S (length r2)) r2 with ROk ss r3 => ROk (s :: ss) r3 | RErr => RErr | RFail => RFail end
                  | RErr => ROk [] r1
                  | RFail => RFail
                  end in
      match body with
      | ROk ss r3 => match ws0 r3 with 93 :: r4 => ROk ss r4 | _ => RErr end
      | RErr => RErr | RFail => RFail
      end
  | _ => RErr
  end.

Definition pvalue (ev : N) (l : str) : res (list str) :=
  match quoted ev l with
  | ROk s r => ROk [s] r
  | RFail => RFail
  | RErr => match unquoted l with
            | Some (s, r) => ROk [s] r
            | None => parray ev l
            end
  end.

(* separated_pair(identifier, cut((ws0, '=', ws0)), cut(parse_value)) *)
Definition property (ev : N) (l : str) : res (str * list str) :=
  match ident l with
  | None => RErr
  | Some (k, r) =>
      match ws0 r with
      | 61 :: r2 => match pvalue ev (ws0 r2) with ROk v r3 => ROk (k, v) r3 | _ => RFail end
      | _ => RFail
      end
  end.

Fixpoint props_rest (ev : N) (fuel : nat) (l : str) : res (list (str * list str)) :=
  match fuel with O => RErr | S f =>
  match ws1 l with
  | Some r => match property ev r with
              | ROk p r2 => match props_rest ev f r2 with ROk ps r3 => ROk (p :: ps) r3 | RErr => RErr | RFail => RFail end
              | RErr => ROk [] l
              | RFail => RFail
              end
  | None => ROk [] l
  end end.
Definition props (ev : N) (l : str) : res (list (str * list str)) :=
  match property ev l with
  | ROk p r => match props_rest ev (S (length r)) r with ROk ps r2 => ROk (p :: ps) r2 | RErr => RErr | RFail => RFail end
  | RErr => ROk [] l
  | RFail => RFail
  end.

Inductive node := Node (name : str) (properties : list (str * list str)) (sources : list (list node)).
Definition pipeline := list node.

Fixpoint pnode (ev : N) (fuel : nat) (l : str) : res node :=
  match fuel with O => RErr | S f =>
  match ident (ws0 l) with
  | None => RErr
  | Some (name, r) =>
      match props ev (ws0 r) with
      | ROk ps r2 =>
          let r3 := ws0 r2 in
          (* parse_sources: opt(delimited(('[', ws0), separated_list0(',', pipeline), (ws0, cut(']')))) *)
          match r3 with
          | 91 :: r4 =>
              let body := match ppipe ev f (ws0 r4) with
                          | ROk p r5 => match psrc_rest ev f r5 with ROk ps' r6 => ROk (p :: ps') r6 | RErr => RErr | RFail => RFail end
                          | RErr => ROk [] (ws0 r4)
                          | RFail => RFail
                          end in
              match body with
              | ROk srcs r6 => match ws0 r6 with 93 :: r7 => ROk (Node name ps srcs) (ws0 r7) | _ => RFail end
              | RErr => ROk (Node name ps []) (ws0 r3)          (* opt: give everything back *)
              | RFail => RFail
              end
          | _ => ROk (Node name ps []) (ws0 r3)
          end
      | RErr => RErr | RFail => RFail
      end
  end end
(* separated_list0(char(','), parse_pipeline), remaining elements *)
with psrc_rest (ev : N) (fuel : nat) (l : str) : res (list pipeline) :=
  match fuel with O => RErr | S f =>
  match l with
  | 44 :: r => match ppipe ev f r with
               | ROk p r2 => match psrc_rest ev f r2 with ROk ps r3 => ROk (p :: ps) r3 | RErr => RErr | RFail => RFail end
               | RErr => ROk [] l
               | RFail => RFail
               end
  | _ => ROk [] l
  end end
(* delimited(ws0, separated_list1('|', node), ws0) *)
with ppipe (ev : N) (fuel : nat) (l : str) : res pipeline :=
  match fuel with O => RErr | S f =>
  match pnode ev f (ws0 l) with
  | ROk n r => match pnodes_rest ev f r with ROk ns r2 => ROk (n :: ns) (ws0 r2) | RErr => RErr | RFail => RFail end
  | RErr => RErr | RFail => RFail
  end end
with pnodes_rest (ev : N) (fuel : nat) (l : str) : res (list node) :=
  match fuel with O => RErr | S f =>
  match l with
  | 124 :: r => match pnode ev f r with
                | ROk n r2 => match pnodes_rest ev f r2 with ROk ns r3 => ROk (n :: ns) r3 | RErr => RErr | RFail => RFail end
                | RErr => ROk [] l
                | RFail => RFail
                end
  | _ => ROk [] l
  end end.

(* parse_vpl = all_consuming(parse_pipeline) *)
Definition parse_vpl (ev : N) (l : str) : option pipeline :=
  match ppipe ev (4 * S (length l)) l with
  | ROk p [] => Some p
  | _ => None
  end.
