(* Chunked range reads of the versatiles bounding-box stream
   (versatiles_container/src/container/versatiles/reader.rs, get_bbox_tile_stream): the tile ranges
   of a block, sorted by offset, are grouped greedily into chunks (size and gap limits); every chunk
   is read with ONE range read and the tiles are cut out of that blob.  Executable definitions only. *)
From Coq Require Import List NArith Bool.
From VT Require Import Base.Outcome Model.Crash.
Import ListNotations.
Local Open Scope N_scope.

Record tref := mkT { t_id : N; t_off : N; t_len : N }.        (* coordinate tag, byte range *)
Record chunk := mkC { c_off : N; c_len : N; c_tiles : list tref }.

(* Chunk::push *)
Definition push (c : chunk) (e : tref) : outcome chunk :=
  if t_off e <? c_off c then Panic
  else Ok (mkC (c_off c) (N.max (c_len c) (t_off e + t_len e - c_off c)) (c_tiles c ++ [e])).

Definition max_chunk_size : N := 64 * 1024 * 1024.
Definition max_chunk_gap : N := 32 * 1024.

Fixpoint build (es : list tref) (cur : chunk) (done : list chunk) : outcome (list chunk) :=
  match es with
  | [] => Ok (if (0 <? N.of_nat (length (c_tiles cur))) then done ++ [cur] else done)
  | e :: r =>
      let chunk_start := c_off cur in let chunk_end := c_off cur + c_len cur in
      let tile_start := t_off e in let tile_end := t_off e + t_len e in
      if (tile_end <? chunk_start + max_chunk_size) && (tile_start <? chunk_end + max_chunk_gap) then
        obind (push cur e) (fun c => build r c done)
      else
        obind (push (mkC (t_off e) 0 []) e) (fun c => build r c (done ++ [cur]))
  end.

Definition chunks_of (es : list tref) : outcome (list chunk) :=
  match es with
  | [] => Ok []
  | e :: _ => build es (mkC (t_off e) 0 []) []
  end.

(* one read of the chunk's range, then every tile is cut out of the blob *)
Definition deliver (file : list N) (c : chunk) : list (N * list N) :=
  let big := sub file (N.to_nat (c_off c)) (N.to_nat (c_len c)) in
  map (fun e => (t_id e, sub big (N.to_nat (t_off e - c_off c)) (N.to_nat (t_len e)))) (c_tiles c).

Definition stream (file : list N) (es : list tref) : outcome (list (N * list N)) :=
  omap (fun cs => concat (map (deliver file) cs)) (chunks_of es).
