(* from_overlayed, the encoding side (versatiles_pipeline/src/operations/read/from_overlayed.rs):
   the compression the overlay declares (build) and the re-encoding of the tile it hands out
   (get_tile_data / the slot-filling stream use the same `recompress(blob, source compression,
   declared compression)`).  Which source answers is Model/Pipeline.v's business; here a source is
   its declared compression and what it returns for the coordinate.  Executable definitions only. *)
From Coq Require Import List NArith Bool.
From VT Require Import Model.Recompress.
Import ListNotations.

(* let mut tile_compression = first.tile_compression;
   for source in sources { if source.tile_compression != tile_compression { tile_compression = Uncompressed } } *)
Definition declared (cs : list compression) : compression :=
  match cs with
  | [] => CU
  | c0 :: _ => fold_left (fun acc c => if comp_eqb c acc then acc else CU) cs c0
  end.

Definition first_tile (srcs : list (compression * option bytes)) : option (compression * bytes) :=
  fold_right (fun s rest => match snd s with Some b => Some (fst s, b) | None => rest end) None srcs.

Section WithCodecs.
  Variables gz br : codec.
  (* outer None = the error channel (a source tile that does not decode) *)
  Definition overlay_answer (srcs : list (compression * option bytes)) : option (option bytes) :=
    match first_tile srcs with
    | None => Some None
    | Some (c, b) => option_map Some (recompress gz br c (declared (map fst srcs)) b)
    end.
End WithCodecs.
