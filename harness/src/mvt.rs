//! C10 / C11: vector tiles. An independent MVT encoder (written from the specification, with the
//! layout freedoms other encoders use), content dumps of what the implementation decodes, lines for
//! the Coq decoder/merger (Model/MVT.v) and spec-level checks of merge and update_properties.
use crate::memsrc::{factory, register, MemSource};
use crate::util::*;
use crate::Ctx;
use anyhow::Result;
use std::collections::BTreeMap;
use versatiles_core::io::{ValueReader, ValueReaderSlice, ValueWriter, ValueWriterBlob};
use versatiles_core::types::*;
use versatiles_core::utils::compress;
use versatiles_geometry::vector_tile::{VectorTile, VectorTileLayer};
use versatiles_geometry::GeoValue;

// ---------------- harness-side tile description and independent encoder ----------------
#[derive(Clone, Debug, PartialEq)]
pub enum GVal { Str(String), F32(u32), F64(u64), Int64(i64), SInt(i64), UInt(u64), Bool(bool) }
#[derive(Clone, Debug)]
pub struct GFeat { pub id: Option<u64>, pub tags: Vec<u32>, pub gtype: u64, pub geom: Vec<u8> }
#[derive(Clone, Debug)]
pub struct GLayer { pub name: String, pub extent: u32, pub version: u32, pub keys: Vec<String>, pub vals: Vec<GVal>, pub feats: Vec<GFeat>, pub tables_first: bool }
pub type GTile = Vec<GLayer>;

fn varint(mut v: u64, o: &mut Vec<u8>) { while v >= 0x80 { o.push((v as u8 & 0x7f) | 0x80); v >>= 7; } o.push(v as u8); }
fn zigzag(z: i64) -> u64 { ((z << 1) ^ (z >> 63)) as u64 }
fn key(n: u32, w: u8, o: &mut Vec<u8>) { varint(((n as u64) << 3) | w as u64, o); }
fn ld(n: u32, b: &[u8], o: &mut Vec<u8>) { key(n, 2, o); varint(b.len() as u64, o); o.extend_from_slice(b); }
fn enc_val(v: &GVal) -> Vec<u8> {
	let mut o = Vec::new();
	match v {
		GVal::Str(s) => ld(1, s.as_bytes(), &mut o), GVal::F32(b) => { key(2, 5, &mut o); o.extend_from_slice(&b.to_le_bytes()); }
		GVal::F64(b) => { key(3, 1, &mut o); o.extend_from_slice(&b.to_le_bytes()); } GVal::Int64(z) => { key(4, 0, &mut o); varint(*z as u64, &mut o); }
		GVal::UInt(u) => { key(5, 0, &mut o); varint(*u, &mut o); } GVal::SInt(z) => { key(6, 0, &mut o); varint(zigzag(*z), &mut o); }
		GVal::Bool(b) => { key(7, 0, &mut o); varint(*b as u64, &mut o); }
	}
	o
}
fn enc_feat(f: &GFeat) -> Vec<u8> {
	let mut o = Vec::new();
	if let Some(i) = f.id { key(1, 0, &mut o); varint(i, &mut o); }
	if !f.tags.is_empty() { let mut p = Vec::new(); for t in &f.tags { varint(*t as u64, &mut p); } ld(2, &p, &mut o); }
	key(3, 0, &mut o); varint(f.gtype, &mut o);
	if !f.geom.is_empty() { ld(4, &f.geom, &mut o); }
	o
}
pub fn enc_layer(l: &GLayer) -> Vec<u8> {
	let mut o = Vec::new();
	key(15, 0, &mut o); varint(l.version as u64, &mut o);            // version first, as most encoders do
	ld(1, l.name.as_bytes(), &mut o);
	let tables = |o: &mut Vec<u8>| { for k in &l.keys { ld(3, k.as_bytes(), o); } for v in &l.vals { ld(4, &enc_val(v), o); } };
	if l.tables_first { tables(&mut o); }
	for f in &l.feats { ld(2, &enc_feat(f), &mut o); }
	if !l.tables_first { tables(&mut o); }
	key(5, 0, &mut o); varint(l.extent as u64, &mut o);
	o
}
pub fn enc_tile(t: &GTile) -> Vec<u8> { let mut o = Vec::new(); for l in t { ld(3, &enc_layer(l), &mut o); } o }

// ---------------- canonical content dumps ----------------
fn hx(b: &[u8]) -> String { if b.is_empty() { "-".into() } else { hex(b) } }
fn dump_gval(v: &GVal) -> String {
	match v { GVal::Str(s) => format!("s{}", hx(s.as_bytes())), GVal::F32(b) => format!("f{b}"), GVal::F64(b) => format!("d{b}"), GVal::Int64(z) | GVal::SInt(z) => format!("i{z}"), GVal::UInt(u) => format!("u{u}"), GVal::Bool(b) => format!("b{}", *b as u8) }
}
fn dump_geovalue(v: &GeoValue) -> String {
	match v { GeoValue::String(s) => format!("s{}", hx(s.as_bytes())), GeoValue::Float(f) => format!("f{}", f.to_bits()), GeoValue::Double(f) => format!("d{}", f.to_bits()), GeoValue::Int(z) => format!("i{z}"), GeoValue::UInt(u) => format!("u{u}"), GeoValue::Bool(b) => format!("b{}", *b as u8), GeoValue::Null => "n".into() }
}
fn props_text(m: &BTreeMap<Vec<u8>, String>) -> String { if m.is_empty() { "-".into() } else { m.iter().map(|(k, v)| format!("{}={}", hx(k), v)).collect::<Vec<_>>().join("&") } }

/// expected content of a harness tile (what a correct decoder sees)
pub fn dump_expected(t: &GTile, sort_layers: bool) -> String {
	let mut ls: Vec<String> = t.iter().map(|l| {
		let fs = l.feats.iter().map(|f| {
			let mut m = BTreeMap::new(); let mut ok = f.tags.len() % 2 == 0;
			for p in f.tags.chunks(2) { if p.len() == 2 { match (l.keys.get(p[0] as usize), l.vals.get(p[1] as usize)) { (Some(k), Some(v)) => { m.insert(k.as_bytes().to_vec(), dump_gval(v)); } _ => ok = false } } }
			format!("{}:{}:{}:{}", f.id.map_or("-".into(), |i| i.to_string()), if (1..=3).contains(&f.gtype) { f.gtype } else { 0 }, hx(&f.geom), if ok { props_text(&m) } else { "!".into() })
		}).collect::<Vec<_>>().join(";");
		format!("L{},{},{}[{}]", hx(l.name.as_bytes()), l.extent, l.version, fs)
	}).collect();
	if sort_layers { ls.sort(); }
	ls.join("|")
}
pub fn dump_layer(l: &VectorTileLayer) -> String {
	let fs = l.features.iter().map(|f| {
		let props = match l.decode_tag_ids(&f.tag_ids) { Ok(p) => { let m: BTreeMap<Vec<u8>, String> = p.iter().map(|(k, v)| (k.as_bytes().to_vec(), dump_geovalue(v))).collect(); props_text(&m) } Err(_) => "!".into() };
		format!("{}:{}:{}:{}", f.id.map_or("-".into(), |i| i.to_string()), f.geom_type.as_u64(), hx(f.geom_data.as_slice()), props)
	}).collect::<Vec<_>>().join(";");
	format!("L{},{},{}[{}]", hx(l.name.as_bytes()), l.extent, l.version, fs)
}
pub fn dump_tile(t: &VectorTile, sort_layers: bool) -> String { let mut ls: Vec<String> = t.layers.iter().map(dump_layer).collect(); if sort_layers { ls.sort(); } ls.join("|") }

// ---------------- generators ----------------
fn gen_val(rng: &mut Rng) -> GVal {
	match rng.below(9) {
		0 => GVal::Str(rng.pick(&["", "a", "primary", "zoo street", "ünï✓", "7"]).to_string()), 1 => GVal::F32(if rng.chance(1, 3) { *rng.pick(&[0u32, 1 << 31, 0x7fc0_0000, 0xffc0_0001, 0x7f80_0000, 0xff80_0000, 0x3f80_0000, 0xbf80_0000]) } else { rng.next() as u32 }), 2 => GVal::F64(if rng.chance(1, 3) { *rng.pick(&[0u64, 1 << 63, 0x7ff8_0000_0000_0000, 0xfff8_0000_0000_0001, 0x7ff0_0000_0000_0000, 0xfff0_0000_0000_0000, 0x3ff0_0000_0000_0000, 0xbff0_0000_0000_0000]) } else { rng.next() }),
		3 => GVal::Int64(*rng.pick(&[0i64, 1, -1, 300, -300, i64::MAX, i64::MIN])), 4 => GVal::SInt(*rng.pick(&[0i64, 1, -1, 5000, -5000, (1 << 62) - 1, -(1 << 62), 1 << 62, i64::MAX, i64::MIN])),
		5 => GVal::UInt(*rng.pick(&[0u64, 1, 7, 127, 128, 16384, u32::MAX as u64 + 1, u64::MAX])), 6 => GVal::Bool(rng.chance(1, 2)), 7 => GVal::UInt(rng.below(20)), _ => GVal::Str(format!("v{}", rng.below(6))),
	}
}
pub fn gen_layer(rng: &mut Rng, name: &str, id_key: Option<&str>) -> GLayer {
	let nk = rng.range(0, 5) as usize; let nv = rng.range(0, 6) as usize;
	let pool = ["kind", "name", "a", "b", "surface", "ref"];
	let mut keys: Vec<String> = (0..nk).map(|_| rng.pick(&pool).to_string()).collect();   // duplicates happen
	let mut vals: Vec<GVal> = (0..nv).map(|_| gen_val(rng)).collect();
	if rng.chance(1, 3) && !vals.is_empty() { let v = vals[0].clone(); vals.push(v); }      // duplicate value entry
	if let Some(k) = id_key { keys.push(k.to_string()); for i in 0..4 { vals.push(GVal::UInt(i)); } }
	let feats = (0..rng.range(0, 5)).map(|_| {
		let mut tags = Vec::new();
		if !keys.is_empty() && !vals.is_empty() { for _ in 0..rng.below(4) { tags.push(rng.below(keys.len() as u64) as u32); tags.push(rng.below(vals.len() as u64) as u32); } }
		if let Some(k) = id_key { if rng.chance(4, 5) { tags.push(keys.iter().position(|x| x == k).unwrap() as u32); tags.push((vals.len() - 1 - rng.below(4) as usize) as u32); } }
		GFeat { id: match rng.below(6) { 0 => None, 1 => Some(u64::MAX), 2 => Some(rng.below(1000)), 3 => Some(0), 4 => Some(*rng.pick(&[1u64, 127, 128, 1 << 32, (1 << 63) - 1, 1 << 63])), _ => Some(rng.next()) }, tags, gtype: *rng.pick(&[0u64, 1, 2, 3, 3, 1]),
			geom: { let n = *rng.pick(&[0usize, 3, 7, 20]); rng.bytes(n) } }
	}).collect();
	GLayer { name: name.to_string(), extent: *rng.pick(&[4096u32, 4096, 512, 8192, 1]), version: *rng.pick(&[1u32, 2, 2]), keys, vals, feats, tables_first: rng.chance(1, 2) }
}
pub fn gen_tile_pub(rng: &mut Rng) -> GTile { gen_tile(rng, Some("tid")) }
fn gen_tile(rng: &mut Rng, id_key: Option<&str>) -> GTile {
	let names = ["roads", "water", "pois", "ünï"];
	let n = rng.range(0, 3) as usize; let start = rng.below(4) as usize;
	(0..n).map(|i| gen_layer(rng, names[(start + i) % 4], id_key)).collect()
}

/// one layer whose key table has 130 and whose value table has 16 400 entries; features point at the entries around 127/128 and 16383/16384
fn gen_big_tables_tile(rng: &mut Rng) -> GTile {
	let keys: Vec<String> = (0..130).map(|k| format!("k{k}")).collect();
	let vals: Vec<GVal> = (0..16_400u64).map(|v| if v % 3 == 0 { GVal::UInt(v) } else if v % 3 == 1 { GVal::Str(format!("v{v}")) } else { GVal::SInt(-(v as i64)) }).collect();
	let borders = [0u32, 1, 126, 127, 128, 129, 16_382, 16_383, 16_384, 16_385, 16_399];
	let feats = (0..borders.len()).map(|j| { let mut tags = vec![borders[j].min(129), borders[(j + 3) % borders.len()], (j as u32 * 11) % 130, borders[j]]; if rng.chance(1, 2) { tags.extend_from_slice(&[127, 16_384]); }
		GFeat { id: Some(j as u64), tags, gtype: 1, geom: vec![9, 2, 2] } }).collect();
	vec![GLayer { name: "big".into(), extent: 4096, version: 2, keys, vals, feats, tables_first: rng.chance(1, 2) }, gen_layer(rng, "roads", None)]
}

fn impl_decode(b: &[u8]) -> Result<VectorTile, String> { match guarded(|| VectorTile::from_blob(&Blob::from(b.to_vec()))) { Ok(Ok(t)) => Ok(t), Ok(Err(_)) => Err("err".into()), Err(_) => Err("panic".into()) } }

/// the generated source `from_debug` (its stream computes the tiles with `TileStream::from_coord_iter_parallel`, i.e. in parallel
/// worker tasks): on a runtime with several workers every streamed tile must be the tile the single lookup gives for its coordinate
pub fn debug_stream_mismatches(thorough: bool, cases: &mut u64) -> Result<Vec<(String, String)>> {
	let mut bad = Vec::new();
	let rt8 = tokio::runtime::Builder::new_multi_thread().worker_threads(8).enable_all().build()?;
	for (vpl, boxes) in [("from_debug format=pbf", vec![(5u8, 3u32, 4u32, 12u32, 11u32), (8, 10, 100, 41, 163), (9, 100, 200, 107, 205), (0, 0, 0, 0, 0), (2, 0, 0, 3, 3)]), ("from_debug format=png fast=true", vec![(3u8, 1u32, 1u32, 3u32, 2u32)])] {
		let Ok(Ok(op)) = guarded(|| rt8.block_on(factory().operation_from_vpl(vpl))) else { continue };
		'rounds: for round in 0..(if thorough { 12 } else { 3 }) { for (z, x0, y0, x1, y1) in &boxes {
			let bb = TileBBox::new(*z, *x0, *y0, *x1, *y1).unwrap(); let b2 = bb.clone(); *cases += 1;
			let desc = format!("{vpl}: stream over {bb:?} (round {round}) on a runtime with 8 workers");
			let Ok(items) = guarded(|| rt8.block_on(async { op.get_tile_stream(b2).await.collect().await })) else { bad.push((desc, "stream panicked".to_string())); continue; };
			let mut got: Vec<(u32, u32, Vec<u8>)> = items.iter().map(|(c, b)| (c.x, c.y, b.as_slice().to_vec())).collect(); got.sort();
			let mut exp: Vec<(u32, u32, Vec<u8>)> = Vec::new();
			for c2 in bb.iter_coords() { if let Ok(Ok(Some(b))) = guarded(|| rt8.block_on(op.get_tile_data(&TileCoord3 { x: c2.x, y: c2.y, z: bb.level }))) { exp.push((c2.x, c2.y, b.as_slice().to_vec())); } }
			exp.sort();
			if got != exp {
				let wrong: Vec<(u32, u32)> = got.iter().filter(|g| !exp.contains(g)).map(|g| (g.0, g.1)).take(8).collect();
				bad.push((desc, format!("stream delivers {} tiles, lookups give {}; streamed tiles that differ from their lookup (first 8): {:?}", got.len(), exp.len(), wrong))); break 'rounds; }
		} }
	}
	Ok(bad)
}

/// C02 / C03 for the vector-tile operators: `from_vectortiles_merged` over sources that hold tiles at shared and at
/// private coordinates, store them in different compressions and suspend a different number of times before they
/// answer.  A stream over a box must deliver exactly the tiles the single lookups return inside it - each once, with
/// identical bytes - and every delivered tile must lie inside the advertised coverage.
pub fn run_stream_vs_lookup(ctx: &Ctx, col: &mut Collector) -> Result<()> {
	for (desc, detail) in debug_stream_mismatches(ctx.thorough, &mut col.spec_cases)? { col.violation("vector-stream-vs-lookup", &desc, &desc, &detail); }
	let mut rng = Rng::new(ctx.seed ^ 0xc02_1011);
	let rt = tokio::runtime::Builder::new_multi_thread().worker_threads(2).enable_all().build()?;
	let comps = [TileCompression::Uncompressed, TileCompression::Gzip, TileCompression::Brotli];
	for i in 0..(if ctx.thorough { 400 } else { 60 }) {
		let k = rng.range(2, 4) as usize;
		let mut names = Vec::new();
		let shared: Vec<(u8, u32, u32)> = vec![(3, 1, 2), (7, 37, 41), (7, 70, 44), (7, 63, 63), (7, 64, 64)];
		for j in 0..k {
			let name = format!("sv{i}_{j}_{}", ctx.seed);
			let c = *rng.pick(&comps);
			let mut stored = Vec::new();
			for c3 in &shared { if rng.chance(3, 4) { stored.push((*c3, compress(Blob::from(enc_tile(&gen_tile(&mut rng, None))), &c).unwrap().into_vec())); } }
			for _ in 0..rng.below(4) { let z = *rng.pick(&[3u8, 7]); let m = (1u32 << z) - 1; stored.push(((z, rng.below(m as u64 + 1) as u32, rng.below(m as u64 + 1) as u32), compress(Blob::from(enc_tile(&gen_tile(&mut rng, None))), &c).unwrap().into_vec())); }
			if stored.is_empty() { stored.push(((3, 1, 2), compress(Blob::from(enc_tile(&gen_tile(&mut rng, None))), &c).unwrap().into_vec())); }
			// keep generated tiles valid for merging: tag lists of even length only
			let yields = *rng.pick(&[0usize, 0, 1, 2, 5]);
			crate::memsrc::register_slow_open(&name, Box::new(MemSource::new(&name, stored, TileFormat::PBF, c).with_yields(yields)), [2usize, 0, 1][j % 3]);
			names.push(name);
		}
		let vpl = format!("from_vectortiles_merged [ {} ]", names.iter().map(|n| format!("from_container filename={n}")).collect::<Vec<_>>().join(", "));
		let desc = format!("vector pipeline #{i} (seed {}): {vpl}", ctx.seed);
		let op = match guarded(|| rt.block_on(factory().operation_from_vpl(&vpl))) { Ok(Ok(o)) => o, _ => continue };
		let cov = op.get_parameters().bbox_pyramid.clone();
		for bb in [TileBBox::new(3, 0, 0, 7, 7).unwrap(), TileBBox::new(7, 33, 40, 72, 45).unwrap(), TileBBox::new(7, 60, 60, 66, 66).unwrap(), TileBBox::new(7, 0, 0, 127, 127).unwrap(), TileBBox::new(3, 1, 2, 1, 2).unwrap()] {
			if bb.count_tiles() > 10000 && i % 6 != 0 { continue; }
			col.spec_cases += 1;
			let b2 = bb.clone();
			let Ok(items) = guarded(|| rt.block_on(async { op.get_tile_stream(b2).await.collect().await })) else { col.violation("vector-stream-panic", &desc, &desc, &format!("stream over {bb:?} panicked")); break; };
			let mut got: Vec<(u32, u32, Vec<u8>)> = items.iter().map(|(c, b)| (c.x, c.y, b.as_slice().to_vec())).collect(); got.sort();
			let mut exp: Vec<(u32, u32, Vec<u8>)> = Vec::new(); let mut undecodable = false;
			for c2 in bb.iter_coords() {
				match guarded(|| rt.block_on(op.get_tile_data(&TileCoord3 { x: c2.x, y: c2.y, z: bb.level }))) { Ok(Ok(Some(b))) => exp.push((c2.x, c2.y, b.as_slice().to_vec())), Ok(Ok(None)) => {}, _ => { undecodable = true; } }
			}
			exp.sort();
			if undecodable { continue; } // a generated tile with an odd tag list: lookups report an error, streams have no error channel
			if got != exp {
				let pos = |v: &Vec<(u32, u32, Vec<u8>)>| v.iter().map(|g| (g.0, g.1, g.2.len())).collect::<Vec<_>>();
				col.violation("vector-stream-vs-lookup", &desc, &desc, &format!("stream over {bb:?} delivers (x, y, bytes) {:?}; single lookups inside the box give {:?}{}", pos(&got), pos(&exp), if pos(&got) == pos(&exp) { " - same coordinates and sizes, different bytes" } else { "" })); break; }
			for (x, y, _) in &got { if !cov.get_level_bbox(bb.level).contains2(&versatiles_core::types::TileCoord2::new(*x, *y)) { col.violation("vector-coverage", &desc, &desc, &format!("tile {}/{x}/{y} is delivered but lies outside the advertised coverage", bb.level)); } }
		}
	}
	Ok(())
}

pub fn run(ctx: &Ctx, focus: &str) -> Result<()> {
	let mut col = Collector::new(&ctx.out)?;
	let mut rng = Rng::new(ctx.seed ^ 0x1011);
	let rt = tokio::runtime::Builder::new_multi_thread().worker_threads(2).enable_all().build()?;
	let n = if ctx.thorough { 4000 } else { 400 };

	// (0) varint / zig-zag primitives through the implementation's writer and reader
	for v in [0u64, 1, 127, 128, 300, 16383, 16384, u32::MAX as u64, 1 << 35, 1 << 56, (1 << 63) - 1, 1 << 63, u64::MAX] {
		let mut w = ValueWriterBlob::new_le(); w.write_varint(v)?; let b = w.into_blob();
		let back = ValueReaderSlice::new_le(b.as_slice()).read_varint().ok();
		col.out.line(&format!("varint {v} => {} {}", hex(b.as_slice()), back.map_or("err".into(), |x| x.to_string())));
	}
	for z in [0i64, 1, -1, 63, -64, 64, 300, -300, (1 << 62) - 1, -(1 << 62), 1 << 62, -(1 << 62) - 1, i64::MAX, i64::MIN, rng.next() as i64, -(rng.next() as i64 >> 1)] {
		let mut w = ValueWriterBlob::new_le(); w.write_svarint(z)?; let b = w.into_blob();
		let back = ValueReaderSlice::new_le(b.as_slice()).read_svarint().ok();
		col.out.line(&format!("svarint {z} => {} {}", hex(b.as_slice()), back.map_or("err".into(), |x| x.to_string())));
		col.spec_cases += 1;
		if back != Some(z) { col.violation("zigzag", &format!("svarint {z}"), &format!("svarint {z}"), &format!("read_svarint(write_svarint({z})) = {back:?}")); }
	}

	// (1) independently encoded tiles: decode, re-encode, compare content (C11 identity, C16-style acceptance)
	for i in 0..n {
		// now and then a layer with large tables: tag ids on both sides of the 1-, 2- and 3-byte varint borders
		let t = if i % 97 == 13 { gen_big_tables_tile(&mut rng) } else { gen_tile(&mut rng, None) };
		let bytes = enc_tile(&t);
		let exp = dump_expected(&t, false);
		col.spec_cases += 1;
		let desc = format!("mvt.dec {}", hx(&bytes));
		match impl_decode(&bytes) {
			Ok(dec) => {
				let got = dump_tile(&dec, false);
				// (tiles with 16 000 table entries are compared with the expectation only: the model's list-based tables are quadratic)
				let model_lines = bytes.len() < 20_000;
				if model_lines { col.out.line(&format!("mvt.dec {} => {}", hx(&bytes), if got.is_empty() { "-".to_string() } else { got.clone() })); }
				if got != exp { col.violation("decode-content", &desc, &desc, &format!("encoded {exp} decoded as {got}")); }
				match guarded(|| dec.to_blob()) {
					Ok(Ok(b2)) => match impl_decode(b2.as_slice()) {
						Ok(d2) => { let g2 = dump_tile(&d2, false);
							if model_lines { col.out.line(&format!("mvt.rt {} => {}", hx(&bytes), if g2.is_empty() { "-".to_string() } else { g2.clone() })); }
							if g2 != exp { col.violation("reencode-content", &format!("mvt.rt {}", hx(&bytes)), &format!("mvt.rt {}", hx(&bytes)), &format!("content {exp} became {g2} after decode+encode")); } }
						Err(e) => col.violation("reencode-undecodable", &desc, &desc, &e),
					},
					other => col.violation("reencode-fail", &desc, &desc, &format!("{:?}", other.map(|r| r.map(|_| ()).map_err(|e| e.to_string())))),
				}
			}
			Err(e) => { col.out.line(&format!("mvt.dec {} => {e}", hx(&bytes))); col.violation("valid-tile-rejected", &desc, &desc, &format!("a valid tile ({exp}) was not decoded: {e}")); }
		}
		// malformed stream: mutate and only require "value or error, never panic" (+ model agreement)
		if i % 2 == 0 && !bytes.is_empty() {
			let mut m = bytes.clone();
			match rng.below(4) { 0 => { let k = rng.below(m.len() as u64) as usize; m[k] ^= 1 << rng.below(8); } 1 => { let k = rng.below(m.len() as u64) as usize; m.truncate(k); } 2 => { let k = rng.below(m.len() as u64) as usize; m[k] = *rng.pick(&[0u8, 0x7f, 0x80, 0xff]); } _ => { let k = rng.below(m.len() as u64) as usize; m.insert(k, *rng.pick(&[0x80u8, 0xff, 0x0a, 0x1a])); } }
			// length fields that announce gigabytes are the C19 check's business (allocation); skip them here
			let r = impl_decode(&m);
			let txt = match &r { Ok(d) => { let g = dump_tile(d, false); if g.is_empty() { "-".to_string() } else { g } } Err(e) => e.clone() };
			if m.len() < 20_000 { col.out.line(&format!("mvt.dec {} => {}", hx(&m), txt)); }
			if matches!(&r, Err(e) if e == "panic") { col.violation("decode-panic", &format!("mvt.dec {}", hx(&m)), &format!("mvt.dec {}", hx(&m)), "VectorTile::from_blob panicked"); }
		}
	}

	// (2) merging (C10)
	if focus != "c11" {
		for i in 0..n / 4 {
			let k = rng.range(2, 4) as usize;
			let mut tiles: Vec<Option<GTile>> = (0..k).map(|_| if rng.chance(5, 6) { Some(gen_tile(&mut rng, None)) } else { None }).collect();
			// overlapping extracts of one data set: now and then a source delivers exactly the tile of the source listed before it
			// (the merged layers then hold those features twice)
			if i % 4 == 1 { let j = 1 + rng.below(k as u64 - 1) as usize; tiles[j] = tiles[j - 1].clone(); }
			let comps = [TileCompression::Uncompressed, TileCompression::Gzip, TileCompression::Brotli];
			let mut names = Vec::new();
			for (j, t) in tiles.iter().enumerate() {
				let name = format!("v{i}_{j}_{}", ctx.seed);
				let c = *rng.pick(&comps);
				let mut stored = vec![((5u8, 9u32, 9u32), compress(Blob::from(b"other".to_vec()), &c).unwrap().into_vec())];
				if let Some(t) = t { stored.push(((3, 1, 2), compress(Blob::from(enc_tile(t)), &c).unwrap().into_vec())); }
				// the same tile again on a deeper level, away from the 32-tile grid the stream is cut into
				if let Some(t) = t { stored.push(((7, 37, 41), compress(Blob::from(enc_tile(t)), &c).unwrap().into_vec())); if j % 2 == 0 { stored.push(((7, 70, 44), compress(Blob::from(enc_tile(t)), &c).unwrap().into_vec())); } }
				// "other" is not a vector tile, but it lives at another coordinate that is never merged
				stored.retain(|(c3, _)| c3.0 == 3 || c3.0 == 7);
				if stored.is_empty() { stored.push(((4, 0, 0), compress(Blob::from(enc_tile(&vec![])), &c).unwrap().into_vec())); }
				// some sources answer at once, others suspend a few times first (real readers do I/O): the result may not depend on it
				let yields = *rng.pick(&[0usize, 0, 1, 2, 5]);
				crate::memsrc::register_slow_open(&name, Box::new(MemSource::new(&name, stored, TileFormat::PBF, c).with_yields(yields)), [2usize, 0, 1][j % 3]);
				names.push(name);
			}
			let vpl = format!("from_vectortiles_merged [ {} ]", names.iter().map(|n| format!("from_container filename={n}")).collect::<Vec<_>>().join(", "));
			let present: Vec<&GTile> = tiles.iter().flatten().collect();
			// expected: layers grouped by name (first-seen order), features concatenated in source order
			let mut exp_layers: Vec<GLayer> = Vec::new();
			let mut exp_dump_parts: Vec<(String, Vec<String>, u32, u32)> = Vec::new();
			for t in &present { for l in t.iter() {
				let feats: Vec<String> = dump_expected(&vec![l.clone()], false).split_once('[').unwrap().1.trim_end_matches(']').split(';').filter(|s| !s.is_empty()).map(|s| s.to_string()).collect();
				if let Some(e) = exp_dump_parts.iter_mut().find(|e| e.0 == l.name) { e.1.extend(feats); } else { exp_dump_parts.push((l.name.clone(), feats, l.extent, l.version)); exp_layers.push(l.clone()); }
			} }
			let mut exp: Vec<String> = exp_dump_parts.iter().map(|(n, f, e, v)| format!("L{},{},{}[{}]", hx(n.as_bytes()), e, v, f.join(";"))).collect();
			exp.sort();
			let exp = exp.join("|");
			let valid = present.iter().all(|t| t.iter().all(|l| l.feats.iter().all(|f| f.tags.len() % 2 == 0)));
			let desc = format!("mvt.merge {}", present.iter().map(|t| hx(&enc_tile(t))).collect::<Vec<_>>().join(";"));
			col.spec_cases += 1;
			let op = match guarded(|| rt.block_on(factory().operation_from_vpl(&vpl))) { Ok(Ok(o)) => o, other => { col.violation("merge-build", &desc, &desc, &format!("{:?}", other.map(|r| r.map(|_| ()).map_err(|e| format!("{e:#}"))))); continue; } };
			if op.get_parameters().tile_compression != TileCompression::Uncompressed { col.violation("merge-declared-compression", &desc, &desc, "output is not declared uncompressed"); }
			let r = guarded(|| rt.block_on(op.get_tile_data(&TileCoord3 { x: 1, y: 2, z: 3 })));
			let s = guarded(|| rt.block_on(async { op.get_tile_stream(TileBBox::new(3, 0, 0, 7, 7).unwrap()).await.collect().await }));
			match (&r, present.is_empty()) {
				(Ok(Ok(None)), true) => {}
				(Ok(Ok(Some(b))), false) => match impl_decode(b.as_slice()) {
					Ok(d) => { let got = dump_tile(&d, true);
						if !present.is_empty() { col.out.line(&format!("{desc} => {}", if got.is_empty() { "-".to_string() } else { got.clone() })); }
						if valid && got != exp { col.violation("merge-content", &desc, &desc, &format!("expected {exp} got {got}")); } }
					Err(e) => col.violation("merge-output-undecodable", &desc, &desc, &e),
				},
				(Ok(Err(e)), _) if !valid => { let _ = e; }
				other => col.violation("merge-exists", &desc, &desc, &format!("some source has a tile: {}, lookup gave {:?}", !present.is_empty(), other.0.as_ref().map(|r| r.as_ref().map(|o| o.as_ref().map(|b| b.len())).map_err(|e| e.to_string())))),
			}
			if let (Ok(items), Ok(Ok(look))) = (&s, &r) {
				let at: Vec<&(TileCoord3, Blob)> = items.iter().filter(|(c, _)| c.x == 1 && c.y == 2).collect();
				let same = match (at.first(), look) { (None, None) => true, (Some((_, b)), Some(l)) => impl_decode(b.as_slice()).map(|d| dump_tile(&d, true)).ok() == impl_decode(l.as_slice()).map(|d| dump_tile(&d, true)).ok(), _ => false };
				if !same || at.len() > 1 { col.violation("merge-stream-vs-lookup", &desc, &desc, "stream and lookup disagree"); }
			} else if valid { col.violation("merge-stream-panic", &desc, &desc, "stream panicked"); }
			// streams over boxes that do not start on the 32-tile grid: exactly the coordinates where a source has a tile, each once,
			// each with the content the lookup gives there
			if valid { for bb in [TileBBox::new(7, 33, 40, 72, 45).unwrap(), TileBBox::new(7, 37, 41, 37, 41).unwrap(), TileBBox::new(7, 5, 9, 100, 50).unwrap(), TileBBox::new(7, 36, 0, 37, 127).unwrap(), TileBBox::new(7, 38, 40, 69, 45).unwrap()] {
				col.spec_cases += 1;
				let b2 = bb.clone();
				let s7 = guarded(|| rt.block_on(async { op.get_tile_stream(b2).await.collect().await }));
				let Ok(items) = s7 else { col.violation("merge-stream-panic", &desc, &desc, &format!("stream over {bb:?} panicked")); break; };
				let mut got: Vec<(u32, u32, String)> = items.iter().map(|(c, b)| (c.x, c.y, impl_decode(b.as_slice()).map(|d| dump_tile(&d, true)).unwrap_or_else(|e| e))).collect(); got.sort();
				let mut exp: Vec<(u32, u32, String)> = Vec::new();
				for (x, y) in [(37u32, 41u32), (70, 44)] { if !bb.contains2(&versatiles_core::types::TileCoord2::new(x, y)) { continue; }
					if let Ok(Ok(Some(b))) = guarded(|| rt.block_on(op.get_tile_data(&TileCoord3 { x, y, z: 7 }))) { exp.push((x, y, impl_decode(b.as_slice()).map(|d| dump_tile(&d, true)).unwrap_or_else(|e| e))); } }
				exp.sort();
				if got != exp { col.violation("merge-stream-vs-lookup", &desc, &desc, &format!("stream over {bb:?} delivers {:?}, lookups give {:?}", got.iter().map(|g| (g.0, g.1)).collect::<Vec<_>>(), exp.iter().map(|g| (g.0, g.1)).collect::<Vec<_>>())); break; }
			} }
		}
	}

	// (3) vectortiles_update_properties (C11)
	if focus != "c10" {
		let dir = std::fs::canonicalize(&ctx.out)?;
		for i in 0..n / 4 {
			// every fifth case is the narrow-feature / wide-row shape: features that carry the join id and one property whose name is
			// also a column of the table (with another value), a table with more columns than the feature has properties, merge mode
			let narrow = i % 5 == 2;
			let t = if narrow { vec![GLayer { name: "roads".into(), extent: 4096, version: 2, keys: vec!["kind".into(), "tid".into()],
				vals: vec![GVal::Str("old".into()), GVal::UInt(0), GVal::UInt(1), GVal::UInt(2), GVal::UInt(3)],
				feats: (0..4u32).map(|j| GFeat { id: Some(j as u64 + 10), tags: vec![0, 0, 1, 1 + j], gtype: 1, geom: vec![9, 2, 2] }).collect(), tables_first: rng.chance(1, 2) }] } else { gen_tile(&mut rng, Some("tid")) };
			if t.iter().any(|l| l.feats.iter().any(|f| f.tags.len() % 2 != 0)) { continue; }
			let layer_name = if narrow { "roads".to_string() } else if t.is_empty() || rng.chance(1, 8) { "absent".to_string() } else { t[rng.below(t.len() as u64) as usize].name.clone() };
			// data table: ids 0..3 (some missing), columns `id`, `extra`, `kind`
			let mut rows: Vec<(u64, String, String)> = Vec::new();
			for id in 0..4u64 { if rng.chance(2, 3) || (narrow && id < 2) { rows.push((id, rng.pick(&["x", "y", "true", "12", "-5", "1.5", ""]).to_string(), rng.pick(&["motorway", "path", ""]).to_string())); } }
			// the table has the id column alone, or one or two further columns; a table without further columns gives empty rows
			let ncols = if narrow { 2 } else { *rng.pick(&[2usize, 2, 2, 1, 0]) };
			let csv = format!("{}\n{}", ["id", "id,extra", "id,extra,kind"][ncols], rows.iter().map(|(a, b, c)| match ncols { 0 => format!("{a}\n"), 1 => format!("{a},{b}\n"), _ => format!("{a},{b},{c}\n") }).collect::<String>());
			// sometimes the stage runs behind a merging pass with the same table: every matched feature then already carries all
			// values of its row, and the outcome must be that of the single pass
			let twice = rng.chance(1, 3);
			let csv_path = dir.join(format!("data_{i}.csv")); std::fs::write(&csv_path, &csv)?;
			let (replace, remove, include) = (rng.chance(1, 2) && !narrow, rng.chance(1, 2), rng.chance(1, 2));
			let name = format!("u{i}_{}", ctx.seed);
			let c = *rng.pick(&[TileCompression::Uncompressed, TileCompression::Gzip]);
			register(&name, Box::new(MemSource::new(&name, vec![((3, 1, 2), compress(Blob::from(enc_tile(&t)), &c).unwrap().into_vec())], TileFormat::PBF, c)));
			let first = if twice { format!(" | vectortiles_update_properties data_source_path=\"{}\" layer_name=\"{layer_name}\" id_field_tiles=tid id_field_data=id replace_properties=false remove_non_matching=false include_id={include}", csv_path.to_str().unwrap()) } else { String::new() };
			let vpl = format!("from_container filename={name}{first} | vectortiles_update_properties data_source_path=\"{}\" layer_name=\"{layer_name}\" id_field_tiles=tid id_field_data=id replace_properties={replace} remove_non_matching={remove} include_id={include}", csv_path.to_str().unwrap());
			let desc = format!("update tile={} layer={layer_name} replace={replace} remove={remove} include_id={include} csv={csv:?}{}", hx(&enc_tile(&t)), if twice { " behind a merging pass (replace=false remove=false) with the same table" } else { "" });
			col.spec_cases += 1;
			// expected content
			let parse_val = |s: &str| -> String { if s.is_empty() { "s-".into() } else if s == "true" { "b1".into() } else if s == "false" { "b0".into() } else if s.starts_with('-') && s[1..].chars().all(|c| c.is_ascii_digit()) { format!("i{s}") } else if s.chars().all(|c| c.is_ascii_digit()) { format!("u{s}") } else if s.parse::<f64>().is_ok() && s.contains('.') { format!("d{}", s.parse::<f64>().unwrap().to_bits()) } else { format!("s{}", hx(s.as_bytes())) } };
			let mut exp_layers: Vec<String> = Vec::new();
			for l in &t {
				let base = dump_expected(&vec![l.clone()], false);
				if l.name != layer_name { exp_layers.push(base); continue; }
				let mut feats = Vec::new();
				for f in &l.feats {
					let mut m: BTreeMap<Vec<u8>, String> = BTreeMap::new();
					for p in f.tags.chunks(2) { m.insert(l.keys[p[0] as usize].as_bytes().to_vec(), dump_gval(&l.vals[p[1] as usize])); }
					let mut idg: Option<&GVal> = None;
					for p in f.tags.chunks(2) { if l.keys[p[0] as usize] == "tid" { idg = Some(&l.vals[p[1] as usize]); } }
					if let Some(idv) = idg {
						// the id is compared as text, as GeoValue's Display prints it
						let idtxt = match idv { GVal::Str(s) => s.clone(), GVal::Bool(b) => b.to_string(), GVal::UInt(u) => u.to_string(), GVal::Int64(z) | GVal::SInt(z) => z.to_string(), GVal::F32(b) => f32::from_bits(*b).to_string(), GVal::F64(b) => f64::from_bits(*b).to_string() };
						if let Some(row) = rows.iter().find(|r| r.0.to_string() == idtxt) {
							let mut newp: BTreeMap<Vec<u8>, String> = BTreeMap::new();
							if include { newp.insert(b"id".to_vec(), format!("u{}", row.0)); }
							if ncols >= 1 { newp.insert(b"extra".to_vec(), parse_val(&row.1)); } if ncols >= 2 { newp.insert(b"kind".to_vec(), parse_val(&row.2)); }
							if replace { m = newp; } else { m.extend(newp); }
						} else if remove { continue; }
					}
					feats.push(format!("{}:{}:{}:{}", f.id.map_or("-".into(), |i| i.to_string()), if (1..=3).contains(&f.gtype) { f.gtype } else { 0 }, hx(&f.geom), props_text(&m)));
				}
				exp_layers.push(format!("L{},{},{}[{}]", hx(l.name.as_bytes()), l.extent, l.version, feats.join(";")));
			}
			let exp = exp_layers.join("|");
			let op = match guarded(|| rt.block_on(factory().operation_from_vpl(&vpl))) { Ok(Ok(o)) => o, other => { col.violation("update-build", &desc, "", &format!("{:?}", other.map(|r| r.map(|_| ()).map_err(|e| format!("{e:#}"))))); continue; } };
			match guarded(|| rt.block_on(op.get_tile_data(&TileCoord3 { x: 1, y: 2, z: 3 }))) {
				Ok(Ok(Some(b))) => {
					let raw = versatiles_core::utils::decompress(b, &op.get_parameters().tile_compression).map(|x| x.into_vec()).unwrap_or_default();
					// the same join on the Coq model (Model/MVTUpdate.v): rows typed as above, and which entries of the named layer's
					// value table print (Display) as which row's id
					if !twice && t.iter().filter(|l| l.name == layer_name).count() <= 1 {
						let rows_txt = if rows.is_empty() { "-".to_string() } else { rows.iter().map(|(a, b, c)| { let mut r = format!("{}=u{a}", hx(b"id")); if ncols >= 1 { r += &format!("&{}={}", hx(b"extra"), parse_val(b)); } if ncols >= 2 { r += &format!("&{}={}", hx(b"kind"), parse_val(c)); } r }).collect::<Vec<_>>().join("|") };
						let idmap: Vec<String> = t.iter().find(|l| l.name == layer_name).map(|l| l.vals.iter().enumerate().filter_map(|(j, v)| {
							let txt = match v { GVal::Str(s) => s.clone(), GVal::Bool(b) => b.to_string(), GVal::UInt(u) => u.to_string(), GVal::Int64(z) | GVal::SInt(z) => z.to_string(), GVal::F32(b) => f32::from_bits(*b).to_string(), GVal::F64(b) => f64::from_bits(*b).to_string() };
							rows.iter().position(|r| r.0.to_string() == txt).map(|r| format!("{j}:{r}")) }).collect()).unwrap_or_default();
						let got_line = match impl_decode(&raw) { Ok(d) => { let g = dump_tile(&d, false); if g.is_empty() { "-".to_string() } else { g } } Err(_) => "err".into() };
						col.out.line(&format!("mvt.upd {} {} {}{}{} {} {} => {got_line}", hx(&enc_tile(&t)), hx(layer_name.as_bytes()), replace as u8, remove as u8, include as u8, rows_txt, if idmap.is_empty() { "-".to_string() } else { idmap.join(",") }));
					}
					match impl_decode(&raw) { Ok(d) => { let got = dump_tile(&d, false); if got != exp { col.violation("update-content", &desc, "", &format!("expected {exp} got {got}")); } } Err(e) => col.violation("update-output-undecodable", &desc, "", &e) }
				}
				other => col.violation("update-fail", &desc, "", &format!("{:?}", other.map(|r| r.map(|o| o.map(|b| b.len())).map_err(|e| format!("{e:#}"))))),
			}
			let _ = std::fs::remove_file(&csv_path);
		}
	}
	// (4) special floating point values (signed zeros, NaNs with payloads, infinities, negatives): the value tables are
	// rebuilt through hash maps with a fresh random state per call, so each operation is repeated many times
	{
		let specials64: Vec<u64> = vec![0, 1 << 63, 0x7ff8_0000_0000_0000, 0xfff8_0000_0000_0001, 0x7ff0_0000_0000_0000, 0xfff0_0000_0000_0000, (-1.5f64).to_bits(), 1.5f64.to_bits(), 1, (1 << 63) | 1];
		let specials32: Vec<u32> = vec![0, 1 << 31, 0x7fc0_0000, 0xffc0_0001, 0x7f80_0000, 0xff80_0000, (-2.5f32).to_bits(), 2.5f32.to_bits()];
		let mk = |vals: Vec<GVal>, first_id: u64| -> GTile { let n = vals.len() as u32; vec![GLayer { name: "water".into(), extent: 4096, version: 2, keys: vec!["v".into(), "tid".into()], vals: { let mut v = vals; v.push(GVal::UInt(99)); v }, feats: (0..n).map(|k| GFeat { id: Some(first_id + k as u64), tags: vec![0, k, 1, n], gtype: 1, geom: vec![9, 2, 2] }).collect(), tables_first: k_even(first_id) }] };
		fn k_even(k: u64) -> bool { k % 2 == 0 }
		let a = mk(vec![GVal::F64(specials64[0]), GVal::F32(specials32[0]), GVal::F64(specials64[7])], 10);
		let b = mk(specials64.iter().map(|x| GVal::F64(*x)).chain(specials32.iter().map(|x| GVal::F32(*x))).collect(), 100);
		let reps = if ctx.thorough { 6000 } else { 1500 };
		// merge: features of a then b in one layer, every value with its own bits
		let (na, nb) = (format!("sa_{}", ctx.seed), format!("sb_{}", ctx.seed));
		let exp_merge = { let fa = dump_expected(&a, false); let fb_ = dump_expected(&b, false); format!("{};{}", fa.trim_end_matches(']'), fb_.split_once('[').unwrap().1) };
		let dir = std::fs::canonicalize(&ctx.out)?;
		for _round in 0..reps / 500 {
			register(&na, Box::new(MemSource::new(&na, vec![((3, 1, 2), enc_tile(&a))], TileFormat::PBF, TileCompression::Uncompressed)));
			register(&nb, Box::new(MemSource::new(&nb, vec![((3, 1, 2), enc_tile(&b))], TileFormat::PBF, TileCompression::Uncompressed)));
			let vpl = format!("from_vectortiles_merged [ from_container filename={na}, from_container filename={nb} ]");
			let desc = format!("mvt.merge {};{}", hx(&enc_tile(&a)), hx(&enc_tile(&b)));
			let op = match guarded(|| rt.block_on(factory().operation_from_vpl(&vpl))) { Ok(Ok(o)) => o, _ => { col.violation("merge-build", &desc, &desc, "special floats"); break; } };
			let mut bad = None;
			for _ in 0..500 {
				col.spec_cases += 1;
				match guarded(|| rt.block_on(op.get_tile_data(&TileCoord3 { x: 1, y: 2, z: 3 }))) {
					Ok(Ok(Some(bl))) => match impl_decode(bl.as_slice()) { Ok(d) => { let got = dump_tile(&d, true); if got != exp_merge { bad = Some(format!("expected {exp_merge} got {got}")); break; } } Err(e) => { bad = Some(e); break; } },
					other => { bad = Some(format!("{:?}", other.map(|r| r.map(|o| o.map(|b| b.len())).map_err(|e| format!("{e:#}"))))); break; }
				}
			}
			if let Some(d) = bad { col.violation("merge-special-floats", &desc, &desc, &d); break; }
		}
		col.bump("special_float_merges", reps as u64);
		// update_properties with a data table that matches nothing: the layer's tables are rebuilt, content must stay
		let csv_path = dir.join("special.csv"); std::fs::write(&csv_path, "id,extra\n1,x\n")?;
		let nu = format!("su_{}", ctx.seed);
		register(&nu, Box::new(MemSource::new(&nu, vec![((3, 1, 2), enc_tile(&b))], TileFormat::PBF, TileCompression::Uncompressed)));
		let vpl = format!("from_container filename={nu} | vectortiles_update_properties data_source_path=\"{}\" layer_name=\"water\" id_field_tiles=tid id_field_data=id", csv_path.to_str().unwrap());
		let desc = format!("update tile={} layer=water (no matching rows)", hx(&enc_tile(&b)));
		let exp_b = dump_expected(&b, false);
		match guarded(|| rt.block_on(factory().operation_from_vpl(&vpl))) {
			Ok(Ok(op)) => { for _ in 0..reps {
				col.spec_cases += 1;
				let r = guarded(|| rt.block_on(op.get_tile_data(&TileCoord3 { x: 1, y: 2, z: 3 })));
				let got = match &r { Ok(Ok(Some(bl))) => impl_decode(bl.as_slice()).map(|d| dump_tile(&d, false)).unwrap_or_else(|e| e), _ => "lookup failed".to_string() };
				if got != exp_b { col.violation("update-special-floats", &desc, "", &format!("expected {exp_b} got {got}")); break; }
			} }
			_ => col.violation("update-build", &desc, "", "special floats"),
		}
	}
	col.finish()
}
