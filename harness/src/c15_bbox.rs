//! C15: TileBBox / TransformCoord — algorithm-level lines for the Coq model + spec-level (set) checks.
use crate::util::*;
use crate::Ctx;
use anyhow::Result;
use versatiles_core::types::{GeoBBox, TileBBox, TileBBoxPyramid, TileCoord2, TileCoord3};
use versatiles_core::utils::TransformCoord;

pub fn mk(z: u8, x0: u32, y0: u32, x1: u32, y1: u32) -> TileBBox {
	TileBBox { level: z, x_min: x0, y_min: y0, x_max: x1, y_max: y1, max: ((1u64 << z) - 1) as u32 }
}
pub fn fb(b: &TileBBox) -> String {
	format!("{}/{}/{}/{}/{}", b.level, b.x_min, b.y_min, b.x_max, b.y_max)
}
pub fn pb(s: &str) -> TileBBox {
	let v: Vec<u64> = s.split('/').map(|t| t.parse().unwrap()).collect();
	mk(v[0] as u8, v[1] as u32, v[2] as u32, v[3] as u32, v[4] as u32)
}

fn out_of<T>(r: Result<T, String>, f: impl Fn(T) -> String) -> String {
	match r {
		Ok(v) => f(v),
		Err(m) => if is_overflow(&m) { "overflow".into() } else { "panic".into() },
	}
}
fn res<T>(r: Result<anyhow::Result<T>, String>, f: impl Fn(T) -> String) -> String {
	match r {
		Ok(Ok(v)) => format!("ok:{}", f(v)),
		Ok(Err(_)) => "err".into(),
		Err(m) => if is_overflow(&m) { "overflow".into() } else { "panic".into() },
	}
}
fn b01(b: bool) -> String { if b { "1".into() } else { "0".into() } }

const MAX_ENUM: u64 = 4096;

/// pyramids on a line: the levels that differ from TileBBox::new_empty(level), `-` for none
pub fn ppy(s: &str) -> TileBBoxPyramid { let mut p = TileBBoxPyramid::new_empty(); if s != "-" { for t in s.split(',') { p.set_level_bbox(pb(t)); } } p }
pub fn fpy(p: &TileBBoxPyramid) -> String {
	let v: Vec<String> = (0..32u8).filter(|z| p.get_level_bbox(*z) != &TileBBox::new_empty(*z).unwrap()).map(|z| fb(p.get_level_bbox(z))).collect();
	if v.is_empty() { "-".into() } else { v.join(",") }
}

/// evaluates one op line (left-hand side tokens) on the implementation
pub fn eval(op: &str, a: &[&str]) -> String {
	let n = |i: usize| -> u32 { a[i].parse::<u64>().unwrap() as u32 };
	match op {
		"py.intersect" => out_of(guarded(|| { let mut p = ppy(a[0]); p.intersect(&ppy(a[1])); p }), |p| format!("ok:{}", fpy(&p))),
		"py.include" => out_of(guarded(|| { let mut p = ppy(a[0]); p.include_bbox_pyramid(&ppy(a[1])); p }), |p| format!("ok:{}", fpy(&p))),
		"py.inccoord" => out_of(guarded(|| { let mut p = ppy(a[0]); p.include_coord(&TileCoord3 { x: n(2), y: n(3), z: n(1) as u8 }); p }), |p| format!("ok:{}", fpy(&p))),
		"py.zmin" => { let mut p = ppy(a[0]); p.set_zoom_min(n(1) as u8); fpy(&p) }
		"py.zmax" => { let mut p = ppy(a[0]); p.set_zoom_max(n(1) as u8); fpy(&p) }
		"py.info" => { let p = ppy(a[0]); format!("{} {} {} {}", p.get_zoom_min().map_or("-".into(), |z| z.to_string()), p.get_zoom_max().map_or("-".into(), |z| z.to_string()), p.count_tiles(), b01(p.is_empty())) }
		"py.contains" => b01(ppy(a[0]).contains_coord(&TileCoord3 { x: n(2), y: n(3), z: n(1) as u8 })),
		"py.overlaps" => b01(ppy(a[0]).overlaps_bbox(&pb(a[1]))),
		"py.border" => out_of(guarded(|| { let mut p = ppy(a[0]); p.add_border(n(1), n(2), n(3), n(4)); p }), |p| format!("ok:{}", fpy(&p))),
		"geo.axis" => { // S G n uw ue  with  n = 2^z, S = 2^q * 10^6, G = the guard in sub-units, u = 2^z * p * 10^6: longitudes 360 p / 2^q - 180 (exact in f64)
			let v: Vec<u128> = a.iter().map(|t| t.parse::<u128>().unwrap()).collect();
			let (z, q) = (v[2].trailing_zeros(), v[0].trailing_zeros() - 6);
			let lon = |u: u128| -> f64 { let p = u / (v[2] * 1_000_000); (p as f64) * 360.0 / (2f64.powi(q as i32)) - 180.0 };
			match guarded(|| TileBBox::from_geo(z as u8, &GeoBBox(lon(v[3]), -10.0, lon(v[4]), 10.0))) { Ok(Ok(b)) => format!("{} {}", b.x_min, b.x_max), Ok(Err(_)) => "err".into(), Err(_) => "panic".into() } }
		"bb.new" => res(guarded(|| TileBBox::new(n(0) as u8, n(1), n(2), n(3), n(4))), |b| fb(&b)),
		"bb.full" => res(guarded(|| TileBBox::new_full(n(0) as u8)), |b| fb(&b)),
		"bb.emptynew" => res(guarded(|| TileBBox::new_empty(n(0) as u8)), |b| fb(&b)),
		"bb.isempty" => b01(pb(a[0]).is_empty()),
		"bb.count" => { let b = pb(a[0]); format!("{} {} {}", b.width(), b.height(), b.count_tiles()) }
		"bb.contains" => b01(pb(a[0]).contains2(&TileCoord2::new(n(1), n(2)))),
		"bb.contains3" => {
			match TileCoord3::new(n(2), n(3), n(1) as u8) { Ok(c) => b01(pb(a[0]).contains3(&c)), Err(_) => "0".into() }
		}
		"bb.setempty" => { let mut b = pb(a[0]); b.set_empty(); fb(&b) }
		"bb.inccoord" => { let mut b = pb(a[0]); b.include_coord(n(1), n(2)); fb(&b) }
		"bb.border" => out_of(guarded(|| { let mut b = pb(a[0]); b.add_border(n(1), n(2), n(3), n(4)); b }), |b| format!("ok:{}", fb(&b))),
		"bb.include" => res(guarded(|| { let mut b = pb(a[0]); b.include_bbox(&pb(a[1])).map(|_| b) }), |b| fb(&b)),
		"bb.intersect" => res(guarded(|| { let mut b = pb(a[0]); b.intersect_bbox(&pb(a[1])).map(|_| b) }), |b| fb(&b)),
		"bb.overlaps" => res(guarded(|| pb(a[0]).overlaps_bbox(&pb(a[1]))), b01),
		"bb.shift" => { let mut b = pb(a[0]); b.shift_by(n(1), n(2)); fb(&b) }
		"bb.subtract" => { let mut b = pb(a[0]); b.subtract(n(1), n(2)); fb(&b) }
		"bb.scale" => out_of(guarded(|| { let mut b = pb(a[0]); b.scale_down(n(1)); b }), |b| format!("ok:{}", fb(&b))),
		"bb.coords" => {
			let b = pb(a[0]);
			out_of(guarded(|| b.iter_coords().map(|c| format!("{}:{}", c.x, c.y)).collect::<Vec<_>>().join(",")), |s| s)
		}
		"bb.grid" => {
			let b = pb(a[0]);
			// (at most 64 x 64 cells are expected; an implementation that yields far more is cut off - the line differs from the model's anyway)
			out_of(guarded(|| b.iter_bbox_grid(n(1)).take(10_000).map(|c| fb(&c)).collect::<Vec<_>>().join(";")), |s| format!("ok:{s}"))
		}
		"bb.index" => res(guarded(|| pb(a[0]).get_tile_index2(&TileCoord2::new(n(1), n(2)))), |i| i.to_string()),
		"bb.index3" => res(guarded(|| {
			let b = pb(a[0]);
			let c = TileCoord3::new(n(1), n(2), b.level)?;
			b.get_tile_index3(&c)
		}), |i| i.to_string()),
		"bb.coord" => res(guarded(|| pb(a[0]).get_coord2_by_index(n(1))), |c| format!("{}:{}", c.x, c.y)),
		"bb.coord3" => res(guarded(|| pb(a[0]).get_coord3_by_index(n(1))), |c| format!("{}:{}", c.x, c.y)),
		"bb.flip" => out_of(guarded(|| { let mut b = pb(a[0]); b.flip_y(); b }), |b| format!("ok:{}", fb(&b))),
		"bb.swap" => { let mut b = pb(a[0]); b.swap_xy(); fb(&b) }
		"co.flip" => out_of(guarded(|| { let mut c = TileCoord3 { x: n(1), y: n(2), z: n(0) as u8 }; c.flip_y(); c }), |c| format!("ok:{}:{}", c.x, c.y)),
		_ => "?".into(),
	}
}

struct W<'a> { out: &'a mut Out, stats: std::collections::BTreeMap<String, u64> }
impl<'a> W<'a> {
	fn emit(&mut self, op: &str, args: &[String]) {
		let refs: Vec<&str> = args.iter().map(|s| s.as_str()).collect();
		let r = eval(op, &refs);
		*self.stats.entry(format!("op:{op}")).or_insert(0) += 1;
		let kind = r.split(':').next().unwrap_or("");
		if matches!(kind, "err" | "panic" | "overflow") { *self.stats.entry(format!("outcome:{op}:{kind}")).or_insert(0) += 1; }
		self.out.line(&format!("{op} {} => {r}", args.join(" ")));
	}
}

fn all_boxes(z: u8) -> Vec<TileBBox> {
	// every field from 0..=max+1: valid boxes, both canonical empties, all half-empty combinations
	let m = (1u32 << z) - 1;
	let mut v = Vec::new();
	for x0 in 0..=m + 1 { for y0 in 0..=m + 1 { for x1 in 0..=m { for y1 in 0..=m {
		v.push(mk(z, x0, y0, x1, y1));
	}}}}
	v
}

fn unary(w: &mut W, b: &TileBBox, rng: &mut Rng, grid_sizes: &[u32]) {
	let s = fb(b);
	w.emit("bb.isempty", &[s.clone()]);
	w.emit("bb.count", &[s.clone()]);
	w.emit("bb.setempty", &[s.clone()]);
	w.emit("bb.flip", &[s.clone()]);
	w.emit("bb.swap", &[s.clone()]);
	let span = |lo: u32, hi: u32| -> u64 { if hi < lo { 0 } else { (hi - lo) as u64 + 1 } };
	// the model enumerates eagerly: keep both ranges (not only their product) small
	if span(b.x_min, b.x_max) <= 256 && span(b.y_min, b.y_max) <= 256 && b.count_tiles() <= MAX_ENUM { w.emit("bb.coords", &[s.clone()]); }
	for &g in grid_sizes {
		// number of meta cells must stay enumerable
		let (cx, cy) = if g == 0 { (0, 0) } else { (span(b.x_min / g, b.x_max / g), span(b.y_min / g, b.y_max / g)) };
		if cx <= 64 && cy <= 64 { w.emit("bb.grid", &[s.clone(), g.to_string()]); }
	}
	let m = b.max;
	let pts = [0u32, 1, m / 2, m.saturating_sub(1), m, m.wrapping_add(1), b.x_min, b.x_max, b.y_min, b.y_max];
	for _ in 0..3 {
		let x = *rng.pick(&pts); let y = *rng.pick(&pts);
		w.emit("bb.contains", &[s.clone(), x.to_string(), y.to_string()]);
		w.emit("bb.inccoord", &[s.clone(), x.to_string(), y.to_string()]);
		w.emit("bb.index", &[s.clone(), x.to_string(), y.to_string()]);
	}
	let cnt = b.count_tiles();
	for i in [0u64, 1, cnt.saturating_sub(1), cnt, cnt / 2, (cnt as u32) as u64, 4294967295] {
		if i <= u32::MAX as u64 { w.emit("bb.coord", &[s.clone(), i.to_string()]); w.emit("bb.coord3", &[s.clone(), i.to_string()]); }
	}
	let bs = [0u32, 1, 2, m, 1 << 31, u32::MAX];
	w.emit("bb.border", &[s.clone(), rng.pick(&bs).to_string(), rng.pick(&bs).to_string(), rng.pick(&bs).to_string(), rng.pick(&bs).to_string()]);
	w.emit("bb.shift", &[s.clone(), rng.pick(&bs).to_string(), rng.pick(&bs).to_string()]);
	w.emit("bb.subtract", &[s.clone(), rng.pick(&bs).to_string(), rng.pick(&bs).to_string()]);
	w.emit("bb.scale", &[s.clone(), rng.pick(&[0u32, 1, 2, 3, 256, u32::MAX]).to_string()]);
}

fn binary(w: &mut W, a: &TileBBox, b: &TileBBox) {
	let (sa, sb) = (fb(a), fb(b));
	w.emit("bb.intersect", &[sa.clone(), sb.clone()]);
	w.emit("bb.include", &[sa.clone(), sb.clone()]);
	w.emit("bb.overlaps", &[sa, sb]);
}

fn rand_box(rng: &mut Rng) -> TileBBox {
	let z = if rng.chance(1, 3) { *rng.pick(&[0u8, 1, 8, 9, 16, 30, 31]) } else { rng.range(0, 31) as u8 };
	let m = ((1u64 << z) - 1) as u32;
	let mut c = || -> u32 {
		let base = *rng.pick(&[0u32, 1, 255, 256, 257, m / 2, m.saturating_sub(1), m]);
		let v = match rng.below(4) { 0 => base.saturating_sub(1), 1 => base.saturating_add(1), 2 => rng.below(m as u64 + 1) as u32, _ => base };
		v.min(m)
	};
	let (a, b, c2, d) = (c(), c(), c(), c());
	match rng.below(10) {
		0 => mk(z, m + 1, m + 1, 0, 0),
		1 => mk(z, 1, 1, 0, 0),
		2 => mk(z, a, b, c2, d), // possibly half-empty
		_ => mk(z, a.min(c2), b.min(d), a.max(c2), b.max(d)),
	}
}

// ---------------- spec level: boxes as sets (brute force at small zoom) ----------------
fn members(b: &TileBBox) -> Vec<bool> {
	let n = b.max as usize + 1;
	let mut v = vec![false; n * n];
	for y in 0..n { for x in 0..n { v[y * n + x] = b.contains2(&TileCoord2::new(x as u32, y as u32)); } }
	v
}

struct SpecV { kind: &'static str, input: String, detail: String }

fn spec_unary(b: &TileBBox, grid_sizes: &[u32], v: &mut Vec<SpecV>) {
	let n = b.max as usize + 1;
	let mem = members(b);
	let cnt = mem.iter().filter(|x| **x).count() as u64;
	let s = fb(b);
	if b.is_empty() != (cnt == 0) { v.push(SpecV { kind: "is_empty", input: format!("bb.isempty {s}"), detail: format!("is_empty={} but {} members", b.is_empty(), cnt) }); }
	if b.count_tiles() != cnt { v.push(SpecV { kind: "count_tiles", input: format!("bb.count {s}"), detail: format!("count_tiles={} members={}", b.count_tiles(), cnt) }); }
	match guarded(|| b.iter_coords().map(|c| (c.x, c.y)).collect::<Vec<_>>()) {
		Ok(cs) => {
			let mut seen = vec![false; n * n];
			let mut ok = cs.len() as u64 == cnt;
			let mut prev: Option<(u32, u32)> = None;
			for (x, y) in &cs {
				if (*x as usize) >= n || (*y as usize) >= n || !mem[*y as usize * n + *x as usize] || seen[*y as usize * n + *x as usize] { ok = false; break; }
				seen[*y as usize * n + *x as usize] = true;
				if let Some((px, py)) = prev { if !(py < *y || (py == *y && px < *x)) { ok = false; } }
				prev = Some((*x, *y));
			}
			if !ok { v.push(SpecV { kind: "iter_coords", input: format!("bb.coords {s}"), detail: "enumeration is not the member set in row-major order".into() }); }
			// index <-> coordinate
			for (i, (x, y)) in cs.iter().enumerate() {
				let c2 = guarded(|| b.get_coord2_by_index(i as u32));
				let ix = guarded(|| b.get_tile_index2(&TileCoord2::new(*x, *y)));
				let good = matches!(&c2, Ok(Ok(c)) if c.x == *x && c.y == *y) && matches!(&ix, Ok(Ok(j)) if *j == i);
				if !good { v.push(SpecV { kind: "index", input: format!("bb.coord {s} {i}"), detail: format!("k-th coordinate {x}:{y} vs get_coord2_by_index / get_tile_index2 disagree") }); break; }
			}
		}
		Err(m) => v.push(SpecV { kind: "iter_coords-panic", input: format!("bb.coords {s}"), detail: m }),
	}
	for &g in grid_sizes {
		match guarded(|| b.iter_bbox_grid(g).take(100_000).collect::<Vec<_>>()) {
			Ok(cells) => {
				if g == 0 { if !cells.is_empty() { v.push(SpecV { kind: "grid", input: format!("bb.grid {s} 0"), detail: "size 0 must give no cells".into() }); } continue; }
				let mut cover = vec![0u32; n * n];
				let mut ok = true;
				for c in &cells {
					if c.is_empty() || c.level != b.level { ok = false; }
					if c.x_min / g != c.x_max / g || c.y_min / g != c.y_max / g { ok = false; }
					if !c.is_empty() { for y in c.y_min..=c.y_max.min(b.max) { for x in c.x_min..=c.x_max.min(b.max) { cover[y as usize * n + x as usize] += 1; } } }
				}
				for i in 0..n * n { if cover[i] != (mem[i] as u32) { ok = false; } }
				if !ok { v.push(SpecV { kind: "grid", input: format!("bb.grid {s} {g}"), detail: "cells are not a partition of the box into aligned non-empty cells".into() }); }
			}
			Err(m) => v.push(SpecV { kind: "grid-panic", input: format!("bb.grid {s} {g}"), detail: m }),
		}
	}
	// flip / swap: involutions and images
	match guarded(|| { let mut f = b.clone(); f.flip_y(); f }) {
		Ok(f) => {
			let fm = members(&f);
			let mut ok = true;
			for y in 0..n { for x in 0..n { if fm[y * n + x] != mem[(n - 1 - y) * n + x] { ok = false; } } }
			let mut ff = f.clone(); ff.flip_y();
			if members(&ff) != mem { ok = false; }
			if !ok { v.push(SpecV { kind: "flip_y", input: format!("bb.flip {s}"), detail: "flip_y is not the mirror image / not an involution on the member set".into() }); }
		}
		Err(m) => if !b.is_empty() || true { if b.y_max <= b.max || b.is_empty() { v.push(SpecV { kind: "flip_y-panic", input: format!("bb.flip {s}"), detail: m }); } },
	}
	{
		let mut f = b.clone(); f.swap_xy();
		let fm = members(&f);
		let mut ok = true;
		for y in 0..n { for x in 0..n { if fm[y * n + x] != mem[x * n + y] { ok = false; } } }
		let mut ff = f.clone(); ff.swap_xy();
		if members(&ff) != mem { ok = false; }
		if !ok { v.push(SpecV { kind: "swap_xy", input: format!("bb.swap {s}"), detail: "swap_xy is not the transposed member set / not an involution".into() }); }
	}
}

fn spec_binary(a: &TileBBox, b: &TileBBox, v: &mut Vec<SpecV>) {
	let (ma, mb) = (members(a), members(b));
	let (sa, sb) = (fb(a), fb(b));
	let n = a.max as usize + 1;
	match guarded(|| { let mut c = a.clone(); c.intersect_bbox(b).map(|_| c) }) {
		Ok(Ok(c)) => {
			let mc = members(&c);
			if (0..n * n).any(|i| mc[i] != (ma[i] && mb[i])) { v.push(SpecV { kind: "intersect", input: format!("bb.intersect {sa} {sb}"), detail: format!("result {} is not the set intersection", fb(&c)) }); }
		}
		_ => v.push(SpecV { kind: "intersect-fail", input: format!("bb.intersect {sa} {sb}"), detail: "error/panic on same-level boxes".into() }),
	}
	match guarded(|| { let mut c = a.clone(); c.include_bbox(b).map(|_| c) }) {
		Ok(Ok(c)) => {
			// least box containing both: bounding box of the union
			let mc = members(&c);
			let (mut x0, mut y0, mut x1, mut y1, mut any) = (usize::MAX, usize::MAX, 0usize, 0usize, false);
			for y in 0..n { for x in 0..n { if ma[y * n + x] || mb[y * n + x] { any = true; x0 = x0.min(x); y0 = y0.min(y); x1 = x1.max(x); y1 = y1.max(y); } } }
			let mut ok = true;
			for y in 0..n { for x in 0..n {
				let exp = any && x >= x0 && x <= x1 && y >= y0 && y <= y1;
				if mc[y * n + x] != exp { ok = false; }
			} }
			if !ok { v.push(SpecV { kind: "include", input: format!("bb.include {sa} {sb}"), detail: format!("result {} is not the bounding box of the union", fb(&c)) }); }
		}
		_ => v.push(SpecV { kind: "include-fail", input: format!("bb.include {sa} {sb}"), detail: "error/panic on same-level boxes".into() }),
	}
	match guarded(|| a.overlaps_bbox(b)) {
		Ok(Ok(r)) => {
			let exp = (0..n * n).any(|i| ma[i] && mb[i]);
			if r != exp { v.push(SpecV { kind: "overlaps", input: format!("bb.overlaps {sa} {sb}"), detail: format!("overlaps={r}, sets intersect={exp}") }); }
		}
		_ => v.push(SpecV { kind: "overlaps-fail", input: format!("bb.overlaps {sa} {sb}"), detail: "error/panic".into() }),
	}
}

/// large boxes: index <-> coordinate and add_border against exact (u64/set) expectations
fn spec_large(b: &TileBBox, rng: &mut Rng, v: &mut Vec<SpecV>) {
	if b.is_empty() || !wf(b) { return; }
	let s = fb(b);
	let w = (b.x_max - b.x_min) as u64 + 1;
	for k in 0..4 {
		let (x, y) = match k { 0 => (b.x_min, b.y_min), 1 => (b.x_max, b.y_max), _ => (rng.range(b.x_min as u64, b.x_max as u64) as u32, rng.range(b.y_min as u64, b.y_max as u64) as u32) };
		let exp = (y - b.y_min) as u64 * w + (x - b.x_min) as u64;
		match guarded(|| b.get_tile_index2(&TileCoord2::new(x, y))) {
			Ok(Ok(i)) if i as u64 == exp => {}
			other => { v.push(SpecV { kind: "index-large", input: format!("bb.index {s} {x} {y}"), detail: format!("expected index {exp}, got {:?}", other.map(|r| r.map_err(|e| e.to_string()))) }); break; }
		}
		if exp <= u32::MAX as u64 {
			match guarded(|| b.get_coord2_by_index(exp as u32)) {
				Ok(Ok(c)) if c.x == x && c.y == y => {}
				other => { v.push(SpecV { kind: "coord-large", input: format!("bb.coord {s} {exp}"), detail: format!("expected {x}:{y}, got {:?}", other.map(|r| r.map(|c| (c.x, c.y)).map_err(|e| e.to_string()))) }); break; }
			}
		}
	}
	let bs = [0u32, 1, 2, b.max, 1 << 31, u32::MAX];
	let (a0, b0, a1, b1) = (*rng.pick(&bs), *rng.pick(&bs), *rng.pick(&bs), *rng.pick(&bs));
	let exp = (b.x_min.saturating_sub(a0), b.y_min.saturating_sub(b0), ((b.x_max as u64 + a1 as u64).min(b.max as u64)) as u32, ((b.y_max as u64 + b1 as u64).min(b.max as u64)) as u32);
	match guarded(|| { let mut c = b.clone(); c.add_border(a0, b0, a1, b1); c }) {
		Ok(c) if (c.x_min, c.y_min, c.x_max, c.y_max) == exp => {}
		other => v.push(SpecV { kind: "add_border", input: format!("bb.border {s} {a0} {b0} {a1} {b1}"), detail: format!("expected {:?}, got {:?}", exp, other.map(|c| fb(&c))) }),
	}
}

/// boxes the public constructors and set operations can produce (fields <= max, or canonical empties)
fn wf(b: &TileBBox) -> bool { b.x_max <= b.max && b.y_max <= b.max && b.x_min <= b.max + 1 && b.y_min <= b.max + 1 }

/// independent real-valued tile coordinates of a geographic point (other formulas than the code's)
pub fn geo_u(z: u8, lon: f64, lat: f64) -> (f64, f64) {
	let n = 2f64.powi(z as i32);
	let ux = (lon + 180.0) / 360.0 * n;
	let phi = lat.to_radians();
	let uy = if lat >= 90.0 { f64::NEG_INFINITY } else if lat <= -90.0 { f64::INFINITY } else { (1.0 - phi.tan().asinh() / std::f64::consts::PI) / 2.0 * n };
	(ux, uy)
}
/// is `b` a tile box that from_geo may give for the geographic box g = [west, south, east, north] at level z?
/// guard as documented (1e-6 tile, 2^(z-49) from level 30 on); independent coordinates known up to delta
pub fn geo_allowed(z: u8, g: &[f64; 4], b: &TileBBox) -> (bool, bool, (u32, u32), (u32, u32), (u32, u32), (u32, u32)) {
	let guard = if z <= 29 { 1e-6 } else { 2f64.powi(z as i32 - 49) };
	let delta = 2e-7 + 2f64.powi(z as i32) * 2e-14;
	let (uw, un) = geo_u(z, g[0], g[3]); let (ue, us) = geo_u(z, g[2], g[1]);
	let (xl, xh) = (cell_range(uw, guard, delta, z), cell_range(ue, -guard, delta, z));
	let (yl, yh) = (cell_range(un, guard, delta, z), cell_range(us, -guard, delta, z));
	// the code orders the two corners per axis
	let ok_x = b.x_min >= xl.0.min(xh.0) && b.x_min <= xl.1.min(xh.1) && b.x_max >= xl.0.max(xh.0) && b.x_max <= xl.1.max(xh.1);
	let ok_y = b.y_min >= yl.0.min(yh.0) && b.y_min <= yl.1.min(yh.1) && b.y_max >= yl.0.max(yh.0) && b.y_max <= yl.1.max(yh.1);
	(ok_x, ok_y, xl, xh, yl, yh)
}
/// [lowest, highest] cell index that floor(u + shift) may take when u is known up to +-delta, clamped to the level
pub fn cell_range(u: f64, shift: f64, delta: f64, z: u8) -> (u32, u32) {
	let m = ((1u64 << z) - 1) as f64;
	let c = |v: f64| -> u32 { if v.is_nan() { 0 } else { v.floor().max(0.0).min(m) as u32 } };
	(c(u + shift - delta), c(u + shift + delta))
}
/// the discrete stage of from_geo against the Coq model (Model/Geo.v), for the checks of properties that lean on it (C09, C06):
/// longitudes whose tile coordinate is exact in f64, on and around tile edges, all 32 levels
pub fn geo_axis_lines(out: &mut Out, rng: &mut Rng) {
	let offs: [i64; 9] = [0, 1, -1, (1 << 20) - 1, 1 - (1 << 20), 1 << 20, -(1 << 20), 1 << 21, -(1 << 21)];
	let q = 40u32;
	for z in 0..=31u8 {
		let n = 1u64 << z;
		let guard_units: u128 = if z <= 29 { 1u128 << q } else { 1_000_000u128 << (z as u32 + q - 49) }; let per_tile: i64 = 1i64 << (q - z as u32);
		let cells: Vec<u64> = if z <= 2 { (0..=n).collect() } else { vec![0, 1, n / 2, n - 1, n, rng.below(n + 1)] };
		for &cw in &cells { for &ce in &cells { if ce < cw { continue; }
			for k in 0..3 {
				let (ow, oe) = if k == 0 && cw == ce { (0, 0) } else { (*rng.pick(&offs), *rng.pick(&offs)) }; // k = 0: a box without extent exactly on the edge
				let pw = (cw as i64 * per_tile + ow).clamp(0, 1i64 << q); let pe = (ce as i64 * per_tile + oe).clamp(0, 1i64 << q);
				if pe < pw { continue; }
				let big = |p: i64| -> String { ((p as u128) * (n as u128) * 1_000_000u128).to_string() };
				let args = [((1u128 << q) * 1_000_000).to_string(), guard_units.to_string(), n.to_string(), big(pw), big(pe)];
				let refs: Vec<&str> = args.iter().map(|s| s.as_str()).collect();
				out.line(&format!("geo.axis {} => {}", args.join(" "), eval("geo.axis", &refs)));
			}
		} }
	}
}
fn geo_section(w: &mut W, rng: &mut Rng, specv: &mut Vec<SpecV>, spec_cases: &mut u64, thorough: bool) {
	// (1) the discrete stage against the Coq model: longitudes whose tile coordinate is exact in f64, on and around tile edges
	let offs: [i64; 15] = [0, 1, -1, 1 << 10, -(1 << 10), (1 << 20) - 1, 1 - (1 << 20), 1 << 20, -(1 << 20), 1 << 21, -(1 << 21), 1 << 39, -(1 << 39), 3 << 30, -(3 << 30)];
	let q = 40u32; // sub-tile resolution 2^-40 * 2^z; 2^-20 tile = 0.95e-6 < guard < 2^-19
	for z in 0..=31u8 {
		let n = 1u64 << z;
		// the guard as documented, not taken from the code: 1e-6 tile, from level 30 on 8 eps 2^z = 2^(z-49) tile
		let guard_units: u128 = if z <= 29 { 1u128 << q } else { 1_000_000u128 << (z as u32 + q - 49) }; let per_tile: i64 = 1i64 << (q - z as u32);
		let cells: Vec<u64> = if z <= 3 { (0..=n).collect() } else { let mut v = vec![0, 1, 2, n / 2, n - 1, n]; for _ in 0..(if thorough { 12 } else { 4 }) { v.push(rng.below(n + 1)); } v };
		for &cw in &cells { for &ce in &cells { if ce < cw { continue; }
			for _ in 0..(if z <= 3 { 6 } else { 3 }) {
				let (ow, oe) = (*rng.pick(&offs), *rng.pick(&offs));
				let pw = (cw as i64 * per_tile + ow).clamp(0, 1i64 << q); let pe = (ce as i64 * per_tile + oe).clamp(0, 1i64 << q);
				if pe < pw { continue; }
				let big = |p: i64| -> String { ((p as u128) * (n as u128) * 1_000_000u128).to_string() };
				w.emit("geo.axis", &[((1u128 << q) * 1_000_000).to_string(), guard_units.to_string(), n.to_string(), big(pw), big(pe)]);
			}
		} }
	}
	// (2) tile box -> geographic bounds -> tile box, all levels (every box of levels 0..3, all single tiles of 4..7, rows/columns/corners of deeper ones)
	let mut boxes: Vec<TileBBox> = Vec::new();
	for z in 0..=3u8 { for b in all_boxes(z) { if wf(&b) && !b.is_empty() { boxes.push(b); } } }
	for z in 4..=7u8 { let n = 1u32 << z; for x in 0..n { for y in 0..n { if z <= 5 || rng.chance(1, if thorough { 2 } else { 8 }) { boxes.push(TileBBox::new(z, x, y, x, y).unwrap()); } } } }
	for z in 4..=31u8 { let m = ((1u64 << z) - 1) as u32;
		for _ in 0..(if thorough { 400 } else { 60 }) {
			let pick = |rng: &mut Rng| -> u32 { match rng.below(6) { 0 => 0, 1 => m, 2 => m / 2, 3 => m / 2 + 1, _ => rng.below(m as u64 + 1) as u32 } };
			let (x0, y0) = (pick(rng), pick(rng)); let (x1, y1) = (if rng.chance(1, 2) { x0 } else { pick(rng).max(x0) }, if rng.chance(1, 2) { y0 } else { pick(rng).max(y0) });
			boxes.push(TileBBox::new(z, x0, y0, x1, y1).unwrap());
		} }
	for b in &boxes {
		*spec_cases += 1; *w.stats.entry("geo:roundtrip".into()).or_insert(0) += 1;
		let g = b.as_geo_bbox();
		match guarded(|| TileBBox::from_geo(b.level, &g)) {
			Ok(Ok(back)) => if &back != b { specv.push(SpecV { kind: "geo-roundtrip", input: format!("geo.roundtrip {}", fb(b)), detail: format!("as_geo_bbox = {g:?}, from_geo gives {}", fb(&back)) }); },
			other => specv.push(SpecV { kind: "geo-roundtrip", input: format!("geo.roundtrip {}", fb(b)), detail: format!("as_geo_bbox = {g:?}, from_geo: {:?}", other.map(|r| r.map(|b| fb(&b)).map_err(|e| e.to_string()))) }),
		}
	}
	// (3) every valid geographic box maps to a non-empty tile box that covers it up to the guard (independent coordinates, error-aware)
	let lons = [-180.0, -179.9999999, -90.0, -0.0000001, 0.0, 1e-9, 13.4, 90.0, 179.9999999, 180.0]; let lats = [-90.0, -89.9, -85.05112877980659, -85.0511, -60.0, -1e-9, 0.0, 1e-9, 52.5, 66.51326044311186, 85.0511, 85.05112877980659, 85.06, 89.999999, 90.0];
	for _ in 0..(if thorough { 60000 } else { 8000 }) {
		let z = rng.below(32) as u8;
		let mut lon = |rng: &mut Rng| -> f64 { if rng.chance(1, 3) { *rng.pick(&lons) } else { (rng.below(3_600_000_001) as f64) / 1e7 - 180.0 } };
		let (a, b2) = (lon(rng), lon(rng)); let (west, mut east) = (a.min(b2), a.max(b2));
		let mut lat = |rng: &mut Rng| -> f64 { if rng.chance(1, 3) { *rng.pick(&lats) } else { (rng.below(1_800_000_001) as f64) / 1e7 - 90.0 } };
		let (c, d) = (lat(rng), lat(rng)); let (south, mut north) = (c.min(d), c.max(d));
		match rng.below(6) { 0 => { east = west; north = south; } 1 => { east = (west + 1e-9).min(180.0); north = (south + 1e-9).min(90.0); } _ => {} }
		let g = GeoBBox(west, south, east, north);
		*spec_cases += 1; *w.stats.entry("geo:cover".into()).or_insert(0) += 1;
		let input = format!("geo.cover {z} {west:?} {south:?} {east:?} {north:?}");
		match guarded(|| TileBBox::from_geo(z, &g)) {
			Ok(Ok(b)) => {
				if b.is_empty() || b.x_max > b.max || b.y_max > b.max { specv.push(SpecV { kind: "geo-empty", input, detail: format!("valid geographic box maps to {}", fb(&b)) }); continue; }
				let (ok_x, ok_y, xl, xh, yl, yh) = geo_allowed(z, &[west, south, east, north], &b);
				if !ok_x || !ok_y { specv.push(SpecV { kind: "geo-cover", input, detail: format!("from_geo gives {}, independent coordinates allow x_min {:?} x_max {:?} y_min {:?} y_max {:?}", fb(&b), xl, xh, yl, yh) }); }
			}
			other => specv.push(SpecV { kind: "geo-error", input, detail: format!("valid geographic box rejected: {:?}", other.map(|r| r.map(|b| fb(&b)).map_err(|e| e.to_string()))) }),
		}
	}
}

pub fn run(ctx: &Ctx) -> Result<()> {
	let mut out = Out::create(&ctx.out, "cases.txt")?;
	let mut specv: Vec<SpecV> = Vec::new();
	let mut spec_cases = 0u64;
	let mut rng = Rng::new(ctx.seed);
	let stats;
	{
		let mut w = W { out: &mut out, stats: Default::default() };
		if let Some(path) = &ctx.replay {
			for l in std::fs::read_to_string(path)?.lines() {
				let l = l.split(" => ").next().unwrap().trim();
				if l.is_empty() || l.starts_with('#') { continue; }
				let toks: Vec<String> = l.split(' ').map(|s| s.to_string()).collect();
				w.emit(&toks[0], &toks[1..]);
				// spec-level replay
				let bx: Vec<TileBBox> = toks[1..].iter().filter(|t| t.matches('/').count() == 4).map(|t| pb(t)).collect();
				if bx.iter().all(|b| b.level <= 4) {
					let gs: Vec<u32> = if toks[0] == "bb.grid" { vec![toks[2].parse().unwrap()] } else { vec![] };
					if bx.len() == 1 { spec_unary(&bx[0], &gs, &mut specv); }
				}
				if bx.len() == 1 { for _ in 0..50 { spec_large(&bx[0], &mut rng, &mut specv); } }
				if bx.iter().all(|b| b.level <= 4) {
					if bx.len() == 2 && bx[0].level == bx[1].level { spec_binary(&bx[0], &bx[1], &mut specv); }
				}
			}
		} else {
			let grid_small = [0u32, 1, 2, 3, 4, 5, 8, 32, 256, 1 << 31, u32::MAX];
			// constructors
			for z in 0..=33u32 {
				w.emit("bb.full", &[z.to_string()]);
				w.emit("bb.emptynew", &[z.to_string()]);
			}
			for _ in 0..(if ctx.thorough { 20000 } else { 2000 }) {
				let b = rand_box(&mut rng);
				let z = if rng.chance(1, 10) { rng.range(30, 40) as u8 } else { b.level };
				w.emit("bb.new", &[z.to_string(), b.x_min.to_string(), b.y_min.to_string(), b.x_max.to_string(), b.y_max.to_string()]);
				w.emit("co.flip", &[b.level.to_string(), b.x_min.to_string(), (b.y_max as u64 + rng.below(3)).min(u32::MAX as u64).to_string()]);
			}
			// pyramids: sparse levels (with gaps), boxes incl. empty encodings, level-wise operations
			let gen_py = |rng: &mut Rng| -> String { let k = rng.below(5); let mut v: Vec<String> = vec![]; let mut zs: Vec<u8> = (0..k).map(|_| *rng.pick(&[0u8, 1, 2, 3, 4, 5, 9, 14, 30, 31])).collect(); zs.sort(); zs.dedup();
				for z in zs { let m = ((1u64 << z) - 1) as u32; let b = match rng.below(6) { 0 => TileBBox::new_full(z).unwrap(), 1 => { let mut b = TileBBox::new_full(z).unwrap(); b.set_empty(); b }
					_ => { let (x0, x1, y0, y1) = (rng.below(m as u64 + 1) as u32, rng.below(m as u64 + 1) as u32, rng.below(m as u64 + 1) as u32, rng.below(m as u64 + 1) as u32); mk(z, x0.min(x1), y0.min(y1), x0.max(x1), y0.max(y1)) } }; v.push(fb(&b)); }
				if v.is_empty() { "-".into() } else { v.join(",") } };
			for _ in 0..(if ctx.thorough { 20000 } else { 1500 }) {
				let (p, q) = (gen_py(&mut rng), gen_py(&mut rng));
				w.emit("py.intersect", &[p.clone(), q.clone()]);
				// set semantics of the level-wise operations at the corners of every box involved
				{ let (pp, qq) = (ppy(&p), ppy(&q)); spec_cases += 1;
					let probes: Vec<TileCoord3> = pp.iter_levels().chain(qq.iter_levels()).flat_map(|b| vec![(b.x_min, b.y_min), (b.x_max, b.y_max), (b.x_min, b.y_max), ((b.x_min + b.x_max) / 2, (b.y_min + b.y_max) / 2)].into_iter().map(move |(x, y)| TileCoord3 { x, y, z: b.level })).collect();
					if let Ok(r) = guarded(|| { let mut r = pp.clone(); r.intersect(&qq); r }) { for c in &probes { if r.contains_coord(c) != (pp.contains_coord(c) && qq.contains_coord(c)) {
						specv.push(SpecV { kind: "pyramid-intersect", input: format!("py.intersect {p} {q}"), detail: format!("coordinate {}/{}/{} is {}in the result, {}in the first and {}in the second pyramid", c.z, c.x, c.y, if r.contains_coord(c) { "" } else { "not " }, if pp.contains_coord(c) { "" } else { "not " }, if qq.contains_coord(c) { "" } else { "not " }) }); break; } } }
					if let Ok(r) = guarded(|| { let mut r = pp.clone(); r.include_bbox_pyramid(&qq); r }) { for c in &probes { if !r.contains_coord(c) {
						specv.push(SpecV { kind: "pyramid-include", input: format!("py.include {p} {q}"), detail: format!("coordinate {}/{}/{} of an included box is not in the result", c.z, c.x, c.y) }); break; } } }
				}
				w.emit("py.include", &[p.clone(), q.clone()]);
				let z = *rng.pick(&[0u8, 1, 2, 3, 5, 9, 14, 30, 31]); let m = ((1u64 << z) - 1) as u32;
				let (x, y) = (rng.below(m as u64 + 1) as u32, rng.below(m as u64 + 1) as u32);
				w.emit("py.inccoord", &[p.clone(), z.to_string(), x.to_string(), y.to_string()]);
				w.emit("py.contains", &[p.clone(), z.to_string(), x.to_string(), y.to_string()]);
				let lim = *rng.pick(&[0u8, 1, 2, 3, 4, 5, 9, 14, 30, 31, 32, 40, 255]);
				w.emit("py.zmin", &[p.clone(), lim.to_string()]);
				w.emit("py.zmax", &[p.clone(), lim.to_string()]);
				w.emit("py.info", &[p.clone()]);
				w.emit("py.overlaps", &[p.clone(), fb(&mk(z, x, y, m.min(x + 3), m.min(y + 2)))]);
				w.emit("py.border", &[q.clone(), rng.below(4).to_string(), rng.below(4).to_string(), rng.below(300).to_string(), rng.below(4).to_string()]);
			}
			// exhaustive small zoom
			let zmax_unary = 3u8;
			for z in 0..=zmax_unary {
				let boxes = all_boxes(z);
				for b in &boxes {
					if z == 3 && !ctx.thorough && rng.below(4) != 0 { continue; }
					unary(&mut w, b, &mut rng, &grid_small);
					if wf(b) { spec_unary(b, &[0, 1, 2, 3, 5, 8], &mut specv); spec_cases += 1; }
				}
				*w.stats.entry(format!("boxes_z{z}")).or_insert(0) += boxes.len() as u64;
				// pairs
				let pair_budget: u64 = if ctx.thorough { 2_000_000 } else { 40_000 };
				let total = (boxes.len() as u64) * (boxes.len() as u64);
				if total <= pair_budget {
					for a in &boxes { for b in &boxes { binary(&mut w, a, b); if wf(a) && wf(b) { spec_binary(a, b, &mut specv); spec_cases += 1; } } }
				} else {
					for _ in 0..pair_budget {
						let a = rng.pick(&boxes).clone(); let b = rng.pick(&boxes).clone();
						binary(&mut w, &a, &b);
						if rng.chance(1, 4) && wf(&a) && wf(&b) { spec_binary(&a, &b, &mut specv); spec_cases += 1; }
					}
				}
			}
			geo_section(&mut w, &mut rng, &mut specv, &mut spec_cases, ctx.thorough);
			// sampled large zoom with border coordinates
			let n = if ctx.thorough { 60000 } else { 6000 };
			for _ in 0..n {
				let a = rand_box(&mut rng);
				unary(&mut w, &a, &mut rng, &[0, 1, 256, 1 << 31, u32::MAX, 1000, 32]);
				let mut b = rand_box(&mut rng);
				if rng.chance(5, 6) { b.level = a.level; b.max = a.max; b.x_min = b.x_min.min(a.max + 1); b.y_min = b.y_min.min(a.max + 1); b.x_max = b.x_max.min(a.max); b.y_max = b.y_max.min(a.max); }
				binary(&mut w, &a, &b);
				spec_large(&a, &mut rng, &mut specv); spec_cases += 1;
			}
		}
		stats = w.stats;
	}
	let lines = out.lines;
	out.finish();
	let mut v = Out::create(&ctx.out, "spec_violations.jsonl")?;
	for x in &specv {
		v.line(&format!("{{\"kind\":{},\"input\":{},\"replay\":{},\"detail\":{}}}", jstr(x.kind), jstr(&x.input), jstr(&x.input), jstr(&x.detail)));
	}
	v.finish();
	let mut s = Out::create(&ctx.out, "stats.json")?;
	s.line(&format!("{{\"lines\":{lines},\"spec_cases\":{spec_cases},\"spec_violations\":{},\"groups\":{{{}}}}}", specv.len(),
		stats.iter().map(|(k, v)| format!("{}:{}", jstr(k), v)).collect::<Vec<_>>().join(",")));
	s.finish();
	Ok(())
}
